------------------------------ MODULE YggSession ------------------------------
(***************************************************************************)
(* X12 (specification extension): the Yggdrasil account client of go-mc as *)
(* a token / session state machine: yggdrasil.Authenticate, Access.Refresh, *)
(* Validate, Invalidate, SignOut, SetTokens (yggdrasil/*.go) and the        *)
(* session-server half of a login: the join request of the client           *)
(* (bot/login.go loginAuth) and the hasJoined request of the server         *)
(* (server/auth/auth.go authentication).                                    *)
(*                                                                         *)
(* State `s` (one record so that a call is a function Step(code, s, p)):   *)
(*  server   valid   set of <<accessToken, clientToken, user>> triples     *)
(*           ctr     the next access token (tokens are 1, 2, ..: a token   *)
(*                   is issued at most once), nct the next client token id *)
(*                   (client tokens are chosen by the CLIENT: a fresh uuid *)
(*                   per Authenticate call; the id is its order of arrival)*)
(*           rev     access tokens that were valid once and are not any    *)
(*                   more (history)                                        *)
(*           joined  set of <<user, serverId>>: join requests accepted     *)
(*  client   cl      slot -> [at, ct, prof, avail]: the tokens of one      *)
(*                   yggdrasil.Access (GetTokens), its selected profile    *)
(*                   and its available profile as user ids (0 = none).     *)
(*                   Token 0 is the empty string, -1 a string the server   *)
(*                   never issued.                                         *)
(*                                                                         *)
(* A call `p` names the operation, its arguments and the FAULT the model   *)
(* server answers with (ServerError(status, body class) of the task):      *)
(*   none                        the documented answer                     *)
(*   http(st, b)                 status class st (4 = 400/401/404/429,     *)
(*                               5 = 5xx; never the status the protocol    *)
(*                               gives a meaning to) with body class b:    *)
(*                               errdoc = {"error":..,"errorMessage":..},  *)
(*                               empty, html (not JSON), json (a JSON      *)
(*                               object that is no error document: {}).    *)
(*                               The request is NOT processed.             *)
(*   transport                   the round trip fails, not processed       *)
(*   lost(neterr|cut|mistyped)   the request IS processed, the reply is    *)
(*                               lost (connection error / body cut in the  *)
(*                               middle) or carries a field of the wrong   *)
(*                               JSON type behind the tokens               *)
(* The result of a call is R(state, ok (= no error returned), ret, error   *)
(* kind (ygg = a yggdrasil.Error carrying the fields of the document),     *)
(* the requests the server must have seen).                                *)
(*                                                                         *)
(* Two layers: Step(FALSE, ..) the INTENT (every fault is an error, a      *)
(* failed call changes nothing at the client), Step(TRUE, ..) AS CODED.    *)
(* They differ in the classes named by Class:                              *)
(*  AuthenticateJsonStatus  the HTTP status is never looked at: an error   *)
(*                          status with a JSON body that has no "error"    *)
(*                          member yields an Access with empty tokens      *)
(*  RefreshJsonStatus       .. and Refresh reports success (nothing moved) *)
(*  RefreshMistyped         Refresh decodes into the live Access: a reply  *)
(*                          that fails to decode behind the tokens leaves  *)
(*                          the new tokens in place and reports an error   *)
(*  ValidateStatus          every status other than 204 is (false, nil):   *)
(*                          a rate-limited (429) or failing (5xx) server   *)
(*                          reads as "the token is invalid"                *)
(*  HasJoinedStatus         the status is never looked at: a non-200 reply *)
(*                          with any JSON object is an accepted login with *)
(*                          empty name and the zero uuid                   *)
(*  HasJoinedQuery          the user name is pasted into the URL without   *)
(*                          escaping: `&`, `#`, `+`, `%` change the query   *)
(*                          the session server sees                        *)
(***************************************************************************)
EXTENDS Integers, Sequences, FiniteSets, TLC

CONSTANTS Users,            \* user ids (1..); 0 = an unknown user name
          Slots,            \* client slots (each holds one yggdrasil.Access)
          SIds,             \* server ids (the hash a login derives from shared secret and public key)
          Inject, Garble,   \* names that are no user: containing `&serverId=0#` / containing `+` or `%xx`
          MaxTok, MaxCt,    \* generator: bound on access tokens issued / Authenticate calls
          FaultSet,         \* generator: the faults offered
          Variant           \* "intent" | "code" | "broken"
Code == Variant = "code"
Broken == Variant = "broken"       \* vacuity guard: the server keeps the old access token valid on refresh

VARIABLES s, act
vars == <<s, act>>
View == s

Names == Users \cup Inject \cup Garble
Bogus == -1

\* ---------------------------------------------------------------- faults
F(k, st, b) == [k |-> k, st |-> st, b |-> b]
NoF == F("none", 0, "none")
HttpFaults == {F("http", st, b) : st \in {4, 5}, b \in {"errdoc", "empty", "html", "json"}}
LostFaults == {F("lost", 0, b) : b \in {"neterr", "cut", "mistyped"}}
AllFaults == HttpFaults \cup LostFaults \cup {F("transport", 0, "none")}
Processed(f) == f.k \in {"none", "lost"}
HasBody(k) == k \in {"authenticate", "refresh", "hasjoined"}       \* calls whose documented answer has a body
Applies(k, f) == f.k # "lost" \/ f.b = "neterr" \/ HasBody(k)

MC_FaultsQ == {F("http", 4, "errdoc"), F("http", 5, "json"), F("transport", 0, "none"), F("lost", 0, "neterr"), F("lost", 0, "mistyped")}
MC_FaultsB == {F("http", 5, "json"), F("transport", 0, "none"), F("lost", 0, "mistyped")}

\* ---------------------------------------------------------------- calls, requests, results
P(k, slot, user, good, at, ct, sid, name, wp, f) ==
  [k |-> k, slot |-> slot, user |-> user, good |-> good, at |-> at, ct |-> ct, sid |-> sid, name |-> name, wp |-> wp, f |-> f]
(* a request as the server sees it: method, host, path, the sorted names of the body members (of the query    *)
(* parameters for GET) and their values as tokens; agent = 1: {"name":"Minecraft","version":1}; ru = 1:        *)
(* "requestUser":true; ctype = 1: Content-Type application/json; ua = 1: User-Agent go-mc                      *)
Req(m, host, path, keys, at, ct, user, pw, prof, pname, sid, name, agent, ru, ctype, ua) ==
  [m |-> m, host |-> host, path |-> path, keys |-> keys, at |-> at, ct |-> ct, user |-> user, pw |-> pw, prof |-> prof,
   pname |-> pname, sid |-> sid, name |-> name, agent |-> agent, ru |-> ru, ctype |-> ctype, ua |-> ua]
R(st, ok, ret, ek, reqs) == [s |-> st, ok |-> ok, ret |-> ret, ek |-> ek, reqs |-> reqs]

ZeroCl == [at |-> 0, ct |-> 0, prof |-> 0, avail |-> 0]
Match(st, at, ct) == {v \in st.valid : v[1] = at /\ v[2] = ct}
UserOf(m) == IF m = {} THEN 0 ELSE (CHOOSE v \in m : TRUE)[3]
EKDoc(ok, f, denied) == IF ok THEN "none" ELSE IF (f.k = "none" /\ denied) \/ (f.k = "http" /\ f.b = "errdoc") THEN "ygg" ELSE "other"
EK(ok) == IF ok THEN "none" ELSE "other"
B2I(b) == IF b THEN 1 ELSE 0

KAuth == <<"agent.name", "agent.version", "clientToken", "password", "requestUser", "username">>
KRefresh == <<"accessToken", "clientToken", "requestUser">>
KRefreshP == <<"accessToken", "clientToken", "requestUser", "selectedProfile.id", "selectedProfile.name">>
KTokens == <<"accessToken", "clientToken">>
KProof == <<"password", "username">>
KJoin == <<"accessToken", "selectedProfile.id", "selectedProfile.name", "serverId">>
KHas == <<"serverId", "username">>

StepAuth(code, st, p) ==
  LET f == p.f
      good == p.good /\ p.user \in Users
      grant == Processed(f) /\ good
      st1 == [st EXCEPT !.nct = @ + 1, !.ctr = IF grant THEN @ + 1 ELSE @,
                        !.valid = IF grant THEN @ \cup {<<st.ctr, st.nct, p.user>>} ELSE @]
      req == Req("POST", "auth", "/authenticate", KAuth, 0, st.nct, p.user, B2I(p.good), 0, 0, 0, 0, 1, 1, 1, 1)
      silent == code /\ f.k = "http" /\ f.b = "json"
      ok == (f.k = "none" /\ good) \/ silent
      newcl == IF silent THEN ZeroCl ELSE [at |-> st.ctr, ct |-> st.nct, prof |-> p.user, avail |-> p.user]
      st2 == IF ok THEN [st1 EXCEPT !.cl[p.slot] = newcl] ELSE st1
  IN R(st2, ok, 0, EKDoc(ok, f, TRUE), <<req>>)

StepRefresh(code, st, p) ==
  LET f == p.f
      c == st.cl[p.slot]
      m == Match(st, c.at, c.ct)
      can == m # {} /\ ~p.wp                 \* a token that has a profile cannot select one: IllegalArgumentException
      rot == Processed(f) /\ can
      u == UserOf(m)
      st1 == IF rot THEN [st EXCEPT !.ctr = @ + 1, !.rev = @ \cup {c.at},
                                    !.valid = (IF Broken THEN @ ELSE @ \ m) \cup {<<st.ctr, c.ct, u>>}]
             ELSE st
      req == Req("POST", "auth", "/refresh", IF p.wp THEN KRefreshP ELSE KRefresh, c.at, c.ct, 0, 0,
                 IF p.wp THEN p.user ELSE 0, IF p.wp THEN p.user ELSE 0, 0, 0, 0, 1, 1, 1)
      silent == code /\ f.k = "http" /\ f.b = "json"
      leak == code /\ rot /\ f.k = "lost" /\ f.b = "mistyped"
      ok == (f.k = "none" /\ can) \/ silent
      st2 == IF (ok /\ ~silent) \/ leak THEN [st1 EXCEPT !.cl[p.slot] = [c EXCEPT !.at = st.ctr, !.prof = u]] ELSE st1
  IN R(st2, ok, 0, EKDoc(ok, f, TRUE), <<req>>)

StepValidate(code, st, p) ==
  LET f == p.f
      c == st.cl[p.slot]
      lenient == code /\ f.k = "http"
      ok == f.k = "none" \/ lenient
      req == Req("POST", "auth", "/validate", KTokens, c.at, c.ct, 0, 0, 0, 0, 0, 0, 0, 0, 1, 1)
  IN R(st, ok, B2I(f.k = "none" /\ Match(st, c.at, c.ct) # {}), EK(ok), <<req>>)

StepInvalidate(code, st, p) ==
  LET f == p.f
      c == st.cl[p.slot]
      m == Match(st, c.at, c.ct)
      st1 == IF Processed(f) /\ m # {} THEN [st EXCEPT !.valid = @ \ m, !.rev = @ \cup {c.at}] ELSE st
      ok == f.k = "none"                      \* the server answers 204 whether or not the pair was valid
      req == Req("POST", "auth", "/invalidate", KTokens, c.at, c.ct, 0, 0, 0, 0, 0, 0, 0, 0, 1, 1)
  IN R(st1, ok, 0, EK(ok), <<req>>)

StepSignOut(code, st, p) ==
  LET f == p.f
      good == p.good /\ p.user \in Users
      gone == {v \in st.valid : v[3] = p.user}
      st1 == IF Processed(f) /\ good THEN [st EXCEPT !.valid = @ \ gone, !.rev = @ \cup {v[1] : v \in gone}] ELSE st
      ok == f.k = "none" /\ good
      req == Req("POST", "auth", "/signout", KProof, 0, 0, p.user, B2I(p.good), 0, 0, 0, 0, 0, 0, 1, 1)
  IN R(st1, ok, 0, EK(ok), <<req>>)

StepSetTokens(code, st, p) ==
  R([st EXCEPT !.cl[p.slot] = [@ EXCEPT !.at = p.at, !.ct = p.ct]], TRUE, 0, "none", <<>>)

(* the client's half of a login: POST join with the access token, the selected profile and the server hash *)
StepJoin(code, st, p) ==
  LET f == p.f
      c == st.cl[p.slot]
      has == c.prof # 0 /\ \E v \in st.valid : v[1] = c.at /\ v[3] = c.prof
      st1 == IF Processed(f) /\ has THEN [st EXCEPT !.joined = @ \cup {<<c.prof, p.sid>>}] ELSE st
      ok == f.k = "none" /\ has
      req == Req("POST", "session", "/session/minecraft/join", KJoin, c.at, 0, 0, 0, c.prof, c.prof, p.sid, 0, 0, 0, 1, 1)
  IN R(st1, ok, 0, EK(ok), <<req>>)

(* the server's half: GET hasJoined?username=<name>&serverId=<hash>; 200 + profile if that user joined, 204 if not *)
StepHasJoined(code, st, p) ==
  LET f == p.f
      odd == code /\ p.name \notin Users
      qn == IF odd THEN 0 ELSE p.name                               \* the name / hash the server finds in the query
      qs == IF code /\ p.name \in Inject THEN 0 ELSE p.sid
      in == <<qn, qs>> \in st.joined
      silent == code /\ f.k = "http" /\ f.b \in {"errdoc", "json"}
      ok == (f.k = "none" /\ in) \/ silent
      req == Req("GET", "session", "/session/minecraft/hasJoined", KHas, 0, 0, 0, 0, 0, 0, qs, qn, 0, 0, 0, 0)
  IN R(st, ok, IF f.k = "none" /\ in THEN qn ELSE 0, EK(ok), <<req>>)

Step(code, st, p) ==
  CASE p.k = "authenticate" -> StepAuth(code, st, p)
    [] p.k = "refresh" -> StepRefresh(code, st, p)
    [] p.k = "validate" -> StepValidate(code, st, p)
    [] p.k = "invalidate" -> StepInvalidate(code, st, p)
    [] p.k = "signout" -> StepSignOut(code, st, p)
    [] p.k = "settokens" -> StepSetTokens(code, st, p)
    [] p.k = "join" -> StepJoin(code, st, p)
    [] p.k = "hasjoined" -> StepHasJoined(code, st, p)

(* where the layers may part (by the shape of the call alone) and the name of the class *)
Named(p) ==
  CASE p.k = "authenticate" /\ p.f.k = "http" /\ p.f.b = "json" -> "AuthenticateJsonStatus"
    [] p.k = "refresh" /\ p.f.k = "http" /\ p.f.b = "json" -> "RefreshJsonStatus"
    [] p.k = "refresh" /\ p.f.k = "lost" /\ p.f.b = "mistyped" -> "RefreshMistyped"
    [] p.k = "validate" /\ p.f.k = "http" -> "ValidateStatus"
    [] p.k = "hasjoined" /\ p.f.k = "http" /\ p.f.b \in {"errdoc", "json"} -> "HasJoinedStatus"
    [] p.k = "hasjoined" /\ p.name \notin Users -> "HasJoinedQuery"
    [] OTHER -> "none"
Class(st, p) == IF Step(TRUE, st, p) = Step(FALSE, st, p) THEN "none" ELSE Named(p)

\* ---------------------------------------------------------------- generator
Init0 == [valid |-> {}, ctr |-> 1, nct |-> 1, rev |-> {}, joined |-> {}, cl |-> [x \in Slots |-> ZeroCl]]
Some(Q(_)) ==
  \E f \in FaultSet \cup {NoF} :
    \/ \E x \in Slots, u \in Users \cup {0}, g \in BOOLEAN :
         s.nct <= MaxCt /\ s.ctr <= MaxTok /\ Applies("authenticate", f) /\ Q(P("authenticate", x, u, g, 0, 0, 0, 0, FALSE, f))
    \/ \E x \in Slots, wp \in BOOLEAN :
         s.ctr <= MaxTok /\ Applies("refresh", f) /\ Q(P("refresh", x, IF wp THEN 1 ELSE 0, FALSE, 0, 0, 0, 0, wp, f))
    \/ \E x \in Slots, k \in {"validate", "invalidate"} : Applies(k, f) /\ Q(P(k, x, 0, FALSE, 0, 0, 0, 0, FALSE, f))
    \/ \E u \in Users \cup {0}, g \in BOOLEAN : Applies("signout", f) /\ Q(P("signout", 0, u, g, 0, 0, 0, 0, FALSE, f))
    \/ \E x \in Slots, at \in (0..(s.ctr - 1)) \cup {Bogus}, ct \in (0..(s.nct - 1)) \cup {Bogus} :
         f = NoF /\ Q(P("settokens", x, 0, FALSE, at, ct, 0, 0, FALSE, f))
    \/ \E x \in Slots, sid \in SIds : Applies("join", f) /\ Q(P("join", x, 0, FALSE, 0, 0, sid, 0, FALSE, f))
    \/ \E n \in Names, sid \in SIds : Applies("hasjoined", f) /\ Q(P("hasjoined", 0, 0, FALSE, 0, 0, sid, n, FALSE, f))
All(Q(_)) == ~Some(LAMBDA p : ~Q(p))

Do(p) == LET r == Step(Code, s, p) IN
         /\ s' = r.s
         /\ act' = [p |-> p, ok |-> r.ok, ret |-> r.ret, ek |-> r.ek, reqs |-> r.reqs]
Init == s = Init0 /\ act = [p |-> P("new", 0, 0, FALSE, 0, 0, 0, 0, FALSE, NoF), ok |-> TRUE, ret |-> 0, ek |-> "none", reqs |-> <<>>]
Next == Some(Do)
Spec == Init /\ [][Next]_vars

\* ---------------------------------------------------------------- properties (of the intent)
TypeOK == /\ s.valid \subseteq (1..(s.ctr - 1)) \X (1..(s.nct - 1)) \X Users      \* only issued tokens are valid
          /\ s.rev \subseteq 1..(s.ctr - 1)
          /\ s.joined \subseteq Users \X SIds
          /\ \A x \in Slots : LET c == s.cl[x] IN
               c.at \in (-1)..(s.ctr - 1) /\ c.ct \in (-1)..(s.nct - 1) /\ c.prof \in Users \cup {0} /\ c.avail \in Users \cup {0}
(* an access token names one session *)
ValidUnique == \A v, w \in s.valid : v[1] = w[1] => v = w
(* a token that was rotated away, invalidated or signed out never becomes valid again *)
RevokedStays == \A v \in s.valid : v[1] \notin s.rev
(* the layers part only where Named says so *)
Agree == All(LAMBDA p : Named(p) = "none" => Step(TRUE, s, p) = Step(FALSE, s, p))

(* the client's view after a call that reported success agrees with the server's set *)
ViewOK(p, st, ok, ret) ==
  ok =>
    CASE p.k \in {"authenticate", "refresh"} -> LET c == st.cl[p.slot] IN <<c.at, c.ct, c.prof>> \in st.valid
      [] p.k = "validate" -> LET c == st.cl[p.slot] IN (ret = 1) <=> (Match(st, c.at, c.ct) # {})
      [] p.k = "invalidate" -> LET c == st.cl[p.slot] IN Match(st, c.at, c.ct) = {}
      [] p.k = "signout" -> \A v \in st.valid : v[3] # p.user
      [] p.k = "join" -> <<st.cl[p.slot].prof, p.sid>> \in st.joined
      [] p.k = "hasjoined" -> <<p.name, p.sid>> \in st.joined /\ ret = p.name
      [] OTHER -> TRUE
ViewAgrees == [][ViewOK(act'.p, s', act'.ok, act'.ret)]_vars
(* a failed call never changes the client's tokens or profile *)
FailedKeeps == [][~act'.ok => s'.cl = s.cl]_vars
(* every fault surfaces as an error *)
NoSilentSuccess == [][act'.p.f.k # "none" => ~act'.ok]_vars
(* a request that is not processed changes nothing at the server (the client-token id is only the arrival order) *)
UnprocessedNoEffect == [][~Processed(act'.p.f) => (s'.valid = s.valid /\ s'.joined = s.joined /\ s'.ctr = s.ctr /\ s'.rev = s.rev)]_vars
(* Refresh rotates: a token never issued before, the client token kept, the old pair invalid, the profile of the session *)
RotateOK(p, pre, post, ok) ==
  (p.k = "refresh" /\ ok) =>
    LET c == pre.cl[p.slot]  d == post.cl[p.slot] IN
    /\ d.at = pre.ctr /\ d.at > 0 /\ \A v \in pre.valid : v[1] # d.at
    /\ d.at \notin pre.rev /\ d.at # c.at
    /\ d.ct = c.ct
    /\ Match(post, c.at, c.ct) = {}
    /\ d.prof = UserOf(Match(pre, c.at, c.ct)) /\ d.avail = c.avail
RefreshRotates == [][RotateOK(act'.p, s, s', act'.ok)]_vars
(* sessions are granted for credentials or for a valid pair only; they end by refresh, invalidate, signout only *)
GrantRule == [][(s'.valid \ s.valid # {}) =>
                  \/ act'.p.k = "authenticate" /\ act'.p.good /\ act'.p.user \in Users /\ Processed(act'.p.f)
                  \/ act'.p.k = "refresh" /\ Match(s, s.cl[act'.p.slot].at, s.cl[act'.p.slot].ct) # {} /\ Processed(act'.p.f)]_vars
EndRule == [][(s.valid \ s'.valid # {}) => act'.p.k \in {"refresh", "invalidate", "signout"}]_vars
(* a login is accepted only for a user who joined with a token valid for his profile *)
JoinRule == [][(s'.joined # s.joined) =>
                 /\ act'.p.k = "join" /\ s'.joined = s.joined \cup {<<s.cl[act'.p.slot].prof, act'.p.sid>>}
                 /\ \E v \in s.valid : v[1] = s.cl[act'.p.slot].at /\ v[3] = s.cl[act'.p.slot].prof]_vars
HasJoinedRule == [][(act'.p.k = "hasjoined" /\ act'.ok) => (<<act'.p.name, act'.p.sid>> \in s.joined /\ act'.ret = act'.p.name)]_vars
(* every call is one request; SetTokens none *)
OneRequest == [][Len(act'.reqs) = (IF act'.p.k = "settokens" THEN 0 ELSE 1)]_vars
=============================================================================
