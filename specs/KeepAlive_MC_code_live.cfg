SPECIFICATION Spec
CONSTANTS
  Players = {1, 2}
  P = 2
  W = 4
  MaxId = 2
  Variant = "code"
  AsyncChan = TRUE
  Urgent = FALSE
INVARIANTS TypeOK InOneList TimeOrder TimersAlive PingTimerNotLate KickTimerNotLate PingOnTime KickOnTime PingTargetsWaiting KickTargetsKicked LeaveRemoves
PROPERTIES EventuallyPinged EventuallyKickedOrAnswered
CHECK_DEADLOCK TRUE
