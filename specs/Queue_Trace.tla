----------------------------- MODULE Queue_Trace -----------------------------
(* Trace validation for the LinkedListQueue part of C20.  Events are emitted  *)
(* by the verif hooks of net/queue UNDER the queue's own mutex, so their file *)
(* order is the order of the critical sections.  Which parked consumer a      *)
(* Signal wakes is not logged: TLC infers it (SignalOne is nondeterministic), *)
(* hence the high-water-mark acceptance.                                      *)
EXTENDS Queue, Json

Trace == ndJsonDeserialize("trace.ndjson")
VARIABLES l, last      \* last[c]: what the hooks saw consumer c take most recently
tvars == <<vars, l, last>>
None == <<0, 0>>
Ev == Trace[l]
IsEvent(k) == l <= Len(Trace) /\ Trace[l].k = k /\ l' = l + 1

TReset == /\ IsEvent("reset")
          /\ items' = <<>> /\ closed' = FALSE /\ cstate' = [c \in Cons |-> "run"]
          /\ pushed' = [p \in Prod |-> 0] /\ delivered' = <<>> /\ last' = [c \in Cons |-> None]
TPush == IsEvent("push") /\ Ev.seq = pushed[Ev.g] + 1 /\ PushItem(Ev.g, <<Ev.g, Ev.seq>>) /\ UNCHANGED last
TPulled == /\ IsEvent("pulled") /\ items # <<>> /\ Head(items) = <<Ev.p, Ev.seq>> /\ Take(Ev.g)
           /\ last' = [last EXCEPT ![Ev.g] = <<Ev.p, Ev.seq>>]
TWait == IsEvent("wait") /\ Wait(Ev.g) /\ UNCHANGED last
TClosedExit == IsEvent("closedExit") /\ ClosedExit(Ev.g) /\ UNCHANGED last
TClose == IsEvent("close") /\ Close /\ UNCHANGED last
\* what the caller of Pull got back (logged outside the lock; the facts it is checked against only
\* change through the caller's own events): an item is the one the hook saw it take, closure is
\* reported only after the ClosedExit step (i.e. with the queue closed and drained)
TRet == /\ IsEvent("ret")
        /\ IF Ev.ok THEN last[Ev.g] = <<Ev.p, Ev.seq>> /\ last' = [last EXCEPT ![Ev.g] = None]
                    ELSE cstate[Ev.g] = "done" /\ UNCHANGED last
        /\ UNCHANGED vars
TPushRet == IsEvent("pushret") /\ Ev.ok /\ UNCHANGED <<vars, last>>
\* The driver saw no event for a long time (or the run ended).  The specification must have nothing
\* left to do either: no consumer woken by a Signal/Broadcast that has not run yet, every consumer the
\* driver reports as blocked in cond.Wait is parked in the specification, and no item is left while a
\* consumer sits parked (that is the lost wake-up).
TQuiesce == /\ IsEvent("quiesce")
            /\ \A c \in Cons : cstate[c] # "woken"
            /\ \A i \in 1..Len(Ev.parked) : cstate[Ev.parked[i]] = "parked"
            /\ items # <<>> => Parked = {}
            /\ Len(items) = Ev.left
            /\ UNCHANGED <<vars, last>>

TraceInit == Init /\ l = 1 /\ last = [c \in Cons |-> None]
TraceNext == /\ (TReset \/ TPush \/ TPulled \/ TWait \/ TClosedExit \/ TClose \/ TRet \/ TPushRet \/ TQuiesce)
             /\ DrainBeforeClosed'
TraceSpec == TraceInit /\ [][TraceNext]_tvars

ASSUME TLCSet(1, 0)
HWM == TLCSet(1, IF TLCGet(1) < l THEN l ELSE TLCGet(1))
Accepted == /\ PrintT(<<"HWM", TLCGet(1), Len(Trace) + 1>>)
            /\ TLCGet(1) = Len(Trace) + 1
=============================================================================
