\* same machine, queues without repetition: EXPECTED TO VIOLATE Dense (the model-level form of the finding)
SPECIFICATION AlgoSpec
CONSTANTS
  Cap = 3
  Sigs = {1, 2, 3, 4, 5}
  MaxQ = 3
  Dups = FALSE
  MaxOps = 0
VIEW View
INVARIANTS Dense
CHECK_DEADLOCK FALSE
