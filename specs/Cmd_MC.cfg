SPECIFICATION Spec
CONSTANTS
  LitNames <- MC_Names2
  ArgNames <- MC_Names2
  Parsers = {0, 1, 2}
  Handlers = {1, 2}
  OwnHandler = FALSE
  SymBreak = FALSE
  Unhandles = TRUE
  MaxNodes = 2
  MaxKids = 2
  Lines <- MC_Lines
  Alphabet = {97, 98, 32, 34, 92}
  LineLen = 3
  LineToks = 2
  Variant = "intent"
  WireBreak = "none"
VIEW View
INVARIANTS TypeOK WellFormed StageMatches RootOnlyLiterals RoundTrip FormsDiffer ExecAll ExecComplete
PROPERTIES BuildRule
CHECK_DEADLOCK FALSE
