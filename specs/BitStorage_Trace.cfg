SPECIFICATION TraceSpec
CONSTANTS
  Bs = {}
  NSel = "none"
  ISel = "none"
  VSel = {}
  MaxOps = 0
  EmitJson = FALSE
POSTCONDITION Accepted
CHECK_DEADLOCK FALSE
