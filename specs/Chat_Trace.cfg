SPECIFICATION TraceSpec
CONSTANTS
  EmitJson = FALSE
  Depth = 1
INVARIANTS EncNoErr EncOneDoc EncKeys EncReads DecOK RtOK JEncOK JEncReads JDecOK JRtOK AgreeOK TEncOK TDecOK TRtOK RenderNoPanic RenderPlain RenderAnsi RenderNoCode
CHECK_DEADLOCK FALSE
