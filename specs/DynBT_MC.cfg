SPECIFICATION Spec
CONSTANTS
  MaxIds = 3
  MaxKids = 2
  ListChecked = TRUE
  SetMode = "first"
  Wide = FALSE
VIEW View
INVARIANTS TypeOK AllWellFormed RoundTrip IllFormedIsGarbage
PROPERTIES SetRule SetPanicRule NewRule DecodeRule
CHECK_DEADLOCK FALSE
