SPECIFICATION Spec
CONSTANTS
  Uuids = {1, 2}
  Vals = {1}
  MaxEnts = 2
  ActSets <- SomeActSets
  Variant = "intent"
VIEW View
INVARIANTS TypeOK KeyIsId ExistsIffAdded Agree
PROPERTIES UpdateRule RemoveRule
CHECK_DEADLOCK FALSE
