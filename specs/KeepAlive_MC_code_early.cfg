SPECIFICATION Spec
CONSTANTS
  Players = {1, 2}
  P = 2
  W = 4
  MaxId = 2
  Variant = "code"
  AsyncChan = TRUE
  Urgent = TRUE
INVARIANTS KickNotEarly

CHECK_DEADLOCK TRUE
