SPECIFICATION GenSpec
CONSTANTS
  Us = {}
  Sess = {}
  Idxs = {}
  Msgs = {}
  Sigs = {}
  LSs = {}
  Cts = {}
  NTypes = 3
  Cap = 128
  Lens = {}
  FailSets = {}
  Lsts <- G_Lsts
  Variant = "code"
CHECK_DEADLOCK FALSE
