SPECIFICATION Spec
CONSTANTS
  EmitJson = FALSE
  Form = "dropremoved"
  Wide = FALSE
INVARIANTS StackRoundTrip
CHECK_DEADLOCK FALSE
