SPECIFICATION CSpec
CONSTANTS
  Procs = {1, 2, 3}
  Cap = 1
  Values = {1, 2}
INVARIANTS Bounded
CHECK_DEADLOCK FALSE
