SPECIFICATION Spec
CONSTANTS
  EmitJson = FALSE
  Form = "p767"
  Wide = TRUE
INVARIANTS TypeOK CompRoundTrip CompPrefixFails StackRoundTrip StackPrefixFails HeaderAgrees AsWrittenSelf Emit
CHECK_DEADLOCK FALSE
