---------------------------- MODULE BotWorld_Trace ----------------------------
(* Trace validation for X04/BotWorld.  Every line is one packet handed to the handlers of a real world.World        *)
(* (through bot.Client.Events) - or the harness setting Player.DimensionType ("setdim") - with the callbacks the    *)
(* user saw (evs as <<kind, x, z, seen>>), whether the handler returned an error, and the projection AFTER it: cols =     *)
(* Columns as rows <<x, z, tok, secs>>, dim.  The state before a packet is the projection on the previous line:     *)
(* every line is an independent initial state l; failed checks are printed as <<"X2FAIL", l, {checks}>>.           *)
(* checks:  1 NoPanic  2 Fresh  3 WellFormed                                                                          *)
(*          4 Load  5 Forget  6 Spawn (login / respawn)  7 SetDim   (outside the named class)                         *)
(*          8 ForgetWireOrder (a forget whose two ints differ: judged against the protocol's order, z first)          *)
(*          9 AsCoded (.. and if it does not follow the intent, against Step(TRUE, ..): x first)                       *)
EXTENDS BotWorld, Json

Trace == ndJsonDeserialize("trace.ndjson")
VARIABLE l
tvars == <<vars, l>>
NChecks == 9

StateOf(e) == [cols |-> [pos \in {<<e.cols[i][1], e.cols[i][2]>> : i \in 1..Len(e.cols)} |->
                           LET r == e.cols[CHOOSE i \in 1..Len(e.cols) : <<e.cols[i][1], e.cols[i][2]>> = pos] IN
                           [tok |-> r[3], secs |-> r[4]]],
               dim |-> e.dim]
PacketOf(e) == P(e.k, e.a, e.b, e.tok, e.d, e.fail)
WellFormedOn(s) == \A pos \in DOMAIN s.cols : s.cols[pos].tok >= 0 /\ s.cols[pos].secs >= 0

Failed ==
  LET ev     == Trace[l]
      hasPre == l > 1 /\ ev.k # "reset"
      post   == StateOf(ev)
      pre    == IF hasPre THEN StateOf(Trace[l - 1]) ELSE post
      p      == PacketOf(ev)
      ok0    == hasPre /\ WellFormedOn(pre) /\ WellFormedOn(post) /\ ~ev.panicked
      obs    == Res(post, ev.evs, ev.err)
      I      == Step(FALSE, pre, p)
      C      == Step(TRUE, pre, p)
      cls    == Class(pre, p)
      Plain(ks) == (ok0 /\ ev.k \in ks /\ cls = "none") => obs = I
      Ok(c) ==
        CASE c = 1 -> ev.panicked = FALSE
          [] c = 2 -> ev.k = "reset" => post = [cols |-> <<>>, dim |-> 0]
          [] c = 3 -> WellFormedOn(post)
          [] c = 4 -> Plain({"load"})
          [] c = 5 -> Plain({"forget"})
          [] c = 6 -> Plain({"login", "respawn"})
          [] c = 7 -> Plain({"setdim"})
          [] c = 8 -> (ok0 /\ cls = "ForgetWireOrder") => obs = I
          [] c = 9 -> (ok0 /\ cls # "none" /\ obs # I) => obs = C
          [] OTHER -> TRUE
  IN {c \in 1..NChecks : ~Ok(c)}

Check == LET f == Failed IN f = {} \/ PrintT(<<"X2FAIL", l, f>>)
TraceInit == l \in 1..Len(Trace) /\ cols = <<>> /\ dim = 0 /\ loaded = {} /\ act = 0
TraceSpec == TraceInit /\ [][UNCHANGED tvars]_tvars
=============================================================================
