SPECIFICATION Spec
CONSTANTS
  Us = {1}
  Sess = {0, 1}
  Idxs = {0, 1}
  Msgs = {1}
  Sigs = {"none", "bad", "valid"}
  LSs <- MC_LSsQ
  Cts = {0, 1, 3}
  NTypes = 3
  Cap = 2
  Lens <- MC_Lens
  FailSets <- MC_Fails
  Lsts <- MC_LstsQ
  Variant = "code"
VIEW View
INVARIANTS TypeOK
PROPERTIES SendRule
CHECK_DEADLOCK FALSE
