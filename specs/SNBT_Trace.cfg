SPECIFICATION TraceSpec
CONSTANTS
  Fmts = {}
  EmitJson = FALSE
  Quick = TRUE
  Mode = "none"
  MaxLen = 0
  Alpha = {}
  QAlpha = {}
INVARIANTS ParseNoPanic ParseTagNoPanic ParseTruncated ParseRejects ParseAccepts ParseTree ParseTagType ParseRange ParseTagDoc PrintTotal PrintRound PrintDecided PrintFaithful PrintBack
CHECK_DEADLOCK FALSE
