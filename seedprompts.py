#!/usr/bin/env python3
"""usage: seedprompts.py <previous-round-dir> <new-round-dir> <hint-file> [ids...]
Writes <new-round-dir>/<id>.prompt.txt for a new round of seeded changes: the previous round's prompt with the list of
changes already seeded for that property rebuilt from /verif/seeded/<id>?-*/meta.json (summaries only - the sub-agents
get nothing else from /verif) and the "kinds of slip to prefer" paragraph replaced by the text in <hint-file>."""
import glob, json, os, re, sys
prev, new, hintf = sys.argv[1:4]
ids = sys.argv[4:] or ['C%02d' % i for i in range(1, 21)]
hint = ' '.join(open(hintf).read().split())
pn, nn = os.path.basename(prev.rstrip('/')), os.path.basename(new.rstrip('/'))
for i in ids:
    t = open(os.path.join(prev, i + '.prompt.txt')).read().replace(pn, nn)
    sums = []
    for d in sorted(glob.glob('/verif/seeded/%s?-*' % i) + glob.glob('/verif/seeded/%s-*' % i)):
        try:
            sums.append(' '.join(json.load(open(d + '/meta.json')).get('summary', '').split())[:300])
        except Exception:
            pass
    lst = '\n'.join('  (%d) "%s"' % (k + 1, s) for k, s in enumerate(sums))
    t = re.sub(r'(previous engineers already seeded these changes for the same property:\n)(?:  \(\d+\) .*\n)+', lambda m: m.group(1) + lst + '\n', t)
    t = re.sub(r'Kinds of slip none of them used and that you should prefer: .*?(?= The breakage must concern)', lambda m: 'Kinds of slip none of them used and that you should prefer: ' + hint, t, flags=re.S)
    open(os.path.join(new, i + '.prompt.txt'), 'w').write(t)
    print(i, len(sums), 'previous changes listed')
