#!/bin/bash
# Writes $ROOT/out/overlay.json: go build -overlay map that ADDS export shims (build tag verif) to packages of the
# repository under test without changing it. Called by ./check before every build. The repository location follows
# VERIF_REPO (scratch worktrees of mut.sh), default /repo.
set -eu
HERE=$(dirname "$(readlink -f "$0")")
ROOT=$(dirname "$HERE")
REPO=${VERIF_REPO:-/repo}
mkdir -p "$ROOT/out"
# <new file path inside the repository>=<shim in overlays/>
PAIRS=(
  "bot/verif_export_overlay.go=bot_export.go"
  "server/auth/verif_export_overlay.go=serverauth_export.go"
  "yggdrasil/user/verif_export_overlay.go=user_export.go"
)
{
  echo '{"Replace":{'
  sep=""
  for p in "${PAIRS[@]}"; do
    dst=${p%%=*}; src=${p#*=}
    [ -f "$HERE/$src" ] || { echo "overlay source $HERE/$src missing" >&2; exit 2; }
    [ -d "$REPO/$(dirname "$dst")" ] || { echo "package dir $REPO/$(dirname "$dst") missing" >&2; exit 2; }
    printf '%s "%s": "%s"' "$sep" "$REPO/$dst" "$HERE/$src"
    sep=$',\n'
  done
  echo
  echo '}}'
} > "${OVERLAY_OUT:-$ROOT/out/overlay.json}"
