#!/bin/bash
# Writes $ROOT/out/overlay.json: go build -overlay map that ADDS export shims (build tag verif) to packages of the
# repository under test without changing it. Called by ./check before every build. The repository location follows
# VERIF_REPO (scratch worktrees of mut.sh), default /repo.
set -eu
HERE=$(dirname "$(readlink -f "$0")")
ROOT=$(dirname "$HERE")
REPO=${VERIF_REPO:-/repo}
mkdir -p "$ROOT/out"
# <new file path inside the repository>=<shim in overlays/>
PAIRS=(
  "bot/verif_export_overlay.go=bot_export.go"
  "server/auth/verif_export_overlay.go=serverauth_export.go"
  "yggdrasil/user/verif_export_overlay.go=user_export.go"
  "server/internal/bvh/verif_export_overlay.go=bvh_export.go"
  "server/verif_bvh_export_overlay.go=server_bvh_export.go"
  "level/block/verif_export_overlay.go=block_export.go"
  "chat/sign/verif_export_overlay.go=sign_export.go"
  "bot/verif_x12_export_overlay.go=bot_x12_export.go"
  "server/auth/verif_x12_export_overlay.go=serverauth_x12_export.go"
)
# server/keepalive.go: the exported API has no handle on time (two unexported constants). A copy of the file as it
# is in $REPO, with nothing but `const` -> `var` on those two declarations, replaces it for the build; the shim
# server_keepalive_export.go sets the variables. If the declarations are not found the file is left alone.
OVJ="${OVERLAY_OUT:-$ROOT/out/overlay.json}"
KACOPY="${OVJ%.json}.keepalive.go"
KASHIM=server_keepalive_export_const.go
KAREPL=""
if [ -f "$REPO/server/keepalive.go" ]; then
  sed -E 's/^const (keepAliveInterval|keepAliveWaitInterval) = /var \1 = /' "$REPO/server/keepalive.go" > "$KACOPY"
  if [ "$(grep -cE '^var (keepAliveInterval|keepAliveWaitInterval) = ' "$KACOPY")" = 2 ]; then
    KASHIM=server_keepalive_export.go
    KAREPL="$KACOPY"
  else
    rm -f "$KACOPY"
  fi
  PAIRS+=("server/verif_keepalive_overlay.go=$KASHIM")
fi
# save/region/mca.go: WriteSector stamps chunks with time.Now(); whether the stamp held in memory and the one in the
# header stay equal can only be observed when two writes get different stamps. A copy of the file as it is in $REPO, with
# nothing but `time.Now()` -> `verifNow(time.Now())`, replaces it for the build; the shim region_clock_export.go lets the
# harness install a clock (without one verifNow returns its argument).
MCACOPY="${OVJ%.json}.mca.go"
MCAREPL=""
if [ -f "$REPO/save/region/mca.go" ]; then
  sed -E 's/time\.Now\(\)/verifNow(time.Now())/g' "$REPO/save/region/mca.go" > "$MCACOPY"
  if grep -q 'verifNow(time.Now())' "$MCACOPY"; then MCAREPL="$MCACOPY"; else rm -f "$MCACOPY"; fi
  PAIRS+=("save/region/verif_clock_overlay.go=region_clock_export.go")
fi
{
  echo '{"Replace":{'
  sep=""
  if [ -n "$KAREPL" ]; then printf ' "%s": "%s"' "$REPO/server/keepalive.go" "$KAREPL"; sep=$',\n'; fi
  if [ -n "$MCAREPL" ]; then printf '%s "%s": "%s"' "$sep" "$REPO/save/region/mca.go" "$MCAREPL"; sep=$',\n'; fi
  for p in "${PAIRS[@]}"; do
    dst=${p%%=*}; src=${p#*=}
    [ -f "$HERE/$src" ] || { echo "overlay source $HERE/$src missing" >&2; exit 2; }
    [ -d "$REPO/$(dirname "$dst")" ] || { echo "package dir $REPO/$(dirname "$dst") missing" >&2; exit 2; }
    printf '%s "%s": "%s"' "$sep" "$REPO/$dst" "$HERE/$src"
    sep=$',\n'
  done
  echo
  echo '}}'
} > "${OVERLAY_OUT:-$ROOT/out/overlay.json}"
