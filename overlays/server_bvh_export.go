//go:build verif

// Export shim added to package server through `go build -overlay` (see overlays/gen.sh); never part of the repository.
// server/internal/bvh cannot be imported from outside the server tree: this file re-exports its types (as aliases, so
// the harness calls the REAL methods Insert / Delete / Find / Union / Touch / WithIn / Surface) with the type
// parameters fixed, and the generic test constructors TouchPoint / TouchBound instantiated.
package server

import "github.com/Tnze/go-mc/server/internal/bvh"

type (
	VerifVec2    = bvh.Vec2[float64]
	VerifAABB2   = bvh.AABB[float64, bvh.Vec2[float64]]
	VerifTree2   = bvh.Tree[float64, VerifAABB2, int64]
	VerifNode2   = bvh.Node[float64, VerifAABB2, int64]
	VerifVec3    = bvh.Vec3[float64]
	VerifAABB3   = bvh.AABB[float64, bvh.Vec3[float64]]
	VerifVec3i   = bvh.Vec3[int64]
	VerifAABB3i  = bvh.AABB[int64, bvh.Vec3[int64]]
	VerifVec2i   = bvh.Vec2[int64]
	VerifAABB2i  = bvh.AABB[int64, bvh.Vec2[int64]]
	VerifSphere2 = bvh.Sphere[float64, bvh.Vec2[float64]]
	VerifTreeS   = bvh.Tree[float64, VerifSphere2, int64]
	VerifNodeS   = bvh.Node[float64, VerifSphere2, int64]
)

func VerifTouchPoint2(p VerifVec2) func(VerifAABB2) bool {
	return bvh.TouchPoint[VerifVec2, VerifAABB2](p)
}
func VerifTouchBound2(b VerifAABB2) func(VerifAABB2) bool { return bvh.TouchBound[VerifAABB2](b) }
func VerifTouchPoint3(p VerifVec3) func(VerifAABB3) bool {
	return bvh.TouchPoint[VerifVec3, VerifAABB3](p)
}
func VerifTouchBound3(b VerifAABB3) func(VerifAABB3) bool { return bvh.TouchBound[VerifAABB3](b) }
func VerifTouchPointS(p VerifVec2) func(VerifSphere2) bool {
	return bvh.TouchPoint[VerifVec2, VerifSphere2](p)
}
func VerifTouchBoundS(b VerifSphere2) func(VerifSphere2) bool { return bvh.TouchBound[VerifSphere2](b) }

func VerifBvhRoot2(t *VerifTree2) *VerifNode2 { return bvh.VerifRoot(t) }
func VerifBvhLinks2(n *VerifNode2) (parent, c0, c1 *VerifNode2, isLeaf bool) {
	return bvh.VerifLinks(n)
}
func VerifBvhRootS(t *VerifTreeS) *VerifNodeS { return bvh.VerifRoot(t) }
func VerifBvhLinksS(n *VerifNodeS) (parent, c0, c1 *VerifNodeS, isLeaf bool) {
	return bvh.VerifLinks(n)
}
