//go:build verif

// Export shim added to package level/block through `go build -overlay` (see overlays/gen.sh); never part of the
// repository. Read-only accessor for the embedded state list init() builds StateList from (X14/Tables: the composition
// ToStateID[State.Block()] over the embedded table must be the identity on indices).
package block

// VerifBlockStates returns the embedded, gzip-compressed TAG_List of {Name, Properties} records.
func VerifBlockStates() []byte { return blockStates }
