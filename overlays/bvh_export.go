//go:build verif

// Export shim added to package server/internal/bvh through `go build -overlay` (see overlays/gen.sh); never part of
// the repository. Read-only accessors for the unexported links of the tree (projection of X05/BVH).
package bvh

import "golang.org/x/exp/constraints"

// VerifRoot returns the root node of the tree (nil for the empty tree).
func VerifRoot[I constraints.Float, B interface {
	Union(B) B
	Surface() I
}, V any](t *Tree[I, B, V]) *Node[I, B, V] {
	return t.root
}

// VerifLinks returns the unexported links of a node.
func VerifLinks[I constraints.Float, B interface {
	Union(B) B
	Surface() I
}, V any](n *Node[I, B, V]) (parent, c0, c1 *Node[I, B, V], isLeaf bool) {
	return n.parent, n.children[0], n.children[1], n.isLeaf
}
