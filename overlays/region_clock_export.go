//go:build verif

// Export shim added to package region through `go build -overlay` (see overlays/gen.sh); never part of the repository.
// gen.sh also substitutes a build-time copy of save/region/mca.go in which ONLY `time.Now()` is turned into
// `verifNow(time.Now())`; this shim lets the harness install the clock WriteSector stamps chunks with.
package region

import (
	"sync/atomic"
	"time"
)

var verifClock atomic.Pointer[func() time.Time]

func verifNow(t time.Time) time.Time {
	if f := verifClock.Load(); f != nil {
		return (*f)()
	}
	return t
}

// VerifSetClock installs (nil: removes) the clock used instead of time.Now.
func VerifSetClock(f func() time.Time) {
	if f == nil {
		verifClock.Store(nil)
		return
	}
	verifClock.Store(&f)
}
