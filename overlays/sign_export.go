//go:build verif

// Export shim added to package chat/sign through `go build -overlay` (see overlays/gen.sh); never part of the repository.
// X10 judges the two predicates of Session.VerifyAndUpdate separately and reads / sets the unexported chain state.
package sign

// VerifState returns Session.valid and Session.lastMsg (read-only projection).
func (s *Session) VerifState() (valid bool, last *Message) { return s.valid, s.lastMsg }

// VerifSetState sets the chain state: a state VerifyAndUpdate itself may never reach (used only in scenarios marked "injected").
func (s *Session) VerifSetState(valid bool, last *Message) { s.valid, s.lastMsg = valid, last }

// VerifHash is the signature predicate of VerifyAndUpdate.
func (s *Session) VerifHash(msg *Message) bool { return s.verifyHash(msg) }

// VerifChain is the chain predicate of VerifyAndUpdate.
func (s *Session) VerifChain(msg *Message) bool { return s.verifyChain(msg) }
