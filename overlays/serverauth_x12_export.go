//go:build verif

// Export shim added to package server/auth through `go build -overlay` (see overlays/gen.sh); never part of the repository.
package auth

// VerifAuthentication exposes the hasJoined request the server sends to the session server (server/auth/auth.go:
// authentication) without the encryption handshake around it (X12).
func VerifAuthentication(name, hash string) (*Resp, error) { return authentication(name, hash) }
