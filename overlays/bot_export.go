//go:build verif

// Export shim added to package bot through `go build -overlay` (see overlays/gen.sh); never part of the repository.
package bot

import pk "github.com/Tnze/go-mc/net/packet"

// VerifAuthDigest exposes the client-side session hash (bot/login.go: authDigest).
func VerifAuthDigest(serverID string, sharedSecret, publicKey []byte) string {
	return authDigest(serverID, sharedSecret, publicKey)
}

// VerifTwosComplement exposes the in-place negation used by authDigest (the argument is modified).
func VerifTwosComplement(p []byte) []byte { return twosComplement(p) }

// VerifHandlePacket exposes the dispatch of one received play packet (bot/ingame.go: handlePacket).
func VerifHandlePacket(c *Client, id int32, data []byte) error {
	return c.handlePacket(pk.Packet{ID: id, Data: data})
}
