//go:build verif

// Export shim added to package bot through `go build -overlay` (see overlays/gen.sh); never part of the repository.
package bot

import (
	mcnet "github.com/Tnze/go-mc/net"
	pk "github.com/Tnze/go-mc/net/packet"
	"github.com/Tnze/go-mc/net/queue"
)

// VerifAuthDigest exposes the client-side session hash (bot/login.go: authDigest).
func VerifAuthDigest(serverID string, sharedSecret, publicKey []byte) string {
	return authDigest(serverID, sharedSecret, publicKey)
}

// VerifTwosComplement exposes the in-place negation used by authDigest (the argument is modified).
func VerifTwosComplement(p []byte) []byte { return twosComplement(p) }

// VerifHandlePacket exposes the dispatch of one received play packet (bot/ingame.go: handlePacket).
func VerifHandlePacket(c *Client, id int32, data []byte) error {
	return c.handlePacket(pk.Packet{ID: id, Data: data})
}

// VerifAttachSendQueue gives the client a Conn that has only a send queue (no socket) and returns a function that
// takes the next packet a manager queued with c.Conn.WritePacket (X04: screen.Manager.ContainerClick); it never blocks.
func VerifAttachSendQueue(c *Client) func() (pk.Packet, bool) {
	q := &verifSendQueue{}
	c.Conn = &Conn{send: q}
	return q.Pull
}

// VerifAttachSendQueueCtl is VerifAttachSendQueue with two more handles (X06): setFull makes the queue refuse packets
// (Conn.WritePacket then answers "queue is full") and pending tells how many packets wait to be pulled.
func VerifAttachSendQueueCtl(c *Client) (pull func() (pk.Packet, bool), setFull func(bool), pending func() int) {
	q := &verifSendQueue{}
	c.Conn = &Conn{send: q}
	return q.Pull, func(b bool) { q.full = b }, func() int { return len(q.items) }
}

type verifSendQueue struct {
	items []pk.Packet
	full  bool
}

func (q *verifSendQueue) Push(p pk.Packet) bool {
	if q.full {
		return false
	}
	q.items = append(q.items, p)
	return true
}
func (q *verifSendQueue) Pull() (p pk.Packet, ok bool) {
	if len(q.items) == 0 {
		return p, false
	}
	p, q.items = q.items[0], q.items[1:]
	return p, true
}
func (q *verifSendQueue) Close() {}

// VerifWarpConn exposes warpConn (bot/client.go): the concurrently usable Conn with its receive and send goroutines.
func VerifWarpConn(c *mcnet.Conn, qr, qw queue.Queue[pk.Packet]) *Conn { return warpConn(c, qr, qw) }

// VerifJoinConfiguration exposes the configuration stage (bot/configuration.go: joinConfiguration) on a given
// connection (X11): the loop that reads clientbound configuration packets until FinishConfiguration / Disconnect / error.
func VerifJoinConfiguration(c *Client, conn *mcnet.Conn) error { return c.joinConfiguration(conn) }

// VerifResourcePacks answers a copy of the resource packs a DefaultConfigHandler holds, oldest first (X11).
func VerifResourcePacks(d *DefaultConfigHandler) []ResourcePack {
	return append([]ResourcePack(nil), d.resourcesPack...)
}
