//go:build verif

// Export shim added to package bot through `go build -overlay` (see overlays/gen.sh); never part of the repository.
package bot

// VerifLoginAuth exposes the join request the client posts to the session server (bot/login.go: loginAuth) without the
// login packets around it (X12).
func VerifLoginAuth(auth Auth, shareSecret []byte, serverID string, publicKey []byte) error {
	return loginAuth(auth, shareSecret, encryptionRequest{ServerID: serverID, PublicKey: publicKey})
}
