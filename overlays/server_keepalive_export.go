//go:build verif

// Export shim added to package server through `go build -overlay` (see overlays/gen.sh); never part of the repository.
// The exported API of server.KeepAlive offers no control over time (both intervals are unexported constants), so
// gen.sh also substitutes a build-time copy of server/keepalive.go in which ONLY the two `const` keywords of
// keepAliveInterval / keepAliveWaitInterval are turned into `var`; this shim sets them.
package server

import "time"

// VerifSetKeepAliveIntervals sets the ping interval and the kick delay for managers created afterwards.
// It returns the previous values. Must not be called while a KeepAlive is running.
func VerifSetKeepAliveIntervals(ping, wait time.Duration) (oldPing, oldWait time.Duration, ok bool) {
	oldPing, oldWait = keepAliveInterval, keepAliveWaitInterval
	keepAliveInterval, keepAliveWaitInterval = ping, wait
	return oldPing, oldWait, true
}
