//go:build verif

// Fallback shim used when overlays/gen.sh could not derive the var-copy of server/keepalive.go (the two constant
// declarations were not found): the intervals stay the repository's constants and X01 reports INFRA.
package server

import "time"

func VerifSetKeepAliveIntervals(ping, wait time.Duration) (oldPing, oldWait time.Duration, ok bool) {
	return keepAliveInterval, keepAliveWaitInterval, false
}
