//go:build verif

// Export shim added to package yggdrasil/user through `go build -overlay` (see overlays/gen.sh); never part of the repository.
package user

// VerifEmbeddedKeyDER returns a copy of the embedded Mojang services key (the bytes VerifySignature verifies against).
func VerifEmbeddedKeyDER() []byte { return append([]byte(nil), pubKeyBytes...) }
