//go:build verif

// Export shim added to package yggdrasil/user through `go build -overlay` (see overlays/gen.sh); never part of the repository.
package user

import "crypto/rsa"

// VerifEmbeddedKeyDER returns a copy of the embedded Mojang services key (the bytes VerifySignature verifies against).
func VerifEmbeddedKeyDER() []byte { return append([]byte(nil), pubKeyBytes...) }

// VerifSetServicesKey replaces the trust anchor VerifySignature checks against (the embedded Mojang services key) and
// returns a function that puts the original back. With a key whose private half the harness owns, genuine signatures
// exist and the positive direction of the verification glue can be exercised.
func VerifSetServicesKey(k *rsa.PublicKey) (restore func()) {
	old := pubKey
	pubKey = k
	return func() { pubKey = old }
}
