#!/bin/bash
# Hand-written mutants of bot/configuration.go, bot/client.go, registry/codec.go, registry/network.go for X11
# (scratch worktrees through mut.sh; /repo untouched).
# usage: notes/mutants_X11.sh [name...]   prints, per mutant, the NOTE signatures the unchanged tree does not show (+) / no longer shows (-)
cd "$(dirname "$(readlink -f "$0")")/.."
export GOFLAGS=-mod=mod GOPROXY=off GOSUMDB=off GOTOOLCHAIN=local VERIF_ROOT=$PWD MUT_LINES=80
BASE=/tmp/x11-mut-base.$$
key() { grep "NOTE spec-extension" | sed -E 's/^NOTE spec-extension ([A-Za-z]+) finding: (Model\(code\) - [A-Za-z]+|Replay\([a-z-]+\) - [a-z]+|[A-Za-z()-]+).*/\1 \2/' | sort -u; }
./check X11 quick 2>&1 | key > $BASE
m() { # name file old new
  name=$1; shift
  if [ ${#WANT[@]} -gt 0 ] && [[ ! " ${WANT[*]} " =~ " $name " ]]; then return; fi
  out=$(./mut.sh "$1" "$2" "$3" -- X11 2>&1)
  echo "== $name: $(echo "$out" | grep -E '^== X11|does not build|pattern not found|INFRA' | cut -c1-160 | tr '\n' ' ')"
  echo "$out" | key | comm -13 $BASE - | sed 's/^BotConfig /   + /' | tr '\n' ';'; echo
  echo "$out" | key | comm -23 $BASE - | sed 's/^BotConfig /   - /' | tr '\n' ';'; echo
}
WANT=("$@")
C=bot/configuration.go
m K1 $C '				packetid.ServerboundConfigKeepAlive,
				keepAliveID,' '				packetid.ServerboundConfigKeepAlive,
				keepAliveID+1,'
m K2 $C '				packetid.ServerboundConfigPong,' '				packetid.ServerboundConfigKeepAlive,'
m K3 $C '					Has: cookieContent != nil,' '					Has: cookieContent == nil,'
m K4 $C '				return ConfigErr{"finish config", err}
			}
			return nil' '				return ConfigErr{"finish config", err}
			}'
m K5 $C '			err := conn.WritePacket(pk.Marshal(
				packetid.ServerboundConfigFinishConfiguration,
			))' '			var err error'
m K6 $C 'return ConfigErr{ErrStage, DisconnectErr(reason)}' 'return ConfigErr{ErrStage, DisconnectErr(chat.Text("x"))}'
m K7 $C 'return ConfigErr{ErrStage, errors.New("unknown registry: " + string(registryID))}' '_ = errors.New
				continue'
m K8 $C '					continue
					// return ConfigErr' '					return ConfigErr{ErrStage, errors.New("unknown registry: " + string(registryID))}
					// return ConfigErr'
m K9 $C '					_, err = idleTagsDecoder{}.ReadFrom(r)
					if err != nil {
						return ConfigErr{ErrStage, err}
					}
					continue' '					continue'
m K10 $C '				Forced: bool(Forced),' '				Forced: !bool(Forced),'
m K11 $C '				res.PromptMessage = &PromptMessage.Val' '				_ = res'
m K12 $C 'c.Cookies[string(key)] = []byte(payload)' 'c.Cookies[string(key)+"x"] = []byte(payload)'
m K13 $C 'c.ConfigHandler.EnableFeature(features)' 'if len(features) > 0 {
				c.ConfigHandler.EnableFeature(features[1:])
			}'
m K14 $C '			knwonPacks := c.ConfigHandler.SelectDataPacks(packs)' '			knwonPacks := c.ConfigHandler.SelectDataPacks(packs)
			knwonPacks = packs'
m K15 $C 'c.CustomReportDetails[string(title)] = string(description)' 'c.CustomReportDetails[string(title)] = string(title)'
m K16 $C '			d.resourcesPack = append(d.resourcesPack[:i], d.resourcesPack[i+1:]...)
			break' '			d.resourcesPack = append(d.resourcesPack[:i], d.resourcesPack[i+1:]...)'
m K17 $C '	d.resourcesPack = d.resourcesPack[:0]' '	d.resourcesPack = d.resourcesPack[:len(d.resourcesPack)/2]'
m K18 $C '	d.resourcesPack = append(d.resourcesPack, res)' '	d.resourcesPack = append([]ResourcePack{res}, d.resourcesPack...)'
m K19 $C '	n2, err := pk.String(d.Version).WriteTo(w)' '	n2, err := pk.String(d.ID).WriteTo(w)'
m K20 $C '			// TODO: trnasfer to the specific server' '			return ConfigErr{"transfer", errors.New("not supported")}'
m K21 $C '		case packetid.ClientboundConfigResetChat:
			// TODO' '		case packetid.ClientboundConfigResetChat:
			return nil'
# candidate repairs: the finding must disappear and the model of the code must complain
m R1 $C '			err := p.Scan(&id)
			if err != nil {
				return ConfigErr{"resource pack pop", err}
			}' '			err := p.Scan(&id)
			if err != nil {
				return ConfigErr{"resource pack pop", err}
			}
			if id.Has {
				c.ConfigHandler.PopResourcePack(id.Val)
			} else {
				c.ConfigHandler.PopAllResourcePack()
			}'
m R2 bot/client.go '		CustomReportDetails: make(map[string]string),' '		CustomReportDetails: make(map[string]string),
		Cookies:             make(map[string][]byte),'
m R3 $C '		case packetid.ClientboundConfigServerLinks:
			// TODO' '		case packetid.ClientboundConfigServerLinks:
			// TODO
		default:
			return ConfigErr{"unknown packet", fmt.Errorf("id %d", p.ID)}'
m R4 $C '			c.ConfigHandler.PushResourcePack(res)' '			c.ConfigHandler.PushResourcePack(res)
			if err := conn.WritePacket(pk.Marshal(packetid.ServerboundConfigResourcePack, id, pk.VarInt(1))); err != nil {
				return ConfigErr{"resource pack", err}
			}'
# registry routing
G=registry/codec.go
m G1 $G '	TrimMaterial    Registry[nbt.RawMessage] `registry:"minecraft:trim_material"`
	TrimPattern     Registry[nbt.RawMessage] `registry:"minecraft:trim_pattern"`' '	TrimMaterial    Registry[nbt.RawMessage] `registry:"minecraft:trim_pattern"`
	TrimPattern     Registry[nbt.RawMessage] `registry:"minecraft:trim_material"`'
m G2 $G '	for i := 0; i < numField; i++ {' '	for i := 0; i < numField-1; i++ {'
m G3 $G '		if registryID == id {' '		if len(id) > 0 && len(registryID) >= len(id) && registryID[:len(id)] == id {'
m G4 $G '			return codecVal.Field(i).Addr().Interface().(RegistryCodec)' '			return codecVal.Field((i+1)%numField).Addr().Interface().(RegistryCodec)'
m G5 $G 'JukeboxSong     Registry[nbt.RawMessage] `registry:"minecraft:jukebox_song"`' 'JukeboxSong     Registry[nbt.RawMessage] `registry:"minecraft:jukebox_songs"`'
m N1 registry/network.go '	reg.Clear()

	var key pk.Identifier' '	var key pk.Identifier'
m N2 registry/network.go 'if id < 0 || int(id) >= len(reg.values) {' 'if id < 0 || int(id) > len(reg.values) {'
rm -f $BASE
