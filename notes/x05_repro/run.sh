#!/bin/bash
# Runs the reproductions against a checkout of the repository (default /repo) without changing it.
set -u
HERE=$(dirname "$(readlink -f "$0")")
REPO=${1:-/repo}
OV=$(mktemp /tmp/x05repro.XXXXXX.json)
trap 'rm -f $OV' EXIT
cat > $OV <<JSON
{"Replace": {"$REPO/server/internal/bvh/x05_repro_overlay_test.go": "$HERE/bvh_repro_test.go"}}
JSON
cd $REPO && GOFLAGS=-mod=mod GOPROXY=off GOSUMDB=off GOTOOLCHAIN=local go test -vet=off -count=1 -overlay=$OV -run 'TestX05' -v ./server/internal/bvh 2>&1 | grep -vE "^=== RUN"
