package x5repro

// Reproductions of the X05 (b) "Save" findings on the unchanged tree, with the repository's own fixtures.
// Each test FAILS while the defect is present.   cd notes/x05_repro && GOFLAGS=-mod=mod go test ./...

import (
	"bytes"
	"compress/gzip"
	"os"
	"testing"

	"github.com/Tnze/go-mc/nbt"
	"github.com/Tnze/go-mc/save"
	"github.com/Tnze/go-mc/save/region"
)

const testdata = "/repo/save/testdata/"

// S1: a chunk loaded from a region file cannot be written again: BlockState.Properties is an nbt.RawMessage, a block
// without properties (air, stone, ...) leaves it empty (Type = TagEnd) and the encoder refuses such a value.
func TestChunkLoadThenData(t *testing.T) {
	r, err := region.Open(testdata + "region/r.0.0.mca")
	if err != nil {
		t.Fatal(err)
	}
	defer r.Close()
	data, err := r.ReadSector(0, 0)
	if err != nil {
		t.Fatal(err)
	}
	var c save.Chunk
	if err := c.Load(data); err != nil {
		t.Fatal(err)
	}
	if _, err := c.Data(2); err != nil {
		t.Fatalf("Chunk.Load succeeded, Chunk.Data of the same value fails: %v", err)
	}
}

// S1 in small: one section with the palette [air].
func TestSectionWithoutProperties(t *testing.T) {
	var s save.Section
	doc, _ := nbt.Marshal(map[string]any{"Y": int8(0), "block_states": map[string]any{"palette": []any{map[string]any{"Name": "minecraft:air"}}}})
	if err := nbt.Unmarshal(doc, &s); err != nil {
		t.Fatal(err)
	}
	if _, err := nbt.Marshal(&s); err != nil {
		t.Fatalf("a section whose palette entry has no Properties does not encode: %v", err)
	}
}

func readLevel(t *testing.T) (save.Level, []byte) {
	f, err := os.ReadFile(testdata + "level.dat")
	if err != nil {
		t.Fatal(err)
	}
	zr, err := gzip.NewReader(bytes.NewReader(f))
	if err != nil {
		t.Fatal(err)
	}
	var raw bytes.Buffer
	raw.ReadFrom(zr)
	lv, err := save.ReadLevel(bytes.NewReader(raw.Bytes()))
	if err != nil {
		t.Fatal(err)
	}
	return lv, raw.Bytes()
}

// S2: level.dat stores Data.DragonFight.Gateways as a List of Int; LevelData declares `Gateways []int32` without the
// `list` option, so writing the loaded value turns it into an IntArray (the game reads the list form only).
func TestLevelGatewaysKeepTheirTag(t *testing.T) {
	lv, raw := readLevel(t)
	var before, after struct {
		Data struct {
			DragonFight struct{ Gateways nbt.RawMessage }
		}
	}
	if err := nbt.Unmarshal(raw, &before); err != nil {
		t.Fatal(err)
	}
	out, err := nbt.Marshal(&lv)
	if err != nil {
		t.Fatal(err)
	}
	if err := nbt.Unmarshal(out, &after); err != nil {
		t.Fatal(err)
	}
	b, a := before.Data.DragonFight.Gateways, after.Data.DragonFight.Gateways
	if b.Type != a.Type {
		t.Fatalf("Gateways: tag %d (List) in level.dat, tag %d (IntArray) after ReadLevel + Marshal (%d values)", b.Type, a.Type, len(lv.Data.DragonFight.Gateways))
	}
}

// S3: save.Entities declares Rotation [3]float32; the game writes two floats (yaw, pitch). Decoding fills two of the
// three slots, encoding writes three: an entity does not survive load + save unchanged.
func TestEntityRotation(t *testing.T) {
	doc, _ := nbt.Marshal(map[string]any{"Rotation": []float32{90, -10}})
	var e save.Entities
	if err := nbt.Unmarshal(doc, &e); err != nil {
		t.Fatal(err)
	}
	out, err := nbt.Marshal(&e)
	if err != nil {
		t.Fatal(err)
	}
	var back struct{ Rotation []float32 }
	if err := nbt.Unmarshal(out, &back); err != nil {
		t.Fatal(err)
	}
	if len(back.Rotation) != 2 {
		t.Fatalf("Rotation has %d elements after load + save, the document had 2: %v", len(back.Rotation), back.Rotation)
	}
}

// S4: save.ReadLevel disallows unknown fields, but LevelData.DragonFight lacks the entries a world has once the
// dragon fight has begun (Dragon, ExitPortalLocation): such a level.dat (nbt/testdata/level.dat.snbt is one) is refused.
func TestReadLevelAfterDragonFight(t *testing.T) {
	text, err := os.ReadFile("/repo/nbt/testdata/level.dat.snbt")
	if err != nil {
		t.Fatal(err)
	}
	var all map[string]nbt.RawMessage
	bin, err := nbt.Marshal(nbt.StringifiedMessage(text))
	if err != nil {
		t.Fatal(err)
	}
	if err := nbt.Unmarshal(bin, &all); err != nil {
		t.Fatal(err)
	}
	doc, _ := nbt.Marshal(map[string]nbt.RawMessage{"Data": all["Data"]}) // a level.dat holds the one entry "Data"
	if _, err := save.ReadLevel(bytes.NewReader(doc)); err != nil {
		t.Fatalf("ReadLevel: %v", err)
	}
}
