package bvh

// Reproductions of the X05 (a) findings. server/internal/bvh cannot be imported from outside the repository and
// /repo is never edited: run.sh adds this file to the package through `go test -overlay`.
// Every test FAILS on the unchanged tree (the failure message is the finding).

import (
	"math"
	"testing"
)

type (
	v2  = Vec2[float64]
	bb2 = AABB[float64, v2]
	tr2 = Tree[float64, bb2, int]
)

// TightDelete / Model(TightAfterDelete): Delete stops refitting in front of the root.
func TestX05DeleteLeavesRootBoundStale(t *testing.T) {
	var tr tr2
	first := tr.Insert(bb2{Lower: v2{6, 12}, Upper: v2{8, 14}}, 1)
	tr.Insert(bb2{Lower: v2{2, 10}, Upper: v2{4, 12}}, 2)
	tr.Insert(bb2{Lower: v2{10, 8}, Upper: v2{12, 10}}, 3)
	tr.Insert(bb2{Lower: v2{10, 10}, Upper: v2{12, 12}}, 4) // {{1, 2}, {3, 4}}
	tr.Delete(first)                                        // {2, {3, 4}}: nothing reaches y = 14 any more
	want := tr.root.children[0].Box.Union(tr.root.children[1].Box)
	if tr.root.Box != want {
		t.Fatalf("root bound after Delete = %v, union of its children = %v", tr.root.Box, want)
	}
}

// AABB3WithIn / AABB3Touch / AABB3Surface: Vec3.Less, Vec3.More and Vec3.Sum look at two components.
func TestX05Vec3IgnoresThirdComponent(t *testing.T) {
	box := AABB[int, Vec3[int]]{Lower: Vec3[int]{-1, -1, -1}, Upper: Vec3[int]{1, 1, 1}}
	if box.WithIn(Vec3[int]{0, 0, 50}) {
		t.Errorf("WithIn: (0,0,50) is reported inside [-1,1]^3")
	}
	far := AABB[int, Vec3[int]]{Lower: Vec3[int]{-1, -1, 10}, Upper: Vec3[int]{1, 1, 12}}
	if box.Touch(far) {
		t.Errorf("Touch: [-1,1]^3 and [-1,1]^2 x [10,12] are reported to overlap")
	}
	tall := AABB[int, Vec3[int]]{Lower: Vec3[int]{-1, -1, -1}, Upper: Vec3[int]{1, 1, 1000}}
	if box.Surface() == tall.Surface() {
		t.Errorf("Surface: a box 2x2x2 and a box 2x2x1001 have the same Surface %d", box.Surface())
	}
}

// SphereUnion: centre and radius come out twice as large; equal centres give NaN.
func TestX05SphereUnionDoesNotContainOperands(t *testing.T) {
	type sp = Sphere[float64, v2]
	a, b := sp{Center: v2{10, 0}, R: 1}, sp{Center: v2{14, 0}, R: 1}
	u := a.Union(b) // the smallest enclosing disc is centre (12,0), radius 3
	holds := func(u, s sp) bool { return u.Center.Sub(s.Center).Norm()+s.R <= u.R+1e-9 }
	if !holds(u, a) || !holds(u, b) {
		t.Errorf("Union(%v, %v) = %v does not contain its operands", a, b, u)
	}
	same := a.Union(a)
	if math.IsNaN(same.Center[0]) || math.IsNaN(same.R) {
		t.Errorf("Union of a sphere with itself = %v", same)
	}
}

// Consequence of SphereUnion for a tree over spheres: inner bounds do not contain the leaves.
func TestX05SphereTreeBoundsDoNotContainLeaves(t *testing.T) {
	type sp = Sphere[float64, v2]
	var tr Tree[float64, sp, int]
	l1 := tr.Insert(sp{Center: v2{10, 0}, R: 1}, 1)
	tr.Insert(sp{Center: v2{14, 0}, R: 1}, 2)
	root := tr.root
	if d := root.Box.Center.Sub(l1.Box.Center).Norm() + l1.Box.R; d > root.Box.R {
		t.Errorf("root bound %v does not contain leaf %v (needs radius %v)", root.Box, l1.Box, d)
	}
}

// Not judged by the specification (performance only): Find never consults an inner bound - every leaf is tested.
func TestX05FindVisitsEveryLeaf(t *testing.T) {
	var tr tr2
	for i := 0; i < 64; i++ {
		x := float64(10 * i)
		tr.Insert(bb2{Lower: v2{x, 0}, Upper: v2{x + 1, 1}}, i)
	}
	tested := 0
	tr.Find(func(b bb2) bool { tested++; return b.WithIn(v2{0.5, 0.5}) }, func(*Node[float64, bb2, int]) bool { return true })
	if tested > 16 {
		t.Logf("note: the point test was applied to %d of 64 leaves (no pruning by inner bounds)", tested)
	}
}
