#!/bin/bash
# Mutation analysis of the C13 check (each mutant is applied in a scratch worktree by mut.sh; /repo is never touched).
# The S leg does not touch the implementation: VERIF_LEGS skips it here.
cd "$(dirname "$(readlink -f "$0")")/.."
export VERIF_LEGS=${VERIF_LEGS:-A,B,P,C,R}
# ONLY="M3 M7" runs a subset
m() { if [ -n "${ONLY:-}" ]; then case " $ONLY " in *" ${1%% *} "*) ;; *) return;; esac; fi; echo "### $1"; f=$2; shift 2; MUT_LINES=60 ./mut.sh $f "$1" "$2" -- C13 2>&1 | grep -E "exit=|^  signature|^OK|^INFRA|does not build" | cut -c1-230 | head -${SHOW:-5}; rm -rf out/C13-*; }
C=level/chunk.go
m "M1 Section.WriteTo writes biomes before block states (field order mismatch with ReadFrom)" $C 'pk.Short(s.BlockCount),
		s.States,
		s.Biomes,
	}.WriteTo(w)' 'pk.Short(s.BlockCount),
		s.Biomes,
		s.States,
	}.WriteTo(w)'
m "M2 Section.ReadFrom does not read the block count (field presence mismatch)" $C '(*pk.Short)(&s.BlockCount),
		s.States,
		s.Biomes,
	}.ReadFrom(r)' 's.States,
		s.Biomes,
	}.ReadFrom(r)'
m "M3 Chunk.WriteTo sends WORLD_SURFACE under MOTION_BLOCKING" $C 'MotionBlocking: c.HeightMaps.MotionBlocking.Raw(),
			WorldSurface:   c.HeightMaps.WorldSurface.Raw(),' 'MotionBlocking: c.HeightMaps.WorldSurface.Raw(),
			WorldSurface:   c.HeightMaps.WorldSurface.Raw(),'
m "M4 Chunk.ReadFrom stores the received MOTION_BLOCKING in both height maps" $C 'c.HeightMaps.WorldSurface = NewBitStorage(bitsForHeight, 16*16, heightmaps.WorldSurface)' 'c.HeightMaps.WorldSurface = NewBitStorage(bitsForHeight, 16*16, heightmaps.MotionBlocking)'
m "M5 ChunkToSave drops OCEAN_FLOOR" $C 'dst.Heightmaps["OCEAN_FLOOR"] = c.HeightMaps.OceanFloor.Raw()' ''
m "M6 ChunkToSave stores MOTION_BLOCKING_NO_LEAVES under MOTION_BLOCKING" $C 'dst.Heightmaps["MOTION_BLOCKING"] = c.HeightMaps.MotionBlocking.Raw()' 'dst.Heightmaps["MOTION_BLOCKING"] = c.HeightMaps.MotionBlockingNoLeaves.Raw()'
m "M7 ChunkFromSave swaps OCEAN_FLOOR and OCEAN_FLOOR_WG" $C 'OceanFloorWG:           NewBitStorage(bitsForHeight, 16*16, c.Heightmaps["OCEAN_FLOOR_WG"]),
			OceanFloor:             NewBitStorage(bitsForHeight, 16*16, c.Heightmaps["OCEAN_FLOOR"]),' 'OceanFloorWG:           NewBitStorage(bitsForHeight, 16*16, c.Heightmaps["OCEAN_FLOOR"]),
			OceanFloor:             NewBitStorage(bitsForHeight, 16*16, c.Heightmaps["OCEAN_FLOOR_WG"]),'
m "M8 ChunkFromSave reads WORLD_SURFACE_WG from OCEAN_FLOOR (a height-map mix-up next to the open swap)" $C 'WorldSurfaceWG:         NewBitStorage(bitsForHeight, 16*16, c.Heightmaps["WORLD_SURFACE"]),' 'WorldSurfaceWG:         NewBitStorage(bitsForHeight, 16*16, c.Heightmaps["OCEAN_FLOOR"]),'
m "M9 IsAirBlock forgets void_air (counter drift for an air variant)" level/block/utilfuncs.go 'case Air, CaveAir, VoidAir:' 'case Air, CaveAir:'
m "M10 SetBlock does not decrement when a non-air block is replaced" $C 'if !block.IsAir(s.States.Get(i)) {
		s.BlockCount--
	}' 'if !block.IsAir(s.States.Get(i)) && block.IsAir(v) {
		s.BlockCount--
	}'
m "M11 countNoneAirBlocks skips the last layer" $C 'for i := 0; i < 16*16*16; i++ {
		b := sec.GetBlock(i)' 'for i := 0; i < 16*16*15; i++ {
		b := sec.GetBlock(i)'
m "M12 readStatesPalette ignores the properties (palette translation)" $C 'if v.Properties.Data != nil {' 'if false && v.Properties.Data != nil {'
m "M13 writeStatesPalette names every palette entry after the first one (palette translation)" $C 'b := block.StateList[v]
		palette[i].Name = b.ID()' 'b := block.StateList[v]
		palette[i].Name = block.StateList[rawPalette[0]].ID()'
m "M14 ChunkToSave ignores yPos (Y offset)" $C 's.Y = int8(int32(i) + dst.YPos)' 's.Y = int8(int32(i))'
m "M15 ChunkFromSave places sections by Y - yPos - 1 modulo secs (section index)" $C 'i := int32(v.Y) - c.YPos
		if i < 0' 'i := (int32(v.Y) - c.YPos + 1) % int32(secs)
		if i < 0'
m "M16 ChunkToSave drops the sky light arrays" $C 's.SkyLight = v.SkyLight
		s.BlockLight = v.BlockLight
	}
	dst.Sections = sections' 's.BlockLight = v.BlockLight
	}
	dst.Sections = sections'
m "M17 ChunkFromSave takes block light for sky light" $C 'sections[i].SkyLight = v.SkyLight' 'sections[i].SkyLight = v.BlockLight'
m "M18 ChunkToSave drops the status" $C 'dst.Status = string(c.Status)' ''
m "M19 ChunkFromSave always reports status empty" $C 'Status:      ChunkStatus(c.Status),' 'Status:      StatusEmpty,'
m "M20 BlockEntity.WriteTo writes Y before XZ (field order)" $C 'pk.Byte(b.XZ),
		pk.Short(b.Y),
		pk.VarInt(b.Type),
		pk.NBT(b.Data),
	}.WriteTo(w)' 'pk.Short(b.Y),
		pk.Byte(b.XZ),
		pk.VarInt(b.Type),
		pk.NBT(b.Data),
	}.WriteTo(w)'
m "M21 UnpackXZ/PackXZ disagree on the nibble order" $C 'b.XZ = int8(X<<4 | Z)' 'b.XZ = int8(Z<<4 | X)'
m "M22 writeBiomesPalette shifts the palette by one entry" $C 'palette[i] = save.BiomeState(biomeID)' 'palette[(i+1)%len(palette)] = save.BiomeState(biomeID)'
m "M23 Chunk.ReadFrom does not store the section data (PutData skipped for the last section)" $C 'func (c *Chunk) PutData(data []byte) error {
	r := bytes.NewReader(data)
	for i := range c.Sections {' 'func (c *Chunk) PutData(data []byte) error {
	r := bytes.NewReader(data)
	for i := range c.Sections[:len(c.Sections)-1] {'
m "M24 lightData.WriteTo writes the sky arrays twice (masked while the Trust Edges finding is open: documents the limit)" $C 'pk.Array(l.SkyLight),
		pk.Array(l.BlockLight),
	}.WriteTo(w)' 'pk.Array(l.SkyLight),
		pk.Array(l.SkyLight),
	}.WriteTo(w)'
m "M25 registry: ToStateID maps odd ids to their even neighbour (bijection)" level/block/block.go 'ToStateID[block] = StateID(len(StateList))' 'ToStateID[block] = StateID(len(StateList) / 2 * 2)'
m "M26 registry: two blocks share one name (injectivity of id -> (name, properties))" level/block/blocks.go 'func (Granite) ID() string                     { return "minecraft:granite" }' 'func (Granite) ID() string                     { return "minecraft:stone" }'
