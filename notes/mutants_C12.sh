#!/bin/bash
cd "$(dirname "$(readlink -f "$0")")/.."
m() { echo "### $1"; shift; MUT_LINES=${MUT_LINES:-4} ./mut.sh level/palette.go "$1" "$2" -- C12 2>&1 | grep -E "signature|^OK|INFRA|build" | head -3; }
m "P1 copy loop drops position 0" 'for i := 0; i < length; i++ {
			newContainer.Set(i, p.Get(i))' 'for i := 1; i < length; i++ {
			newContainer.Set(i, p.Get(i))'
m "P2 copy loop shifts positions" 'newContainer.Set(i, p.Get(i))' 'newContainer.Set(i, p.Get((i+1)%length))'
m "P3 storage bits = logical bits after resize" 'data:    NewBitStorage(p.config.bits(vv), length, nil),' 'data:    NewBitStorage(vv, length, nil),'
m "P4 (equivalent) container.bits normalised on resize" 'bits:    vv,
			config:  p.config,' 'bits:    p.config.bits(vv),
			config:  p.config,'
m "P5 Fix not applied after ReadFrom" 'return n, p.data.Fix(p.bits)' 'return n, nil'
m "P6 stale palette when reading into a used container" 'p.palette = p.config.create(int(nBits))' 'if p.palette == nil {
		p.palette = p.config.create(int(nBits))
	}'
m "P7 blocks width 1..4 not normalised to 4" 'case 1, 2, 3, 4:
		return 4
	case 5, 6, 7, 8:
		return bits' 'case 1, 2, 3, 4, 5, 6, 7, 8:
		return bits'
m "P8 hash palette grows past capacity" 'if cap(h.values)-len(h.values) > 0 {' 'if cap(h.values)-len(h.values) >= 0 {'
m "P9 (equivalent) linear palette skips a width" 'return l.bits + 1, false' 'return l.bits + 2, false'
m "P11 biomes storage width fixed to 3" 'case 1, 2, 3:
		return bits
	default:
		return biome.BitsPerBiome' 'case 1, 2, 3:
		return 3
	default:
		return biome.BitsPerBiome'
m "P15 ReadFrom keeps wire bits unnormalised" 'p.bits = p.config.bits(int(nBits))' 'p.bits = int(nBits)'
m "P17 WithData hash ids off by one" 'ids[v] = i
		}' 'ids[v] = i + 1
		}'
m "P18 biomes direct threshold at 3" 'func (b biomesCfg) create(bits int) palette[BiomesState] {
	switch bits {
	case 0:
		return &singleValuePalette[BiomesState]{v: -1}
	case 1, 2, 3:' 'func (b biomesCfg) create(bits int) palette[BiomesState] {
	switch bits {
	case 0:
		return &singleValuePalette[BiomesState]{v: -1}
	case 1, 2:'
m "P19 single palette WriteTo writes count" 'return pk.VarInt(s.v).WriteTo(w)' 'return pk.Tuple{pk.VarInt(1), pk.VarInt(s.v)}.WriteTo(w)'
m "P20 linear ReadFrom drops last entry" 'for i := 0; i < int(size); i++ {
		if nn, err := value.ReadFrom(r); err != nil {
			return n + nn, err
		} else {
			n += nn
		}
		l.values[i] = T(value)
	}' 'for i := 0; i < int(size); i++ {
		if nn, err := value.ReadFrom(r); err != nil {
			return n + nn, err
		} else {
			n += nn
		}
		if i+1 < int(size) || i == 0 {
			l.values[i] = T(value)
		}
	}'
m "P21 Set ignores new value after resize" 'newContainer.data.Set(i, vv)
		}
		*p = newContainer' 'newContainer.data.Set(i, vv*0)
		}
		*p = newContainer'
