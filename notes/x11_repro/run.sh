#!/bin/bash
# Runs the X11 reproductions against /repo (or $VERIF_REPO).  Only the exported API is used (bot.Client.JoinServerWithOptions
# with an in-memory dialer: offline login, then the configuration stage); no overlay, nothing in the repository is changed.
set -eu
HERE=$(dirname "$(readlink -f "$0")")
REPO=${VERIF_REPO:-/repo}
export GOFLAGS=-mod=mod GOPROXY=off GOSUMDB=off GOTOOLCHAIN=local
trap 'rm -f $HERE/go.sum $HERE/go.alt.mod $HERE/go.alt.sum' EXIT
cp $REPO/go.sum $HERE/go.sum
MODF=""
if [ "$REPO" != /repo ]; then sed "s#=> /repo#=> $REPO#" $HERE/go.mod > $HERE/go.alt.mod; cp $HERE/go.sum $HERE/go.alt.sum; MODF="-modfile=$HERE/go.alt.mod"; fi
cd $HERE && go test -vet=off -count=1 $MODF "$@" ./...
