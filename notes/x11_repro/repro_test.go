package x11repro

// Reproductions of the X11 findings (bot/configuration.go) on the unchanged repository, through the exported API only:
// bot.Client.JoinServerWithOptions with a dialer that hands out one end of a net.Pipe; the test plays the server
// (offline login, then configuration packets of protocol 767).  Every test FAILS while the finding is open.

import (
	"context"
	"errors"
	"fmt"
	"net"
	"os"
	"testing"
	"time"

	"github.com/Tnze/go-mc/bot"
	"github.com/Tnze/go-mc/chat"
	"github.com/Tnze/go-mc/data/packetid"
	mcnet "github.com/Tnze/go-mc/net"
	pk "github.com/Tnze/go-mc/net/packet"
	"github.com/Tnze/go-mc/registry"
)

type dialer struct{ c net.Conn }

func (d dialer) DialMCContext(context.Context, string) (*mcnet.Conn, error) {
	return mcnet.WrapConn(d.c), nil
}

type joinResult struct {
	err      error
	panicked any
}

// join starts JoinServerWithOptions on a fresh pipe, plays the login part of the server and returns the server's side.
func join(t *testing.T, c *bot.Client) (srv *mcnet.Conn, raw net.Conn, done chan joinResult) {
	t.Helper()
	a, b := net.Pipe()
	done = make(chan joinResult, 1)
	go func() {
		var r joinResult
		defer func() { r.panicked = recover(); done <- r }()
		r.err = c.JoinServerWithOptions("example.invalid:25565", bot.JoinOptions{MCDialer: dialer{a}})
	}()
	srv = mcnet.WrapConn(b)
	b.SetDeadline(time.Now().Add(10 * time.Second))
	var p pk.Packet
	for i := 0; i < 2; i++ { // handshake, login start
		if err := srv.ReadPacket(&p); err != nil {
			t.Fatalf("login: %v", err)
		}
	}
	// login success: uuid, name, no properties, strict error handling
	if err := srv.WritePacket(pk.Marshal(packetid.ClientboundLoginGameProfile, pk.UUID{1}, pk.String("Steve"), pk.VarInt(0), pk.Boolean(false))); err != nil {
		t.Fatalf("login success: %v", err)
	}
	if err := srv.ReadPacket(&p); err != nil || packetid.ServerboundPacketID(p.ID) != packetid.ServerboundLoginLoginAcknowledged {
		t.Fatalf("login acknowledged: %v id=%d", err, p.ID)
	}
	t.Cleanup(func() { a.Close(); b.Close() })
	return srv, b, done
}

func send(t *testing.T, srv *mcnet.Conn, id packetid.ClientboundPacketID, f ...pk.FieldEncoder) {
	t.Helper()
	if err := srv.WritePacket(pk.Marshal(id, f...)); err != nil {
		t.Fatalf("server write %v: %v", id, err)
	}
}

// finish ends the stage the regular way and returns what JoinServer answered.
func finish(t *testing.T, srv *mcnet.Conn, done chan joinResult) joinResult {
	t.Helper()
	send(t, srv, packetid.ClientboundConfigFinishConfiguration)
	var p pk.Packet
	if err := srv.ReadPacket(&p); err != nil || packetid.ServerboundPacketID(p.ID) != packetid.ServerboundConfigFinishConfiguration {
		t.Fatalf("finish acknowledgement: %v id=%d", err, p.ID)
	}
	return <-done
}

type handler struct {
	*bot.DefaultConfigHandler
	pushes, pops, popAlls int
	selectAll             bool
}

func (h *handler) PushResourcePack(r bot.ResourcePack) { h.pushes++; h.DefaultConfigHandler.PushResourcePack(r) }
func (h *handler) PopResourcePack(id pk.UUID)           { h.pops++; h.DefaultConfigHandler.PopResourcePack(id) }
func (h *handler) PopAllResourcePack()                  { h.popAlls++; h.DefaultConfigHandler.PopAllResourcePack() }
func (h *handler) SelectDataPacks(p []bot.DataPack) []bot.DataPack {
	if h.selectAll {
		return p
	}
	return nil
}

func pushFields(id pk.UUID) []pk.FieldEncoder {
	return []pk.FieldEncoder{id, pk.String("https://packs.example/a.zip"), pk.String("0123456789012345678901234567890123456789"), pk.Boolean(true), pk.Boolean(false)}
}

// Finding PopIgnored: RESOURCE_PACK_POP is decoded and dropped; the ConfigHandler's PopResourcePack / PopAllResourcePack are never called.
func TestResourcePackPopNeverReachesTheHandler(t *testing.T) {
	c := bot.NewClient()
	h := &handler{DefaultConfigHandler: bot.NewDefaultConfigHandler()}
	c.ConfigHandler = h
	srv, _, done := join(t, c)
	id := pk.UUID{0xAA, 1}
	send(t, srv, packetid.ClientboundConfigResourcePackPush, pushFields(id)...)
	send(t, srv, packetid.ClientboundConfigResourcePackPop, pk.Boolean(true), id) // remove that pack
	send(t, srv, packetid.ClientboundConfigResourcePackPop, pk.Boolean(false))    // remove all packs
	if r := finish(t, srv, done); r.err != nil || r.panicked != nil {
		t.Fatalf("join: %v %v", r.err, r.panicked)
	}
	if h.pushes != 1 {
		t.Fatalf("PushResourcePack called %d times", h.pushes)
	}
	if h.pops != 1 || h.popAlls != 1 {
		t.Fatalf("the server popped the pack by id and then all packs; ConfigHandler.PopResourcePack was called %d times, PopAllResourcePack %d times", h.pops, h.popAlls)
	}
}

// Finding PushNoStatus: nobody answers RESOURCE_PACK_PUSH with a ServerboundResourcePack status (the handler gets no
// connection; Client.Conn is nil during the stage).  A vanilla server does not send FINISH_CONFIGURATION before the answer.
func TestResourcePackPushIsNeverAnswered(t *testing.T) {
	c := bot.NewClient()
	srv, raw, _ := join(t, c)
	send(t, srv, packetid.ClientboundConfigResourcePackPush, pushFields(pk.UUID{0xAA, 2})...)
	raw.SetReadDeadline(time.Now().Add(500 * time.Millisecond))
	var p pk.Packet
	err := srv.ReadPacket(&p)
	if err == nil && packetid.ServerboundPacketID(p.ID) == packetid.ServerboundConfigResourcePack {
		return // answered
	}
	if !errors.Is(err, os.ErrDeadlineExceeded) {
		t.Fatalf("unexpected: err=%v id=%d", err, p.ID)
	}
	// the loop is alive and answers other requests
	raw.SetDeadline(time.Now().Add(5 * time.Second))
	send(t, srv, packetid.ClientboundConfigKeepAlive, pk.Long(77))
	if err := srv.ReadPacket(&p); err != nil || packetid.ServerboundPacketID(p.ID) != packetid.ServerboundConfigKeepAlive {
		t.Fatalf("keep alive: %v id=%d", err, p.ID)
	}
	t.Fatalf("RESOURCE_PACK_PUSH was not answered within 500 ms (a keep-alive sent afterwards was): no ServerboundResourcePack status is ever sent")
}

// Finding StoreCookieNilMap: bot.NewClient leaves Client.Cookies nil; STORE_COOKIE in the configuration state panics inside JoinServer.
func TestStoreCookieDuringConfigurationPanics(t *testing.T) {
	c := bot.NewClient()
	srv, _, done := join(t, c)
	go srv.WritePacket(pk.Marshal(packetid.ClientboundConfigStoreCookie, pk.Identifier("minecraft:k"), pk.ByteArray("payload")))
	select {
	case r := <-done:
		if r.panicked != nil {
			t.Fatalf("JoinServer panicked: %v", r.panicked)
		}
		t.Fatalf("JoinServer returned %v", r.err)
	case <-time.After(time.Second):
		// still in the stage: the cookie was stored
		if string(c.Cookies["minecraft:k"]) != "payload" {
			t.Fatalf("cookie not stored: %q", c.Cookies["minecraft:k"])
		}
	}
}

// Finding EmptyCookie: a cookie stored with an empty payload is answered as absent.
func TestEmptyCookieIsAnsweredAsAbsent(t *testing.T) {
	c := bot.NewClient()
	c.Cookies = map[string][]byte{}
	srv, _, _ := join(t, c)
	send(t, srv, packetid.ClientboundConfigStoreCookie, pk.Identifier("minecraft:k"), pk.ByteArray{})
	send(t, srv, packetid.ClientboundConfigCookieRequest, pk.Identifier("minecraft:k"))
	var p pk.Packet
	if err := srv.ReadPacket(&p); err != nil || packetid.ServerboundPacketID(p.ID) != packetid.ServerboundConfigCookieResponse {
		t.Fatalf("cookie response: %v id=%d", err, p.ID)
	}
	var key pk.Identifier
	var has pk.Boolean
	if err := p.Scan(&key, &has); err != nil {
		t.Fatal(err)
	}
	if !has {
		t.Fatalf("the server stored cookie %s (empty payload) and asked for it: the response says the client has no such cookie", key)
	}
}

// Finding UnknownPacketId (judgement: the lead decides): a packet id outside the configuration table is skipped silently.
func TestUnknownPacketIdIsSkippedSilently(t *testing.T) {
	c := bot.NewClient()
	srv, _, done := join(t, c)
	send(t, srv, packetid.ClientboundPacketID(0x7f), pk.VarInt(1), pk.String("what is this"))
	r := finish(t, srv, done)
	if r.panicked != nil {
		t.Fatalf("panic: %v", r.panicked)
	}
	if r.err == nil {
		t.Fatalf("a configuration packet with id 0x7f was received; JoinServer returned nil (vanilla: decoder error, disconnect)")
	}
}

// Finding RegistryNoData (X02 ReadFromNoData reached through the routing): an entry sent without data - the server does that
// for entries of a data pack the client selected in SELECT_KNOWN_PACKS - is skipped, later entries get smaller ids.
func TestRegistryEntryWithoutDataShiftsLaterIds(t *testing.T) {
	c := bot.NewClient()
	c.ConfigHandler = &handler{DefaultConfigHandler: bot.NewDefaultConfigHandler(), selectAll: true}
	srv, _, done := join(t, c)
	core := bot.DataPack{Namespace: "minecraft", ID: "core", Version: "1.21"}
	send(t, srv, packetid.ClientboundConfigSelectKnownPacks, pk.VarInt(1), core)
	var p pk.Packet
	if err := srv.ReadPacket(&p); err != nil || packetid.ServerboundPacketID(p.ID) != packetid.ServerboundConfigSelectKnownPacks {
		t.Fatalf("select known packs: %v id=%d", err, p.ID)
	}
	var n pk.VarInt
	if err := p.Scan(&n); err != nil || n != 1 {
		t.Fatalf("the handler selected the pack; the answer lists %d packs (%v)", n, err)
	}
	send(t, srv, packetid.ClientboundConfigRegistryData, pk.Identifier("minecraft:damage_type"), pk.VarInt(2),
		pk.Identifier("minecraft:arrow"), pk.Boolean(false), // known to the client from the selected pack
		pk.Identifier("minecraft:custom"), pk.Boolean(true), pk.NBT(registry.DamageType{MessageID: "custom", Scaling: "never", Exhaustion: 0.1}))
	if r := finish(t, srv, done); r.err != nil || r.panicked != nil {
		t.Fatalf("join: %v %v", r.err, r.panicked)
	}
	id, e := c.Registries.DamageType.Get("minecraft:custom")
	if e == nil || id != 1 {
		t.Fatalf("minecraft:custom is the second entry of the packet (network id 1); the registry gives it id %d (entry %v)", id, e)
	}
}

// Not a finding - documents what the specification follows: REGISTRY_DATA for an identifier the client does not keep ends the
// stage with an error naming it, UPDATE_TAGS sections for such identifiers are skipped, DISCONNECT carries the reason.
func TestSpecifiedAsCoded(t *testing.T) {
	c := bot.NewClient()
	srv, _, done := join(t, c)
	send(t, srv, packetid.ClientboundConfigUpdateTags, pk.VarInt(1), pk.Identifier("minecraft:block"), pk.VarInt(1), pk.Identifier("minecraft:logs"), pk.VarInt(2), pk.VarInt(5), pk.VarInt(6))
	send(t, srv, packetid.ClientboundConfigRegistryData, pk.Identifier("minecraft:block"), pk.VarInt(0))
	r := <-done
	var ce bot.ConfigErr
	if !errors.As(r.err, &ce) || fmt.Sprint(r.err) != "bot: configuration error: [registry] unknown registry: minecraft:block" {
		t.Fatalf("got %v", r.err)
	}
	c2 := bot.NewClient()
	srv2, _, done2 := join(t, c2)
	send(t, srv2, packetid.ClientboundConfigDisconnect, chat.Text("bye"))
	r = <-done2
	var de bot.DisconnectErr
	if !errors.As(r.err, &de) || chat.Message(de).Text != "bye" {
		t.Fatalf("got %v", r.err)
	}
}
