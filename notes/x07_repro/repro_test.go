package x7repro

// Reproductions of the X07 findings (level/component, bot/screen.Slot) on the unchanged repository.
// Every test FAILS while the finding is open.  Run with ./run.sh.

import (
	"bytes"
	"fmt"
	"testing"

	"github.com/Tnze/go-mc/bot/screen"
	"github.com/Tnze/go-mc/data/registryid"
	"github.com/Tnze/go-mc/level/component"
)

func try(f func()) (msg string) {
	defer func() {
		if r := recover(); r != nil {
			msg = fmt.Sprint(r)
		}
	}()
	f()
	return ""
}

// Factory: NewComponent returns nil for 13 of the 57 ids of registryid.DataComponentType: 34 (an empty `case 34:` - Go
// does not fall through to `case 35`) and 45..56 (empty cases).  A stack that carries one of them cannot be read: the
// payload has no length prefix, so nothing behind it can be found.
func TestFactoryKnowsTheTable(t *testing.T) {
	for id, name := range registryid.DataComponentType {
		c := component.NewComponent(int32(id))
		if c == nil {
			t.Errorf("NewComponent(%d) = nil, the table says %s", id, name)
		} else if c.ID() != name {
			t.Errorf("NewComponent(%d).ID() = %s, the table says %s", id, c.ID(), name)
		}
	}
}

// NoPanic: 12 component types are stubs whose ReadFrom / WriteTo panic("unimplemented"); two more panic as soon as
// their list is not empty because the element type has no ReadFrom / WriteTo (pk.Ary asserts FieldEncoder / FieldDecoder).
func TestNoPanic(t *testing.T) {
	for id := range registryid.DataComponentType {
		c := component.NewComponent(int32(id))
		if c == nil {
			continue
		}
		if m := try(func() { c.WriteTo(&bytes.Buffer{}) }); m != "" {
			t.Errorf("%s: WriteTo of the zero value panics: %s", c.ID(), m)
		}
		if m := try(func() { c.ReadFrom(bytes.NewReader(make([]byte, 16))) }); m != "" {
			t.Errorf("%s: ReadFrom panics: %s", c.ID(), m)
		}
	}
	var se component.StoredEnchantments
	if m := try(func() { se.ReadFrom(bytes.NewReader([]byte{1, 1, 2, 0})) }); m != "" { // one enchantment (1, level 2), not shown
		t.Errorf("stored_enchantments with one entry: %s", m)
	}
	wb := component.WritableBookContent{Pages: []component.Page{{Raw: "x"}}}
	if m := try(func() { wb.WriteTo(&bytes.Buffer{}) }); m != "" {
		t.Errorf("writable_book_content with one page: %s", m)
	}
}

// Write/Read(lodestone_tracker): dimension and position are optional on the wire (present only behind
// "has global position" = true); the code reads and writes them unconditionally.
func TestLodestoneTrackerWithoutPosition(t *testing.T) {
	var buf bytes.Buffer
	(&component.LodestoneTracker{Tracked: true}).WriteTo(&buf)
	if want := []byte{0, 1}; !bytes.Equal(buf.Bytes(), want) {
		t.Errorf("LodestoneTracker{no position, tracked} written as % x, protocol 767: % x", buf.Bytes(), want)
	}
	var lt component.LodestoneTracker
	r := bytes.NewReader([]byte{0, 1, 0xff, 0x80}) // the payload, then two bytes of whatever follows
	n, err := lt.ReadFrom(r)
	if err != nil || n != 2 || !bool(lt.Tracked) {
		t.Errorf("reading 00 01: n=%d err=%v tracked=%v (want n=2, tracked)", n, err, lt.Tracked)
	}
}

// Write/Read(instrument): the use duration of an inline instrument is a VarInt number of ticks in 767 (a Float in
// seconds only from 768 on, where a description follows as well); the code reads and writes a Float.
func TestInstrumentUseDuration(t *testing.T) {
	in := component.Instrument{UseDuration: 140, Range: 256}
	in.SoundEvent.SoundName = "m:x"
	var buf bytes.Buffer
	in.WriteTo(&buf)
	want := []byte{0, 0, 3, 'm', ':', 'x', 0, 0x8c, 0x01, 0x43, 0x80, 0, 0}
	if !bytes.Equal(buf.Bytes(), want) {
		t.Errorf("inline instrument written as % x, protocol 767: % x", buf.Bytes(), want)
	}
	var back component.Instrument
	n, err := back.ReadFrom(bytes.NewReader(append(want, 0xff, 0x80)))
	if err != nil || n != int64(len(want)) || back.UseDuration != 140 || back.Range != 256 {
		t.Errorf("reading % x: n=%d err=%v duration=%v range=%v", want, n, err, back.UseDuration, back.Range)
	}
}

// Write/Read(intangible_projectile): the component has no network codec of its own in 767 and travels as the NBT form
// of its (unit) value, the empty compound 0a 00; the code reads and writes nothing, so the two bytes stay in the stream.
func TestIntangibleProjectile(t *testing.T) {
	var buf bytes.Buffer
	(&component.IntangibleProjectile{}).WriteTo(&buf)
	if !bytes.Equal(buf.Bytes(), []byte{0x0a, 0}) {
		t.Errorf("intangible_projectile written as % x, protocol 767: 0a 00", buf.Bytes())
	}
	n, _ := (&component.IntangibleProjectile{}).ReadFrom(bytes.NewReader([]byte{0x0a, 0, 0xff}))
	if n != 2 {
		t.Errorf("intangible_projectile consumed %d bytes of 0a 00 ..", n)
	}
}

// Write / RoundTrip(NBT End document): a component that holds a dynbt.Value (custom_data, map_decorations, entity_data,
// bucket_entity_data, block_entity_data, recipes) writes its zero value - and a value read from the document 00 - as 00 00.
func TestNBTEndDocument(t *testing.T) {
	var cd component.CustomData
	if n, err := cd.ReadFrom(bytes.NewReader([]byte{0})); n != 1 || err != nil {
		t.Fatalf("reading 00: n=%d err=%v", n, err)
	}
	var buf bytes.Buffer
	cd.WriteTo(&buf)
	if !bytes.Equal(buf.Bytes(), []byte{0}) {
		t.Errorf("the End document read from 00 is written back as % x", buf.Bytes())
	}
	var back component.CustomData
	r := bytes.NewReader(buf.Bytes())
	back.ReadFrom(r)
	if r.Len() != 0 {
		t.Errorf("ReadFrom leaves %d byte(s) of what WriteTo wrote", r.Len())
	}
}

// Read / Write(debug_stick_state): the payload is a compound block id -> property name; the Go type is a block state
// {Name, Properties}: every real payload is refused (unknown field), and no value built from exported fields can be
// written unless Properties holds a document.
func TestDebugStickState(t *testing.T) {
	doc := []byte{0x0a, 8, 0, 1, 'a', 0, 1, 'b', 0} // {a: "b"}
	var d component.DebugStickState
	if n, err := d.ReadFrom(bytes.NewReader(doc)); err != nil || n != int64(len(doc)) {
		t.Errorf("reading {a:\"b\"}: n=%d err=%v", n, err)
	}
	var z component.DebugStickState
	if _, err := z.WriteTo(&bytes.Buffer{}); err != nil {
		t.Errorf("writing the zero value: %v", err)
	}
}

// SlotWrite / SlotRoundTrip: Slot.WriteTo writes flag, id, count, NBT (the layout before 1.20.5, with the count as a
// VarInt); Slot.ReadFrom reads count, id, number of added / removed components (767).
func TestSlotWriteLayout(t *testing.T) {
	var buf bytes.Buffer
	(&screen.Slot{ID: 5, Count: 3}).WriteTo(&buf)
	if want := []byte{3, 5, 0, 0}; !bytes.Equal(buf.Bytes(), want) {
		t.Errorf("Slot{ID 5, Count 3} written as % x, protocol 767: % x", buf.Bytes(), want)
	}
	var back screen.Slot
	back.ReadFrom(bytes.NewReader(buf.Bytes()))
	if back.ID != 5 || back.Count != 3 {
		t.Errorf("Slot{ID 5, Count 3} reads back as {ID %d, Count %d}", back.ID, back.Count)
	}
}

// SlotReadComponents: Slot.ReadFrom stops behind the two numbers; the components stay in the stream, so whatever
// follows the slot in the packet (the next slot of ContainerSetContent, the carried item) is read from their bytes.
func TestSlotReadComponents(t *testing.T) {
	// 1 x item 7 with one added component: damage (type 3) = 9 ; then a second, plain stack 2 x item 8
	in := []byte{1, 7, 1, 0, 3, 9, 2, 8, 0, 0}
	r := bytes.NewReader(in)
	var a, b screen.Slot
	na, _ := a.ReadFrom(r)
	b.ReadFrom(r)
	if na != 6 || b.Count != 2 || b.ID != 8 {
		t.Errorf("first slot consumed %d bytes (want 6); the second reads as {ID %d, Count %d} (want {8, 2})", na, b.ID, b.Count)
	}
}
