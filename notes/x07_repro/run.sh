#!/bin/bash
# Runs the X07 reproductions against /repo (exported API only, no overlay). Every test FAILS while its finding is open.
set -u
HERE=$(dirname "$(readlink -f "$0")")
export GOFLAGS=-mod=mod GOPROXY=off GOSUMDB=off GOTOOLCHAIN=local
cp /repo/go.sum $HERE/go.sum
trap 'rm -f $HERE/go.sum' EXIT
cd $HERE && go test -vet=off -count=1 "$@" ./...
