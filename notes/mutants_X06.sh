#!/bin/bash
# Hand-written mutants of bot/basic, bot/msg (and the pieces of bot, chat, chat/sign, bot/playerlist they stand on) for X06
# (scratch worktrees through mut.sh; /repo untouched).
# usage: notes/mutants_X06.sh [name...]   prints, per mutant, the NOTE signatures the unchanged tree does not show (+) / no longer shows (-)
cd "$(dirname "$(readlink -f "$0")")/.."
export GOFLAGS=-mod=mod GOPROXY=off GOSUMDB=off GOTOOLCHAIN=local VERIF_ROOT=$PWD MUT_LINES=80
BASE=/tmp/x6-mut-base.$$
key() { grep "NOTE spec-extension" | sed -E 's/^NOTE spec-extension ([A-Za-z]+) finding: (Model\(code\) - [A-Za-z]+|[A-Za-z()-]+).*/\1 \2/' | sort -u; }
./check X06 quick 2>&1 | key > $BASE
m() { # name file old new
  name=$1; shift
  if [ ${#WANT[@]} -gt 0 ] && [[ ! " ${WANT[*]} " =~ " $name " ]]; then return; fi
  out=$(./mut.sh "$1" "$2" "$3" -- X06 2>&1)
  echo "== $name: $(echo "$out" | grep -E '^== X06|does not build|pattern not found' | tr '\n' ' ')"
  echo "$out" | key | comm -13 $BASE - | sed 's/^/   + /' | tr '\n' ';'; echo
  echo "$out" | key | comm -23 $BASE - | sed 's/^/   - /' | tr '\n' ';'; echo
}
WANT=("$@")
I=bot/basic/info.go
m B1 $I '(*pk.UnsignedByte)(&p.Gamemode),' 'new(pk.UnsignedByte),'
m B2 $I 'var copyMeta bool' 'var copyMeta bool
	p.EID = 0'
m B3 bot/basic/keepalive.go '	// Response' '	p.c.Conn.WritePacket(pk.Packet{ID: int32(packetid.ServerboundKeepAlive), Data: packet.Data})
	// Response'
m B4 bot/basic/keepalive.go '	p.resetKeepAliveDeadline()

	// Response' '	// Response'
m B5 bot/basic/ping.go 'Data: packet.Data,' 'Data: append([]byte{packet.Data[0] ^ 1}, packet.Data[1:]...),'
m B6 $I 'pk.String(p.Settings.Brand),' 'pk.String(""),'
m B7 $I 'pk.Boolean(p.Settings.ChatColors),' 'pk.Boolean(p.Settings.EnableTextFiltering),'
m B8 bot/basic/events.go 'if deathHandler != nil && health <= 0 {' 'if deathHandler != nil && health < 0 {'
m B10 bot/basic/cookie.go 'cookieContent := p.c.Cookies[string(key)]' 'cookieContent := p.c.Cookies[string(key)+"x"]'
m B11 bot/basic/cookie.go 'p.c.Cookies[string(key)] = []byte(payload)' '_ = payload'
# candidate repair of StoreCookieNilMap: the finding must disappear, the model of the code must complain
m B12 bot/basic/cookie.go 'p.c.Cookies[string(key)] = []byte(payload)' 'if p.c.Cookies == nil {
		p.c.Cookies = map[string][]byte{}
	}
	p.c.Cookies[string(key)] = []byte(payload)'
m B13 bot/basic/tags.go 'return Error{errors.New("unknown registry: " + string(registryID))}' '_ = errors.New
			continue'
# candidate repair of GameStartOrder: GameStart behind the Login handler
m B14 bot/basic/events.go 'Priority: 64, ID: packetid.ClientboundLogin,' 'Priority: -1, ID: packetid.ClientboundLogin,'
m B15 bot/basic/events.go 'return handler(chat.Message(reason))' 'return handler(chat.Text(reason.Text + "0"))'
m B16 bot/basic/basic.go '		teleportID,
	))' '		teleportID + 1,
	))'
m B17 bot/basic/basic.go 'const PerformRespawn = 0' 'const PerformRespawn = 1'
m B18 bot/event.go 'return slice[i].Priority > slice[j].Priority' 'return slice[i].Priority < slice[j].Priority'
m B19 bot/ingame.go '		err = handler.F(p)
		if err != nil {
			return PacketHandlerError{ID: packetID, Err: err}
		}' '		if e := handler.F(p); e != nil && err == nil {
			err = PacketHandlerError{ID: packetID, Err: e}
		}'
m B20 bot/basic/events.go 'byte(Flags), int32(TeleportID))' '0, int32(TeleportID))'
m B21 $I 'pk.Array((*[]pk.Identifier)(unsafe.Pointer(&p.DimensionNames))),' 'pk.Array((*[]pk.Identifier)(unsafe.Pointer(new([]string)))),'
m B22 $I '	p.resetKeepAliveDeadline()
	return nil' '	return nil'
m B23 bot/basic/events.go '			if healthChangeErr != nil || deathErr != nil {' '			if healthChangeErr != nil {'
C=bot/msg/chat.go
m M1 $C 'return m.events.SystemChat(msg, bool(overlay))' 'return m.events.SystemChat(msg, !bool(overlay))'
m M2 $C '	if !ok {
		return InvalidChatPacket{ErrUnknownPlayer}
	}' '	if !ok {
		senderInfo = &playerlist.PlayerInfo{}
	}'
m M3 $C '	if ct == nil {
		return InvalidChatPacket{ErrUnknwonChatType}
	}

	var message sign.Message' '	if ct == nil {
		ct = m.c.Registries.ChatType.GetByID(0)
	}

	var message sign.Message'
m M4 $C 'if unsignedContent.Has {' 'if unsignedContent.Has && false {'
m M5 $C 'return m.events.PlayerChatMessage(msg, validated)' 'return m.events.PlayerChatMessage(msg, validated || true)'
m M6 $C 'if len(msg) > 256 {' 'if len(msg) >= 256 {'
m M7 $C 'pk.Boolean(false), // signature' 'pk.Boolean(true), // signature'
m M8 $C '		pk.Boolean(false), // signature
		sign.HistoryUpdate{' '		pk.Boolean(false), // signature
		sign.HistoryUpdate{
			Offset: 1,'
# candidate repair of SignedChain (hash accepted, the first message of a chain accepted): the model of the code must complain
m M9 chat/sign/session.go '	return s.PublicKey.VerifyMessage(h.Sum(nil), msg.Signature[:]) == nil
}

func (s *Session) verifyChain(msg *Message) bool {
	return s.lastMsg != nil && (' '	return true
}

func (s *Session) verifyChain(msg *Message) bool {
	return s.lastMsg == nil || ('
m M10 chat/decoration.go '			with[i] = t.SenderName' '			with[i] = content'
# candidate repair of TargetMissing
m M12 chat/decoration.go '			with[i] = *t.TargetName' '			if t.TargetName != nil {
				with[i] = *t.TargetName
			} else {
				with[i] = Text("")
			}'
# candidate repair of SendCommandLayout
m M14 $C '		pk.String(command),
		pk.Long(time.Now().UnixMilli()),
		pk.Long(salt),
		pk.Ary[pk.VarInt]{Ary: []pk.Tuple{}},
		sign.HistoryUpdate{
			Acknowledged: pk.NewFixedBitSet(20),
		},
	))' '		pk.String(command),
	))'
m M15 bot/playerlist/playerlist.go '				player.ChatSession.InitValidate()' ''
m M16 $C '			Priority: 64, ID: packetid.ClientboundDisguisedChat,' '			Priority: -1, ID: packetid.ClientboundDisguisedChat,'
m M17 $C '	msg := chatType.Decorate(message, &ct.Chat)' '	msg := chatType.Decorate(message, &ct.Narration)'
m M18 $C 'pk.Long(time.Now().UnixMilli()),' 'pk.Long(time.Now().Unix()),'
rm -f $BASE
