#!/bin/bash
# X01 mutant table: every mutant of server/keepalive.go must add NOTE finding lines that the unchanged tree
# (notes/x01_baseline_notes.txt) does not print. Usage: notes/x01_mutants.sh [name ...]
ROOT=$(dirname "$(dirname "$(readlink -f "$0")")")
cd $ROOT
export GOFLAGS=-mod=mod GOPROXY=off GOSUMDB=off GOTOOLCHAIN=local
F=server/keepalive.go
declare -A OLD NEW
OLD[M01_ping_timer_not_rearmed_when_list_empty]=$'\t// Wait for next earliest player\n\tkeepAliveSetTimer(k.pingList, k.listTimer, keepAliveInterval)'
NEW[M01_ping_timer_not_rearmed_when_list_empty]=$'\tif k.pingList.Len() > 0 {\n\t\tkeepAliveSetTimer(k.pingList, k.listTimer, keepAliveInterval)\n\t}'
OLD[M02_kick_timer_not_rearmed_when_list_empty]=$'\tkeepAliveSetTimer(k.waitList, k.waitTimer, keepAliveWaitInterval)\n}\n\nfunc keepAliveSetTimer'
NEW[M02_kick_timer_not_rearmed_when_list_empty]=$'\tif k.waitList.Len() > 0 {\n\t\tkeepAliveSetTimer(k.waitList, k.waitTimer, keepAliveWaitInterval)\n\t}\n}\n\nfunc keepAliveSetTimer'
OLD[M03_pong_requeues_into_wait_list]=$'// move the player to ping list\n\tk.listIndex[c] = k.pingList.PushBack('
NEW[M03_pong_requeues_into_wait_list]=$'// move the player to ping list\n\tk.listIndex[c] = k.waitList.PushBack('
OLD[M04_kick_takes_from_ping_list]=$'if elem := k.waitList.Front(); elem != nil {\n\t\tc := k.waitList.Remove(elem)'
NEW[M04_kick_takes_from_ping_list]=$'if elem := k.pingList.Front(); elem != nil {\n\t\tc := k.pingList.Remove(elem)'
OLD[M05_head_test_inverted_on_pong]=$'if elem.Prev() == nil {\n\t\tif !k.waitTimer.Stop()'
NEW[M05_head_test_inverted_on_pong]=$'if elem.Prev() != nil {\n\t\tif !k.waitTimer.Stop()'
OLD[M06_id_not_incremented]=$'\t\tk.keepAliveID++\n'
NEW[M06_id_not_incremented]=$''
OLD[M07_ping_keeps_join_stamp]=$'c := k.pingList.Remove(elem).(keepAliveItem).player'
NEW[M07_ping_keeps_join_stamp]=$'it := k.pingList.Remove(elem).(keepAliveItem)\n\t\tc := it.player\n\t\tnow = it.t'
OLD[M08_leave_keeps_wait_list_entry]=$'\tk.pingList.Remove(elem)\n\tk.waitList.Remove(elem)\n}'
NEW[M08_leave_keeps_wait_list_entry]=$'\tk.pingList.Remove(elem)\n}'
OLD[M09_join_pushes_front]=$'k.listIndex[c] = k.pingList.PushBack(\n\t\tkeepAliveItem{player: c, t: time.Now()},'
NEW[M09_join_pushes_front]=$'k.listIndex[c] = k.pingList.PushFront(\n\t\tkeepAliveItem{player: c, t: time.Now()},'
OLD[M10_leave_does_not_rearm_kick_timer]=$'\t\tdefer keepAliveSetTimer(k.waitList, k.waitTimer, keepAliveWaitInterval)\n\t}\n\tk.pingList.Remove(elem)'
NEW[M10_leave_does_not_rearm_kick_timer]=$'\t}\n\tk.pingList.Remove(elem)'
OLD[M11_pong_leaves_wait_list_entry]=$'delay := now.Sub(k.waitList.Remove(elem).(keepAliveItem).t)'
NEW[M11_pong_leaves_wait_list_entry]=$'delay := now.Sub(elem.Value.(keepAliveItem).t)'
OLD[M12_deadline_adds_elapsed]=$'interval -= time.Since(item.t)'
NEW[M12_deadline_adds_elapsed]=$'interval += time.Since(item.t)'
OLD[M13_leave_does_not_rearm_ping_timer]=$'\t\tdefer keepAliveSetTimer(k.pingList, k.listTimer, keepAliveInterval)\n'
NEW[M13_leave_does_not_rearm_ping_timer]=$''
names=("$@"); [ ${#names[@]} = 0 ] && names=($(printf '%s\n' "${!OLD[@]}" | sort))
for n in "${names[@]}"; do
  out=$(MUT_LINES=40 MUT_GREP='^NOTE spec-extension KeepAlive (finding|unconfirmed)|INFRA|VIOLATION|^OK|INCONCLUSIVE|exit=' ./mut.sh $F "${OLD[$n]}" "${NEW[$n]}" -- X01 2>&1)
  new=$(echo "$out" | grep -E "^NOTE" | sed -e 's/ \[.*//' | cut -c1-200 | sort -u | comm -23 - <(cut -c1-200 notes/x01_baseline_notes.txt | sort -u))
  echo "=== $n: $(echo "$out" | grep -E 'exit=|does not build|pattern not found' | head -1) new NOTE lines: $(echo -n "$new" | grep -c .)"
  echo "$new" | cut -c1-230
done
