#!/bin/bash
cd "$(dirname "$(readlink -f "$0")")/.."
m() { echo "### $1"; shift; MUT_LINES=3 ./mut.sh level/bitstorage.go "$1" "$2" -- C11 2>&1 | tail -4; }
m "M1 swap returns new" 'old = int(l >> offset & b.mask)
	b.data[c]' 'old = v
	b.data[c]'
m "M2 Get bound > length" 'if i < 0 || i > b.length-1 {
		panic(indexOutOfBounds)
	}

	c, offset := b.calcIndex(i)
	l := b.data[c]
	return' 'if i < 0 || i > b.length {
		panic(indexOutOfBounds)
	}

	c, offset := b.calcIndex(i)
	l := b.data[c]
	return'
m "M3 Set value >= mask" 'func (b *BitStorage) Set(i, v int) {
	if b.valuesPerLong == 0 {
		return
	}
	if v < 0 || uint64(v) > b.mask {' 'func (b *BitStorage) Set(i, v int) {
	if b.valuesPerLong == 0 {
		return
	}
	if v < 0 || uint64(v) >= b.mask {'
m "M4 size rounding" 'return (length + valuesPerLong - 1) / valuesPerLong' 'return length/valuesPerLong + 1'
m "M5 vpl ceil in constructor" 'valuesPerLong: 64 / bits,
	}
	dataLen' 'valuesPerLong: (64 + bits - 1) / bits,
	}
	dataLen'
m "M6 Set does not clear" 'b.data[c] = l&(b.mask<<offset^math.MaxUint64) | (uint64(v)&b.mask)<<offset
}' 'b.data[c] = l | (uint64(v)&b.mask)<<offset
}'
m "M7 Fix keeps stale bits" '	b.mask = 1<<bits - 1
	b.bits = bits
	b.valuesPerLong = 64 / bits
	// check' '	b.mask = 1<<bits - 1
	b.valuesPerLong = 64 / bits
	// check'
m "M9 WriteTo count = length" 'n, err := pk.VarInt(len(b.data)).WriteTo(w)' 'n, err := pk.VarInt(b.length).WriteTo(w)'
m "M10 Get loses top bit" 'return int(l >> offset & b.mask)' 'return int(l >> offset & (b.mask >> 1))'
m "M13 constructor accepts longer data" 'if len(data) != dataLen {' 'if len(data) < dataLen {'
m "M15 Set index bound i > length" 'if i < 0 || i > b.length-1 {
		panic(indexOutOfBounds)
	}

	c, offset := b.calcIndex(i)
	l := b.data[c]
	b.data[c] = l&(b.mask<<offset^math.MaxUint64) | (uint64(v)&b.mask)<<offset
}' 'if i < 0 || i > b.length {
		panic(indexOutOfBounds)
	}

	c, offset := b.calcIndex(i)
	l := b.data[c]
	b.data[c] = l&(b.mask<<offset^math.MaxUint64) | (uint64(v)&b.mask)<<offset
}'
m "M16 Fix does not check length" 'if l := len(b.data); l != dataLen {' 'if l := len(b.data); l < dataLen {'
m "M17 calcBitsPerValue floor" 'valuePerLong := (length + longs - 1) / longs' 'valuePerLong := length / longs'
m "M18 Swap mask 31 bits" 'mask: 1<<bits - 1,' 'mask: 1<<uint(bits&31) - 1,'
m "M20 ReadFrom skips first long" 'for i := range b.data {
		nn, err := v.ReadFrom(r)' 'for i := 1; i < len(b.data); i++ {
		nn, err := v.ReadFrom(r)'
m "M25 Swap clears one neighbour bit" 'old = int(l >> offset & b.mask)
	b.data[c] = l&(b.mask<<offset^math.MaxUint64)' 'old = int(l >> offset & b.mask)
	b.data[c] = l&((b.mask<<1|1)<<offset^math.MaxUint64)'
m "M26 Swap no index check upper" 'if i < 0 || i > b.length-1 {
		panic(indexOutOfBounds)
	}
	c, offset := b.calcIndex(i)
	l := b.data[c]
	old' 'if i < 0 {
		panic(indexOutOfBounds)
	}
	c, offset := b.calcIndex(i)
	l := b.data[c]
	old'
