#!/bin/bash
# Self-test of the X08 binding: hand-written mutants of the real server code, each run through ./mut.sh (scratch
# worktree, /repo untouched). Prints, per mutant, the NOTE signatures that do not appear on the unchanged tree.
# usage: notes/mutants_X08.sh [ids...]
ROOT=$(dirname "$(dirname "$(readlink -f "$0")")")
cd "$ROOT"
export GOFLAGS=-mod=mod GOPROXY=off GOSUMDB=off GOTOOLCHAIN=local VERIF_ROOT=$ROOT
BASE="AcceptBound ConfigGate StatusConsistent Model(AcceptBound) Model(ConfigGate) Model(StatusConsistent)"
run() { # id file old new
  id=$1; shift
  if [ -n "$ONLY" ] && ! echo " $ONLY " | grep -q " $id "; then return; fi
  out=$(MUT_LINES=60 MUT_GREP="NOTE spec-extension|INFRA|exit=|VIOLATION|^OK" ./mut.sh "$1" "$2" "$3" -- X08 2>&1)
  rc=$(echo "$out" | grep -o "exit=[0-9]*" | head -1)
  sigs=$(echo "$out" | grep -o "finding: [A-Za-z]*\(([^)]*)\)\?" | sed 's/finding: //' | sort -u)
  new=""; gone=""
  while read -r s; do [ -z "$s" ] && continue; echo " $BASE " | grep -qF " $s " || new="$new, $s"; done <<< "$sigs"
  for b in $BASE; do echo "$sigs" | grep -qxF "$b" || gone="$gone, $b"; done
  infra=$(echo "$out" | grep -c "^INFRA")
  echo "| $id | $rc | new: ${new#, } | gone: ${gone#, } | infra=$infra |"
}
ONLY="$*"
run M01 server/playerlist.go 'delete(p.players, client)' '_ = client'
run M02 server/playerlist.go 'if len(p.players) >= p.maxPlayer {
		client.SendDisconnect' 'if len(p.players) > p.maxPlayer {
		client.SendDisconnect'
run M03 server/playerlist.go 'if len(p.players) >= p.maxPlayer {
		return false' 'if len(p.players) > p.maxPlayer {
		return false'
run M04 server/playerlist.go 'func (p *PlayerList) OnlinePlayer() int {
	p.playersLock.Lock()
	defer p.playersLock.Unlock()
	return len(p.players)' 'func (p *PlayerList) OnlinePlayer() int {
	p.playersLock.Lock()
	defer p.playersLock.Unlock()
	return len(p.players) + 1'
run M05 server/login.go 'id = offline.NameToUUID(name)' '_ = offline.NameToUUID(name)'
run M06 server/login.go 'err = LoginFailErr{reason: result}
			return' '_ = LoginFailErr{reason: result}'
run M07 server/server.go '_ = conn.WritePacket(pk.Marshal(
					packetid.ClientboundLoginLoginDisconnect,
					loginErr.reason,
				))' '_ = loginErr.reason'
run M08 server/login.go 'err = LoginFailErr{reason: result}' 'err = LoginFailErr{reason: chat.Text("go away" + result.Text)}'
run M09 server/server.go 's.AcceptPlayer(name, id, profilePubKey, properties, protocol, conn)' 's.AcceptPlayer(name, id, profilePubKey, properties, protocol+1, conn)'
run M10 server/ping.go 'list.Players.Online = s.OnlinePlayer()' 'list.Players.Online = s.OnlinePlayer() + 1'
run M11 server/ping.go 'list.Players.Max = s.MaxPlayer()' 'list.Players.Max = 20'
run M12 server/server.go 'defer conn.Close()' 'defer func() {}()'
run M13 server/server.go 's.AcceptConfig(conn)
		if err != nil {' 'err = s.AcceptConfig(conn)
		if err != nil {'
run M14 server/configuration.go 'err = conn.WritePacket(pk.Marshal(
		packetid.ClientboundConfigFinishConfiguration,
	))
	return err' 'return err'
run M15 server/playerlist.go 'sample = make([]PlayerSample, length)' 'sample = make([]PlayerSample, length, length+1)
	if length > 0 {
		defer func() { sample = sample[:length-1] }()
	}'
run M16 server/login.go 'pk.UUID(id),
		pk.String(name),
		pk.Array(properties),' 'pk.UUID(id),
		pk.String(name+"x"),
		pk.Array(properties),'
run M17 server/server.go 'case 1: // list ping
		s.acceptListPing(conn, protocol)' 'case 1: // list ping
		s.acceptListPing(conn, protocol)
		panic("status served")'
run M18 server/ping.go 'for i := 0; i < 2; i++ { // Ping or List. Only allow check twice' 'for i := 0; i < 1; i++ { // Ping or List. Only allow check twice'
run M19 server/playerlist.go 'p.players[client] = player' 'p.players[client] = player
	if len(p.players) == 2 {
		for c := range p.players {
			if c != client {
				delete(p.players, c)
			}
		}
	}'
run M20 server/handshake.go 'return int32(Protocol), int32(Intention), err' 'return int32(Protocol) + 1, int32(Intention), err'
