package x3repro

import (
	"bytes"
	"context"
	"fmt"
	"testing"

	"github.com/Tnze/go-mc/server/command"
)

type call struct {
	h    int
	args []command.ParsedData
}

func handler(log *[]call, h int) command.HandlerFunc {
	return func(_ context.Context, args []command.ParsedData) error {
		*log = append(*log, call{h, args})
		return nil
	}
}

// F1 (ExecQuoted): a quotable-phrase argument that is given a quoted phrase returns the text IN FRONT of the closing
// quote as "rest of the line" (parsers.go: `return cmd[:i], ...`), so `say "hi"` fails with "extra text",
// `say "" tail` silently drops ` tail`, and `say2 "a b" c` hands `"a` to the next argument instead of `c`.
func TestQuotedPhraseRest(t *testing.T) {
	var log []call
	g := command.NewGraph()
	g.AppendLiteral(g.Literal("say").
		AppendArgument(g.Argument("msg", command.StringParser(1)).HandleFunc(handler(&log, 1))).
		Unhandle())
	g.AppendLiteral(g.Literal("say2").
		AppendArgument(g.Argument("msg", command.StringParser(1)).
			AppendArgument(g.Argument("who", command.StringParser(0)).HandleFunc(handler(&log, 2))).
			Unhandle()).
		Unhandle())
	for _, c := range []struct {
		line string
		h    int
		want []string
	}{
		{`say hi`, 1, []string{"hi"}},
		{`say "hi"`, 1, []string{"hi"}},
		{`say "hi there"`, 1, []string{"hi there"}},
		{`say "" tail`, 0, nil}, // trailing text behind a complete command: an error is expected
		{`say2 "a b" c`, 2, []string{"a b", "c"}},
	} {
		log = nil
		err := g.Execute(context.Background(), c.line)
		got := "error: " + fmt.Sprint(err)
		if err == nil && len(log) == 1 {
			got = fmt.Sprintf("handler %d args %q", log[0].h, log[0].args[2:])
		}
		want := "error"
		if c.h != 0 {
			want = fmt.Sprintf("handler %d args %q", c.h, c.want)
		}
		if (c.h == 0) != (err != nil) || (c.h != 0 && got != want) {
			t.Errorf("%-16s got %s; want %s", c.line, got, want)
		}
	}
}

// F2 (WireParserId): the body of DECLARE_COMMANDS names the parser of an argument node by Identifier
// ("brigadier:string"); since protocol 759 (1.19; server.ProtocolVersion is 764) the field is a VarInt id (5).
func TestParserIdForm(t *testing.T) {
	g := command.NewGraph()
	g.AppendLiteral(g.Literal("a").
		AppendArgument(g.Argument("x", command.StringParser(0)).HandleFunc(func(context.Context, []command.ParsedData) error { return nil })).
		Unhandle())
	var b bytes.Buffer
	if _, err := g.WriteTo(&b); err != nil {
		t.Fatal(err)
	}
	// count, root{0,[1]}, a{flags,[2],"a"}, x{flags,[],"x", parser...}
	want := []byte{3, 0x00, 1, 1, 0x05, 1, 2, 1, 'a', 0x06, 0, 1, 'x', 5, 0, 0}
	if !bytes.Equal(b.Bytes(), want) {
		t.Errorf("body = % x\nwant   % x (parser id 5 = brigadier:string, property 0 = SINGLE_WORD)", b.Bytes(), want)
	}
}

// F3 (WireExecutable): a node finished with Unhandle() is announced as executable (flag 0x04).
func TestUnhandleExecutableFlag(t *testing.T) {
	g := command.NewGraph()
	g.AppendLiteral(g.Literal("a").Unhandle())
	var b bytes.Buffer
	g.WriteTo(&b)
	// count=2, root: flags 0, 1 child [1]; a: flags ...
	if flags := b.Bytes()[4]; flags&0x04 != 0 {
		t.Errorf("literal finished with Unhandle(): flags = %#x, executable bit set; Execute answers %v", flags, g.Execute(context.Background(), "a"))
	}
}
