// Reproductions of the X01 findings against the unchanged repository (real constants: ping every 15 s, kick
// after 30 s), exported API only. Run:  cd notes/x01_repro && cp /repo/go.sum . && \
//   GOFLAGS=-mod=mod GOPROXY=off go test -race -count=1 -v .      (all four in parallel, about 50 s)
// Each test FAILS while the defect is present.
package x01repro

import (
	"context"
	"sync"
	"testing"
	"time"

	"github.com/Tnze/go-mc/chat"
	"github.com/Tnze/go-mc/server"
)

type ev struct {
	kind string
	at   time.Duration
}

type client struct {
	name string
	mu   sync.Mutex
	t0   time.Time
	evs  []ev
	ch   chan ev
	hold chan struct{}
}

func newClient(name string, t0 time.Time) *client {
	return &client{name: name, t0: t0, ch: make(chan ev, 16)}
}
func (c *client) log(kind string) {
	e := ev{kind, time.Since(c.t0)}
	c.mu.Lock()
	c.evs = append(c.evs, e)
	c.mu.Unlock()
	c.ch <- e
}
func (c *client) SendKeepAlive(id int64) {
	c.log("ping")
	if c.hold != nil {
		<-c.hold
	}
}
func (c *client) SendDisconnect(chat.Message) { c.log("kick") }
func (c *client) wait(t *testing.T, kind string, d time.Duration) (ev, bool) {
	select {
	case e := <-c.ch:
		if e.kind != kind {
			t.Logf("%s: got %s at %v while waiting for %s", c.name, e.kind, e.at, kind)
		}
		return e, e.kind == kind
	case <-time.After(d):
		return ev{}, false
	}
}

func start(t *testing.T) (*server.KeepAlive, time.Time) {
	t0 := time.Now()
	k := server.NewKeepAlive()
	ctx, cancel := context.WithCancel(context.Background())
	t.Cleanup(cancel)
	go k.Run(ctx)
	return k, t0
}

// F1: the waitTimer is not re-armed when a ping moves a player into an empty wait list, and kickPlayer kicks the
// head without looking at its stamp: the first silent player is kicked 15 s after its ping instead of 30 s.
// F3 (same run): a pong that arrives after the kick puts the kicked player back into the ping list.
func TestEarlyKickAndLatePong(t *testing.T) {
	t.Parallel()
	k, t0 := start(t)
	a := newClient("A", t0)
	k.ClientJoin(a)
	ping, ok := a.wait(t, "ping", 20*time.Second)
	if !ok {
		t.Fatal("no ping")
	}
	kick, ok := a.wait(t, "kick", 40*time.Second)
	if !ok {
		t.Fatal("no kick")
	}
	t.Logf("ping at %v, kick at %v: %v after the ping (keepAliveWaitInterval is 30 s)", ping.at, kick.at, kick.at-ping.at)
	if kick.at-ping.at < 25*time.Second {
		t.Errorf("F1: kicked %v after the ping, the player was entitled to 30 s", kick.at-ping.at)
	}
	k.ClientTick(a) // the pong was on its way
	if again, ok := a.wait(t, "ping", 20*time.Second); ok {
		t.Errorf("F3: the kicked player is pinged again at %v (it is back in the ping list)", again.at)
	}
	k.ClientLeft(a)
}

// F2: a ClientTick without an outstanding ping appends a second list element for the player; ClientLeft removes
// only the newer one, so the manager keeps pinging (and would kick) a client that left.
func TestUnsolicitedPong(t *testing.T) {
	t.Parallel()
	k, t0 := start(t)
	var delays []time.Duration
	k.AddPlayerDelayUpdateHandler(func(c server.KeepAliveClient, d time.Duration) { delays = append(delays, d) })
	a := newClient("A", t0)
	k.ClientJoin(a)
	k.ClientTick(a)
	k.ClientLeft(a)
	if e, ok := a.wait(t, "ping", 20*time.Second); ok {
		t.Errorf("F2: ping sent at %v to a client that left at ~0 s (delay handler had been called with %v)", e.at, delays)
	}
}

// F4: go-mc's go.mod (go 1.22) selects the pre-go1.23 timer channels, where Reset does not drain a value that was
// already sent. removePlayer resets both timers without Stop+drain: if the waitTimer expired while the goroutine
// was busy (here: B's SendKeepAlive blocks for 16 s) and ClientLeft(A) is taken first, the timer is re-armed for
// B's deadline (45 s) but the stale value kicks B at once (31 s). Which select case runs first is a coin flip,
// so 10 managers are tried.
func TestStaleTimerValue(t *testing.T) {
	t.Parallel()
	var wg sync.WaitGroup
	var mu sync.Mutex
	hits := 0
	for i := 0; i < 10; i++ {
		wg.Add(1)
		go func() {
			defer wg.Done()
			k, t0 := start(t)
			a, b := newClient("A", t0), newClient("B", t0)
			b.hold = make(chan struct{})
			k.ClientJoin(a)
			k.ClientJoin(b)
			if _, ok := b.wait(t, "ping", 20*time.Second); !ok {
				return
			}
			left := make(chan struct{})
			go func() { k.ClientLeft(a); close(left) }()
			time.Sleep(16 * time.Second) // the waitTimer (armed for 30 s by NewKeepAlive) expires meanwhile
			close(b.hold)
			<-left
			kick, ok := b.wait(t, "kick", 40*time.Second)
			a.mu.Lock()
			aKicked := false
			for _, e := range a.evs {
				aKicked = aKicked || e.kind == "kick"
			}
			a.mu.Unlock()
			if ok && !aKicked && kick.at < 40*time.Second {
				mu.Lock()
				hits++
				mu.Unlock()
				t.Logf("A left without being kicked, the waitTimer was re-armed for B (pinged at ~15 s => 45 s), B kicked at %v", kick.at)
			}
			k.ClientLeft(b)
		}()
	}
	wg.Wait()
	if hits > 0 {
		t.Errorf("F4: in %d of 10 managers a stale waitTimer value kicked B before the instant the timer had just been set to", hits)
	}
}
