package x4repro

// Reproductions of the X04 findings (bot/screen, bot/playerlist, bot/world) on the unchanged repository.
// Every test FAILS while the finding is open.  Run with ./run.sh (adds the bot.VerifHandlePacket export shim).

import (
	"bytes"
	"io"
	"testing"

	"github.com/google/uuid"

	"github.com/Tnze/go-mc/bot"
	"github.com/Tnze/go-mc/bot/basic"
	"github.com/Tnze/go-mc/bot/playerlist"
	"github.com/Tnze/go-mc/bot/screen"
	"github.com/Tnze/go-mc/bot/world"
	"github.com/Tnze/go-mc/chat"
	"github.com/Tnze/go-mc/data/packetid"
	"github.com/Tnze/go-mc/level"
	pk "github.com/Tnze/go-mc/net/packet"
	"github.com/Tnze/go-mc/registry"
)

func send(c *bot.Client, id packetid.ClientboundPacketID, fields ...pk.FieldEncoder) error {
	p := pk.Marshal(id, fields...)
	return bot.VerifHandlePacket(c, p.ID, p.Data)
}

// an item stack as protocol 767 writes it: count, then (count > 0) item id, number of added / removed components
type item struct{ id, count int32 }

func (s item) WriteTo(w io.Writer) (int64, error) {
	var b bytes.Buffer
	pk.VarInt(s.count).WriteTo(&b)
	if s.count > 0 {
		pk.VarInt(s.id).WriteTo(&b)
		pk.VarInt(0).WriteTo(&b)
		pk.VarInt(0).WriteTo(&b)
	}
	n, err := w.Write(b.Bytes())
	return int64(n), err
}

type items []item

func (l items) WriteTo(w io.Writer) (int64, error) {
	var b bytes.Buffer
	pk.VarInt(len(l)).WriteTo(&b)
	for _, s := range l {
		s.WriteTo(&b)
	}
	n, err := w.Write(b.Bytes())
	return int64(n), err
}

func newScreen() (*bot.Client, *screen.Manager) {
	c := bot.NewClient()
	return c, screen.NewManager(c, screen.EventsListener{})
}

// S1: a generic_9x3 window has 27 + 36 slots (chest.go: Main() and Hotbar() address them); the manager allocates 27.
func TestChestLayout(t *testing.T) {
	c, m := newScreen()
	if err := send(c, packetid.ClientboundOpenScreen, pk.VarInt(1), pk.VarInt(2), chat.Text("Chest")); err != nil {
		t.Fatal(err)
	}
	ch := m.Screens[1].(*screen.Chest)
	if len(ch.Slots) != 27+36 {
		t.Errorf("generic_9x3 opened with %d slots, the window has %d", len(ch.Slots), 27+36)
	}
	// what a vanilla server sends next: the content of all 63 slots
	if err := send(c, packetid.ClientboundContainerSetContent, pk.UnsignedByte(1), pk.VarInt(1), make(items, 63), item{}); err != nil {
		t.Errorf("ContainerSetContent with the 63 slots of the window: %v", err)
	}
	// a slot of the player area
	if err := send(c, packetid.ClientboundContainerSetSlot, pk.Byte(1), pk.VarInt(2), pk.Short(27), item{5, 1}); err != nil {
		t.Errorf("ContainerSetSlot(window 1, slot 27): %v", err)
	}
	func() {
		defer func() {
			if r := recover(); r != nil {
				t.Errorf("Chest.Main() panics: %v", r)
			}
		}()
		_ = ch.Main()
	}()
}

// S2: ContainerClose for window 0 (sent e.g. by Bukkit's closeInventory() when nothing is open) removes the inventory
// from Screens; the next inventory content packet is an error (and ends HandleGame).
func TestCloseInventory(t *testing.T) {
	c, m := newScreen()
	if err := send(c, packetid.ClientboundContainerClose, pk.UnsignedByte(0)); err != nil {
		t.Fatal(err)
	}
	if _, ok := m.Screens[0]; !ok {
		t.Errorf("after ContainerClose(0) Screens[0] (the inventory) is gone")
	}
	if err := send(c, packetid.ClientboundContainerSetContent, pk.UnsignedByte(0), pk.VarInt(1), make(items, 46), item{}); err != nil {
		t.Errorf("ContainerSetContent(0) after ContainerClose(0): %v", err)
	}
	if err := send(c, packetid.ClientboundContainerSetSlot, pk.Byte(0), pk.VarInt(2), pk.Short(36), item{7, 3}); err != nil {
		t.Fatal(err)
	}
	if got := m.Inventory.Slots[36]; got.ID != 7 || got.Count != 3 {
		t.Errorf("ContainerSetSlot(0, 36) after ContainerClose(0) is dropped: slot 36 = %+v", got)
	}
}

// S3: the carried item of ContainerSetContent is read and dropped.
func TestSetContentCarried(t *testing.T) {
	c, m := newScreen()
	if err := send(c, packetid.ClientboundContainerSetContent, pk.UnsignedByte(0), pk.VarInt(1), make(items, 46), item{9, 2}); err != nil {
		t.Fatal(err)
	}
	if m.Cursor.ID != 9 || m.Cursor.Count != 2 {
		t.Errorf("Cursor after ContainerSetContent(carried = 2 x item 9): %+v", m.Cursor)
	}
}

// S4: window id -2 addresses the PLAYER INVENTORY (0-8 hotbar, 9-35 main, 36-39 armor, 40 offhand), not the slots
// of the inventory window (36-44 hotbar): the server uses it for the selected hotbar slot.
func TestSetSlotPlayerInventoryIndex(t *testing.T) {
	c, m := newScreen()
	if err := send(c, packetid.ClientboundContainerSetSlot, pk.Byte(-2), pk.VarInt(1), pk.Short(0), item{4, 1}); err != nil {
		t.Fatal(err)
	}
	if got := m.Inventory.Hotbar()[0]; got.ID != 4 {
		t.Errorf("ContainerSetSlot(-2, 0): hotbar slot 0 = %+v, crafting output = %+v", got, *m.Inventory.CraftingOutput())
	}
}

// S5: what ContainerClick writes cannot be read by the package's own Slot.ReadFrom (old item stack layout), and a nil
// carried slot is a nil dereference.
func TestClickSlotCodec(t *testing.T) {
	var b bytes.Buffer
	in := screen.Slot{ID: 5, Count: 3}
	if _, err := in.WriteTo(&b); err != nil {
		t.Fatal(err)
	}
	var out screen.Slot
	if _, err := out.ReadFrom(&b); err != nil || out.ID != 5 || out.Count != 3 || b.Len() != 0 {
		t.Errorf("Slot{ID 5, Count 3} written by WriteTo reads back as %+v (err %v, %d bytes left)", out, err, b.Len())
	}
	func() {
		defer func() {
			if r := recover(); r != nil {
				t.Errorf("(*Slot)(nil).WriteTo panics although it tests for nil: %v", r)
			}
		}()
		var s *screen.Slot
		s.WriteTo(&bytes.Buffer{})
	}()
}

// P1: an update (no add-player action) for a player that is not listed creates an entry with an empty profile.
func TestPlayerInfoUpdateUnknown(t *testing.T) {
	c := bot.NewClient()
	pl := playerlist.New(c)
	id := uuid.UUID{1, 2, 3}
	actions := pk.NewFixedBitSet(6)
	actions.Set(4, true) // latency only
	if err := send(c, packetid.ClientboundPlayerInfoUpdate, actions, pk.VarInt(1), pk.UUID(id), pk.VarInt(42)); err != nil {
		t.Fatal(err)
	}
	if p, ok := pl.PlayerInfos[id]; ok {
		t.Errorf("latency update for a player never added created the entry %+v (profile id %v)", *p, p.ID)
	}
}

// W1: ForgetLevelChunk carries the position as one long (z in the upper half): on the wire Z comes first.
func TestForgetChunkWireOrder(t *testing.T) {
	c := bot.NewClient()
	c.Registries.DimensionType.Put("minecraft:overworld", registry.Dimension{Height: 64})
	w := world.NewWorld(c, &basic.Player{}, world.EventsListener{})
	for _, pos := range []level.ChunkPos{{3, 5}, {5, 3}} {
		if err := send(c, packetid.ClientboundLevelChunkWithLight, pos, level.EmptyChunk(4)); err != nil {
			t.Fatal(err)
		}
	}
	x, z := int32(3), int32(5)
	if err := send(c, packetid.ClientboundForgetLevelChunk, pk.Long(int64(z)<<32|int64(uint32(x)))); err != nil {
		t.Fatal(err)
	}
	_, has35 := w.Columns[level.ChunkPos{3, 5}]
	_, has53 := w.Columns[level.ChunkPos{5, 3}]
	if has35 || !has53 {
		t.Errorf("forget chunk x=3 z=5: (3,5) loaded=%v, (5,3) loaded=%v", has35, has53)
	}
}
