#!/bin/bash
# C04 mutants (each applied in a scratch worktree by ./mut.sh, /repo untouched): notes/mutants_C04.sh [n...]
cd "$(dirname "$(readlink -f "$0")")/.."
export GOFLAGS=-mod=mod GOPROXY=off GOSUMDB=off GOTOOLCHAIN=local MUT_LINES=${MUT_LINES:-40}
run() { n=$1; shift; echo "##### M$n: $1 :: $2 -> $3"; ./mut.sh "$1" "$2" "$3" -- C04 2>&1 | grep -v "KNOWN-FINDING" | cut -c1-300; rm -rf out/C04-* out/replays/C04-*; }
sel=" $* "
want() { [ "$sel" = "  " ] || [[ "$sel" == *" $1 "* ]]; }
# scanner state transitions
want 1 && run 1 nbt/snbt_scanner.go "case '\\\\', '\\'':
		s.step = stateInSingleQuotedString" "case '\\\\':
		s.step = stateInSingleQuotedString"
want 2 && run 2 nbt/snbt_scanner.go "case '\"', '\\'': // beginning of TAG_String
		return stateBeginString(s, c)" "case '\"': // beginning of TAG_String
		return stateBeginString(s, c)"
want 3 && run 3 nbt/snbt_scanner.go "		case ',':
			s.step = stateBeginValue
			return scanListValue" "		case ',':
			s.step = stateBeginString
			return scanListValue"
# white space skipping
want 4 && run 4 nbt/snbt_scanner.go "(c == ' ' || c == '\\t' || c == '\\r' || c == '\\n')" "(c == ' ' || c == '\\r' || c == '\\n')"
# parseLiteral classification / suffix case
want 5 && run 5 nbt/snbt_decode.go 'return TagByte, int8(num), err' 'return TagShort, int16(num), err'
want 6 && run 6 nbt/snbt_decode.go "return c == 'F' || c == 'f' || c == 'D' || c == 'd'" "return c == 'F' || c == 'f' || c == 'd'"
want 7 && run 7 nbt/snbt_decode.go "case 'L', 'l':
				num, err := strconv.ParseInt(string(literal[:strlen]), 10, 64)" "case 'L', 'l':
				num, err := strconv.ParseInt(string(literal[:strlen]), 10, 32)"
want 8 && run 8 nbt/snbt_decode.go "			case 'S', 's':
				num" "			case 'S':
				num"
# list / array emitters
want 9 && run 9 nbt/snbt_decode.go 'if err = e.writeListHeader(TagCompound, count); err != nil' 'if err = e.writeListHeader(TagCompound, count+1); err != nil'
want 10 && run 10 nbt/snbt_decode.go 'if err := e.writeListHeader(tagType, count); err != nil' 'if err := e.writeListHeader(TagString, count); err != nil'
want 11 && run 11 nbt/snbt_decode.go 'if err = writeInt32(e.w, int32(*count)); err != nil' 'if err = writeInt32(e.w, int32(*count)-1); err != nil'
want 12 && run 12 nbt/snbt_decode.go "			case 'L':
				tagType = TagLongArray
				elemType = TagLong" "			case 'L':
				tagType = TagIntArray
				elemType = TagLong"
# escapes in quoted strings
want 13 && run 13 nbt/snbt_decode.go "			case '\\\\':
				i++
				c = literal[i]" "			case '\\\\':
				c = literal[i]"
# quoting decision / escaping of the printer
want 14 && run 14 nbt/snbt.go 'if !isAllowedInUnquotedString(v) {' "if !isAllowedInUnquotedString(v) && v != ' ' {"
want 15 && run 15 nbt/snbt.go 'strings.NewReplacer(`"`, `\"`, `\`, `\\`)' 'strings.NewReplacer(`"`, `\"`)'
want 16 && run 16 nbt/snbt.go 'if dc > sc {' 'if dc < sc {'
# TagType for typed arrays, printer suffixes
want 17 && run 17 nbt/snbt.go "				case 'I':
					return TagIntArray" "				case 'I':
					return TagLongArray"
want 18 && run 18 nbt/snbt.go 'sb.WriteString(strconv.FormatInt(i, 10) + "L")' 'sb.WriteString(strconv.FormatInt(i, 10))'
want 19 && run 19 nbt/snbt.go 'sb.WriteString("[L;")' 'sb.WriteString("[I;")'
want 20 && run 20 nbt/snbt.go '			} else if tt != TagEnd {
				sb.WriteString(",")' '			} else if tt != TagEnd {
				sb.WriteString(";")'
# number range checks, key handling, character classes
want 21 && run 21 nbt/snbt_decode.go 'num, err := strconv.ParseInt(string(literal[:strlen]), 10, 8)' 'num, err := strconv.ParseInt(string(literal[:strlen]), 10, 16)'
want 22 && run 22 nbt/snbt_decode.go "case 'I', 'i', 0:
				num, err := strconv.ParseInt(string(literal[:strlen]), 10, 32)" "case 'I', 'i', 0:
				num, err := strconv.ParseInt(string(literal[:strlen]), 10, 64)"
want 23 && run 23 nbt/snbt_decode.go 'tagName = string(d.data[start:d.readIndex()])' 'tagName = string(d.data[start+1 : d.readIndex()])'
want 24 && run 24 nbt/snbt_scanner.go "c == '.' || c == '+' ||" "c == '.' ||"
want 25 && run 25 nbt/snbt_decode.go "num, err := strconv.ParseFloat(string(literal[:strlen]), 32)
				return TagFloat, float32(num), err" "num, err := strconv.ParseFloat(string(literal[:strlen]), 32)
				return TagDouble, num, err"
want 26 && run 26 nbt/snbt_scanner.go "	if c == '}' {
		n := len(s.parseState)
		s.parseState[n-1] = parseCompoundValue
		return stateEndValue(s, c)
	}" "	if c == '}' {
		return stateEndValue(s, c)
	}"
want 27 && run 27 nbt/snbt.go 'sb.WriteString(strconv.FormatInt(int64(s), 10) + "S")' 'sb.WriteString(strconv.FormatInt(int64(uint16(s)), 10) + "S")'
want 28 && run 28 nbt/snbt.go 'f := float64(math.Float32frombits(uint32(i)))
		sb.WriteString(strconv.FormatFloat(f, '"'"'f'"'"', 10, 32) + "F")' 'f := float64(math.Float32frombits(uint32(i)))
		sb.WriteString(strconv.FormatFloat(f, '"'"'f'"'"', 10, 32) + "D")'
