#!/bin/bash
# Hand-written mutants of level/component and bot/screen.Slot for X07 (scratch worktrees through mut.sh; /repo untouched).
# usage: notes/mutants_X07.sh [name...]   prints, per mutant, the NOTE signatures the unchanged tree does not show (+) / no longer shows (-)
cd "$(dirname "$(readlink -f "$0")")/.."
export GOFLAGS=-mod=mod GOPROXY=off GOSUMDB=off GOTOOLCHAIN=local VERIF_ROOT=$PWD MUT_LINES=120
BASE=/tmp/x7-mut-base.$$
./check X07 quick 2>&1 | grep "NOTE spec-extension" | sed -E 's/ \([0-9]+ events.*//' | sort > $BASE
m() { # name file old new
  name=$1; shift
  if [ ${#WANT[@]} -gt 0 ] && [[ ! " ${WANT[*]} " =~ " $name " ]]; then return; fi
  out=$(./mut.sh "$1" "$2" "$3" -- X07 2>&1)
  echo "== $name: $(echo "$out" | grep -E '^== X07|does not build|pattern not found|INFRA' | cut -c1-200 | tr '\n' ' ')"
  echo "$out" | grep "NOTE spec-extension" | sed -E 's/ \([0-9]+ events.*//' | sort | comm -13 $BASE - | awk -F' - ' '{sub(/NOTE spec-extension /,"",$1); sub(/ finding:/,"",$1); print "   + " $1}' | sort -u | tr '\n' ';'; echo
  echo "$out" | grep "NOTE spec-extension" | sed -E 's/ \([0-9]+ events.*//' | sort | comm -23 $BASE - | awk -F' - ' '{sub(/NOTE spec-extension /,"",$1); sub(/ finding:/,"",$1); print "   - " $1}' | sort -u | tr '\n' ';'; echo
}
WANT=("$@")
C=level/component
m M1 $C/components.go 'return new(Damage)' 'return new(MaxDamage)'
m M2 $C/components.go '		return new(LodestoneTracker)
' ''
m M3 $C/dyedcolor.go 'return pk.Tuple{&d.RGB, &d.ShowInTooltip}.WriteTo(w)' 'return pk.Tuple{&d.ShowInTooltip, &d.RGB}.WriteTo(w)'
m M4 $C/dyedcolor.go 'return pk.Tuple{&d.RGB, &d.ShowInTooltip}.ReadFrom(r)' 'return pk.Tuple{&d.RGB}.ReadFrom(r)'
m M5 $C/unbreakable.go 'return u.ShowInTooltip.ReadFrom(r)' 'return 0, nil'
m M6 $C/custommodeldata.go 'return c.Value.WriteTo(w)' 'return (c.Value + 1).WriteTo(w)'
m M7 $C/rarity.go 'return (*pk.VarInt)(r).ReadFrom(reader)' 'return (*pk.Int)(r).ReadFrom(reader)'
m M8 $C/customname.go 'return c.Name.ReadFrom(r)' 'tmp := c.Name
	return tmp.ReadFrom(r)'
m M9 $C/instrument.go 'func (i *Instrument) ReadFrom(r io.Reader) (n int64, err error) {
	return pk.Tuple{
		&i.Type,
		pk.Opt{
			Has: func() bool { return i.Type == 0 },' 'func (i *Instrument) ReadFrom(r io.Reader) (n int64, err error) {
	return pk.Tuple{
		&i.Type,
		pk.Opt{
			Has: func() bool { return i.Type != 0 },'
m M10 $C/lodestonetracker.go '		&l.Position,
		&l.Tracked,
	}.WriteTo(w)' '		&l.Position,
	}.WriteTo(w)'
m M11 bot/screen/screen.go 'Has: func() bool { return s.Count > 0 },' 'Has: func() bool { return s.Count >= 0 },'
m M12 bot/screen/screen.go '&s.ID, &s.Count, pk.NBT(&s.NBT),' '&s.Count, &s.ID, pk.NBT(&s.NBT),'
m M13 $C/entitydata.go 'return pk.NBT(&e.Value).WriteTo(w)' 'n, err = pk.NBT(&e.Value).WriteTo(w)
	return n + 1, err'
m M14 $C/components.go '	case 56:
	}' '	case 56:
	case 57:
		return new(CustomData)
	}'
m M15 $C/hidetooltip.go 'func (h *HideTooptip) WriteTo(w io.Writer) (n int64, err error) {
	return 0, nil' 'func (h *HideTooptip) WriteTo(w io.Writer) (n int64, err error) {
	w.Write([]byte{0})
	return 1, nil'
m M16 $C/maxstacksize.go 'return "minecraft:max_stack_size"' 'return "minecraft:max_stacksize"'
m M17 $C/lore.go 'return pk.Array(&l.Lines).ReadFrom(r)' 'n, err = pk.Array(&l.Lines).ReadFrom(r)
	if len(l.Lines) > 1 {
		l.Lines = l.Lines[1:]
	}
	return'
m M18 bot/screen/screen.go 'var componentsAdd, componentsRemove pk.VarInt
	return pk.Tuple{
		&s.Count, pk.Opt{
			Has: func() bool { return s.Count > 0 },
			Field: pk.Tuple{
				&s.ID,
				&componentsAdd,
				&componentsRemove,' 'var componentsAdd pk.VarInt
	return pk.Tuple{
		&s.Count, pk.Opt{
			Has: func() bool { return s.Count > 0 },
			Field: pk.Tuple{
				&s.ID,
				&componentsAdd,'
m M19 $C/mapdecorations.go 'return pk.NBT(&m.Value).ReadFrom(r)' 'var v dynbt.Value
	n, err = pk.NBT(&v).ReadFrom(r)
	if v.TagType() == 10 {
		m.Value = v
	}
	return'
m M20 $C/intangibleprojectile.go 'func (i *IntangibleProjectile) WriteTo(w io.Writer) (n int64, err error) {
	return 0, nil' 'func (i *IntangibleProjectile) WriteTo(w io.Writer) (n int64, err error) {
	m, err := w.Write([]byte{10, 0})
	return int64(m), err'
rm -f $BASE
