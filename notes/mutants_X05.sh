#!/bin/bash
# Hand-written mutants of server/internal/bvh for the binding self-test of X05 (a). Usage: bash notes/mutants_X05.sh [n...]
# Every mutant runs in a scratch worktree (mut.sh); /repo is never touched. Legs A and B only (the model check does not depend on the code).
cd "$(dirname "$0")/.."
export VERIF_X05=bvh VERIF_LEGS=A,B MUT_LINES=40
B=server/internal/bvh
m() { n=$1; shift; if [ -z "$SEL" ] || echo " $SEL " | grep -q " $n "; then echo "##### M$n: $1"; shift; ./mut.sh "$@" -- X05 | cut -c1-150; fi; }
SEL="$*"
m 1 "rotate: the child moved up keeps its old parent pointer" $B/bvh.go \
  'n.parent.children, n.children, n.children[0].parent, sibling.parent = t1, t2, n.parent, n' \
  'n.parent.children, n.children, sibling.parent = t1, t2, n'
m 2 "Insert stage 3 refits the new parent only" $B/bvh.go \
  'for p := *parentTo; p != nil; p = p.parent {' 'for p := *parentTo; p != nil; p = nil {'
m 3 "Delete: the sibling keeps its old parent pointer" $B/bvh.go \
  '		sibling.parent = grand
' '
'
m 4 "Insert stage 1 keeps the WORST candidate" $B/bvh.go 'if cost <= bestCost {' 'if cost >= bestCost {'
m 5 "Insert stage 1 never descends (sibling = root)" $B/bvh.go \
  'if !p.pointer.isLeaf && inheritedCost+leafCost < bestCost {' 'if !p.pointer.isLeaf && inheritedCost+leafCost < 0 {'
m 6 "each: the walk stops at the first leaf that fails the test" $B/bvh.go \
  'return !test(n.Box) || foreach(n)' 'return test(n.Box) && foreach(n)'
m 7 "each: child 1 first" $B/bvh.go \
  'return n.children[0].each(test, foreach) && n.children[1].each(test, foreach)' 'return n.children[1].each(test, foreach) && n.children[0].each(test, foreach)'
m 8 "Vec2.Less is <=" $B/vector.go \
  'func (v Vec2[I]) Less(other Vec2[I]) bool   { return v[0] < other[0] && v[1] < other[1] }' \
  'func (v Vec2[I]) Less(other Vec2[I]) bool   { return v[0] <= other[0] && v[1] <= other[1] }'
m 9 "AABB.Union keeps the receiver's lower corner" $B/bound.go \
  'Lower: aabb.Lower.Min(other.Lower)}' 'Lower: aabb.Lower}'
m 10 "Delete below the root: the new root keeps a parent pointer" $B/bvh.go \
  '		sibling.parent = nil
' '
'
m 11 "rotate when it makes the bound LARGER" $B/bvh.go \
  'if n.children[1].Box.Union(sibling.Box).Surface() < current {' 'if n.children[1].Box.Union(sibling.Box).Surface() > current {'
m 12 "AABB.Surface without the factor 2" $B/bound.go 'return aabb.Upper.Sub(aabb.Lower).Sum() * 2' 'return aabb.Upper.Sub(aabb.Lower).Sum()'
m 13 "Insert stage 2: the new inner node has no parent" $B/bvh.go '		parent:   sibling.parent,
' '		parent:   nil,
'
m 14 "Delete: the root is refitted too (the candidate repair)" $B/bvh.go \
  'for p := sibling.parent; p.parent != nil; p = p.parent {' 'for p := sibling.parent; p != nil; p = p.parent {'
m 15 "equivalent: ties in stage 1 broken the other way (< instead of <=)" $B/bvh.go 'if cost <= bestCost {' 'if cost < bestCost {'
m 16 "Sphere.Touch uses the difference of the radii" $B/bound.go 'return s.Center.Sub(other.Center).Norm() < s.R+other.R' 'return s.Center.Sub(other.Center).Norm() < s.R-other.R'
m 17 "Delete returns the sibling's value" $B/bvh.go '	sibling := n.parent.findAnotherChild(n)
	grand := n.parent.parent' '	sibling := n.parent.findAnotherChild(n)
	n = &Node[I, B, V]{Value: sibling.Value, parent: n.parent}
	grand := n.parent.parent'
