#!/bin/bash
# Self-test of the X13 binding: hand-written mutants of the real code (region file, payload envelope, save <-> level
# conversion, network form), each run through ./mut.sh (scratch worktree, /repo untouched). Prints, per mutant, the NOTE
# signatures (check name + class) that do not appear on the unchanged tree, and the ones that disappear.
# usage: notes/mutants_X13.sh [ids...]
ROOT=$(dirname "$(dirname "$(readlink -f "$0")")")
cd "$ROOT"
export GOFLAGS=-mod=mod GOPROXY=off GOSUMDB=off GOTOOLCHAIN=local VERIF_ROOT=$ROOT
BASE='Model(code_ents)
Model(code_noclose)
Model(code_raws)
NoPanic[get]
NoPanic[relay]
NoPanic[0 bytes]
NoPanic[hmlen]
PutAccepted[lib uncompressed, destination = a loaded document without PostProcessing / structures]
PutAccepted[lib, fresh destination]
PutGetEnts[lib uncompressed]
PutPayloadWhole[lib gzip]
PutPayloadWhole[lib zlib]
PutReadable[lib gzip]
PutReadable[lib zlib]'
run() { # id file old new
  id=$1; shift
  if [ -n "$ONLY" ] && ! echo " $ONLY " | grep -q " $id "; then return; fi
  for try in 1 2 3 4 5; do # other agents add worktrees to /repo at the same time: `git worktree add` may lose the lock
    out=$(MUT_LINES=200 MUT_GREP="NOTE spec-extension|INFRA|exit=|VIOLATION|^OK|Hang" ./mut.sh "$1" "$2" "$3" -- X13 2>&1)
    rc=$(echo "$out" | grep -o "exit=[0-9]*" | head -1)
    [ -n "$rc" ] && break
    sleep $((RANDOM % 20 + 5))
  done
  sigs=$(echo "$out" | grep "finding: " | sed -E 's/.*finding: //; s/ - .*//' | sort -u)
  new=""; gone=""
  while read -r s; do [ -z "$s" ] && continue; echo "$BASE" | grep -qxF "$s" || new="$new; $s"; done <<< "$sigs"
  while read -r b; do echo "$sigs" | grep -qxF "$b" || gone="$gone; $b"; done <<< "$BASE"
  infra=$(echo "$out" | grep -c "^INFRA")
  echo "| $id | $rc | new: ${new#; } | gone: ${gone#; } | infra=$infra |"
}
ONLY="$*"
run M01 save/region/mca.go 'err = binary.Write(r.f, binary.BigEndian, int32(len(data)))' 'err = binary.Write(r.f, binary.BigEndian, int32(len(data)-1))'
run M02 save/region/mca.go 'if need >= 256 {' 'if need > 256 {'
run M03 save/chunk.go '	case 1:
		r, err = gzip.NewReader(r)
	case 2:
		r, err = zlib.NewReader(r)' '	case 2:
		r, err = gzip.NewReader(r)
	case 1:
		r, err = zlib.NewReader(r)'
run M04 save/chunk.go '	default:
		err = errors.New("unknown compression")
	case 1:' '	case 1:'
run M05 save/chunk.go 'buff.WriteByte(compressingType)' 'buff.WriteByte(2)'
run M06 level/chunk.go 's.Y = int8(int32(i) + dst.YPos)' 's.Y = int8(int32(i))'
run M07 level/chunk.go 'dst.Status = string(c.Status)' '_ = c.Status'
run M08 level/chunk.go 'int(tmp.X-c.XPos<<4), int(tmp.Z-c.ZPos<<4)' 'int(tmp.X-c.XPos<<4), int(tmp.Z-c.XPos<<4)'
run M09 save/region/mca.go '	if length == 0 {
		return nil, ErrNoData
	}' ''
run M10 save/region/mca.go 'if n != 0 && now == need {' 'if n != 0 && now >= need {'
run M11 save/region/mca.go '		if r.sectors[n+i] {
			n += i + 1' '		if r.sectors[n+i] && i == 0 {
			n += i + 1'
# a mutant that makes findSpace spin for ever: the driver must say so and stop, not hang
run M11h save/region/mca.go '			n += i + 1
			i = -1' '			n += i
			i = -1'
run M12 save/region/mca.go '					r.sectors[o+i] = true' '					r.sectors[o+i] = false'
run M13 level/chunk.go '			MotionBlocking: c.HeightMaps.MotionBlocking.Raw(),
			WorldSurface:   c.HeightMaps.WorldSurface.Raw(),' '			MotionBlocking: c.HeightMaps.WorldSurface.Raw(),
			WorldSurface:   c.HeightMaps.MotionBlocking.Raw(),'
run M14 level/chunk.go 'b.XZ = int8(X<<4 | Z)' 'b.XZ = int8(Z<<4 | X)'
run M15 save/chunk.go 'XPos           int32          `nbt:"xPos"`' 'XPos           int32          `nbt:"xpos"`'
run M16 level/chunk.go 'dst.Heightmaps["OCEAN_FLOOR"] = c.HeightMaps.OceanFloor.Raw()' 'dst.Heightmaps["OCEAN_FLOOR"] = c.HeightMaps.OceanFloorWG.Raw()'
run M17 save/region/mca.go 'r.offsets[z][x] = (n << 8) | (need & 0xFF)' 'r.offsets[x][z] = (n << 8) | (need & 0xFF)'
run M18 level/chunk.go 'i := int32(v.Y) - c.YPos' 'i := int32(v.Y) - c.YPos + 0*int32(secs)
		if i == int32(secs)-1 && secs > 1 { i = 0 }'
# the repair experiment for the Data(1|2) finding: close the compressor
run R01 save/chunk.go '	err := nbt.NewEncoder(w).Encode(c, "")
	return buff.Bytes(), err' '	err := nbt.NewEncoder(w).Encode(c, "")
	if cl, ok := w.(io.Closer); ok && err == nil {
		err = cl.Close()
	}
	return buff.Bytes(), err'
