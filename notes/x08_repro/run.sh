#!/bin/bash
# the three tests FAIL on the unchanged tree: that is the reproduction
cd "$(dirname "$(readlink -f "$0")")"
cp /repo/go.sum . 2>/dev/null
GOFLAGS=-mod=mod GOPROXY=off GOSUMDB=off GOTOOLCHAIN=local go test -count=1 -v ./... 2>&1 | grep -E "^(---|===|\s+repro_test|FAIL|ok|PASS)"
rm -f go.sum
