package x8repro

// Standalone reproductions of the X08 findings (server connection life cycle). Run:
//   cd notes/x08_repro && cp /repo/go.sum . && GOFLAGS=-mod=mod GOPROXY=off go test -v ./...
// Each test FAILS on the unchanged tree (that is the reproduction) and passes once the defect is repaired.

import (
	"encoding/json"
	"errors"
	"net"
	"sync"
	"testing"
	"time"

	"github.com/Tnze/go-mc/chat"
	mcnet "github.com/Tnze/go-mc/net"
	pk "github.com/Tnze/go-mc/net/packet"
	"github.com/Tnze/go-mc/registry"
	"github.com/Tnze/go-mc/server"
	"github.com/Tnze/go-mc/yggdrasil/user"
	"github.com/google/uuid"
)

type status struct {
	*server.PlayerList
	*server.PingInfo
}

type plClient struct{ kicked bool }

func (c *plClient) SendDisconnect(chat.Message) { c.kicked = true }

// login performs handshake + login hello on a pipe and returns after the login acknowledgement was sent
func login(t *testing.T, c *mcnet.Conn, name string) (success bool) {
	c.WritePacket(pk.Marshal(0, pk.VarInt(764), pk.String("h"), pk.UnsignedShort(1), pk.VarInt(2)))
	c.WritePacket(pk.Marshal(0, pk.String(name), pk.UUID{}))
	var p pk.Packet
	if err := c.ReadPacket(&p); err != nil || p.ID != 2 {
		return false
	}
	c.WritePacket(pk.Marshal(3))
	return true
}

// Finding AcceptBound: CheckPlayer and ClientJoin are separate looks at the list. With one free slot two clients
// pass the login check, both are told "login success", both are configured, both enter AcceptPlayer; the second
// one is refused only there (SendDisconnect from ClientJoin).
type gateGame struct {
	pl      *server.PlayerList
	mu      sync.Mutex
	inside  int
	maxSeen int
	entered chan struct{}
	release chan struct{}
	kicked  int
	joined  sync.WaitGroup // both have called ClientJoin before either leaves
}

func (g *gateGame) AcceptPlayer(name string, id uuid.UUID, _ *user.PublicKey, _ []user.Property, _ int32, conn *mcnet.Conn) {
	g.mu.Lock()
	g.inside++
	if g.inside > g.maxSeen {
		g.maxSeen = g.inside
	}
	g.mu.Unlock()
	g.entered <- struct{}{}
	<-g.release
	c := &plClient{}
	g.pl.ClientJoin(c, server.PlayerSample{Name: name, ID: id})
	g.mu.Lock()
	if c.kicked {
		g.kicked++
	}
	g.mu.Unlock()
	g.joined.Done()
	g.joined.Wait()
	g.mu.Lock()
	g.inside--
	g.mu.Unlock()
	g.pl.ClientLeft(c)
}

func TestAcceptBound(t *testing.T) {
	pl := server.NewPlayerList(1)
	g := &gateGame{pl: pl, entered: make(chan struct{}, 2), release: make(chan struct{})}
	g.joined.Add(2)
	s := &server.Server{
		ListPingHandler: status{pl, server.NewPingInfo("x", 764, chat.Text(""), nil)},
		LoginHandler:    &server.MojangLoginHandler{Threshold: -1, LoginChecker: pl},
		ConfigHandler:   &server.Configurations{Registries: registry.NewNetworkCodec()},
		GamePlay:        g,
	}
	var wg sync.WaitGroup
	for _, name := range []string{"Alice", "Bob"} {
		a, b := net.Pipe()
		wg.Add(2)
		go func() { defer wg.Done(); s.AcceptConn(mcnet.WrapConn(b)) }()
		go func(name string) {
			defer wg.Done()
			c := mcnet.WrapConn(a)
			if !login(t, c, name) {
				t.Errorf("%s: no login success", name)
			}
			var p pk.Packet
			for c.ReadPacket(&p) == nil {
			}
		}(name)
	}
	for i := 0; i < 2; i++ {
		select {
		case <-g.entered:
		case <-time.After(2 * time.Second):
			t.Log("only one client reached AcceptPlayer (admission is atomic)")
			g.joined.Done()
			close(g.release)
			wg.Wait()
			return
		}
	}
	close(g.release)
	wg.Wait()
	if g.maxSeen > pl.MaxPlayer() {
		t.Errorf("capacity %d, but %d players were inside AcceptPlayer at the same time (both had passed CheckPlayer); %d refused by ClientJoin afterwards",
			pl.MaxPlayer(), g.maxSeen, g.kicked)
	}
}

// Finding ConfigGate: Server.AcceptConn calls s.AcceptConfig(conn) without looking at its result.
type failingConfig struct{}

func (failingConfig) AcceptConfig(*mcnet.Conn) error { return errors.New("configuration failed") }

type flagGame struct{ called chan struct{} }

func (g flagGame) AcceptPlayer(string, uuid.UUID, *user.PublicKey, []user.Property, int32, *mcnet.Conn) {
	close(g.called)
}

func TestConfigGate(t *testing.T) {
	pl := server.NewPlayerList(5)
	g := flagGame{make(chan struct{})}
	s := &server.Server{
		ListPingHandler: status{pl, server.NewPingInfo("x", 764, chat.Text(""), nil)},
		LoginHandler:    &server.MojangLoginHandler{Threshold: -1, LoginChecker: pl},
		ConfigHandler:   failingConfig{},
		GamePlay:        g,
	}
	a, b := net.Pipe()
	done := make(chan struct{})
	go func() { s.AcceptConn(mcnet.WrapConn(b)); close(done) }()
	c := mcnet.WrapConn(a)
	if !login(t, c, "Carol") {
		t.Fatal("no login success")
	}
	<-done
	select {
	case <-g.called:
		t.Error("AcceptConfig returned an error and GamePlay.AcceptPlayer was called all the same")
	default:
	}
}

// Finding StatusConsistent: listResp reads OnlinePlayer() and PlayerSamples() under two separate locks; a join in
// between gives a response whose players.online is not the length of players.sample.
type tornStatus struct {
	*server.PlayerList
	*server.PingInfo
	between func()
}

func (s tornStatus) OnlinePlayer() int {
	n := s.PlayerList.OnlinePlayer()
	s.between() // stands for another connection's goroutine running ClientJoin right now
	return n
}

func TestStatusConsistent(t *testing.T) {
	pl := server.NewPlayerList(5)
	st := tornStatus{pl, server.NewPingInfo("x", 764, chat.Text(""), nil), func() {
		pl.ClientJoin(&plClient{}, server.PlayerSample{Name: "Dave"})
	}}
	s := &server.Server{ListPingHandler: st}
	a, b := net.Pipe()
	go s.AcceptConn(mcnet.WrapConn(b))
	c := mcnet.WrapConn(a)
	c.WritePacket(pk.Marshal(0, pk.VarInt(764), pk.String("h"), pk.UnsignedShort(1), pk.VarInt(1)))
	c.WritePacket(pk.Marshal(0))
	var p pk.Packet
	if err := c.ReadPacket(&p); err != nil {
		t.Fatal(err)
	}
	var js pk.String
	if err := p.Scan(&js); err != nil {
		t.Fatal(err)
	}
	var doc struct {
		Players struct {
			Online int
			Sample []struct{ Name string }
		}
	}
	if err := json.Unmarshal([]byte(js), &doc); err != nil {
		t.Fatal(err)
	}
	a.Close()
	if doc.Players.Online != len(doc.Players.Sample) {
		t.Errorf("status response says online=%d and lists %d players: %s", doc.Players.Online, len(doc.Players.Sample), js)
	}
}
