#!/bin/bash
# Mutation suite for C19: every mutant is applied by ./mut.sh in a scratch worktree of /repo (never in /repo itself)
# and judged by this copy's ./check C19 quick.   usage: ./muts19.sh [name-filter]
ROOT=$(dirname "$(readlink -f "$0")"); cd "$ROOT"
filter=${1:-.}
run() { # name file old new
  echo "$1" | grep -qE "$filter" || return
  echo "#### $1"
  MUT_LINES=4 ./mut.sh "$2" "$3" "$4" -- C19 2>&1 | tail -6
}
git -C /repo status --short | grep -q . && { echo "/repo dirty before"; exit 9; }
run M01-srv-setthr-before-compression-packet server/login.go $'\t\terr = conn.WritePacket(pk.Marshal(\n\t\t\tpacketid.ClientboundLoginLoginCompression,' $'\t\tconn.SetThreshold(d.Threshold)\n\t\terr = conn.WritePacket(pk.Marshal(\n\t\t\tpacketid.ClientboundLoginLoginCompression,'
run M02-srv-setthr-after-next-write server/login.go $'\t\tconn.SetThreshold(d.Threshold)\n\t}' $'\t\tdefer conn.SetThreshold(d.Threshold)\n\t}'
run M03-bot-ack-before-threshold-switch bot/login.go $'\t\t\tconn.SetThreshold(int(threshold))' $'\t\t\tdefer conn.SetThreshold(int(threshold))'
run M04-bot-success-field-order bot/login.go $'\t\t\t\t(*pk.UUID)(&c.UUID),\n\t\t\t\t(*pk.String)(&c.Name),' $'\t\t\t\t(*pk.String)(&c.Name),\n\t\t\t\t(*pk.UUID)(&c.UUID),'
run M05-srv-wrong-protocol-to-acceptplayer server/server.go 'properties, protocol, conn)' 'properties, ProtocolVersion, conn)'
run M06-srv-uuid-not-offline server/login.go $'\t\tid = offline.NameToUUID(name)' $'\t\t_ = offline.NameToUUID(name)'
run M07-sort-ascending bot/event.go 'slice[i].Priority > slice[j].Priority' 'slice[i].Priority < slice[j].Priority'
run M08-sort-unstable bot/event.go 'slice[i].Priority > slice[j].Priority' 'slice[i].Priority >= slice[j].Priority'
run M09-generic-after-specific bot/ingame.go $'\tfor _, handler := range c.Events.generic {\n\t\tif err = handler.F(p); err != nil {\n\t\t\treturn PacketHandlerError{ID: packetID, Err: err}\n\t\t}\n\t}\n\tfor _, handler := range c.Events.handlers[packetID] {' $'\tfor _, handler := range c.Events.handlers[packetID] {\n\t\tif err = handler.F(p); err != nil {\n\t\t\treturn PacketHandlerError{ID: packetID, Err: err}\n\t\t}\n\t}\n\tfor _, handler := range c.Events.generic {'
run M10-bundle-flushed-early bot/ingame.go $'\t\tpackets = append(packets, p)' $'\t\tif err := c.handlePacket(p); err != nil {\n\t\t\treturn err\n\t\t}'
run M11-bundle-reversed bot/ingame.go 'c.handlePacket(packets[i])' 'c.handlePacket(packets[len(packets)-1-i])'
run M12-bundle-dropped bot/ingame.go $'\t\t\tgoto handlePackets' $'\t\t\tif len(packets) > 1 {\n\t\t\t\treturn nil\n\t\t\t}\n\t\t\tgoto handlePackets'
run M13-generic-handler-error-swallowed bot/ingame.go $'\t\tif err = handler.F(p); err != nil {\n\t\t\treturn PacketHandlerError{ID: packetID, Err: err}' $'\t\tif err = handler.F(p); err != nil {\n\t\t\tbreak'
run M14-handlegame-returns-other-error bot/ingame.go $'\t\terr = handler.F(p)\n\t\tif err != nil {\n\t\t\treturn PacketHandlerError{ID: packetID, Err: err}' $'\t\terr = handler.F(p)\n\t\tif err != nil {\n\t\t\treturn PacketHandlerError{ID: packetID, Err: errors.New("handler failed")}'
run M15-pong-not-echoed server/ping.go $'\t\t\terr = conn.WritePacket(p)' $'\t\t\terr = conn.WritePacket(pk.Marshal(packetid.ClientboundStatusPongResponse, pk.Long(0)))'
run M16-status-max-from-online server/ping.go 'list.Players.Max = s.MaxPlayer()' 'list.Players.Max = s.OnlinePlayer()'
run M17-bot-handshake-field-order bot/mcbot.go $'\t\tpk.String(host),            // Host\n\t\tpk.UnsignedShort(port),     // Port' $'\t\tpk.UnsignedShort(port),     // Port\n\t\tpk.String(host),            // Host'
run M18-bot-finish-ack-id-drift bot/configuration.go $'\t\t\t\tpacketid.ServerboundConfigFinishConfiguration,' $'\t\t\t\tpacketid.ServerboundConfigKeepAlive,'
run M19-buffer-returned-before-handlers bot/ingame.go $'\t\t\t// handle packets\n\t\t\terr := c.handlePacket(p)' $'\t\t\tc.Conn.pool.Put(p.Data)\n\t\t\terr := c.handlePacket(p)'
run M20-srv-login-success-id-drift server/login.go $'\t\tpacketid.ClientboundLoginGameProfile,' $'\t\tpacketid.ClientboundLoginCustomQuery,'
run M21-bot-sendqueue-lifo bot/client.go $'\t\t\tp, ok := wc.send.Pull()\n\t\t\tif !ok {\n\t\t\t\tbreak\n\t\t\t}' $'\t\t\tp, ok := wc.send.Pull()\n\t\t\tif !ok {\n\t\t\t\tbreak\n\t\t\t}\n\t\t\tif q, ok2 := wc.send.Pull(); ok2 {\n\t\t\t\tif err := c.WritePacket(q); err != nil {\n\t\t\t\t\tbreak\n\t\t\t\t}\n\t\t\t}'
run M22-compress-threshold-off-by-one net/packet/packet.go 'if len(p.Data) < threshold {' 'if len(p.Data) <= threshold {'
run M23-bundle-flushed-late bot/ingame.go $'\tvar packets []pk.Packet\n\tfor i := 0; i < 4096; i++ {\n\t\tvar p pk.Packet\n\t\t// Read packets\n\t\tif err := c.Conn.ReadPacket(&p); err != nil {\n\t\t\treturn err\n\t\t}\n\n\t\tif p.ID == int32(packetid.BundleDelimiter) {\n\t\t\t// bundle finished\n\t\t\tgoto handlePackets' $'\tvar packets []pk.Packet\n\tlate := false\n\tfor i := 0; i < 4096; i++ {\n\t\tvar p pk.Packet\n\t\t// Read packets\n\t\tif err := c.Conn.ReadPacket(&p); err != nil {\n\t\t\treturn err\n\t\t}\n\n\t\tif p.ID == int32(packetid.BundleDelimiter) {\n\t\t\tif !late {\n\t\t\t\tlate = true\n\t\t\t\tcontinue\n\t\t\t}\n\t\t\tgoto handlePackets'
git -C /repo status --short | grep -q . && echo "/repo dirty after" || echo "/repo clean after"
