#!/bin/bash
# X03 mutants (each applied in a scratch worktree by ../mut.sh, /repo untouched): ./mutants_X03.sh [n...]
# Prints, per mutant, the NOTE check names (legs A and B only: leg S never touches the code under test).
cd "$(dirname "$(readlink -f "$0")")/.."
export GOFLAGS=-mod=mod GOPROXY=off GOSUMDB=off GOTOOLCHAIN=local MUT_LINES=60 VERIF_LEGS=${VERIF_LEGS:-A,B}
run() { n=$1; shift; echo "##### M$n: $1 :: $(echo "$2" | tr '\n\t' '  ' | cut -c1-90) -> $(echo "$3" | tr '\n\t' '  ' | cut -c1-90)"
  ./mut.sh "$1" "$2" "$3" -- X03 2>&1 | sed -n -e 's/^NOTE spec-extension Cmd finding: \([^ ]*\) - .*(\([0-9]*\) events.*/   \1 (\2)/p' -e '/^== /p' -e '/INFRA\|VIOLATION\|does not build\|pattern not found/p' | cut -c1-200; }
sel=" $* "
want() { [ "$sel" = "  " ] || [[ "$sel" == *" $1 "* ]]; }
D=server/command
want 1 && run 1 $D/builders.go 'func (n LiteralBuilder) AppendLiteral(node *Literal) LiteralBuilderWithLiteral {
	n.current.Children = append(n.current.Children, node.index)' 'func (n LiteralBuilder) AppendLiteral(node *Literal) LiteralBuilderWithLiteral {
	n.current.Children = append([]int32{node.index}, n.current.Children...)'
want 2 && run 2 $D/builders.go 'func (n ArgumentBuilder) Unhandle() *Argument {
	return n.HandleFunc(unhandledCmd)' 'func (n ArgumentBuilder) Unhandle() *Argument {
	return n.HandleFunc(nil)'
want 3 && run 3 $D/builders.go '		index: index,
		kind:  LiteralNode,' '		index: 0,
		kind:  LiteralNode,'
want 4 && run 4 $D/command.go '				next = i
				break' '				next = i'
want 5 && run 5 $D/command.go 'left = strings.TrimSpace(left)' 'left = strings.TrimLeft(left, " ")'
want 6 && run 6 $D/command.go 'return errors.New("command contains extra text: " + left)' 'return nil'
want 7 && run 7 $D/command.go 'value = LiteralData(n.Name)' 'value = n.Name'
want 8 && run 8 $D/parsers.go 'i := strings.IndexAny(cmd, "\t\n\v\f\r ")' 'i := strings.IndexAny(cmd, " ")'
want 9 && run 9 $D/parsers.go "					case '\"':
						sb.WriteRune('\"')" "					case '\"':
						sb.WriteRune('\\\\')"
want 10 && run 10 $D/parsers.go 'return cmd[:i], sb.String(), nil' 'return cmd[i+2:], sb.String(), nil'
want 11 && run 11 $D/serialize.go '		pk.Array(g.nodes),
		pk.VarInt(0),' '		pk.Array(g.nodes),
		pk.VarInt(1),'
want 12 && run 12 $D/serialize.go 'if n.Run != nil {' 'if n.Run == nil {'
want 13 && run 13 $D/serialize.go 'Has:   func() bool { return n.kind == ArgumentNode || n.kind == LiteralNode },' 'Has:   func() bool { return n.kind == LiteralNode },'
want 14 && run 14 $D/parsers.go '		pk.VarInt(s),' '		pk.VarInt(s + 1),'
want 15 && run 15 $D/command.go '			return node.Run(ctx, args)' '			node.Run(ctx, args)
			return nil'
want 16 && run 16 $D/command.go '			return node.Run(ctx, args)' '			return node.Run(context.Background(), args)'
want 17 && run 17 $D/component.go 'packetid.ClientboundCommands, g,' 'packetid.ClientboundCommandSuggestions, g,'
want 18 && run 18 $D/command.go '		left = cmd
		value = nil' '		left = cmd
		value = ""'
want 19 && run 19 $D/command.go '			if node.Run == nil {
				return errors.New("incomplete command")
			}' ''
want 20 && run 20 $D/command.go 'left = strings.TrimPrefix(cmd, n.Name)' 'left = strings.TrimLeft(cmd, n.Name)'
want 21 && run 21 $D/builders.go 'func (g *Graph) AppendLiteral(child *Literal) *Graph {
	g.nodes[0].Children = append(g.nodes[0].Children, child.index)' 'func (g *Graph) AppendLiteral(child *Literal) *Graph {
	if len(g.nodes[0].Children) < 3 {
		g.nodes[0].Children = append(g.nodes[0].Children, child.index)
	}'
want 22 && run 22 $D/parsers.go '				} else if v == '"'"'\\'"'"' {
					isEscaping = true' '				} else if v == '"'"'\\'"'"' && i > 0 {
					isEscaping = true'
want 23 && run 23 $D/serialize.go 'flag |= n.kind & 0x03' 'flag |= n.kind & 0x01'
want 24 && run 24 $D/builders.go 'func (n ArgumentBuilder) AppendArgument(node *Argument) ArgumentBuilderWithArgument {
	n.current.Children = append(n.current.Children, node.index)' 'func (n ArgumentBuilder) AppendArgument(node *Argument) ArgumentBuilderWithArgument {'
true
