#!/bin/bash
# Mutants for X14 (run from the framework root): every mutant must add NOTE signatures to the baseline set
# (BlockAccepted, CrossTable, DefaultInTable, EncodeFresh, Model(AcceptedInTable), Model(DefaultInTable)).
# usage: bash notes/mutants_X14.sh [only-this-number]
cd "$(dirname "$0")/.."
export MUT_LINES=60 MUT_GREP='NOTE spec-extension|INFRA|^OK|INCONCLUSIVE'
BASE='BlockAccepted|CrossTable|DefaultInTable|EncodeFresh|Model\(AcceptedInTable\)|Model\(DefaultInTable\)'
n=0
m() { # file old new label
  n=$((n+1))
  if [ -n "${ONLY:-}" ] && [ "$ONLY" != "$n" ]; then return; fi
  echo "### M$n $4"
  ./mut.sh "$1" "$2" "$3" -- X14 2>&1 | sed -E 's/NOTE spec-extension Tables finding: ([^ ]+) - .*\(([0-9]+) events.*/NOTE \1 (\2)/' | grep -vE "^NOTE ($BASE) |finding: ($BASE) " | cut -c1-220
}
ONLY=${1:-}
m level/block/block.go 'ToStateID[block] = StateID(len(StateList))' 'ToStateID[block] = StateID(len(StateList) + 1)' 'ToStateID off by one'
m level/block/block.go 'BitsPerBlock = bits.Len(uint(len(StateList)))' 'BitsPerBlock = bits.Len(uint(len(StateList))) + 1' 'BitsPerBlock one too many'
m level/block/block.go 'if s.Properties.Type != nbt.TagEnd {' 'if s.Properties.Type == nbt.TagCompound {' 'State.Block ignores Properties that are not a compound'
m level/block/properties_enum.go 'var strAttachFace = [...]string{"floor", "wall", "ceiling"}' 'var strAttachFace = [...]string{"floor", "walls", "ceiling"}' 'AttachFace: MarshalText text differs from UnmarshalText'
m level/block/properties_enum.go 'var strBambooLeaves = [...]string{"none", "small", "large"}' 'var strBambooLeaves = [...]string{"none", "small", "small"}' 'BambooLeaves: two values with one text'
m level/block/properties.go 'return []byte(strconv.Itoa(int(i))), nil' 'return []byte(strconv.Itoa(int(i) + 1)), nil' 'Integer.MarshalText off by one'
m level/block/properties.go '*((*bool)(b)), err = strconv.ParseBool(string(text))' 'v, err := strconv.ParseBool(string(text)); if err == nil { *((*bool)(b)) = !v }' 'Boolean.UnmarshalText inverted (true <-> false)'
m level/biome/list.go 'BitsPerBiome = bits.Len(uint(len(biomesNames)))' 'BitsPerBiome = bits.Len(uint(len(biomesNames))) - 1' 'BitsPerBiome one short'
m level/biome/list.go 'biomesIDs[h] = Type(i)' 'biomesIDs[h] = Type(i / 2 * 2)' 'biome ids: odd ids decode to their even neighbour'
m level/biome/list.go 'if t >= 0 && int(t) < len(biomesNames) {
		return biomesNames[t], nil' 'if t >= 0 && int(t) <= len(biomesNames) {
		return biomesNames[t], nil' 'biome MarshalText accepts n (index out of range)'
m level/block/blockentity.go 'EntityTypes[v.ID()] = EntityType(i)' 'EntityTypes[v.ID()] = EntityType(i + 1)' 'EntityTypes off by one'
m level/block/blockentities.go 'return block.ID() == "minecraft:furnace"' 'return block.ID() == "minecraft:chest"' 'FurnaceEntity valid for chest'
m level/block/blockentities.go 'func (TrappedChestEntity) ID() string          { return "minecraft:trapped_chest" }' 'func (TrappedChestEntity) ID() string          { return "minecraft:chest" }' 'two block entities with one id'
m level/block/utilfuncs.go 'case Air, CaveAir, VoidAir:' 'case Air, VoidAir:' 'IsAir forgets cave_air'
m data/inventory/inventory.go 'case "anvil":
		return Anvil' 'case "anvil":
		return Beacon' 'inventory NameToID("anvil") = Beacon'
m level/block/properties.go 'case DownSouth:
		return Down, South' 'case DownSouth:
		return Down, North' 'FrontAndTop.Directions: down_south answers down, north'
m level/block/properties_enum.go 'func (a *AttachFace) UnmarshalText(text []byte) error {
	switch str := string(text); str {' 'func (a *AttachFace) UnmarshalText(text []byte) error {
	*a = 0
	switch str := string(text); str {' 'AttachFace.UnmarshalText clears the destination before it fails'
m level/block/properties_enum.go 'return "invalid AttachFace"' 'return "floor"' 'String() of an invalid AttachFace is the text of a valid one'
m level/block/block.go 'block, ok := FromID[s.Name]
	if !ok {' 'block, ok := FromID[string(bytes.ToLower([]byte(s.Name)))]
	if !ok {' 'State.Block folds the case of the name'
