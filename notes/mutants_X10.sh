#!/bin/bash
# Hand-written mutants of nbt/dynbt and chat/sign for X10 (scratch worktrees through mut.sh; /repo untouched).
# usage: notes/mutants_X10.sh [name...]   prints, per mutant, the NOTE signatures the unchanged tree does not show (+) / no longer shows (-)
cd "$(dirname "$(readlink -f "$0")")/.."
export GOFLAGS=-mod=mod GOPROXY=off GOSUMDB=off GOTOOLCHAIN=local VERIF_ROOT=$PWD MUT_LINES=120
BASE=/tmp/x10-mut-base.$$
key() { grep "NOTE spec-extension" | sed -E 's/^NOTE spec-extension ([A-Za-z]+) finding: (Model\(code\) - [A-Za-z]+|Replay\([a-z-]+\) - [A-Za-z()]+|[A-Za-z()-]+).*/\1 \2/' | sort -u; }
./check X10 quick 2>&1 | key > $BASE
m() { # name file old new
  name=$1; shift
  if [ ${#WANT[@]} -gt 0 ] && [[ ! " ${WANT[*]} " =~ " $name " ]]; then return; fi
  out=$(./mut.sh "$1" "$2" "$3" -- X10 2>&1)
  echo "== $name: $(echo "$out" | grep -E '^== X10|does not build|pattern not found|INFRA' | cut -c1-200 | tr '\n' ' ')"
  echo "$out" | key | comm -13 $BASE - | sed 's/^/   + /' | tr '\n' ';'; echo
  echo "$out" | key | comm -23 $BASE - | sed 's/^/   - /' | tr '\n' ';'; echo
}
WANT=("$@")
U=nbt/dynbt/update.go
T=nbt/dynbt/types.go
E=nbt/dynbt/encode.go
D=nbt/dynbt/decode.go
S=chat/sign/session.go
G=chat/sign/sign.go
# ---- dynbt
m D1 $U '			c.kvs[i].v = val
			return' '			c.kvs = append(c.kvs, kv{key, val})
			return'
m D2 $U '	for i := range c.kvs {
		if c.kvs[i].tag == key {
			c.kvs[i].v = val' '	for i := len(c.kvs) - 1; i >= 0; i-- {
		if c.kvs[i].tag == key {
			c.kvs[i].v = val'
m D3 $U '	c.kvs = append(c.kvs, kv{key, val})' '	c.kvs = append([]kv{{key, val}}, c.kvs...)'
m D4 $U '	c.kvs = append(c.kvs, kv{key, val})' '	cp := *val
	c.kvs = append(c.kvs, kv{key, &cp})'
m D5 $U '		if tag.tag == key {
			return tag.v' '		if tag.tag == key && tag.v.tag != 0 && len(c.kvs) < 3 {
			return tag.v'
m D6 $U '		} else {
			return nil
		}' '		} else {
			return v
		}'
m D7 $T '	binary.BigEndian.PutUint16(data, uint16(v))
	return &Value{tag: nbt.TagShort, data: data}' '	binary.LittleEndian.PutUint16(data, uint16(v))
	return &Value{tag: nbt.TagShort, data: data}'
m D8 $T '	if v.tag != nbt.TagInt {
		return 0
	}' '	if v.tag != nbt.TagInt && v.tag != nbt.TagFloat {
		return 0
	}'
m D9 $T '	return &Value{tag: nbt.TagList, list: elems}' '	return &Value{tag: nbt.TagList, list: append([]*Value{}, elems...), elem: nbt.TagCompound}'
m D10 $T 'func (v *Value) ByteArray() []byte {
	if v.tag != nbt.TagByteArray {
		return nil
	}' 'func (v *Value) ByteArray() []byte {
	if v.tag != nbt.TagByteArray {
		return []byte{}
	}'
m D11 $E '		if length > 0 {
			elemType = v.list[0].tag
		}' '		if length > 0 {
			elemType = v.list[length-1].tag
		}'
m D12 $D '		v.list = v.list[:0]
		v.elem = t' '		v.elem = t'
m D13 $D '		v.comp.kvs = v.comp.kvs[:0]
		for {' '		for {'
m D14 $D '		v.list = v.list[:0]
		v.elem = t' '		v.list = v.list[:0]'
m D15 $T '	for _, kv := range c.kvs {
		f(kv.tag, kv.v)
	}' '	for i, kv := range c.kvs {
		if i > 0 {
			f(kv.tag, kv.v)
		}
	}'
m D16 $U '	return len(c.kvs)' '	return cap(c.kvs)'
# candidate repair of NilCompound: the finding must disappear
m D17 $U 'func (c *Compound) Get(key string) *Value {
	for _, tag := range c.kvs {
		if tag.tag == key {
			return tag.v
		}
	}
	return nil
}

func (c *Compound) Len() int {
	return len(c.kvs)' 'func (c *Compound) Get(key string) *Value {
	if c == nil {
		return nil
	}
	for _, tag := range c.kvs {
		if tag.tag == key {
			return tag.v
		}
	}
	return nil
}

func (c *Compound) Len() int {
	if c == nil {
		return 0
	}
	return len(c.kvs)'
# ---- chat/sign
m S1 $S 'return s.lastMsg != nil && (' 'return s.lastMsg == nil || ('
# candidate repair of the chain predicate (first message accepted, descendant rule)
m S2 $S 'return s.lastMsg != nil && (msg.Prev.Index < s.lastMsg.Prev.Index || msg.Prev.Sender != s.lastMsg.Prev.Sender || msg.Prev.Session != s.lastMsg.Prev.Session)' 'return s.lastMsg == nil || (msg.Prev.Index > s.lastMsg.Prev.Index && msg.Prev.Sender == s.lastMsg.Prev.Sender && msg.Prev.Session == s.lastMsg.Prev.Session)'
# candidate repair of both predicates
m S3 $S '	_ = binary.Write(h, binary.BigEndian, msg.Prev.Index)' '	_ = binary.Write(h, binary.BigEndian, int32(msg.Prev.Index))'
m S4 $S '	s.valid = s.valid && s.verifyHash(msg) && s.verifyChain(msg)' '	s.valid = s.verifyHash(msg) && s.verifyChain(msg)'
m S5 $S '	if s.valid {
		s.lastMsg = msg
		return true
	}' '	s.lastMsg = msg
	if s.valid {
		return true
	}'
m S6 $S '	_ = binary.Write(h, binary.BigEndian, msg.Salt)' '	_ = msg.Salt'
m S7 $S '	s.valid = true
	s.lastMsg = nil' '	s.valid = true'
m S8 $S '	_, _ = h.Write(msg.Prev.Session[:])' '	_, _ = h.Write(s.SessionID[:])'
m S9 $G '		pk.Long(m.Timestamp.UnixMilli()),' '		pk.Long(m.Timestamp.Unix()),'
m S10 $G '	return pk.Tuple{h.Offset, h.Acknowledged}.WriteTo(w)' '	return pk.Tuple{h.Acknowledged, h.Offset}.WriteTo(w)'
m S11 $G '	n2, err := (*pk.ByteArray)(&p.Signature).ReadFrom(r)
	return n + n2, err' '	n2, err := (*pk.ByteArray)(&p.Signature).ReadFrom(r)
	_ = n2
	return n, err'
m S12 $G '	if f.Type == 2 {
		var n1 int64
		n1, err = f.Mask.WriteTo(w)' '	if f.Type >= 1 {
		var n1 int64
		n1, err = f.Mask.WriteTo(w)'
m S13 $S '	n2, err := s.PublicKey.WriteTo(w)
	return n1 + n2, err' '	n2, err := s.PublicKey.WriteTo(w)
	return n2, err'
m S14 $S '	_ = binary.Write(h, binary.BigEndian, msg.Timestamp.Unix())' '	_ = binary.Write(h, binary.BigEndian, msg.Timestamp.UnixMilli())'
m S15 $S '	n2, err := s.PublicKey.ReadFrom(r)
	return n1 + n2, err' '	n2, err := s.PublicKey.ReadFrom(r)
	s.SessionID[0] ^= 1
	return n1 + n2, err'
rm -f $BASE
