package x2repro

import (
	"bytes"
	"testing"

	"github.com/Tnze/go-mc/chat/sign"
	pk "github.com/Tnze/go-mc/net/packet"
	"github.com/Tnze/go-mc/registry"
)

func slot(c *sign.SignatureCache, id int32) (*sign.Signature, error) {
	b := sign.PackedMessageBody{LastSeen: []sign.PackedSignature{{ID: id}}}
	m, err := b.Unpack(c)
	if err != nil {
		return nil, err
	}
	return m.LastSeen[0], nil
}

// F1: a new message whose lastSeen names the most recent cached signature leaves a hole in slot 1.
func TestCacheHole(t *testing.T) {
	c := sign.NewSignatureCache()
	s1, s2 := &sign.Signature{1}, &sign.Signature{2}
	c.PopOrInsert(s1, nil)        // cache: [s1]
	c.PopOrInsert(s2, []*sign.Signature{s1}) // expected: [s2, s1]
	a, _ := slot(&c, 0)
	b, _ := slot(&c, 1)
	d, _ := slot(&c, 2)
	if a != s2 || b != s1 || d != nil {
		t.Fatalf("slots 0..2 = %v %v %v, want s2 s1 nil (got hole: %v)", a != nil, b != nil, d != nil, b == nil && d == s1)
	}
}

// F2: a packed reference to an empty slot is answered with a nil signature and no error.
func TestUnpackEmptySlot(t *testing.T) {
	c := sign.NewSignatureCache()
	s, err := slot(&c, 5)
	if err == nil {
		t.Fatalf("Unpack(id 5) on an empty cache: err=nil, signature=%v; want UncachedSignature", s)
	}
}

// F3: PackedSignature does not survive its own wire form.
func TestPackedSignatureRoundTrip(t *testing.T) {
	for _, in := range []sign.PackedSignature{{ID: 5}, {ID: -1, Signature: &sign.Signature{9}}} {
		var buf bytes.Buffer
		if _, err := in.WriteTo(&buf); err != nil {
			t.Fatal(err)
		}
		var out sign.PackedSignature
		r := bytes.NewReader(buf.Bytes())
		if _, err := (&out).ReadFrom(r); err != nil {
			t.Fatal(err)
		}
		if out.ID != in.ID || (out.Signature == nil) != (in.Signature == nil) || r.Len() != 0 {
			t.Errorf("wrote {ID:%d sig:%v} (%d bytes), read {ID:%d sig:%v}, %d bytes left", in.ID, in.Signature != nil, buf.Len(), out.ID, out.Signature != nil, r.Len())
		}
	}
}

type val struct {
	V int32 `nbt:"v"`
}

// F4: an entry without data is skipped, so the ids of the entries behind it are not their wire positions.
func TestRegistryNoDataEntryShiftsIds(t *testing.T) {
	var b bytes.Buffer
	pk.VarInt(3).WriteTo(&b)
	for i, k := range []string{"minecraft:a", "minecraft:b", "minecraft:c"} {
		pk.Identifier(k).WriteTo(&b)
		has := i != 1
		pk.Boolean(has).WriteTo(&b)
		if has {
			pk.NBT(val{int32(i)}).WriteTo(&b)
		}
	}
	r := registry.NewRegistry[val]()
	if _, err := r.ReadFrom(&b); err != nil {
		t.Fatal(err)
	}
	if id, _ := r.Get("minecraft:c"); id != 2 {
		t.Errorf("entry at wire position 2 has id %d", id)
	}
}

// F5: growing the row past its reserved capacity (256) leaves tags pointing into the old row.
func TestRegistryTagsAfterGrowth(t *testing.T) {
	r := registry.NewRegistry[val]()
	for i := 0; i < 256; i++ {
		r.Put("minecraft:k"+string(rune('a'+i%26))+string(rune('a'+i/26)), val{int32(i)})
	}
	var b bytes.Buffer
	pk.VarInt(1).WriteTo(&b)
	pk.Identifier("minecraft:t").WriteTo(&b)
	pk.VarInt(1).WriteTo(&b)
	pk.VarInt(7).WriteTo(&b)
	if _, err := r.ReadTagsFrom(&b); err != nil {
		t.Fatal(err)
	}
	if r.Tag("minecraft:t")[0] != r.GetByID(7) {
		t.Fatal("tag does not point at entry 7 before growth")
	}
	r.Put("minecraft:one_more", val{256})
	if r.Tag("minecraft:t")[0] != r.GetByID(7) {
		t.Errorf("after the 257th Put the tag no longer points at entry 7 (a write through GetByID(7) is invisible through the tag)")
	}
}
