//go:build verif

package x10repro

// Reproductions that need the export shim (overlays/sign_export.go): the two predicates of VerifyAndUpdate alone, and
// VerifyAndUpdate from a chain state with a predecessor (which session.go never reaches by itself today).

import (
	"testing"
	"time"

	"github.com/google/uuid"
)

// SignChain HashGenuine / HashIndexBound: the index is not part of what verifyHash hashes (binary.Write of a Go int
// fails and writes nothing): a genuine signature never verifies, one over the string without index verifies for ANY index.
func TestHashIgnoresIndex(t *testing.T) {
	sender, sid := uuid.New(), uuid.New()
	s := session(sid)
	if !s.VerifHash(message(sender, sid, 3, "hello", true)) {
		t.Errorf("verifyHash rejects a genuine signature (protocol byte string)")
	}
	m := message(sender, sid, 3, "hello", false)
	for _, idx := range []int{3, 4, 99} {
		m.Prev.Index = idx
		if s.VerifHash(m) {
			t.Errorf("signature made without an index verifies for index %d", idx)
		}
	}
}

// SignChain ChainFirst / ChainDescends: no predecessor -> false; with one, the answer is the NEGATION of "descendant".
func TestChainPredicate(t *testing.T) {
	sender, sid := uuid.New(), uuid.New()
	s := session(sid)
	if !s.VerifChain(message(sender, sid, 0, "first", true)) {
		t.Errorf("verifyChain(first message) = false")
	}
	s.VerifSetState(true, message(sender, sid, 5, "last", true))
	if !s.VerifChain(message(sender, sid, 6, "successor", true)) {
		t.Errorf("verifyChain(successor of index 5) = false")
	}
	if s.VerifChain(message(sender, sid, 2, "older", true)) {
		t.Errorf("verifyChain(index 2 after index 5) = true")
	}
	if s.VerifChain(message(uuid.New(), sid, 6, "other sender", true)) {
		t.Errorf("verifyChain(another sender) = true")
	}
}

// SignChain ExpiredRejected / BadSignatureRejected (injected): behind the two predicates an OLDER message signed without
// its index is accepted, also when the key has expired.
func TestAcceptedBehindThePredicates(t *testing.T) {
	sender, sid := uuid.New(), uuid.New()
	s := session(sid)
	s.PublicKey.ExpiresAt = time.Now().Add(-time.Hour)
	s.VerifSetState(true, message(sender, sid, 5, "last", false))
	if s.VerifyAndUpdate(message(sender, sid, 2, "older, no index signed, key expired", false)) {
		t.Errorf("accepted")
	}
}
