#!/bin/bash
# Runs the X10 reproductions against /repo (or $VERIF_REPO). repro_test.go uses the exported API only; shim_test.go
# (build tag verif) calls verifyHash / verifyChain and sets lastMsg through the export shim the framework adds to
# package chat/sign with `go build -overlay` (overlays/sign_export.go); nothing in the repository is changed.
# Every test FAILS on the unchanged tree: the failure message is the finding.
set -eu
HERE=$(dirname "$(readlink -f "$0")")
REPO=${VERIF_REPO:-/repo}
export GOFLAGS=-mod=mod GOPROXY=off GOSUMDB=off GOTOOLCHAIN=local
OV=$(mktemp /tmp/x10repro-overlay.XXXXXX.json)
trap 'rm -f $OV $HERE/go.sum' EXIT
printf '{"Replace":{"%s/chat/sign/verif_export_overlay.go":"%s/../../overlays/sign_export.go"}}\n' "$REPO" "$HERE" > $OV
cp $REPO/go.sum $HERE/go.sum
cd $HERE && go test -vet=off -count=1 -tags verif -overlay $OV "$@" ./...
