package x10repro

// Reproductions of the X10 findings through the exported API only. Every test fails on the unchanged tree.

import (
	"bytes"
	"crypto"
	"crypto/rand"
	"crypto/rsa"
	"crypto/sha256"
	"encoding/binary"
	"testing"
	"time"

	"github.com/google/uuid"

	"github.com/Tnze/go-mc/chat/sign"
	"github.com/Tnze/go-mc/nbt"
	"github.com/Tnze/go-mc/nbt/dynbt"
	pk "github.com/Tnze/go-mc/net/packet"
	"github.com/Tnze/go-mc/yggdrasil/user"
)

// DynBT WellFormedOut / Model(code): a list of values with different tags is written under the first element's tag.
func TestMixedListIsWrittenAsGarbage(t *testing.T) {
	l := dynbt.NewList(dynbt.NewShort(1), dynbt.NewByte(2))
	b, err := nbt.Marshal(l)
	if err != nil {
		return // refusing it would be fine
	}
	var back dynbt.Value
	if err := nbt.Unmarshal(b, &back); err != nil {
		t.Fatalf("Marshal(NewList(short, byte)) = % x, nil error - and that is no NBT document: %v", b, err)
	}
	b2, _ := nbt.Marshal(&back)
	if !bytes.Equal(b, b2) || len(back.List()) != 2 || back.List()[1].TagType() != nbt.TagByte {
		t.Fatalf("Marshal(NewList(short, byte)) = % x reads back as another value (% x)", b, b2)
	}
}

// DynBT NilCompound: Compound() of a non-compound is nil; Visit tolerates the nil receiver, Get and Len dereference it.
func TestNilCompoundChainPanics(t *testing.T) {
	v := dynbt.NewInt(7)
	v.Compound().Visit(func(string, *dynbt.Value) {}) // fine
	for name, f := range map[string]func(){"Len": func() { _ = v.Compound().Len() }, "Get": func() { _ = v.Compound().Get("a") }} {
		func() {
			defer func() {
				if r := recover(); r != nil {
					t.Errorf("NewInt(7).Compound().%s panics: %v", name, r)
				}
			}()
			f()
		}()
	}
}

var key = func() *rsa.PrivateKey { k, _ := rsa.GenerateKey(rand.Reader, 2048); return k }()

// the byte string a chat signature covers (1.19.3+): int 1, sender, session, int index, long salt, long epoch SECONDS,
// int length + text, int count + last seen signatures.  withIndex = false is what verifyHash computes today.
func digest(p sign.Prev, b *sign.MessageBody, withIndex bool) []byte {
	h := sha256.New()
	binary.Write(h, binary.BigEndian, int32(1))
	h.Write(p.Sender[:])
	h.Write(p.Session[:])
	if withIndex {
		binary.Write(h, binary.BigEndian, int32(p.Index))
	}
	binary.Write(h, binary.BigEndian, b.Salt)
	binary.Write(h, binary.BigEndian, b.Timestamp.Unix())
	binary.Write(h, binary.BigEndian, int32(len(b.PlainMsg)))
	h.Write([]byte(b.PlainMsg))
	binary.Write(h, binary.BigEndian, int32(len(b.LastSeen)))
	for _, s := range b.LastSeen {
		h.Write(s[:])
	}
	return h.Sum(nil)
}

func message(sender, session uuid.UUID, index int, text string, withIndex bool) *sign.Message {
	m := &sign.Message{Prev: sign.Prev{Index: index, Sender: sender, Session: session},
		MessageBody: &sign.MessageBody{PlainMsg: text, Timestamp: time.UnixMilli(1700000000123), Salt: 42}}
	raw, _ := rsa.SignPKCS1v15(rand.Reader, key, crypto.SHA256, digest(m.Prev, m.MessageBody, withIndex))
	m.Signature = new(sign.Signature)
	copy(m.Signature[:], raw)
	return m
}

func session(id uuid.UUID) *sign.Session {
	s := &sign.Session{SessionID: id, PublicKey: user.PublicKey{ExpiresAt: time.Now().Add(time.Hour), PubKey: &key.PublicKey}}
	s.InitValidate()
	return s
}

// SignChain FirstAccepted: the first genuine message of a session is rejected, and with it every later one.
// Signed over the protocol's byte string AND over the one verifyHash computes: neither is accepted (verifyChain
// demands a predecessor, and only an accepted message becomes one).
func TestFirstSignedMessageIsRejected(t *testing.T) {
	sender, sid := uuid.New(), uuid.New()
	for _, withIndex := range []bool{true, false} {
		s := session(sid)
		if !s.VerifyAndUpdate(message(sender, sid, 0, "hello", withIndex)) {
			t.Errorf("first message (index in the signed string: %v) rejected", withIndex)
		}
		if !s.VerifyAndUpdate(message(sender, sid, 1, "again", withIndex)) {
			t.Errorf("second message (index in the signed string: %v) rejected", withIndex)
		}
	}
}

// SignChain NoSignature: a message without signature is a nil dereference in verifyHash.
func TestMessageWithoutSignaturePanics(t *testing.T) {
	defer func() {
		if r := recover(); r != nil {
			t.Fatalf("VerifyAndUpdate of a message without signature panics: %v", r)
		}
	}()
	m := message(uuid.New(), uuid.New(), 0, "x", true)
	m.Signature = nil
	if session(m.Prev.Session).VerifyAndUpdate(m) {
		t.Fatal("accepted")
	}
}

// SignWire Read(hupdz): HistoryUpdate.ReadFrom into the zero value reads the offset and NO bit set bytes.
func TestHistoryUpdateZeroValueReadsNoBits(t *testing.T) {
	var buf bytes.Buffer
	sign.HistoryUpdate{Offset: 5, Acknowledged: pk.FixedBitSet{1, 2, 3}}.WriteTo(&buf)
	r := bytes.NewReader(buf.Bytes())
	var h sign.HistoryUpdate
	n, err := h.ReadFrom(r)
	if err != nil || r.Len() != 0 || len(h.Acknowledged) != 3 {
		t.Fatalf("ReadFrom = (%d, %v): %d of %d bytes left unread, Acknowledged = %v", n, err, r.Len(), buf.Len(), h.Acknowledged)
	}
}

// SignWire FilterMaskType (reading: vanilla reads an enum of three): any type is taken.
func TestFilterMaskUnknownType(t *testing.T) {
	var f sign.FilterMask
	if _, err := f.ReadFrom(bytes.NewReader([]byte{3})); err == nil {
		t.Fatalf("FilterMask type 3 read without error: %+v", f)
	}
}

// SignWire Read(body) (root cause = X02 PackedId): the last-seen list of a PackedMessageBody does not survive ReadFrom.
func TestPackedBodyLosesLastSeen(t *testing.T) {
	in := sign.PackedMessageBody{PlainMsg: "hi", Timestamp: time.UnixMilli(1700000000123), Salt: 1,
		LastSeen: []sign.PackedSignature{{ID: 5}, {ID: -1, Signature: &sign.Signature{9}}}}
	var buf bytes.Buffer
	in.WriteTo(&buf)
	r := bytes.NewReader(buf.Bytes())
	var out sign.PackedMessageBody
	_, err := out.ReadFrom(r)
	if err != nil || r.Len() != 0 || len(out.LastSeen) != 2 || out.LastSeen[0].ID != 5 || out.LastSeen[1].Signature == nil {
		t.Fatalf("err=%v, %d bytes unread, LastSeen=%+v", err, r.Len(), out.LastSeen)
	}
}
