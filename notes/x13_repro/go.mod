module x13repro

go 1.22

require github.com/Tnze/go-mc v0.0.0

require github.com/google/uuid v1.3.0 // indirect

require golang.org/x/exp v0.0.0-20230321023759-10a507213a29 // indirect

replace github.com/Tnze/go-mc => /repo
