package x13repro

// Standalone reproductions of the X13 findings (the world store as a composition of layers). Every test FAILS on the
// unchanged tree. Run: cd notes/x13_repro && cp /repo/go.sum . && GOFLAGS=-mod=mod GOPROXY=off go test ./...

import (
	"bytes"
	"compress/zlib"
	"path/filepath"
	"testing"

	"github.com/Tnze/go-mc/level"
	"github.com/Tnze/go-mc/level/block"
	"github.com/Tnze/go-mc/nbt"
	"github.com/Tnze/go-mc/save"
	"github.com/Tnze/go-mc/save/region"
)

var emptyList = nbt.RawMessage{Type: nbt.TagList, Data: []byte{0, 0, 0, 0, 0}}

// a destination document in which the RawMessage fields ChunkToSave does not touch hold some value
func prepared(x, z int32) *save.Chunk {
	return &save.Chunk{XPos: x, ZPos: z, DataVersion: 3700, BlockTicks: emptyList, FluidTicks: emptyList, PostProcessing: emptyList,
		Structures: nbt.RawMessage{Type: nbt.TagCompound, Data: []byte{0}}}
}

func newRegion(t *testing.T) *region.Region {
	r, err := region.Create(filepath.Join(t.TempDir(), "r.0.0.mca"))
	if err != nil {
		t.Fatal(err)
	}
	t.Cleanup(func() { r.Close() })
	return r
}

func someChunk() *level.Chunk {
	c := level.EmptyChunk(2)
	c.Sections[0].SetBlock(5, 1)
	c.Status = level.StatusFull
	return c
}

// F1 (PutPayloadWhole / PutReadable [lib gzip | lib zlib], Model(code_noclose)): Data(1) and Data(2) never close their
// compressor, so what PutChunk = ChunkToSave ; Data ; WriteSector stores cannot be read by GetChunk = ReadSector ; Load.
func TestPutGetCompressed(t *testing.T) {
	for _, ct := range []byte{1, 2, 3} {
		r := newRegion(t)
		sv := prepared(0, 0)
		if err := level.ChunkToSave(someChunk(), sv); err != nil {
			t.Fatal(err)
		}
		data, err := sv.Data(ct)
		if err != nil {
			t.Fatalf("Data(%d): %v", ct, err)
		}
		if err := r.WriteSector(0, 0, data); err != nil {
			t.Fatal(err)
		}
		back, err := r.ReadSector(0, 0)
		if err != nil {
			t.Fatal(err)
		}
		var got save.Chunk
		if err := got.Load(back); err != nil {
			t.Errorf("compression type %d: Put stored %d bytes without an error, Load of them fails: %v", ct, len(data), err)
		}
	}
}

// F2 (PutAccepted [lib, fresh destination], Model(code_raws)): the pipeline cannot store a chunk into a new save.Chunk:
// Data fails on the RawMessage fields ChunkToSave leaves unset. The same holds for load - modify - save of a document
// that lacks one of them (PutAccepted [... a loaded document without PostProcessing / structures]).
func TestPutIntoNewDocument(t *testing.T) {
	sv := &save.Chunk{XPos: 0, ZPos: 0, DataVersion: 3700}
	if err := level.ChunkToSave(someChunk(), sv); err != nil {
		t.Fatal(err)
	}
	if _, err := sv.Data(3); err != nil {
		t.Errorf("ChunkToSave into a new save.Chunk, then Data(3): %v", err)
	}
}

// F3 (PutGetEnts [lib uncompressed], Model(code_ents)): ChunkFromSave converts block_entities into level.BlockEntity,
// ChunkToSave does not convert them back: the block entities of a level chunk never reach the store.
func TestBlockEntitiesDoNotReachTheStore(t *testing.T) {
	c := someChunk()
	data, _ := nbt.Marshal(struct {
		ID string `nbt:"id"`
		X  int32  `nbt:"x"`
		Y  int32  `nbt:"y"`
		Z  int32  `nbt:"z"`
	}{block.EntityList[2].ID(), 3, -7, 15})
	var raw nbt.RawMessage
	if err := nbt.Unmarshal(data, &raw); err != nil {
		t.Fatal(err)
	}
	be := level.BlockEntity{Y: -7, Type: 2, Data: raw}
	be.PackXZ(3, 15)
	c.BlockEntity = []level.BlockEntity{be}
	sv := prepared(0, 0)
	if err := level.ChunkToSave(c, sv); err != nil {
		t.Fatal(err)
	}
	payload, err := sv.Data(3)
	if err != nil {
		t.Fatal(err)
	}
	var back save.Chunk
	if err := back.Load(payload); err != nil {
		t.Fatal(err)
	}
	got, err := level.ChunkFromSave(&back)
	if err != nil {
		t.Fatal(err)
	}
	if len(got.BlockEntity) != 1 {
		t.Errorf("level chunk with 1 block entity -> ChunkToSave -> Data -> Load -> ChunkFromSave: %d block entities", len(got.BlockEntity))
	}
}

// F4 (NoPanic [0 bytes]): Load of an empty byte string panics (data[1:] before anything is checked); examples/mcadump
// slices the same way.
func TestLoadEmpty(t *testing.T) {
	defer func() {
		if p := recover(); p != nil {
			t.Errorf("Load(nil) panics: %v", p)
		}
	}()
	var c save.Chunk
	if err := c.Load(nil); err == nil {
		t.Error("Load(nil): no error")
	}
}

// F5 (NoPanic [hmlen], NoPanic): a well-formed document whose height maps have the length another section count needs
// (here: 37 longs, the 384-block world, in a document with two sections) makes ChunkFromSave panic in NewBitStorage
// instead of answering an error.
func TestHeightMapLengthPanics(t *testing.T) {
	sv := prepared(0, 0)
	if err := level.ChunkToSave(someChunk(), sv); err != nil {
		t.Fatal(err)
	}
	sv.Heightmaps["MOTION_BLOCKING"] = make([]uint64, 37)
	payload, err := sv.Data(3)
	if err != nil {
		t.Fatal(err)
	}
	var zb bytes.Buffer // as another tool stores it: zlib, complete
	zb.WriteByte(2)
	zw := zlib.NewWriter(&zb)
	zw.Write(payload[1:])
	zw.Close()
	r := newRegion(t)
	if err := r.WriteSector(7, 7, zb.Bytes()); err != nil {
		t.Fatal(err)
	}
	back, _ := r.ReadSector(7, 7)
	var doc save.Chunk
	if err := doc.Load(back); err != nil {
		t.Fatal(err)
	}
	defer func() {
		if p := recover(); p != nil {
			t.Errorf("ChunkFromSave panics: %v", p)
		}
	}()
	if _, err := level.ChunkFromSave(&doc); err == nil {
		t.Error("ChunkFromSave: no error")
	}
}
