#!/bin/bash
# C17 mutants (each applied in a scratch worktree by ../mut.sh, /repo untouched): ./mutants_C17.sh [n...]
cd "$(dirname "$(readlink -f "$0")")/.."
export GOFLAGS=-mod=mod GOPROXY=off GOSUMDB=off GOTOOLCHAIN=local MUT_LINES=200
run() { n=$1; shift; echo "##### M$n: $1 :: $(echo "$2" | head -1 | cut -c1-70) -> $(echo "$3" | head -1 | cut -c1-70)"; ./mut.sh "$1" "$2" "$3" -- C17 2>&1 | grep -v "KNOWN-FINDING\|^NOTE" | cut -c1-230 | head -${SHOW:-9}; rm -rf out/C17-quick-* out/replays/C17-*; }
sel=" $* "
want() { [ "$sel" = "  " ] || [[ "$sel" == *" $1 "* ]]; }
# 1 a field renamed in the NBT form of the translate shape only
want 1 && run 1 chat/message.go 'nbt:"font,omitempty"`
	Color string `json:"color,omitempty" nbt:"color,omitempty"`' 'nbt:"font,omitempty"`
	Color string `json:"color,omitempty" nbt:"colour,omitempty"`'
# 2 a field renamed in the JSON form of the plain shape only
want 2 && run 2 chat/message.go 'Insertion  string      `json:"insertion,omitempty" nbt:"insertion,omitempty"`
	ClickEvent *ClickEvent `json:"clickEvent,omitempty" nbt:"clickEvent,omitempty"`
	HoverEvent *HoverEvent `json:"hoverEvent,omitempty" nbt:"hoverEvent,omitempty"`

	Translate string        `json:"translate,omitempty" nbt:"translate,omitempty"`
	With      TranslateArgs `json:"with,omitempty" nbt:"with,omitempty"`
	Extra     []Message     `json:"extra,omitempty" nbt:"extra,omitempty"`
}

type TranslateArgs' 'Insertion  string      `json:"insert,omitempty" nbt:"insertion,omitempty"`
	ClickEvent *ClickEvent `json:"clickEvent,omitempty" nbt:"clickEvent,omitempty"`
	HoverEvent *HoverEvent `json:"hoverEvent,omitempty" nbt:"hoverEvent,omitempty"`

	Translate string        `json:"translate,omitempty" nbt:"translate,omitempty"`
	With      TranslateArgs `json:"with,omitempty" nbt:"with,omitempty"`
	Extra     []Message     `json:"extra,omitempty" nbt:"extra,omitempty"`
}

type TranslateArgs'
# 3 style flags inverted when read from NBT
want 3 && run 3 nbt/decode.go 'val.SetBool(value != 0)' 'val.SetBool(value == 0)'
# 4 extras rendered in reverse order
want 4 && run 4 chat/message.go 'msg.WriteString(m.Extra[i].ClearString())' 'msg.WriteString(m.Extra[len(m.Extra)-1-i].ClearString())'
# 5 JSON argument list decoded in reverse order
want 5 && run 5 chat/jsonmessage.go '*t = append(*t, v)' '*t = append(TranslateArgs{v}, *t...)'
# 6 typed-array arguments (int array) rendered in hexadecimal
want 6 && run 6 chat/nbtmessage.go 'var value []int32
		if _, err := decoder.Decode(&value); err != nil {
			return err
		}
		for _, v := range value {
			*t = append(*t, strconv.FormatInt(int64(v), 10))' 'var value []int32
		if _, err := decoder.Decode(&value); err != nil {
			return err
		}
		for _, v := range value {
			*t = append(*t, strconv.FormatInt(int64(v), 16))'
# 7 chat.Type.ReadFrom reads a target when the flag says there is none
want 7 && run 7 chat/decoration.go 'if hasTargetName {
		t.TargetName = new(Message)' 'if !hasTargetName {
		t.TargetName = new(Message)'
# 8 chat.Type.WriteTo always writes flag = false (visible only behind the duplicated header)
want 8 && run 8 chat/decoration.go 'n3, err := hasTargetName.WriteTo(w)' 'n3, err := pk.Boolean(false).WriteTo(w)'
# 9 colour dropped in the JSON form of the translate shape
want 9 && run 9 chat/jsonmessage.go 'if m.Translate != "" {
		return json.Marshal(translateMsg(m))' 'if m.Translate != "" {
		m.Color = ""
		return json.Marshal(translateMsg(m))'
# 10 insertion dropped in the NBT form (visible only behind the duplicated header)
want 10 && run 10 chat/nbtmessage.go 'func (m Message) MarshalNBT(w io.Writer) error {' 'func (m Message) MarshalNBT(w io.Writer) error {
	m.Insertion = ""'
# 11 ClearString leaves the bold code (section sign + l)
want 11 && run 11 chat/message.go "	'l': \"1\"," ""
# 12 ClearString leaves the reset code (section sign + r): only random strings contain it
want 12 && run 12 chat/message.go "	'r': \"0\"," ""
# 13 translation arguments substituted in reverse order (plain mode)
want 13 && run 13 chat/message.go 'args[i] = v.ClearString()' 'args[len(args)-1-i] = v.ClearString()'
# 14 a bare string is no longer accepted as an NBT component
want 14 && run 14 chat/nbtmessage.go 'case nbt.TagString:
		_, err := decoder.Decode(&m.Text)' 'case nbt.TagString + 100:
		_, err := decoder.Decode(&m.Text)'
# 15 a bare JSON string lands in the wrong field
want 15 && run 15 chat/jsonmessage.go 'return json.Unmarshal(raw, &m.Text) // Unmarshal as jsonString' 'return json.Unmarshal(raw, &m.Insertion) // Unmarshal as jsonString'
# 16 text/translate shapes swapped in the NBT encoder (omitempty rule of text)
want 16 && run 16 chat/nbtmessage.go 'func (m Message) MarshalNBT(w io.Writer) error {
	if m.Translate != "" {' 'func (m Message) MarshalNBT(w io.Writer) error {
	if m.Translate == "" {'
# 17 hover value renamed in the NBT form only
want 17 && run 17 chat/hoverevent.go 'Value    Message `json:"value" nbt:"value"`' 'Value    Message `json:"value" nbt:"val"`'
# 18 click action key capitalised in JSON output
want 18 && run 18 chat/clickevent.go 'Action string `json:"action" nbt:"action"`' 'Action string `json:"Action" nbt:"action"`'
# 19 renderer panics for translations with arguments
want 19 && run 19 chat/message.go 'args := make([]any, len(m.With))' 'args := make([]any, len(m.With)/2)'
# 20 a JSON list is read into the arguments instead of the extras
want 20 && run 20 chat/nbtmessage.go 'case nbt.TagList:
		_, err := decoder.Decode(&m.Extra)' 'case nbt.TagList:
		_, err := decoder.Decode(&m.With)'
# 21 byte-array arguments read as unsigned
want 21 && run 21 chat/nbtmessage.go 'strconv.FormatInt(int64(v), 10))
		}
		return nil
	case nbt.TagIntArray:' 'strconv.FormatInt(int64(uint8(v)), 10))
		}
		return nil
	case nbt.TagIntArray:'
# 22 strikethrough not written in the JSON translate shape
want 22 && run 22 chat/message.go 'StrikeThrough bool `json:"strikethrough,omitempty" nbt:"strikethrough,omitempty"`
	Obfuscated    bool `json:"obfuscated,omitempty" nbt:"obfuscated,omitempty"`

	Font' 'StrikeThrough bool `json:"-" nbt:"strikethrough,omitempty"`
	Obfuscated    bool `json:"obfuscated,omitempty" nbt:"obfuscated,omitempty"`

	Font'
# 23 the NBT reader drops the click event value
want 23 && run 23 chat/clickevent.go 'Value  string `json:"value" nbt:"value"`' 'Value  string `json:"value" nbt:"-"`'
# 24 JsonMessage.WriteTo writes the plain shape for translations (text key present)
want 24 && run 24 chat/jsonmessage.go 'code, err := json.Marshal(Message(m))' 'code, err := json.Marshal(rawMsgStruct(m))'
# 25 ANSI renderer drops the extras
want 25 && run 25 chat/message.go 'msg.WriteString(m.Extra[i].String())' '_ = m.Extra[i].String()'
# 26 list elements written through MarshalNBT (half of the candidate fix for finding 3) while the header defect is open:
#    EXPECTED exit 0 - the extra duplicated headers fall under the open header finding, the dedup copy is then even correct
want 26 && run 26 nbt/encode.go 'err := e.writeValue(arrVal, arrType)' 'err := e.marshal(arrVal, arrType)'
