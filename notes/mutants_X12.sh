#!/bin/bash
# Hand-written mutants of yggdrasil, realms, bot/login.go (loginAuth) and server/auth/auth.go (authentication) for X12
# (scratch worktrees through mut.sh; /repo untouched).
# usage: notes/mutants_X12.sh [name...]   prints, per mutant, the NOTE signatures the unchanged tree does not show (+) / no longer shows (-)
cd "$(dirname "$(readlink -f "$0")")/.."
export GOFLAGS=-mod=mod GOPROXY=off GOSUMDB=off GOTOOLCHAIN=local VERIF_ROOT=$PWD MUT_LINES=80
# leg S does not touch the real code: the mutants run legs A and B only (the baseline too)
export VERIF_LEGS=${VERIF_LEGS:-A,B}
BASE=${X12_BASE:-/tmp/x12-mut-base.$$}
key() { grep "NOTE spec-extension" | sed -E 's/^NOTE spec-extension ([A-Za-z]+) finding: (Model\(code\) - [A-Za-z]+|[A-Za-z()-]+).*/\1 \2/' | sort -u; }
[ -s "$BASE" ] || ./check X12 quick 2>&1 | key > $BASE
m() { # name file old new
  name=$1; shift
  if [ ${#WANT[@]} -gt 0 ] && [[ ! " ${WANT[*]} " =~ " $name " ]]; then return; fi
  out=$(./mut.sh "$1" "$2" "$3" -- X12 2>&1)
  echo "== $name: $(echo "$out" | grep -E '^== X12|does not build|pattern not found' | tr '\n' ' ')"
  echo "$out" | key | comm -13 $BASE - | sed 's/^/   + /' | tr '\n' ';'; echo
  echo "$out" | key | comm -23 $BASE - | sed 's/^/   - /' | tr '\n' ';'; echo
}
WANT=("$@")
Y=yggdrasil
m Y1 $Y/authenticate.go 'ClientToken: uuid.New().String(),' 'ClientToken: uuid.Nil.String(),'
m Y2 $Y/authenticate.go 'RequestUser: true,' 'RequestUser: false,'
m Y3 $Y/refresh.go 'Tokens:          a.ar.Tokens,' 'Tokens:          Tokens{AccessToken: a.ar.AccessToken},'
m Y4 $Y/refresh.go '	if resp.Error != nil {
		return resp.Error
	}
' ''
m Y5 $Y/validate.go 'return resp.StatusCode == 204, resp.Body.Close()' 'return resp.StatusCode != 403, resp.Body.Close()'
m Y6 $Y/validate.go '	if resp.StatusCode != 204 {
		content' '	if resp.StatusCode >= 500 {
		content'
m Y7 $Y/signout.go 'if resp.StatusCode != 204 {' 'if resp.StatusCode == 500 {'
m Y8 $Y/yggdrasil.go '	PostRequest.Header.Set("Content-Type", "application/json")
' ''
m Y9 $Y/authenticate.go 'a.ar.Tokens = tokens' 'a.ar.AccessToken = tokens.AccessToken'
m Y10 $Y/authenticate.go 'return a.ar.AccessToken
}' 'return a.ar.ClientToken
}'
m Y11 $Y/yggdrasil.go '	defer rowResp.Body.Close()
' ''
m Y12 $Y/refresh.go '}{authResp: &a.ar}' '}{authResp: new(authResp)}'
# candidate repair of RefreshMistyped (decode into a copy, keep it on success only): the finding must disappear, the model of the code must complain
m Y13 $Y/refresh.go '}{authResp: &a.ar}

	err := post("/refresh", pl, &resp)
	if err != nil {
		return fmt.Errorf("post fail: %v", err)
	}

	if resp.Error != nil {
		return resp.Error
	}
' '}{authResp: &authResp{}}
	*resp.authResp = a.ar

	err := post("/refresh", pl, &resp)
	if err != nil {
		return fmt.Errorf("post fail: %v", err)
	}

	if resp.Error != nil {
		return resp.Error
	}
	a.ar = *resp.authResp
'
m Y14 $Y/signout.go 'UserName: user,' 'UserName: password,'
m Y15 $Y/authenticate.go 'Version: 1,' 'Version: 2,'
# candidate repair of ValidateStatus
m Y16 $Y/validate.go '	return resp.StatusCode == 204, resp.Body.Close()' '	if resp.StatusCode != 204 && resp.StatusCode != 403 {
		resp.Body.Close()
		return false, fmt.Errorf("validate: %v", resp.Status)
	}
	return resp.StatusCode == 204, resp.Body.Close()'
m Y17 $Y/refresh.go 'SelectedProfile: profile,' 'SelectedProfile: nil,'
L=bot/login.go
m J1 $L 'ServerID: digest,' 'ServerID: er.ServerID + digest[:0],'
m J2 $L 'if resp.StatusCode != http.StatusNoContent {' 'if resp.StatusCode >= 500 {'
m J3 $L 'AccessToken: auth.AsTk,' 'AccessToken: auth.UUID,'
m J4 $L 'ID:   auth.UUID,' 'ID:   auth.Name,'
m J5 $L '	PostRequest.Header.Set("User-agent", "go-mc")
' ''
A=server/auth/auth.go
m H1 $A '"&serverId=" + hash)' '"&serverId=" + name)'
m H2 $A '	err = json.Unmarshal(body, &Resp)

	return &Resp, err' '	json.Unmarshal(body, &Resp)

	return &Resp, nil'
m H3 $A 'hasJoined?username=' 'hasJoined?user='
# candidate repairs of HasJoinedQuery (escaping with what the file imports) and HasJoinedStatus
m H4 $A 'hasJoined?username=" + name +' 'hasJoined?username=" + strings.NewReplacer("%", "%25", "&", "%26", "#", "%23", "+", "%2B").Replace(name) +'
m H5 $A '	defer resp.Body.Close()

	body, err := io.ReadAll(resp.Body)' '	defer resp.Body.Close()
	if resp.StatusCode != http.StatusOK {
		return nil, errors.New("hasJoined: " + resp.Status)
	}

	body, err := io.ReadAll(resp.Body)'
m H6 $A 'defer resp.Body.Close()' '_ = resp'
R=realms
m R1 $R/realms.go '"token:" + astk + ":" + uuid' '"token:" + uuid + ":" + astk'
m R2 $R/realms.go '		{Name: "version", Value: version},
' ''
m R3 $R/mco.go '"/mco/tos/agreed"' '"/mco/tos/agree"'
m R4 $R/mco.go 'r.c.Post(Domain+"/mco/tos/agreed", "application/json", nil)' 'r.c.Get(Domain + "/mco/tos/agreed")'
m R5 $R/server.go 'if resp.PendingUpdate {' 'if false && resp.PendingUpdate {'
m R6 $R/server.go '"/worlds/v1/%d/join/pc"' '"/worlds/%d/join/pc"'
m R7 $R/server.go '	if resp.Error != nil {
		err = resp.Error
	}

	return resp.Servers, err' '	return resp.Servers, err'
m R8 $R/server.go 'fmt.Sprintf("/worlds/%d", ID)' 'fmt.Sprintf("/worlds/%d", ID+1)'
# candidate repairs of InviteResult and InviteBodyLeak
m R9 $R/invite.go 'pl, struct{}{})' 'pl, &struct{}{})'
m R10 $R/realms.go 'bytes.NewReader(data))
	if err != nil {
		return err
	}
' 'bytes.NewReader(data))
	if err != nil {
		return err
	}
	defer rawResp.Body.Close()
'
m R11 $R/realms.go '	rawResp, err := r.c.Get(Domain + endpoint)' '	r.c.Get(Domain + endpoint)
	rawResp, err := r.c.Get(Domain + endpoint)'
m R12 $R/invite.go 'UUID string `json:"uuid"`' 'UUID string `json:"id"`'
m R13 $R/server.go '"/subscriptions/%d"' '"/subscription/%d"'
m R14 $R/server.go '"/worlds/%d/backups"' '"/ops/%d"'
m R15 $R/mco.go 'err = r.get("/mco/available", &ok)' 'err = r.get("/mco/available", &ok)
	ok = true'
m R16 $R/realms.go '{Name: "user", Value: user},' '{Name: "user", Value: user}, {Name: "lang", Value: "en"},'
rm -f /tmp/x12-mut-base.$$
