#!/bin/bash
# C18 mutants (each applied in a scratch worktree by ./mut.sh, /repo untouched): ./mutants_C18.sh [n...]
cd "$(dirname "$(readlink -f "$0")")"
export GOFLAGS=-mod=mod GOPROXY=off GOSUMDB=off GOTOOLCHAIN=local MUT_LINES=8
run() { n=$1; shift; echo "##### M$n: $1 :: $2 -> $3"; ./mut.sh "$1" "$2" "$3" -- C18 2>&1 | cut -c1-330; }
sel=" $* "
want() { [ "$sel" = "  " ] || [[ "$sel" == *" $1 "* ]]; }
want 1 && run 1 bot/login.go 'carry = p[i] == 0xff
			p[i]++' 'carry = false
			p[i]++'
want 2 && run 2 server/auth/auth.go 'for i := len(p) - 1; i >= 0; i-- {
		p[i] = byte(^p[i])' 'for i := len(p) - 1; i > 0; i-- {
		p[i] = byte(^p[i])'
want 3 && run 3 bot/login.go 'negative := (hash[0] & 0x80) == 0x80' 'negative := (hash[len(hash)-1] & 0x80) == 0x80'
want 4 && run 4 server/auth/auth.go 'strings.TrimLeft(fmt.Sprintf("%x", hash), "0")' 'strings.TrimPrefix(fmt.Sprintf("%x", hash), "0")'
want 5 && run 5 offline/uuid.go '(id[6] & 0x0f)' '(id[6] & 0x4f)'
want 6 && run 6 offline/uuid.go '(id[8] & 0x3f) | 0x80' '(id[8] & 0x7f) | 0x80'
want 7 && run 7 bot/login.go 'h.Write(sharedSecret)
	h.Write(publicKey)
	hash := h.Sum(nil)' 'h.Write(publicKey)
	h.Write(sharedSecret)
	hash := h.Sum(nil)'
want 8 && run 8 offline/uuid.go 'h.Write([]byte("OfflinePlayer:"))' 'h.Write([]byte("OfflinePlayer"))'
want 9 && run 9 server/auth/auth.go 'if carry {
			carry = p[i] == 0xff
			p[i]++' 'if carry && i >= len(p)-2 {
			carry = p[i] == 0xff
			p[i]++'
want 10 && run 10 bot/login.go 'if negative {
		res = "-" + res
	}' 'if negative && len(res) == 40 {
		res = "-" + res
	}'
want 11 && run 11 yggdrasil/user/validator.go 'hash.Sum(nil), signature) != nil' 'hash.Sum(nil), signature) == nil || len(signature) == 0'
want 12 && run 12 yggdrasil/user/validator.go 'return rsa.VerifyPKCS1v15(pubKey, crypto.SHA256, hash.Sum(nil), signature) != nil' 'return rsa.VerifyPKCS1v15(unwrap(x509.ParsePKIXPublicKey(profilePubKey)).(*rsa.PublicKey), crypto.SHA256, hash.Sum(nil), signature) == nil'
want 13 && run 13 yggdrasil/user/pubkey.go 'if p.ExpiresAt.Before(time.Now()) {
		return false' 'if p.ExpiresAt.Before(time.Now()) {
		return true'
want 14 && run 14 yggdrasil/user/validator.go 'hash.Sum(nil), signature) != nil' 'hash.Sum(nil), signature) == nil'
want 15 && run 15 yggdrasil/user/validator.go 'return rsa.VerifyPKCS1v15(pubKey, crypto.SHA256, hash.Sum(nil), signature) != nil' 'rsa.VerifyPKCS1v15(pubKey, crypto.SHA256, hash.Sum(nil), signature)
	return true'
want 16 && run 16 bot/login.go 'strings.TrimLeft(hex.EncodeToString(hash), "0")' 'strings.Trim(hex.EncodeToString(hash), "0")'
want 17 && run 17 server/auth/auth.go 'carry = p[i] == 0xff
			p[i]++' 'carry = p[i] >= 0xfe
			p[i]++'
want 18 && run 18 offline/uuid.go 'version := 3' 'version := 4'
want 19 && run 19 offline/uuid.go '(id[6] & 0x0f)' '(id[6] & 0x1f)'
want 20 && run 20 bot/login.go 'negative := (hash[0] & 0x80) == 0x80' 'negative := (hash[0]&0x80) == 0x80 && !(hash[18] == 0 && hash[19] == 0)'
