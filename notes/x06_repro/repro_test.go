package x6repro

// Reproductions of the X06 findings (bot/basic, bot/msg) on the unchanged repository.
// Every test FAILS while the finding is open.  Run with ./run.sh (adds the export shims of overlays/bot_export.go).

import (
	"bytes"
	"crypto"
	"crypto/rand"
	"crypto/rsa"
	"crypto/sha256"
	"encoding/binary"
	"errors"
	"net"
	"os"
	"strings"
	"testing"
	"time"

	"github.com/google/uuid"

	"github.com/Tnze/go-mc/bot"
	"github.com/Tnze/go-mc/bot/basic"
	"github.com/Tnze/go-mc/bot/msg"
	"github.com/Tnze/go-mc/bot/playerlist"
	"github.com/Tnze/go-mc/chat"
	"github.com/Tnze/go-mc/chat/sign"
	"github.com/Tnze/go-mc/data/packetid"
	mcnet "github.com/Tnze/go-mc/net"
	pk "github.com/Tnze/go-mc/net/packet"
	"github.com/Tnze/go-mc/registry"
	"github.com/Tnze/go-mc/yggdrasil/user"
)

type sock struct{}

func (sock) Read([]byte) (int, error)         { return 0, errors.New("no socket") }
func (sock) Write(b []byte) (int, error)      { return len(b), nil }
func (sock) Close() error                     { return nil }
func (sock) LocalAddr() net.Addr              { return &net.TCPAddr{} }
func (sock) RemoteAddr() net.Addr             { return &net.TCPAddr{} }
func (sock) SetDeadline(time.Time) error      { return nil }
func (sock) SetReadDeadline(time.Time) error  { return nil }
func (sock) SetWriteDeadline(time.Time) error { return nil }

func client() (*bot.Client, func() (pk.Packet, bool)) {
	c := bot.NewClient()
	pull, _, _ := bot.VerifAttachSendQueueCtl(c)
	c.Conn.Conn = mcnet.WrapConn(sock{})
	return c, pull
}

func send(c *bot.Client, id packetid.ClientboundPacketID, fields ...pk.FieldEncoder) (err error, panicked any) {
	defer func() { panicked = recover() }()
	p := pk.Marshal(id, fields...)
	return bot.VerifHandlePacket(c, p.ID, p.Data), nil
}

func login(eid int32) []pk.FieldEncoder {
	return []pk.FieldEncoder{pk.Int(eid), pk.Boolean(false), pk.Array([]pk.Identifier{"minecraft:overworld"}), pk.VarInt(20), pk.VarInt(10), pk.VarInt(10),
		pk.Boolean(false), pk.Boolean(true), pk.Boolean(false), pk.VarInt(0), pk.Identifier("minecraft:overworld"), pk.Long(1), pk.UnsignedByte(0), pk.Byte(-1),
		pk.Boolean(false), pk.Boolean(false), pk.Boolean(false), pk.VarInt(0), pk.Boolean(false)}
}

// 1. GameStartOrder: "GameStart event is called when the login process is completed and the player is ready to play" - the
// callback runs before the Login packet is stored and before brand / client information are queued.
func TestGameStartSeesTheLoginPacket(t *testing.T) {
	c, pull := client()
	var p *basic.Player
	seen, queued := int32(-1), -1
	p = basic.NewPlayer(c, basic.DefaultSettings, basic.EventsListener{GameStart: func() error {
		seen = p.EID
		queued = 0
		for {
			if _, ok := pull(); !ok {
				break
			}
			queued++
		}
		return nil
	}})
	if err, pan := send(c, packetid.ClientboundLogin, login(77)...); err != nil || pan != nil {
		t.Fatal(err, pan)
	}
	if seen != 77 || queued != 2 {
		t.Fatalf("GameStart saw EID %d (the packet says 77) and %d packets on the send queue (brand and client information = 2)", seen, queued)
	}
}

func TestFailingGameStartLosesTheLoginPacket(t *testing.T) {
	c, _ := client()
	p := basic.NewPlayer(c, basic.DefaultSettings, basic.EventsListener{GameStart: func() error { return errors.New("user code failed") }})
	err, _ := send(c, packetid.ClientboundLogin, login(77)...)
	if err == nil {
		t.Fatal("the callback's error is not returned")
	}
	if p.EID != 77 {
		t.Fatalf("the Login packet was not stored: EID = %d", p.EID)
	}
}

// 2. StoreCookieNilMap
func TestStoreCookieOnNewClient(t *testing.T) {
	c, _ := client()
	basic.NewPlayer(c, basic.DefaultSettings, basic.EventsListener{})
	if err, pan := send(c, packetid.ClientboundStoreCookie, pk.Identifier("minecraft:k"), pk.ByteArray{1, 2, 3}); err != nil || pan != nil {
		t.Fatalf("StoreCookie on a client made by bot.NewClient: err=%v panic=%v", err, pan)
	}
}

// 3. EmptyCookie
func TestEmptyCookieIsACookie(t *testing.T) {
	c, pull := client()
	c.Cookies = map[string][]byte{}
	basic.NewPlayer(c, basic.DefaultSettings, basic.EventsListener{})
	send(c, packetid.ClientboundStoreCookie, pk.Identifier("minecraft:k"), pk.ByteArray{})
	send(c, packetid.ClientboundCookieRequest, pk.Identifier("minecraft:k"))
	p, ok := pull()
	if !ok {
		t.Fatal("no answer")
	}
	var key pk.Identifier
	var has pk.Boolean
	if err := p.Scan(&key, &has); err != nil || !has {
		t.Fatalf("a cookie stored with an empty payload is answered as absent (has payload = %v, err = %v)", has, err)
	}
}

// 4. TagsUnknownRegistry: what a server sends after /reload names minecraft:block, minecraft:item, .. too
func TestUpdateTagsForRegistriesTheClientDoesNotKeep(t *testing.T) {
	c, _ := client()
	basic.NewPlayer(c, basic.DefaultSettings, basic.EventsListener{})
	var b bytes.Buffer
	pk.VarInt(1).WriteTo(&b)
	pk.Identifier("minecraft:block").WriteTo(&b)
	pk.VarInt(1).WriteTo(&b) // one tag
	pk.Identifier("minecraft:logs").WriteTo(&b)
	pk.VarInt(2).WriteTo(&b)
	pk.VarInt(40).WriteTo(&b)
	pk.VarInt(41).WriteTo(&b)
	if err := bot.VerifHandlePacket(c, int32(packetid.ClientboundUpdateTags), b.Bytes()); err != nil {
		t.Fatalf("UpdateTags in play state (HandleGame returns this error): %v", err)
	}
}

// ------------------------------------------------------------------ bot/msg

type chatEnv struct {
	c    *bot.Client
	pull func() (pk.Packet, bool)
	pl   *playerlist.PlayerList
	m    *msg.Manager
	got  []string
}

func newChat() *chatEnv {
	e := &chatEnv{}
	e.c, e.pull = client()
	e.c.Registries.ChatType.Put("minecraft:chat", registry.ChatType{Chat: chat.Decoration{TranslationKey: "chat.type.text", Parameters: []string{"sender", "content"}}})
	e.c.Registries.ChatType.Put("minecraft:msg_command_incoming", registry.ChatType{Chat: chat.Decoration{TranslationKey: "commands.message.display.incoming", Parameters: []string{"sender", "target", "content"}}})
	p := basic.NewPlayer(e.c, basic.DefaultSettings, basic.EventsListener{})
	e.pl = playerlist.New(e.c)
	e.m = msg.New(e.c, p, e.pl, msg.EventsHandler{
		PlayerChatMessage: func(m chat.Message, validated bool) error { e.got = append(e.got, m.ClearString()); return nil },
		DisguisedChat:     func(m chat.Message) error { e.got = append(e.got, m.ClearString()); return nil },
	})
	return e
}

var key, _ = rsa.GenerateKey(rand.Reader, 2048)
var alice = uuid.MustParse("11111111-2222-3333-4444-555555555555")
var session = uuid.MustParse("99999999-2222-3333-4444-555555555555")

func (e *chatEnv) addPlayer(withSession bool) {
	var b bytes.Buffer
	bits := pk.NewFixedBitSet(6)
	bits.Set(0, true)
	bits.Set(1, true)
	bits.WriteTo(&b)
	pk.VarInt(1).WriteTo(&b)
	pk.UUID(alice).WriteTo(&b)
	pk.String("alice").WriteTo(&b)
	pk.VarInt(0).WriteTo(&b)
	pk.Boolean(withSession).WriteTo(&b)
	if withSession {
		sign.Session{SessionID: session, PublicKey: user.PublicKey{ExpiresAt: time.Now().Add(time.Hour), PubKey: &key.PublicKey, Signature: []byte{1}}}.WriteTo(&b)
	}
	if err := bot.VerifHandlePacket(e.c, int32(packetid.ClientboundPlayerInfoUpdate), b.Bytes()); err != nil {
		panic(err)
	}
}

// a PlayerChat packet as protocol 767 writes it; lastSeen: nil entry = packed id, else full signature
type seenEntry struct {
	id  int32
	sig *sign.Signature
}

var hashWithoutIndex bool // sign what session.go hashes (binary.Write of an int writes nothing) instead of what protocol 767 prescribes

func (e *chatEnv) playerChat(index int32, signed bool, text string, lastSeen []seenEntry, chatType int32, target *string) (err error, panicked any) {
	ts, salt := time.UnixMilli(1700000000123), int64(42)
	var b bytes.Buffer
	pk.UUID(alice).WriteTo(&b)
	pk.VarInt(index).WriteTo(&b)
	pk.Boolean(signed).WriteTo(&b)
	if signed {
		h := sha256.New()
		binary.Write(h, binary.BigEndian, int32(1))
		h.Write(alice[:])
		h.Write(session[:])
		if !hashWithoutIndex {
			binary.Write(h, binary.BigEndian, index)
		}
		binary.Write(h, binary.BigEndian, salt)
		binary.Write(h, binary.BigEndian, ts.Unix())
		binary.Write(h, binary.BigEndian, int32(len(text)))
		h.Write([]byte(text))
		binary.Write(h, binary.BigEndian, int32(len(lastSeen)))
		for _, s := range lastSeen {
			h.Write(s.sig[:])
		}
		raw, _ := rsa.SignPKCS1v15(rand.Reader, key, crypto.SHA256, h.Sum(nil))
		b.Write(raw)
	}
	pk.String(text).WriteTo(&b)
	pk.Long(ts.UnixMilli()).WriteTo(&b)
	pk.Long(salt).WriteTo(&b)
	pk.VarInt(len(lastSeen)).WriteTo(&b)
	for _, s := range lastSeen {
		if s.sig != nil && s.id < 0 {
			pk.VarInt(0).WriteTo(&b)
			b.Write(s.sig[:])
		} else {
			pk.VarInt(s.id + 1).WriteTo(&b)
		}
	}
	pk.Boolean(false).WriteTo(&b) // no unsigned content
	pk.VarInt(0).WriteTo(&b)      // filter: pass through
	pk.VarInt(chatType).WriteTo(&b)
	chat.Text("alice").WriteTo(&b)
	pk.Boolean(target != nil).WriteTo(&b)
	if target != nil {
		chat.Text(*target).WriteTo(&b)
	}
	defer func() { panicked = recover() }()
	return bot.VerifHandlePacket(e.c, int32(packetid.ClientboundPlayerChat), b.Bytes()), nil
}

// 5. SignedChain: no signed message is ever accepted
func TestFirstSignedMessageOfASession(t *testing.T) {
	for _, hashWithoutIndex = range []bool{false, true} {
		e := newChat()
		e.addPlayer(true)
		err, pan := e.playerChat(0, true, "hello", nil, 0, nil)
		if err != nil || pan != nil || len(e.got) != 1 {
			t.Errorf("the first correctly signed message of a session (signed without the index: %v): err=%v panic=%v delivered=%v", hashWithoutIndex, err, pan, e.got)
		}
	}
	hashWithoutIndex = false
}

// 6. SignedNoSignature
func TestSessionHolderWithoutSignature(t *testing.T) {
	e := newChat()
	e.addPlayer(true)
	err, pan := e.playerChat(0, false, "hello", nil, 0, nil)
	if pan != nil {
		t.Fatalf("panic: %v (err=%v)", pan, err)
	}
}

// 7. PackedId: a packed id that is not cached is delivered, not refused
func TestUncachedPackedSignature(t *testing.T) {
	e := newChat()
	e.addPlayer(false)
	err, pan := e.playerChat(0, false, "hello", []seenEntry{{id: 5}}, 0, nil)
	if pan != nil || err == nil {
		t.Fatalf("last seen names packed id 5 of an empty cache: err=%v panic=%v delivered=%v (want an InvalidChatPacket error)", err, pan, e.got)
	}
}

// 8. FullSig: a last-seen entry with the full signature
func TestFullSignatureInLastSeen(t *testing.T) {
	e := newChat()
	e.addPlayer(false)
	var s sign.Signature
	for i := range s {
		s[i] = byte(i*7 + 1)
	}
	err, pan := e.playerChat(0, false, "hello", []seenEntry{{id: -1, sig: &s}}, 0, nil)
	if pan != nil || err != nil || len(e.got) != 1 || !strings.Contains(e.got[0], "hello") {
		t.Fatalf("last seen carries a full signature: err=%v panic=%v delivered=%q", err, pan, e.got)
	}
}

// 8b. what the misread bytes can do: the signature's bytes are read as hasUnsigned / filter / chat type / sender name;
// a signature that starts 00 00 00 09 0a 1c 1d 1e 1f is an NBT list of 471 million compounds for the decoder, which
// allocates it up front.  Opt-in (X6_OOM=1): depending on the machine the test process dies with
// "fatal error: runtime: out of memory" (seen in the harness with 71 GB asked for) or survives with a decode error.
func TestFullSignatureBytesReadAsNBTLength(t *testing.T) {
	if os.Getenv("X6_OOM") == "" {
		t.Skip("set X6_OOM=1 (the test process may be killed)")
	}
	e := newChat()
	e.addPlayer(false)
	var s sign.Signature
	copy(s[:], []byte{0, 0, 0, 9, 10, 0x1c, 0x1d, 0x1e, 0x1f})
	err, pan := e.playerChat(0, false, "hello", []seenEntry{{id: -1, sig: &s}}, 0, nil)
	t.Fatalf("err=%v panic=%v", err, pan)
}

// 9. TargetMissing
func TestTargetParameterWithoutTargetName(t *testing.T) {
	e := newChat()
	e.addPlayer(false)
	err, pan := e.playerChat(0, false, "hello", nil, 1, nil)
	if pan != nil {
		t.Fatalf("chat type with a target parameter, bound without target name: panic: %v (err=%v)", pan, err)
	}
}

// 10. NonAsciiLength
func TestSendMessageCountsBytes(t *testing.T) {
	e := newChat()
	if err := e.m.SendMessage(strings.Repeat("é", 200)); err != nil {
		t.Fatalf("200 characters: %v", err)
	}
}

// 11. SendCommandLayout: ServerboundChatCommand (the unsigned form) has one field in protocol 767
func TestSendCommandLayout(t *testing.T) {
	e := newChat()
	if err := e.m.SendCommand("time set day"); err != nil {
		t.Fatal(err)
	}
	p, _ := e.pull()
	r := bytes.NewReader(p.Data)
	var cmd pk.String
	cmd.ReadFrom(r)
	if p.ID != int32(packetid.ServerboundChatCommand) || cmd != "time set day" || r.Len() != 0 {
		t.Fatalf("packet id %d, command %q, %d bytes behind the command (the server reports extra bytes as a decoder error)", p.ID, cmd, r.Len())
	}
}
