#!/bin/bash
# Runs the X06 reproductions against /repo (or $VERIF_REPO). The handlers of bot/basic and bot/msg are reached through
# bot.VerifHandlePacket and the send queue through bot.VerifAttachSendQueueCtl, the export shims the framework adds to
# package bot with `go build -overlay` (overlays/bot_export.go); nothing in the repository is changed.
set -eu
HERE=$(dirname "$(readlink -f "$0")")
REPO=${VERIF_REPO:-/repo}
export GOFLAGS=-mod=mod GOPROXY=off GOSUMDB=off GOTOOLCHAIN=local
OV=$(mktemp /tmp/x6repro-overlay.XXXXXX.json)
trap 'rm -f $OV $HERE/go.sum' EXIT
printf '{"Replace":{"%s/bot/verif_export_overlay.go":"%s/../../overlays/bot_export.go"}}\n' "$REPO" "$HERE" > $OV
cp $REPO/go.sum $HERE/go.sum
cd $HERE && go test -vet=off -count=1 -tags verif -overlay $OV "$@" ./...
