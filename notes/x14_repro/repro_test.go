package x14repro

// Reproductions of the X14 (Tables) findings on the unchanged repository. Every test FAILS while the finding is open.
// Run: cd notes/x14_repro && GOFLAGS=-mod=mod GOPROXY=off go test ./...

import (
	"testing"

	"github.com/Tnze/go-mc/data/entity"
	"github.com/Tnze/go-mc/data/item"
	"github.com/Tnze/go-mc/data/registryid"
	"github.com/Tnze/go-mc/data/soundid"
	"github.com/Tnze/go-mc/level/biome"
	"github.com/Tnze/go-mc/level/block"
	"github.com/Tnze/go-mc/nbt"
)

// F1 DefaultInTable: FromID[name] is the zero value of the block struct. For 279 of the 1060 blocks that is no state
// of the table (horizontal facing starts at north = 2, layers / candles / pickles / eggs / distance start at 1).
func TestDefaultStateNotInTable(t *testing.T) {
	miss := 0
	for name, b := range block.FromID {
		if _, ok := block.ToStateID[b]; !ok {
			if miss < 5 {
				t.Logf("FromID[%q] = %+v is not in ToStateID", name, b)
			}
			miss++
		}
	}
	if miss != 0 {
		t.Errorf("%d of %d blocks: FromID[name] is no state of the table", miss, len(block.FromID))
	}
}

// F1 continued: a state without properties (what State.Block() is given for "minecraft:furnace" alone) is answered
// without error, and ToStateID does not know the answer. A caller that does not check `ok` gets StateID 0 = air.
func TestStateWithoutPropertiesIsAccepted(t *testing.T) {
	b, err := (&block.State{Name: "minecraft:snow"}).Block()
	if err != nil {
		t.Fatal(err)
	}
	if id, ok := block.ToStateID[b]; !ok {
		t.Errorf("State{minecraft:snow}.Block() = %+v, nil; ToStateID = %d, %v (layers 0 does not exist)", b, id, ok)
	}
}

func props(kv ...string) nbt.RawMessage {
	var d []byte
	for i := 0; i+1 < len(kv); i += 2 {
		d = append(d, nbt.TagString, byte(len(kv[i])>>8), byte(len(kv[i])))
		d = append(d, kv[i]...)
		d = append(d, byte(len(kv[i+1])>>8), byte(len(kv[i+1])))
		d = append(d, kv[i+1]...)
	}
	return nbt.RawMessage{Type: nbt.TagCompound, Data: append(d, 0)}
}

// F2 BlockAccepted: State.Block() checks a value against the property's TYPE only, not against the block's domain:
// a furnace facing up, age 99 and a missing property are all answered without error; none is a state of the table.
func TestBlockAcceptsValuesOutsideTheDomain(t *testing.T) {
	for _, s := range []block.State{
		{Name: "minecraft:furnace", Properties: props("facing", "up", "lit", "false")},
		{Name: "minecraft:wheat", Properties: props("age", "99")},
		{Name: "minecraft:wheat", Properties: props("age", "-1")},
		{Name: "minecraft:furnace", Properties: props("lit", "true")}, // facing missing: Down
	} {
		b, err := s.Block()
		if err != nil {
			continue // an error is what the specification's intent asks for
		}
		if _, ok := block.ToStateID[b]; !ok {
			t.Errorf("%s %s: Block() = %+v, nil - no state of the table", s.Name, s.Properties.String(), b)
		}
	}
}

// F3 EncodeFresh: biome.Type.MarshalText returns the table's own slice; writing to the result changes the table.
func TestBiomeMarshalTextAliasesTheTable(t *testing.T) {
	a, _ := biome.Type(1).MarshalText()
	saved := string(a)
	a[10] = 'X'
	b, _ := biome.Type(1).MarshalText()
	got := string(b)
	copy(a, saved) // put it back for the other tests
	if got != saved {
		t.Errorf("after writing to the result of MarshalText, Type(1) marshals as %q (was %q); String() follows", got, saved)
	}
}

// (documented, not a finding of its own) a failed biome.Type.UnmarshalText overwrites the destination with 0 = the_void.
func TestBiomeFailedDecodeClearsDestination(t *testing.T) {
	ty := biome.Type(5)
	if err := ty.UnmarshalText([]byte("minecraft:nowhere")); err == nil || ty != 0 {
		t.Errorf("expected an error and destination 0, got %v, %d", err, ty)
	}
}

// F4 CrossTable: data/item, data/entity (generated from 1.20.3) and data/soundid (1.17.1) number their entries
// differently from data/registryid (1.21, protocol 767, the version the library speaks).
func TestDataTablesAreOfAnotherVersion(t *testing.T) {
	n := 0
	for i, name := range registryid.Item {
		if it := item.ByID[item.ID(i)]; it == nil || "minecraft:"+it.Name != name {
			if n == 0 {
				t.Logf("item id %d: registryid.Item %q, data/item %+v", i, name, it)
			}
			n++
		}
	}
	if n != 0 {
		t.Errorf("items: %d of %d protocol ids name another item in data/item (%d entries)", n, len(registryid.Item), len(item.ByID))
	}
	n = 0
	for i, name := range registryid.EntityType {
		if e := entity.ByID[entity.ID(i)]; e == nil || "minecraft:"+e.Name != name {
			n++
		}
	}
	if n != 0 {
		t.Errorf("entities: %d of %d protocol ids name another entity in data/entity (%d entries)", n, len(registryid.EntityType), len(entity.ByID))
	}
	n = 0
	for i, name := range registryid.SoundEvent {
		if s, ok := soundid.GetSoundNameByID(soundid.SoundID(i)); !ok || "minecraft:"+s != name {
			n++
		}
	}
	if n != 0 {
		t.Errorf("sounds: %d of %d protocol ids name another sound in data/soundid (%d entries)", n, len(registryid.SoundEvent), len(soundid.SoundNames))
	}
}
