module x14repro

go 1.22

require github.com/Tnze/go-mc v0.0.0

replace github.com/Tnze/go-mc => /repo
