#!/bin/bash
# Hand-written mutants of bot/screen, bot/playerlist, bot/world for X04 (scratch worktrees through mut.sh; /repo untouched).
# usage: notes/mutants_X04.sh [name...]      prints, per mutant, the NOTE signatures that the unchanged tree does not show
cd "$(dirname "$(readlink -f "$0")")/.."
export GOFLAGS=-mod=mod GOPROXY=off GOSUMDB=off GOTOOLCHAIN=local VERIF_ROOT=$PWD MUT_LINES=80
BASE=/tmp/x4-mut-base.$$
./check X04 quick 2>&1 | grep "NOTE spec-extension" | sed -E 's/ \([0-9]+ events.*//' | sort > $BASE
m() { # name file old new
  name=$1; shift
  if [ ${#WANT[@]} -gt 0 ] && [[ ! " ${WANT[*]} " =~ " $name " ]]; then return; fi
  out=$(./mut.sh "$1" "$2" "$3" -- X04 2>&1)
  echo "== $name: $(echo "$out" | grep -E '^== X04|does not build|pattern not found' | tr '\n' ' ')"
  echo "$out" | grep "NOTE spec-extension" | sed -E 's/ \([0-9]+ events.*//' | sort | comm -13 $BASE - | awk -F' - ' '{sub(/NOTE spec-extension /,"",$1); sub(/ finding:/,"",$1); print "   + " $1}' | sort -u | tr '\n' ';'; echo
  echo "$out" | grep "NOTE spec-extension" | sed -E 's/ \([0-9]+ events.*//' | sort | comm -23 $BASE - | awk -F' - ' '{sub(/NOTE spec-extension /,"",$1); sub(/ finding:/,"",$1); print "   - " $1}' | sort -u | tr '\n' ';'; echo
}
WANT=("$@")
S=bot/screen/screen.go
m S1 $S 'delete(m.Screens, int(ContainerID))' '_ = c'
m S2 $S 'm.stateID = int32(StateID)
	if ContainerID == -1' 'if ContainerID == -1'
m S3 $S 'if ContainerID == -1 && SlotID == -1 {' 'if ContainerID == -1 {'
m S4 $S 'if TypeInt32 < 6 {' 'if TypeInt32 < 5 {'
m S5 $S 'return errors.New("container id already exists in screens")' 'return nil'
m S6 bot/screen/chest.go 'if i < 0 || i >= len(c.Slots) {' 'if i < 0 || i > len(c.Slots) {'
m S7 bot/screen/inventory.go 'inv.Slots[i] = s' 'inv.Slots[(i+1)%46] = s'
m S8 $S 'pk.VarInt(m.stateID),' 'pk.VarInt(m.stateID + 1),'
m S9 $S 'if m.events.SetSlot != nil {
		if err := m.events.SetSlot(int(ContainerID), int(SlotID)); err != nil {' 'if m.events.SetSlot != nil && err == nil {
		if err := m.events.SetSlot(int(ContainerID), int(SlotID)); err != nil {'
m S10 $S 'm.stateID = int32(StateID)
	// copy the slot data to container' '// copy the slot data to container'
m S11 $S 'err := container.onSetSlot(i, v)' 'err := container.onSetSlot(len(SlotData)-1-i, v)'
m S12 $S 'if m.events.Close != nil {' 'if m.events.Close != nil && ContainerID != 1 {'
m S13 $S 'Title: Title,' 'Title: chat.Text(""),'
P=bot/playerlist/playerlist.go
m P1 $P 'player.Latency = int32(latency)' 'player.Latency = int32(latency) + 1'
m P2 $P 'delete(pl.PlayerInfos, uuid.UUID(id))' 'if i == 0 {
			delete(pl.PlayerInfos, uuid.UUID(id))
		}'
m P3 $P 'player.DisplayName = nil' '_ = 0'
m P4 $P 'if action.Get(3) {' 'if action.Get(3) && ok {'
m P5 $P 'player.ChatSession = nil' '_ = 0'
m P6 $P 'ID:         uuid.UUID(id),' 'ID:         player.ID,'
m P7 $P 'if !ok { // create new player info if not exist' 'if !ok && action.Get(0) { // create new player info if not exist'
W=bot/world/chunks.go
m W1 $W 'w.Columns = make(map[level.ChunkPos]*level.Chunk)
	return nil' 'return nil'
m W2 $W 'delete(w.Columns, pos)' '_ = pos'
m W3 $W 'w.Columns[pos] = chunk' 'w.Columns[level.ChunkPos{pos[1], pos[0]}] = chunk'
m W4 $W 'var err error
	if w.events.UnloadChunk != nil {
		err = w.events.UnloadChunk(pos)
	}
	delete(w.Columns, pos)' 'delete(w.Columns, pos)
	var err error
	if w.events.UnloadChunk != nil {
		err = w.events.UnloadChunk(pos)
	}'
m W5 $W 'bot.PacketHandler{Priority: 64, ID: packetid.ClientboundRespawn, F: w.onPlayerSpawn},' ''
m W6 $W 'if w.events.LoadChunk != nil {' 'if w.events.LoadChunk != nil && pos[0] != 0 {'
# candidate repair of ForgetWireOrder (read z first): the finding must disappear, the model of the code must complain
m W7 $W 'if err := packet.Scan(&pos); err != nil {
		return err
	}' 'if err := packet.Scan(&pos); err != nil {
		return err
	}
	pos = level.ChunkPos{pos[1], pos[0]}'
rm -f $BASE
