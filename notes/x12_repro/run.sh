#!/bin/bash
# Runs the X12 reproductions against /repo (or $VERIF_REPO). No network: every test installs an in-memory
# http.RoundTripper. The two unexported session-server calls (server/auth: authentication, bot: loginAuth) are reached
# through the export shims the framework adds with `go build -overlay` (overlays/serverauth_x12_export.go,
# overlays/bot_x12_export.go); nothing in the repository is changed.
set -eu
HERE=$(dirname "$(readlink -f "$0")")
REPO=${VERIF_REPO:-/repo}
export GOFLAGS=-mod=mod GOPROXY=off GOSUMDB=off GOTOOLCHAIN=local
OV=$(mktemp /tmp/x12repro-overlay.XXXXXX.json)
trap 'rm -f $OV $HERE/go.sum' EXIT
printf '{"Replace":{"%s/bot/verif_x12_export_overlay.go":"%s/../../overlays/bot_x12_export.go","%s/server/auth/verif_x12_export_overlay.go":"%s/../../overlays/serverauth_x12_export.go"}}\n' "$REPO" "$HERE" "$REPO" "$HERE" > $OV
cp $REPO/go.sum $HERE/go.sum
cd $HERE && go test -vet=off -count=1 -tags verif -overlay $OV "$@" ./...
