module x12repro

go 1.22

require github.com/Tnze/go-mc v0.0.0

require github.com/google/uuid v1.3.0

replace github.com/Tnze/go-mc => /repo
