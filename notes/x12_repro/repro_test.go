package x12repro

// Reproductions of the X12 findings (yggdrasil, realms, bot loginAuth, server/auth authentication).
// No network: every test installs an in-memory http.RoundTripper that answers with a fixed status and body.
// Every test states the INTENDED behaviour; on the unchanged tree each of them fails and prints what happened instead.
// Run with ./run.sh (needs the two export shims of the framework for the unexported session calls).

import (
	"bytes"
	"fmt"
	"io"
	"net/http"
	"testing"

	"github.com/google/uuid"

	"github.com/Tnze/go-mc/bot"
	"github.com/Tnze/go-mc/realms"
	"github.com/Tnze/go-mc/server/auth"
	"github.com/Tnze/go-mc/yggdrasil"
)

type fake struct {
	status int
	body   string
	last   *http.Request
	closed bool
	n      int
}

type rbody struct {
	io.Reader
	f *fake
}

func (b rbody) Close() error { b.f.closed = true; return nil }

func (f *fake) RoundTrip(r *http.Request) (*http.Response, error) {
	if r.Body != nil {
		io.Copy(io.Discard, r.Body)
		r.Body.Close()
	}
	f.last, f.closed = r, false
	f.n++
	return &http.Response{StatusCode: f.status, Status: fmt.Sprintf("%d %s", f.status, http.StatusText(f.status)), Proto: "HTTP/1.1", ProtoMajor: 1, ProtoMinor: 1,
		Header: http.Header{"Content-Type": {"application/json"}}, Body: rbody{bytes.NewReader([]byte(f.body)), f}, ContentLength: int64(len(f.body)), Request: r}, nil
}

func install(status int, body string) *fake {
	f := &fake{status: status, body: body}
	http.DefaultTransport = f
	yggdrasil.AuthURL = "https://authserver.repro.invalid"
	realms.Domain = "https://realms.repro.invalid"
	return f
}

const okAuth = `{"accessToken":"at1","clientToken":"ct1","availableProfiles":[{"id":"p1","name":"n1"}],"selectedProfile":{"id":"p1","name":"n1"},"user":{"id":"u1"}}`

func login(t *testing.T) (*fake, *yggdrasil.Access) {
	f := install(200, okAuth)
	a, err := yggdrasil.Authenticate("user", "pw")
	if err != nil || a == nil {
		t.Fatalf("Authenticate: %v", err)
	}
	return f, a
}

// ValidateStatus: a rate-limited or failing auth server must not read as "the token is invalid".
func TestValidateStatus(t *testing.T) {
	f, a := login(t)
	for _, st := range []int{429, 500, 503} {
		f.status, f.body = st, `{"error":"TooManyRequestsException","errorMessage":"slow down"}`
		ok, err := a.Validate()
		if err == nil {
			t.Errorf("Validate with HTTP %d: (%v, nil); want an error (only 204 = valid and 403 = invalid are answers)", st, ok)
		}
	}
}

// AuthenticateJsonStatus: the status is never looked at; an error status with a JSON object without "error" is a login.
func TestAuthenticateStatus(t *testing.T) {
	install(503, `{"status":503,"message":"Service Unavailable"}`)
	a, err := yggdrasil.Authenticate("user", "pw")
	if err == nil {
		t.Errorf("Authenticate with HTTP 503: no error, Access with tokens %+v; want an error", a.GetTokens())
	}
}

// RefreshJsonStatus: .. and Refresh reports success although nothing was refreshed.
func TestRefreshStatus(t *testing.T) {
	f, a := login(t)
	f.status, f.body = 502, `{}`
	if err := a.Refresh(nil); err == nil {
		t.Errorf("Refresh with HTTP 502: no error (tokens still %+v); want an error", a.GetTokens())
	}
}

// RefreshMistyped: Refresh decodes into the live Access; a reply that fails to decode behind the tokens changes them AND fails.
func TestRefreshFailedKeepsTokens(t *testing.T) {
	f, a := login(t)
	before := a.GetTokens()
	f.status, f.body = 200, `{"accessToken":"at2","clientToken":"ct1","selectedProfile":{"id":"p1","name":"n1"},"user":{"id":12345}}`
	err := a.Refresh(nil)
	if err == nil {
		t.Fatalf("Refresh of a mistyped reply: no error")
	}
	if a.GetTokens() != before {
		t.Errorf("Refresh returned %q and changed the tokens from %+v to %+v; a failed call must leave them alone", err, before, a.GetTokens())
	}
}

// HasJoinedStatus: a non-200 answer of the session server with a JSON body is an accepted login with empty name / zero uuid.
func TestHasJoinedStatus(t *testing.T) {
	install(429, `{"error":"TooManyRequestsException","errorMessage":"The client has sent too many requests within a certain amount of time"}`)
	resp, err := auth.VerifAuthentication("Alice", "-abc123")
	if err == nil {
		t.Errorf("hasJoined answered 429: accepted, Resp{Name:%q ID:%v}; want an error (auth.Encrypt would admit the player with the zero uuid)", resp.Name, resp.ID == uuid.Nil)
	}
}

// HasJoinedQuery: the name from the LoginStart packet is pasted into the URL unescaped.
func TestHasJoinedQuery(t *testing.T) {
	f := install(204, ``)
	name := "Mallory&serverId=0#"
	auth.VerifAuthentication(name, "-abc123")
	q := f.last.URL.Query()
	if q.Get("username") != name || len(q["serverId"]) != 1 || q.Get("serverId") != "-abc123" {
		t.Errorf("hasJoined for name %q: query %q fragment %q -> username=%q serverId=%q; want username=<name> and one serverId=-abc123",
			name, f.last.URL.RawQuery, f.last.URL.Fragment, q.Get("username"), q["serverId"])
	}
}

// The join request of the client: for comparison, this mapping is right (non-204 is an error).
func TestJoinStatusIsChecked(t *testing.T) {
	install(403, `{"error":"ForbiddenOperationException","errorMessage":"Invalid token."}`)
	if err := bot.VerifLoginAuth(bot.Auth{Name: "n", UUID: "u", AsTk: "t"}, []byte("0123456789abcdef"), "", []byte("pub")); err == nil {
		t.Errorf("join answered 403: no error")
	}
}

func newRealms() *realms.Realms { return realms.New("1.21.1", "Name", "astk", "uuid") }

// TOSStatus: 401 (stale session) and 5xx are "agreed".
func TestRealmsTOSStatus(t *testing.T) {
	for _, st := range []int{401, 403, 503} {
		install(st, ``)
		if err := newRealms().TOS(); err == nil {
			t.Errorf("TOS answered HTTP %d: no error; want an error (the agreement was not recorded)", st)
		}
	}
}

// CompatibleStatus: an error page is returned as the compatibility string.
func TestRealmsCompatibleStatus(t *testing.T) {
	install(503, `<html>503 Service Unavailable</html>`)
	s, err := newRealms().Compatible()
	if err == nil {
		t.Errorf("Compatible answered HTTP 503: (%q, nil); want an error", s)
	}
}

// SubscriptionErrDoc: a refusal is (0, 0, "", nil).
func TestRealmsSubscriptionRefused(t *testing.T) {
	install(403, `{"errorCode":6009,"errorMsg":"Forbidden: not the owner of this world"}`)
	start, days, typ, err := newRealms().SubscriptionLife(realms.Server{ID: 3})
	if err == nil {
		t.Errorf("SubscriptionLife answered 403 + error document: (%d, %d, %q, nil); want the error", start, days, typ)
	}
}

// JsonStatus: an error status with a JSON object is an empty success.
func TestRealmsStatusIgnored(t *testing.T) {
	install(500, `{"status":500,"message":"Internal Server Error"}`)
	r := newRealms()
	if l, err := r.Worlds(); err == nil {
		t.Errorf("Worlds answered HTTP 500: (%v, nil); want an error", l)
	}
	if a, err := r.Address(realms.Server{ID: 1}); err == nil {
		t.Errorf("Address answered HTTP 500: (%q, nil); want an error", a)
	}
}

// InviteResult: every accepted invitation is reported as an error.   InviteBodyLeak: post never closes the body.
func TestRealmsInvite(t *testing.T) {
	f := install(200, `{"id":1,"name":"World 1","players":["Friend_1"]}`)
	err := newRealms().Invite(realms.Server{ID: 1}, "Friend_1", "00000000000000000000000000000001")
	if err != nil {
		t.Errorf("Invite answered 200 + world document: error %q; want nil", err)
	}
	if !f.closed {
		t.Errorf("Invite left the response body open (Realms.post has no Body.Close)")
	}
}

// Address does not retry and sends one request; pendingUpdate is an error (documented here, not a finding).
func TestRealmsAddressOneRequest(t *testing.T) {
	f := install(503, `Retry again later`)
	_, err := newRealms().Address(realms.Server{ID: 1})
	if err == nil || f.n != 1 {
		t.Errorf("Address answered 503: err=%v after %d requests; modelled: an error after exactly one request", err, f.n)
	}
}
