#!/usr/bin/env python3
"""usage: seedbatch.py <round-dir> <suffix-letter> [ids...]
Prints one seedrun.sh command line per delivered seed in <round-dir>/<id>/SEED (demo placement and command are read
from the files the sub-agent left); the caller reviews and runs them. Extra check ids per property: NEIGH."""
import json, os, re, sys
rd, suf = sys.argv[1], sys.argv[2]
ids = sys.argv[3:] or sorted(d for d in os.listdir(rd) if os.path.isdir(os.path.join(rd, d, 'SEED')))
NEIGH = {'C01': 'C02', 'C02': 'C01', 'C03': 'C09', 'C04': 'C02', 'C05': 'C06', 'C06': 'C09', 'C07': 'C08', 'C08': 'C07', 'C09': 'C06',
         'C10': 'C19', 'C11': 'C12', 'C12': 'C13', 'C13': 'C12', 'C14': 'C15', 'C15': 'C14', 'C16': 'C09', 'C17': 'C02', 'C18': 'C19',
         'C19': 'C20', 'C20': 'C19'}
for i in ids:
    sd = os.path.join(rd, i, 'SEED')
    if not os.path.exists(os.path.join(sd, 'meta.json')) or not os.path.exists(os.path.join(sd, 'patch.diff')):
        print('# %s: not delivered' % i); continue
    m = json.load(open(os.path.join(sd, 'meta.json')))
    run = open(os.path.join(sd, 'run.txt')).read() if os.path.exists(os.path.join(sd, 'run.txt')) else m.get('demo_cmd', '')
    g = re.search(r'go test[^#\n;&]*', run)
    cmd = g.group(0).strip() if g else 'go test -count=1 ./seeddemo/'
    tests = []
    for root, _, fs in os.walk(sd):
        for f in fs:
            if f.endswith('_test.go'):
                tests.append(os.path.relpath(os.path.join(root, f), sd))
    place = []
    for t in tests:
        base = os.path.basename(t)
        if base.startswith('zz_'):
            pk = re.search(r'\./([A-Za-z0-9_/]+)', cmd)
            cp = re.search(r'cp\s+SEED/\S+\s+(\S+)', run)
            dst = cp.group(1) if cp else (pk.group(1) if pk else 'seeddemo')
            dst = dst.rstrip('/')
            if not dst.endswith('_test.go'):
                dst = dst + '/' + base
            place.append('%s=%s' % (t, dst))
        else:
            place.append('%s=seeddemo/demo_test.go' % t)
    slug = re.sub(r'[^a-z0-9]+', '-', ' '.join(m.get('summary', '').lower().split()[:7]))[:48].strip('-')
    print('DEMO_CMD="%s" DEMO_PLACE="%s" R %s %s%s-%s %s %s' % (cmd, ','.join(place), sd, i, suf, slug, i, NEIGH.get(i, '')))
