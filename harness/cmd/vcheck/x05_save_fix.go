package main

// X05 (b) save: the fixtures under /repo/save/testdata cut into documents small enough for TLC (a format walker gives
// the byte ranges; every judged document is a literal slice of a fixture with a fresh root header, or - for the chunk
// skeleton - the fixture's root compound without some of its entries), the seeded sample, the byte accounting and
// the seeded mutations.  Nothing is judged here.

import (
	"bytes"
	"compress/gzip"
	"compress/zlib"
	"encoding/binary"
	"fmt"
	"io"
	"math/rand"
	"os"
	"path/filepath"
	"sort"
	"strings"

	"github.com/Tnze/go-mc/nbt"
	"github.com/Tnze/go-mc/save"
	"github.com/Tnze/go-mc/save/region"
)

// x5sPackageValues: the values the save package itself exports (DefaultDimensionsTypes, DefaultDimensionsGenerators),
// written by the real encoder; from there on they are documents like the others (class "package-value").
func x5sPackageValues() (docs []x5sDocument, problems []string) {
	var names []string
	for k := range save.DefaultDimensionsTypes {
		names = append(names, k)
	}
	sort.Strings(names)
	for _, k := range names {
		v := save.DefaultDimensionsTypes[k]
		b, err := nbt.Marshal(&v)
		if err != nil {
			problems = append(problems, fmt.Sprintf("DefaultDimensionsTypes[%s]: %v", k, err))
			continue
		}
		docs = append(docs, x5sDocument{Src: "save.DefaultDimensionsTypes[" + k + "]", Target: "DimensionType", Class: "package-value", Bytes: b, Feature: "package-value"})
	}
	names = nil
	for k := range save.DefaultDimensionsGenerators {
		names = append(names, k)
	}
	sort.Strings(names)
	for _, k := range names {
		v := save.DefaultDimensionsGenerators[k]
		b, err := nbt.Marshal(&v)
		if err != nil {
			problems = append(problems, fmt.Sprintf("DefaultDimensionsGenerators[%s]: %v", k, err))
			continue
		}
		docs = append(docs, x5sDocument{Src: "save.DefaultDimensionsGenerators[" + k + "]", Target: "DimensionGenerator", Class: "package-value", Bytes: b, Feature: "package-value"})
	}
	return
}

func x5sRepoRoot() string {
	if r := os.Getenv("VERIF_REPO"); r != "" {
		return r
	}
	return "/repo"
}

// ---------------------------------------------------------------- format walker (cuts inputs, judges nothing)

type x5sIx struct {
	Tag      byte
	Name     string
	Hdr      int // offset of the entry's tag byte inside its compound (-1 for list elements and the root)
	Beg, End int // payload
	Et       byte
	Kids     []*x5sIx
}

func (n *x5sIx) kid(name string) *x5sIx {
	for _, k := range n.Kids {
		if k.Name == name {
			return k
		}
	}
	return nil
}

type x5sScanner struct {
	b []byte
	p int
}

var errX5sShort = fmt.Errorf("walker: input ends early")

func (s *x5sScanner) need(n int) error {
	if n < 0 || s.p+n > len(s.b) {
		return errX5sShort
	}
	return nil
}

func (s *x5sScanner) str() (string, error) {
	if err := s.need(2); err != nil {
		return "", err
	}
	l := int(binary.BigEndian.Uint16(s.b[s.p:]))
	s.p += 2
	if err := s.need(l); err != nil {
		return "", err
	}
	v := string(s.b[s.p : s.p+l])
	s.p += l
	return v, nil
}

func (s *x5sScanner) payload(n *x5sIx, depth int) error {
	if depth > 200 {
		return fmt.Errorf("walker: too deep")
	}
	n.Beg = s.p
	defer func() { n.End = s.p }()
	switch n.Tag {
	case 1:
		s.p++
	case 2:
		s.p += 2
	case 3, 5:
		s.p += 4
	case 4, 6:
		s.p += 8
	case 7, 11, 12:
		if err := s.need(4); err != nil {
			return err
		}
		l := int(int32(binary.BigEndian.Uint32(s.b[s.p:])))
		s.p += 4
		w := map[byte]int{7: 1, 11: 4, 12: 8}[n.Tag]
		if l < 0 {
			return fmt.Errorf("walker: negative length")
		}
		s.p += l * w
	case 8:
		_, err := s.str()
		return err
	case 9:
		if err := s.need(5); err != nil {
			return err
		}
		n.Et = s.b[s.p]
		l := int(int32(binary.BigEndian.Uint32(s.b[s.p+1:])))
		s.p += 5
		if l < 0 {
			return fmt.Errorf("walker: negative length")
		}
		for i := 0; i < l; i++ {
			k := &x5sIx{Tag: n.Et, Hdr: -1}
			if err := s.payload(k, depth+1); err != nil {
				return err
			}
			n.Kids = append(n.Kids, k)
		}
	case 10:
		for {
			if err := s.need(1); err != nil {
				return err
			}
			hdr := s.p
			t := s.b[s.p]
			s.p++
			if t == 0 {
				return nil
			}
			name, err := s.str()
			if err != nil {
				return err
			}
			k := &x5sIx{Tag: t, Name: name, Hdr: hdr}
			if err := s.payload(k, depth+1); err != nil {
				return err
			}
			n.Kids = append(n.Kids, k)
		}
	default:
		return fmt.Errorf("walker: tag %d", n.Tag)
	}
	return s.need(0)
}

// x5sScan indexes a file-format document.
func x5sScan(b []byte) (*x5sIx, error) {
	s := &x5sScanner{b: b}
	if len(b) == 0 {
		return nil, errX5sShort
	}
	root := &x5sIx{Tag: b[0], Hdr: -1}
	s.p = 1
	name, err := s.str()
	if err != nil {
		return nil, err
	}
	root.Name = name
	if err := s.payload(root, 0); err != nil {
		return nil, err
	}
	return root, nil
}

// x5sDoc gives a value of the fixture its own root header (empty name).
func x5sDoc(b []byte, n *x5sIx) []byte {
	out := append([]byte{n.Tag, 0, 0}, b[n.Beg:n.End]...)
	return out
}

// x5sEntry renders one compound entry (tag, name, payload).
func x5sEntryBytes(tag byte, name string, payload []byte) []byte {
	out := []byte{tag, byte(len(name) >> 8), byte(len(name))}
	out = append(out, name...)
	return append(out, payload...)
}

// x5sCompoundOf writes a root compound from whole entries.
func x5sCompoundOf(entries [][]byte) []byte {
	out := []byte{10, 0, 0}
	for _, e := range entries {
		out = append(out, e...)
	}
	return append(out, 0)
}

// ---------------------------------------------------------------- fixtures

type x5sDocument struct {
	Src     string // fixture file + where in it (detail text only)
	Target  string // name of the typed destination
	Class   string // "fixture" or the mutation class
	Fixture bool   // an unchanged part of a fixture
	Bytes   []byte
	Feature string // what makes the document different from its siblings (coverage class)
}

type x5sFile struct {
	Rel   string
	Group string // level | playerdata | raids | poi | entities | region
	Raw   [][]byte
	Names []string // per raw document: "" or "chunk x,z"
}

func x5sGunzip(b []byte) ([]byte, error) {
	r, err := gzip.NewReader(bytes.NewReader(b))
	if err != nil {
		return nil, err
	}
	return io.ReadAll(r)
}

// x5sLoadFixtures reads every NBT fixture of save/testdata: gzip files and all chunks of the region-format files
// (region.Open / ReadSector of the real package, then the compression named by the first byte).
func x5sLoadFixtures() ([]*x5sFile, error) {
	root := filepath.Join(x5sRepoRoot(), "save", "testdata")
	var out []*x5sFile
	gz := []struct{ rel, group string }{
		{"level.dat", "level"}, {"level.dat_old", "level"},
		{"data/raids.dat", "raids"}, {"DIM-1/data/raids.dat", "raids"}, {"DIM1/data/raids_end.dat", "raids"},
	}
	pd, _ := filepath.Glob(filepath.Join(root, "playerdata", "*.dat*"))
	sort.Strings(pd)
	for _, p := range pd {
		rel, _ := filepath.Rel(root, p)
		gz = append(gz, struct{ rel, group string }{rel, "playerdata"})
	}
	for _, g := range gz {
		b, err := os.ReadFile(filepath.Join(root, g.rel))
		if err != nil {
			return nil, err
		}
		raw, err := x5sGunzip(b)
		if err != nil {
			return nil, fmt.Errorf("%s: %v", g.rel, err)
		}
		out = append(out, &x5sFile{Rel: g.rel, Group: g.group, Raw: [][]byte{raw}, Names: []string{""}})
	}
	// the SNBT texts of nbt/testdata, converted by the real library (optional: skipped when the conversion fails)
	for _, name := range []string{"1-dimension_codec.snbt", "58f6356e-b30c-4811-8bfc-d72a9ee99e73.dat.snbt", "level.dat.snbt"} {
		text, err := os.ReadFile(filepath.Join(x5sRepoRoot(), "nbt", "testdata", name))
		if err != nil {
			continue
		}
		var bin []byte
		if pan, _ := catch(func() { bin, err = nbt.Marshal(nbt.StringifiedMessage(text)) }); pan || err != nil || len(bin) == 0 {
			continue
		}
		out = append(out, &x5sFile{Rel: "nbt/testdata/" + name, Group: "snbt", Raw: [][]byte{bin}, Names: []string{""}})
	}
	for _, dir := range []string{"poi", "entities", "region"} {
		files, _ := filepath.Glob(filepath.Join(root, dir, "*.mca"))
		sort.Strings(files)
		for _, p := range files {
			rel, _ := filepath.Rel(root, p)
			// the region package opens files read-write: work on a copy in memory
			content, err := os.ReadFile(p)
			if err != nil {
				return nil, err
			}
			r, err := region.Load(&x5sMemFile{b: content})
			if err != nil {
				return nil, fmt.Errorf("%s: %v", rel, err)
			}
			f := &x5sFile{Rel: rel, Group: dir}
			for z := 0; z < 32; z++ {
				for x := 0; x < 32; x++ {
					if !r.ExistSector(x, z) {
						continue
					}
					data, err := r.ReadSector(x, z)
					if err != nil {
						return nil, fmt.Errorf("%s chunk %d,%d: %v", rel, x, z, err)
					}
					var rd io.Reader
					switch data[0] {
					case 1:
						rd, err = gzip.NewReader(bytes.NewReader(data[1:]))
					case 2:
						rd, err = zlib.NewReader(bytes.NewReader(data[1:]))
					case 3:
						rd = bytes.NewReader(data[1:])
					default:
						err = fmt.Errorf("compression %d", data[0])
					}
					if err != nil {
						return nil, fmt.Errorf("%s chunk %d,%d: %v", rel, x, z, err)
					}
					raw, err := io.ReadAll(rd)
					if err != nil {
						return nil, fmt.Errorf("%s chunk %d,%d: %v", rel, x, z, err)
					}
					f.Raw = append(f.Raw, raw)
					f.Names = append(f.Names, fmt.Sprintf("chunk %d,%d", x, z))
				}
			}
			out = append(out, f)
		}
	}
	return out, nil
}

// x5sMemFile is an in-memory io.ReadWriteSeeker (fixtures are never opened for writing on disk).
type x5sMemFile struct {
	b []byte
	p int64
}

func (m *x5sMemFile) Read(p []byte) (int, error) {
	if m.p >= int64(len(m.b)) {
		return 0, io.EOF
	}
	n := copy(p, m.b[m.p:])
	m.p += int64(n)
	return n, nil
}
func (m *x5sMemFile) Write(p []byte) (int, error) {
	if need := int(m.p) + len(p); need > len(m.b) {
		m.b = append(m.b, make([]byte, need-len(m.b))...)
	}
	copy(m.b[m.p:], p)
	m.p += int64(len(p))
	return len(p), nil
}
func (m *x5sMemFile) Seek(off int64, whence int) (int64, error) {
	switch whence {
	case io.SeekStart:
		m.p = off
	case io.SeekCurrent:
		m.p += off
	case io.SeekEnd:
		m.p = int64(len(m.b)) + off
	}
	return m.p, nil
}

// ---------------------------------------------------------------- byte accounting

type x5sCover struct {
	total   map[string]int          // group -> raw bytes
	perFile map[string]int          // file -> raw bytes
	ranges  map[string][][2]int     // "file#doc" -> covered payload ranges
	group   map[string]string       // file -> group
	docs    map[string]map[int]bool // file -> raw documents touched
	ndocs   map[string]int          // file -> raw documents
}

func x5sNewCover(files []*x5sFile) *x5sCover {
	c := &x5sCover{total: map[string]int{}, perFile: map[string]int{}, ranges: map[string][][2]int{}, group: map[string]string{}, docs: map[string]map[int]bool{}, ndocs: map[string]int{}}
	for _, f := range files {
		for _, r := range f.Raw {
			c.total[f.Group] += len(r)
			c.perFile[f.Rel] += len(r)
		}
		c.group[f.Rel] = f.Group
		c.ndocs[f.Rel] = len(f.Raw)
		c.docs[f.Rel] = map[int]bool{}
	}
	return c
}

func (c *x5sCover) add(file string, doc, beg, end int) {
	k := fmt.Sprintf("%s#%d", file, doc)
	c.ranges[k] = append(c.ranges[k], [2]int{beg, end})
	c.docs[file][doc] = true
}

func (c *x5sCover) covered() (perFile map[string]int, perGroup map[string]int) {
	perFile, perGroup = map[string]int{}, map[string]int{}
	for k, rs := range c.ranges {
		file := k[:strings.LastIndex(k, "#")]
		sort.Slice(rs, func(i, j int) bool { return rs[i][0] < rs[j][0] })
		n, hi := 0, -1
		for _, r := range rs {
			b, e := r[0], r[1]
			if b < hi {
				b = hi
			}
			if e > b {
				n += e - b
				hi = e
			}
		}
		perFile[file] += n
		perGroup[c.group[file]] += n
	}
	return
}

// ---------------------------------------------------------------- cutting the fixtures into documents

const x5sBigEntry = 3000 // entries of a chunk's root compound larger than this are judged on their own (or sampled)

type x5sPlan struct {
	Chunks, Sections, TickElems int // region: chunks per file, sections per chunk, elements of an oversized list per chunk
	ChunksWithSections          int // region: of these chunks, how many are also judged with `Sections` sections inside
	WholeChunks                 int // region: chunks judged as ONE document (thorough only; ~45 kB each)
	EntityChunks, Entities      int // entities: chunks per file, entities per chunk (0 = all)
	Mutations                   int // mutated documents
}

// x5sCut turns the fixtures into documents according to the plan; rng picks the sample.
func x5sCut(files []*x5sFile, plan x5sPlan, rng *rand.Rand, cov *x5sCover) (docs []x5sDocument, err error) {
	for _, f := range files {
		switch f.Group {
		case "level":
			raw := f.Raw[0]
			ix, e := x5sScan(raw)
			if e != nil {
				return nil, fmt.Errorf("%s: %v", f.Rel, e)
			}
			docs = append(docs, x5sDocument{Src: f.Rel, Target: "Level", Class: "fixture", Fixture: true, Bytes: raw, Feature: "level"})
			cov.add(f.Rel, 0, 0, len(raw))
			if d := ix.kid("Data"); d != nil {
				if p := d.kid("Player"); p != nil && p.Tag == 10 {
					docs = append(docs, x5sDocument{Src: f.Rel + " Data.Player", Target: "PlayerData", Class: "fixture", Fixture: true, Bytes: x5sDoc(raw, p), Feature: "level-player"})
				}
			}
		case "playerdata":
			docs = append(docs, x5sDocument{Src: f.Rel, Target: "PlayerData", Class: "fixture", Fixture: true, Bytes: f.Raw[0], Feature: "player"})
			cov.add(f.Rel, 0, 0, len(f.Raw[0]))
		case "raids":
			docs = append(docs, x5sDocument{Src: f.Rel, Target: "Any", Class: "fixture", Fixture: true, Bytes: f.Raw[0], Feature: "raids"})
			cov.add(f.Rel, 0, 0, len(f.Raw[0]))
		case "poi":
			for i, raw := range f.Raw {
				docs = append(docs, x5sDocument{Src: f.Rel + " " + f.Names[i], Target: "Any", Class: "fixture", Fixture: true, Bytes: raw, Feature: "poi"})
				cov.add(f.Rel, i, 0, len(raw))
			}
		case "snbt":
			raw := f.Raw[0]
			ix, e := x5sScan(raw)
			if e != nil {
				continue // a conversion that is not a document: C04's business
			}
			switch {
			case strings.Contains(f.Rel, "dimension_codec"):
				if dt := ix.kid("minecraft:dimension_type"); dt != nil {
					if l := dt.kid("value"); l != nil && l.Tag == 9 {
						for j, el := range l.Kids {
							if e := el.kid("element"); e != nil && e.Tag == 10 {
								docs = append(docs, x5sDocument{Src: fmt.Sprintf("%s minecraft:dimension_type.value[%d].element", f.Rel, j), Target: "DimensionType", Class: "fixture", Fixture: true,
									Bytes: x5sDoc(raw, e), Feature: "snbt-dimension-type"})
								cov.add(f.Rel, 0, e.Beg, e.End)
							}
						}
					}
				}
			case strings.Contains(f.Rel, "level.dat"):
				if d := ix.kid("Data"); d != nil && d.Tag == 10 {
					docs = append(docs, x5sDocument{Src: f.Rel + " Data", Target: "LevelData", Class: "fixture", Fixture: true, Bytes: x5sDoc(raw, d), Feature: "snbt-level"})
					cov.add(f.Rel, 0, d.Beg, d.End)
					// the same entry alone in a root compound: what save.ReadLevel is meant for (the text's other root entries
					// "data" and "palette" belong to the SNBT test, not to a level.dat)
					docs = append(docs, x5sDocument{Src: f.Rel + " {Data}", Target: "Level", Class: "fixture", Fixture: true, Bytes: x5sCompoundOf([][]byte{raw[d.Hdr:d.End]}), Feature: "snbt-level-strict"})
				}
			default:
				docs = append(docs, x5sDocument{Src: f.Rel, Target: "PlayerData", Class: "fixture", Fixture: true, Bytes: raw, Feature: "snbt-player"})
				cov.add(f.Rel, 0, 0, len(raw))
			}
		case "entities":
			order := x5sStratified(rng, len(f.Raw), func(i int) string { return x5sEntityChunkFeature(f.Raw[i]) })
			if plan.EntityChunks > 0 && len(order) > plan.EntityChunks {
				order = order[:plan.EntityChunks]
			}
			for _, i := range order {
				raw := f.Raw[i]
				ix, e := x5sScan(raw)
				if e != nil {
					return nil, fmt.Errorf("%s %s: %v", f.Rel, f.Names[i], e)
				}
				ents := ix.kid("Entities")
				if len(raw) <= 6*x5sBigEntry || ents == nil {
					docs = append(docs, x5sDocument{Src: f.Rel + " " + f.Names[i], Target: "Any", Class: "fixture", Fixture: true, Bytes: raw, Feature: "entity-chunk"})
					cov.add(f.Rel, i, 0, len(raw))
				}
				if ents == nil || ents.Tag != 9 || ents.Et != 10 {
					continue
				}
				eo := x5sStratified(rng, len(ents.Kids), func(j int) string { return x5sEntityFeature(raw, ents.Kids[j]) })
				if plan.Entities > 0 && len(eo) > plan.Entities {
					eo = eo[:plan.Entities]
				}
				for _, j := range eo {
					k := ents.Kids[j]
					docs = append(docs, x5sDocument{Src: fmt.Sprintf("%s %s Entities[%d]", f.Rel, f.Names[i], j), Target: "Entity", Class: "fixture", Fixture: true,
						Bytes: x5sDoc(raw, k), Feature: "entity/" + x5sEntityFeature(raw, k)})
					cov.add(f.Rel, i, k.Beg, k.End)
				}
			}
		case "region":
			order := x5sStratified(rng, len(f.Raw), func(i int) string { return x5sChunkFeature(f.Raw[i]) })
			whole := plan.WholeChunks
			n := plan.Chunks
			if n > len(order) {
				n = len(order)
			}
			for oi, i := range order[:n] {
				raw := f.Raw[i]
				ix, e := x5sScan(raw)
				if e != nil {
					return nil, fmt.Errorf("%s %s: %v", f.Rel, f.Names[i], e)
				}
				src := f.Rel + " " + f.Names[i]
				if ix.Tag != 10 {
					continue
				}
				if oi < whole {
					docs = append(docs, x5sDocument{Src: src + " (whole)", Target: "Chunk", Class: "fixture", Fixture: true, Bytes: raw, Feature: "chunk-whole"})
					cov.add(f.Rel, i, 0, len(raw))
					continue
				}
				// the chunk with every oversized list cut down to a sample of its elements (the list header is rewritten,
				// the elements are literal slices of the fixture); oversized values that are no lists stay whole.
				orders := map[*x5sIx][]int{}
				for _, k := range ix.Kids {
					if k.Tag == 9 && k.End-k.Hdr > x5sBigEntry {
						target := "Any"
						if k.Name == "sections" {
							target = "Section"
						}
						kk := k
						orders[k] = x5sStratified(rng, len(k.Kids), func(j int) string { return x5sElemFeature(raw, kk.Kids[j], target) })
					}
				}
				build := func(nSec int, count bool) ([]byte, string) {
					var keep [][]byte
					var cutNames []string
					for _, k := range ix.Kids {
						ord, cutIt := orders[k]
						if !cutIt {
							keep = append(keep, raw[k.Hdr:k.End])
							if count {
								cov.add(f.Rel, i, k.Hdr, k.End)
							}
							continue
						}
						lim := plan.TickElems
						if k.Name == "sections" {
							lim = nSec
						}
						if lim > len(ord) {
							lim = len(ord)
						}
						sel := append([]int{}, ord[:lim]...)
						sort.Ints(sel) // elements keep their order
						payload := []byte{k.Et, byte(lim >> 24), byte(lim >> 16), byte(lim >> 8), byte(lim)}
						for _, j := range sel {
							payload = append(payload, raw[k.Kids[j].Beg:k.Kids[j].End]...)
							if count {
								cov.add(f.Rel, i, k.Kids[j].Beg, k.Kids[j].End)
							}
						}
						keep = append(keep, x5sEntryBytes(9, k.Name, payload))
						cutNames = append(cutNames, fmt.Sprintf("%s cut to %d of %d", k.Name, lim, len(k.Kids)))
					}
					return x5sCompoundOf(keep), strings.Join(cutNames, ", ")
				}
				b0, what0 := build(0, true)
				docs = append(docs, x5sDocument{Src: src + " (" + what0 + ")", Target: "Chunk", Class: "fixture", Fixture: true, Bytes: b0, Feature: "chunk/" + x5sChunkFeature(raw)})
				if oi-whole < plan.ChunksWithSections {
					b1, what1 := build(plan.Sections, true)
					docs = append(docs, x5sDocument{Src: src + " (" + what1 + ")", Target: "Chunk", Class: "fixture", Fixture: true, Bytes: b1, Feature: "chunk+sections"})
				}
				// further elements of the cut lists as documents of their own
				for _, k := range ix.Kids {
					ord, cutIt := orders[k]
					if !cutIt {
						continue
					}
					target, lim, skip := "Any", plan.TickElems, plan.TickElems
					if k.Name == "sections" {
						target, lim, skip = "Section", plan.Sections, 0
						if oi-whole < plan.ChunksWithSections {
							skip = plan.Sections
						}
					}
					if skip > len(ord) {
						skip = len(ord)
					}
					eo := ord[skip:]
					if lim > 0 && len(eo) > lim {
						eo = eo[:lim]
					}
					for _, j := range eo {
						e := k.Kids[j]
						if e.End-e.Beg > 6*x5sBigEntry {
							continue
						}
						docs = append(docs, x5sDocument{Src: fmt.Sprintf("%s %s[%d]", src, k.Name, j), Target: target, Class: "fixture", Fixture: true,
							Bytes: x5sDoc(raw, e), Feature: strings.ToLower(target) + "/" + x5sElemFeature(raw, e, target)})
						cov.add(f.Rel, i, e.Beg, e.End)
					}
				}
			}
		}
	}
	return docs, nil
}

// x5sStratified orders 0..n-1 so that every feature class comes first once (classes in sorted order, the member of
// each class picked by rng), then the rest in random order: a prefix of any length covers as many classes as it can.
func x5sStratified(rng *rand.Rand, n int, feature func(int) string) []int {
	by := map[string][]int{}
	for i := 0; i < n; i++ {
		f := feature(i)
		by[f] = append(by[f], i)
	}
	keys := make([]string, 0, len(by))
	for k := range by {
		keys = append(keys, k)
	}
	sort.Strings(keys)
	var first, rest []int
	for _, k := range keys {
		m := by[k]
		p := rng.Intn(len(m))
		first = append(first, m[p])
		rest = append(rest, m[:p]...)
		rest = append(rest, m[p+1:]...)
	}
	rng.Shuffle(len(rest), func(i, j int) { rest[i], rest[j] = rest[j], rest[i] })
	return append(first, rest...)
}

func x5sKeySet(n *x5sIx) string {
	var ks []string
	for _, k := range n.Kids {
		ks = append(ks, fmt.Sprintf("%s:%d", k.Name, k.Tag))
	}
	sort.Strings(ks)
	return strings.Join(ks, ",")
}

// feature classes: the names and tags of the entries at the positions the structs describe
func x5sChunkFeature(raw []byte) string {
	ix, err := x5sScan(raw)
	if err != nil {
		return "unreadable"
	}
	return x5sKeySet(ix)
}

func x5sEntityChunkFeature(raw []byte) string {
	ix, err := x5sScan(raw)
	if err != nil {
		return "unreadable"
	}
	ids := map[string]bool{}
	if e := ix.kid("Entities"); e != nil {
		for _, k := range e.Kids {
			ids[x5sStringEntry(raw, k, "id")] = true
		}
	}
	var l []string
	for k := range ids {
		l = append(l, k)
	}
	sort.Strings(l)
	return strings.Join(l, ",")
}

func x5sStringEntry(raw []byte, n *x5sIx, name string) string {
	if k := n.kid(name); k != nil && k.Tag == 8 && k.End-k.Beg >= 2 {
		return string(raw[k.Beg+2 : k.End])
	}
	return ""
}

func x5sEntityFeature(raw []byte, n *x5sIx) string { return x5sStringEntry(raw, n, "id") }

func x5sElemFeature(raw []byte, n *x5sIx, target string) string {
	if target != "Section" {
		return x5sKeySet(n)
	}
	// a section: its entries, whether some palette entry has no Properties, one-entry palettes (no data array)
	f := x5sKeySet(n)
	if bs := n.kid("block_states"); bs != nil {
		f += "|bs:" + x5sKeySet(bs)
		if p := bs.kid("palette"); p != nil {
			noProp, withProp := false, false
			for _, e := range p.Kids {
				if e.kid("Properties") == nil {
					noProp = true
				} else {
					withProp = true
				}
			}
			f += fmt.Sprintf("|noprop=%v,prop=%v", noProp, withProp)
		}
	}
	if bi := n.kid("biomes"); bi != nil {
		f += "|bi:" + x5sKeySet(bi)
	}
	return f
}

// ---------------------------------------------------------------- seeded mutations of fixture documents

// x5sMutate derives a document from a fixture document.  Classes:
//
//	drop-field, duplicate-field, reorder-fields: whole entries of one compound removed / repeated / permuted
//	wrong-type: one entry's value replaced by a value of another category (number / text / list / compound)
//	widen-type: one integer entry replaced by the same number in the next wider (or narrower) integer tag
//	truncate: a strict prefix
func x5sMutate(rng *rand.Rand, doc []byte) (out []byte, class string) {
	ix, err := x5sScan(doc)
	if err != nil || ix.Tag != 10 {
		return doc[:rng.Intn(len(doc))], "truncate"
	}
	// all compounds of the document that have entries
	var comps []*x5sIx
	var walk func(n *x5sIx)
	walk = func(n *x5sIx) {
		if n.Tag == 10 && len(n.Kids) > 0 {
			comps = append(comps, n)
		}
		for _, k := range n.Kids {
			walk(k)
		}
	}
	walk(ix)
	if len(comps) == 0 {
		return doc[:rng.Intn(len(doc))], "truncate"
	}
	c := comps[0]
	if rng.Intn(3) > 0 {
		c = comps[rng.Intn(len(comps))]
	}
	entry := func(k *x5sIx) []byte { return doc[k.Hdr:k.End] }
	rebuild := func(entries [][]byte) []byte {
		out := append([]byte{}, doc[:c.Beg]...)
		for _, e := range entries {
			out = append(out, e...)
		}
		return append(out, doc[c.End-1:]...) // the End byte of c and everything behind it
	}
	var es [][]byte
	for _, k := range c.Kids {
		es = append(es, entry(k))
	}
	pick := rng.Intn(len(c.Kids))
	switch r := rng.Intn(14); {
	case r >= 12:
		// an entry under a name no struct declares (r = 12), or under its own name with the first letter's case flipped
		k := c.Kids[pick]
		name := k.Name + "_x"
		class := "rename-field"
		if r == 13 && len(k.Name) > 0 {
			b := []byte(k.Name)
			switch {
			case b[0] >= 'a' && b[0] <= 'z':
				b[0] -= 32
			case b[0] >= 'A' && b[0] <= 'Z':
				b[0] += 32
			}
			name, class = string(b), "rename-field-case"
		}
		if c.kid(name) != nil {
			return doc[:rng.Intn(len(doc))], "truncate"
		}
		es[pick] = x5sEntryBytes(k.Tag, name, doc[k.Beg:k.End])
		return rebuild(es), class
	case r < 2:
		n := 1 + rng.Intn(2)
		for i := 0; i < n && len(es) > 0; i++ {
			p := rng.Intn(len(es))
			es = append(es[:p:p], es[p+1:]...)
		}
		return rebuild(es), "drop-field"
	case r < 4:
		at := rng.Intn(len(es) + 1)
		dup := es[pick]
		es = append(es[:at:at], append([][]byte{dup}, es[at:]...)...)
		return rebuild(es), "duplicate-field"
	case r < 6:
		rng.Shuffle(len(es), func(i, j int) { es[i], es[j] = es[j], es[i] })
		return rebuild(es), "reorder-fields"
	case r < 9:
		k := c.Kids[pick]
		t, _, p := x5sWrongValue(rng, k.Tag)
		es[pick] = x5sEntryBytes(t, k.Name, p)
		return rebuild(es), "wrong-type"
	case r < 10:
		// the same small number under another integer tag
		var cand []int
		for i, k := range c.Kids {
			if k.Tag >= 1 && k.Tag <= 4 {
				cand = append(cand, i)
			}
		}
		if len(cand) == 0 {
			return doc[:rng.Intn(len(doc))], "truncate"
		}
		p := cand[rng.Intn(len(cand))]
		k := c.Kids[p]
		nt := byte(1 + rng.Intn(4))
		for nt == k.Tag {
			nt = byte(1 + rng.Intn(4))
		}
		w := map[byte]int{1: 1, 2: 2, 3: 4, 4: 8}
		val := make([]byte, w[nt])
		val[len(val)-1] = doc[k.End-1] & 0x7f
		es[p] = x5sEntryBytes(nt, k.Name, val)
		return rebuild(es), "other-int-width"
	default:
		return doc[:rng.Intn(len(doc))], "truncate"
	}
}

// x5sWrongValue returns (tag, "", payload) of a small value from another category than tag's.
func x5sWrongValue(rng *rand.Rand, tag byte) (byte, string, []byte) {
	cat := func(t byte) int {
		switch {
		case t >= 1 && t <= 4:
			return 0
		case t == 5 || t == 6:
			return 1
		case t == 8:
			return 2
		case t == 10:
			return 4
		}
		return 3 // arrays and lists
	}
	type val struct {
		tag byte
		p   []byte
	}
	vals := []val{
		{3, []byte{0, 0, 0, 7}}, {1, []byte{1}}, {4, []byte{0, 0, 0, 0, 0, 0, 0, 9}},
		{5, []byte{0x3f, 0x80, 0, 0}}, {6, []byte{0x3f, 0xf0, 0, 0, 0, 0, 0, 0}},
		{8, []byte{0, 1, 'x'}}, {8, []byte{0, 0}},
		{9, []byte{8, 0, 0, 0, 1, 0, 1, 'y'}}, {9, []byte{0, 0, 0, 0, 0}}, {11, []byte{0, 0, 0, 1, 0, 0, 0, 5}}, {7, []byte{0, 0, 0, 2, 1, 2}},
		{10, []byte{0}}, {10, []byte{8, 0, 1, 'k', 0, 1, 'v', 0}},
	}
	for {
		v := vals[rng.Intn(len(vals))]
		if cat(v.tag) != cat(tag) {
			return v.tag, "", v.p
		}
	}
}
