package main

// X10: specification extension (DESIGN.md section 8.9): two stateful pieces of the NBT / chat-signing corner.
//   (a) nbt/dynbt as a value-BUILDING API            specs/DynBT.tla (+_Gen, _Trace), reuses specs/NBT.tla (trees, EncDoc, DecDoc)
//   (b) chat/sign.Session, the chain of signed chat  specs/SignChain.tla (+_Gen, _Trace)
//       messages, and the wire forms next to it       specs/SignWire.tla (+_Trace), reuses specs/Wire.tla
// Leg S:  TLC explores DynBT_MC / SignChain_MC / SignWire_MC exhaustively (small bounds); the code-as-written layers
//         (DynBT_MC_code: NewList unchecked; SignChain_MC_code: session.go as written) are EXPECTED to be rejected -
//         the model-level form of two findings; DynBT_MC_broken_*, SignChain_MC_broken are vacuity guards.
// Leg A:  TLC -simulate behaviours (DynBT_Gen, SignChain_Gen, intent and code layers) replayed on the real objects, the
//         projected state compared with the state TLC computed after every step; SignWire vectors (PrintT/ToJson).
// Leg B:  long seeded random histories on the real objects.
// All executions (A and B) are recorded as ndjson and judged by the *_Trace specs in TLC (one independent initial state
// per line; the specification prints the numbers of the checks a line fails).
// An extension check never raises VIOLATION: what the specification rejects is printed as
// `NOTE spec-extension <Module> finding: ...` and the exit code stays 0.
// Generic machinery (findings book, TLC slot budget, per-line judge, behaviour reader) is shared with x02.go.

import (
	"encoding/json"
	"fmt"
	"os"
	"path/filepath"
	"sort"
	"strings"
	"sync"
	"time"

	"verif/harness/vk"
)

func init() { drivers["X10"] = driver{run: runX10, replay: replayX10} }

func x10Flush(env *vk.Env, b *x2Book) {
	keys := make([]string, 0, len(b.m))
	for k := range b.m {
		keys = append(keys, k)
	}
	sort.Strings(keys)
	for _, k := range keys {
		f := b.m[k]
		where := ""
		if f.replay != nil && env.Replay == "" {
			name := f.sig
			if i := strings.Index(name, " - "); i > 0 {
				name = name[:i]
			}
			name = strings.Map(func(r rune) rune {
				if r >= 'a' && r <= 'z' || r >= 'A' && r <= 'Z' || r >= '0' && r <= '9' {
					return r
				}
				return '_'
			}, name)
			p := filepath.Join(vk.Root, "out", "replays", fmt.Sprintf("X10-%s-%s.json", f.module, name))
			os.MkdirAll(filepath.Dir(p), 0o755)
			body, _ := json.Marshal(map[string]any{"property": "X10", "signature": f.sig, "detail": f.first,
				"replay": map[string]any{"module": f.module, "scenario": f.replay, "seed": env.Seed}})
			if os.WriteFile(p, body, 0o644) == nil {
				where = "; replay=" + p
			}
		}
		env.Note("spec-extension %s finding: %s (%d events; first: %s%s)", f.module, f.sig, f.n, vkTrunc(f.first, 420), where)
	}
	if len(keys) == 0 {
		env.Note("spec-extension X10: no finding in this run")
	}
}

// x10Expected runs a configuration that TLC must REJECT with the given property / invariant.
// kind "finding": the rejection is the model-level form of a finding (booked); kind "guard": a deliberately broken
// variant (vacuity guard, silent when rejected).  Anything else is an infrastructure problem.
func x10Expected(env *vk.Env, book *x2Book, module, spec, cfg, want, kind, sig, detail string) {
	res, err := x2TLC(env, vk.TLCRun{Name: "S " + cfg + " (expected rejection)", Module: spec, Cfg: cfg, Workers: 1, NoCount: true, Timeout: 5 * time.Minute})
	if err != nil {
		env.Infra("%s: %v", cfg, err)
		return
	}
	switch {
	case strings.Contains(res.Violated, want):
		if kind == "finding" {
			book.add(module, sig, detail, nil)
		}
		os.RemoveAll(res.Dir)
	case res.OK && kind == "finding":
		env.Note("spec-extension %s: %s is no longer rejected by TLC - the model of the code as written does not show the finding", module, cfg)
	case res.OK:
		env.Infra("%s: the deliberately broken variant is NOT rejected by TLC (vacuous properties?)", cfg)
	default:
		env.Infra("%s: unexpected outcome (violated=%q exit=%d)\n%s", cfg, res.Violated, res.ExitCode, vkTrunc(res.Output, 1500))
	}
}

func runX10(env *vk.Env) {
	env.Cov.Rule = "Specification extension, not one of the listed properties: rejections are NOTE findings, never violations. " +
		"S: DynBT_MC (heap of up to 3 (4) values, 3 leaf kinds, 2 names, lists to 2, decode into fresh and existing values, a document naming a key twice: " +
		"TypeOK, AllWellFormed, RoundTrip, IllFormedIsGarbage, SetRule, SetPanicRule, NewRule, DecodeRule), DynBT_MC_code (NewList unchecked: AllWellFormed expected to be " +
		"rejected), two broken Set variants (guards); SignChain_MC (+_strict, _thorough: AcceptSound, Monotone, BrokenSticky, UpdateRule, FirstAccepted, NextAccepted, InitRule), " +
		"SignChain_MC_code (session.go as written: FirstAccepted expected to be rejected), SignChain_MC_code_never (NeverAccepts holds), SignChain_MC_broken (guard); " +
		"SignWire_MC (encoders against independently written decoders on the vector universe). " +
		"A: TLC -simulate behaviours of DynBT_Gen (intent and code layer) and SignChain_Gen (intent, code with injected states) replayed on real values / sessions with the " +
		"projected state compared after every step; SignWire vectors written and read by the real codecs. " +
		"B: seeded random histories (dynbt: constructors, Set with replacement, Get paths, all accessors on every tag, encoders in both formats, decode into fresh and existing " +
		"values incl. repeated names and typed empty lists, truncated documents, sharing; sessions: first / successor / gap / replay / foreign link / every signature relation / " +
		"expiry / re-initialisation, the two predicates alone, injected chain states; wire: random values of all six forms with tails and truncations). " +
		"Every execution is judged per line by DynBT_Trace / SignChain_Trace / SignWire_Trace. Distinct = distinct (module, event kind, outcome class) in judged traces."
	env.Assume = []string{
		"the projection of dynbt values reads the unexported fields tag, elem, data, list, comp.kvs through reflect (read-only); pointer identity of *Value is part of the projection",
		"no dynbt value is set into itself or one of its descendants (MarshalNBT would not terminate), no nil *Value is stored, slices handed out by List / ByteArray are not modified",
		"signatures are genuine RSA-2048 PKCS1v15/SHA-256 signatures made with the harness' own keys over the byte layouts named in SignChain.tla; RSA and SHA-256 are not verified",
		"Session.valid / lastMsg are read and (in scenarios marked injected) set through the export shim overlays/sign_export.go; verifyHash / verifyChain are called through it",
		"the protocol reading (vanilla 1.19.3+ client: first message accepted, descendant = same sender and session with a greater index, the last message may be re-delivered, " +
			"expired key rejects, FilterMask type is one of 0..2) is from memory of the vanilla client and cannot be confirmed offline; reading-dependent checks say so in their name",
	}
	book := &x2Book{}
	var wg sync.WaitGroup
	run := func(f func()) {
		wg.Add(1)
		go func() { defer wg.Done(); f() }()
	}
	if x2Leg("S") {
		run(func() { dySpecLeg(env, book) })
		run(func() { sgSpecLeg(env, book) })
	}
	run(func() { dyLegs(env, book) })
	run(func() { sgLegs(env, book) })
	run(func() { swLegs(env, book) })
	wg.Wait()
	x10Flush(env, book)
	env.Cov.Exhaustive = x2Leg("S")
}

func replayX10(env *vk.Env, b []byte) {
	var f struct {
		Replay struct {
			Module string          `json:"module"`
			Sc     json.RawMessage `json:"scenario"`
			Seed   int64           `json:"seed"`
		} `json:"replay"`
	}
	if err := json.Unmarshal(b, &f); err != nil {
		env.Infra("replay: %v", err)
		return
	}
	if f.Replay.Seed != 0 {
		env.Seed = f.Replay.Seed
	}
	book := &x2Book{}
	switch f.Replay.Module {
	case "DynBT":
		var sc dyScenario
		if err := json.Unmarshal(f.Replay.Sc, &sc); err != nil {
			env.Infra("replay: %v", err)
			return
		}
		t := &x2Trace{}
		dyRun(sc, t, book)
		x2Judge(env, book, "replay", "DynBT", "DynBT_Trace", dyChecks, t, 1)
	case "SignChain":
		var sc sgScenario
		if err := json.Unmarshal(f.Replay.Sc, &sc); err != nil {
			env.Infra("replay: %v", err)
			return
		}
		t := &x2Trace{}
		sgRun(sc, t, book)
		x2Judge(env, book, "replay", "SignChain", "SignChain_Trace", sgChecks(sc.Injected()), t, 1)
	case "SignWire":
		var sc swScenario
		if err := json.Unmarshal(f.Replay.Sc, &sc); err != nil {
			env.Infra("replay: %v", err)
			return
		}
		t := &x2Trace{}
		swRun(sc, t, book)
		x2Judge(env, book, "replay", "SignWire", "SignWire_Trace", swChecks, t, 1)
	default:
		env.Infra("replay: unknown module %q", f.Replay.Module)
		return
	}
	x10Flush(env, book)
	env.Cov.States, env.Cov.Transitions = 1, 1
	env.Sample(f.Replay.Module)
}
