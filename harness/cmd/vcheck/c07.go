package main

// C07 packet framing. Spec: specs/Frame.tla ; trace spec Frame_Trace.tla.
// Leg S: TLC checks FIFO, conformance of every admissible frame, round trip and the reject rules.
// Leg A: every TLC state vector (threshold x id x size grid, hostile header grid) is concretised into
//        real Pack / UnPack calls. Leg B: random streams of 1..50 frames with a reused receiver.
// All real observations (frames projected by an independent reader, UnPack results, hostile headers as
// actually put on the wire) are judged by Frame_Trace in TLC.

import (
	"bytes"
	"compress/zlib"
	"encoding/json"
	"fmt"
	mcnet "github.com/Tnze/go-mc/net"
	"io"
	"math/rand"
	"time"

	pk "github.com/Tnze/go-mc/net/packet"
	"verif/harness/vk"
)

func init() { drivers["C07"] = driver{run: runC07, replay: replayC07} }

// independent VarInt helpers (protocol text, not the code under test)
func fvPut(b []byte, v int32) []byte {
	u := uint32(v)
	for {
		if u&^0x7f == 0 {
			return append(b, byte(u))
		}
		b = append(b, byte(u&0x7f|0x80))
		u >>= 7
	}
}
func fvGet(b []byte) (v int32, n int, ok bool) {
	var u uint32
	for i := 0; i < 5 && i < len(b); i++ {
		u |= uint32(b[i]&0x7f) << (7 * uint(i))
		if b[i] < 0x80 {
			return int32(u), i + 1, true
		}
	}
	return 0, 0, false
}

type frameRec struct {
	Mode string `json:"mode"`
	Plen int    `json:"plen"`
	Dlen int    `json:"dlen"`
	ID   int    `json:"id"`
	N    int    `json:"n"`
	Zlen int    `json:"zlen"`
	Infl int    `json:"infl"`
}

// projectFrame reads exactly one frame from b following the protocol text.
func projectFrame(b []byte, thr int) (f frameRec, payloadSha string, total int, parsed bool) {
	plen, n0, ok := fvGet(b)
	if !ok || plen < 0 || n0+int(plen) > len(b) {
		return
	}
	total = n0 + int(plen)
	body := b[n0:total]
	f.Plen = int(plen)
	f.Dlen = -1
	if thr < 0 {
		f.Mode = "plain"
		id, n1, ok := fvGet(body)
		if !ok {
			return
		}
		f.ID, f.N = int(id), len(body)-n1
		return f, sha(body[n1:]), total, true
	}
	dlen, n1, ok := fvGet(body)
	if !ok {
		return
	}
	f.Dlen = int(dlen)
	rest := body[n1:]
	if dlen == 0 {
		f.Mode = "marked"
		id, n2, ok := fvGet(rest)
		if !ok {
			return
		}
		f.ID, f.N = int(id), len(rest)-n2
		return f, sha(rest[n2:]), total, true
	}
	f.Mode = "z"
	f.Zlen = len(rest)
	zr, err := zlib.NewReader(bytes.NewReader(rest))
	if err != nil {
		return
	}
	infl, err := io.ReadAll(zr)
	if err != nil {
		return
	}
	f.Infl = len(infl)
	id, n2, ok := fvGet(infl)
	if !ok {
		return
	}
	f.ID, f.N = int(id), len(infl)-n2
	return f, sha(infl[n2:]), total, true
}

type frameStim struct {
	Thr  int   `json:"thr"`
	ID   int32 `json:"id"`
	N    int   `json:"n"`
	Zero bool  `json:"zero"` // all-zero payload (highly compressible) instead of pseudo-random
}

func framePayload(rng *rand.Rand, n int, zero bool) []byte {
	d := make([]byte, n)
	if !zero {
		rng.Read(d)
	}
	return d
}

// frameStream packs the stimuli into one buffer and unpacks them again (reused receiver), logging events.
func frameStream(tr *vk.Trace, rng *rand.Rand, thr int, st []frameStim, scn int) {
	tr.Add(map[string]any{"k": "reset", "thr": thr, "scn": scn})
	var wire bytes.Buffer
	// every other scenario goes through the Conn entry points (SetThreshold, WritePacket, ReadPacket) instead of
	// Packet.Pack / UnPack: the same setting must mean the same frames
	var conn *mcnet.Conn
	if scn%2 == 1 {
		conn = mcnet.WrapConn(scriptedConn{Reader: &wire, w: &wire})
		conn.SetThreshold(thr)
	}
	for _, s := range st {
		data := framePayload(rng, s.N, s.Zero)
		p := pk.Packet{ID: s.ID, Data: data}
		before := wire.Len()
		var err error
		pan, _ := catch(func() {
			if conn != nil {
				err = conn.WritePacket(p)
			} else {
				err = p.Pack(&wire, thr)
			}
		})
		out := wire.Bytes()[before:]
		f, fsha, total, parsed := projectFrame(out, thr)
		if total != len(out) {
			parsed = false
		}
		tr.Add(map[string]any{"k": "pack", "scn": scn, "id": int(s.ID), "n": s.N, "sha": sha(data), "err": err != nil || pan,
			"f": f, "fsha": fsha, "total": len(out), "parsed": parsed})
		if err != nil || pan || !parsed {
			return
		}
	}
	wire.Write([]byte{0xde, 0xad, 0xbe, 0xef}) // whatever follows must stay unread
	var recv pk.Packet                         // reused
	type heldPk struct {
		idx  int
		p    *pk.Packet
		sha0 string
	}
	var held []heldPk
	defer func() {
		for _, h := range held { // packets the caller kept while it went on unpacking
			tr.Add(map[string]any{"k": "held", "scn": scn, "idx": h.idx, "id": int(h.p.ID), "n": len(h.p.Data), "sha": sha(h.p.Data), "sha0": h.sha0})
		}
	}()
	for i := range st {
		before := wire.Len()
		dst := &recv
		if i%3 == 2 {
			dst = &pk.Packet{}
		}
		var err error
		pan, _ := catch(func() {
			if conn != nil {
				err = conn.ReadPacket(dst)
			} else {
				err = dst.UnPack(&wire, thr)
			}
		})
		tr.Add(map[string]any{"k": "unpack", "scn": scn, "id": int(dst.ID), "n": len(dst.Data), "sha": sha(dst.Data), "err": err != nil,
			"consumed": before - wire.Len(), "panicked": pan})
		if err != nil || pan {
			return
		}
		if dst != &recv {
			held = append(held, heldPk{i + 1, dst, sha(dst.Data)})
		}
	}
}

type frameBad struct {
	Thr   int `json:"thr"`
	Plen  int `json:"plen"`
	Dlen  int `json:"dlen"`
	Idlen int `json:"idlen"`
	Infl  int `json:"infl"`
}

// frameBadEvent concretises a hostile header class into bytes, feeds it to UnPack and logs the header as
// actually present on the wire.
func frameBadEvent(tr *vk.Trace, b frameBad, scn int) {
	var idb []byte
	switch {
	case b.Idlen == 5:
		idb = fvPut(nil, -1)
	case b.Idlen >= 2 && b.Idlen <= 4:
		// a small id that the peer spelt in more bytes than needed (a legal VarInt): what counts is the room it takes
		idb = []byte{0x85}
		for len(idb) < b.Idlen-1 {
			idb = append(idb, 0x80)
		}
		idb = append(idb, 0x00)
	default:
		idb = fvPut(nil, 5)
		b.Idlen = 1
	}
	var wire []byte
	h := map[string]any{"idlen": b.Idlen}
	switch {
	case b.Thr < 0:
		wire = fvPut(nil, int32(b.Plen))
		wire = append(wire, idb...)
		if k := b.Plen - b.Idlen; k > 0 && k < 3<<20 {
			wire = append(wire, make([]byte, k)...)
		}
		h["plen"], h["dlen"], h["infl"] = b.Plen, -1, 0
	case b.Dlen == 0:
		wire = fvPut(nil, int32(b.Plen))
		wire = fvPut(wire, 0)
		wire = append(wire, idb...)
		if k := b.Plen - 1 - b.Idlen; k > 0 && k < 3<<20 {
			wire = append(wire, make([]byte, k)...)
		}
		h["plen"], h["dlen"], h["infl"] = b.Plen, 0, 0
	default:
		infl := b.Infl
		if infl < 0 || infl > 3<<20 {
			infl = 10
		}
		content := append([]byte{}, idb...)
		if infl > len(content) {
			content = append(content, make([]byte, infl-len(content))...)
		} else {
			content = content[:infl]
		}
		var z bytes.Buffer
		zw := zlib.NewWriter(&z)
		zw.Write(content)
		zw.Close()
		body := fvPut(nil, int32(b.Dlen))
		body = append(body, z.Bytes()...)
		wire = fvPut(nil, int32(len(body)))
		wire = append(wire, body...)
		h["plen"], h["dlen"], h["infl"] = len(body), b.Dlen, len(content)
	}
	wire = append(wire, 0x01, 0x02, 0x03)
	var p pk.Packet
	var err error
	done := make(chan struct{})
	var pan bool
	go func() {
		defer close(done)
		pan, _ = catch(func() { err = p.UnPack(bytes.NewReader(wire), b.Thr) })
	}()
	select {
	case <-done:
	case <-time.After(20 * time.Second):
		pan = true // a decoder that spins is as bad as one that crashes
	}
	tr.Add(map[string]any{"k": "bad", "scn": scn, "thr": b.Thr, "h": h, "err": err != nil, "panicked": pan})
}

type frameScenario struct {
	Kind string      `json:"kind"`
	Thr  int         `json:"thr"`
	St   []frameStim `json:"st,omitempty"`
	Bad  *frameBad   `json:"bad,omitempty"`
	Seed int64       `json:"seed"`
	ID   int         `json:"id"`
}

func frameRun(tr *vk.Trace, sc frameScenario) {
	if sc.Kind == "bad" {
		frameBadEvent(tr, *sc.Bad, sc.ID)
		return
	}
	frameStream(tr, newRand(sc.Seed, fmt.Sprint("frame", sc.ID)), sc.Thr, sc.St, sc.ID)
}

func frameJudge(env *vk.Env, scs []frameScenario, label string) {
	tr := &vk.Trace{}
	var start []int
	for _, sc := range scs {
		start = append(start, tr.N+1)
		frameRun(tr, sc)
	}
	v, err := env.ValidateTrace(vk.TLCRun{Name: label, Module: "Frame_Trace", Cfg: "Frame_Trace.cfg", Workers: 1, Timeout: 20 * time.Minute}, "trace.ndjson", tr.Bytes())
	if err != nil {
		env.Infra("%s: %v", label, err)
		return
	}
	env.Sub(map[string]any{"run": label, "scenarios": len(scs), "events": tr.N, "accepted": v.Accepted})
	if v.Accepted {
		env.AddTraces(int64(len(scs)))
		env.AddEval(int64(tr.N))
		return
	}
	if v.HWM == 0 {
		env.Infra("%s: no verdict:\n%s", label, v.Res.Output)
		return
	}
	bi := 0
	for i := range scs {
		if start[i] <= v.HWM {
			bi = i
		}
	}
	sig, detail, rej := frameRejudge(env, scs[bi])
	if rej {
		env.Report(sig, detail, map[string]any{"scenario": scs[bi]})
	} else {
		env.Infra("%s: rejection at line %d did not reproduce for scenario %d", label, v.HWM, scs[bi].ID)
	}
}

func frameRejudge(env *vk.Env, sc frameScenario) (sig, detail string, rejected bool) {
	tr := &vk.Trace{}
	if sc.Kind == "bad" {
		tr.Add(map[string]any{"k": "reset", "thr": sc.Thr, "scn": sc.ID})
	}
	frameRun(tr, sc)
	v, err := env.ValidateTrace(vk.TLCRun{Name: "rejudge", Module: "Frame_Trace", Cfg: "Frame_Trace.cfg", Workers: 1, NoCount: true}, "trace.ndjson", tr.Bytes())
	if err != nil || v.Accepted || v.HWM == 0 {
		return "", "", false
	}
	lines := bytes.Split(bytes.TrimSpace(tr.Bytes()), []byte("\n"))
	var ev struct {
		K   string                   `json:"k"`
		Err bool                     `json:"err"`
		Pan bool                     `json:"panicked"`
		F   frameRec                 `json:"f"`
		H   struct{ Plen, Dlen int } `json:"h"`
		Thr int                      `json:"thr"`
	}
	json.Unmarshal(lines[v.HWM-1], &ev)
	sig = "Frame trace rejected at " + ev.K
	switch ev.K {
	case "pack":
		sig += " (emitted frame not conformant or not one frame) mode=" + ev.F.Mode
	case "held":
		sig += " (a packet unpacked earlier changed while later packets were unpacked)"
	case "unpack":
		sig += fmt.Sprintf(" (round trip broken) err=%v panicked=%v", ev.Err, ev.Pan)
	case "bad":
		cls := "compressed"
		if ev.Thr < 0 {
			cls = "plain"
		} else if ev.H.Dlen == 0 {
			cls = "marked"
		}
		sig += fmt.Sprintf(" (hostile header, %s mode) err=%v panicked=%v", cls, ev.Err, ev.Pan)
	}
	return sig, fmt.Sprintf("line %d: %s", v.HWM, vkTrunc(string(lines[v.HWM-1]), 400)), true
}

func runC07(env *vk.Env) {
	env.Cov.Rule = "S: TLC explores Frame.tla (threshold x id x size grid with every admissible frame, streams of <= 3 frames, hostile header grid). A: every TLC state is concretised into real Pack/UnPack calls. B: random streams of 1..50 frames, sizes dense around the threshold and the VarInt length boundaries, reused receiver. Judged by Frame_Trace. Distinct/non-trivial = distinct (threshold class, mode, size class) of accepted pack events plus hostile header classes."
	env.Assume = []string{"zlib itself (compress/zlib) is trusted", "declared sizes between the 2 MiB maximum and maximum+5 are a grey area (the maximum is counted with or without the packet id) and are not judged"}
	res := env.MustSpec(vk.TLCRun{Name: "S+A grid", Module: "Frame", Cfg: "Frame_MC.cfg", Workers: 4})
	if res == nil || env.MustSpec(vk.TLCRun{Name: "S streams", Module: "Frame", Cfg: "Frame_MC_stream.cfg", Workers: 4}) == nil {
		return
	}
	env.Cov.Exhaustive = true
	var scs []frameScenario
	type vec struct {
		Thr  int        `json:"thr"`
		Wire []frameRec `json:"wire"`
		Bad  struct {
			Plen, Dlen, Idlen, Infl int
			Verdict                 string
		} `json:"bad"`
	}
	seenStim := map[string]bool{}
	for i, s := range res.Printed {
		var v vec
		if err := json.Unmarshal([]byte(s), &v); err != nil {
			env.Infra("bad vector: %v", err)
			return
		}
		if v.Bad.Verdict != "none" && v.Bad.Verdict != "" {
			scs = append(scs, frameScenario{Kind: "bad", Thr: v.Thr, ID: i, Bad: &frameBad{Thr: v.Thr, Plen: v.Bad.Plen, Dlen: v.Bad.Dlen, Idlen: v.Bad.Idlen, Infl: v.Bad.Infl}})
			if v.Thr >= 0 && v.Bad.Dlen > 0 && v.Bad.Dlen < 64 {
				// the same header over a stream that really holds the whole id and more than declared: the declared
				// size is then the only thing that is wrong
				scs = append(scs, frameScenario{Kind: "bad", Thr: v.Thr, ID: i + 500000, Bad: &frameBad{Thr: v.Thr, Plen: v.Bad.Plen, Dlen: v.Bad.Dlen, Idlen: v.Bad.Idlen, Infl: v.Bad.Dlen + v.Bad.Idlen + 3}})
			}
			if v.Bad.Idlen == 1 && v.Bad.Plen >= 0 && v.Bad.Plen <= 70 {
				// the same header with the id spelt in 2..4 bytes (declared lengths shorter than the id, just enough, more)
				for il := 2; il <= 4; il++ {
					scs = append(scs, frameScenario{Kind: "bad", Thr: v.Thr, ID: i + 600000*il, Bad: &frameBad{Thr: v.Thr, Plen: v.Bad.Plen, Dlen: v.Bad.Dlen, Idlen: il, Infl: v.Bad.Infl}})
				}
				env.Distinct(fmt.Sprintf("bad/thr%d/padded-id", v.Thr))
			}
			env.Distinct(fmt.Sprintf("bad/thr%d/%s", v.Thr, v.Bad.Verdict))
			continue
		}
		for _, f := range v.Wire {
			key := fmt.Sprint(v.Thr, f.ID, f.N)
			if seenStim[key] {
				continue
			}
			seenStim[key] = true
			for _, zero := range []bool{false, true} {
				scs = append(scs, frameScenario{Kind: "stream", Thr: v.Thr, ID: len(scs) + 100000, Seed: env.Seed,
					St: []frameStim{{Thr: v.Thr, ID: int32(f.ID), N: f.N, Zero: zero}, {Thr: v.Thr, ID: int32(f.ID), N: 3}}})
			}
			env.Distinct(fmt.Sprintf("grid/thr%d/id%d/n%d", v.Thr, f.ID, f.N))
		}
	}
	if len(scs) < 200 {
		env.Infra("only %d scenarios from TLC vectors", len(scs))
		return
	}
	env.Sample(scs[0])
	env.Sample(scs[len(scs)-1])
	frameJudge(env, scs, "A tlc-vectors")
	// leg B
	rng := newRand(env.Seed, "c07b")
	var rs []frameScenario
	nstreams := env.Pick(40, 2500)
	for i := 0; i < nstreams; i++ {
		thr := []int{-1, 0, 1, 2, 63, 64, 65, 256, 1000, 2097152}[rng.Intn(10)]
		if rng.Intn(5) == 0 {
			thr = rng.Intn(5000)
		}
		nf := 1 + rng.Intn(50)
		sc := frameScenario{Kind: "stream", Thr: thr, ID: 200000 + i, Seed: env.Seed}
		for j := 0; j < nf; j++ {
			var n int
			switch rng.Intn(6) {
			case 0:
				n = thr - 2 + rng.Intn(5)
			case 1:
				n = []int{126, 127, 128, 16382, 16383, 16384, 16385}[rng.Intn(7)] - rng.Intn(3)
			case 2:
				n = rng.Intn(300)
			case 3:
				n = rng.Intn(70000)
			case 4:
				n = 0
			default:
				n = thr + rng.Intn(100)
			}
			if n < 0 {
				n = 0
			}
			if n > 2097146 {
				n = 2097146
			}
			if i%20 == 7 && j == 0 {
				n = 2097146 - rng.Intn(3) // id + payload right at the protocol maximum
			}
			id := []int32{0, 1, 127, 128, 0x7fffffff, -1, -0x80000000, int32(rng.Uint32())}[rng.Intn(8)]
			if n+5 > 2097152 && (id < 0 || id > 127) {
				id = 1
			}
			if i%20 == 7 && j == 0 {
				// id + payload exactly at the protocol maximum and just below it, whatever the width of the id
				n = 2097152 - len(fvPut(nil, id)) - rng.Intn(3)
			}
			sc.St = append(sc.St, frameStim{Thr: thr, ID: id, N: n, Zero: rng.Intn(3) == 0})
		}
		rs = append(rs, sc)
	}
	for i := 0; i < len(rs); i += 250 {
		j := i + 250
		if j > len(rs) {
			j = len(rs)
		}
		frameJudge(env, rs[i:j], fmt.Sprintf("B random streams %d..%d", i, j))
	}
	env.Sample(map[string]any{"stream": rs[0].ID, "thr": rs[0].Thr, "first": rs[0].St[0]})
}

func replayC07(env *vk.Env, b []byte) {
	var f struct {
		Replay struct {
			Scenario frameScenario `json:"scenario"`
		} `json:"replay"`
	}
	json.Unmarshal(b, &f)
	env.Cov.States, env.Cov.Transitions = 1, 1
	env.Sample(f.Replay.Scenario.ID)
	if sig, detail, rej := frameRejudge(env, f.Replay.Scenario); rej {
		env.Report(sig, detail, f.Replay)
	}
}
