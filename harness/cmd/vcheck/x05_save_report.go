package main

// X05 (b) save: coverage accounting and the informational table of fields (computed by TLC: SaveNBT_Trace!SaveInfo).

import (
	"fmt"
	"os"
	"sort"
	"strings"

	"verif/harness/vk"
)

func x5sSortedKeys(m map[string]int) []string {
	ks := make([]string, 0, len(m))
	for k := range m {
		ks = append(ks, k)
	}
	sort.Strings(ks)
	return ks
}

func x5sReport(env *vk.Env, files []*x5sFile, docs []x5sDocument, cov *x5sCover, info *x5sInfoTable, j *x5sJudge, classes map[string]int, nmut int) {
	perFile, perGroup := cov.covered()
	groups := []string{"level", "playerdata", "raids", "poi", "entities", "region", "snbt"}
	var parts []string
	tot, totCov := 0, 0
	for _, g := range groups {
		parts = append(parts, fmt.Sprintf("%s %d/%d B (%.1f%%)", g, perGroup[g], cov.total[g], 100*float64(perGroup[g])/float64(max(1, cov.total[g]))))
		tot += cov.total[g]
		totCov += perGroup[g]
	}
	env.Note("spec-extension Save coverage: %d fixture documents + %d mutated documents judged by TLC (%.0f s of TLC in %d runs, %d document bytes); decompressed fixture bytes covered: %s; all %d/%d B (%.1f%%)",
		len(docs), nmut, j.tlcS, j.part, j.inB, strings.Join(parts, ", "), totCov, tot, 100*float64(totCov)/float64(max(1, tot)))
	sub := map[string]any{"run": "save coverage", "mutation_classes": classes}
	for _, f := range files {
		sub[f.Rel] = fmt.Sprintf("%d/%d bytes, %d/%d documents", perFile[f.Rel], cov.perFile[f.Rel], len(cov.docs[f.Rel]), cov.ndocs[f.Rel])
	}
	env.Sub(sub)

	// the informational table
	targets := []string{"Level", "LevelData", "PlayerData", "Chunk", "Section", "Entity", "DimensionType"}
	var summary []string
	var newRows []string
	for _, t := range targets {
		if info.docs[t] == 0 {
			continue
		}
		summary = append(summary, fmt.Sprintf("%s: %d documents, %d undeclared fields dropped, %d declared fields absent somewhere", t, info.docs[t], len(info.unknown[t]), len(info.absent[t])))
		for _, p := range x5sSortedKeys(info.unknown[t]) {
			if !x5sBaselineUnknown[t+p] {
				newRows = append(newRows, t+p+" (in the document, not declared)")
			}
		}
		for _, p := range x5sSortedKeys(info.absent[t]) {
			if !x5sBaselineAbsent[t+p] {
				newRows = append(newRows, t+p+" (declared, in no sampled document / not in all)")
			}
		}
	}
	env.Note("spec-extension Save info: fields the typed structs silently drop / declare beyond the fixtures (computed by TLC, not a finding; table in notes/notes_X05.md section B5): %s; documents with a grey field name: %d",
		strings.Join(summary, "; "), info.grey)
	if len(newRows) > 0 {
		sort.Strings(newRows)
		if len(newRows) > 12 {
			newRows = append(newRows[:12], fmt.Sprintf("... %d more", len(newRows)-12))
		}
		env.Note("spec-extension Save info-change: rows that are not in the recorded table of dropped / absent fields: %s", strings.Join(newRows, "; "))
	}
	if p := os.Getenv("VERIF_X05_TABLE"); p != "" {
		var b strings.Builder
		for _, t := range targets {
			fmt.Fprintf(&b, "### %s (%d documents)\n", t, info.docs[t])
			fmt.Fprintf(&b, "in the documents, not declared (dropped on load): ")
			for _, k := range x5sSortedKeys(info.unknown[t]) {
				fmt.Fprintf(&b, "`%s` (%d) ", strings.TrimPrefix(k, "."), info.unknown[t][k])
			}
			fmt.Fprintf(&b, "\n\ndeclared, absent from documents: ")
			for _, k := range x5sSortedKeys(info.absent[t]) {
				fmt.Fprintf(&b, "`%s` (%d) ", strings.TrimPrefix(k, "."), info.absent[t][k])
			}
			fmt.Fprintf(&b, "\n\n")
		}
		fmt.Fprintf(&b, "### Go baseline\nunknown: ")
		for _, t := range targets {
			for _, k := range x5sSortedKeys(info.unknown[t]) {
				fmt.Fprintf(&b, "%q, ", t+k)
			}
		}
		fmt.Fprintf(&b, "\nabsent: ")
		for _, t := range targets {
			for _, k := range x5sSortedKeys(info.absent[t]) {
				fmt.Fprintf(&b, "%q, ", t+k)
			}
		}
		fmt.Fprintf(&b, "\n\n### per file\n")
		for _, f := range files {
			fmt.Fprintf(&b, "| %s | %d | %d | %d/%d |\n", f.Rel, cov.perFile[f.Rel], perFile[f.Rel], len(cov.docs[f.Rel]), cov.ndocs[f.Rel])
		}
		os.WriteFile(p, []byte(b.String()), 0o644)
	}
}

func x5sSet(l ...string) map[string]bool {
	m := map[string]bool{}
	for _, s := range l {
		m[s] = true
	}
	return m
}

// the recorded table (unchanged tree; one run over every chunk and section of the fixtures plus the thorough tier):
// rows outside it are printed as "info-change"
var x5sBaselineUnknown = x5sSet(
	"Level.Data.DragonFight.Dragon", "Level.Data.DragonFight.ExitPortalLocation",
	"Entity.AbsorptionAmount", "Entity.Age", "Entity.AngerTime", "Entity.AngryAt", "Entity.ArmorDropChances", "Entity.ArmorItems", "Entity.Attributes",
	"Entity.BatFlags", "Entity.BlockState", "Entity.Brain", "Entity.CanBreakDoors", "Entity.CanPickUpLoot", "Entity.CollarColor", "Entity.Color",
	"Entity.Crouching", "Entity.DarkTicksRemaining", "Entity.DeathTime", "Entity.DropItem", "Entity.DrownedConversionTime", "Entity.EggLayTime",
	"Entity.ExplosionRadius", "Entity.FallFlying", "Entity.FallHurtAmount", "Entity.FallHurtMax", "Entity.ForcedAge", "Entity.Fuse",
	"Entity.HandDropChances", "Entity.HandItems", "Entity.Health", "Entity.HurtByTimestamp", "Entity.HurtEntities", "Entity.HurtTime", "Entity.InLove",
	"Entity.InWaterTime", "Entity.IsBaby", "Entity.IsChickenJockey", "Entity.LeftHanded", "Entity.MoreCarrotTicks", "Entity.PersistenceRequired",
	"Entity.RabbitType", "Entity.Saddle", "Entity.Sheared", "Entity.Sitting", "Entity.Sleeping", "Entity.StrayConversionTime", "Entity.Time",
	"Entity.Trusted", "Entity.Type", "Entity.id", "Entity.ignited", "LevelData.DragonFight.Dragon", "LevelData.DragonFight.ExitPortalLocation",
	"PlayerData.Brain", "PlayerData.SleepTimer", "PlayerData.data", "PlayerData.palette", "PlayerData.previousPlayerGameType",
	"PlayerData.recipeBook.isBlastingFurnaceFilteringCraftable", "PlayerData.recipeBook.isBlastingFurnaceGuiOpen",
	"PlayerData.recipeBook.isSmokerFilteringCraftable", "PlayerData.recipeBook.isSmokerGuiOpen", "PlayerData.recipeBook.recipes",
	"PlayerData.recipeBook.toBeDisplayed", "PlayerData.warden_spawn_tracker",
)
var x5sBaselineAbsent = x5sSet(
	"Chunk.CarvingMasks", "Chunk.Lights", "Chunk.entities", "Chunk.sections[].BlockLight", "Chunk.sections[].SkyLight", "Chunk.sections[].biomes.data",
	"Chunk.sections[].block_states.data", "Chunk.sections[].block_states.palette[].Properties", "DimensionType.fixed_time", "DimensionType.height",
	"DimensionType.min_y", "DimensionType.monster_spawn_block_light_limit", "DimensionType.monster_spawn_light_level", "Entity.CustomName",
	"Entity.CustomNameVisible", "Entity.Glowing", "Entity.HasVisualFire", "Entity.NoGravity", "Entity.Silent", "Entity.Tags", "Entity.TicksFrozen",
	"Level.Data.DimensionData", "Level.Data.MapFeatures", "Level.Data.RandomSeed", "Level.Data.SizeOnDisk", "Level.Data.WanderingTraderId",
	"LevelData.DimensionData", "LevelData.MapFeatures", "LevelData.RandomSeed", "LevelData.SizeOnDisk", "LevelData.WanderingTraderId",
	"PlayerData.Inventory[].tag", "Section.BlockLight", "Section.SkyLight", "Section.biomes.data", "Section.block_states.data",
	"Section.block_states.palette[].Properties",
)
