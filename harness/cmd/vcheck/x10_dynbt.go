package main

// X10, component (a): nbt/dynbt as a value-building API (specs/DynBT*.tla).

import (
	"bytes"
	"encoding/binary"
	"encoding/json"
	"fmt"
	"math"
	"math/rand"
	"reflect"
	"sort"
	"sync"
	"time"

	"github.com/Tnze/go-mc/nbt"
	"github.com/Tnze/go-mc/nbt/dynbt"
	"verif/harness/vk"
)

// names of the checks of DynBT_Trace (printed as <<"X2FAIL", line, {checks}>>)
var dyChecks = map[int][2]string{
	1:  {"NoPanic", "the call panicked (the one documented panic is Value.Set on a value that is no compound)"},
	2:  {"Fresh", "a new world is not empty"},
	3:  {"Frame", "the call changed, created or lost values it has no business with (values the operation does not name differ before / after, or unexpected new *Value objects)"},
	4:  {"NewLeaf", "a leaf constructor (NewBoolean .. NewLongArray) built a value whose tag / payload is not the argument"},
	5:  {"NewList", "NewList did not build a list holding exactly the given values (no copy, in order)"},
	6:  {"NewCompound", "NewCompound did not build an empty compound"},
	7:  {"SetReplace", "Set of a name that is present did not replace the FIRST entry of that name in place (position and the other entries kept)"},
	8:  {"SetAppend", "Set of a new name did not append exactly one entry holding the given value"},
	9:  {"SetPanic", "Value.Set on a value that is no compound did not panic or changed the value"},
	10: {"Get", "Value.Get(keys...) did not answer the value the path leads to (nil for a missing name or a step through a non-compound)"},
	11: {"CompoundAPI", "Compound().Get / Len / Visit disagree with the entries of the compound"},
	12: {"NilCompound", "Compound() of a value that is no compound is nil, and Get / Len on that nil *Compound dereference it (Visit tolerates it): an accessor chain on the wrong tag type panics"},
	13: {"Accessors", "an accessor (TagType, Boolean .. String, ByteArray, IntArray, LongArray, List, Compound) did not answer the abstract content / the zero answer for another tag"},
	14: {"Encode", "the bytes written for a value are not EncDoc(tree of the value) as TLC computes them"},
	15: {"WellFormedOut", "Marshal answered nil error but what it wrote is not an NBT document of that value: a list with elements of different tags is written under the first element's tag"},
	16: {"DecodeOK", "decoding a well-formed document failed, consumed a different number of bytes, or the value is not the document's tree"},
	17: {"DecodeInPlace", "after decoding, the descendants of the target are not all new values held exactly once"},
	18: {"DecodeBad", "a truncated document, a negative length or an unknown tag was decoded without error"},
	19: {"ReEncode", "Marshal -> Unmarshal into a new value -> Marshal of a well-formed value is not the identity on the bytes"},
	20: {"Closed", "the heap reachable from the harness' handles contains a nil / unknown child or a cycle"},
}

// ------------------------------------------------------------------ nodes (heap cells as the specification sees them)

type dyNode struct {
	T    int
	Et   int
	Pat  []int   // t in 1..8
	Wds  [][]int // t in 11, 12
	Kids []int   // t = 9: elements; t = 10: values
	Keys [][]int // t = 10
}

func (n dyNode) MarshalJSON() ([]byte, error) {
	switch {
	case n.T == 0:
		return []byte(`{"t":0}`), nil
	case n.T == 9:
		k := n.Kids
		if k == nil {
			k = []int{}
		}
		return json.Marshal(map[string]any{"t": 9, "et": n.Et, "v": k})
	case n.T == 10:
		es := make([]map[string]any, len(n.Kids))
		for i := range n.Kids {
			key := n.Keys[i]
			if key == nil {
				key = []int{}
			}
			es[i] = map[string]any{"k": key, "n": n.Kids[i]}
		}
		return json.Marshal(map[string]any{"t": 10, "v": es})
	case n.T == 11 || n.T == 12:
		w := n.Wds
		if w == nil {
			w = [][]int{}
		}
		return json.Marshal(map[string]any{"t": n.T, "v": w})
	default:
		p := n.Pat
		if p == nil {
			p = []int{}
		}
		return json.Marshal(map[string]any{"t": n.T, "v": p})
	}
}

// dyNodeOfTLA converts a node of a TLC state (heap element / act.node) into a dyNode.
func dyNodeOfTLA(v any) dyNode {
	m := v.(map[string]any)
	n := dyNode{T: m["t"].(int)}
	switch {
	case n.T == 0:
	case n.T == 9:
		n.Et = m["et"].(int)
		n.Kids = x2Ints(m["v"])
	case n.T == 10:
		for _, e := range m["v"].([]any) {
			em := e.(map[string]any)
			n.Keys = append(n.Keys, x2Ints(em["k"]))
			n.Kids = append(n.Kids, em["n"].(int))
		}
	case n.T == 11 || n.T == 12:
		n.Wds = [][]int{}
		for _, w := range m["v"].([]any) {
			n.Wds = append(n.Wds, x2Ints(w))
		}
	default:
		n.Pat = x2Ints(m["v"])
	}
	return n
}

// ------------------------------------------------------------------ projection (read-only, through reflect)

type dyRaw struct {
	tag, elem int
	data      []byte
	list      []*dynbt.Value
	keys      []string
	vals      []*dynbt.Value
}

func dyReadRaw(v *dynbt.Value) (r dyRaw, ok bool) {
	defer func() {
		if recover() != nil {
			ok = false
		}
	}()
	rv := reflect.ValueOf(v).Elem()
	ft, fe, fd, fl, fc := rv.FieldByName("tag"), rv.FieldByName("elem"), rv.FieldByName("data"), rv.FieldByName("list"), rv.FieldByName("comp")
	if !ft.IsValid() || !fe.IsValid() || !fd.IsValid() || !fl.IsValid() || !fc.IsValid() {
		return r, false
	}
	r.tag, r.elem = int(ft.Uint()), int(fe.Uint())
	r.data = append([]byte{}, fd.Bytes()...)
	for i := 0; i < fl.Len(); i++ {
		r.list = append(r.list, (*dynbt.Value)(fl.Index(i).UnsafePointer()))
	}
	kvs := fc.FieldByName("kvs")
	if !kvs.IsValid() {
		return r, false
	}
	for i := 0; i < kvs.Len(); i++ {
		e := kvs.Index(i)
		r.keys = append(r.keys, e.Field(0).String())
		r.vals = append(r.vals, (*dynbt.Value)(e.Field(1).UnsafePointer()))
	}
	return r, true
}

type dyWorld struct {
	ptr  map[int]*dynbt.Value
	id   map[*dynbt.Value]int
	next int
	live []int // handles, in the order they were taken
	bad  bool  // the projection could not read a value (field layout changed)
}

func newDyWorld() *dyWorld {
	return &dyWorld{ptr: map[int]*dynbt.Value{}, id: map[*dynbt.Value]int{}}
}

func (w *dyWorld) reg(v *dynbt.Value) int {
	if v == nil {
		return 0
	}
	if id, ok := w.id[v]; ok {
		return id
	}
	w.next++
	w.id[v], w.ptr[w.next] = w.next, v
	return w.next
}

func (w *dyWorld) hold(id int) {
	for _, h := range w.live {
		if h == id {
			return
		}
	}
	w.live = append(w.live, id)
}

func (w *dyWorld) node(v *dynbt.Value) dyNode {
	r, ok := dyReadRaw(v)
	if !ok {
		w.bad = true
		return dyNode{T: 0}
	}
	n := dyNode{T: r.tag}
	switch {
	case r.tag == 0:
	case r.tag >= 1 && r.tag <= 6:
		n.Pat = ints(r.data)
	case r.tag == 7:
		if len(r.data) >= 4 {
			n.Pat = ints(r.data[4:])
		}
	case r.tag == 8:
		if len(r.data) >= 2 {
			n.Pat = ints(r.data[2:])
		}
	case r.tag == 9:
		n.Et = r.elem
		n.Kids = []int{}
		for _, e := range r.list {
			n.Kids = append(n.Kids, w.reg(e))
		}
	case r.tag == 10:
		n.Kids, n.Keys = []int{}, [][]int{}
		for i, e := range r.vals {
			n.Keys = append(n.Keys, ints([]byte(r.keys[i])))
			n.Kids = append(n.Kids, w.reg(e))
		}
	case r.tag == 11 || r.tag == 12:
		wd := 4
		if r.tag == 12 {
			wd = 8
		}
		n.Wds = [][]int{}
		if len(r.data) >= 4 {
			for p := 4; p+wd <= len(r.data); p += wd {
				n.Wds = append(n.Wds, ints(r.data[p:p+wd]))
			}
		}
	default:
		n.Pat = []int{}
	}
	return n
}

// project: every value reachable from the handles, as id -> node
func (w *dyWorld) project() map[int]dyNode {
	out := map[int]dyNode{}
	var walk func(id int)
	walk = func(id int) {
		if id == 0 {
			return
		}
		if _, seen := out[id]; seen {
			return
		}
		n := w.node(w.ptr[id])
		out[id] = n
		if n.T == 9 || n.T == 10 {
			for _, k := range n.Kids {
				walk(k)
			}
		}
	}
	for _, h := range w.live {
		walk(h)
	}
	return out
}

func dyHeapJSON(h map[int]dyNode) []any {
	ids := make([]int, 0, len(h))
	for id := range h {
		ids = append(ids, id)
	}
	sort.Ints(ids)
	out := make([]any, 0, len(ids))
	for _, id := range ids {
		out = append(out, []any{id, h[id]})
	}
	return out
}

// adopt numbers the descendants of a freshly decoded value the way DynBT!Install does: the children of a node get
// consecutive ids when the node is reached, then every child is visited in order.
func (w *dyWorld) adopt(v *dynbt.Value) {
	r, ok := dyReadRaw(v)
	if !ok {
		return
	}
	var kids []*dynbt.Value
	if r.tag == 9 {
		kids = r.list
	} else if r.tag == 10 {
		kids = r.vals
	}
	fresh := []*dynbt.Value{}
	for _, k := range kids {
		if k == nil {
			continue
		}
		if _, known := w.id[k]; !known {
			w.reg(k)
			fresh = append(fresh, k)
		}
	}
	for _, k := range fresh {
		w.adopt(k)
	}
}

// ------------------------------------------------------------------ abstract helpers on a projected heap (concretisation only)

func dyReach(h map[int]dyNode, from int) map[int]bool {
	seen := map[int]bool{}
	var walk func(int)
	walk = func(i int) {
		if seen[i] {
			return
		}
		seen[i] = true
		if n, ok := h[i]; ok && (n.T == 9 || n.T == 10) {
			for _, k := range n.Kids {
				walk(k)
			}
		}
	}
	walk(from)
	return seen
}

func dySize(h map[int]dyNode, i int, depth int) (size, deep int) {
	n := h[i]
	size, deep = 1, depth
	if depth > 40 {
		return 1 << 20, depth
	}
	if n.T == 9 || n.T == 10 {
		for _, k := range n.Kids {
			s, d := dySize(h, k, depth+1)
			size += s
			if d > deep {
				deep = d
			}
		}
	}
	return
}

// dyWF: the tree of value i is an NBT document (lists homogeneous, no End values inside)
func dyWF(h map[int]dyNode, i int, depth int) bool {
	n := h[i]
	if depth > 40 {
		return false
	}
	switch n.T {
	case 9:
		for _, k := range n.Kids {
			if h[k].T != h[n.Kids[0]].T || h[k].T == 0 || !dyWF(h, k, depth+1) {
				return false
			}
		}
	case 10:
		for _, k := range n.Kids {
			if h[k].T == 0 || !dyWF(h, k, depth+1) {
				return false
			}
		}
	}
	return true
}

func dyInSomeList(h map[int]dyNode, i int) bool {
	for _, n := range h {
		if n.T == 9 {
			for _, k := range n.Kids {
				if k == i {
					return true
				}
			}
		}
	}
	return false
}

// ------------------------------------------------------------------ scenarios

type dyExp struct {
	Heap  []dyNode `json:"heap"` // the heap TLC computed (ids 1..n)
	Ret   int      `json:"ret"`
	Bytes []int    `json:"bytes,omitempty"`
	Layer string   `json:"layer"`
}

type dyOp struct {
	Op    string  `json:"op"` // reset new newlist newcomp set get comp acc enc dec redec drop
	ID    int     `json:"id,omitempty"`
	Ctor  string  `json:"ctor,omitempty"`
	Pat   []int   `json:"pat,omitempty"`
	Wds   [][]int `json:"wds,omitempty"`
	Kids  []int   `json:"kids,omitempty"`
	C     int     `json:"c,omitempty"`
	X     int     `json:"x,omitempty"`
	Key   []int   `json:"key,omitempty"`
	Via   string  `json:"via,omitempty"`
	Keys  [][]int `json:"keys,omitempty"`
	Fmt   string  `json:"fmt,omitempty"`
	Name  []int   `json:"name,omitempty"`
	Input []int   `json:"input,omitempty"`
	Adopt bool    `json:"adopt,omitempty"`
	Exp   *dyExp  `json:"exp,omitempty"`
}

type dyScenario struct {
	ID     int    `json:"id"`
	Origin string `json:"origin"`
	Ops    []dyOp `json:"ops"`
}

type dyExec struct {
	w     *dyWorld
	t     *x2Trace
	sc    *dyScenario
	nops  int
	book  *x2Book
	stop  bool
	class map[string]int
	cur   map[int]dyNode
	all   bool // leg A: every value ever seen stays a handle (the TLC heap never forgets)
}

func dyBE(p []int) uint64 {
	var u uint64
	for _, b := range p {
		u = u<<8 | uint64(byte(b))
	}
	return u
}

func dyBuild(ctor string, pat []int, wds [][]int) *dynbt.Value {
	switch ctor {
	case "zero":
		return new(dynbt.Value)
	case "bool":
		return dynbt.NewBoolean(len(pat) > 0 && pat[0] != 0)
	case "byte":
		return dynbt.NewByte(int8(dyBE(pat)))
	case "short":
		return dynbt.NewShort(int16(dyBE(pat)))
	case "int":
		return dynbt.NewInt(int32(dyBE(pat)))
	case "long":
		return dynbt.NewLong(int64(dyBE(pat)))
	case "float":
		return dynbt.NewFloat(math.Float32frombits(uint32(dyBE(pat))))
	case "double":
		return dynbt.NewDouble(math.Float64frombits(dyBE(pat)))
	case "bytearray":
		return dynbt.NewByteArray(bytesOf(pat))
	case "string":
		return dynbt.NewString(string(bytesOf(pat)))
	case "intarray":
		a := make([]int32, len(wds))
		for i, w := range wds {
			a[i] = int32(dyBE(w))
		}
		return dynbt.NewIntArray(a)
	case "longarray":
		a := make([]int64, len(wds))
		for i, w := range wds {
			a[i] = int64(dyBE(w))
		}
		return dynbt.NewLongArray(a)
	}
	return nil
}

func dyCtorOf(n dyNode, salt int) string {
	switch n.T {
	case 1:
		if len(n.Pat) == 1 && n.Pat[0] <= 1 && salt%2 == 0 {
			return "bool"
		}
		return "byte"
	case 2:
		return "short"
	case 3:
		return "int"
	case 4:
		return "long"
	case 5:
		return "float"
	case 6:
		return "double"
	case 7:
		return "bytearray"
	case 8:
		return "string"
	case 11:
		return "intarray"
	case 12:
		return "longarray"
	}
	return "zero"
}

func dyBE2(u uint64, w int) []int {
	b := make([]byte, 8)
	binary.BigEndian.PutUint64(b, u)
	return ints(b[8-w:])
}

func (x *dyExec) accRecord(v *dynbt.Value) map[string]any {
	ia, la := v.IntArray(), v.LongArray()
	iw, lw := [][]int{}, [][]int{}
	for _, e := range ia {
		iw = append(iw, dyBE2(uint64(uint32(e)), 4))
	}
	for _, e := range la {
		lw = append(lw, dyBE2(uint64(e), 8))
	}
	lst := []int{}
	for _, e := range v.List() {
		lst = append(lst, x.w.reg(e))
	}
	ba := v.ByteArray()
	return map[string]any{
		"tag": int(v.TagType()), "boolean": v.Boolean(),
		"byte": dyBE2(uint64(uint8(v.Byte())), 1), "short": dyBE2(uint64(uint16(v.Short())), 2),
		"int": dyBE2(uint64(uint32(v.Int())), 4), "long": dyBE2(uint64(v.Long()), 8),
		"float": dyBE2(uint64(math.Float32bits(v.Float())), 4), "double": dyBE2(math.Float64bits(v.Double()), 8),
		"str": ints([]byte(v.String())),
		"ba":  ints(ba), "banil": ba == nil, "ia": iw, "ianil": ia == nil, "la": lw, "lanil": la == nil,
		"list": lst, "compnil": v.Compound() == nil,
	}
}

func dyStrs(keys [][]int) []string {
	out := make([]string, len(keys))
	for i, k := range keys {
		out[i] = string(bytesOf(k))
	}
	return out
}

func dyEncode(v *dynbt.Value, fmtName string, name []int) (b []byte, err error) {
	if fmtName == "file" && len(name) == 0 {
		return nbt.Marshal(v)
	}
	var buf bytes.Buffer
	enc := nbt.NewEncoder(&buf)
	enc.NetworkFormat(fmtName == "network")
	err = enc.Encode(v, string(bytesOf(name)))
	return buf.Bytes(), err
}

func dyCap(b []byte) []int {
	if len(b) > 6000 {
		b = b[:6000]
	}
	return ints(b)
}

// dyCyclic: value i lies on a cycle or reaches one (MarshalNBT would not return: such a value is never encoded)
func dyCyclic(h map[int]dyNode, i int) bool {
	state := map[int]int{}
	var walk func(int) bool
	walk = func(j int) bool {
		if state[j] == 1 {
			return true
		}
		if state[j] == 2 {
			return false
		}
		state[j] = 1
		if n, ok := h[j]; ok && (n.T == 9 || n.T == 10) {
			for _, k := range n.Kids {
				if walk(k) {
					return true
				}
			}
		}
		state[j] = 2
		return false
	}
	return walk(i)
}

func (x *dyExec) do(op dyOp) {
	w := x.w
	if x.stop && x.all {
		return // leg A: the rest of the behaviour was chosen for another state
	}
	if (op.Op == "enc" || op.Op == "redec") && dyCyclic(x.cur, op.ID) {
		return
	}
	if op.Op == "set" && x.cur != nil && dyReach(x.cur, op.X)[op.C] {
		return // would put a value inside itself
	}
	ev := map[string]any{"k": op.Op, "id": op.ID, "panicked": false}
	outcome := ""
	switch op.Op {
	case "reset":
		x.w = newDyWorld()
		w = x.w
	case "new":
		var v *dynbt.Value
		if p, _ := catch(func() { v = dyBuild(op.Ctor, op.Pat, op.Wds) }); p || v == nil {
			ev["panicked"] = true
			v = new(dynbt.Value)
		}
		ev["id"] = w.reg(v)
		w.hold(w.id[v])
		ev["ctor"] = op.Ctor
		if op.Ctor == "intarray" || op.Ctor == "longarray" {
			wd := op.Wds
			if wd == nil {
				wd = [][]int{}
			}
			ev["arg"] = wd
		} else {
			p := op.Pat
			if p == nil {
				p = []int{}
			}
			ev["arg"] = p
		}
		outcome = op.Ctor
	case "newlist":
		elems := make([]*dynbt.Value, len(op.Kids)) // a slice of its own for every call
		for i, k := range op.Kids {
			elems[i] = w.ptr[k]
		}
		var v *dynbt.Value
		if p, _ := catch(func() { v = dynbt.NewList(elems...) }); p || v == nil {
			ev["panicked"] = true
			v = new(dynbt.Value)
		}
		ev["id"] = w.reg(v)
		w.hold(w.id[v])
		ev["kids"] = append([]int{}, op.Kids...)
		outcome = fmt.Sprint("n=", len(op.Kids))
	case "newcomp":
		var v *dynbt.Value
		if p, _ := catch(func() { v = dynbt.NewCompound() }); p || v == nil {
			ev["panicked"] = true
			v = new(dynbt.Value)
		}
		ev["id"] = w.reg(v)
		w.hold(w.id[v])
	case "set":
		c, xv := w.ptr[op.C], w.ptr[op.X]
		via := op.Via
		if via == "compound" && c.Compound() == nil {
			via = "value"
		}
		key := string(bytesOf(op.Key))
		p, _ := catch(func() {
			if via == "compound" {
				c.Compound().Set(key, xv)
			} else {
				c.Set(key, xv)
			}
		})
		k := op.Key
		if k == nil {
			k = []int{}
		}
		ev["panicked"], ev["c"], ev["x"], ev["key"], ev["via"] = p, op.C, op.X, k, via
		outcome = fmt.Sprint(via, "/panic=", p)
	case "get":
		var ret *dynbt.Value
		p, _ := catch(func() { ret = w.ptr[op.ID].Get(dyStrs(op.Keys)...) })
		ks := op.Keys
		if ks == nil {
			ks = [][]int{}
		}
		ev["panicked"], ev["keys"], ev["ret"] = p, ks, w.reg(ret)
		if ret != nil {
			w.hold(w.id[ret]) // the pointer handed out is a handle like any other
		}
		outcome = fmt.Sprint("depth=", len(op.Keys), "/nil=", ret == nil)
	case "comp":
		v := w.ptr[op.ID]
		key := string(bytesOf(op.Key))
		var c *dynbt.Compound
		cp := []string{}
		ret, ln := 0, 0
		visit := [][]any{}
		p, _ := catch(func() { c = v.Compound() })
		if pp, _ := catch(func() { ret = w.reg(c.Get(key)) }); pp {
			cp = append(cp, "Get")
		}
		if pp, _ := catch(func() { ln = c.Len() }); pp {
			cp = append(cp, "Len")
		}
		if pp, _ := catch(func() {
			c.Visit(func(tag string, e *dynbt.Value) { visit = append(visit, []any{ints([]byte(tag)), w.reg(e)}) })
		}); pp {
			cp = append(cp, "Visit")
		}
		k := op.Key
		if k == nil {
			k = []int{}
		}
		ev["panicked"], ev["key"], ev["nil"], ev["ret"], ev["len"], ev["visit"], ev["cpanics"] = p, k, c == nil, ret, ln, visit, cp
		outcome = fmt.Sprint("nil=", c == nil)
	case "acc":
		var a map[string]any
		p, _ := catch(func() { a = x.accRecord(w.ptr[op.ID]) })
		if a == nil {
			a = map[string]any{"tag": -1, "boolean": false, "byte": []int{}, "short": []int{}, "int": []int{}, "long": []int{}, "float": []int{0, 0, 0, 0},
				"double": []int{0, 0, 0, 0, 0, 0, 0, 0}, "str": []int{}, "ba": []int{}, "banil": false, "ia": []int{}, "ianil": false, "la": []int{}, "lanil": false,
				"list": []int{}, "compnil": false}
		}
		ev["panicked"], ev["a"] = p, a
		outcome = fmt.Sprint("tag=", a["tag"])
	case "enc":
		var b []byte
		var err error
		p, _ := catch(func() { b, err = dyEncode(w.ptr[op.ID], op.Fmt, op.Name) })
		nm := op.Name
		if nm == nil {
			nm = []int{}
		}
		ev["panicked"], ev["fmt"], ev["name"], ev["bytes"], ev["err"] = p, op.Fmt, nm, dyCap(b), err != nil
		outcome = fmt.Sprint(op.Fmt, "/err=", err != nil)
	case "redec":
		var b, b2 []byte
		var err, err2, derr error
		p, _ := catch(func() {
			b, err = dyEncode(w.ptr[op.ID], op.Fmt, op.Name)
			if err != nil {
				return
			}
			back := new(dynbt.Value)
			dec := nbt.NewDecoder(bytes.NewReader(b))
			dec.NetworkFormat(op.Fmt == "network")
			var name string
			name, derr = dec.Decode(back)
			if derr != nil {
				return
			}
			b2, err2 = dyEncode(back, op.Fmt, ints([]byte(name)))
		})
		nm := op.Name
		if nm == nil {
			nm = []int{}
		}
		ev["panicked"], ev["fmt"], ev["name"], ev["bytes"], ev["err"] = p, op.Fmt, nm, dyCap(b), err != nil
		ev["ok"], ev["bytes2"] = derr == nil && err2 == nil && err == nil, dyCap(b2)
		outcome = fmt.Sprint(op.Fmt, "/ok=", ev["ok"])
	case "dec":
		var v *dynbt.Value
		if op.ID == 0 || w.ptr[op.ID] == nil {
			v = new(dynbt.Value)
			ev["id"] = w.reg(v)
		} else {
			v = w.ptr[op.ID]
		}
		w.hold(w.id[v])
		in := bytesOf(op.Input)
		br := bytes.NewReader(in)
		var name string
		var err error
		p, _ := catch(func() {
			dec := nbt.NewDecoder(br)
			dec.NetworkFormat(op.Fmt == "network")
			name, err = dec.Decode(v)
		})
		if err == nil && !p {
			w.adopt(v)
		}
		ev["panicked"], ev["fmt"], ev["input"], ev["ok"], ev["n"], ev["name"] = p, op.Fmt, append([]int{}, op.Input...), err == nil && !p, len(in)-br.Len(), ints([]byte(name))
		outcome = fmt.Sprint(op.Fmt, "/ok=", err == nil, "/fresh=", op.ID == 0)
	case "drop":
		keep := w.live[:0]
		for _, h := range w.live {
			if h != op.ID {
				keep = append(keep, h)
			}
		}
		w.live = keep
	}
	if x.all {
		for id := 1; id <= w.next; id++ {
			w.hold(id)
		}
	}
	x.cur = w.project()
	if x.all { // values met while projecting (unexpected copies) are handles as well
		for id := 1; id <= w.next; id++ {
			w.hold(id)
		}
	}
	ev["heap"] = dyHeapJSON(x.cur)
	x.t.add(ev, x2Meta{Scenario: x.sc.ID, Origin: x.sc.Origin, Op: x.nops, Kind: op.Op}, x.sc)
	x.nops++
	if x.class != nil {
		x.class[fmt.Sprint("DynBT/", op.Op, "/", outcome)]++
	}
	// leg A: the state TLC computed
	if e := op.Exp; e != nil && !x.stop {
		what := ""
		want := map[int]dyNode{}
		for i, n := range e.Heap {
			want[i+1] = n
		}
		if got, exp := mustJSON(dyHeapJSON(x.cur)), mustJSON(dyHeapJSON(want)); got != exp {
			what = fmt.Sprintf("heap %s, TLC state %s", vkTrunc(dyDiff(x.cur, want), 260), "")
		} else if op.Op == "get" && ev["ret"] != e.Ret {
			what = fmt.Sprintf("Get = %v, TLC %d", ev["ret"], e.Ret)
		} else if op.Op == "enc" && mustJSON(ev["bytes"]) != mustJSON(e.Bytes) {
			what = fmt.Sprintf("bytes %s, TLC %s", vkTrunc(mustJSON(ev["bytes"]), 120), vkTrunc(mustJSON(e.Bytes), 120))
		}
		if what != "" {
			x.stop = true
			x.book.add("DynBT", fmt.Sprintf("Replay(%s) - %s: the real values differ from the state TLC computed", x.sc.Origin, op.Op),
				fmt.Sprintf("scenario %d op %d %s: %s", x.sc.ID, x.nops-1, vkTrunc(mustJSON(op), 200), what), x.sc)
		}
	}
}

func dyDiff(got, want map[int]dyNode) string {
	ids := map[int]bool{}
	for i := range got {
		ids[i] = true
	}
	for i := range want {
		ids[i] = true
	}
	l := []int{}
	for i := range ids {
		l = append(l, i)
	}
	sort.Ints(l)
	for _, i := range l {
		g, okg := got[i]
		w, okw := want[i]
		if !okg || !okw || mustJSON(g) != mustJSON(w) {
			return fmt.Sprintf("value %d is %s (present=%v), TLC has %s (present=%v)", i, mustJSON(g), okg, mustJSON(w), okw)
		}
	}
	return "equal"
}

func dyRun(sc dyScenario, t *x2Trace, book *x2Book) {
	x := &dyExec{w: newDyWorld(), t: t, sc: &sc, book: book, all: sc.Origin == "tlc-intent" || sc.Origin == "tlc-code"}
	for _, op := range sc.Ops {
		x.do(op)
	}
}

// ------------------------------------------------------------------ leg A: behaviours of DynBT_Gen

func dyBehaviourScenario(states []map[string]any, id int, origin string) (sc dyScenario, err error) {
	defer func() {
		if r := recover(); r != nil {
			err = fmt.Errorf("behaviour %d: unexpected state shape: %v", id, r)
		}
	}()
	sc = dyScenario{ID: id, Origin: origin}
	prevLen := 0
	for k, st := range states {
		act := st["act"].(map[string]any)
		exp := &dyExp{Layer: origin}
		hs, _ := st["heap"].([]any)
		for _, h := range hs {
			exp.Heap = append(exp.Heap, dyNodeOfTLA(h))
		}
		op := dyOp{Op: act["op"].(string), Exp: exp}
		switch op.Op {
		case "init":
			op.Op = "reset"
		case "new":
			n := dyNodeOfTLA(act["node"])
			op.Ctor, op.Pat, op.Wds = dyCtorOf(n, k), n.Pat, n.Wds
		case "newlist":
			op.Kids = x2Ints(act["kids"])
		case "newcomp":
		case "set":
			op.C, op.X, op.Key = act["c"].(int), act["x"].(int), x2Ints(act["key"])
			op.Via = []string{"value", "compound"}[(op.C+op.X+k)%2]
		case "dec":
			op.ID, op.Fmt, op.Input = act["id"].(int), act["fmt"].(string), x2Ints(act["bytes"])
			if op.ID > prevLen {
				op.ID = 0 // a fresh target; the harness numbers it prevLen + 1 like the specification
			}
		case "get":
			op.ID = act["id"].(int)
			for _, kk := range act["keys"].([]any) {
				op.Keys = append(op.Keys, x2Ints(kk))
			}
			exp.Ret = act["ret"].(int)
		case "acc":
			op.ID = act["id"].(int)
		case "enc":
			op.ID, op.Fmt, op.Name = act["id"].(int), act["fmt"].(string), x2Ints(act["name"])
			exp.Bytes = x2Ints(act["bytes"])
		default:
			return sc, fmt.Errorf("behaviour %d: unknown action %q", id, op.Op)
		}
		prevLen = len(hs)
		sc.Ops = append(sc.Ops, op)
	}
	return sc, nil
}

// ------------------------------------------------------------------ leg B: random histories

type dyGen struct {
	rng *rand.Rand
	x   *dyExec
	cov *dyCov
}

// dyCov counts what the random histories exercised (evidence only, no judgement).
type dyCov struct {
	Ops, SetReplace, SetAppend, SetOnShared, GetNested, GetMissing, DecFresh, DecInPlace, DecDupKeys, DecBad, EncMixed, Redec int
}

var dyKeyPool = [][]int{{97}, {}, {98, 32, 255}, {107, 101, 121}, {0}, {195, 133}}

func (g *dyGen) step(op dyOp) {
	g.x.sc.Ops = append(g.x.sc.Ops, op)
	g.x.do(op)
	if g.cov != nil {
		g.cov.Ops++
	}
}

func (g *dyGen) handles() []int { return g.x.w.live }

func (g *dyGen) pick(f func(id int, n dyNode) bool) int {
	c := []int{}
	for _, h := range g.handles() {
		if f == nil || f(h, g.x.cur[h]) {
			c = append(c, h)
		}
	}
	if len(c) == 0 {
		return 0
	}
	return c[g.rng.Intn(len(c))]
}

func dyRandPat(rng *rand.Rand, w int) []int {
	p := make([]int, w)
	switch rng.Intn(5) {
	case 0:
	case 1:
		for i := range p {
			p[i] = 255
		}
	case 2:
		p[0] = 128
	case 3:
		p[0] = 127
		for i := 1; i < w; i++ {
			p[i] = 255
		}
	default:
		for i := range p {
			p[i] = rng.Intn(256)
		}
	}
	return p
}

func (g *dyGen) newLeaf() {
	rng := g.rng
	ctors := []string{"bool", "byte", "short", "int", "long", "float", "double", "bytearray", "string", "intarray", "longarray"}
	c := ctors[rng.Intn(len(ctors))]
	op := dyOp{Op: "new", Ctor: c}
	switch c {
	case "bool":
		op.Pat = []int{rng.Intn(2)}
	case "byte":
		op.Pat = dyRandPat(rng, 1)
	case "short":
		op.Pat = dyRandPat(rng, 2)
	case "int":
		op.Pat = dyRandPat(rng, 4)
	case "long":
		op.Pat = dyRandPat(rng, 8)
	case "float":
		op.Pat = dyRandPat(rng, 4)
		if op.Pat[0]&0x7f == 0x7f && op.Pat[1]&0x80 != 0 && op.Pat[1]&0x40 == 0 {
			op.Pat[1] |= 0x40 // no signalling NaN through a float32 parameter
		}
	case "double":
		op.Pat = dyRandPat(rng, 8)
		if op.Pat[0]&0x7f == 0x7f && op.Pat[1]&0xf0 == 0xf0 && op.Pat[1]&0x08 == 0 {
			op.Pat[1] |= 0x08
		}
	case "bytearray", "string":
		n := []int{0, 0, 1, 3, 17, 40}[rng.Intn(6)]
		op.Pat = make([]int, n)
		for i := range op.Pat {
			if c == "string" && rng.Intn(3) > 0 {
				op.Pat[i] = 32 + rng.Intn(95)
			} else {
				op.Pat[i] = rng.Intn(256)
			}
		}
	case "intarray", "longarray":
		w := 4
		if c == "longarray" {
			w = 8
		}
		n := []int{0, 1, 2, 5}[rng.Intn(4)]
		op.Wds = [][]int{}
		for i := 0; i < n; i++ {
			op.Wds = append(op.Wds, dyRandPat(rng, w))
		}
	}
	g.step(op)
}

func (g *dyGen) newList(mixed bool) {
	rng := g.rng
	n := []int{0, 1, 1, 2, 3, 4}[rng.Intn(6)]
	kids := []int{}
	if n > 0 {
		first := g.pick(func(_ int, nd dyNode) bool { return nd.T != 0 })
		if first == 0 {
			return
		}
		kids = append(kids, first)
		total, _ := dySize(g.x.cur, first, 0)
		for len(kids) < n {
			k := g.pick(func(_ int, nd dyNode) bool { return nd.T != 0 && (mixed || nd.T == g.x.cur[first].T) })
			if k == 0 {
				break
			}
			s, d := dySize(g.x.cur, k, 0)
			if total+s > 30 || d > 4 {
				break
			}
			total += s
			kids = append(kids, k)
		}
	}
	g.step(dyOp{Op: "newlist", Kids: kids})
}

func (g *dyGen) set() {
	rng := g.rng
	cur := g.x.cur
	c := g.pick(func(_ int, n dyNode) bool { return n.T == 10 })
	if c == 0 || rng.Intn(25) == 0 {
		c = g.pick(func(_ int, n dyNode) bool { return n.T != 10 }) // the documented panic
		if c == 0 {
			return
		}
	}
	xv := g.pick(func(id int, n dyNode) bool {
		if n.T == 0 || dyReach(cur, id)[c] {
			return false
		}
		sc, _ := dySize(cur, c, 0)
		sx, dx := dySize(cur, id, 0)
		return sc+sx <= 45 && dx <= 4
	})
	if xv == 0 {
		return
	}
	key := dyKeyPool[rng.Intn(len(dyKeyPool))]
	if n := cur[c]; n.T == 10 && len(n.Keys) > 0 && rng.Intn(100) < 45 {
		key = n.Keys[rng.Intn(len(n.Keys))]
		if g.cov != nil {
			g.cov.SetReplace++
		}
	} else if g.cov != nil {
		g.cov.SetAppend++
	}
	if g.cov != nil {
		holders := 0
		for _, n := range cur {
			if n.T == 9 || n.T == 10 {
				for _, k := range n.Kids {
					if k == c {
						holders++
					}
				}
			}
		}
		if holders > 0 {
			g.cov.SetOnShared++
		}
	}
	g.step(dyOp{Op: "set", C: c, X: xv, Key: key, Via: []string{"value", "compound"}[rng.Intn(2)]})
}

func (g *dyGen) get() {
	rng := g.rng
	cur := g.x.cur
	id := g.pick(nil)
	if id == 0 {
		return
	}
	if rng.Intn(3) > 0 {
		if c := g.pick(func(_ int, n dyNode) bool { return n.T == 10 && len(n.Kids) > 0 }); c != 0 {
			id = c
		}
	}
	keys := [][]int{}
	at := id
	for d := rng.Intn(4); d > 0; d-- {
		n := cur[at]
		if n.T == 10 && len(n.Kids) > 0 && rng.Intn(10) < 8 {
			j := rng.Intn(len(n.Kids))
			keys = append(keys, n.Keys[j])
			at = n.Kids[g.firstPos(n, n.Keys[j])]
			continue
		}
		keys = append(keys, dyKeyPool[rng.Intn(len(dyKeyPool))])
		if g.cov != nil {
			g.cov.GetMissing++
		}
		break
	}
	if len(keys) > 1 && g.cov != nil {
		g.cov.GetNested++
	}
	g.step(dyOp{Op: "get", ID: id, Keys: keys})
}

func (g *dyGen) firstPos(n dyNode, key []int) int {
	for j, k := range n.Keys {
		if eqInts(k, key) {
			return j
		}
	}
	return 0
}

func dyHasDupKeys(n *nbtNode) bool {
	if n == nil {
		return false
	}
	switch n.T {
	case 9:
		for _, e := range n.Lst {
			if dyHasDupKeys(e) {
				return true
			}
		}
	case 10:
		seen := map[string]bool{}
		for _, e := range n.Ent {
			k := string(bytesOf(e.K))
			if seen[k] || dyHasDupKeys(e.N) {
				return true
			}
			seen[k] = true
		}
	}
	return false
}

// dyRandTree: a random document tree (small payloads; compounds may name a key twice, empty lists carry any element type)
func dyRandTree(rng *rand.Rand, depth int, tag int) *nbtNode {
	if tag == 0 {
		tag = []int{1, 2, 3, 4, 5, 6, 7, 8, 9, 9, 10, 10, 10, 11, 12}[rng.Intn(15)]
		if depth <= 0 {
			tag = []int{1, 2, 3, 4, 5, 6, 7, 8, 11, 12}[rng.Intn(10)]
		}
	}
	switch {
	case tag <= 6:
		return &nbtNode{T: tag, Pat: dyRandPat(rng, nbtWidth[tag])}
	case tag == 7 || tag == 8:
		n := []int{0, 1, 3, 20}[rng.Intn(4)]
		b := make([]byte, n)
		rng.Read(b)
		return &nbtNode{T: tag, Pat: ints(b)}
	case tag == 9:
		n := &nbtNode{T: 9, Lst: []*nbtNode{}}
		k := []int{0, 0, 1, 2, 4}[rng.Intn(5)]
		if k == 0 {
			n.Et = []int{0, 0, 1, 3, 8, 9, 10, 12}[rng.Intn(8)]
			return n
		}
		n.Et = 1 + rng.Intn(12)
		if depth <= 0 && (n.Et == 9 || n.Et == 10) {
			n.Et = 8
		}
		for i := 0; i < k; i++ {
			n.Lst = append(n.Lst, dyRandTree(rng, depth-1, n.Et))
		}
		return n
	case tag == 10:
		n := &nbtNode{T: 10}
		k := rng.Intn(5)
		if depth <= 0 {
			k = rng.Intn(2)
		}
		for i := 0; i < k; i++ {
			key := dyKeyPool[rng.Intn(len(dyKeyPool))]
			if i > 0 && rng.Intn(3) == 0 {
				key = n.Ent[rng.Intn(len(n.Ent))].K // a repeated name: legal on the wire, kept by the decoder
			}
			n.Ent = append(n.Ent, nbtEntry{K: key, N: dyRandTree(rng, depth-1, 0)})
		}
		return n
	default:
		w := 4
		if tag == 12 {
			w = 8
		}
		n := &nbtNode{T: tag, Wds: [][]int{}}
		for i := rng.Intn(4); i > 0; i-- {
			n.Wds = append(n.Wds, dyRandPat(rng, w))
		}
		return n
	}
}

func dyTreeSize(n *nbtNode) int {
	s := 1
	for _, e := range n.Lst {
		s += dyTreeSize(e)
	}
	for _, e := range n.Ent {
		s += dyTreeSize(e.N)
	}
	return s
}

func (g *dyGen) decode(allowListElem bool) {
	rng := g.rng
	cur := g.x.cur
	fmtName := []string{"network", "file"}[rng.Intn(2)]
	name := [][]int{{}, {110}, {114, 0, 255}}[rng.Intn(3)]
	var doc []byte
	if src := g.pick(func(id int, n dyNode) bool { return n.T != 0 && dyWF(cur, id, 0) }); src != 0 && rng.Intn(2) == 0 {
		b, err := dyEncode(g.x.w.ptr[src], fmtName, name) // just a source of documents: TLC reads the bytes itself
		if err != nil {
			return
		}
		doc = b
	} else {
		var tr *nbtNode
		for try := 0; try < 20; try++ {
			tr = dyRandTree(rng, 1+rng.Intn(3), 0)
			if tr.T != 0 && dyTreeSize(tr) <= 24 {
				break
			}
			tr = nil
		}
		if tr == nil {
			return
		}
		if dyHasDupKeys(tr) && g.cov != nil {
			g.cov.DecDupKeys++
		}
		doc = nbtDocBytes(fmtName, bytesOf(name), tr)
	}
	if len(doc) > 1500 {
		return
	}
	target := 0
	if rng.Intn(2) == 0 {
		target = g.pick(func(id int, n dyNode) bool { return allowListElem || !dyInSomeList(cur, id) })
	}
	bad := rng.Intn(10) == 0 && len(doc) > 2
	if bad {
		// the state of a value after a failed decode is not specified: fresh target, dropped right away
		target = 0
		doc = doc[:len(doc)-1-rng.Intn(len(doc)-1)]
		if g.cov != nil {
			g.cov.DecBad++
		}
	} else {
		doc = append(doc, []byte{10, 0, 9}[:rng.Intn(4)]...) // foreign bytes behind the document
		if g.cov != nil {
			if target == 0 {
				g.cov.DecFresh++
			} else {
				g.cov.DecInPlace++
			}
		}
	}
	before := len(g.handles())
	g.step(dyOp{Op: "dec", ID: target, Fmt: fmtName, Input: ints(doc)})
	if bad && len(g.handles()) > before {
		g.step(dyOp{Op: "drop", ID: g.handles()[len(g.handles())-1]})
	}
}

func (g *dyGen) read(kind string) {
	rng := g.rng
	cur := g.x.cur
	switch kind {
	case "acc":
		if id := g.pick(nil); id != 0 {
			g.step(dyOp{Op: "acc", ID: id})
		}
	case "comp":
		id := g.pick(func(_ int, n dyNode) bool { return n.T == 10 })
		if id == 0 || rng.Intn(6) == 0 {
			id = g.pick(nil)
		}
		if id != 0 {
			key := dyKeyPool[rng.Intn(len(dyKeyPool))]
			if n := cur[id]; n.T == 10 && len(n.Keys) > 0 && rng.Intn(3) > 0 {
				key = n.Keys[rng.Intn(len(n.Keys))]
			}
			g.step(dyOp{Op: "comp", ID: id, Key: key})
		}
	case "enc", "redec":
		id := g.pick(func(id int, n dyNode) bool { return n.T != 0 && (kind == "enc" || dyWF(cur, id, 0)) })
		if id != 0 {
			if !dyWF(cur, id, 0) && g.cov != nil {
				g.cov.EncMixed++
			}
			if kind == "redec" && g.cov != nil {
				g.cov.Redec++
			}
			g.step(dyOp{Op: kind, ID: id, Fmt: []string{"network", "file"}[rng.Intn(2)], Name: [][]int{{}, {110}, {114, 0, 255}}[rng.Intn(3)]})
		}
	}
}

func dyGenLong(seed int64, id, nops int, t *x2Trace, book *x2Book, classes map[string]int, cov *dyCov) dyScenario {
	sc := dyScenario{ID: id, Origin: "random-plain"}
	g := &dyGen{rng: newRand(seed, fmt.Sprint("dynbt-long", id)), cov: cov}
	g.x = &dyExec{w: newDyWorld(), t: t, sc: &sc, book: book, class: classes}
	rng := g.rng
	g.step(dyOp{Op: "reset"})
	for k := 0; k < nops; k++ {
		if len(g.handles()) > 16 {
			g.step(dyOp{Op: "drop", ID: g.handles()[rng.Intn(len(g.handles()))]})
			continue
		}
		switch r := rng.Intn(100); {
		case r < 16 || len(g.handles()) < 3:
			g.newLeaf()
		case r < 24:
			g.newList(false)
		case r < 30:
			g.step(dyOp{Op: "newcomp"})
		case r < 54:
			g.set()
		case r < 62:
			g.get()
		case r < 66:
			g.read("comp")
		case r < 75:
			g.read("acc")
		case r < 84:
			g.read("enc")
		case r < 92:
			g.decode(false)
		case r < 96:
			g.read("redec")
		default:
			if len(g.handles()) > 4 {
				g.step(dyOp{Op: "drop", ID: g.handles()[rng.Intn(len(g.handles()))]})
			}
		}
	}
	return sc
}

// dyGenHazard: short histories that end in the classes the implementation is known or suspected to get wrong.
func dyGenHazard(seed int64, id int, t *x2Trace, book *x2Book, classes map[string]int) dyScenario {
	sc := dyScenario{ID: id, Origin: "random-hazard"}
	g := &dyGen{rng: newRand(seed, fmt.Sprint("dynbt-hazard", id))}
	g.x = &dyExec{w: newDyWorld(), t: t, sc: &sc, book: book, class: classes}
	rng := g.rng
	g.step(dyOp{Op: "reset"})
	for k := 3 + rng.Intn(4); k > 0; k-- {
		g.newLeaf()
	}
	last := func() int { return g.handles()[len(g.handles())-1] }
	switch id % 6 {
	case 0: // a list of values with different tags
		g.step(dyOp{Op: "new", Ctor: "byte", Pat: []int{7}})
		a := last()
		g.step(dyOp{Op: "new", Ctor: "string", Pat: []int{104, 105}})
		b := last()
		g.step(dyOp{Op: "newlist", Kids: []int{a, b}})
		l := last()
		g.step(dyOp{Op: "acc", ID: l})
		g.step(dyOp{Op: "enc", ID: l, Fmt: "network"})
		g.step(dyOp{Op: "newcomp"})
		c := last()
		g.step(dyOp{Op: "set", C: c, X: l, Key: []int{108}, Via: "value"})
		g.step(dyOp{Op: "enc", ID: c, Fmt: "file", Name: []int{110}})
		g.newList(true)
		g.step(dyOp{Op: "enc", ID: last(), Fmt: "file"})
	case 1: // lists without elements: NewList() and decoded ones with an element type
		g.step(dyOp{Op: "newlist", Kids: []int{}})
		l := last()
		g.step(dyOp{Op: "acc", ID: l})
		g.step(dyOp{Op: "enc", ID: l, Fmt: "network"})
		g.step(dyOp{Op: "redec", ID: l, Fmt: "file", Name: []int{110}})
		g.step(dyOp{Op: "dec", ID: 0, Fmt: "network", Input: []int{9, 10, 0, 0, 0, 0}})
		d := last()
		g.step(dyOp{Op: "enc", ID: d, Fmt: "network"})
		g.step(dyOp{Op: "acc", ID: d})
		g.step(dyOp{Op: "dec", ID: l, Fmt: "network", Input: []int{9, 3, 0, 0, 0, 0}}) // into the list made by NewList
		g.step(dyOp{Op: "enc", ID: l, Fmt: "network"})
	case 2: // accessor chains on the wrong tag type, the zero Value
		g.step(dyOp{Op: "comp", ID: last(), Key: []int{97}})
		g.step(dyOp{Op: "new", Ctor: "zero"})
		z := last()
		g.step(dyOp{Op: "acc", ID: z})
		g.step(dyOp{Op: "get", ID: z, Keys: [][]int{{97}}})
		g.step(dyOp{Op: "comp", ID: z, Key: []int{}})
		g.step(dyOp{Op: "set", C: z, X: g.handles()[0], Key: []int{97}, Via: "value"})
		for _, h := range append([]int{}, g.handles()...) {
			g.step(dyOp{Op: "acc", ID: h})
		}
	case 3: // a document that names a key twice, then Set / Get on it; nested mutation through Get
		doc := nbtDocBytes("network", nil, &nbtNode{T: 10, Ent: []nbtEntry{
			{K: []int{97}, N: &nbtNode{T: 1, Pat: []int{1}}},
			{K: []int{99}, N: &nbtNode{T: 10, Ent: []nbtEntry{{K: []int{97}, N: &nbtNode{T: 8, Pat: []int{120}}}}}},
			{K: []int{97}, N: &nbtNode{T: 8, Pat: []int{97}}}}})
		g.step(dyOp{Op: "dec", ID: 0, Fmt: "network", Input: ints(doc)})
		d := last()
		g.step(dyOp{Op: "get", ID: d, Keys: [][]int{{97}}})
		g.step(dyOp{Op: "set", C: d, X: g.handles()[0], Key: []int{97}, Via: "compound"})
		g.step(dyOp{Op: "comp", ID: d, Key: []int{97}})
		g.step(dyOp{Op: "enc", ID: d, Fmt: "network"})
		g.step(dyOp{Op: "get", ID: d, Keys: [][]int{{99}}})
		inner := last()
		g.step(dyOp{Op: "set", C: inner, X: g.handles()[1], Key: []int{107}, Via: "value"})
		g.step(dyOp{Op: "set", C: inner, X: g.handles()[0], Key: []int{97}, Via: "value"})
		g.step(dyOp{Op: "enc", ID: d, Fmt: "network"})
		g.step(dyOp{Op: "redec", ID: d, Fmt: "file", Name: []int{}})
		g.step(dyOp{Op: "get", ID: d, Keys: [][]int{{99}, {107}}})
	case 4: // decoding INTO an element of a list
		g.step(dyOp{Op: "new", Ctor: "short", Pat: []int{0, 1}})
		a := last()
		g.step(dyOp{Op: "new", Ctor: "short", Pat: []int{0, 2}})
		b := last()
		g.step(dyOp{Op: "newlist", Kids: []int{a, b}})
		l := last()
		g.step(dyOp{Op: "enc", ID: l, Fmt: "network"})
		g.step(dyOp{Op: "dec", ID: b, Fmt: "network", Input: []int{2, 127, 255}})
		g.step(dyOp{Op: "enc", ID: l, Fmt: "network"})
		g.step(dyOp{Op: "dec", ID: a, Fmt: "network", Input: []int{8, 0, 1, 120}})
		g.step(dyOp{Op: "enc", ID: l, Fmt: "network"})
		g.step(dyOp{Op: "acc", ID: l})
	case 5: // one value held by two compounds and a list, then changed in place
		g.step(dyOp{Op: "newcomp"})
		s := last()
		g.step(dyOp{Op: "newcomp"})
		c1 := last()
		g.step(dyOp{Op: "newcomp"})
		c2 := last()
		g.step(dyOp{Op: "set", C: c1, X: s, Key: []int{115}, Via: "value"})
		g.step(dyOp{Op: "set", C: c2, X: s, Key: []int{}, Via: "compound"})
		g.step(dyOp{Op: "newlist", Kids: []int{s, s}})
		l := last()
		g.step(dyOp{Op: "set", C: s, X: g.handles()[0], Key: []int{97}, Via: "value"})
		for _, h := range []int{c1, c2, l} {
			g.step(dyOp{Op: "enc", ID: h, Fmt: "network"})
		}
		g.step(dyOp{Op: "dec", ID: s, Fmt: "network", Input: []int{10, 1, 0, 1, 98, 5, 0}})
		for _, h := range []int{c1, c2, l} {
			g.step(dyOp{Op: "enc", ID: h, Fmt: "network"})
		}
		g.step(dyOp{Op: "get", ID: c1, Keys: [][]int{{115}, {98}}})
	}
	for k := rng.Intn(4); k > 0; k-- {
		g.read([]string{"acc", "enc", "comp"}[rng.Intn(3)])
	}
	return sc
}

// ------------------------------------------------------------------ legs

func dySpecLeg(env *vk.Env, book *x2Book) {
	mc := "DynBT_MC.cfg"
	if !env.Quick() {
		mc = "DynBT_MC_thorough.cfg"
	}
	var wg sync.WaitGroup
	wg.Add(1)
	go func() {
		defer wg.Done()
		x2MustSpec(env, vk.TLCRun{Name: "S DynBT intent", Module: "DynBT", Cfg: mc, Workers: env.Pick(4, 8), Timeout: 25 * time.Minute})
	}()
	x10Expected(env, book, "DynBT", "DynBT", "DynBT_MC_code.cfg", "AllWellFormed", "finding",
		"Model(code) - TLC: with NewList as written (any elements) a value exists whose encoding is not an NBT document (DynBT_MC_code.cfg rejects AllWellFormed)",
		"shortest counterexample: NewShort, NewByte, NewList(short, byte): the list is written as 09 02 00000002 <2 bytes> <1 byte>")
	x10Expected(env, book, "DynBT", "DynBT", "DynBT_MC_broken_append.cfg", "SetRule", "guard", "", "")
	x10Expected(env, book, "DynBT", "DynBT", "DynBT_MC_broken_last.cfg", "SetRule", "guard", "", "")
	wg.Wait()
}

func dyLegs(env *vk.Env, book *x2Book) {
	var wg sync.WaitGroup
	var mu sync.Mutex
	classes := map[string]int{}
	merge := func(c map[string]int) {
		mu.Lock()
		for k := range c {
			classes[k]++
		}
		mu.Unlock()
	}
	if x2Leg("A") {
		for gi, g := range []struct {
			cfg, origin string
			num, depth  int
		}{
			{"DynBT_Gen.cfg", "tlc-intent", env.Pick(30, 300), env.Pick(45, 60)},
			{"DynBT_Gen_code.cfg", "tlc-code", env.Pick(16, 160), env.Pick(40, 60)},
		} {
			gi, g := gi, g
			wg.Add(1)
			go func() {
				defer wg.Done()
				t := &x2Trace{}
				cl := map[string]int{}
				behs := x2Behaviours(env, "A DynBT generator "+g.origin, "DynBT_Gen", g.cfg, g.num, g.depth)
				for bi, states := range behs {
					sc, err := dyBehaviourScenario(states, 100000*(gi+1)+bi, g.origin)
					if err != nil {
						env.Infra("%v", err)
						return
					}
					x := &dyExec{w: newDyWorld(), t: t, sc: &sc, book: book, class: cl, all: true}
					for _, op := range sc.Ops {
						x.do(op)
					}
					if x.w.bad {
						env.Infra("DynBT: the projection cannot read the fields of dynbt.Value (layout changed?)")
						return
					}
					if bi%11 == 1 {
						env.Sample(map[string]any{"module": "DynBT", "origin": g.origin, "scenario": sc.ID, "ops": len(sc.Ops)})
					}
				}
				merge(cl)
				if t.tr.N > 0 {
					x2Judge(env, book, "A DynBT_Trace "+g.origin, "DynBT", "DynBT_Trace", dyChecks, t, env.Pick(2, 6))
				}
			}()
		}
	}
	if x2Leg("B") {
		wg.Add(1)
		go func() {
			defer wg.Done()
			t := &x2Trace{}
			cl := map[string]int{}
			nlong, nops, nhaz := env.Pick(6, 40), env.Pick(400, 900), env.Pick(24, 180)
			cov := &dyCov{}
			for i := 0; i < nlong; i++ {
				dyGenLong(env.Seed, 1000+i, nops, t, book, cl, cov)
			}
			env.Sub(map[string]any{"run": "B DynBT random-plain histories", "histories": nlong, "calls_each": nops, "coverage": *cov})
			for i := 0; i < nhaz; i++ {
				dyGenHazard(env.Seed, 2000+i, t, book, cl)
			}
			merge(cl)
			x2Judge(env, book, "B DynBT_Trace", "DynBT", "DynBT_Trace", dyChecks, t, env.Pick(4, 12))
		}()
	}
	wg.Wait()
	for k := range classes {
		env.Distinct(k)
	}
}
