package main

// X04, component A: bot/screen.Manager (specs/BotScreen*.tla).

import (
	"bytes"
	"errors"
	"fmt"
	"io"
	"math/rand"
	"sort"

	"github.com/Tnze/go-mc/bot"
	"github.com/Tnze/go-mc/bot/screen"
	"github.com/Tnze/go-mc/chat"
	"github.com/Tnze/go-mc/data/packetid"
	pk "github.com/Tnze/go-mc/net/packet"
	"verif/harness/vk"
)

// names of the checks of BotScreen_Trace (printed as <<"X2FAIL", line, {checks}>>)
var scrChecks = map[int][2]string{
	1:  {"NoPanic", "a handler (or ContainerClick) panicked"},
	2:  {"Fresh", "a new Manager does not show the empty inventory as window 0, an empty cursor and state id 0"},
	3:  {"WellFormed", "the projection of the manager contains an item, title or container the harness never sent"},
	4:  {"Open", "OpenScreen: screens, callbacks or error differ (new chest window with empty slots + Open callback; an id that is open is an error; other types store nothing)"},
	5:  {"SetContent", "ContainerSetContent: state id, stored slots, SetSlot callbacks in order, or error differ"},
	6:  {"Close", "ContainerClose: the named window is not removed exactly / Close callback not fired exactly when a window was there"},
	7:  {"SetSlot", "ContainerSetSlot: state id, the one slot (or cursor) named, the SetSlot callback or the error differ"},
	8:  {"ClickHeader", "ContainerClick: the packet does not start with the window id and the last state id received, or the call changes the manager"},
	9:  {"ClickSlots", "ContainerClick: the changed slot / carried item written by Slot.WriteTo are not read back by the package's own Slot.ReadFrom (item stack layout of protocol 767)"},
	10: {"InventoryAlways", "after the packet window 0 is no longer the inventory (ContainerClose(0) deletes Screens[0])"},
	11: {"ChestLayout", "after OpenScreen a generic_9xR window has 9R slots instead of 9R + 36 (Chest.Main() / Hotbar() address the missing ones and panic)"},
	12: {"InventoryClosed", "a packet for window 0 after ContainerClose(0): the inventory is not updated (slot ignored, content is an error, OpenScreen(0) replaces it by a chest)"},
	13: {"ChestPlayerArea", "a slot in the player area (9R .. 9R+35) of an open chest is 'out of bounds': the handler returns an error (ends HandleGame) and stores nothing"},
	14: {"PlayerInvIndex", "ContainerSetSlot with window id -2 addresses the player inventory (0-8 hotbar, 9-35 main, 36-39 armor, 40 offhand); the code uses the number as a slot of the inventory window"},
	15: {"ContentCarried", "ContainerSetContent: the carried item is read and dropped (Cursor unchanged)"},
	17: {"ClickNilCarried", "ContainerClick with a nil carried slot panics ((*Slot).WriteTo tests its receiver for nil after building the field list from it)"},
	16: {"AsCoded", "a packet of a class in which the code is known to part from the intent follows neither the intent nor the model of the code"},
}

// ------------------------------------------------------------------ tokens and wire forms

func scrSlot(t int) screen.Slot {
	if t <= 0 {
		return screen.Slot{}
	}
	return screen.Slot{ID: pk.VarInt(100 + t), Count: pk.VarInt(t)}
}
func scrTok(s screen.Slot) int {
	switch {
	case s.Count == 0 && s.ID == 0 && len(s.NBT.Data) == 0:
		return 0
	case s.Count > 0 && s.ID == 100+s.Count && len(s.NBT.Data) == 0:
		return int(s.Count)
	}
	return -1
}
func scrToks(l []screen.Slot) []int {
	out := make([]int, len(l))
	for i := range l {
		out[i] = scrTok(l[i])
	}
	return out
}
func scrTitle(t int) chat.Message { return chat.Text(fmt.Sprint("title", t)) }
func scrTitleTok(m chat.Message) int {
	var t int
	if n, err := fmt.Sscanf(m.Text, "title%d", &t); n == 1 && err == nil && m.Text == fmt.Sprint("title", t) && len(m.Extra) == 0 {
		return t
	}
	return -1
}

// scrItem is an item stack as protocol 767 puts it on the wire: count, then (count > 0) item id and the numbers of
// added and removed data components (none).
type scrItem int

func (s scrItem) WriteTo(w io.Writer) (int64, error) {
	var b bytes.Buffer
	sl := scrSlot(int(s))
	pk.VarInt(sl.Count).WriteTo(&b)
	if sl.Count > 0 {
		pk.VarInt(sl.ID).WriteTo(&b)
		pk.VarInt(0).WriteTo(&b)
		pk.VarInt(0).WriteTo(&b)
	}
	n, err := w.Write(b.Bytes())
	return int64(n), err
}

type scrItems []int

func (l scrItems) WriteTo(w io.Writer) (int64, error) {
	var b bytes.Buffer
	pk.VarInt(len(l)).WriteTo(&b)
	for _, s := range l {
		scrItem(s).WriteTo(&b)
	}
	n, err := w.Write(b.Bytes())
	return int64(n), err
}

// ------------------------------------------------------------------ the real manager

type scrReal struct {
	c    *bot.Client
	m    *screen.Manager
	pull func() (pk.Packet, bool)
	evs  [][]any
	fail bool // the next callback answers with an error
}

var errScrCallback = errors.New("verif: callback refuses")

func (r *scrReal) cb() error {
	if r.fail {
		r.fail = false
		return errScrCallback
	}
	return nil
}

func (r *scrReal) reset() {
	r.c = bot.NewClient()
	r.pull = bot.VerifAttachSendQueue(r.c)
	r.m = screen.NewManager(r.c, screen.EventsListener{
		Open: func(id int, typ int32, title chat.Message) error {
			r.evs = append(r.evs, []any{"open", id, int(typ), scrTitleTok(title)})
			return r.cb()
		},
		SetSlot: func(id, index int) error {
			r.evs = append(r.evs, []any{"slot", id, index, 0})
			return r.cb()
		},
		Close: func(id int) error {
			r.evs = append(r.evs, []any{"close", id, 0, 0})
			return r.cb()
		},
	})
}

func (r *scrReal) handle(id packetid.ClientboundPacketID, fields ...pk.FieldEncoder) error {
	p := pk.Marshal(id, fields...)
	return bot.VerifHandlePacket(r.c, p.ID, p.Data)
}

// click calls ContainerClick and decodes the packet it queued: window id, state id, the changed slots and the carried
// item (read with the package's own Slot.ReadFrom).
func (r *scrReal) click(win, idx, item, carried int, withSlot bool) (out []int, codec []int, err error) {
	for { // nothing may be left from an earlier call
		if _, ok := r.pull(); !ok {
			break
		}
	}
	changed := screen.ChangedSlots{}
	if withSlot {
		s := scrSlot(item)
		changed[idx] = &s
	}
	cs := scrSlot(carried)
	pcs := &cs
	if carried < 0 {
		pcs = nil // Slot.WriteTo tests for a nil receiver: nothing carried
	}
	if err = r.m.ContainerClick(win, 0, 0, 0, changed, pcs); err != nil {
		return []int{}, []int{}, err
	}
	p, ok := r.pull()
	if !ok {
		return []int{}, []int{}, errors.New("no packet queued")
	}
	out, codec = []int{-1, -1}, []int{-1, -1, -1}
	if p.ID != int32(packetid.ServerboundContainerClick) {
		return out, codec, nil
	}
	rd := bytes.NewReader(p.Data)
	var (
		w    pk.UnsignedByte
		sid  pk.VarInt
		slot pk.Short
		btn  pk.Byte
		mode pk.VarInt
		n    pk.VarInt
	)
	for _, f := range []pk.FieldDecoder{&w, &sid, &slot, &btn, &mode, &n} {
		if _, e := f.ReadFrom(rd); e != nil {
			return out, codec, nil
		}
	}
	out = []int{int(w), int(sid)}
	if withSlot {
		if n != 1 {
			return out, codec, nil
		}
		var i pk.Short
		var s screen.Slot
		if _, e := i.ReadFrom(rd); e != nil {
			return out, codec, nil
		}
		if _, e := s.ReadFrom(rd); e != nil {
			return out, codec, nil
		}
		codec[0], codec[1] = int(i), scrTok(s)
	} else {
		codec[0], codec[1] = idx, item
		if n != 0 {
			codec[0] = -1
		}
	}
	var c screen.Slot
	if _, e := c.ReadFrom(rd); e == nil && rd.Len() == 0 {
		codec[2] = scrTok(c)
	}
	return out, codec, nil
}

func (r *scrReal) do(op x4Op) map[string]any {
	r.evs = nil
	r.fail = x4Bool(op["fail"])
	win, sid := x4Num(op["win"]), x4Num(op["sid"])
	res := map[string]any{}
	var err error
	switch x4Str(op["k"]) {
	case "open":
		err = r.handle(packetid.ClientboundOpenScreen, pk.VarInt(win), pk.VarInt(x4Num(op["type"])), scrTitle(x4Num(op["title"])))
	case "content":
		err = r.handle(packetid.ClientboundContainerSetContent, pk.UnsignedByte(win), pk.VarInt(sid), scrItems(x4IntList(op["slots"])), scrItem(x4Num(op["carried"])))
	case "close":
		err = r.handle(packetid.ClientboundContainerClose, pk.UnsignedByte(win))
	case "slot":
		err = r.handle(packetid.ClientboundContainerSetSlot, pk.Byte(win), pk.VarInt(sid), pk.Short(x4Num(op["idx"])), scrItem(x4Num(op["item"])))
	case "click":
		var out, codec []int
		out, codec, err = r.click(win, x4Num(op["idx"]), x4Num(op["item"]), x4Num(op["carried"]), true)
		res["out"], res["codec"] = out, codec
	default:
		panic("unknown op " + x4Str(op["k"]))
	}
	r.fail = false
	evs := r.evs
	if evs == nil {
		evs = [][]any{}
	}
	res["evs"], res["err"] = evs, err != nil
	return res
}

func (r *scrReal) project() map[string]any {
	m := r.m
	ids := make([]int, 0, len(m.Screens))
	for id := range m.Screens {
		ids = append(ids, id)
	}
	sort.Ints(ids)
	rows := [][]any{}
	for _, id := range ids {
		switch c := m.Screens[id].(type) {
		case *screen.Inventory:
			if c == &m.Inventory {
				rows = append(rows, []any{id, -1, 0, []int{}})
			} else {
				rows = append(rows, []any{id, -2, 0, []int{}})
			}
		case *screen.Chest:
			typ := int(c.Type)
			if c.Rows != typ+1 {
				typ = -3
			}
			rows = append(rows, []any{id, typ, scrTitleTok(c.Title), scrToks(c.Slots)})
		default:
			rows = append(rows, []any{id, -4, 0, []int{}})
		}
	}
	stateid := -1
	if out, _, err := r.click(0, 0, 0, 0, false); err == nil && len(out) == 2 && out[0] == 0 {
		stateid = out[1]
	}
	return map[string]any{"inv": scrToks(m.Inventory.Slots[:]), "screens": rows, "cursor": scrTok(m.Cursor), "stateid": stateid}
}

// ------------------------------------------------------------------ component

func scrComp() *x4Comp {
	return &x4Comp{
		module: "BotScreen", checks: scrChecks, genCfg: "BotScreen_Gen.cfg",
		defaults: func() x4Op {
			return x4Op{"k": "", "win": 0, "type": 0, "title": 0, "sid": 0, "idx": 0, "item": 0, "slots": []int{}, "carried": 0, "fail": false}
		},
		results: func() map[string]any {
			return map[string]any{"evs": [][]any{}, "err": false, "out": []int{}, "codec": []int{}}
		},
		mk: func() x4Real { r := &scrReal{}; r.reset(); return r },
		opOfAct: func(act map[string]any) (x4Op, error) {
			p := act["p"].(map[string]any)
			op := x4Op{}
			for k, v := range p {
				op[k] = x4Canon(v)
			}
			switch x4Str(op["k"]) {
			case "open", "content", "close", "slot", "click":
				return op, nil
			}
			return nil, fmt.Errorf("BotScreen: unknown packet kind %q", op["k"])
		},
		expect: func(st map[string]any) map[string]any {
			rows := [][]any{}
			add := func(id int, v any) {
				r := v.(map[string]any)
				rows = append(rows, []any{id, r["type"], r["title"], x4Canon(r["slots"])})
			}
			switch f := st["screens"].(type) {
			case bsTlaFn:
				for i := range f.K {
					add(f.K[i].(int), f.V[i])
				}
			case []any: // a function with domain 1..n is printed as a tuple
				for i, v := range f {
					add(i+1, v)
				}
			}
			sort.Slice(rows, func(i, j int) bool { return rows[i][0].(int) < rows[j][0].(int) })
			exp := map[string]any{"inv": x4Canon(st["inv"]), "screens": rows, "cursor": st["cursor"], "stateid": st["sid"]}
			if act, ok := st["act"].(map[string]any); ok && x4Str(act["p"].(map[string]any)["k"]) != "new" {
				exp["evs"], exp["err"], exp["out"] = x4Canon(act["evs"]), act["err"], x4Canon(act["out"])
			}
			return exp
		},
		class: func(ev map[string]any) string {
			n := 0
			if l, ok := ev["screens"].([][]any); ok {
				n = len(l)
			}
			return fmt.Sprint(ev["k"], "/win=", scrWinClass(x4Num(ev["win"])), "/err=", ev["err"], "/evs=", len(ev["evs"].([][]any)) > 0, "/open=", n, "/fail=", ev["fail"])
		},
	}
}

func scrWinClass(w int) string {
	switch {
	case w == 0:
		return "inv"
	case w == -1:
		return "cursor"
	case w == -2:
		return "playerinv"
	}
	return "window"
}

// ------------------------------------------------------------------ leg B: random histories

type scrGen struct {
	rng *rand.Rand
	x   *x4Exec
	sid int
}

type scrWin struct {
	id, typ, n int
}

func (g *scrGen) windows() (all []scrWin) {
	if g.x.last == nil {
		return nil
	}
	rows, _ := g.x.last["screens"].([][]any)
	for _, r := range rows {
		w := scrWin{id: r[0].(int), typ: r[1].(int)}
		if w.typ == -1 {
			w.n = 46
		} else {
			w.n = len(r[3].([]int))
		}
		all = append(all, w)
	}
	return all
}

func (g *scrGen) nextSid() int { g.sid = g.sid%30000 + 1 + g.rng.Intn(3); return g.sid }
func (g *scrGen) item() int {
	if g.rng.Intn(3) == 0 {
		return 0
	}
	return 1 + g.rng.Intn(9)
}
func (g *scrGen) items(n int) []int {
	out := make([]int, n)
	for i := range out {
		out[i] = g.item()
	}
	return out
}
func (g *scrGen) failFlag() bool { return g.rng.Intn(25) == 0 }

// pick a window: an open one (by kind) or an id that is not open
func (g *scrGen) pickWin(open bool) scrWin {
	ws := g.windows()
	if open && len(ws) > 0 {
		return ws[g.rng.Intn(len(ws))]
	}
	for try := 0; ; try++ {
		id := []int{1, 2, 3, 4, 5, 7, 50, 100}[g.rng.Intn(8)]
		if try > 20 {
			id = 6 + try // every favourite id is open
		}
		free := true
		for _, w := range ws {
			if w.id == id {
				free = false
			}
		}
		if free {
			return scrWin{id: id, typ: -9}
		}
	}
}

func (g *scrGen) randomOp(close0 bool) {
	rng := g.rng
	switch r := rng.Intn(100); {
	case r < 12:
		w := g.pickWin(rng.Intn(6) == 0)
		typ := rng.Intn(6)
		if rng.Intn(4) == 0 {
			typ = 6 + rng.Intn(19)
		}
		g.x.do(x4Op{"k": "open", "win": w.id, "type": typ, "title": 1 + rng.Intn(3), "fail": g.failFlag()})
	case r < 27:
		w := g.pickWin(rng.Intn(8) != 0)
		n := w.n
		full := w.n
		if w.typ >= 0 {
			full = 9*(w.typ+1) + 36
		}
		switch rng.Intn(8) {
		case 0:
			n = 0
		case 1:
			n = rng.Intn(w.n + 1)
		case 2:
			n = w.n + 1 + rng.Intn(3)
		case 3, 4:
			n = full
		}
		if w.typ == -9 {
			n = []int{0, 1, 27, 46, 63}[rng.Intn(5)]
		}
		carried := g.item()
		if rng.Intn(2) == 0 { // often the cursor does not change
			carried = x4Num(g.x.last["cursor"])
		}
		g.x.do(x4Op{"k": "content", "win": w.id, "sid": g.nextSid(), "slots": g.items(n), "carried": carried, "fail": g.failFlag()})
	case r < 35:
		w := g.pickWin(rng.Intn(3) != 0)
		if w.id == 0 && !close0 {
			w = g.pickWin(false)
		}
		g.x.do(x4Op{"k": "close", "win": w.id, "fail": g.failFlag()})
	case r < 90:
		var win, idx int
		switch q := rng.Intn(100); {
		case q < 10:
			win, idx = -1, -1
		case q < 13:
			win, idx = -1, rng.Intn(46)
		case q < 25:
			win = -2
			idx = []int{rng.Intn(9), 9 + rng.Intn(27), 36 + rng.Intn(4), 40, 41 + rng.Intn(5), 46, -1, 9 + rng.Intn(27)}[rng.Intn(8)]
		case q < 35:
			win, idx = g.pickWin(false).id, rng.Intn(30)
		default:
			w := g.pickWin(true)
			win = w.id
			full := w.n
			if w.typ >= 0 {
				full = 9*(w.typ+1) + 36
			}
			idx = []int{rng.Intn(w.n + 1), rng.Intn(w.n + 1), rng.Intn(w.n + 1), 0, w.n - 1, w.n, -1, full - 1, full, w.n + rng.Intn(36)}[rng.Intn(10)]
		}
		g.x.do(x4Op{"k": "slot", "win": win, "sid": g.nextSid(), "idx": idx, "item": g.item(), "fail": g.failFlag()})
	default:
		g.x.do(x4Op{"k": "click", "win": []int{0, 1, 2, 100, 255}[rng.Intn(5)], "idx": rng.Intn(60), "item": g.item(), "carried": g.item()})
	}
}

func scrPlain(seed int64, id, nops int, x *x4Exec) {
	g := &scrGen{rng: newRand(seed, fmt.Sprint("screen-plain", id)), x: x}
	x.do(x4Op{"k": "reset"})
	for k := 0; k < nops; k++ {
		g.randomOp(false)
	}
}

// scrHazard: the classes in which the code is known (or suspected) to part from the intent.
func scrHazard(seed int64, id int, x *x4Exec) {
	rng := newRand(seed, fmt.Sprint("screen-hazard", id))
	g := &scrGen{rng: rng, x: x}
	x.do(x4Op{"k": "reset"})
	switch id % 4 {
	case 0: // the server closes window 0 (Bukkit closeInventory() with nothing open), then ordinary inventory traffic
		x.do(x4Op{"k": "content", "win": 0, "sid": g.nextSid(), "slots": g.items(46), "carried": 0})
		x.do(x4Op{"k": "close", "win": 0})
		x.do(x4Op{"k": "slot", "win": 0, "sid": g.nextSid(), "idx": 36 + rng.Intn(9), "item": 1 + rng.Intn(9)})
		x.do(x4Op{"k": "content", "win": 0, "sid": g.nextSid(), "slots": g.items(46), "carried": 0})
		x.do(x4Op{"k": "slot", "win": -2, "sid": g.nextSid(), "idx": 9 + rng.Intn(27), "item": 1 + rng.Intn(9)})
		x.do(x4Op{"k": "close", "win": 0})
		x.do(x4Op{"k": "open", "win": 0, "type": rng.Intn(6), "title": 1})
		for k := 0; k < 12; k++ {
			g.randomOp(true)
		}
	case 1: // what a vanilla server sends when a chest is opened: all 9R + 36 slots, then single slots of both areas
		typ := rng.Intn(6)
		x.do(x4Op{"k": "open", "win": 1, "type": typ, "title": 2})
		x.do(x4Op{"k": "content", "win": 1, "sid": g.nextSid(), "slots": g.items(9*(typ+1) + 36), "carried": 0})
		for k := 0; k < 6; k++ {
			x.do(x4Op{"k": "slot", "win": 1, "sid": g.nextSid(), "idx": rng.Intn(9*(typ+1) + 36), "item": g.item()})
		}
		x.do(x4Op{"k": "slot", "win": 1, "sid": g.nextSid(), "idx": 9 * (typ + 1), "item": 3})
		x.do(x4Op{"k": "slot", "win": 1, "sid": g.nextSid(), "idx": 9*(typ+1) + 35, "item": 4})
		x.do(x4Op{"k": "slot", "win": 1, "sid": g.nextSid(), "idx": 9*(typ+1) + 36, "item": 5})
		x.do(x4Op{"k": "close", "win": 1})
	case 2: // window -2: every index of the player inventory and the ones outside
		for _, i := range rng.Perm(48) {
			x.do(x4Op{"k": "slot", "win": -2, "sid": g.nextSid(), "idx": i - 1, "item": 1 + rng.Intn(9)})
		}
	case 3: // content with a carried item, for the inventory and for a chest
		x.do(x4Op{"k": "content", "win": 0, "sid": g.nextSid(), "slots": g.items(46), "carried": 1 + rng.Intn(9)})
		x.do(x4Op{"k": "slot", "win": -1, "sid": g.nextSid(), "idx": -1, "item": 1 + rng.Intn(9)})
		x.do(x4Op{"k": "content", "win": 0, "sid": g.nextSid(), "slots": g.items(46), "carried": 0})
		x.do(x4Op{"k": "open", "win": 2, "type": 0, "title": 1})
		x.do(x4Op{"k": "content", "win": 2, "sid": g.nextSid(), "slots": g.items(9), "carried": 1 + rng.Intn(9)})
		x.do(x4Op{"k": "content", "win": 2, "sid": g.nextSid(), "slots": g.items(5), "carried": 0})
		x.do(x4Op{"k": "click", "win": 2, "idx": 3, "item": 0, "carried": 0})
		x.do(x4Op{"k": "click", "win": 2, "idx": 4, "item": 1 + rng.Intn(9), "carried": -1})
	}
}

// ------------------------------------------------------------------ legs

func scrSpecLeg(env *vk.Env, book *x2Book) {
	x4SpecLeg(env, book, "BotScreen", []string{"BotScreen_MC.cfg"}, []string{"BotScreen_MC_thorough.cfg", "BotScreen_MC_3win_thorough.cfg"},
		[]x4Expected{
			{"BotScreen_MC_code_layout.cfg", "Layout", "Model(code) - Layout: TLC rejects the model of the code", "OpenScreen(1, generic_9x1) -> a window of RowLen slots; the intent has RowLen + NMain + NHot"},
			{"BotScreen_MC_code_inv.cfg", "InventoryAlways", "Model(code) - InventoryAlways: TLC rejects the model of the code", "ContainerClose(0) -> Screens = {}"},
			{"BotScreen_MC_code_carried.cfg", "ContentRule", "Model(code) - ContentRule: TLC rejects the model of the code", "ContainerSetContent(0, .., carried = 1) -> cursor stays 0"},
		},
		x4Expected{cfg: "BotScreen_MC_broken.cfg", violated: "CloseRule"})
}

func scrLegs(env *vk.Env, book *x2Book) {
	x4Legs(env, book, scrComp(), x4Sizes{behaviours: env.Pick(40, 400), depth: env.Pick(40, 60), histories: env.Pick(6, 40), ops: env.Pick(300, 700),
		haz: env.Pick(16, 80), partsA: env.Pick(2, 6), partsB: env.Pick(3, 8)}, scrPlain, scrHazard, 1000000)
}
