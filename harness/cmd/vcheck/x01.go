package main

// X01 (specification extension, DESIGN.md section 4 item 1): server/keepalive.go.
// Specs: KeepAlive.tla (timed model, variants "code"/"intended"/"lazy"), KeepAlive_Gen, KeepAlive_Trace.
// The real manager is built with NewKeepAlive and driven through ClientJoin / ClientLeft / ClientTick with fake
// clients; the only seam is overlays/server_keepalive_export.go (the two interval constants become variables, see
// overlays/gen.sh) because the exported API has no handle on time. Every event is logged under one mutex per
// manager with a monotonic stamp; KeepAlive_Trace (TLC) decides whether the log is a behaviour of the specification,
// using only inequalities that hold under every scheduling. Findings are printed as NOTE lines (extension checks
// never raise VIOLATION); the binary runs under -race (./check).

import (
	"bytes"
	"context"
	"encoding/json"
	"fmt"
	"os"
	"path/filepath"
	"regexp"
	"sort"
	"strconv"
	"strings"
	"sync"
	"time"

	"github.com/Tnze/go-mc/chat"
	"github.com/Tnze/go-mc/server"

	"verif/harness/vk"
)

func init() { drivers["X01"] = driver{run: runX01, replay: replayX01} }

const kaNote = "spec-extension KeepAlive "

// ------------------------------------------------------------------ recorder

type kaPlayer struct {
	joined      bool // between the driver's join and leave
	outstanding int  // pings seen and not answered by this driver
	kicked      bool
	pings       int
	delays      int
}

type kaLog struct {
	mu      sync.Mutex
	t0      time.Time
	lines   [][]byte
	pl      map[int]*kaPlayer
	changed chan struct{}
	dead    bool // the manager goroutine is gone (panic) or a call hung
}

func newKaLog() *kaLog {
	return &kaLog{t0: time.Now(), pl: map[int]*kaPlayer{}, changed: make(chan struct{})}
}

func (l *kaLog) player(p int) *kaPlayer {
	if l.pl[p] == nil {
		l.pl[p] = &kaPlayer{}
	}
	return l.pl[p]
}

// add appends one event; the stamp is read under the mutex, so file order = stamp order.
func (l *kaLog) add(k string, p int, f func(m map[string]any, pl *kaPlayer)) {
	l.mu.Lock()
	m := map[string]any{"k": k, "p": p, "at": int(time.Since(l.t0) / time.Microsecond)}
	if f != nil {
		f(m, l.player(p))
	}
	b, _ := json.Marshal(m)
	l.lines = append(l.lines, b)
	close(l.changed)
	l.changed = make(chan struct{})
	l.mu.Unlock()
}

// await blocks until pred holds (under the mutex) or d elapsed.
func (l *kaLog) await(d time.Duration, pred func() bool) bool {
	deadline := time.NewTimer(d)
	defer deadline.Stop()
	for {
		l.mu.Lock()
		ok, ch := pred() || l.dead, l.changed
		l.mu.Unlock()
		if ok {
			return true
		}
		select {
		case <-ch:
		case <-deadline.C:
			return false
		}
	}
}

func (l *kaLog) bytes() []byte {
	l.mu.Lock()
	defer l.mu.Unlock()
	return bytes.Join(l.lines, []byte("\n"))
}

type kaClient struct {
	p    int
	l    *kaLog
	hold chan struct{} // non-nil: SendKeepAlive blocks on it after logging (a slow connection)
}

func (c *kaClient) SendKeepAlive(id int64) {
	c.l.add("ping", c.p, func(m map[string]any, pl *kaPlayer) {
		m["id"] = int(id)
		pl.outstanding++
		pl.pings++
	})
	if c.hold != nil {
		<-c.hold
	}
}
func (c *kaClient) SendDisconnect(chat.Message) {
	c.l.add("kick", c.p, func(m map[string]any, pl *kaPlayer) { pl.kicked = true })
}

// ------------------------------------------------------------------ one manager

type kaMgr struct {
	l      *kaLog
	k      *server.KeepAlive
	cl     map[int]*kaClient
	cancel context.CancelFunc
	done   chan struct{}
	stallT time.Duration
}

func newKaMgr(p, w time.Duration, stall time.Duration, judgeSync bool) *kaMgr {
	m := &kaMgr{l: newKaLog(), cl: map[int]*kaClient{}, done: make(chan struct{}), stallT: stall}
	m.l.mu.Lock()
	b, _ := json.Marshal(map[string]any{"k": "reset", "p": 0, "at": 0, "P": int(p / time.Microsecond), "W": int(w / time.Microsecond), "sync": judgeSync})
	m.l.lines = append(m.l.lines, b)
	m.l.t0 = time.Now() // "at" 0 is before NewKeepAlive
	m.l.mu.Unlock()
	m.k = server.NewKeepAlive()
	m.k.AddPlayerDelayUpdateHandler(func(c server.KeepAliveClient, d time.Duration) {
		kc := c.(*kaClient)
		m.l.add("delay", kc.p, func(mm map[string]any, pl *kaPlayer) { mm["d"] = int(d / time.Microsecond); pl.delays++ })
	})
	ctx, cancel := context.WithCancel(context.Background())
	m.cancel = cancel
	go func() {
		defer close(m.done)
		if panicked, msg := catch(func() { m.k.Run(ctx) }); panicked {
			m.l.add("panic", 0, func(mm map[string]any, _ *kaPlayer) { mm["msg"] = msg })
			m.l.mu.Lock()
			m.l.dead = true
			m.l.mu.Unlock()
		}
	}()
	return m
}

func (m *kaMgr) client(p int) *kaClient {
	m.l.mu.Lock()
	defer m.l.mu.Unlock()
	if m.cl[p] == nil {
		m.cl[p] = &kaClient{p: p, l: m.l}
	}
	return m.cl[p]
}

// call logs `kind`, performs the (rendezvous) call and logs `ret`; a call that does not return is logged as `hang`.
func (m *kaMgr) call(kind string, p int, f func(c *kaClient)) bool {
	c := m.client(p)
	m.l.mu.Lock()
	dead := m.l.dead
	m.l.mu.Unlock()
	if dead {
		return false
	}
	var before int
	m.l.add(kind, p, func(_ map[string]any, pl *kaPlayer) {
		before = pl.delays
		switch kind {
		case "join":
			pl.joined, pl.kicked, pl.outstanding = true, false, 0
		case "leave":
			pl.joined = false
		case "pong":
			if pl.outstanding > 0 {
				pl.outstanding--
			}
		}
	})
	ret := make(chan struct{})
	go func() { f(c); close(ret) }()
	select {
	case <-ret:
	case <-time.After(m.stallT):
		m.l.add("hang", p, nil)
		m.l.mu.Lock()
		m.l.dead = true
		m.l.mu.Unlock()
		return false
	}
	if kind == "pong" { // the handlers run in the manager's goroutine after the rendezvous: wait for them
		if !m.l.await(m.stallT, func() bool { return m.l.player(p).delays > before }) {
			m.l.add("nodelay", p, nil)
		}
	}
	m.l.add("ret", p, nil)
	return true
}
func (m *kaMgr) join(p int)  { m.call("join", p, func(c *kaClient) { m.k.ClientJoin(c) }) }
func (m *kaMgr) leave(p int) { m.call("leave", p, func(c *kaClient) { m.k.ClientLeft(c) }) }
func (m *kaMgr) pong(p int)  { m.call("pong", p, func(c *kaClient) { m.k.ClientTick(c) }) }

// awaitEvent waits until player p has been pinged (want "ping": an unanswered ping exists) or kicked; a
// time-out (very long compared with the intervals) is logged as `stall` and judged by the specification.
func (m *kaMgr) awaitEvent(p int, want string) bool {
	ok := m.l.await(m.stallT, func() bool {
		pl := m.l.player(p)
		return pl.kicked || (want == "ping" && pl.outstanding > 0)
	})
	if !ok { // the specification never accepts a stall of a player in a list: the rest of the scenario is skipped
		m.l.add("stall", p, func(mm map[string]any, _ *kaPlayer) { mm["want"] = want })
		m.l.mu.Lock()
		m.l.dead = true
		m.l.mu.Unlock()
	}
	return ok
}

func (m *kaMgr) snapshot(p int) kaPlayer { m.l.mu.Lock(); defer m.l.mu.Unlock(); return *m.l.player(p) }

func (m *kaMgr) finish() []byte {
	m.l.add("end", 0, nil)
	m.cancel()
	select {
	case <-m.done:
	case <-time.After(2 * time.Second):
	}
	return m.l.bytes()
}

// ------------------------------------------------------------------ scenarios

type kaStep struct {
	Op string `json:"op"` // join leave pong latepong tick
	P  int    `json:"p"`
}

type kaScenario struct {
	ID      int      `json:"id"`
	Origin  string   `json:"origin"` // tlc-simulate | random | probe-*
	PUs     int      `json:"p_us"`
	WUs     int      `json:"w_us"`
	Script  []kaStep `json:"script,omitempty"`
	Seed    int64    `json:"seed"`
	Players int      `json:"players,omitempty"`
	Rounds  int      `json:"rounds,omitempty"`
	StallMs int      `json:"stall_ms"`
	Async   bool     `json:"async"`      // run with GODEBUG=asynctimerchan=1 (what go-mc's go.mod selects); else go1.23 timer channels
	Judge   string   `json:"judge_sync"` // "" -> timer bounds iff !Async; "sync" -> timer bounds although Async (probe-stale)
}

func (sc kaScenario) judgeSync() bool { return !sc.Async || sc.Judge == "sync" }

func (sc kaScenario) pw() (time.Duration, time.Duration, time.Duration) {
	return time.Duration(sc.PUs) * time.Microsecond, time.Duration(sc.WUs) * time.Microsecond, time.Duration(sc.StallMs) * time.Millisecond
}

// runKaScript replays a TLC behaviour: environment steps in the behaviour's order, one model tick = P/2 of sleep.
// The manager's own steps are not forced (they cannot be); whatever it does is logged and judged afterwards.
func runKaScript(sc kaScenario) []byte {
	p, w, stall := sc.pw()
	m := newKaMgr(p, w, stall, sc.judgeSync())
	for _, s := range sc.Script {
		pl := m.snapshot(s.P)
		switch s.Op {
		case "tick":
			time.Sleep(p / 2)
		case "join":
			if !pl.joined {
				m.join(s.P)
			}
		case "leave":
			if pl.joined {
				m.leave(s.P)
			}
		case "pong": // answer a ping: wait for it if the real manager is behind the model
			if pl.joined && !pl.kicked && m.awaitEvent(s.P, "ping") && !m.snapshot(s.P).kicked {
				m.pong(s.P)
			}
		case "latepong": // a pong that arrives after the kick
			if pl.joined && pl.kicked {
				m.pong(s.P)
			}
		}
	}
	kaDrain(m, sc, 3)
	return m.finish()
}

// kaDrain: every player still joined stops answering and must be pinged and then kicked; then it leaves.
func kaDrain(m *kaMgr, sc kaScenario, n int) {
	for p := 1; p <= n; p++ {
		if pl := m.snapshot(p); pl.joined {
			if !pl.kicked {
				if m.awaitEvent(p, "ping") {
					m.awaitEvent(p, "kick")
				}
			}
			m.leave(p)
		}
	}
}

// runKaRandom: one goroutine per player, each with its own seeded policy, all talking to one manager.
func runKaRandom(sc kaScenario) []byte {
	p, w, stall := sc.pw()
	m := newKaMgr(p, w, stall, sc.judgeSync())
	var wg sync.WaitGroup
	for pi := 1; pi <= sc.Players; pi++ {
		wg.Add(1)
		go func(pi int) {
			defer wg.Done()
			rng := newRand(sc.Seed, fmt.Sprint("ka", sc.ID, "/", pi))
			nap := func(max time.Duration) { time.Sleep(time.Duration(rng.Int63n(int64(max) + 1))) }
			for r := 0; r < sc.Rounds; r++ {
				nap(2 * p)
				m.join(pi)
				answers := rng.Intn(4) // how many pings this session answers before it changes its mind
				mode := rng.Intn(3)    // afterwards: 0 silent until kicked, 1 leaves while waiting, 2 leaves right after a pong
				for {
					if !m.awaitEvent(pi, "ping") || m.snapshot(pi).kicked {
						break
					}
					if answers == 0 {
						if mode == 0 {
							m.awaitEvent(pi, "kick")
						} else {
							nap(w / 2)
						}
						break
					}
					nap(w / 3)
					if m.snapshot(pi).kicked {
						break
					}
					m.pong(pi)
					answers--
					if answers == 0 && mode == 2 {
						break
					}
				}
				m.leave(pi)
			}
		}(pi)
	}
	wg.Wait()
	return m.finish()
}

// probes: three deterministic situations outside the environment assumption of the main legs
func runKaProbe(sc kaScenario) []byte {
	p, w, stall := sc.pw()
	m := newKaMgr(p, w, stall, sc.judgeSync())
	switch sc.Origin {
	case "probe-fresh": // the first player of a fresh manager never answers
		m.join(1)
		if m.awaitEvent(1, "ping") {
			m.awaitEvent(1, "kick")
		}
		m.leave(1)
	case "probe-unsolicited": // a pong without a ping, then the player leaves; nothing may be sent to it afterwards
		m.join(1)
		m.pong(1)
		m.leave(1)
		time.Sleep(2*p + w)
	case "probe-stale", "probe-stale-go123": // pre-go1.23 timer channels: a value already sent survives removePlayer's Reset
		// A and B are pinged back to back; B's SendKeepAlive blocks (slow connection) until the waitTimer has
		// expired, while A's ClientLeft is waiting. If the select takes the quit first, the waitTimer is re-armed
		// for B's deadline without draining - and the stale value kicks B at once.
		b := m.client(2)
		b.hold = make(chan struct{})
		m.join(1)
		m.join(2)
		left := make(chan struct{})
		if m.awaitEvent(2, "ping") {
			go func() { m.leave(1); close(left) }()
			time.Sleep(w - p + p/5)
		} else {
			close(left)
		}
		close(b.hold)
		<-left
		m.awaitEvent(2, "kick")
		m.leave(2)
	case "probe-latepong": // a pong that arrives after the kick; the player stays connected for a while
		m.join(1)
		if m.awaitEvent(1, "ping") && m.awaitEvent(1, "kick") {
			m.pong(1)
			time.Sleep(2*p + w)
		}
		m.leave(1)
	}
	return m.finish()
}

func runKaScenario(sc kaScenario) []byte {
	switch {
	case strings.HasPrefix(sc.Origin, "probe-"):
		return runKaProbe(sc)
	case sc.Origin == "random":
		return runKaRandom(sc)
	}
	return runKaScript(sc)
}

var kaBatchMu sync.Mutex // the intervals and GODEBUG are process-wide

// runKaBatch runs scenarios that share (P, W, timer semantics) concurrently (the two intervals are package variables of the overlay).
func runKaBatch(env *vk.Env, scs []kaScenario, par int) [][]byte {
	kaBatchMu.Lock()
	defer kaBatchMu.Unlock()
	out := make([][]byte, len(scs))
	for i := 0; i < len(scs); {
		j := i
		for j < len(scs) && scs[j].PUs == scs[i].PUs && scs[j].WUs == scs[i].WUs && scs[j].Async == scs[i].Async {
			j++
		}
		// time.NewTimer reads the setting when a timer is created; internal/godebug follows os.Setenv
		if scs[i].Async {
			os.Setenv("GODEBUG", "asynctimerchan=1")
		} else {
			os.Setenv("GODEBUG", "asynctimerchan=0")
		}
		p, w, _ := scs[i].pw()
		if _, _, ok := server.VerifSetKeepAliveIntervals(p, w); !ok {
			env.Infra("overlays/gen.sh could not turn keepAliveInterval / keepAliveWaitInterval into variables: no control over time")
			return nil
		}
		sem := make(chan struct{}, par)
		var wg sync.WaitGroup
		for k := i; k < j; k++ {
			wg.Add(1)
			sem <- struct{}{}
			go func(k int) {
				defer wg.Done()
				defer func() { <-sem }()
				out[k] = runKaScenario(scs[k])
			}(k)
		}
		wg.Wait()
		i = j
	}
	return out
}

// ------------------------------------------------------------------ behaviours from TLC

var reKaObs = regexp.MustCompile(`obs = <<"(\w+)", (\d+), (-?\d+)>>`)

func parseKaBehaviours(dir string, seed int64, pus, wus, stallMs int) []kaScenario {
	files, _ := filepath.Glob(filepath.Join(dir, "kabeh_*"))
	sort.Strings(files)
	var out []kaScenario
	for i, f := range files {
		b, err := os.ReadFile(f)
		if err != nil {
			continue
		}
		sc := kaScenario{ID: 50000 + i, Origin: "tlc-simulate", PUs: pus, WUs: wus, Seed: seed, StallMs: stallMs}
		for _, m := range reKaObs.FindAllStringSubmatch(string(b), -1) {
			p, _ := strconv.Atoi(m[2])
			switch m[1] {
			case "join", "leave", "pong", "latepong", "tick":
				sc.Script = append(sc.Script, kaStep{m[1], p})
			}
		}
		if len(sc.Script) > 0 {
			out = append(out, sc)
		}
	}
	return out
}

// ------------------------------------------------------------------ judging (TLC)

var reKaEarly = regexp.MustCompile(`<<"EARLY", (\d+)>>`)

type kaVerdict struct {
	Accepted bool
	HWM      int // first rejected line (1-based) of the concatenation
	Early    int
	Out      string
}

func kaValidate(env *vk.Env, label, cfg string, traces [][]byte, count bool) (*kaVerdict, error) {
	all := append(bytes.Join(traces, []byte("\n")), '\n')
	v, err := env.ValidateTrace(vk.TLCRun{Name: label, Module: "KeepAlive_Trace", Cfg: cfg, Workers: 1, DFS: true, Timeout: 15 * time.Minute, NoCount: !count}, "trace.ndjson", all)
	if err != nil {
		return nil, err
	}
	kv := &kaVerdict{Accepted: v.Accepted, HWM: v.HWM, Out: v.Res.Output}
	for _, l := range v.Res.PrintedVals {
		if m := reKaEarly.FindStringSubmatch(l); m != nil {
			kv.Early, _ = strconv.Atoi(m[1])
		}
	}
	if !v.Accepted && v.HWM == 0 {
		return nil, fmt.Errorf("no verdict from TLC:\n%s", v.Res.Output)
	}
	return kv, nil
}

type kaEvent struct {
	K    string `json:"k"`
	P    int    `json:"p"`
	At   int    `json:"at"`
	ID   int    `json:"id"`
	D    int    `json:"d"`
	Want string `json:"want"`
	Msg  string `json:"msg"`
}

// kaClassify names the rejection (a label for the NOTE line; the verdict itself is TLC's).
func kaClassify(trace []byte, hwm int, ownDelay bool) (sig, line string) {
	lines := bytes.Split(trace, []byte("\n"))
	if hwm < 1 || hwm > len(lines) {
		return "trace rejected", ""
	}
	type sh struct {
		joined, left, kicked, everPinged bool
		outstanding                      int
	}
	pl := map[int]*sh{}
	get := func(p int) *sh {
		if pl[p] == nil {
			pl[p] = &sh{}
		}
		return pl[p]
	}
	nextID := 0
	var ev kaEvent
	for i := 0; i < hwm; i++ {
		ev = kaEvent{}
		json.Unmarshal(lines[i], &ev)
		if i == hwm-1 {
			break
		}
		s := get(ev.P)
		switch ev.K {
		case "join":
			*s = sh{joined: true}
		case "leave":
			s.joined, s.left = false, true
		case "ping":
			s.outstanding++
			s.everPinged = true
			nextID++
		case "pong":
			if s.outstanding > 0 {
				s.outstanding--
			}
		case "kick":
			s.kicked = true
			s.outstanding = 0
		}
	}
	s := get(ev.P)
	line = vkTrunc(string(lines[hwm-1]), 200)
	switch ev.K {
	case "ping":
		switch {
		case !s.joined:
			sig = "ping sent to a player that left"
		case s.kicked:
			sig = "ping sent to a player that was kicked (it is back in the ping list)"
		case s.outstanding > 0:
			sig = "second ping while the first one is unanswered (player in both lists / twice in a list)"
		case ev.ID != nextID:
			sig = "keep-alive id not consecutive"
		default:
			sig = "ping out of order (not the head of the ping list)"
		}
	case "kick":
		switch {
		case !s.joined:
			sig = "kick of a player that left"
		case s.kicked:
			sig = "second kick of the same player"
		case s.outstanding == 0:
			sig = "kick of a player with no ping outstanding (it answered / was never pinged)"
		case ownDelay:
			sig = "kick before the kicked player's own delay (W after its ping) ran out, or out of order"
		default:
			sig = "kick earlier than its timer allows or out of order (waitTimer armed for an earlier deadline / not the head of the wait list)"
		}
	case "delay":
		sig = "delay handed to the handlers outside [pong call - ping sent, handler call - earliest ping instant] (wrong timestamp)"
	case "stall":
		sig = "no " + ev.Want + " for a player the manager owes one (timer not re-armed / player lost from its list)"
	case "panic":
		sig = "manager goroutine panicked: " + vkTrunc(ev.Msg, 120)
	case "hang":
		sig = "call into the manager never returned (Run blocked or gone)"
	case "nodelay":
		sig = "ClientTick returned but no delay handler was called"
	case "ret", "end":
		sig = "call returned but the specification cannot place its effect (" + ev.K + ")"
	default:
		sig = "trace rejected at event " + ev.K
	}
	return sig, line
}

// kaJudge validates all scenario logs in one TLC run; each rejection is re-judged alone, must re-occur with the same
// signature on two fresh runs of the same scenario, and becomes a NOTE finding. Returns the findings (sig -> count).
func kaJudge(env *vk.Env, label, cfg string, scs []kaScenario, traces [][]byte, maxFindings int) map[string]int {
	found := map[string]int{}
	from, handled := 0, 0
	for from < len(scs) {
		v, err := kaValidate(env, fmt.Sprintf("%s [%d..%d)", label, from, len(scs)), cfg, traces[from:], true)
		if err != nil {
			env.Infra("%s: %v", label, err)
			return found
		}
		if v.Accepted {
			env.AddTraces(int64(len(scs) - from))
			for i := from; i < len(scs); i++ {
				env.AddEval(int64(bytes.Count(traces[i], []byte("\n")) + 1))
				env.Distinct(fmt.Sprintf("ka/%s/P%d/W%d/pl%d/len%d", scs[i].Origin, scs[i].PUs, scs[i].WUs, scs[i].Players, len(scs[i].Script)/10))
			}
			env.Sub(map[string]any{"run": label, "cfg": cfg, "scenarios": len(scs) - from, "accepted": true, "kicks_before_own_delay": v.Early})
			return found
		}
		// locate the scenario
		bi, line := from, 0
		for i := from; i < len(scs); i++ {
			n := bytes.Count(traces[i], []byte("\n")) + 1
			if v.HWM <= line+n {
				bi = i
				break
			}
			line += n
		}
		env.AddTraces(int64(bi - from))
		sig, detail, ok := kaJudgeOne(env, cfg, traces[bi])
		if !ok {
			env.Infra("%s: rejection at line %d not confirmed when scenario %d's log was validated alone", label, v.HWM, scs[bi].ID)
			return found
		}
		// a rejection counts when two fresh runs of the same scenario are rejected as well (whatever the line)
		confirmed, other := 1, []string{}
		t2 := runKaBatch(env, []kaScenario{scs[bi], scs[bi]}, 2)
		if t2 == nil {
			return found
		}
		var cw sync.WaitGroup
		var cmu sync.Mutex
		for r := 0; r < 2; r++ {
			cw.Add(1)
			go func(r int) {
				defer cw.Done()
				if sig2, _, ok2 := kaJudgeOne(env, cfg, t2[r]); ok2 {
					cmu.Lock()
					confirmed++
					if sig2 != sig {
						other = append(other, sig2)
					}
					cmu.Unlock()
				}
			}(r)
		}
		cw.Wait()
		handled++
		if confirmed == 3 {
			if found[sig] == 0 {
				more := ""
				if len(other) > 0 {
					more = "; re-runs rejected as: " + strings.Join(other, " / ")
				}
				env.Note(kaNote+"finding: %s [%s, scenario %s; rejected line: %s%s]", sig, label, scs[bi].Origin, detail, more)
				kaSaveReplay(env, sig, scs[bi], traces[bi])
			}
			found[sig]++
		} else {
			kaSaveReplay(env, "unconfirmed "+sig, scs[bi], traces[bi])
			env.Note(kaNote+"unconfirmed: %s (rejected once, %d of 3 runs of scenario %d rejected; not counted) [%s]", sig, confirmed, scs[bi].ID, label)
		}
		if handled >= maxFindings && bi+1 < len(scs) {
			env.Note(kaNote+"info: %s: %d rejections handled, the remaining %d scenarios are not judged", label, handled, len(scs)-bi-1)
			return found
		}
		from = bi + 1
	}
	return found
}

func kaJudgeOne(env *vk.Env, cfg string, trace []byte) (sig, detail string, rejected bool) {
	v, err := kaValidate(env, "rejudge", cfg, [][]byte{trace}, false)
	if err != nil || v.Accepted {
		return "", "", false
	}
	sig, detail = kaClassify(trace, v.HWM, cfg == "KeepAlive_Trace_strict.cfg")
	return sig, detail, true
}

// replay files of findings are kept next to the other replays (the check still exits 0)
func kaSaveReplay(env *vk.Env, sig string, sc kaScenario, trace []byte) {
	dir := filepath.Join(vk.Root, "out", "replays")
	os.MkdirAll(dir, 0o755)
	b, _ := json.MarshalIndent(map[string]any{"property": "X01", "signature": sig, "replay": map[string]any{"kind": "ka", "scenario": sc, "recorded": string(trace)}}, "", " ")
	h := 0
	for _, c := range sig {
		h = (h*31 + int(c)) & 0xffff
	}
	os.WriteFile(filepath.Join(dir, fmt.Sprintf("X01-%s-%d-%04x.json", env.Tier, env.Seed, h)), b, 0o644)
}

// kaRaceReports: race detector reports with a go-mc frame become NOTE findings.
func kaRaceReports(env *vk.Env) {
	base := os.Getenv("VERIF_RACELOG")
	if base == "" {
		env.Note(kaNote + "info: VERIF_RACELOG not set, race detector log not read (binary not started by ./check)")
		return
	}
	files, _ := filepath.Glob(base + "*")
	seen := map[string]bool{}
	for _, f := range files {
		b, _ := os.ReadFile(f)
		for _, rep := range bytes.Split(b, []byte("WARNING: DATA RACE")) {
			for _, m := range reRaceAccess.FindAllSubmatch(rep, -1) {
				fn := string(m[1])
				if strings.Contains(fn, "github.com/Tnze/go-mc/") && !strings.Contains(fn, "Verif") && !seen[fn] {
					seen[fn] = true
					env.Note(kaNote+"finding: data race reported by the Go race detector at %s", strings.TrimPrefix(fn, "github.com/Tnze/go-mc/"))
					break
				}
			}
		}
		os.Remove(f)
	}
}

// ------------------------------------------------------------------ driver

func kaSpecLeg(env *vk.Env) bool {
	ok := true
	cfgs := []string{"KeepAlive_MC.cfg", "KeepAlive_MC_code.cfg", "KeepAlive_MC_live.cfg", "KeepAlive_MC_code_live.cfg"}
	if !env.Quick() {
		cfgs = append(cfgs, "KeepAlive_MC_thorough.cfg", "KeepAlive_MC_code_thorough.cfg", "KeepAlive_MC_live_thorough.cfg", "KeepAlive_MC_code_live_thorough.cfg")
	}
	var wg sync.WaitGroup
	var mu sync.Mutex
	fail := func() { mu.Lock(); ok = false; mu.Unlock() }
	for _, cfg := range cfgs {
		wg.Add(1)
		go func(cfg string) {
			defer wg.Done()
			if env.MustSpec(vk.TLCRun{Name: "S " + cfg, Module: "KeepAlive", Cfg: cfg, Workers: env.Pick(2, 8), Timeout: 20 * time.Minute}) == nil {
				fail()
			}
		}(cfg)
		if !env.Quick() {
			wg.Wait() // the thorough models are run one at a time
		}
	}
	wg.Add(2)
	// vacuity guard: the "lazy" variant (listTimer not re-armed on an empty list) must violate the liveness property
	go func() {
		defer wg.Done()
		lz, err := env.TLC(vk.TLCRun{Name: "S lazy selftest (must fail)", Module: "KeepAlive", Cfg: "KeepAlive_MC_lazy.cfg", Workers: 2, NoCount: true})
		if err != nil || lz.OK || !strings.Contains(lz.Violated, "Temporal") {
			env.Infra("the lazy variant of KeepAlive.tla was not rejected by TLC: the liveness properties are vacuous")
			fail()
		}
	}()
	// the model of keepalive.go as it is: does it keep "nobody is kicked before its own delay ran out"?
	go func() {
		defer wg.Done()
		ce, err := env.TLC(vk.TLCRun{Name: "S code variant vs KickNotEarly", Module: "KeepAlive", Cfg: "KeepAlive_MC_code_early.cfg", Workers: 1, NoCount: true})
		switch {
		case err != nil || (!ce.OK && ce.Violated != "KickNotEarly"):
			env.Infra("KeepAlive_MC_code_early.cfg: unexpected TLC result")
			fail()
		case ce.Violated == "KickNotEarly":
			env.Note(kaNote + "finding: model: KeepAlive.tla with Variant=\"code\" (PingFire leaves the waitTimer alone, KickFire kicks the head without looking at its stamp) violates KickNotEarly: fresh manager, join, ping at P, kick at W, i.e. W-P after the ping instead of W (TLC counterexample, 9 states); Variant=\"intended\" keeps it")
		}
	}()
	wg.Wait()
	return ok
}

// probe -> the semantics it is judged against
var kaProbeNames = []string{"probe-fresh", "probe-unsolicited", "probe-latepong", "probe-stale", "probe-stale-go123"}
var kaProbeCfg = map[string]string{"probe-fresh": "KeepAlive_Trace_strict.cfg", "probe-unsolicited": "KeepAlive_Trace_strict.cfg",
	"probe-latepong": "KeepAlive_Trace_nolate.cfg", "probe-stale": "KeepAlive_Trace.cfg", "probe-stale-go123": "KeepAlive_Trace.cfg"}

const kaStaleAttempts = 12 // the select between ClientLeft and the expired timer is a coin flip: 12 independent managers

func kaProbeScenarios(env *vk.Env) []kaScenario {
	var scs []kaScenario
	for i, n := range kaProbeNames {
		sc := kaScenario{ID: 90000 + 100*i, Origin: n, PUs: 50000, WUs: 100000, Seed: env.Seed, StallMs: 3000}
		if n == "probe-stale" { // go-mc's own timer-channel semantics, judged by "a timer does not fire before its setting"
			sc.Async, sc.Judge = true, "sync"
			for k := 0; k < kaStaleAttempts; k++ {
				sc.ID++
				scs = append(scs, sc)
			}
			continue
		}
		if n == "probe-stale-go123" { // the same situation with go1.23 timer channels: Reset drains, nothing stale
			for k := 0; k < 4; k++ {
				sc.ID++
				scs = append(scs, sc)
			}
			continue
		}
		scs = append(scs, sc)
	}
	return scs
}

func kaJudgeProbes(env *vk.Env, scs []kaScenario, traces [][]byte) {
	notes := make([]string, len(kaProbeNames))
	var wg sync.WaitGroup
	for pi, name := range kaProbeNames {
		var idx []int
		for i := range scs {
			if scs[i].Origin == name {
				idx = append(idx, i)
			}
		}
		wg.Add(1)
		go func(pi int, name string, idx []int) {
			defer wg.Done()
			var tr [][]byte
			for _, i := range idx {
				tr = append(tr, traces[i])
			}
			v, err := kaValidate(env, name+" (judged by "+kaProbeCfg[name]+")", kaProbeCfg[name], tr, true)
			if err != nil {
				env.Infra("%s: %v", name, err)
				return
			}
			env.AddTraces(int64(len(idx)))
			env.Distinct("ka/" + name)
			if v.Accepted {
				notes[pi] = fmt.Sprintf(kaNote+"info: %s accepted by the specification it is judged against (defect not present / not hit on this tree)", name)
				return
			}
			line := 0
			for _, i := range idx {
				n := bytes.Count(traces[i], []byte("\n")) + 1
				if v.HWM <= line+n {
					sig, detail := kaClassify(traces[i], v.HWM-line, kaProbeCfg[name] == "KeepAlive_Trace_strict.cfg")
					notes[pi] = fmt.Sprintf(kaNote+"finding: %s: %s [rejected line: %s]", name, sig, detail)
					kaSaveReplay(env, name+": "+sig, scs[i], traces[i])
					break
				}
				line += n
			}
		}(pi, name, idx)
	}
	wg.Wait()
	for _, n := range notes {
		if n != "" {
			env.Note("%s", n)
		}
	}
}

func runX01(env *vk.Env) {
	env.Cov.Rule = "S: TLC checks KeepAlive.tla (3 players, P=2, W=4; thorough 4 players P=3 W=7): InOneList, TimeOrder, TimersAlive, timers never late, PingOnTime/KickOnTime (prompt goroutine), KickNotEarly (intended variant), liveness EventuallyPinged / EventuallyKickedOrAnswered under weak fairness with a lagging goroutine; the lazy variant must fail liveness; the code variant is checked against KickNotEarly (model-level finding). A: TLC-simulated behaviours of the code variant are replayed as join/leave/answer/ignore scripts into the real server.KeepAlive (intervals shortened through the overlay). B: one goroutine per player with seeded policies under -race. Every log is validated by KeepAlive_Trace (list layer + scheduling-independent real-time inequalities, silent Apply steps, high-water mark); three probes outside the environment assumption are judged against the intended semantics. Distinct/non-trivial = scenario shapes."
	env.Assume = []string{
		"time is controlled only by shortening keepAliveInterval / keepAliveWaitInterval (const -> var in a build-time copy, overlays/gen.sh); nothing else of server/keepalive.go is touched",
		"stamps are read from the monotonic clock under the log mutex; only inequalities valid under every scheduling are used (a timer never fires before the instant it was set to)",
		"a rejection counts as a finding only if two fresh runs of the same scenario are rejected with the same signature; a stall is a time-out of 100x the kick delay",
		"clients of the main legs are protocol-conformant: one ClientTick per ping, ClientLeft exactly once after the join (also after a kick); anything else is a probe",
		"extension check: findings are NOTE lines, the exit code stays 0 (DESIGN.md section 4)",
	}
	specOK := make(chan bool, 1)
	go func() { specOK <- kaSpecLeg(env) }()
	stall := 2500
	// leg A: behaviours from TLC
	nsim := env.Pick(40, 1200)
	gen, err := env.TLC(vk.TLCRun{Name: "A generator", Module: "KeepAlive_Gen", Cfg: "KeepAlive_Gen.cfg", Workers: 1, Simulate: fmt.Sprintf("file=kabeh,num=%d", nsim), Depth: env.Pick(60, 90), NoCount: true, KeepOut: true})
	if err != nil || gen.ExitCode != 0 {
		env.Infra("keep-alive behaviour generation failed: %v", err)
		<-specOK
		return
	}
	beh := parseKaBehaviours(gen.Dir, env.Seed, 20000, 40000, stall)
	os.RemoveAll(gen.Dir)
	for i := range beh { // first half with go1.23 timer channels (timer bounds judged), second half as go-mc's go.mod selects
		beh[i].Async = i >= len(beh)/2
	}
	if len(beh) < nsim/2 {
		env.Infra("only %d keep-alive behaviours parsed", len(beh))
		<-specOK
		return
	}
	// leg B: random players
	nsc := env.Pick(45, 2400)
	pws := [][2]int{{20000, 40000}, {10000, 30000}, {25000, 25000}}
	var scs []kaScenario
	for j, pw := range pws {
		for i := j; i < nsc; i += len(pws) {
			rng := newRand(env.Seed, fmt.Sprint("kasc", i))
			scs = append(scs, kaScenario{ID: i, Origin: "random", PUs: pw[0], WUs: pw[1], Seed: env.Seed, Players: 2 + rng.Intn(5), Rounds: 2 + rng.Intn(3), StallMs: stall, Async: i%2 == 1})
		}
	}
	sort.SliceStable(scs, func(a, b int) bool {
		if scs[a].PUs != scs[b].PUs {
			return scs[a].PUs < scs[b].PUs
		}
		return !scs[a].Async && scs[b].Async
	})
	probes := kaProbeScenarios(env)
	ta := runKaBatch(env, beh, 10)
	tb := runKaBatch(env, scs, 10)
	tp := runKaBatch(env, probes, len(probes))
	os.Setenv("GODEBUG", "")
	if !<-specOK || ta == nil || tb == nil || tp == nil {
		return
	}
	env.Cov.Exhaustive = true
	var fa, fb map[string]int
	var wg sync.WaitGroup
	wg.Add(3)
	go func() { defer wg.Done(); fa = kaJudge(env, "A tlc-behaviours", "KeepAlive_Trace.cfg", beh, ta, 3) }()
	go func() { defer wg.Done(); fb = kaJudge(env, "B random players", "KeepAlive_Trace.cfg", scs, tb, 3) }()
	go func() { defer wg.Done(); kaJudgeProbes(env, probes, tp) }()
	wg.Wait()
	found := map[string]int{}
	for _, f := range []map[string]int{fa, fb} {
		for k, v := range f {
			found[k] += v
		}
	}
	env.Sample(map[string]any{"script": beh[0].Script[:min(len(beh[0].Script), 24)]})
	env.Sample(scs[0])
	env.Sample(strings.Split(string(tb[0]), "\n")[:min(8, bytes.Count(tb[0], []byte("\n")))])
	kaRaceReports(env)
	early := 0
	for _, s := range env.Cov.Sub {
		if n, ok := s["kicks_before_own_delay"].(int); ok {
			early += n
		}
	}
	env.Note(kaNote+"info: main legs: %d confirmed finding signature(s); %d kick(s) came before the kicked player's own delay had run out (accepted as-coded, see probe-fresh)", len(found), early)
}

func replayX01(env *vk.Env, b []byte) {
	var f struct {
		Sig    string `json:"signature"`
		Replay struct {
			Scenario kaScenario `json:"scenario"`
			Recorded string     `json:"recorded"`
		} `json:"replay"`
	}
	json.Unmarshal(b, &f)
	env.Cov.States, env.Cov.Transitions = 1, 1
	env.Cov.Rule = "replay of one recorded X01 scenario: the recorded log and a fresh run are judged by KeepAlive_Trace"
	env.Assume = []string{"extension check: findings are NOTE lines, the exit code stays 0"}
	env.Sample(f.Replay.Scenario)
	cfg := "KeepAlive_Trace.cfg"
	if c, ok := kaProbeCfg[f.Replay.Scenario.Origin]; ok {
		cfg = c
	}
	// the recorded log, and a fresh run of the same scenario
	if sig, detail, rej := kaJudgeOne(env, cfg, []byte(f.Replay.Recorded)); rej {
		env.Note(kaNote+"finding: recorded log: %s [rejected line: %s]", sig, detail)
	} else {
		env.Note(kaNote + "info: recorded log accepted")
	}
	if t := runKaBatch(env, []kaScenario{f.Replay.Scenario}, 1); t != nil {
		if sig, detail, rej := kaJudgeOne(env, cfg, t[0]); rej {
			env.Note(kaNote+"finding: fresh run: %s [rejected line: %s]", sig, detail)
		} else {
			env.Note(kaNote + "info: fresh run accepted")
		}
	}
	kaRaceReports(env)
}
