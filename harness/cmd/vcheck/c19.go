package main

// C19: bot and server gate interoperate. Specs: Join.tla (+ Join_Trace, Join_Gen), Dispatch.tla (+ Dispatch_Trace,
// Dispatch_Gen). The binary is built with -race (see ./check); race reports are collected at the end of the run.
//
// This file: the transport (buffered in-memory duplex, recording tap), the independent frame reader and the
// scenario runner. c19b.go: generators, judges, the driver and replay.

import (
	"bytes"
	"compress/zlib"
	"context"
	"crypto/md5"
	"crypto/sha256"
	"encoding/binary"
	"encoding/hex"
	"encoding/json"
	"errors"
	"fmt"
	"io"
	"net"
	"sync"
	"time"

	"github.com/Tnze/go-mc/bot"
	"github.com/Tnze/go-mc/chat"
	"github.com/Tnze/go-mc/data/packetid"
	mcnet "github.com/Tnze/go-mc/net"
	pk "github.com/Tnze/go-mc/net/packet"
	"github.com/Tnze/go-mc/server"
	"github.com/Tnze/go-mc/yggdrasil/user"
	"github.com/google/uuid"
)

// ------------------------------------------------------------------ buffered in-memory duplex

// jnHalf is one direction of the duplex: an unbounded byte buffer. Write never blocks (net.Pipe is
// unbuffered: two peers that both write before reading would deadlock, which TCP does not do).
type jnHalf struct {
	mu     sync.Mutex
	cond   *sync.Cond
	buf    []byte
	wclose bool // writer side closed: readers drain, then io.EOF
	rclose bool // reader side closed: reads fail at once, writes fail
}

func newJnHalf() *jnHalf { h := &jnHalf{}; h.cond = sync.NewCond(&h.mu); return h }

func (h *jnHalf) write(b []byte) (int, error) {
	h.mu.Lock()
	defer h.mu.Unlock()
	if h.wclose {
		return 0, net.ErrClosed
	}
	if h.rclose {
		return 0, io.ErrClosedPipe
	}
	h.buf = append(h.buf, b...)
	h.cond.Broadcast()
	return len(b), nil
}

func (h *jnHalf) read(b []byte) (int, error) {
	h.mu.Lock()
	defer h.mu.Unlock()
	for {
		if h.rclose {
			return 0, net.ErrClosed
		}
		if len(h.buf) > 0 {
			n := copy(b, h.buf)
			h.buf = h.buf[n:]
			return n, nil
		}
		if h.wclose {
			return 0, io.EOF
		}
		h.cond.Wait()
	}
}

type jnAddr string

func (a jnAddr) Network() string { return "mem" }
func (a jnAddr) String() string  { return string(a) }

// jnPipeEnd implements net.Conn over two halves.
type jnPipeEnd struct {
	in, out *jnHalf
	name    string
}

func jnPipe() (a, b *jnPipeEnd) {
	x, y := newJnHalf(), newJnHalf()
	return &jnPipeEnd{in: x, out: y, name: "bot"}, &jnPipeEnd{in: y, out: x, name: "srv"}
}

func (p *jnPipeEnd) Read(b []byte) (int, error)  { return p.in.read(b) }
func (p *jnPipeEnd) Write(b []byte) (int, error) { return p.out.write(b) }
func (p *jnPipeEnd) Close() error {
	p.out.mu.Lock()
	p.out.wclose = true
	p.out.cond.Broadcast()
	p.out.mu.Unlock()
	p.in.mu.Lock()
	p.in.rclose = true
	p.in.cond.Broadcast()
	p.in.mu.Unlock()
	return nil
}
func (p *jnPipeEnd) LocalAddr() net.Addr              { return jnAddr(p.name) }
func (p *jnPipeEnd) RemoteAddr() net.Addr             { return jnAddr("peer-of-" + p.name) }
func (p *jnPipeEnd) SetDeadline(time.Time) error      { return nil }
func (p *jnPipeEnd) SetReadDeadline(time.Time) error  { return nil }
func (p *jnPipeEnd) SetWriteDeadline(time.Time) error { return nil }

// ------------------------------------------------------------------ event log and tap

// jnLog is the one mutex-ordered event log of a scenario run.
type jnLog struct {
	mu sync.Mutex
	ev []map[string]any
}

func (l *jnLog) add(m map[string]any) { l.mu.Lock(); l.ev = append(l.ev, m); l.mu.Unlock() }
func (l *jnLog) snapshot() []map[string]any {
	l.mu.Lock()
	defer l.mu.Unlock()
	return append([]map[string]any{}, l.ev...)
}

// jnTap records the bytes written through it (and, when tapReads is set, the bytes read through it as the
// opposite direction) in the log BEFORE they become visible to the peer.
type jnTap struct {
	net.Conn
	log      *jnLog
	wdir     string // direction of this end's writes: "c2s" | "s2c"
	rdir     string // direction of this end's reads, recorded only if tapReads
	tapReads bool
}

func (t *jnTap) Write(b []byte) (int, error) {
	t.log.add(map[string]any{"k": "w", "dir": t.wdir, "data": append([]byte{}, b...)})
	return t.Conn.Write(b)
}

func (t *jnTap) Read(b []byte) (int, error) {
	n, err := t.Conn.Read(b)
	if t.tapReads && n > 0 {
		t.log.add(map[string]any{"k": "w", "dir": t.rdir, "data": append([]byte{}, b[:n]...)})
	}
	return n, err
}

// ------------------------------------------------------------------ independent frame reader

// jnFrame is what the frame reader extracts from the bytes of one direction, without using net/packet.
type jnFrame struct {
	End   int    // offset of the first byte after the frame in the direction's stream
	Mode  string // "plain" | "comp" | "trunc" | "bad"
	Z     bool   // zlib-compressed body
	ID    int
	Data  []byte
	Name  []byte // decoded protocol fields (empty when the frame is not of that shape)
	UUID  []byte
	V, W  int
	St    []any
	Index int
}

func jnVarInt(b []byte) (v int, n int, ok bool) {
	var u uint32
	for i := 0; i < 5 && i < len(b); i++ {
		u |= uint32(b[i]&0x7f) << (7 * uint(i))
		if b[i]&0x80 == 0 {
			return int(int32(u)), i + 1, true
		}
	}
	return 0, 0, false
}

// jnTryComp interprets a frame body in the compressed format: dataLength | id | data  or  dataLength | zlib(id | data).
func jnTryComp(body []byte) (ok, z bool, id int, data []byte) {
	dlen, n, okv := jnVarInt(body)
	if !okv || dlen < 0 {
		return false, false, 0, nil
	}
	rest := body[n:]
	if dlen == 0 {
		id, n2, ok2 := jnVarInt(rest)
		if !ok2 {
			return false, false, 0, nil
		}
		return true, false, id, rest[n2:]
	}
	zr, err := zlib.NewReader(bytes.NewReader(rest))
	if err != nil {
		return false, false, 0, nil
	}
	inflated, err := io.ReadAll(zr)
	if err != nil || len(inflated) != dlen {
		return false, false, 0, nil
	}
	id, n2, ok2 := jnVarInt(inflated)
	if !ok2 {
		return false, false, 0, nil
	}
	return true, true, id, inflated[n2:]
}

// jnCutFrames cuts one direction's byte stream into frames. The framing mode is inferred from the bytes:
//   - s2c: plain up to and including the Set Compression packet (first frame, id 3, one VarInt); every later
//     frame carries a data-length VarInt (comp) - unless its body is not a well-formed compressed-format body,
//     in which case it is reported as plain (the specification then decides whether that was allowed);
//   - c2s: the first two frames (handshake, login start / status request) precede anything the client could have
//     received and are plain; a later frame is comp exactly if its body is a well-formed compressed-format body
//     (the harness never sends serverbound id 0 with a payload after the first two frames, the only ambiguous shape).
func jnCutFrames(stream []byte, dir string) []jnFrame {
	var out []jnFrame
	off := 0
	compSeen := false
	for off < len(stream) {
		f := jnFrame{Index: len(out)}
		l, n, ok := jnVarInt(stream[off:])
		if !ok || l < 0 || off+n+l > len(stream) {
			f.Mode, f.End = "trunc", len(stream)
			out = append(out, f)
			break
		}
		body := stream[off+n : off+n+l]
		off += n + l
		f.End = off
		tryComp := (dir == "s2c" && compSeen) || (dir == "c2s" && f.Index >= 2)
		parsed := false
		if tryComp {
			if okc, z, id, data := jnTryComp(body); okc {
				f.Mode, f.Z, f.ID, f.Data, parsed = "comp", z, id, data, true
			}
		}
		if !parsed {
			id, n2, ok2 := jnVarInt(body)
			if !ok2 {
				f.Mode = "bad"
				out = append(out, f)
				continue
			}
			f.Mode, f.ID, f.Data = "plain", id, body[n2:]
		}
		jnDecodeFields(&f, dir)
		if dir == "s2c" && f.Index == 0 && f.Mode == "plain" && f.ID == 3 && f.W == 1 {
			compSeen = true
		}
		out = append(out, f)
	}
	return out
}

func jnString(b []byte) (s []byte, n int, ok bool) {
	l, n1, ok1 := jnVarInt(b)
	if !ok1 || l < 0 || n1+l > len(b) {
		return nil, 0, false
	}
	return b[n1 : n1+l], n1 + l, true
}

// jnDecodeFields fills the protocol fields a frame would have if it were the protocol packet of its position/id.
// It only ever accepts an interpretation that consumes the data exactly; which packet the frame IS is decided
// by the specification.
func jnDecodeFields(f *jnFrame, dir string) {
	d := f.Data
	f.Name, f.UUID, f.St = []byte{}, []byte{}, []any{}
	switch {
	case dir == "c2s" && f.Index == 0 && f.ID == 0: // handshake: VarInt protocol, String host, UShort port, VarInt intention
		if v, n, ok := jnVarInt(d); ok {
			if _, n2, ok2 := jnString(d[n:]); ok2 && len(d) >= n+n2+3 {
				if w, n3, ok3 := jnVarInt(d[n+n2+2:]); ok3 && n+n2+2+n3 == len(d) {
					f.V, f.W = v, w
				}
			}
		}
	case dir == "c2s" && f.Index == 1 && f.ID == 0 && len(d) > 0: // login start: String name, UUID
		if s, n, ok := jnString(d); ok && len(d) == n+16 {
			f.Name, f.UUID = s, d[n:]
		}
	case f.ID == 1 && len(d) == 8: // status ping / pong: Long payload
		f.UUID = d
	case dir == "s2c" && f.Index == 0 && f.ID == 3: // set compression: VarInt threshold
		if v, n, ok := jnVarInt(d); ok && n == len(d) {
			f.V, f.W = v, 1
		}
	case dir == "s2c" && f.ID == 2: // login success: UUID, String name, VarInt number of properties (0)
		if len(d) > 16 {
			if s, n, ok := jnString(d[16:]); ok && len(d) == 16+n+1 && d[16+n] == 0 {
				f.UUID, f.Name = d[:16], s
			}
		}
	case dir == "s2c" && f.Index == 0 && f.ID == 0: // status response: String json
		if s, n, ok := jnString(d); ok && n == len(d) {
			f.St = jnStatusTuple(s)
		}
	}
}

// jnStatusTuple projects a status JSON document to <<name, protocol, max, online, description text>>.
func jnStatusTuple(js []byte) []any {
	var doc struct {
		Version struct {
			Name     *string `json:"name"`
			Protocol *int    `json:"protocol"`
		} `json:"version"`
		Players struct {
			Max    *int `json:"max"`
			Online *int `json:"online"`
		} `json:"players"`
		Description json.RawMessage `json:"description"`
	}
	if json.Unmarshal(js, &doc) != nil || doc.Version.Name == nil || doc.Version.Protocol == nil || doc.Players.Max == nil || doc.Players.Online == nil {
		return []any{}
	}
	desc := ""
	var asObj struct {
		Text string `json:"text"`
	}
	if json.Unmarshal(doc.Description, &asObj) == nil {
		desc = asObj.Text
	} else {
		json.Unmarshal(doc.Description, &desc)
	}
	return []any{ints([]byte(*doc.Version.Name)), *doc.Version.Protocol, *doc.Players.Max, *doc.Players.Online, ints([]byte(desc))}
}

func jnSha(b []byte) string { h := sha256.Sum256(b); return fmt.Sprintf("%x", h[:8]) }

// jnOfflineUUID is the harness's own statement of the offline UUID (version 3, MD5 of "OfflinePlayer:"+name);
// it concretises the uninterpreted OfflineUUID of the specification and does not call go-mc/offline.
func jnOfflineUUID(name string) []byte {
	s := md5.Sum([]byte("OfflinePlayer:" + name))
	s[6] = s[6]&0x0f | 0x30
	s[8] = s[8]&0x3f | 0x80
	return s[:]
}

// ------------------------------------------------------------------ scenarios

type jnPk struct {
	ID int `json:"id"`
	N  int `json:"n"`
}

type jnReg struct {
	Kind string `json:"kind"` // "generic" | "id"
	H    int    `json:"h"`
	ID   int    `json:"id"`
	Prio int    `json:"prio"`
}

type jnScenario struct {
	ID        int     `json:"id"`
	Origin    string  `json:"origin"`
	Seed      int64   `json:"seed"`
	Transport string  `json:"transport"` // "mem" | "tcp"
	Intent    int     `json:"intent"`    // 1 status, 2 login
	T         int     `json:"t"`
	Name      string  `json:"name"`
	Refuse    bool    `json:"refuse"`
	C2S       []jnPk  `json:"c2s"`
	S2C       []jnPk  `json:"s2c"` // id 0 = bundle delimiter
	Regs      []jnReg `json:"regs"`
	Fail      int     `json:"fail"`
	Pace      bool    `json:"pace"`   // the sender pauses before every delimiter (early flushes become visible)
	Batch     bool    `json:"batch"`  // handlers registered through variadic calls where possible
	Online    int     `json:"online"` // players already in the PlayerList (status: players.online)
	Slow      bool    `json:"slow"`   // the recorder takes a moment per packet (the receive queue fills up)
	BUUID     string  `json:"buuid"`  // what the bot is configured with (Auth.UUID, hex): "" unset, the offline UUID, or a foreign one
}

// buuid is the UUID the bot puts into its login start (zero when it is configured with none)
func (sc *jnScenario) buuid() []byte {
	b := make([]byte, 16)
	if sc.BUUID != "" {
		if x, err := hex.DecodeString(sc.BUUID); err == nil && len(x) == 16 {
			copy(b, x)
		}
	}
	return b
}

// full: every s2c play packet is observed by a handler in sending order (the Join trace then carries bot precv events)
func (sc *jnScenario) full() bool {
	if sc.Fail != 0 {
		return false
	}
	gen := false
	for _, r := range sc.Regs {
		gen = gen || r.Kind == "generic"
	}
	for _, p := range sc.S2C {
		if p.ID == 0 {
			return false
		}
	}
	return gen
}

// recorderOnly: one generic handler, no bundles, no failure - the k-th handler call is the k-th packet
func (sc *jnScenario) recorderOnly() bool {
	return sc.full() && len(sc.Regs) == 1
}

type jnHandlerErr struct{ h int }

func (e *jnHandlerErr) Error() string { return fmt.Sprintf("handler %d failed", e.h) }

const (
	jnStatusName = "gate-under-test"
	jnStatusMotd = "hello from the status handler"
	jnStatusMax  = 20
)

// payload of play packet number seq (1-based) in a direction: marker, direction, seq (4 bytes), then a
// deterministic compressible filler. The first byte is never 0x78 (zlib header) and ids are never 0 with data.
func jnPayload(seed int64, dir byte, seq, n int) []byte {
	b := make([]byte, n)
	hdr := []byte{0xA5, dir, byte(seq >> 24), byte(seq >> 16), byte(seq >> 8), byte(seq)}
	copy(b, hdr)
	x := uint32(seed)*2654435761 + uint32(seq)*40503 + uint32(dir)
	for i := len(hdr); i < n; i++ {
		x = x*1664525 + 1013904223
		b[i] = byte(x>>24) & 0x0f
	}
	return b
}

type jnGamePlay struct {
	log *jnLog
	sc  *jnScenario
	run *jnRun
}

type jnRun struct {
	log     *jnLog
	sc      *jnScenario
	srvDone chan struct{}
	once    sync.Once
}

func (r *jnRun) serverFinished() { r.once.Do(func() { close(r.srvDone) }) }

type jnFinishOnly struct{}

// the configuration gate of the property: finish configuration, wait for the acknowledgement
func (jnFinishOnly) AcceptConfig(conn *mcnet.Conn) error {
	if err := conn.WritePacket(pk.Marshal(packetid.ClientboundConfigFinishConfiguration)); err != nil {
		return err
	}
	var p pk.Packet
	if err := conn.ReadPacket(&p); err != nil {
		return err
	}
	if p.ID != int32(packetid.ServerboundConfigFinishConfiguration) {
		return errors.New("configuration: unexpected packet")
	}
	return nil
}

func (g *jnGamePlay) AcceptPlayer(name string, id uuid.UUID, _ *user.PublicKey, _ []user.Property, protocol int32, conn *mcnet.Conn) {
	sc := g.sc
	g.log.add(map[string]any{"k": "accept", "name": ints([]byte(name)), "uuid": ints(id[:]), "proto": int(protocol)})
	var wg sync.WaitGroup
	wg.Add(1)
	go func() { // reader: the play packets of the bot
		defer wg.Done()
		defer guard("c19")
		for i := 0; i < len(sc.C2S); i++ {
			var p pk.Packet
			if err := conn.ReadPacket(&p); err != nil {
				return
			}
			g.log.add(map[string]any{"k": "precv", "side": "srv", "seq": i + 1, "id": int(p.ID), "n": len(p.Data), "sha": jnSha(p.Data)})
		}
	}()
	opened := false
	for i, q := range sc.S2C {
		data := []byte{}
		if q.ID != 0 {
			data = jnPayload(sc.Seed, 's', i+1, q.N)
		} else {
			if opened && sc.Pace {
				time.Sleep(3 * time.Millisecond) // let the bot catch up: an early flush would be logged before this delimiter
			}
			opened = !opened
		}
		g.log.add(map[string]any{"k": "psend", "side": "srv", "seq": i + 1, "id": q.ID, "n": len(data), "sha": jnSha(data)})
		if err := conn.WritePacket(pk.Packet{ID: int32(q.ID), Data: data}); err != nil {
			break
		}
	}
	wg.Wait()
	// returning closes the connection (Server.AcceptConn): the bot's HandleGame ends with the read error
}

type jnStatus struct {
	*server.PlayerList
	*server.PingInfo
}

func jnNewServer(sc *jnScenario, run *jnRun) *server.Server {
	maxp := jnStatusMax
	var checker server.LoginChecker
	pl := server.NewPlayerList(maxp)
	for i := 0; i < sc.Online && i < maxp; i++ {
		pl.ClientJoin(&plClient{id: i}, server.PlayerSample{Name: fmt.Sprint("resident", i), ID: uuid.UUID{byte(i + 1)}})
	}
	checker = pl
	if sc.Refuse {
		checker = server.NewPlayerList(0) // full: CheckPlayer refuses everybody
	}
	return &server.Server{
		ListPingHandler: jnStatus{pl, server.NewPingInfo(jnStatusName, bot.ProtocolVersion, chat.Text(jnStatusMotd), nil)},
		LoginHandler:    &server.MojangLoginHandler{OnlineMode: false, Threshold: sc.T, LoginChecker: checker},
		ConfigHandler:   jnFinishOnly{},
		GamePlay:        &jnGamePlay{log: run.log, sc: sc, run: run},
	}
}

type jnDialer struct {
	conn net.Conn
	dial func() (net.Conn, error)
	log  *jnLog
	got  net.Conn
}

func (d *jnDialer) DialMCContext(ctx context.Context, addr string) (*mcnet.Conn, error) {
	c := d.conn
	if d.dial != nil {
		var err error
		if c, err = d.dial(); err != nil {
			return nil, err
		}
	}
	d.got = c
	return mcnet.WrapConn(&jnTap{Conn: c, log: d.log, wdir: "c2s"}), nil
}

// jnRunScenario executes one scenario against the real bot and server and returns the raw log.
// hang = the watchdog fired (the connections were then closed to release the goroutines).
func jnRunScenario(sc *jnScenario, watchdog time.Duration) (evs []map[string]any, hang bool) {
	log := &jnLog{}
	run := &jnRun{log: log, sc: sc, srvDone: make(chan struct{})}
	srv := jnNewServer(sc, run)
	var closers []io.Closer
	var cmu sync.Mutex
	addCloser := func(c io.Closer) { cmu.Lock(); closers = append(closers, c); cmu.Unlock() }
	dialer := &jnDialer{log: log}
	addr := "verif.test:25565"
	serve := func(c net.Conn, tapReads bool) {
		addCloser(c)
		conn := mcnet.WrapConn(&jnTap{Conn: c, log: log, wdir: "s2c", rdir: "c2s", tapReads: tapReads})
		srv.AcceptConn(conn)
		run.serverFinished()
	}
	var ln net.Listener
	if sc.Transport == "tcp" {
		var err error
		ln, err = net.Listen("tcp", "127.0.0.1:0")
		if err != nil {
			return []map[string]any{{"k": "infra", "err": err.Error()}}, false
		}
		defer ln.Close()
		addr = ln.Addr().String()
		go func() {
			defer guard("c19")
			c, err := ln.Accept()
			if err != nil {
				run.serverFinished()
				return
			}
			serve(c, sc.Intent == 1) // PingAndList dials by itself: its bytes are taken from the server end
		}()
		dialer.dial = func() (net.Conn, error) {
			c, err := net.Dial("tcp", addr)
			if err == nil {
				addCloser(c)
			}
			return c, err
		}
	} else {
		a, b := jnPipe()
		addCloser(a)
		dialer.conn = a
		go serve(b, false)
	}
	done := make(chan struct{})
	go func() {
		defer close(done)
		defer guard("c19")
		if sc.Intent == 1 {
			jnDoPing(sc, log, addr)
		} else {
			jnDoJoin(sc, log, dialer, addr)
		}
		<-run.srvDone
	}()
	select {
	case <-done:
	case <-time.After(watchdog):
		hang = true
		cmu.Lock()
		for _, c := range closers {
			c.Close()
		}
		cmu.Unlock()
		if ln != nil {
			ln.Close()
		}
		select {
		case <-done:
		case <-time.After(5 * time.Second):
		}
	}
	cmu.Lock()
	for _, c := range closers {
		c.Close()
	}
	cmu.Unlock()
	evs = log.snapshot()
	if hang {
		evs = append(evs, map[string]any{"k": "hang"})
	}
	return evs, hang
}

func jnDoPing(sc *jnScenario, log *jnLog, addr string) {
	js, _, err := bot.PingAndList(addr)
	st := []any{}
	if err == nil {
		st = jnStatusTuple(js)
	}
	log.add(map[string]any{"k": "ping", "err": err != nil, "st": st, "errtext": fmt.Sprint(err)})
}

func jnDoJoin(sc *jnScenario, log *jnLog, dialer *jnDialer, addr string) {
	c := bot.NewClient()
	c.Auth.Name = sc.Name
	c.Auth.UUID = sc.BUUID
	// registration, in the order of the scenario; a batch groups consecutive handlers of the same kind
	counted := sc.recorderOnly()
	calls := 0 // recorder-only scenarios: the k-th invocation is the k-th packet (payloads may be too short for an index)
	mk := func(r jnReg) bot.PacketHandler {
		h := r.H
		return bot.PacketHandler{ID: packetid.ClientboundPacketID(r.ID), Priority: r.Prio, F: func(p pk.Packet) error {
			idx := 0
			if counted {
				calls++
				idx = calls
			} else if len(p.Data) >= 6 && p.Data[0] == 0xA5 {
				idx = int(binary.BigEndian.Uint32(p.Data[2:6]))
			}
			if sc.Slow {
				time.Sleep(300 * time.Microsecond)
			}
			log.add(map[string]any{"k": "handled", "h": h, "idx": idx, "id": int(p.ID), "n": len(p.Data), "sha": jnSha(p.Data)})
			if h == sc.Fail {
				return &jnHandlerErr{h}
			}
			return nil
		}}
	}
	for i := 0; i < len(sc.Regs); {
		j := i + 1
		if sc.Batch {
			for j < len(sc.Regs) && sc.Regs[j].Kind == sc.Regs[i].Kind {
				j++
			}
		}
		var hs []bot.PacketHandler
		for _, r := range sc.Regs[i:j] {
			hs = append(hs, mk(r))
			log.add(map[string]any{"k": "reg", "kind": r.Kind, "h": r.H, "id": r.ID, "prio": r.Prio})
		}
		if sc.Regs[i].Kind == "generic" {
			c.Events.AddGeneric(hs...)
		} else {
			c.Events.AddListener(hs...)
		}
		i = j
	}
	log.add(map[string]any{"k": "start"})
	err := c.JoinServerWithOptions(addr, bot.JoinOptions{MCDialer: dialer, NoPublicKey: true})
	log.add(map[string]any{"k": "joined", "name": ints([]byte(c.Name)), "uuid": ints(c.UUID[:]), "err": err != nil, "errtext": fmt.Sprint(err)})
	if err != nil {
		if dialer.got != nil {
			dialer.got.Close()
		}
		return
	}
	var wg sync.WaitGroup
	wg.Add(1)
	go func() { // the application sends its play packets through the queue
		defer wg.Done()
		defer guard("c19")
		for i, q := range sc.C2S {
			data := jnPayload(sc.Seed, 'c', i+1, q.N)
			log.add(map[string]any{"k": "psend", "side": "bot", "seq": i + 1, "id": q.ID, "n": len(data), "sha": jnSha(data)})
			if err := c.Conn.WritePacket(pk.Packet{ID: int32(q.ID), Data: data}); err != nil {
				return
			}
		}
	}()
	var herr error
	if pan, where := catch(func() { herr = c.HandleGame() }); pan {
		// a panic inside HandleGame is how it "returned": no handler's error (h, pid outside every table)
		log.add(map[string]any{"k": "ret", "h": 9999, "pid": -9, "errtext": "panicked: " + where})
		c.Close()
		wg.Wait()
		return
	}
	h, pid := 0, 0
	var he *jnHandlerErr
	if errors.As(herr, &he) {
		h = he.h
		var phe bot.PacketHandlerError
		if errors.As(herr, &phe) {
			pid = int(phe.ID)
		} else {
			pid = -1
		}
	}
	log.add(map[string]any{"k": "ret", "h": h, "pid": pid, "errtext": fmt.Sprint(herr)})
	wg.Wait()
	c.Close()
}
