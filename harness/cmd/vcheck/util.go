package main

import (
	"encoding/json"
	"fmt"
	"io"
	"math/rand"
	"runtime/debug"
	"strings"
	"verif/harness/vk"
)

func limbs32(u uint32) []int { return []int{int(u >> 16), int(u & 0xffff)} }
func limbs64(u uint64) []int {
	return []int{int(u >> 48), int(u >> 32 & 0xffff), int(u >> 16 & 0xffff), int(u & 0xffff)}
}
func fromLimbs(l []int) uint64 {
	var u uint64
	for _, x := range l {
		u = u<<16 | uint64(x)
	}
	return u
}
func ints(b []byte) []int {
	r := make([]int, len(b))
	for i, x := range b {
		r[i] = int(x)
	}
	return r
}
func bytesOf(a []int) []byte {
	r := make([]byte, len(a))
	for i, x := range a {
		r[i] = byte(x)
	}
	return r
}
func eqInts(a, b []int) bool {
	if len(a) != len(b) {
		return false
	}
	for i := range a {
		if a[i] != b[i] {
			return false
		}
	}
	return true
}

// plainReader hides every optional interface of the underlying reader (no ByteReader, no WriterTo).
type plainReader struct {
	r     io.Reader
	n     int
	calls int
}

// what one Read call hands out at most, in turn (a pipe, a socket or a decompressor delivers what it has: a fixed-size
// field may arrive in pieces with no error)
var plainChunks = []int{1, 5, 2, 8, 3, 13, 64, 7}

// Read hides ReadByte of the underlying reader and delivers short reads (at most plainChunks[i] bytes per call). For half of the streams (by the parity of their length) the last
// bytes are delivered together with io.EOF, as io.Reader allows and flate / iotest.DataErrReader do.
func (p *plainReader) Read(b []byte) (int, error) {
	if k := plainChunks[p.calls%len(plainChunks)]; len(b) > k {
		b = b[:k]
	}
	p.calls++
	n, err := p.r.Read(b)
	p.n += n
	if l, ok := p.r.(interface{ Len() int }); ok && err == nil && n > 0 && l.Len() == 0 && p.n%2 == 0 {
		return n, io.EOF
	}
	return n, err
}

// catch runs f, converting a panic into (true, message with the top repo frame).
func catch(f func()) (panicked bool, msg string) {
	defer func() {
		if r := recover(); r != nil {
			panicked = true
			msg = fmt.Sprint(r) + " @ " + topRepoFrame(string(debug.Stack()))
		}
	}()
	f()
	return
}

func topRepoFrame(stack string) string {
	lines := strings.Split(stack, "\n")
	for i := 0; i+1 < len(lines); i++ {
		if strings.Contains(lines[i+1], "/repo/") {
			fn := lines[i]
			if j := strings.LastIndex(fn, "("); j > 0 {
				fn = fn[:j]
			}
			fn = strings.TrimPrefix(fn, "github.com/Tnze/go-mc/")
			return fn
		}
	}
	return "?"
}

func newRand(seed int64, salt string) *rand.Rand {
	h := int64(1469598103934665603)
	for _, c := range salt {
		h = (h ^ int64(c)) * 1099511628211
	}
	return rand.New(rand.NewSource(seed*7919 + h))
}

func mustJSON(v any) string { b, _ := json.Marshal(v); return string(b) }

// theEnv is the run's environment (set by main) for code that has no *vk.Env at hand.
var theEnv *vk.Env

// panicOrigin walks the stack of a recovered panic from the panicking frame outwards and says whose frame comes first:
// the library's (standard-library frames it called are skipped) or the harness's own.
func panicOrigin(stack string) (library bool, frame string) {
	lines := strings.Split(stack, "\n")
	i := 0
	for ; i < len(lines); i++ {
		if strings.HasPrefix(lines[i], "panic(") {
			break
		}
	}
	for ; i < len(lines); i++ {
		l := lines[i]
		if strings.HasPrefix(l, "\t") || l == "" {
			continue
		}
		if j := strings.LastIndex(l, "("); j > 0 {
			l = l[:j]
		}
		if strings.HasPrefix(l, "github.com/Tnze/go-mc/") {
			return true, strings.TrimPrefix(l, "github.com/Tnze/go-mc/")
		}
		if strings.HasPrefix(l, "main.") || strings.HasPrefix(l, "verif/harness/") {
			return false, l
		}
	}
	return false, "?"
}

// guard is deferred (after the goroutine's wg.Done / close defers, so that it runs before them) in driver goroutines that
// call the library outside catch: a panic of the library there would otherwise end the whole driver with the Go runtime's
// exit status 2 and leave no verdict. The panic is what the real code did in the scenario the goroutine was running: it is
// reported against the property and the run ends at once (the scenario's other goroutines may be waiting for this one).
func guard(leg string) {
	r := recover()
	if r == nil {
		return
	}
	stack := string(debug.Stack())
	lib, frame := panicOrigin(stack)
	env := theEnv
	if env == nil {
		panic(r)
	}
	if !lib {
		env.Infra("the harness panicked in a goroutine of %s: %v @ %s\n%s", leg, r, frame, vkTrunc(stack, 3000))
		finish(env)
	}
	if strings.HasPrefix(env.ID, "X") {
		env.Note("spec-extension %s finding: LibraryPanic - the library panicked in a goroutine of %s at %s: %v", env.ID, leg, frame, r)
		finish(env)
	}
	env.Report(fmt.Sprintf("the library panicked in a goroutine of %s (first library frame %s)", leg, frame),
		fmt.Sprintf("%v\n%s", r, vkTrunc(stack, 3000)), map[string]any{"kind": "rerun", "seed": env.Seed, "tier": env.Tier})
	finish(env)
}
