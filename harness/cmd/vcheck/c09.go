package main

// C09 fragmentation invariance / fault propagation. Spec: specs/Stream.tla ; trace spec Stream_Trace.tla.
// Leg S: TLC checks the full-read loop against Demand(need, fault) for every composition and fault offset of
//        inputs up to 7 bytes. Leg A: every (total, need, segmentation, fault) TLC emits is applied to real
//        readers whose value needs exactly `need` bytes. Leg B: longer inputs (frames, NBT documents, RCON
//        packets, composite fields) under one-byte, boundary-aligned and random segmentations and every fault
//        offset; writers under a sink that fails after k bytes. Judged by Stream_Trace.

import (
	"bytes"
	"encoding/binary"
	"encoding/json"
	"errors"
	"fmt"
	"io"
	"math/rand"
	"net"
	"os"
	"reflect"
	"sort"
	"strings"
	"time"

	"github.com/Tnze/go-mc/chat/sign"
	"github.com/Tnze/go-mc/nbt"
	"github.com/Tnze/go-mc/nbt/dynbt"
	mcnet "github.com/Tnze/go-mc/net"
	pk "github.com/Tnze/go-mc/net/packet"
	"verif/harness/vk"
)

func init() { drivers["C09"] = driver{run: runC09, replay: replayC09} }

type stFault struct {
	Kind string `json:"kind"` // none | eof | err
	At   int    `json:"at"`
}

var errInjected = errors.New("injected transport failure")

// scriptedReader delivers data in the given segments and fails at the fault offset.
type scriptedReader struct {
	data  []byte
	segs  []int
	fault stFault
	pos   int
	seg   int // index of current segment
	used  int // bytes of the current segment already delivered
}

func (s *scriptedReader) Read(p []byte) (int, error) {
	if len(p) == 0 {
		return 0, nil
	}
	if s.fault.Kind != "none" && s.pos == s.fault.At {
		if s.fault.Kind == "eof" {
			return 0, io.EOF
		}
		return 0, errInjected
	}
	if s.pos >= len(s.data) {
		return 0, io.EOF
	}
	for s.seg < len(s.segs) && s.used == s.segs[s.seg] {
		s.seg++
		s.used = 0
	}
	n := len(p)
	if s.seg < len(s.segs) && s.segs[s.seg]-s.used < n {
		n = s.segs[s.seg] - s.used
	}
	if s.fault.Kind != "none" && s.fault.At > s.pos && s.fault.At-s.pos < n {
		n = s.fault.At - s.pos
	}
	if len(s.data)-s.pos < n {
		n = len(s.data) - s.pos
	}
	copy(p, s.data[s.pos:s.pos+n])
	s.pos += n
	s.used += n
	if s.pos == len(s.data) && s.fault.Kind == "none" && (len(s.data)+len(s.segs))%2 == 0 {
		// the last bytes of the stream together with io.EOF: allowed by io.Reader (flate, iotest.DataErrReader do it)
		return n, io.EOF
	}
	return n, nil
}

// scriptedByteReader additionally offers ReadByte (the code takes different paths for io.ByteReader)
type scriptedByteReader struct{ *scriptedReader }

func (s scriptedByteReader) ReadByte() (byte, error) {
	var b [1]byte
	n, err := s.Read(b[:])
	if n == 1 {
		return b[0], nil
	}
	return 0, err
}

// fake net.Conn for RCON
type scriptedConn struct {
	io.Reader
	w io.Writer
}

func (c scriptedConn) Write(p []byte) (int, error)      { return c.w.Write(p) }
func (c scriptedConn) Close() error                     { return nil }
func (c scriptedConn) LocalAddr() net.Addr              { return nil }
func (c scriptedConn) RemoteAddr() net.Addr             { return nil }
func (c scriptedConn) SetDeadline(time.Time) error      { return nil }
func (c scriptedConn) SetReadDeadline(time.Time) error  { return nil }
func (c scriptedConn) SetWriteDeadline(time.Time) error { return nil }

type stReadEntry struct {
	Name  string
	Input []byte
	Run   func(r io.Reader) (digest string, n int64, err error)
	// Announced: by the format the value needs more bytes than Input holds (a declared length far beyond the end of the
	// stream): there is no contiguous reference run; the stream ending at len(Input) is an end of file before the end of the value
	Announced bool
}

type failingWriter struct {
	limit int
	n     int
	buf   bytes.Buffer
	once  bool // fail only the write that crosses the limit, accept everything afterwards
	fired bool
}

func (f *failingWriter) Write(p []byte) (int, error) {
	if f.once && f.fired {
		f.buf.Write(p)
		f.n += len(p)
		return len(p), nil
	}
	room := f.limit - f.n
	if room >= len(p) {
		f.buf.Write(p)
		f.n += len(p)
		return len(p), nil
	}
	if room < 0 {
		room = 0
	}
	f.buf.Write(p[:room])
	f.n += room
	f.fired = true
	return room, errInjected
}

type stWriteEntry struct {
	Name string
	Run  func(w io.Writer) error
}

// ---------------------------------------------------------------- entries

func stWireEntry(t wireType, v any, variant int) (stReadEntry, bool) {
	out, _, err, pan, _ := wireEncode(t, variant, v)
	if err != nil || pan {
		return stReadEntry{}, false
	}
	in := append(append([]byte{}, out...), 0xEE, 0xEF, 0xF0)
	return stReadEntry{Name: "field " + t.class(), Input: in, Run: func(r io.Reader) (string, int64, error) {
		c := buildCodec(t, variant)
		d, get := c.dest("nil", v)
		n, err := d.ReadFrom(r)
		if err != nil {
			return "", n, err
		}
		return mustJSON(normAbs(get())), n, nil
	}}, true
}

func stEntries(rng *rand.Rand, nEach int) (rs []stReadEntry, ws []stWriteEntry) {
	// wire fields
	types := []wireType{}
	for _, n := range wireScalarNames {
		types = append(types, wireType{T: n})
	}
	types = append(types, wireType{T: "fixedbits", N: 20}, wireType{T: "fixedbits", N: 64},
		wireType{T: "option", E: &wireType{T: "str"}}, wireType{T: "ary", L: "varint", E: &wireType{T: "i64"}},
		wireType{T: "ary", L: "i16", E: &wireType{T: "str"}},
		wireType{T: "tuple", Es: []wireType{{T: "varint"}, {T: "str"}, {T: "uuid"}, {T: "fixedbits", N: 9}}})
	for _, t := range types {
		for i := 0; i < nEach; i++ {
			v := randWireValue(rng, t)
			if e, ok := stWireEntry(t, v, i%2); ok {
				rs = append(rs, e)
			}
			tt, vv := t, v
			ws = append(ws, stWriteEntry{Name: "field " + t.class(), Run: func(w io.Writer) error {
				_, err := buildCodec(tt, 0).enc(vv).WriteTo(w)
				return err
			}})
		}
	}
	// signature (256 fixed bytes)
	{
		var s sign.Signature
		rng.Read(s[:])
		in := append(append([]byte{}, s[:]...), 1, 2)
		rs = append(rs, stReadEntry{Name: "sign.Signature", Input: in, Run: func(r io.Reader) (string, int64, error) {
			var d sign.Signature
			n, err := d.ReadFrom(r)
			return sha(d[:]), n, err
		}})
	}
	// frames
	for _, thr := range []int{-1, 0, 256} {
		for _, sz := range []int{0, 5, 300} {
			payload := make([]byte, sz)
			rng.Read(payload)
			p := pk.Packet{ID: int32(rng.Intn(300)), Data: payload}
			var buf bytes.Buffer
			if p.Pack(&buf, thr) != nil {
				continue
			}
			in := append(buf.Bytes(), 9, 9, 9)
			th := thr
			rs = append(rs, stReadEntry{Name: fmt.Sprintf("Packet.UnPack thr=%d", thr), Input: in, Run: func(r io.Reader) (string, int64, error) {
				var q pk.Packet
				err := q.UnPack(r, th)
				return fmt.Sprint(q.ID, sha(q.Data)), -1, err
			}})
			pp := p
			ws = append(ws, stWriteEntry{Name: fmt.Sprintf("Packet.Pack thr=%d", thr), Run: func(w io.Writer) error { return pp.Pack(w, th) }})
		}
	}
	// NBT documents
	for i := 0; i < nEach+3; i++ {
		tree := randTree(rng, 2, 10)
		if i == 0 {
			// a document holding every tag type (random trees may miss some): each payload kind is read
			// through its own code path in every decoder
			tree = &nbtNode{T: 10}
			for tg := 1; tg <= 12; tg++ {
				var n *nbtNode
				switch tg {
				case 9:
					n = &nbtNode{T: 9, Et: 11, Lst: []*nbtNode{randTree(rng, 0, 11), {T: 11, Wds: [][]int{{0, 0, 1, 2}, {255, 255, 255, 254}}}}}
				case 10:
					n = &nbtNode{T: 10, Ent: []nbtEntry{{K: ints([]byte("in")), N: &nbtNode{T: 12, Wds: [][]int{{1, 2, 3, 4, 5, 6, 7, 8}}}}}}
				case 7:
					n = &nbtNode{T: 7, Pat: []int{1, 2, 3, 4, 5, 6, 7, 8, 9}}
				case 8:
					n = &nbtNode{T: 8, Pat: ints([]byte("a string value"))}
				case 11:
					n = &nbtNode{T: 11, Wds: [][]int{{0, 0, 0, 1}, {0, 0, 0, 2}, {127, 255, 255, 255}}}
				case 12:
					n = &nbtNode{T: 12, Wds: [][]int{{0, 0, 0, 0, 0, 0, 0, 1}, {0, 0, 0, 0, 0, 0, 0, 2}, {128, 0, 0, 0, 0, 0, 0, 0}}}
				default:
					n = randTree(rng, 0, tg)
				}
				tree.Ent = append(tree.Ent, nbtEntry{K: ints([]byte(fmt.Sprintf("tag%02d", tg))), N: n})
			}
		}
		fmtName := []string{"file", "network"}[i%2]
		doc := nbtDocBytes(fmtName, []byte("nm"), tree)
		in := append(append([]byte{}, doc...), 7, 7)
		for _, target := range []string{"any", "raw", "dynbt", "snbt", "shaped", "map", "map-raw"} {
			tg := target
			net := fmtName == "network"
			var sh *goType
			if tg == "shaped" {
				sh = shapeOf(tree, false)
				if sh == nil {
					continue
				}
				if pan, _ := catch(func() { sh.reflectType() }); pan {
					continue
				}
			}
			rs = append(rs, stReadEntry{Name: "nbt decode into " + tg, Input: in, Run: func(r io.Reader) (string, int64, error) {
				d := nbt.NewDecoder(r)
				d.NetworkFormat(net)
				switch tg {
				case "any":
					var v any
					_, err := d.Decode(&v)
					return mustJSON(projectAny(v)), -1, err
				case "raw":
					var v nbt.RawMessage
					_, err := d.Decode(&v)
					return fmt.Sprint(v.Type, sha(v.Data)), -1, err
				case "map": // typed map targets have a loop of their own over the entries of a compound
					var v map[string]any
					_, err := d.Decode(&v)
					return mustJSON(projectAny(v)), -1, err
				case "map-raw":
					var v map[string]nbt.RawMessage
					_, err := d.Decode(&v)
					ks := make([]string, 0, len(v))
					for k, e := range v {
						ks = append(ks, fmt.Sprint(k, e.Type, sha(e.Data)))
					}
					sort.Strings(ks)
					return strings.Join(ks, "|"), -1, err
				case "dynbt":
					var v dynbt.Value
					_, err := d.Decode(&v)
					var out bytes.Buffer
					if err == nil {
						nbt.NewEncoder(&out).Encode(&v, "")
					}
					return sha(out.Bytes()), -1, err
				case "snbt":
					var v nbt.StringifiedMessage
					_, err := d.Decode(&v)
					return string(v), -1, err
				default:
					rv := reflect.New(sh.reflectType())
					_, err := d.Decode(rv.Interface())
					if err != nil {
						return "", -1, err
					}
					return mustJSON(sh.getValue(rv.Elem())), -1, nil
				}
			}})
		}
		var gv any
		nbt.Unmarshal(nbtDocBytes("file", nil, tree), &gv)
		ws = append(ws, stWriteEntry{Name: "nbt Encoder.Encode", Run: func(w io.Writer) error { return nbt.NewEncoder(w).Encode(gv, "root") }})
		// the same document as a packet field (pk.NBT counts the bytes it consumed), alone and inside a Tuple
		netIn := append(nbtDocBytes("network", nil, tree), 7, 7)
		rs = append(rs, stReadEntry{Name: "packet field pk.NBT", Input: netIn, Run: func(r io.Reader) (string, int64, error) {
			var v any
			n, err := pk.NBT(&v).ReadFrom(r)
			return mustJSON(projectAny(v)), n, err
		}})
		tupIn := append(append([]byte{0xac, 0x02}, nbtDocBytes("network", nil, tree)...), 0, 0, 1, 0, 7)
		rs = append(rs, stReadEntry{Name: "packet field tuple(varint,pk.NBT,i32)", Input: tupIn, Run: func(r io.Reader) (string, int64, error) {
			var v any
			var a pk.VarInt
			var b pk.Int
			n, err := pk.Tuple{&a, pk.NBT(&v), &b}.ReadFrom(r)
			return fmt.Sprint(a, b, mustJSON(projectAny(v))), n, err
		}})
		ws = append(ws, stWriteEntry{Name: "packet field pk.NBT", Run: func(w io.Writer) error { _, err := pk.NBT(gv).WriteTo(w); return err }})
	}
	// NBT arrays whose DECLARED length lies far beyond the end of the stream (the byte count of the payload does not fit
	// 31 bits for some of them): read through the skipping paths, which do not allocate by the declared length
	for _, ann := range []struct {
		tag  byte
		size int
		ln   uint32
	}{{11, 4, 1 << 29}, {11, 4, 1<<29 + 1}, {11, 4, 1 << 30}, {11, 4, 1<<31 - 1}, {11, 4, 3 << 29}, {12, 8, 1 << 28}, {12, 8, 1<<28 + 1}, {12, 8, 1 << 29},
		{12, 8, 1<<31 - 1}, {7, 1, 1<<31 - 1}, {11, 4, 1 << 20}, {12, 8, 1 << 20}} {
		rnd := func(n int) []byte {
			b := make([]byte, n)
			rng.Read(b)
			return b
		}
		// what the stream still holds behind the declared length: nothing, a few payload bytes, or payload bytes that
		// happen to read as the rest of a document (an end tag; another field and an end tag)
		for _, rest := range [][]byte{{}, rnd(3), rnd(ann.size), rnd(5 * ann.size), {0}, {0, 0}, {3, 0, 1, 'b', 0, 0, 0, 7, 0}, {0, 0, 0, 0, 0, 0, 0, 0, 0}} {
			doc := []byte{10, 0, 0, ann.tag, 0, 1, 'a'}
			doc = binary.BigEndian.AppendUint32(doc, ann.ln)
			doc = append(doc, rest...)
			for _, tg := range []string{"raw", "skipped field"} {
				tg := tg
				rs = append(rs, stReadEntry{Name: fmt.Sprintf("nbt decode into %s (announced tag-%d array)", tg, ann.tag), Input: doc, Announced: true, Run: func(r io.Reader) (string, int64, error) {
					d := nbt.NewDecoder(r)
					if tg == "raw" {
						var v nbt.RawMessage
						_, err := d.Decode(&v)
						return fmt.Sprint(v.Type, len(v.Data)), -1, err
					}
					var v struct {
						B int32 `nbt:"b"`
					}
					_, err := d.Decode(&v)
					return fmt.Sprint(v.B), -1, err
				}})
			}
		}
	}
	// RCON
	for _, sz := range []int{0, 1, 40} {
		payload := make([]byte, sz)
		for i := range payload {
			payload[i] = byte('a' + rng.Intn(26))
		}
		var wire bytes.Buffer
		c := &mcnet.RCONConn{Conn: scriptedConn{Reader: bytes.NewReader(nil), w: &wire}}
		id, ty := int32(rng.Int31()), int32(rng.Intn(4))
		if c.WritePacket(id, ty, string(payload)) != nil {
			continue
		}
		in := append(append([]byte{}, wire.Bytes()...), 5, 5)
		rs = append(rs, stReadEntry{Name: "RCONConn.ReadPacket", Input: in, Run: func(r io.Reader) (string, int64, error) {
			rc := &mcnet.RCONConn{Conn: scriptedConn{Reader: r, w: io.Discard}}
			a, b, p, err := rc.ReadPacket()
			return fmt.Sprint(a, b, p), -1, err
		}})
		pl := string(payload)
		ws = append(ws, stWriteEntry{Name: "RCONConn.WritePacket", Run: func(w io.Writer) error {
			rc := &mcnet.RCONConn{Conn: scriptedConn{Reader: bytes.NewReader(nil), w: w}}
			return rc.WritePacket(id, ty, pl)
		}})
	}
	return
}

// ---------------------------------------------------------------- execution

type stReadEv struct {
	K        string  `json:"k"`
	Entry    string  `json:"entry"`
	Len      int     `json:"len"`
	Need     int     `json:"need"`
	Segs     []int   `json:"segs"`
	Fault    stFault `json:"fault"`
	ByteRdr  bool    `json:"byterdr"`
	Ok       bool    `json:"ok"`
	Same     bool    `json:"same"`
	N        int     `json:"n"`
	Cn       int     `json:"cn"`
	Consumed int     `json:"consumed"`
	Panicked bool    `json:"panicked"`
	Idx      int     `json:"idx"`
	Cut      bool    `json:"cut"` // the stream was cut right behind the value (Len = Need)
}

type stRunRes struct {
	digest   string
	n        int64
	ok       bool
	consumed int
	panicked bool
}

func stRun(e stReadEntry, segs []int, f stFault, byteRdr bool) (r stRunRes) {
	sr := &scriptedReader{data: e.Input, segs: segs, fault: f}
	var rd io.Reader = sr
	if byteRdr {
		rd = scriptedByteReader{sr}
	}
	done := make(chan struct{})
	go func() {
		defer close(done)
		r.panicked, _ = catch(func() {
			d, n, err := e.Run(rd)
			r.digest, r.n, r.ok = d, n, err == nil
		})
	}()
	select {
	case <-done:
	case <-time.After(20 * time.Second):
		r.panicked = true
	}
	r.consumed = sr.pos
	return
}

func stReadEvent(e stReadEntry, idx int, segs []int, f stFault, byteRdr bool) (stReadEv, bool) {
	if e.Announced {
		// need is only known to lie beyond the stream; the fault is the stream's own end (or an earlier injected one)
		if f.Kind == "none" || f.At > len(e.Input) {
			f = stFault{Kind: "eof", At: len(e.Input)}
		}
		r := stRun(e, segs, f, byteRdr)
		return stReadEv{K: "read", Entry: e.Name, Len: len(e.Input), Need: len(e.Input) + 1, Segs: segs, Fault: f, ByteRdr: byteRdr,
			Ok: r.ok, Same: false, N: int(r.n), Cn: -1, Consumed: r.consumed, Panicked: r.panicked, Idx: idx}, true
	}
	// the reference is THE contiguous read: all bytes available at once from a reader that also offers ReadByte (what a
	// bytes.Reader is); the run under test may see the same stream through a plain io.Reader
	base := stRun(e, []int{len(e.Input)}, stFault{Kind: "none"}, true)
	if !base.ok || base.panicked {
		return stReadEv{}, false // the contiguous read itself fails: not an input of this property
	}
	r := stRun(e, segs, f, byteRdr)
	return stReadEv{K: "read", Entry: e.Name, Len: len(e.Input), Need: base.consumed, Segs: segs, Fault: f, ByteRdr: byteRdr,
		Ok: r.ok, Same: r.digest == base.digest, N: int(r.n), Cn: int(base.n), Consumed: r.consumed, Panicked: r.panicked, Idx: idx}, true
}

type stWriteEv struct {
	K        string `json:"k"`
	Entry    string `json:"entry"`
	Size     int    `json:"size"`
	Limit    int    `json:"limit"`
	Ok       bool   `json:"ok"`
	Same     bool   `json:"same"`
	Panicked bool   `json:"panicked"`
	Idx      int    `json:"idx"`
	Once     bool   `json:"once"`
}

func stWriteEvent(e stWriteEntry, idx int, limit int, once bool) (stWriteEv, bool) {
	full := &failingWriter{limit: 1 << 30}
	if pan, _ := catch(func() {
		if e.Run(full) != nil {
			full = nil
		}
	}); pan || full == nil {
		return stWriteEv{}, false
	}
	size := full.n
	if limit > size {
		limit = size
	}
	fw := &failingWriter{limit: limit, once: once}
	var err error
	pan, _ := catch(func() { err = e.Run(fw) })
	return stWriteEv{K: "write", Entry: e.Name, Size: size, Limit: limit, Ok: err == nil, Same: bytes.Equal(fw.buf.Bytes(), full.buf.Bytes()) || ((e.Name == "nbt Encoder.Encode" || e.Name == "packet field pk.NBT") && fw.n == full.n), Panicked: pan, Idx: idx, Once: once}, true
}

func randSegs(rng *rand.Rand, n int, mode int) []int {
	var segs []int
	switch mode {
	case 0: // one byte at a time
		for i := 0; i < n; i++ {
			segs = append(segs, 1)
		}
	case 1: // random
		for left := n; left > 0; {
			k := 1 + rng.Intn(left)
			if rng.Intn(2) == 0 && left > 3 {
				k = 1 + rng.Intn(3)
			}
			segs = append(segs, k)
			left -= k
		}
	default: // two segments split at a random point
		if n >= 2 {
			k := 1 + rng.Intn(n-1)
			segs = []int{k, n - k}
		} else {
			segs = []int{n}
		}
	}
	if n == 0 {
		return []int{}
	}
	return segs
}

func stJudge(env *vk.Env, tr *vk.Trace, label string, seed int64) {
	run := vk.TLCRun{Name: label, Module: "Stream_Trace", Cfg: "Stream_Trace.cfg", Workers: 8, Timeout: 20 * time.Minute, Continue: true}
	v, err := env.ValidateTrace(run, "trace.ndjson", tr.Bytes())
	if err != nil {
		env.Infra("%s: %v", label, err)
		return
	}
	env.Sub(map[string]any{"run": label, "events": tr.N, "accepted": v.Accepted, "rejected_lines": len(v.Res.Lines)})
	if !v.Accepted && v.Res.Violated == "" {
		env.Infra("%s: no verdict:\n%s", label, v.Res.Output)
		return
	}
	env.AddTraces(int64(tr.N - len(v.Res.Lines)))
	env.AddEval(int64(tr.N))
	if v.Accepted {
		return
	}
	lines := bytes.Split(bytes.TrimSpace(tr.Bytes()), []byte("\n"))
	seen := map[string]bool{}
	for _, vl := range v.Res.Lines {
		if vl.L < 1 || vl.L > len(lines) {
			continue
		}
		sig := stLineSig(lines[vl.L-1])
		if seen[sig] {
			continue
		}
		seen[sig] = true
		env.Report(sig, vl.Inv+" violated by recorded run: "+vkTrunc(string(lines[vl.L-1]), 600), map[string]any{"seed": seed, "line": json.RawMessage(lines[vl.L-1])})
	}
}

func stLineSig(raw []byte) string {
	var e struct {
		K        string  `json:"k"`
		Entry    string  `json:"entry"`
		Fault    stFault `json:"fault"`
		Need     int     `json:"need"`
		Ok       bool    `json:"ok"`
		Same     bool    `json:"same"`
		Panicked bool    `json:"panicked"`
		Size     int     `json:"size"`
		Limit    int     `json:"limit"`
	}
	json.Unmarshal(raw, &e)
	if e.K == "write" {
		return fmt.Sprintf("writer %s under a failing sink: ok=%v panicked=%v", e.Entry, e.Ok, e.Panicked)
	}
	cls := "no fault"
	if e.Fault.Kind != "none" {
		if e.Fault.At < e.Need {
			cls = e.Fault.Kind + " before the end of the value"
		} else {
			cls = e.Fault.Kind + " after the value"
		}
	}
	return fmt.Sprintf("reader %s under fragmentation (%s): ok=%v same=%v panicked=%v", e.Entry, cls, e.Ok, e.Same, e.Panicked)
}

func runC09(env *vk.Env) {
	env.Cov.Rule = "S: TLC checks Stream.tla's full-read loop against Demand(need, fault) and termination for all compositions x fault offsets x kinds of inputs up to 7 bytes. A: each emitted (total, need, segmentation, fault) is applied to real readers whose value needs exactly `need` bytes. B: every reader entry (all wire field types, Option/Ary/Tuple, FixedBitSet, sign.Signature, frames in three modes, NBT into any/raw/dynbt/stringified/typed, NBT arrays whose declared length (up to 2^31-1 elements) lies beyond the end of the stream read through the two skipping paths, RCON packets) under one-byte, two-segment and random segmentations and every fault offset (both kinds, plain and ByteReader transports); every writer entry under a sink failing after k bytes for every k. Distinct/non-trivial = distinct (entry, schedule class)."
	env.Assume = []string{"readers that return (0, nil) are not generated", "need, the contiguous value and its byte count are observed on the contiguous run of the same real code (the property's own oracle); for the announced-array entries need is only known to exceed the stream length (declared length x element size, by the format)"}
	cfg := "Stream_MC.cfg"
	if !env.Quick() {
		cfg = "Stream_MC_thorough.cfg"
	}
	res := env.MustSpec(vk.TLCRun{Name: "S+A Stream_MC", Module: "Stream", Cfg: cfg, Workers: 8, Timeout: 20 * time.Minute})
	if res == nil {
		return
	}
	env.Cov.Exhaustive = true
	rng := newRand(env.Seed, "c09")
	rs, ws := stEntries(rng, env.Pick(1, 10))
	// leg A: TLC schedules on entries with matching need
	byNeed := map[int][]int{}
	for i, e := range rs {
		base := stRun(e, []int{len(e.Input)}, stFault{Kind: "none"}, false)
		if base.ok && !base.panicked && base.consumed <= 10 {
			byNeed[base.consumed] = append(byNeed[base.consumed], i)
		}
	}
	tr := &vk.Trace{}
	type sched struct {
		Total int     `json:"total"`
		Need  int     `json:"need"`
		Segs  []int   `json:"segs"`
		Fault stFault `json:"fault"`
	}
	nA := 0
	for _, s := range res.Printed {
		var sc sched
		if json.Unmarshal([]byte(s), &sc) != nil {
			continue
		}
		c := byNeed[sc.Need]
		if len(c) == 0 || sc.Need == 0 {
			continue
		}
		i := c[rng.Intn(len(c))]
		e := rs[i]
		e.Input = e.Input[:sc.Need]
		for len(e.Input) < sc.Total {
			e.Input = append(e.Input, 0xEE)
		}
		if ev, ok := stReadEvent(e, i, sc.Segs, sc.Fault, rng.Intn(2) == 0); ok {
			if os.Getenv("VERIF_DEBUG") != "" && ev.Len == ev.Need && !ev.ByteRdr && ev.Fault.Kind == "none" {
				fmt.Fprintf(os.Stderr, "DEBUG %s len=%d need=%d segs=%v ok=%v same=%v\n", ev.Entry, ev.Len, ev.Need, ev.Segs, ev.Ok, ev.Same)
			}
			tr.Add(ev)
			nA++
			if nA%3000 == 1 {
				env.Sample(ev)
			}
		}
	}
	if nA < 1000 {
		env.Infra("only %d TLC schedules could be applied", nA)
	}
	stJudge(env, tr, "A tlc schedules on matching fields", env.Seed)
	// leg B
	tr = &vk.Trace{}
	for i, e := range rs {
		n := len(e.Input)
		// the value as the last thing in the stream (its last byte may then arrive together with io.EOF)
		if base := stRun(e, []int{n}, stFault{Kind: "none"}, true); !e.Announced && base.ok && !base.panicked && base.consumed > 0 {
			ec := e
			ec.Input = e.Input[:base.consumed]
			for _, br := range []bool{false, true} {
				for mode := 0; mode < 3; mode++ {
					if ev, ok := stReadEvent(ec, i, randSegs(rng, len(ec.Input), mode), stFault{Kind: "none"}, br); ok {
						ev.Cut = true
						tr.Add(ev)
					}
				}
			}
		}
		for _, br := range []bool{false, true} {
			for mode := 0; mode < 3; mode++ {
				if ev, ok := stReadEvent(e, i, randSegs(rng, n, mode), stFault{Kind: "none"}, br); ok {
					tr.Add(ev)
				}
			}
		}
		step := 1
		if n > 400 && env.Quick() {
			step = n / 200
		}
		for at := 0; at <= n; at += step {
			kind := []string{"eof", "err"}[at%2]
			if ev, ok := stReadEvent(e, i, randSegs(rng, n, 1+rng.Intn(2)), stFault{Kind: kind, At: at}, rng.Intn(2) == 0); ok {
				tr.Add(ev)
			}
		}
		env.Distinct("read/" + e.Name)
	}
	for i, w := range ws {
		full := &failingWriter{limit: 1 << 30}
		if pan, _ := catch(func() { w.Run(full) }); pan {
			continue
		}
		step := 1
		if full.n > 300 && env.Quick() {
			step = full.n / 150
		}
		for k := 0; k <= full.n; k += step {
			for _, once := range []bool{false, true} {
				if ev, ok := stWriteEvent(w, i, k, once); ok {
					tr.Add(ev)
				}
			}
		}
		env.Distinct("write/" + w.Name)
	}
	stJudge(env, tr, "B entries x segmentations x fault offsets", env.Seed)
}

func replayC09(env *vk.Env, b []byte) {
	var f struct {
		Replay struct {
			Seed int64           `json:"seed"`
			Line json.RawMessage `json:"line"`
		} `json:"replay"`
	}
	json.Unmarshal(b, &f)
	env.Cov.States, env.Cov.Transitions = 1, 1
	env.Sample("replayed schedule")
	// entries are regenerated from the seed; the recorded line names the entry index and the schedule
	rng := newRand(f.Replay.Seed, "c09")
	rs, ws := stEntries(rng, 1)
	var e stReadEv
	json.Unmarshal(f.Replay.Line, &e)
	tr := &vk.Trace{}
	if e.K == "read" && e.Idx < len(rs) && rs[e.Idx].Name == e.Entry {
		ent := rs[e.Idx]
		if e.Cut && e.Len <= len(ent.Input) {
			ent.Input = ent.Input[:e.Len]
		}
		if ev, ok := stReadEvent(ent, e.Idx, e.Segs, e.Fault, e.ByteRdr); ok {
			ev.Cut = e.Cut
			tr.Add(ev)
		}
	} else {
		var w stWriteEv
		json.Unmarshal(f.Replay.Line, &w)
		if w.Idx < len(ws) {
			if ev, ok := stWriteEvent(ws[w.Idx], w.Idx, w.Limit, w.Once); ok {
				tr.Add(ev)
			}
		}
	}
	if tr.N > 0 {
		stJudge(env, tr, "replay", f.Replay.Seed)
	}
}
