package main

// X06, component A: bot/basic.Player (specs/BotBasic*.tla).

import (
	"bytes"
	"errors"
	"fmt"
	"io"
	"math/rand"
	"net"
	"sort"
	"strconv"
	"strings"
	"time"

	"github.com/Tnze/go-mc/bot"
	"github.com/Tnze/go-mc/bot/basic"
	"github.com/Tnze/go-mc/chat"
	"github.com/Tnze/go-mc/data/packetid"
	"github.com/Tnze/go-mc/nbt"
	mcnet "github.com/Tnze/go-mc/net"
	pk "github.com/Tnze/go-mc/net/packet"
	"github.com/Tnze/go-mc/registry"
	"verif/harness/vk"
)

var bbChecks = map[int][2]string{
	1:  {"NoPanic", "a handler panicked on a packet outside the named classes"},
	2:  {"Fresh", "a new Player is not in the zero state"},
	3:  {"WellFormed", "the projection contains a value the harness never sent, or a packet on the send queue that does not decode in the field order of protocol 767"},
	4:  {"Login", "Login: not every field of the packet is stored / brand and client information are not sent once, in that order, with the current Settings / the deadline is not reset once / callbacks or error differ"},
	5:  {"Respawn", "Respawn: not exactly the world-dependent fields are replaced (dimension type and name, hashed seed, game mode, previous game mode, debug, flat)"},
	6:  {"Echo", "KeepAlive / Ping: not answered exactly once with the same id (KeepAlive also resets the deadline once), or the state changed"},
	7:  {"Cookie", "CookieRequest / StoreCookie: the stored payload is not what the last StoreCookie of the key said / the answer differs"},
	8:  {"Tags", "UpdateTags: the tags of a kept registry are not bound as the packet says"},
	9:  {"Events", "Disconnect / SetHealth / PlayerPosition: callbacks, their arguments, their order or the error class differ (Death iff health <= 0, after HealthChange; a failing callback ends the dispatch and is returned)"},
	10: {"Calls", "Player.Respawn / AcceptTeleportation: not exactly one ClientCommand(0) / AcceptTeleportation(id) packet"},
	11: {"Env", "the harness's own steps (making Client.Cookies, filling the queue, changing Settings) are not reflected by the projection"},
	12: {"GameStartOrder", "GameStart is registered at priority 64 and runs BEFORE the Login packet is stored and before brand / client information are queued (the callback sees the old EID); if it fails the Login packet is never stored"},
	13: {"StoreCookieNilMap", "StoreCookie on a client made by bot.NewClient panics: Client.Cookies is never made (assignment to entry in nil map)"},
	14: {"EmptyCookie", "a cookie stored with an empty payload is answered as 'no such cookie' (the stored nil slice is taken for absence)"},
	15: {"TagsUnknownRegistry", "UpdateTags naming a registry the client does not keep (minecraft:block, item, ..) is an error in play state (ends HandleGame); the configuration-state handler skips such registries"},
	16: {"AsCoded", "a packet of a named class follows neither the intent nor the model of the code"},
	17: {"RespawnKeeps", "a Respawn changed a field that only Login sets (EID, hardcore, dimension names, max players, view / simulation distance, reduced debug info, respawn screen, limited crafting)"},
	18: {"ErrorClass", "the returned error is not a bot.PacketHandlerError with the packet's id wrapping the callback's error or a basic.Error"},
}

// ------------------------------------------------------------------ tokens and wire forms

func bbIdent(prefix string, t int) string {
	if t == 0 {
		return ""
	}
	return "minecraft:" + prefix + strconv.Itoa(t)
}
func bbIdentTok(prefix, s string) int {
	if s == "" {
		return 0
	}
	if r, ok := strings.CutPrefix(s, "minecraft:"+prefix); ok {
		if t, err := strconv.Atoi(r); err == nil && t > 0 && bbIdent(prefix, t) == s {
			return t
		}
	}
	return -1
}
func bbStr(prefix string, t int) string {
	if t == 0 {
		return ""
	}
	return prefix + strconv.Itoa(t)
}
func bbStrTok(prefix, s string) int {
	if s == "" {
		return 0
	}
	if r, ok := strings.CutPrefix(s, prefix); ok {
		if t, err := strconv.Atoi(r); err == nil && t > 0 && bbStr(prefix, t) == s {
			return t
		}
	}
	return -1
}

var bbRegNames = map[int]string{1: "minecraft:damage_type", 2: "minecraft:worldgen/biome", 3: "minecraft:block", 4: "minecraft:item"}

const bbNEnt = 3 // entries of every kept registry
const bbTagUniverse = 4

func bbPayload(t int) []byte {
	if t <= 0 {
		return []byte{}
	}
	b := make([]byte, 2+t%40) // tokens 1..65535
	for i := range b {
		b[i] = byte(t*7 + i*13)
	}
	b[0], b[1] = byte(t), byte(t>>8)
	return b
}
func bbPayloadTok(b []byte) int {
	if len(b) == 0 {
		return 0
	}
	if len(b) >= 2 {
		if t := int(b[0]) | int(b[1])<<8; t > 0 && bytes.Equal(bbPayload(t), b) {
			return t
		}
	}
	return -1
}

func bbSettings(v []int) basic.Settings {
	for len(v) < 9 {
		v = append(v, 0)
	}
	return basic.Settings{Locale: bbStr("l", v[0]), ViewDistance: v[1], ChatMode: v[2], ChatColors: v[3] == 1, DisplayedSkinParts: uint8(v[4]),
		MainHand: v[5], EnableTextFiltering: v[6] == 1, AllowListing: v[7] == 1, Brand: bbStr("b", v[8])}
}
func bbBoolInt(b bool) int {
	if b {
		return 1
	}
	return 0
}
func bbSettingsTok(s basic.Settings) []int {
	return []int{bbStrTok("l", s.Locale), s.ViewDistance, s.ChatMode, bbBoolInt(s.ChatColors), int(s.DisplayedSkinParts), s.MainHand,
		bbBoolInt(s.EnableTextFiltering), bbBoolInt(s.AllowListing), bbStrTok("b", s.Brand)}
}

// bbHalf: floats are halves of small integers (exact in float32)
func bbHalfTok(f float64) int {
	if v := f * 2; v == float64(int(v)) {
		return int(v)
	}
	return -999999
}

type bbLi struct {
	eid          int
	hc           bool
	dns          []int
	maxp, vd, sd int
	rdi, ers, lc bool
}
type bbWo struct {
	dt, dn, seed, gm, pgm int
	dbg, flat             bool
}

func bbLiOf(v any) bbLi {
	m, _ := v.(map[string]any)
	return bbLi{x4Num(m["eid"]), x4Bool(m["hc"]), x4IntList(m["dns"]), x4Num(m["maxp"]), x4Num(m["vd"]), x4Num(m["sd"]), x4Bool(m["rdi"]), x4Bool(m["ers"]), x4Bool(m["lc"])}
}
func bbWoOf(v any) bbWo {
	m, _ := v.(map[string]any)
	return bbWo{x4Num(m["dt"]), x4Num(m["dn"]), x4Num(m["seed"]), x4Num(m["gm"]), x4Num(m["pgm"]), x4Bool(m["dbg"]), x4Bool(m["flat"])}
}
func (l bbLi) m() map[string]any {
	dns := l.dns
	if dns == nil {
		dns = []int{}
	}
	return map[string]any{"eid": l.eid, "hc": l.hc, "dns": dns, "maxp": l.maxp, "vd": l.vd, "sd": l.sd, "rdi": l.rdi, "ers": l.ers, "lc": l.lc}
}
func (w bbWo) m() map[string]any {
	return map[string]any{"dt": w.dt, "dn": w.dn, "seed": w.seed, "gm": w.gm, "pgm": w.pgm, "dbg": w.dbg, "flat": w.flat}
}

// the tail of Login / Respawn behind the fields the bot reads: death location, portal cooldown, ..
func bbSpawnTail(sel int, login bool) []pk.FieldEncoder {
	var f []pk.FieldEncoder
	if sel%2 == 1 {
		f = append(f, pk.Boolean(true), pk.Identifier("minecraft:the_nether"), pk.Long(int64(sel)*977))
	} else {
		f = append(f, pk.Boolean(false))
	}
	f = append(f, pk.VarInt(sel%300))
	if login {
		f = append(f, pk.Boolean(sel%3 == 0)) // enforces secure chat
	} else {
		f = append(f, pk.Byte(sel%4)) // data kept
	}
	return f
}

func bbWoFields(w bbWo) []pk.FieldEncoder {
	return []pk.FieldEncoder{pk.VarInt(w.dt), pk.Identifier(bbIdent("d", w.dn)), pk.Long(x6Long(w.seed)), pk.UnsignedByte(w.gm), pk.Byte(w.pgm),
		pk.Boolean(w.dbg), pk.Boolean(w.flat)}
}

type bbTagBody [][]any // sections <<registry, tag, ids>>

func (b bbTagBody) WriteTo(w io.Writer) (int64, error) {
	var buf bytes.Buffer
	pk.VarInt(len(b)).WriteTo(&buf)
	for _, sec := range b {
		name := bbRegNames[x4Num(sec[0])]
		if name == "" {
			name = bbIdent("reg", x4Num(sec[0]))
		}
		pk.Identifier(name).WriteTo(&buf)
		pk.VarInt(1).WriteTo(&buf) // one tag per section
		pk.Identifier(bbIdent("t", x4Num(sec[1]))).WriteTo(&buf)
		ids := x4IntList(sec[2])
		pk.VarInt(len(ids)).WriteTo(&buf)
		for _, id := range ids {
			pk.VarInt(id).WriteTo(&buf)
		}
	}
	n, err := w.Write(buf.Bytes())
	return int64(n), err
}

// ------------------------------------------------------------------ the real player

// bbSock is the socket of the client: it only counts SetDeadline calls.
type bbSock struct{ deadlines int }

func (s *bbSock) Read([]byte) (int, error)         { return 0, errors.New("verif: no socket") }
func (s *bbSock) Write(b []byte) (int, error)      { return len(b), nil }
func (s *bbSock) Close() error                     { return nil }
func (s *bbSock) LocalAddr() net.Addr              { return &net.TCPAddr{} }
func (s *bbSock) RemoteAddr() net.Addr             { return &net.TCPAddr{} }
func (s *bbSock) SetDeadline(time.Time) error      { s.deadlines++; return nil }
func (s *bbSock) SetReadDeadline(time.Time) error  { return nil }
func (s *bbSock) SetWriteDeadline(time.Time) error { return nil }

var errX6Callback = errors.New("verif: callback refuses")

type bbReal struct {
	c       *bot.Client
	p       *basic.Player
	pull    func() (pk.Packet, bool)
	setFull func(bool)
	pending func() int
	sock    *bbSock
	full    bool
	lst     []string
	evs     [][]any
	fails   x6Fails
}

func (r *bbReal) cb(name string, args ...int) error {
	if args == nil {
		args = []int{}
	}
	r.evs = append(r.evs, []any{name, args})
	if r.fails.next() {
		return errX6Callback
	}
	return nil
}

func (r *bbReal) reset() { r.make(nil) }

func (r *bbReal) make(lst []string) {
	r.lst = append([]string{}, lst...)
	r.c = bot.NewClient()
	r.pull, r.setFull, r.pending = bot.VerifAttachSendQueueCtl(r.c)
	r.sock = &bbSock{}
	r.c.Conn.Conn = mcnet.WrapConn(r.sock)
	r.full = false
	for _, reg := range []*registry.Registry[nbt.RawMessage]{&r.c.Registries.WorldGenBiome} {
		for i := 0; i < bbNEnt; i++ {
			reg.Put(fmt.Sprint("minecraft:e", i), nbt.RawMessage{})
		}
	}
	for i := 0; i < bbNEnt; i++ {
		r.c.Registries.DamageType.Put(fmt.Sprint("minecraft:e", i), registry.DamageType{MessageID: fmt.Sprint("m", i)})
	}
	var l basic.EventsListener
	if x6Has(lst, "gs") {
		l.GameStart = func() error { return r.cb("gamestart", int(r.p.EID), r.pending()) }
	}
	if x6Has(lst, "dc") {
		l.Disconnect = func(reason chat.Message) error { return r.cb("disconnect", bbStrTok("r", reason.Text)) }
	}
	if x6Has(lst, "hc") {
		l.HealthChange = func(health float32, food int32, sat float32) error {
			return r.cb("health", bbHalfTok(float64(health)), int(food), bbHalfTok(float64(sat)))
		}
	}
	if x6Has(lst, "death") {
		l.Death = func() error { return r.cb("death") }
	}
	if x6Has(lst, "tp") {
		l.Teleported = func(x, y, z float64, yaw, pitch float32, flags byte, id int32) error {
			return r.cb("tp", bbHalfTok(x)/2, bbHalfTok(y)/2, bbHalfTok(z)/2, bbHalfTok(float64(yaw))/2, bbHalfTok(float64(pitch))/2, int(flags), int(id))
		}
	}
	r.p = basic.NewPlayer(r.c, basic.Settings{}, l)
	if x6Has(lst, "probe") {
		// a user handler registered AFTER NewPlayer at priority 0: behind the Player's own handlers
		probe := func(pk.Packet) error { return r.cb("probe", int(r.p.EID), r.pending()) }
		for _, id := range []packetid.ClientboundPacketID{packetid.ClientboundLogin, packetid.ClientboundRespawn, packetid.ClientboundKeepAlive,
			packetid.ClientboundPing, packetid.ClientboundCookieRequest, packetid.ClientboundStoreCookie, packetid.ClientboundUpdateTags,
			packetid.ClientboundDisconnect, packetid.ClientboundSetHealth, packetid.ClientboundPlayerPosition} {
			r.c.Events.AddListener(bot.PacketHandler{Priority: 0, ID: id, F: probe})
		}
	}
}

func bbErrClass(err error, id packetid.ClientboundPacketID) string {
	if err == nil {
		return "none"
	}
	var phe bot.PacketHandlerError
	if !errors.As(err, &phe) || phe.ID != id {
		return "unwrapped"
	}
	if errors.Is(err, errX6Callback) {
		return "cb"
	}
	var be basic.Error
	if errors.As(err, &be) {
		return "own"
	}
	return "other"
}

// bbDecodeOut decodes a serverbound packet with the field order of protocol 767 (independently of the code under test).
func bbDecodeOut(p pk.Packet) []any {
	r := bytes.NewReader(p.Data)
	garbage := []any{"garbage", []int{int(p.ID)}}
	read := func(fields ...pk.FieldDecoder) bool {
		for _, f := range fields {
			if _, err := f.ReadFrom(r); err != nil {
				return false
			}
		}
		return true
	}
	switch packetid.ServerboundPacketID(p.ID) {
	case packetid.ServerboundCustomPayload:
		var ch pk.Identifier
		var brand pk.String
		if !read(&ch, &brand) || r.Len() != 0 || ch != "minecraft:brand" {
			return garbage
		}
		return []any{"brand", []int{bbStrTok("b", string(brand))}}
	case packetid.ServerboundClientInformation:
		var loc pk.String
		var vd pk.Byte
		var cm, hand pk.VarInt
		var cc, filt, list pk.Boolean
		var skin pk.UnsignedByte
		if !read(&loc, &vd, &cm, &cc, &skin, &hand, &filt, &list) || r.Len() != 0 {
			return garbage
		}
		return []any{"settings", []int{bbStrTok("l", string(loc)), int(vd), int(cm), bbBoolInt(bool(cc)), int(skin), int(hand), bbBoolInt(bool(filt)), bbBoolInt(bool(list))}}
	case packetid.ServerboundKeepAlive:
		var id pk.Long
		if !read(&id) || r.Len() != 0 {
			return garbage
		}
		return []any{"keepalive", []int{x6LongTok(int64(id))}}
	case packetid.ServerboundPong:
		var id pk.Int
		if !read(&id) || r.Len() != 0 {
			return garbage
		}
		return []any{"pong", []int{int(id)}}
	case packetid.ServerboundCookieResponse:
		var key pk.Identifier
		var has pk.Boolean
		if !read(&key, &has) {
			return garbage
		}
		pay := -1
		if has {
			var b pk.ByteArray
			if !read(&b) {
				return garbage
			}
			pay = bbPayloadTok(b)
		}
		if r.Len() != 0 {
			return garbage
		}
		return []any{"cookie", []int{bbIdentTok("k", string(key)), bbBoolInt(bool(has)), pay}}
	case packetid.ServerboundClientCommand:
		var a pk.VarInt
		if !read(&a) || r.Len() != 0 {
			return garbage
		}
		return []any{"clientcmd", []int{int(a)}}
	case packetid.ServerboundAcceptTeleportation:
		var a pk.VarInt
		if !read(&a) || r.Len() != 0 {
			return garbage
		}
		return []any{"accepttp", []int{int(a)}}
	}
	return garbage
}

func (r *bbReal) do(op x4Op) (res map[string]any) {
	r.evs = nil
	r.fails.arm(op["fail"])
	r.sock.deadlines = 0
	for { // nothing of an earlier step is left on the queue
		if _, ok := r.pull(); !ok {
			break
		}
	}
	n := x4Num(op["n"])
	errc, pan, panmsg := "none", false, ""
	send := func(id packetid.ClientboundPacketID, fields ...pk.FieldEncoder) {
		p := pk.Marshal(id, fields...)
		var err error
		pan, panmsg = x6Catch(func() { err = bot.VerifHandlePacket(r.c, p.ID, p.Data) })
		errc = bbErrClass(err, id)
	}
	call := func(f func() error) {
		var err error
		pan, panmsg = x6Catch(func() { err = f() })
		var be basic.Error
		switch {
		case err == nil:
		case errors.As(err, &be):
			errc = "own"
		default:
			errc = "other"
		}
	}
	switch k := x4Str(op["k"]); k {
	case "new":
		r.make(x6StrList(op["plst"]))
	case "login":
		li, wo := bbLiOf(op["pli"]), bbWoOf(op["pwo"])
		dns := make([]pk.Identifier, len(li.dns))
		for i, t := range li.dns {
			dns[i] = pk.Identifier(bbIdent("w", t))
		}
		f := []pk.FieldEncoder{pk.Int(li.eid), pk.Boolean(li.hc), pk.Array(dns), pk.VarInt(li.maxp), pk.VarInt(li.vd), pk.VarInt(li.sd),
			pk.Boolean(li.rdi), pk.Boolean(li.ers), pk.Boolean(li.lc)}
		f = append(f, bbWoFields(wo)...)
		send(packetid.ClientboundLogin, append(f, bbSpawnTail(li.eid+wo.seed, true)...)...)
	case "respawn":
		wo := bbWoOf(op["pwo"])
		send(packetid.ClientboundRespawn, append(bbWoFields(wo), bbSpawnTail(wo.seed+wo.gm, false)...)...)
	case "keepalive":
		send(packetid.ClientboundKeepAlive, pk.Long(x6Long(n)))
	case "ping":
		send(packetid.ClientboundPing, pk.Int(n))
	case "cookiereq":
		send(packetid.ClientboundCookieRequest, pk.Identifier(bbIdent("k", x4Num(op["key"]))))
	case "cookiestore":
		send(packetid.ClientboundStoreCookie, pk.Identifier(bbIdent("k", x4Num(op["key"]))), pk.ByteArray(bbPayload(x4Num(op["pay"]))))
	case "tags":
		body := bbTagBody{}
		for _, sec := range x4List(op["secs"]) {
			body = append(body, x4List(sec))
		}
		var buf bytes.Buffer
		body.WriteTo(&buf)
		send(packetid.ClientboundUpdateTags, bbRawField(buf.Bytes()))
	case "disconnect":
		send(packetid.ClientboundDisconnect, chat.Text(bbStr("r", n)))
	case "health":
		v := x4IntList(op["v"])
		send(packetid.ClientboundSetHealth, pk.Float(float32(v[0])/2), pk.VarInt(v[1]), pk.Float(float32(v[2])/2))
	case "position":
		v := x4IntList(op["v"])
		send(packetid.ClientboundPlayerPosition, pk.Double(v[0]), pk.Double(v[1]), pk.Double(v[2]), pk.Float(v[3]), pk.Float(v[4]), pk.Byte(v[5]), pk.VarInt(v[6]))
	case "callrespawn":
		call(r.p.Respawn)
	case "accepttp":
		call(func() error { return r.p.AcceptTeleportation(pk.VarInt(n)) })
	case "mkcookies":
		if r.c.Cookies == nil {
			r.c.Cookies = map[string][]byte{}
		}
	case "setfull":
		r.full = n == 1
		r.setFull(r.full)
	case "setsettings":
		r.p.Settings = bbSettings(x4IntList(op["v"]))
	default:
		panic("unknown op " + k)
	}
	out := [][]any{}
	for {
		p, ok := r.pull()
		if !ok {
			break
		}
		out = append(out, bbDecodeOut(p))
	}
	evs := r.evs
	if evs == nil {
		evs = [][]any{}
	}
	return map[string]any{"evs": evs, "out": out, "dl": r.sock.deadlines, "err": errc, "pan": pan, "panmsg": panmsg}
}

type bbRawField []byte

func (b bbRawField) WriteTo(w io.Writer) (int64, error) {
	n, err := w.Write(b)
	return int64(n), err
}

func (r *bbReal) project() map[string]any {
	p := r.p
	dns := []int{}
	for _, s := range p.DimensionNames {
		dns = append(dns, bbIdentTok("w", s))
	}
	li := bbLi{int(p.EID), p.Hardcore, dns, int(p.MaxPlayers), int(p.ViewDistance), int(p.SimulationDistance), p.ReducedDebugInfo, p.EnableRespawnScreen, p.DoLimitCrafting}
	wo := bbWo{int(p.DimensionType), bbIdentTok("d", p.DimensionName), x6LongTok(p.HashedSeed), int(p.Gamemode), int(p.PrevGamemode), p.IsDebug, p.IsFlat}
	cookies := [][]int{}
	for k, v := range r.c.Cookies {
		cookies = append(cookies, []int{bbIdentTok("k", k), bbPayloadTok(v)})
	}
	sort.Slice(cookies, func(i, j int) bool { return cookies[i][0] < cookies[j][0] })
	tags := [][]any{}
	tagRows := func(reg int, tag int, ids []int) { tags = append(tags, []any{reg, tag, ids}) }
	for t := 1; t <= bbTagUniverse; t++ {
		name := bbIdent("t", t)
		if l := r.c.Registries.DamageType.Tag(name); l != nil {
			ids := []int{}
			for _, e := range l {
				id := -1
				for i := int32(0); i < bbNEnt+2; i++ {
					if r.c.Registries.DamageType.GetByID(i) == e {
						id = int(i)
					}
				}
				ids = append(ids, id)
			}
			tagRows(1, t, ids)
		}
	}
	for t := 1; t <= bbTagUniverse; t++ {
		name := bbIdent("t", t)
		if l := r.c.Registries.WorldGenBiome.Tag(name); l != nil {
			ids := []int{}
			for _, e := range l {
				id := -1
				for i := int32(0); i < bbNEnt+2; i++ {
					if r.c.Registries.WorldGenBiome.GetByID(i) == e {
						id = int(i)
					}
				}
				ids = append(ids, id)
			}
			tagRows(2, t, ids)
		}
	}
	lst := r.lst
	if lst == nil {
		lst = []string{}
	}
	return map[string]any{"li": li.m(), "wo": wo.m(), "set": bbSettingsTok(p.Settings), "cookies": cookies, "cinit": r.c.Cookies != nil,
		"tags": tags, "full": r.full, "lst": lst}
}

// ------------------------------------------------------------------ component

func bbDefaults() x4Op {
	return x4Op{"k": "", "n": 0, "key": 0, "pay": 0, "v": []int{}, "pli": bbLi{}.m(), "pwo": bbWo{}.m(), "secs": []any{}, "plst": []string{}, "fail": []int{}}
}

func bbComp() *x4Comp {
	return &x4Comp{
		module: "BotBasic", checks: bbChecks, genCfg: "BotBasic_Gen.cfg",
		defaults: bbDefaults,
		results: func() map[string]any {
			return map[string]any{"evs": [][]any{}, "out": [][]any{}, "dl": 0, "err": "none", "pan": false, "panmsg": ""}
		},
		mk: func() x4Real { r := &bbReal{}; r.reset(); return r },
		opOfAct: func(act map[string]any) (x4Op, error) {
			p := act["p"].(map[string]any)
			op := x4Op{}
			for k, v := range p {
				switch k {
				case "li":
					op["pli"] = x4Canon(v)
				case "wo":
					op["pwo"] = x4Canon(v)
				case "lst":
					op["plst"] = x4Canon(v)
				default:
					op[k] = x4Canon(v)
				}
			}
			switch x4Str(op["k"]) {
			case "login", "respawn", "keepalive", "ping", "cookiereq", "cookiestore", "tags", "disconnect", "health", "position",
				"callrespawn", "accepttp", "mkcookies", "setfull", "setsettings":
				return op, nil
			}
			return nil, fmt.Errorf("BotBasic: unknown packet kind %q", op["k"])
		},
		expect: func(st map[string]any) map[string]any {
			s := st["s"].(map[string]any)
			tags := [][]any{}
			for _, row := range x6Pairs(s["tags"]) {
				rt := x4List(row[0])
				tags = append(tags, []any{rt[0], rt[1], row[1]})
			}
			sort.Slice(tags, func(i, j int) bool {
				if x4Num(tags[i][0]) != x4Num(tags[j][0]) {
					return x4Num(tags[i][0]) < x4Num(tags[j][0])
				}
				return x4Num(tags[i][1]) < x4Num(tags[j][1])
			})
			cookies := x6Pairs(s["cookies"])
			sort.Slice(cookies, func(i, j int) bool { return x4Num(cookies[i][0]) < x4Num(cookies[j][0]) })
			exp := map[string]any{"li": x4Canon(s["li"]), "wo": x4Canon(s["wo"]), "set": x4Canon(s["set"]), "cookies": cookies, "cinit": s["cinit"],
				"tags": tags, "full": s["full"], "lst": x4Canon(s["lst"])}
			if act, ok := st["act"].(map[string]any); ok && x4Str(act["p"].(map[string]any)["k"]) != "new" {
				exp["evs"], exp["out"], exp["dl"], exp["err"], exp["pan"] = x4Canon(act["evs"]), x4Canon(act["out"]), act["dl"], act["err"], act["pan"]
			}
			return exp
		},
		class: func(ev map[string]any) string {
			nev := 0
			if l, ok := ev["evs"].([][]any); ok {
				nev = len(l)
			}
			nout := 0
			if l, ok := ev["out"].([][]any); ok {
				nout = len(l)
			}
			return fmt.Sprint(ev["k"], "/err=", ev["err"], "/pan=", ev["pan"], "/evs=", nev, "/out=", nout, "/full=", ev["full"], "/cinit=", ev["cinit"])
		},
	}
}

// ------------------------------------------------------------------ leg B

type bbGen struct {
	rng  *rand.Rand
	x    *x4Exec
	lst  []string
	keys int
	pay  int
}

func (g *bbGen) fail() []int {
	switch r := g.rng.Intn(40); {
	case r == 0:
		return []int{1}
	case r == 1:
		return []int{2}
	case r == 2:
		return []int{1, 2}
	case r == 3:
		return []int{3}
	}
	return []int{}
}

func (g *bbGen) li() map[string]any {
	rng := g.rng
	dns := []int{}
	for i := rng.Intn(5); i > 0; i-- {
		dns = append(dns, 1+rng.Intn(9))
	}
	eid := rng.Intn(2000) - 500
	if rng.Intn(8) == 0 {
		eid = []int{-2147483647, 2147483646, 0, 65536}[rng.Intn(4)]
	}
	return bbLi{eid, rng.Intn(2) == 0, dns, rng.Intn(300), 2 + rng.Intn(31), 2 + rng.Intn(31), rng.Intn(2) == 0, rng.Intn(2) == 0, rng.Intn(2) == 0}.m()
}
func (g *bbGen) wo() map[string]any {
	rng := g.rng
	seed := rng.Intn(1<<30) - 1<<29
	return bbWo{rng.Intn(6), 1 + rng.Intn(5), seed, rng.Intn(4), rng.Intn(5) - 1, rng.Intn(2) == 0, rng.Intn(2) == 0}.m()
}
func (g *bbGen) id() int {
	if g.rng.Intn(4) == 0 {
		return []int{0, -1, 1, 1<<30 - 1, -(1<<30 - 1), 255, 256}[g.rng.Intn(7)]
	}
	return g.rng.Intn(2000000) - 1000000
}

func (g *bbGen) randomOp() {
	rng := g.rng
	do := func(k string, f x4Op) {
		f["k"] = k
		g.x.do(f)
	}
	switch r := rng.Intn(100); {
	case r < 9:
		do("login", x4Op{"pli": g.li(), "pwo": g.wo(), "fail": g.fail()})
	case r < 19:
		do("respawn", x4Op{"pwo": g.wo(), "fail": g.fail()})
	case r < 34:
		do("keepalive", x4Op{"n": g.id(), "fail": g.fail()})
	case r < 42:
		do("ping", x4Op{"n": g.id(), "fail": g.fail()})
	case r < 50:
		do("cookiereq", x4Op{"key": 1 + rng.Intn(g.keys), "fail": g.fail()})
	case r < 58:
		g.pay = g.pay%60000 + 1
		pay := g.pay
		if rng.Intn(5) == 0 {
			pay = 0
		}
		do("cookiestore", x4Op{"key": 1 + rng.Intn(g.keys), "pay": pay, "fail": g.fail()})
	case r < 66:
		secs := []any{}
		for i := rng.Intn(4); i > 0; i-- {
			reg := 1 + rng.Intn(2)
			if rng.Intn(6) == 0 {
				reg = 3 + rng.Intn(2)
			}
			ids := []int{}
			for j := rng.Intn(4); j > 0; j-- {
				ids = append(ids, rng.Intn(bbNEnt))
			}
			secs = append(secs, []any{reg, 1 + rng.Intn(bbTagUniverse), ids})
		}
		do("tags", x4Op{"secs": secs, "fail": g.fail()})
	case r < 70:
		do("disconnect", x4Op{"n": rng.Intn(50), "fail": g.fail()})
	case r < 79:
		h := rng.Intn(42) - 2
		if rng.Intn(3) == 0 {
			h = []int{0, -1, 1, 40}[rng.Intn(4)]
		}
		do("health", x4Op{"v": []int{h, rng.Intn(21), rng.Intn(11)}, "fail": g.fail()})
	case r < 84:
		do("position", x4Op{"v": []int{rng.Intn(60000) - 30000, rng.Intn(384) - 64, rng.Intn(60000) - 30000, rng.Intn(360) - 180, rng.Intn(180) - 90, rng.Intn(32), rng.Intn(100000)}, "fail": g.fail()})
	case r < 87:
		do("callrespawn", x4Op{})
	case r < 90:
		do("accepttp", x4Op{"n": rng.Intn(100000)})
	case r < 92:
		do("mkcookies", x4Op{})
	case r < 96:
		b := 0
		if rng.Intn(3) == 0 {
			b = 1
		}
		do("setfull", x4Op{"n": b})
	default:
		do("setsettings", x4Op{"v": []int{1 + rng.Intn(5), 2 + rng.Intn(31), rng.Intn(3), rng.Intn(2), rng.Intn(128), rng.Intn(2), rng.Intn(2), rng.Intn(2), 1 + rng.Intn(5)}})
	}
}

var bbLsts = [][]string{
	{"gs", "dc", "hc", "death", "tp", "probe"},
	{"probe"},
	{"dc", "hc", "death", "tp"},
	{},
	{"gs", "probe"},
	{"death", "probe"},
	{"hc", "probe"},
	{"gs", "dc", "hc", "death", "tp"},
}

func bbPlain(seed int64, id, nops int, x *x4Exec) {
	g := &bbGen{rng: newRand(seed, fmt.Sprint("basic-plain", id)), x: x, lst: bbLsts[id%len(bbLsts)], keys: []int{1, 3, 8}[id%3]}
	x.do(x4Op{"k": "reset"})
	x.do(x4Op{"k": "new", "plst": g.lst})
	if id%2 == 0 { // half of the histories make the cookie map first (what a user of the package has to do)
		x.do(x4Op{"k": "mkcookies"})
	}
	for k := 0; k < nops; k++ {
		g.randomOp()
	}
}

func bbHazard(seed int64, id int, x *x4Exec) {
	rng := newRand(seed, fmt.Sprint("basic-hazard", id))
	g := &bbGen{rng: rng, x: x, keys: 2}
	x.do(x4Op{"k": "reset"})
	switch id % 4 {
	case 0: // out of order: Respawn, keep-alive, ping before Login; then two Logins, the second with fewer dimension names
		x.do(x4Op{"k": "new", "plst": []string{"probe"}})
		x.do(x4Op{"k": "respawn", "pwo": g.wo()})
		x.do(x4Op{"k": "keepalive", "n": g.id()})
		x.do(x4Op{"k": "ping", "n": g.id()})
		li := bbLiOf(g.li())
		li.dns = []int{1, 2, 3, 4}
		x.do(x4Op{"k": "login", "pli": li.m(), "pwo": g.wo()})
		x.do(x4Op{"k": "respawn", "pwo": g.wo()})
		li2 := bbLiOf(g.li())
		li2.dns = []int{5}
		x.do(x4Op{"k": "login", "pli": li2.m(), "pwo": g.wo()})
		x.do(x4Op{"k": "respawn", "pwo": g.wo()})
	case 1: // GameStart: what the callback sees, and a failing one
		x.do(x4Op{"k": "new", "plst": []string{"gs", "probe"}})
		x.do(x4Op{"k": "setsettings", "v": []int{2, 10, 0, 1, 127, 1, 0, 1, 3}})
		x.do(x4Op{"k": "login", "pli": g.li(), "pwo": g.wo()})
		x.do(x4Op{"k": "login", "pli": g.li(), "pwo": g.wo(), "fail": []int{1}})
		x.do(x4Op{"k": "setfull", "n": 1})
		x.do(x4Op{"k": "login", "pli": g.li(), "pwo": g.wo()})
		x.do(x4Op{"k": "keepalive", "n": g.id()})
		x.do(x4Op{"k": "setfull", "n": 0})
		x.do(x4Op{"k": "keepalive", "n": g.id()})
	case 2: // cookies on a client as bot.NewClient makes it; then with the map; empty payloads
		x.do(x4Op{"k": "new", "plst": []string{}})
		x.do(x4Op{"k": "cookiereq", "key": 1})
		x.do(x4Op{"k": "cookiestore", "key": 1, "pay": 5 + rng.Intn(100)})
		x.do(x4Op{"k": "mkcookies"})
		x.do(x4Op{"k": "cookiestore", "key": 1, "pay": 5 + rng.Intn(100)})
		x.do(x4Op{"k": "cookiereq", "key": 1})
		x.do(x4Op{"k": "cookiestore", "key": 2, "pay": 0})
		x.do(x4Op{"k": "cookiereq", "key": 2})
		x.do(x4Op{"k": "cookiestore", "key": 1, "pay": 0})
		x.do(x4Op{"k": "cookiereq", "key": 1})
	case 3: // tags: what a server sends after /reload (registries the client does not keep among kept ones)
		x.do(x4Op{"k": "new", "plst": []string{"probe"}})
		x.do(x4Op{"k": "tags", "secs": []any{[]any{1, 1, []int{0, 2}}, []any{2, 1, []int{1}}}})
		x.do(x4Op{"k": "tags", "secs": []any{[]any{1, 2, []int{1}}, []any{3, 1, []int{0}}, []any{2, 2, []int{2}}}})
		x.do(x4Op{"k": "tags", "secs": []any{[]any{4, 1, []int{}}}})
		x.do(x4Op{"k": "tags", "secs": []any{[]any{1, 1, []int{}}, []any{1, 1, []int{1, 1}}}})
		x.do(x4Op{"k": "health", "v": []int{0, 0, 0}})
	}
}

func bbSpecLeg(env *vk.Env, book *x2Book) {
	x6SpecLeg(env, book, "BotBasic", []string{"BotBasic_MC.cfg"}, []string{"BotBasic_MC.cfg", "BotBasic_MC_thorough.cfg"},
		[]x4Expected{
			{"BotBasic_MC_code_gamestart.cfg", "GameStartRule", "Model(code) - GameStartRule: TLC rejects the model of the code",
				"Login on a Player with a GameStart listener: the callback is <<gamestart, <<0, 0>>>> - the EID before the packet, nothing queued yet"},
			{"BotBasic_MC_code_fields.cfg", "FieldsFollowPackets", "Model(code) - FieldsFollowPackets: TLC rejects the model of the code",
				"Login with a failing GameStart callback: the dispatch ends before the Login handler, the fields keep their old values"},
			{"BotBasic_MC_code_cookie.cfg", "NoPanic", "Model(code) - NoPanic: TLC rejects the model of the code",
				"the first StoreCookie on a new client panics"},
			{"BotBasic_MC_code_emptycookie.cfg", "CookieRule", "Model(code) - CookieRule: TLC rejects the model of the code",
				"mkcookies; StoreCookie(k, empty payload); CookieRequest(k) is answered without payload"},
			{"BotBasic_MC_code_tags.cfg", "TagsRule", "Model(code) - TagsRule: TLC rejects the model of the code",
				"UpdateTags with a section for a registry that is not kept returns an error"},
		},
		x4Expected{cfg: "BotBasic_MC_broken.cfg", violated: "RespawnRule"})
}

func bbLegs(env *vk.Env, book *x2Book) {
	x6Legs(env, book, bbComp(), x4Sizes{behaviours: env.Pick(60, 600), depth: env.Pick(50, 80), histories: env.Pick(16, 96), ops: env.Pick(300, 700),
		haz: env.Pick(8, 40), partsA: env.Pick(1, 4), partsB: env.Pick(1, 6)}, bbPlain, bbHazard, 6000000)
}
