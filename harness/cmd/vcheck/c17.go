package main

// C17 text components. Spec: specs/Chat.tla (component record, ToNBT/FromNBT over NBT.tla trees, ToJSON/FromJSON
// over abstract JSON trees, Plain, chat-type header), specs/Chat_Trace.tla (per-call judge).
// Leg S+A: TLC checks the model against itself on a generated component universe (every field single and
//          pairwise, 0..5 translation arguments, nested to Depth) x accepted input shapes (canonical compound,
//          bare string, list, lists of strings, typed-array arguments, reordered keys) and chat-type headers,
//          and prints one vector per state; every vector is run through the real chat package.
// Leg B:   seeded random components (deeper nesting, random strings) through the same calls.
// Every recorded call is judged by Chat_Trace in TLC; Go only builds chat.Message values from abstract
// components, turns abstract trees into bytes / JSON text, and projects results back.

import (
	"bytes"
	"encoding/json"
	"fmt"
	"io"
	"math/rand"
	"regexp"
	"sort"
	"strings"
	"time"

	"github.com/Tnze/go-mc/chat"
	"github.com/Tnze/go-mc/nbt"
	"verif/harness/vk"
)

func init() { drivers["C17"] = driver{run: runC17, replay: replayC17} }

// ---------------------------------------------------------------- abstract components

type chClick struct {
	Action []int `json:"action"`
	Value  []int `json:"value"`
}
type chHover struct {
	Action   []int   `json:"action"`
	Contents [][]int `json:"contents"`
	Value    *chComp `json:"value"`
}
type chComp struct {
	Text          []int     `json:"text"`
	Bold          bool      `json:"bold"`
	Italic        bool      `json:"italic"`
	Underlined    bool      `json:"underlined"`
	Strikethrough bool      `json:"strikethrough"`
	Obfuscated    bool      `json:"obfuscated"`
	Font          []int     `json:"font"`
	Color         []int     `json:"color"`
	Insertion     []int     `json:"insertion"`
	Click         []chClick `json:"click"`
	Hover         []chHover `json:"hover"`
	Translate     []int     `json:"translate"`
	With          []*chComp `json:"with"`
	Extra         []*chComp `json:"extra"`
}
type chHdr struct {
	ID     int       `json:"id"`
	Sender *chComp   `json:"sender"`
	Target []*chComp `json:"target"`
}

func chE(a []int) []int {
	if a == nil {
		return []int{}
	}
	return a
}

// norm replaces nil slices by empty ones everywhere (JSON null is not usable in TLC)
func (c *chComp) norm() *chComp {
	if c == nil {
		c = &chComp{}
	}
	c.Text, c.Font, c.Color, c.Insertion, c.Translate = chE(c.Text), chE(c.Font), chE(c.Color), chE(c.Insertion), chE(c.Translate)
	if c.Click == nil {
		c.Click = []chClick{}
	}
	for i := range c.Click {
		c.Click[i].Action, c.Click[i].Value = chE(c.Click[i].Action), chE(c.Click[i].Value)
	}
	if c.Hover == nil {
		c.Hover = []chHover{}
	}
	for i := range c.Hover {
		h := &c.Hover[i]
		h.Action = chE(h.Action)
		if h.Contents == nil {
			h.Contents = [][]int{}
		}
		for j := range h.Contents {
			h.Contents[j] = chE(h.Contents[j])
		}
		h.Value = h.Value.norm()
	}
	if c.With == nil {
		c.With = []*chComp{}
	}
	for i := range c.With {
		c.With[i] = c.With[i].norm()
	}
	if c.Extra == nil {
		c.Extra = []*chComp{}
	}
	for i := range c.Extra {
		c.Extra[i] = c.Extra[i].norm()
	}
	return c
}

func (h *chHdr) norm() *chHdr {
	if h == nil {
		h = &chHdr{}
	}
	h.Sender = h.Sender.norm()
	if h.Target == nil {
		h.Target = []*chComp{}
	}
	for i := range h.Target {
		h.Target[i] = h.Target[i].norm()
	}
	return h
}

func chTxt(s string) *chComp { return (&chComp{Text: ints([]byte(s))}).norm() }

func (c *chComp) bare() bool {
	return !c.Bold && !c.Italic && !c.Underlined && !c.Strikethrough && !c.Obfuscated && len(c.Font) == 0 && len(c.Color) == 0 &&
		len(c.Insertion) == 0 && len(c.Click) == 0 && len(c.Hover) == 0 && len(c.Translate) == 0 && len(c.With) == 0 && len(c.Extra) == 0
}

func chAllBare(s []*chComp) bool {
	for _, x := range s {
		if !x.bare() {
			return false
		}
	}
	return len(s) > 0
}

func chStr(a []int) string { return string(bytesOf(a)) }

// chBuild concretises an abstract component as a chat.Message. argkind decides how bare translation
// arguments are represented: "msg" = chat.Message values, "str" = Go strings where ALL arguments of a node
// are bare, "mixed" = every bare argument as a Go string (heterogeneous argument lists).
func chBuild(c *chComp, argkind string) chat.Message {
	m := chat.Message{Text: chStr(c.Text), Bold: c.Bold, Italic: c.Italic, UnderLined: c.Underlined, StrikeThrough: c.Strikethrough,
		Obfuscated: c.Obfuscated, Font: chStr(c.Font), Color: chStr(c.Color), Insertion: chStr(c.Insertion), Translate: chStr(c.Translate)}
	if len(c.Click) > 0 {
		m.ClickEvent = &chat.ClickEvent{Action: chStr(c.Click[0].Action), Value: chStr(c.Click[0].Value)}
	}
	if len(c.Hover) > 0 {
		h := c.Hover[0]
		he := &chat.HoverEvent{Action: chStr(h.Action), Value: chBuild(h.Value, argkind)}
		if len(h.Contents) > 0 {
			he.Contents = chStr(h.Contents[0])
		}
		m.HoverEvent = he
	}
	allBare := chAllBare(c.With)
	for _, a := range c.With {
		if a.bare() && (argkind == "mixed" || (argkind == "str" && allBare)) {
			m.With = append(m.With, chStr(a.Text))
		} else {
			m.With = append(m.With, chBuild(a, argkind))
		}
	}
	for _, e := range c.Extra {
		m.Extra = append(m.Extra, chBuild(e, argkind))
	}
	return m
}

// chProject maps a chat.Message back to the abstract component (nil == empty; a string argument is the
// component with that text).
func chProject(m chat.Message) *chComp {
	c := &chComp{Text: ints([]byte(m.Text)), Bold: m.Bold, Italic: m.Italic, Underlined: m.UnderLined, Strikethrough: m.StrikeThrough,
		Obfuscated: m.Obfuscated, Font: ints([]byte(m.Font)), Color: ints([]byte(m.Color)), Insertion: ints([]byte(m.Insertion)), Translate: ints([]byte(m.Translate))}
	if m.ClickEvent != nil {
		c.Click = []chClick{{Action: ints([]byte(m.ClickEvent.Action)), Value: ints([]byte(m.ClickEvent.Value))}}
	}
	if m.HoverEvent != nil {
		h := chHover{Action: ints([]byte(m.HoverEvent.Action)), Value: chProject(m.HoverEvent.Value)}
		switch x := m.HoverEvent.Contents.(type) {
		case nil:
		case string:
			h.Contents = [][]int{ints([]byte(x))}
		default:
			h.Contents = [][]int{ints([]byte(fmt.Sprintf("<unprojectable contents %T>", x)))}
		}
		c.Hover = []chHover{h}
	}
	for _, a := range m.With {
		switch x := a.(type) {
		case chat.Message:
			c.With = append(c.With, chProject(x))
		case *chat.Message:
			if x != nil {
				c.With = append(c.With, chProject(*x))
			} else {
				c.With = append(c.With, chTxt("<unprojectable nil argument>"))
			}
		case string:
			c.With = append(c.With, chTxt(x))
		default:
			c.With = append(c.With, chTxt(fmt.Sprintf("<unprojectable argument %T>", x)))
		}
	}
	for _, e := range m.Extra {
		c.Extra = append(c.Extra, chProject(e))
	}
	return c.norm()
}

func chBuildHdr(h *chHdr) *chat.Type {
	t := &chat.Type{ID: int32(h.ID), SenderName: chBuild(h.Sender, "msg")}
	if len(h.Target) > 0 {
		x := chBuild(h.Target[0], "msg")
		t.TargetName = &x
	}
	return t
}

func chProjectHdr(t *chat.Type) *chHdr {
	h := &chHdr{ID: int(t.ID), Sender: chProject(t.SenderName)}
	if t.TargetName != nil {
		h.Target = []*chComp{chProject(*t.TargetName)}
	}
	return h.norm()
}

// ---------------------------------------------------------------- abstract JSON trees

type chJEnt struct {
	K []int `json:"k"`
	N *chJ  `json:"n"`
}
type chJ struct {
	J string
	S []int
	B bool
	A []*chJ
	O []chJEnt
}

func (n *chJ) MarshalJSON() ([]byte, error) {
	switch n.J {
	case "s":
		return json.Marshal(map[string]any{"j": "s", "v": chE(n.S)})
	case "b":
		return json.Marshal(map[string]any{"j": "b", "v": n.B})
	case "a":
		a := n.A
		if a == nil {
			a = []*chJ{}
		}
		return json.Marshal(map[string]any{"j": "a", "v": a})
	case "o":
		o := n.O
		if o == nil {
			o = []chJEnt{}
		}
		return json.Marshal(map[string]any{"j": "o", "v": o})
	}
	return json.Marshal(map[string]any{"j": "x"})
}

func (n *chJ) UnmarshalJSON(b []byte) error {
	var h struct {
		J string          `json:"j"`
		V json.RawMessage `json:"v"`
	}
	if err := json.Unmarshal(b, &h); err != nil {
		return err
	}
	n.J = h.J
	switch h.J {
	case "s":
		return json.Unmarshal(h.V, &n.S)
	case "b":
		return json.Unmarshal(h.V, &n.B)
	case "a":
		return json.Unmarshal(h.V, &n.A)
	case "o":
		return json.Unmarshal(h.V, &n.O)
	}
	return nil
}

// chJText concretises an abstract JSON tree as JSON text (string escaping by encoding/json).
func chJText(n *chJ, ws bool) string {
	var sb strings.Builder
	sep := func(s string) {
		sb.WriteString(s)
		if ws {
			sb.WriteString(" \n\t")
		}
	}
	var w func(n *chJ)
	w = func(n *chJ) {
		switch n.J {
		case "s":
			b, _ := json.Marshal(chStr(n.S))
			sb.Write(b)
		case "b":
			if n.B {
				sb.WriteString("true")
			} else {
				sb.WriteString("false")
			}
		case "a":
			sep("[")
			for i, x := range n.A {
				if i > 0 {
					sep(",")
				}
				w(x)
			}
			sep("]")
		case "o":
			sep("{")
			for i, e := range n.O {
				if i > 0 {
					sep(",")
				}
				b, _ := json.Marshal(chStr(e.K))
				sb.Write(b)
				sep(":")
				w(e.N)
			}
			sep("}")
		default:
			sb.WriteString("null")
		}
	}
	if ws {
		sb.WriteString("  ")
	}
	w(n)
	return sb.String()
}

// chJParse projects real JSON text to the abstract tree. Object members whose value is the literal null are
// dropped (an absent member and a null member are the same thing for the property); numbers and a null at any
// other position become the opaque node "x".
func chJParse(text []byte) (*chJ, bool) {
	dec := json.NewDecoder(bytes.NewReader(text))
	dec.UseNumber()
	var val func() (*chJ, bool, bool)
	val = func() (n *chJ, isNull bool, ok bool) {
		tok, err := dec.Token()
		if err != nil {
			return nil, false, false
		}
		switch t := tok.(type) {
		case json.Delim:
			switch t {
			case '{':
				n = &chJ{J: "o"}
				for dec.More() {
					kt, err := dec.Token()
					ks, isStr := kt.(string)
					if err != nil || !isStr {
						return nil, false, false
					}
					v, null, ok := val()
					if !ok {
						return nil, false, false
					}
					if !null {
						n.O = append(n.O, chJEnt{K: ints([]byte(ks)), N: v})
					}
				}
				if _, err := dec.Token(); err != nil {
					return nil, false, false
				}
				return n, false, true
			case '[':
				n = &chJ{J: "a"}
				for dec.More() {
					v, _, ok := val()
					if !ok {
						return nil, false, false
					}
					n.A = append(n.A, v)
				}
				if _, err := dec.Token(); err != nil {
					return nil, false, false
				}
				return n, false, true
			}
			return nil, false, false
		case string:
			return &chJ{J: "s", S: ints([]byte(t))}, false, true
		case bool:
			return &chJ{J: "b", B: t}, false, true
		case nil:
			return &chJ{J: "x"}, true, true
		default:
			return &chJ{J: "x"}, false, true
		}
	}
	n, _, ok := val()
	if !ok {
		return &chJ{J: "x"}, false
	}
	if _, err := dec.Token(); err != io.EOF {
		return &chJ{J: "x"}, false
	}
	return n, true
}

// ---------------------------------------------------------------- real calls -> events

func chDupPattern(fmtName string, b []byte) bool {
	if fmtName == "file" {
		return len(b) >= 6 && bytes.Equal(b[:6], []byte{0x0a, 0, 0, 0x0a, 0, 0})
	}
	return len(b) >= 4 && bytes.Equal(b[:4], []byte{0x0a, 0x0a, 0, 0})
}

type chEncEv struct {
	K        string  `json:"k"`
	Entry    string  `json:"entry"`
	Fmt      string  `json:"fmt"`
	Dup      bool    `json:"dup"`
	C        *chComp `json:"c"`
	Argkind  string  `json:"argkind"`
	Bytes    []int   `json:"bytes"`
	N        int     `json:"n"`
	Err      bool    `json:"err"`
	Panicked bool    `json:"panicked"`
	Msg      string  `json:"msg"`
}

func chEnc(c *chComp, argkind, entry string) chEncEv {
	ev := chEncEv{K: "enc", Entry: entry, Fmt: "network", C: c, Argkind: argkind, Bytes: []int{}}
	var out []byte
	var err error
	ev.Panicked, ev.Msg = catch(func() {
		m := chBuild(c, argkind)
		switch entry {
		case "field":
			var buf bytes.Buffer
			var n int64
			n, err = m.WriteTo(&buf)
			out, ev.N = buf.Bytes(), int(n)
		default: // "marshal": nbt.Marshal, file format with an empty root name
			ev.Fmt = "file"
			out, err = nbt.Marshal(m)
			ev.N = len(out)
		}
	})
	ev.Bytes = ints(out)
	if err != nil {
		ev.Err, ev.Msg = true, err.Error()
	}
	ev.Msg = vkTrunc(ev.Msg, 300)
	return ev
}

// chDedup walks an NBT document the way the format prescribes and removes every `0a 00 00` found where a
// compound ENTRY is expected (a compound-typed entry with an empty name: the duplicated header the root
// defect leaves behind; components have no empty key). Projection for diagnostic events only.
func chDedup(b []byte, p int, named bool) (clean []byte, end int, removed int, ok bool) {
	clean = append(clean, b[:p]...)
	take := func(n int) bool {
		if n < 0 || p+n > len(b) {
			return false
		}
		clean = append(clean, b[p:p+n]...)
		p += n
		return true
	}
	u16 := func() (int, bool) {
		if p+2 > len(b) {
			return 0, false
		}
		v := int(b[p])<<8 | int(b[p+1])
		return v, take(2)
	}
	u32 := func() (int, bool) {
		if p+4 > len(b) {
			return 0, false
		}
		v := int(b[p])<<24 | int(b[p+1])<<16 | int(b[p+2])<<8 | int(b[p+3])
		return v, take(4) && v >= 0 && v < 1<<24
	}
	var payload func(t byte, depth int) bool
	payload = func(t byte, depth int) bool {
		if depth > 64 {
			return false
		}
		switch t {
		case 1:
			return take(1)
		case 2:
			return take(2)
		case 3, 5:
			return take(4)
		case 4, 6:
			return take(8)
		case 7:
			l, ok := u32()
			return ok && take(l)
		case 8:
			l, ok := u16()
			return ok && take(l)
		case 9:
			if p >= len(b) {
				return false
			}
			et := b[p]
			take(1)
			l, ok := u32()
			if !ok {
				return false
			}
			for i := 0; i < l; i++ {
				if !payload(et, depth+1) {
					return false
				}
			}
			return true
		case 10:
			for {
				if p >= len(b) {
					return false
				}
				if b[p] == 0 {
					return take(1)
				}
				if b[p] == 0x0a && p+2 < len(b) && b[p+1] == 0 && b[p+2] == 0 {
					p += 3 // duplicated header: dropped
					removed++
					continue
				}
				tt := b[p]
				take(1)
				l, ok := u16()
				if !ok || !take(l) || !payload(tt, depth+1) {
					return false
				}
			}
		case 11, 12:
			l, ok := u32()
			w := 4
			if t == 12 {
				w = 8
			}
			return ok && take(l*w)
		}
		return false
	}
	if p >= len(b) {
		return nil, p, 0, false
	}
	t := b[p]
	take(1)
	if named {
		l, ok := u16()
		if !ok || !take(l) {
			return nil, p, 0, false
		}
	}
	if !payload(t, 0) {
		return nil, p, 0, false
	}
	return clean, p, removed, true
}

// chEncBoth returns the raw event and, when the output contains duplicated compound headers and is otherwise
// walkable, a diagnostic copy with those headers removed (dup = true)
func chEncBoth(c *chComp, argkind, entry string) []any {
	ev := chEnc(c, argkind, entry)
	out := []any{ev}
	if !ev.Err && !ev.Panicked && chDupPattern(ev.Fmt, bytesOf(ev.Bytes)) {
		raw := bytesOf(ev.Bytes)
		d := ev
		d.Dup = true
		if clean, end, removed, ok := chDedup(raw, 0, ev.Fmt == "file"); ok && removed > 0 && end == len(raw) {
			d.Bytes, d.N = ints(clean), len(clean)
		} else { // not walkable even so: drop the root duplicate only and let the specification look at the rest
			k := 1
			if ev.Fmt == "file" {
				k = 3
			}
			clean := append(append([]byte{}, raw[:k]...), raw[k+3:]...)
			d.Bytes, d.N = ints(clean), len(clean)
		}
		out = append(out, d)
	}
	return out
}

type chDecEv struct {
	K        string  `json:"k"`
	Entry    string  `json:"entry"`
	Fmt      string  `json:"fmt"`
	Bytes    []int   `json:"bytes"`
	Ok       bool    `json:"ok"`
	N        int     `json:"n"`
	Back     *chComp `json:"back"`
	Panicked bool    `json:"panicked"`
	Alt      string  `json:"alt"`
	Msg      string  `json:"msg"`
}

func chDec(entry, fmtName string, in []byte, alt string) chDecEv {
	ev := chDecEv{K: "dec", Entry: entry, Fmt: fmtName, Bytes: ints(in), Alt: alt}
	var err error
	var m chat.Message
	done := make(chan struct{})
	go func() {
		defer close(done)
		ev.Panicked, ev.Msg = catch(func() {
			br := bytes.NewReader(in)
			if entry == "field" {
				var n int64
				n, err = m.ReadFrom(br)
				ev.N = int(n)
				if err == nil {
					// the same field followed by more of the packet, through a plain io.Reader in short pieces: the
					// count it reports is what it takes from the stream, no more
					fed := append(append([]byte{}, in...), 0x01, 0xff, 0x00, 0x7f)
					br2 := bytes.NewReader(fed)
					var m2 chat.Message
					n2, err2 := m2.ReadFrom(&plainReader{r: br2})
					if used := len(fed) - br2.Len(); err2 != nil || used != int(n2) || n2 != n {
						ev.N = 1<<20 + used // reported and consumed disagree (or the plain reader changed the outcome)
					}
				}
			} else {
				d := nbt.NewDecoder(br)
				d.NetworkFormat(fmtName == "network")
				_, err = d.Decode(&m)
				ev.N = len(in) - br.Len()
			}
		})
	}()
	select {
	case <-done:
	case <-time.After(30 * time.Second):
		ev.Panicked, ev.Msg = true, "decoder did not return within 30 s"
		ev.Back = (&chComp{}).norm()
		return ev
	}
	ev.Ok = err == nil && !ev.Panicked
	if err != nil {
		ev.Msg = err.Error()
	}
	ev.Msg = vkTrunc(ev.Msg, 300)
	if ev.Ok {
		ev.Back = chProject(m)
	} else {
		ev.Back = (&chComp{}).norm()
	}
	return ev
}

type chRtEv struct {
	K        string  `json:"k"`
	Entry    string  `json:"entry"`
	C        *chComp `json:"c"`
	Argkind  string  `json:"argkind"`
	Ok       bool    `json:"ok"`
	Back     *chComp `json:"back"`
	Panicked bool    `json:"panicked"`
	Stage    string  `json:"stage"`
	DupHdr   bool    `json:"duphdr"`
	Msg      string  `json:"msg"`
}

func chRt(c *chComp, argkind, entry string) chRtEv {
	ev := chRtEv{K: "rt", Entry: entry, C: c, Argkind: argkind, Stage: "ok", Back: (&chComp{}).norm()}
	var back chat.Message
	ev.Panicked, ev.Msg = catch(func() {
		m := chBuild(c, argkind)
		var out []byte
		var err error
		if entry == "field" {
			var buf bytes.Buffer
			_, err = m.WriteTo(&buf)
			out = buf.Bytes()
			ev.DupHdr = chDupPattern("network", out)
		} else {
			out, err = nbt.Marshal(m)
			ev.DupHdr = chDupPattern("file", out)
		}
		if err != nil {
			ev.Stage, ev.Msg = "encode-error", err.Error()
			return
		}
		if entry == "field" {
			_, err = back.ReadFrom(bytes.NewReader(out))
		} else {
			err = nbt.Unmarshal(out, &back)
		}
		if err != nil {
			ev.Stage, ev.Msg = "decode-error", err.Error()
			return
		}
		ev.Ok = true
	})
	if ev.Panicked {
		ev.Stage, ev.Ok = "panic", false
	}
	if ev.Ok {
		ev.Back = chProject(back)
	}
	ev.Msg = vkTrunc(ev.Msg, 300)
	return ev
}

type chJEncEv struct {
	K        string  `json:"k"`
	Entry    string  `json:"entry"`
	C        *chComp `json:"c"`
	Argkind  string  `json:"argkind"`
	Jtree    *chJ    `json:"jtree"`
	Parsed   bool    `json:"parsed"`
	Err      bool    `json:"err"`
	Panicked bool    `json:"panicked"`
	Msg      string  `json:"msg"`
}

// chVarIntPrefix reads a VarInt length prefix (projection of the packet String field around the JSON text)
func chVarIntPrefix(b []byte) (v, n int, ok bool) {
	for i := 0; i < 5 && i < len(b); i++ {
		v |= int(b[i]&0x7f) << (7 * uint(i))
		if b[i] < 0x80 {
			return v, i + 1, true
		}
	}
	return 0, 0, false
}

func chVarInt(v int) []byte {
	var out []byte
	u := uint32(v)
	for {
		b := byte(u & 0x7f)
		u >>= 7
		if u != 0 {
			out = append(out, b|0x80)
		} else {
			return append(out, b)
		}
	}
}

func chJEnc(c *chComp, argkind, entry string) chJEncEv {
	ev := chJEncEv{K: "jenc", Entry: entry, C: c, Argkind: argkind, Jtree: &chJ{J: "x"}}
	var text []byte
	var err error
	framed := true
	ev.Panicked, ev.Msg = catch(func() {
		m := chBuild(c, argkind)
		if entry == "field" {
			var buf bytes.Buffer
			var n int64
			n, err = chat.JsonMessage(m).WriteTo(&buf)
			b := buf.Bytes()
			l, k, ok := chVarIntPrefix(b)
			framed = ok && k+l == len(b) && int(n) == len(b)
			if ok && k+l <= len(b) {
				text = b[k:]
			}
		} else {
			text, err = json.Marshal(m)
		}
	})
	if err != nil {
		ev.Err, ev.Msg = true, err.Error()
	}
	if !ev.Panicked && !ev.Err {
		ev.Jtree, ev.Parsed = chJParse(text)
		ev.Parsed = ev.Parsed && framed
		ev.Msg = vkTrunc(string(text), 400)
	}
	return ev
}

type chJDecEv struct {
	K        string  `json:"k"`
	Entry    string  `json:"entry"`
	Jtree    *chJ    `json:"jtree"`
	Ws       bool    `json:"ws"`
	Ok       bool    `json:"ok"`
	Back     *chComp `json:"back"`
	Panicked bool    `json:"panicked"`
	Alt      string  `json:"alt"`
	Msg      string  `json:"msg"`
}

func chJDec(entry string, tree *chJ, ws bool, alt string) chJDecEv {
	ev := chJDecEv{K: "jdec", Entry: entry, Jtree: tree, Ws: ws, Alt: alt, Back: (&chComp{}).norm()}
	text := []byte(chJText(tree, ws))
	var m chat.Message
	var err error
	ev.Panicked, ev.Msg = catch(func() {
		if entry == "field" {
			in := append(chVarInt(len(text)), text...)
			in = append(in, 0x7b, 0x22) // whatever follows in the packet
			var n int64
			n, err = (*chat.JsonMessage)(&m).ReadFrom(bytes.NewReader(in))
			if err == nil && int(n) != len(in)-2 {
				err = fmt.Errorf("harness: JsonMessage.ReadFrom reported %d bytes, the field spans %d", n, len(in)-2)
			}
		} else {
			err = json.Unmarshal(text, &m)
		}
	})
	ev.Ok = err == nil && !ev.Panicked
	if err != nil {
		ev.Msg = err.Error()
	}
	if ev.Ok {
		ev.Back = chProject(m)
	}
	ev.Msg = vkTrunc(ev.Msg, 300)
	return ev
}

type chJRtEv struct {
	K        string  `json:"k"`
	C        *chComp `json:"c"`
	Argkind  string  `json:"argkind"`
	Ok       bool    `json:"ok"`
	Back     *chComp `json:"back"`
	Panicked bool    `json:"panicked"`
	Msg      string  `json:"msg"`
}

func chJRt(c *chComp, argkind string) chJRtEv {
	ev := chJRtEv{K: "jrt", C: c, Argkind: argkind, Back: (&chComp{}).norm()}
	var back chat.Message
	ev.Panicked, ev.Msg = catch(func() {
		var buf bytes.Buffer
		if _, err := chat.JsonMessage(chBuild(c, argkind)).WriteTo(&buf); err != nil {
			ev.Msg = err.Error()
			return
		}
		if _, err := (*chat.JsonMessage)(&back).ReadFrom(&buf); err != nil {
			ev.Msg = err.Error()
			return
		}
		ev.Ok = true
	})
	if ev.Ok && !ev.Panicked {
		ev.Back = chProject(back)
	} else {
		ev.Ok = false
	}
	ev.Msg = vkTrunc(ev.Msg, 300)
	return ev
}

type chAgreeEv struct {
	K     string  `json:"k"`
	Nin   []int   `json:"nin"`
	Jin   *chJ    `json:"jin"`
	Nok   bool    `json:"nok"`
	Nback *chComp `json:"nback"`
	Jok   bool    `json:"jok"`
	Jback *chComp `json:"jback"`
}

func chAgree(nin []byte, jin *chJ) chAgreeEv {
	d := chDec("field", "network", nin, "agree")
	j := chJDec("unmarshal", jin, false, "agree")
	return chAgreeEv{K: "agree", Nin: ints(nin), Jin: jin, Nok: d.Ok, Nback: d.Back, Jok: j.Ok, Jback: j.Back}
}

type chTEncEv struct {
	K        string `json:"k"`
	Hd       *chHdr `json:"hd"`
	Dup      bool   `json:"dup"`
	Bytes    []int  `json:"bytes"`
	N        int    `json:"n"`
	Err      bool   `json:"err"`
	Panicked bool   `json:"panicked"`
	Msg      string `json:"msg"`
}

func chHdrDupPattern(b []byte) bool {
	_, k, ok := chVarIntPrefix(b)
	return ok && chDupPattern("network", b[k:])
}

func chTEnc(h *chHdr) []any {
	ev := chTEncEv{K: "tenc", Hd: h, Bytes: []int{}}
	var buf bytes.Buffer
	var err error
	ev.Panicked, ev.Msg = catch(func() {
		var n int64
		n, err = chBuildHdr(h).WriteTo(&buf)
		ev.N = int(n)
	})
	ev.Bytes = ints(buf.Bytes())
	if err != nil {
		ev.Err, ev.Msg = true, err.Error()
	}
	out := []any{ev}
	if raw := buf.Bytes(); !ev.Err && !ev.Panicked && chHdrDupPattern(raw) {
		// diagnostic copy: duplicated headers removed from the sender document and, if something that walks like a
		// document follows the flag byte, from that too; whatever else is there is kept as it is
		_, k, _ := chVarIntPrefix(raw)
		clean, end, removed, ok := chDedup(raw, k, false)
		if !ok { // not walkable: drop the first duplicate only
			clean, end, removed = append(append([]byte{}, raw[:k+1]...), raw[k+4:]...), len(raw), 1
		}
		if end < len(raw) {
			clean = append(clean, raw[end])
			rest := append(append([]byte{}, clean...), raw[end+1:]...)
			if c2, e2, r2, ok2 := chDedup(rest, len(clean), false); ok2 && len(rest) > len(clean) {
				clean, removed = append(c2, rest[e2:]...), removed+r2
			} else {
				clean = rest
			}
		}
		if removed > 0 {
			d := ev
			d.Dup, d.Bytes, d.N = true, ints(clean), len(clean)
			out = append(out, d)
		}
	}
	return out
}

type chTDecEv struct {
	K        string  `json:"k"`
	Bytes    []int   `json:"bytes"`
	Ok       bool    `json:"ok"`
	N        int     `json:"n"`
	ID       int     `json:"id"`
	Sender   *chComp `json:"sender"`
	Has      bool    `json:"has"`
	Target   *chComp `json:"target"`
	Panicked bool    `json:"panicked"`
	WantHas  bool    `json:"wanthas"` // what the generator put in (signature class only)
	Msg      string  `json:"msg"`
}

func chTDec(in []byte, wantHas bool) chTDecEv {
	ev := chTDecEv{K: "tdec", Bytes: ints(in), WantHas: wantHas, Sender: (&chComp{}).norm(), Target: (&chComp{}).norm()}
	var t chat.Type
	var err error
	ev.Panicked, ev.Msg = catch(func() {
		var n int64
		n, err = t.ReadFrom(bytes.NewReader(in))
		ev.N = int(n)
	})
	ev.Ok = err == nil && !ev.Panicked
	if err != nil {
		ev.Msg = err.Error()
	}
	if ev.Ok {
		ev.ID = int(t.ID)
		ev.Sender = chProject(t.SenderName)
		if t.TargetName != nil {
			ev.Has, ev.Target = true, chProject(*t.TargetName)
		}
	}
	return ev
}

type chTRtEv struct {
	K        string `json:"k"`
	Hd       *chHdr `json:"hd"`
	Ok       bool   `json:"ok"`
	Back     *chHdr `json:"back"`
	Panicked bool   `json:"panicked"`
	Stage    string `json:"stage"`
	DupHdr   bool   `json:"duphdr"`
	Msg      string `json:"msg"`
}

func chTRt(h *chHdr) chTRtEv {
	ev := chTRtEv{K: "trt", Hd: h, Stage: "ok", Back: (&chHdr{}).norm()}
	var back chat.Type
	ev.Panicked, ev.Msg = catch(func() {
		var buf bytes.Buffer
		if _, err := chBuildHdr(h).WriteTo(&buf); err != nil {
			ev.Stage, ev.Msg = "encode-error", err.Error()
			return
		}
		ev.DupHdr = chHdrDupPattern(buf.Bytes())
		if _, err := back.ReadFrom(&buf); err != nil {
			ev.Stage, ev.Msg = "decode-error", err.Error()
			return
		}
		ev.Ok = true
	})
	if ev.Panicked {
		ev.Stage, ev.Ok = "panic", false
	}
	if ev.Ok {
		ev.Back = chProjectHdr(&back)
	}
	return ev
}

type chRenderEv struct {
	K       string  `json:"k"`
	C       *chComp `json:"c"`
	Argkind string  `json:"argkind"`
	Plain   []int   `json:"plain"`
	Ansi    []int   `json:"ansi"`
	Ppanic  bool    `json:"ppanic"`
	Apanic  bool    `json:"apanic"`
	Msg     string  `json:"msg"`
}

var chCSI = regexp.MustCompile("\x1b\\[[0-9;]*m")

func chRender(c *chComp, argkind string) chRenderEv {
	ev := chRenderEv{K: "render", C: c, Argkind: argkind, Plain: []int{}, Ansi: []int{}}
	m := chBuild(c, argkind)
	var msg1, msg2 string
	if chRenderCount++; chRenderCount%3 == 0 && chLangDecoy != nil {
		// the language was another one a moment ago: the same component was rendered under a decoy table, then the
		// table of the specification was installed again - what is rendered now is rendered under the table that is
		// installed NOW (nothing remembered from the earlier one may show)
		chat.SetLanguage(chLangDecoy)
		catch(func() { _ = m.ClearString(); _ = m.String() })
		chat.SetLanguage(chLangReal)
	}
	ev.Ppanic, msg1 = catch(func() { ev.Plain = ints([]byte(m.ClearString())) })
	ev.Apanic, msg2 = catch(func() { ev.Ansi = ints([]byte(chCSI.ReplaceAllString(m.String(), ""))) })
	ev.Msg = vkTrunc(msg1+msg2, 300)
	return ev
}

// ---------------------------------------------------------------- language table (from the specification)

type chLangEnt struct {
	Key []int `json:"key"`
	Tpl []struct {
		Lit []int `json:"lit"`
		Arg int   `json:"arg"`
	} `json:"tpl"`
}

func chSetLang(lang []chLangEnt) {
	m := map[string]string{}
	for _, e := range lang {
		inOrder, next := true, 1
		for _, p := range e.Tpl {
			if p.Arg != 0 {
				if p.Arg != next {
					inOrder = false
				}
				next++
			}
		}
		var sb strings.Builder
		for _, p := range e.Tpl {
			switch {
			case p.Arg == 0:
				sb.WriteString(strings.ReplaceAll(chStr(p.Lit), "%", "%%"))
			case inOrder:
				sb.WriteString("%s")
			default:
				fmt.Fprintf(&sb, "%%[%d]s", p.Arg)
			}
		}
		m[chStr(e.Key)] = sb.String()
	}
	chat.SetLanguage(m)
	chLangReal = m
	// a decoy table: the same keys with other texts (what another language is) plus keys the real table does not have
	chLangDecoy = map[string]string{"zz": "decoy %s", "no.such.key": "decoy"}
	for k, f := range m {
		chLangDecoy[k] = "<" + strings.ToUpper(f) + ">"
	}
	chLangKeys = map[string]int{}
	for _, e := range lang {
		n := 0
		for _, p := range e.Tpl {
			if p.Arg > n {
				n = p.Arg
			}
		}
		chLangKeys[chStr(e.Key)] = n
	}
}

var chLangKeys map[string]int
var chLangTable []chLangEnt
var chLangReal, chLangDecoy map[string]string
var chRenderCount int

// ---------------------------------------------------------------- signatures

var chCodeRe = regexp.MustCompile(`(?i)§[0-9a-fk-or]`)

func (c *chComp) walk(f func(c *chComp, inList bool), inList bool) {
	f(c, inList)
	for _, h := range c.Hover {
		h.Value.walk(f, false)
	}
	for _, a := range c.With {
		a.walk(f, true)
	}
	for _, e := range c.Extra {
		e.walk(f, true)
	}
}

// chClass names the one feature of a component that matters most for known findings (fixed priority)
func chClass(c *chComp, argkind, domain string) string {
	tr := map[string]bool{}
	c.walk(func(x *chComp, inList bool) {
		for _, h := range x.Hover {
			if len(h.Contents) == 0 {
				tr["hover-without-contents"] = true
			}
		}
		if inList && len(x.Translate) > 0 && len(x.Text) == 0 {
			tr["translate-shape-inside-list"] = true
		}
		if len(x.With) > 0 {
			nb := 0
			for _, a := range x.With {
				if a.bare() {
					nb++
				}
			}
			strs := argkind == "mixed" && nb > 0 || argkind == "str" && nb == len(x.With)
			if argkind == "mixed" && nb > 0 && nb < len(x.With) {
				tr["args-mixed"] = true
			} else if strs {
				tr["args-strings"] = true
			}
			if strs {
				for _, a := range x.With {
					if a.bare() && chCodeRe.MatchString(chStr(a.Text)) {
						tr["string-arg-with-code"] = true
					}
				}
			}
			if _, known := chLangKeys[chStr(x.Translate)]; !known && len(x.Translate) > 0 {
				tr["unknown-key-with-args"] = true
			}
		}
		for _, m := range chCodeRe.FindAllString(chStr(x.Text), -1) {
			l := m[len(m)-1]
			switch {
			case l == 'k' || l == 'K':
				tr["code-k"] = true
			case l >= 'A' && l <= 'Z':
				tr["code-uppercase"] = true
			}
		}
	}, false)
	var order []string
	switch domain {
	case "nbt":
		order = []string{"hover-without-contents", "args-mixed", "translate-shape-inside-list", "args-strings"}
	case "json":
		order = []string{"args-mixed", "args-strings"}
	case "render":
		order = []string{"unknown-key-with-args", "string-arg-with-code", "code-k", "code-uppercase"}
	}
	for _, t := range order {
		if tr[t] {
			return t
		}
	}
	return "plain"
}

func chHdrClass(h *chHdr) string {
	if h == nil {
		return "?"
	}
	// one class for the pair: the sender's and the target's features together
	both := &chComp{Extra: append([]*chComp{h.Sender}, h.Target...)}
	cl := chClass(both.norm(), "msg", "nbt")
	if cl == "translate-shape-inside-list" { // being listed in the synthetic pair does not count
		a := chClass(h.Sender, "msg", "nbt")
		if a == "plain" && len(h.Target) > 0 {
			a = chClass(h.Target[0], "msg", "nbt")
		}
		return a
	}
	return cl
}

type chAnyEv struct {
	K        string  `json:"k"`
	Entry    string  `json:"entry"`
	Fmt      string  `json:"fmt"`
	Dup      bool    `json:"dup"`
	C        *chComp `json:"c"`
	Argkind  string  `json:"argkind"`
	Bytes    []int   `json:"bytes"`
	Err      bool    `json:"err"`
	Panicked bool    `json:"panicked"`
	Ok       bool    `json:"ok"`
	Parsed   bool    `json:"parsed"`
	Stage    string  `json:"stage"`
	DupHdr   bool    `json:"duphdr"`
	Alt      string  `json:"alt"`
	Hd       *chHdr  `json:"hd"`
	WantHas  bool    `json:"wanthas"`
	Ppanic   bool    `json:"ppanic"`
	Apanic   bool    `json:"apanic"`
	Nok      bool    `json:"nok"`
	Jok      bool    `json:"jok"`
	Jtree    *chJ    `json:"jtree"`
	Ws       bool    `json:"ws"`
	Nin      []int   `json:"nin"`
	Jin      *chJ    `json:"jin"`
}

const chDupText = "root compound header written twice (0a 0a 00 00 ...)"

// chSig: entry point + component class + violated rule + outcome; no concrete values
func chSig(raw []byte, inv string) string {
	var e chAnyEv
	json.Unmarshal(raw, &e)
	dupSfx := ""
	if e.Dup {
		dupSfx = "~dedup"
	}
	switch e.K {
	case "enc":
		if !e.Dup && inv == "EncOneDoc" && chDupPattern(e.Fmt, bytesOf(e.Bytes)) {
			return fmt.Sprintf("chat nbt encode entry=%s %s: %s", e.Entry, inv, chDupText)
		}
		cl := chClass(e.C, e.Argkind, "nbt")
		if cl == "args-mixed" && !e.Err && !e.Panicked { // what the bytes happen to parse as depends on the strings: one class
			return fmt.Sprintf("chat nbt encode entry=%s class=args-mixed: a heterogeneous argument list is not written as a well-formed list of components", e.Entry)
		}
		return fmt.Sprintf("chat nbt encode entry=%s%s %s class=%s err=%v panicked=%v", e.Entry, dupSfx, inv, cl, e.Err, e.Panicked)
	case "dec":
		return fmt.Sprintf("chat nbt decode entry=%s %s input=%s ok=%v panicked=%v", e.Entry, inv, e.Alt, e.Ok, e.Panicked)
	case "rt":
		if e.DupHdr && e.Stage == "decode-error" {
			return fmt.Sprintf("chat nbt round trip entry=%s %s: own output is not read back, %s", e.Entry, inv, chDupText)
		}
		if cl := chClass(e.C, e.Argkind, "nbt"); cl == "args-mixed" && e.Stage != "panic" {
			return fmt.Sprintf("chat nbt round trip entry=%s class=args-mixed: a heterogeneous argument list does not survive", e.Entry)
		}
		return fmt.Sprintf("chat nbt round trip entry=%s %s class=%s stage=%s", e.Entry, inv, chClass(e.C, e.Argkind, "nbt"), e.Stage)
	case "jenc":
		return fmt.Sprintf("chat json encode entry=%s %s class=%s err=%v panicked=%v parsed=%v", e.Entry, inv, chClass(e.C, e.Argkind, "json"), e.Err, e.Panicked, e.Parsed)
	case "jdec":
		return fmt.Sprintf("chat json decode entry=%s %s input=%s ok=%v panicked=%v", e.Entry, inv, e.Alt, e.Ok, e.Panicked)
	case "jrt":
		return fmt.Sprintf("chat json round trip %s class=%s ok=%v panicked=%v", inv, chClass(e.C, e.Argkind, "json"), e.Ok, e.Panicked)
	case "agree":
		return fmt.Sprintf("chat forms disagree %s nbt-ok=%v json-ok=%v", inv, e.Nok, e.Jok)
	case "tenc":
		if !e.Dup && !e.Err && !e.Panicked && chHdrDupPattern(bytesOf(e.Bytes)) {
			return fmt.Sprintf("chat type WriteTo %s: %s", inv, chDupText)
		}
		return fmt.Sprintf("chat type WriteTo%s %s target=%v class=%s err=%v panicked=%v", dupSfx, inv, e.Hd != nil && len(e.Hd.Target) > 0, chHdrClass(e.Hd), e.Err, e.Panicked)
	case "tdec":
		return fmt.Sprintf("chat type ReadFrom %s target=%v ok=%v panicked=%v", inv, e.WantHas, e.Ok, e.Panicked)
	case "trt":
		if e.DupHdr && e.Stage == "decode-error" {
			return fmt.Sprintf("chat type round trip %s: own output is not read back, %s", inv, chDupText)
		}
		return fmt.Sprintf("chat type round trip %s target=%v class=%s stage=%s", inv, e.Hd != nil && len(e.Hd.Target) > 0, chHdrClass(e.Hd), e.Stage)
	case "render":
		return fmt.Sprintf("chat render %s class=%s plain-panicked=%v ansi-panicked=%v", inv, chClass(e.C, e.Argkind, "render"), e.Ppanic, e.Apanic)
	}
	return "chat ? " + inv
}

// chRerun re-executes the real call a recorded line describes
func chRerun(raw []byte) any {
	var e chAnyEv
	json.Unmarshal(raw, &e)
	e.C = e.C.norm()
	switch e.K {
	case "enc":
		evs := chEncBoth(e.C, e.Argkind, e.Entry)
		if e.Dup && len(evs) > 1 {
			return evs[1]
		}
		return evs[0]
	case "dec":
		return chDec(e.Entry, e.Fmt, bytesOf(e.Bytes), e.Alt)
	case "rt":
		return chRt(e.C, e.Argkind, e.Entry)
	case "jenc":
		return chJEnc(e.C, e.Argkind, e.Entry)
	case "jdec":
		return chJDec(e.Entry, e.Jtree, e.Ws, e.Alt)
	case "jrt":
		return chJRt(e.C, e.Argkind)
	case "agree":
		return chAgree(bytesOf(e.Nin), e.Jin)
	case "tenc":
		evs := chTEnc(e.Hd.norm())
		if e.Dup && len(evs) > 1 {
			return evs[1]
		}
		return evs[0]
	case "tdec":
		return chTDec(bytesOf(e.Bytes), e.WantHas)
	case "trt":
		return chTRt(e.Hd.norm())
	case "render":
		return chRender(e.C, e.Argkind)
	}
	return map[string]any{"k": "?"}
}

// ---------------------------------------------------------------- judge

type chRep struct {
	line []byte
	inv  string
	l    int
}

func chTraceRun(label string, workers int, noCount bool) vk.TLCRun {
	return vk.TLCRun{Name: label, Module: "Chat_Trace", Cfg: "Chat_Trace.cfg", Workers: workers, Timeout: 30 * time.Minute, Heap: "10g", Continue: true, NoCount: noCount}
}

// chRejudge re-executes one representative line per signature, validates them in ONE TLC run and reports those
// whose rule is violated again.
func chRejudge(env *vk.Env, label string, reps []chRep) {
	if len(reps) == 0 {
		return
	}
	tr := &vk.Trace{}
	var fresh [][]byte
	for _, r := range reps {
		ev := chRerun(r.line)
		tr.Add(ev)
		b, _ := json.Marshal(ev)
		fresh = append(fresh, b)
	}
	v, err := env.ValidateTrace(chTraceRun(label+" (re-executed rejected calls)", 4, true), "trace.ndjson", tr.Bytes())
	if err != nil {
		env.Infra("%s: rejudge: %v", label, err)
		return
	}
	if !v.Accepted && v.Res.Violated == "" {
		env.Infra("%s: rejudge gave no verdict:\n%s", label, v.Res.Output)
		return
	}
	again := map[string]bool{}
	for _, vl := range v.Res.Lines {
		again[fmt.Sprintf("%d/%s", vl.L, vl.Inv)] = true
	}
	for i, r := range reps {
		if !again[fmt.Sprintf("%d/%s", i+1, r.inv)] {
			env.Infra("%s: rejection of line %d (%s) did not reproduce: %s", label, r.l, r.inv, vkTrunc(string(r.line), 300))
			continue
		}
		sig := chSig(fresh[i], r.inv)
		env.Report(sig, r.inv+" violated by recorded call: "+vkTrunc(string(fresh[i]), 1200),
			map[string]any{"kind": "line", "inv": r.inv, "line": json.RawMessage(fresh[i]), "lang": chLangTable})
	}
}

func chJudge(env *vk.Env, tr *vk.Trace, label string) {
	if tr.N == 0 {
		return
	}
	v, err := env.ValidateTrace(chTraceRun(label, 8, false), "trace.ndjson", tr.Bytes())
	if err != nil {
		env.Infra("%s: %v", label, err)
		return
	}
	env.Sub(map[string]any{"run": label, "events": tr.N, "accepted": v.Accepted, "rejected_line_rule_pairs": len(v.Res.Lines)})
	if !v.Accepted && v.Res.Violated == "" {
		env.Infra("%s: no verdict:\n%s", label, v.Res.Output)
		return
	}
	bad := map[int]bool{}
	for _, vl := range v.Res.Lines {
		bad[vl.L] = true
	}
	env.AddTraces(int64(tr.N - len(bad)))
	env.AddEval(int64(tr.N))
	if v.Accepted {
		return
	}
	if len(v.Res.Lines) == 0 {
		env.Infra("%s: rejected but no line identified:\n%s", label, v.Res.Output)
		return
	}
	lines := bytes.Split(bytes.TrimSpace(tr.Bytes()), []byte("\n"))
	seen := map[string]bool{}
	var reps []chRep
	for _, vl := range v.Res.Lines {
		if vl.L < 1 || vl.L > len(lines) {
			continue
		}
		sig := chSig(lines[vl.L-1], vl.Inv)
		if seen[sig] {
			continue
		}
		seen[sig] = true
		if len(reps) < 80 {
			reps = append(reps, chRep{lines[vl.L-1], vl.Inv, vl.L})
		}
	}
	chRejudge(env, label, reps)
}

func replayC17(env *vk.Env, b []byte) {
	var f struct {
		Replay struct {
			Inv  string          `json:"inv"`
			Line json.RawMessage `json:"line"`
			Lang []chLangEnt     `json:"lang"`
		} `json:"replay"`
	}
	if err := json.Unmarshal(b, &f); err != nil || len(f.Replay.Line) == 0 {
		env.Infra("replay file not understood: %v", err)
		return
	}
	chLangTable = f.Replay.Lang
	chSetLang(chLangTable)
	env.Cov.States, env.Cov.Transitions = 1, 1
	env.Sample("replayed line")
	chRejudge(env, "replay", []chRep{{f.Replay.Line, f.Replay.Inv, 1}})
}

// ---------------------------------------------------------------- leg A: TLC vectors

type chVec struct {
	Kind  string      `json:"kind"`
	C     *chComp     `json:"c"`
	Alt   string      `json:"alt"`
	NBT   *nbtNode    `json:"nbt"`
	JSON  *chJ        `json:"json"`
	Plain []int       `json:"plain"`
	Hd    *chHdr      `json:"hd"`
	Bytes []int       `json:"bytes"`
	Lang  []chLangEnt `json:"lang"`
}

var chJunk = []byte{0x0a, 0x00, 0x09}

// chArgkinds: the argument representations that make a difference for this component
func chArgkinds(c *chComp) []string {
	out := []string{"msg"}
	if chClassHas(c, "str") {
		out = append(out, "str")
	}
	if chClassHas(c, "mixed") {
		out = append(out, "mixed")
	}
	return out
}

func chClassHas(c *chComp, argkind string) bool {
	found := false
	c.walk(func(x *chComp, _ bool) {
		nb := 0
		for _, a := range x.With {
			if a.bare() {
				nb++
			}
		}
		if argkind == "str" && nb > 0 && nb == len(x.With) {
			found = true
		}
		if argkind == "mixed" && nb > 0 && nb < len(x.With) {
			found = true
		}
	}, false)
	return found
}

// chBattery records every real call for one component given the input forms (tree -> bytes, JSON tree)
func chBattery(tr *vk.Trace, c *chComp, nin *nbtNode, jin *chJ, alt string, ws bool) {
	add := func(evs ...any) {
		for _, e := range evs {
			tr.Add(e)
		}
	}
	netIn := append(nbtDocBytes("network", nil, nin), chJunk...)
	add(chDec("field", "network", netIn, alt))
	add(chDec("unmarshal", "file", append(nbtDocBytes("file", nil, nin), chJunk...), alt))
	add(chJDec("unmarshal", jin, ws, alt))
	add(chJDec("field", jin, !ws, alt))
	add(chAgree(netIn, jin))
	if alt != "canon" && alt != "random" {
		return
	}
	for _, ak := range chArgkinds(c) {
		encs := chEncBoth(c, ak, "field")
		add(encs...)
		if d, ok := encs[len(encs)-1].(chEncEv); ok && !d.Err && !d.Panicked && ak != "mixed" {
			// the real decoder on the real encoder's output (duplicated headers removed if there were any)
			add(chDec("field", "network", append(bytesOf(d.Bytes), chJunk...), "own-output"))
		}
		add(chEncBoth(c, ak, "marshal")...)
		add(chRt(c, ak, "field"))
		add(chJEnc(c, ak, "marshal"))
		add(chJEnc(c, ak, "field"))
		add(chJRt(c, ak))
		add(chRender(c, ak))
	}
}

func chHdrBattery(tr *vk.Trace, h *chHdr, in []byte) {
	for _, e := range chTEnc(h) {
		tr.Add(e)
	}
	tr.Add(chTDec(append(append([]byte{}, in...), chJunk...), len(h.Target) > 0))
	tr.Add(chTRt(h))
}

func runC17(env *vk.Env) {
	env.Cov.Rule = "S: TLC checks Chat.tla against itself on a generated universe of components (each of the 13 fields alone and pairwise, all fields at once, strings over {empty, plain, quote+backslash, section sign + colour/style/obfuscated/upper-case code, section sign + non-code, percent}, translation keys known/unknown with 0..5 arguments incl. explicit indices and numeric arguments, nested to Depth 2 quick / 3 thorough) x accepted input shapes (compound, bare string, list, lists of strings, typed-array arguments, reordered keys) and chat-type headers (7 ids x 6 senders x with/without 6 targets): FromNBT(ToNBT(c)) = c, FromJSON(ToJSON(c)) = c, both agree, the encoded bytes are one document for the independent reader NBT!DecDoc, every input shape reads as c, header bytes read back and no strict prefix does, plain text has no formatting code left. A: every TLC state is a vector run through the real chat package (Message.WriteTo/ReadFrom, nbt.Marshal/Decoder, json.Marshal/Unmarshal, JsonMessage.WriteTo/ReadFrom, Type.WriteTo/ReadFrom, ClearString/String). B: seeded random components (deeper nesting, random UTF-8 strings, shuffled keys). Every recorded call is judged by Chat_Trace in TLC. Distinct/non-trivial = distinct (event kind, entry point, input shape or component class) combinations."
	env.Assume = []string{
		"strings are valid UTF-8 (JSON cannot carry anything else); NBT string bytes are opaque",
		"HoverEvent.Contents is generated as absent or a string only (the field is documented as not handled yet)",
		"a JSON object member with value null is the same as an absent member",
		"rendering is decided only when every known translation key gets exactly as many arguments as it has %s slots; an unknown key may render as the key or as nothing",
		"verbs other than %s / %[n]s in translation strings and the choice of ANSI colours are not decided",
		"unknown keys, duplicate keys and wrongly typed values in component compounds are not generated (FromNBT/FromJSON = Err means the specification is silent)",
	}
	cfg := "Chat_MC.cfg"
	if !env.Quick() {
		cfg = "Chat_MC_thorough.cfg"
	}
	res := env.MustSpec(vk.TLCRun{Name: "S+A Chat universe", Module: "Chat", Cfg: cfg, Workers: 8, Timeout: 20 * time.Minute})
	if res == nil {
		return
	}
	var comps, hdrs []chVec
	for _, s := range res.Printed {
		var v chVec
		if err := json.Unmarshal([]byte(s), &v); err != nil {
			env.Infra("bad vector: %v: %s", err, vkTrunc(s, 200))
			return
		}
		switch v.Kind {
		case "lang":
			chLangTable = v.Lang
		case "comp":
			v.C = v.C.norm()
			comps = append(comps, v)
		case "hdr":
			v.Hd = v.Hd.norm()
			hdrs = append(hdrs, v)
		}
	}
	if len(chLangTable) == 0 || len(comps) < 300 || len(hdrs) < 50 {
		env.Infra("vectors missing: lang=%d comps=%d hdrs=%d", len(chLangTable), len(comps), len(hdrs))
		return
	}
	chSetLang(chLangTable)
	env.Cov.Exhaustive = true

	tr := &vk.Trace{}
	for i, v := range comps {
		chBattery(tr, v.C, v.NBT, v.JSON, v.Alt, i%2 == 0)
		env.Distinct("vector/" + v.Alt + "/" + chClass(v.C, "msg", "nbt") + "/" + chClass(v.C, "msg", "render"))
		if i%120 == 7 {
			env.Sample(map[string]any{"alt": v.Alt, "json": chJText(v.JSON, false), "plain": chStr(v.Plain)})
		}
	}
	for _, v := range hdrs {
		chHdrBattery(tr, v.Hd, bytesOf(v.Bytes))
		env.Distinct(fmt.Sprintf("header/target=%v/%s", len(v.Hd.Target) > 0, chHdrClass(v.Hd)))
	}
	chJudge(env, tr, "A universe vectors x real entry points")

	// leg B
	rng := newRand(env.Seed, "c17b")
	tr = &vk.Trace{}
	nb := env.Pick(500, 6000)
	chunk := 1
	for i := 0; i < nb; i++ {
		if i > 0 && i%750 == 0 { // bounded trace files: one TLC run per 750 components
			chJudge(env, tr, fmt.Sprintf("B random components x real entry points (%d)", chunk))
			tr = &vk.Trace{}
			chunk++
		}
		c := chRandComp(rng, 1+rng.Intn(env.Pick(4, 5)))
		nin := chMirrorNBT(c, rng)
		jin := chMirrorJSON(c, rng)
		chBattery(tr, c, nin, jin, "random", rng.Intn(2) == 0)
		env.Distinct("random/" + chClass(c, "msg", "nbt") + "/" + chClass(c, "msg", "render"))
		if i%8 == 0 {
			h := &chHdr{ID: []int{0, 5, 127, 128, 16384, 268435455}[rng.Intn(6)], Sender: c}
			if rng.Intn(2) == 0 {
				h.Target = []*chComp{chRandComp(rng, rng.Intn(3))}
			}
			h = h.norm()
			in := chVarInt(h.ID)
			in = append(in, nbtDocBytes("network", nil, chMirrorNBT(h.Sender, rng))...)
			if len(h.Target) > 0 {
				in = append(append(in, 1), nbtDocBytes("network", nil, chMirrorNBT(h.Target[0], rng))...)
			} else {
				in = append(in, 0)
			}
			chHdrBattery(tr, h, in)
		}
		if i%10 == 0 { // strict prefixes of a valid document are never a component
			full := nbtDocBytes("network", nil, nin)
			if len(full) > 1 {
				tr.Add(chDec("field", "network", full[:1+rng.Intn(len(full)-1)], "truncated"))
			}
		}
	}
	chJudge(env, tr, fmt.Sprintf("B random components x real entry points (%d)", chunk))
}

// ---------------------------------------------------------------- leg B generators (inputs only)

var chTokens = []string{"", "ab", "a\"\\b", "§cx", "x§ly", "§zx", "5% %s", "§kx", "§Cx", "é§r!", "<&>", "%d%%", "   z", "tab\there", "§", "§§a§", "T=300 §\u212a §cred", "§\u212a", "§\u017f§\u0130x"} // U+212A KELVIN SIGN folds to k under (?i)

func chRandString(rng *rand.Rand) string {
	if rng.Intn(3) != 0 {
		return chTokens[rng.Intn(len(chTokens))]
	}
	var sb strings.Builder
	for n := rng.Intn(12); n > 0; n-- {
		switch rng.Intn(8) {
		case 0:
			sb.WriteString("§")
			if rng.Intn(6) == 0 { // a non-ASCII character right after the section sign (some fold to ASCII letters)
				sb.WriteRune([]rune{0x212A, 0x017F, 0x0130, 0x0131, 'é', '世', 0xFF21, 0x1F600}[rng.Intn(8)])
			} else {
				sb.WriteByte("0123456789abcdefklmnorzZxCKLR "[rng.Intn(30)])
			}
		case 1:
			sb.WriteRune([]rune{'é', 'ß', '€', '世', '"', '\\', '%', '/', '\n', 0x1F600}[rng.Intn(10)])
		default:
			sb.WriteByte(byte(32 + rng.Intn(95)))
		}
	}
	return sb.String()
}

func chRandComp(rng *rand.Rand, depth int) *chComp {
	c := &chComp{Text: ints([]byte(chRandString(rng)))}
	p := func(n int) bool { return rng.Intn(n) == 0 }
	c.Bold, c.Italic, c.Underlined, c.Strikethrough, c.Obfuscated = p(5), p(5), p(6), p(6), p(6)
	if p(5) {
		c.Font = ints([]byte([]string{"minecraft:uniform", "minecraft:alt", chRandString(rng)}[rng.Intn(3)]))
	}
	if p(4) {
		c.Color = ints([]byte([]string{"red", "dark_blue", "light_purple", "#12abEF", "white", chRandString(rng)}[rng.Intn(6)]))
	}
	if p(6) {
		c.Insertion = ints([]byte(chRandString(rng)))
	}
	if p(6) {
		c.Click = []chClick{{Action: ints([]byte([]string{"open_url", "run_command", "suggest_command", "change_page", "copy_to_clipboard", ""}[rng.Intn(6)])), Value: ints([]byte(chRandString(rng)))}}
	}
	kid := func() *chComp {
		if depth <= 0 || p(3) {
			return chTxt(chRandString(rng))
		}
		return chRandComp(rng, depth-1)
	}
	if p(7) {
		h := chHover{Action: ints([]byte([]string{"show_text", "show_item", "show_entity"}[rng.Intn(3)])), Value: kid()}
		if !p(4) {
			h.Contents = [][]int{ints([]byte(chRandString(rng)))}
		}
		c.Hover = []chHover{h}
	}
	if p(3) {
		switch k := rng.Intn(10); {
		case k < 6:
			c.Translate = ints([]byte(fmt.Sprintf("k%d", k)))
			for i := 0; i < k; i++ {
				c.With = append(c.With, kid())
			}
		case k == 6:
			c.Translate = ints([]byte("kr"))
			c.With = []*chComp{kid(), kid()}
		case k == 7:
			c.Translate = ints([]byte([]string{"ke", "kp"}[rng.Intn(2)])) // in the table: the empty string / "50% off" (no slots)
		case k == 8:
			c.Translate = ints([]byte("k2"))
			c.With = []*chComp{chTxt(fmt.Sprint(rng.Intn(300) - 150)), chTxt(fmt.Sprint(rng.Intn(100000) - 50000))}
		default:
			c.Translate = ints([]byte([]string{"zz", "no.such.key", "%s"}[rng.Intn(3)]))
			for i := rng.Intn(3); i > 0; i-- {
				c.With = append(c.With, kid())
			}
		}
		if p(3) {
			c.Text = []int{}
		}
	}
	if depth > 0 && p(3) {
		for i := 1 + rng.Intn(3); i > 0; i-- {
			c.Extra = append(c.Extra, kid())
		}
	}
	return c.norm()
}

func chNumText(s string) (int64, bool) {
	var v int64
	if _, err := fmt.Sscanf(s, "%d", &v); err != nil || fmt.Sprint(v) != s || v < -1<<31+1 || v > 1<<31-1 {
		return 0, false
	}
	return v, true
}

// chMirrorNBT writes a component as an NBT tree the way the format prescribes, choosing freely among the
// accepted shapes (INPUT generator: Chat_Trace re-derives the component from the bytes with FromNBT).
func chMirrorNBT(c *chComp, rng *rand.Rand) *nbtNode {
	str := func(a []int) *nbtNode { return &nbtNode{T: 8, Pat: chE(a)} }
	var ents []nbtEntry
	put := func(k string, n *nbtNode) { ents = append(ents, nbtEntry{K: ints([]byte(k)), N: n}) }
	one := &nbtNode{T: 1, Pat: []int{1}}
	list := func(s []*chComp, args bool) *nbtNode {
		if chAllBare(s) && rng.Intn(2) == 0 {
			if args && rng.Intn(2) == 0 {
				nums := make([]int64, len(s))
				ok, small := true, true
				for i, x := range s {
					var o bool
					nums[i], o = chNumText(chStr(x.Text))
					ok = ok && o
					small = small && nums[i] >= -128 && nums[i] <= 127
				}
				if ok {
					switch k := rng.Intn(3); {
					case k == 0 && small:
						n := &nbtNode{T: 7, Pat: []int{}}
						for _, v := range nums {
							n.Pat = append(n.Pat, int(uint8(int8(v))))
						}
						return n
					case k == 1:
						n := &nbtNode{T: 12, Wds: [][]int{}}
						for _, v := range nums {
							n.Wds = append(n.Wds, ints(beBytes(uint64(v), 8)))
						}
						return n
					default:
						n := &nbtNode{T: 11, Wds: [][]int{}}
						for _, v := range nums {
							n.Wds = append(n.Wds, ints(beBytes(uint64(uint32(int32(v))), 4)))
						}
						return n
					}
				}
			}
			n := &nbtNode{T: 9, Et: 8, Lst: []*nbtNode{}}
			for _, x := range s {
				n.Lst = append(n.Lst, str(x.Text))
			}
			return n
		}
		n := &nbtNode{T: 9, Et: 10, Lst: []*nbtNode{}}
		for _, x := range s {
			n.Lst = append(n.Lst, chMirrorNBT(x, rng))
		}
		return n
	}
	if len(c.Translate) == 0 || len(c.Text) > 0 {
		put("text", str(c.Text))
	}
	for _, f := range []struct {
		k string
		v bool
	}{{"bold", c.Bold}, {"italic", c.Italic}, {"underlined", c.Underlined}, {"strikethrough", c.Strikethrough}, {"obfuscated", c.Obfuscated}} {
		if f.v {
			put(f.k, one)
		}
	}
	for _, f := range []struct {
		k string
		v []int
	}{{"font", c.Font}, {"color", c.Color}, {"insertion", c.Insertion}, {"translate", c.Translate}} {
		if len(f.v) > 0 {
			put(f.k, str(f.v))
		}
	}
	if len(c.Click) > 0 {
		put("clickEvent", &nbtNode{T: 10, Ent: []nbtEntry{{K: ints([]byte("action")), N: str(c.Click[0].Action)}, {K: ints([]byte("value")), N: str(c.Click[0].Value)}}})
	}
	if len(c.Hover) > 0 {
		h := c.Hover[0]
		he := []nbtEntry{{K: ints([]byte("action")), N: str(h.Action)}}
		if len(h.Contents) > 0 {
			he = append(he, nbtEntry{K: ints([]byte("contents")), N: str(h.Contents[0])})
		}
		val := chMirrorNBT(h.Value, rng)
		if h.Value.bare() && rng.Intn(2) == 0 {
			val = str(h.Value.Text)
		}
		he = append(he, nbtEntry{K: ints([]byte("value")), N: val})
		rng.Shuffle(len(he), func(i, j int) { he[i], he[j] = he[j], he[i] })
		put("hoverEvent", &nbtNode{T: 10, Ent: he})
	}
	if len(c.With) > 0 {
		put("with", list(c.With, true))
	}
	if len(c.Extra) > 0 {
		put("extra", list(c.Extra, false))
	}
	rng.Shuffle(len(ents), func(i, j int) { ents[i], ents[j] = ents[j], ents[i] })
	return &nbtNode{T: 10, Ent: ents}
}

func chMirrorJSON(c *chComp, rng *rand.Rand) *chJ {
	str := func(a []int) *chJ { return &chJ{J: "s", S: chE(a)} }
	n := &chJ{J: "o"}
	put := func(k string, v *chJ) { n.O = append(n.O, chJEnt{K: ints([]byte(k)), N: v}) }
	kid := func(x *chComp) *chJ {
		if x.bare() && rng.Intn(2) == 0 {
			return str(x.Text)
		}
		return chMirrorJSON(x, rng)
	}
	list := func(s []*chComp) *chJ {
		a := &chJ{J: "a"}
		for _, x := range s {
			a.A = append(a.A, kid(x))
		}
		return a
	}
	if len(c.Translate) == 0 || len(c.Text) > 0 {
		put("text", str(c.Text))
	}
	for _, f := range []struct {
		k string
		v bool
	}{{"bold", c.Bold}, {"italic", c.Italic}, {"underlined", c.Underlined}, {"strikethrough", c.Strikethrough}, {"obfuscated", c.Obfuscated}} {
		if f.v {
			put(f.k, &chJ{J: "b", B: true})
		}
	}
	for _, f := range []struct {
		k string
		v []int
	}{{"font", c.Font}, {"color", c.Color}, {"insertion", c.Insertion}, {"translate", c.Translate}} {
		if len(f.v) > 0 {
			put(f.k, str(f.v))
		}
	}
	if len(c.Click) > 0 {
		put("clickEvent", &chJ{J: "o", O: []chJEnt{{K: ints([]byte("value")), N: str(c.Click[0].Value)}, {K: ints([]byte("action")), N: str(c.Click[0].Action)}}})
	}
	if len(c.Hover) > 0 {
		h := c.Hover[0]
		o := &chJ{J: "o", O: []chJEnt{{K: ints([]byte("value")), N: kid(h.Value)}, {K: ints([]byte("action")), N: str(h.Action)}}}
		if len(h.Contents) > 0 {
			o.O = append(o.O, chJEnt{K: ints([]byte("contents")), N: str(h.Contents[0])})
		}
		put("hoverEvent", o)
	}
	if len(c.With) > 0 {
		put("with", list(c.With))
	}
	if len(c.Extra) > 0 {
		put("extra", list(c.Extra))
	}
	rng.Shuffle(len(n.O), func(i, j int) { n.O[i], n.O[j] = n.O[j], n.O[i] })
	return n
}

var _ = sort.Strings
