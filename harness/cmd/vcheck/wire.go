package main

// Real-code side of Wire.tla: builds net/packet fields from type expressions and abstract values
// (as TLC prints them), prepares destinations in a given prior shape, and projects results back.

import (
	"bytes"
	"encoding/json"
	"fmt"
	"io"
	"math"
	"reflect"

	"github.com/Tnze/go-mc/level"
	pk "github.com/Tnze/go-mc/net/packet"
)

type wireType struct {
	T    string     `json:"t"`
	N    int        `json:"n,omitempty"`
	Has  bool       `json:"has,omitempty"`
	L    string     `json:"l,omitempty"`
	E    *wireType  `json:"e,omitempty"`
	Es   []wireType `json:"es,omitempty"`
	Kind string     `json:"kind,omitempty"` // palcont: blocks | biomes
	Rb   int        `json:"rb,omitempty"`   // palcont: registry bits
}

func (t wireType) String() string { b, _ := json.Marshal(t); return string(b) }

// MarshalJSON emits exactly the fields the TLA+ record of that type has.
func (t wireType) MarshalJSON() ([]byte, error) {
	m := map[string]any{"t": t.T}
	switch t.T {
	case "fixedbits":
		m["n"] = t.N
	case "option":
		m["e"] = t.E
	case "opt":
		m["has"], m["e"] = t.Has, t.E
	case "ary":
		m["l"], m["e"] = t.L, t.E
	case "tuple":
		m["es"] = t.Es
	case "palcont":
		m["kind"], m["n"], m["rb"] = t.Kind, t.N, t.Rb
	}
	return json.Marshal(m)
}

// class is a short name for signatures / distinct counting
func (t wireType) class() string {
	switch t.T {
	case "option", "opt":
		return t.T + "(" + t.E.class() + ")"
	case "ary":
		return "ary[" + t.L + "](" + t.E.class() + ")"
	case "tuple":
		s := "tuple("
		for i, e := range t.Es {
			if i > 0 {
				s += ","
			}
			s += e.class()
		}
		return s + ")"
	case "fixedbits":
		return "fixedbits"
	case "palcont":
		return "palcont(" + t.Kind + ")"
	}
	return t.T
}

// abstract values are JSON-decoded: []any of float64 (byte patterns), nested []any, map for option
func absBytes(v any) []byte {
	a, _ := v.([]any)
	b := make([]byte, len(a))
	for i, x := range a {
		f, _ := x.(float64)
		b[i] = byte(int(f))
	}
	return b
}
func toAbsBytes(b []byte) any {
	a := make([]any, len(b))
	for i, x := range b {
		a[i] = float64(x)
	}
	return a
}
func be(b []byte) uint64 {
	var u uint64
	for _, x := range b {
		u = u<<8 | uint64(x)
	}
	return u
}
func beBytes(u uint64, w int) []byte {
	b := make([]byte, w)
	for i := w - 1; i >= 0; i-- {
		b[i] = byte(u)
		u >>= 8
	}
	return b
}

// wcodec binds one type expression to real fields.
type wcodec interface {
	enc(v any) pk.FieldEncoder
	// dest returns a decoder whose destination is prepared in the prior shape relative to `like`
	// (the value about to be read), and an extractor of the abstract value afterwards.
	dest(prior string, like any) (pk.FieldDecoder, func() any)
}

type fptr[T any] interface {
	*T
	pk.FieldDecoder
}

// scalar codec over a concrete field type T
type wscalar[T pk.FieldEncoder, P fptr[T]] struct {
	from  func(any) T
	to    func(T) any
	prior func(prior string, like any) T // destination pre-state (nil: zero value / junk)
}

func (s wscalar[T, P]) enc(v any) pk.FieldEncoder { return s.from(v) }
func (s wscalar[T, P]) dest(prior string, like any) (pk.FieldDecoder, func() any) {
	var d T
	if s.prior != nil {
		d = s.prior(prior, like)
	}
	return P(&d), func() any { return s.to(d) }
}

func junkBytes(prior string, like any) []byte {
	n := len(absBytes(like))
	mk := func(l, c int) []byte {
		b := make([]byte, l, c)
		for i := range b {
			b[i] = 0xA5
		}
		return b
	}
	switch prior {
	case "shorter":
		if n == 0 {
			return mk(0, 0)
		}
		return mk(n-1, n-1)
	case "longer":
		return mk(n+3, n+3)
	case "sparecap":
		return mk(1, n+8)
	case "tightcap": // shorter than its capacity, and the capacity smaller than what arrives
		if n >= 3 {
			return mk(1, n-1)
		}
		return mk(0, 1)
	}
	return nil
}

func scalarCodec(t string, n int) wcodec {
	switch t {
	case "bool":
		return wscalar[pk.Boolean, *pk.Boolean]{from: func(v any) pk.Boolean { return absBytes(v)[0] != 0 }, to: func(x pk.Boolean) any {
			if x {
				return toAbsBytes([]byte{1})
			}
			return toAbsBytes([]byte{0})
		}, prior: func(p string, _ any) pk.Boolean { return p == "longer" }}
	case "i8":
		return wscalar[pk.Byte, *pk.Byte]{from: func(v any) pk.Byte { return pk.Byte(absBytes(v)[0]) }, to: func(x pk.Byte) any { return toAbsBytes([]byte{byte(x)}) }}
	case "u8":
		return wscalar[pk.UnsignedByte, *pk.UnsignedByte]{from: func(v any) pk.UnsignedByte { return pk.UnsignedByte(absBytes(v)[0]) }, to: func(x pk.UnsignedByte) any { return toAbsBytes([]byte{byte(x)}) }}
	case "angle":
		return wscalar[pk.Angle, *pk.Angle]{from: func(v any) pk.Angle { return pk.Angle(absBytes(v)[0]) }, to: func(x pk.Angle) any { return toAbsBytes([]byte{byte(x)}) }}
	case "i16":
		return wscalar[pk.Short, *pk.Short]{from: func(v any) pk.Short { return pk.Short(be(absBytes(v))) }, to: func(x pk.Short) any { return toAbsBytes(beBytes(uint64(uint16(x)), 2)) }}
	case "u16":
		return wscalar[pk.UnsignedShort, *pk.UnsignedShort]{from: func(v any) pk.UnsignedShort { return pk.UnsignedShort(be(absBytes(v))) }, to: func(x pk.UnsignedShort) any { return toAbsBytes(beBytes(uint64(x), 2)) }}
	case "i32":
		return wscalar[pk.Int, *pk.Int]{from: func(v any) pk.Int { return pk.Int(be(absBytes(v))) }, to: func(x pk.Int) any { return toAbsBytes(beBytes(uint64(uint32(x)), 4)) }, prior: func(string, any) pk.Int { return -7 }}
	case "i64":
		return wscalar[pk.Long, *pk.Long]{from: func(v any) pk.Long { return pk.Long(be(absBytes(v))) }, to: func(x pk.Long) any { return toAbsBytes(beBytes(uint64(x), 8)) }, prior: func(string, any) pk.Long { return -7 }}
	case "f32":
		return wscalar[pk.Float, *pk.Float]{from: func(v any) pk.Float { return pk.Float(math.Float32frombits(uint32(be(absBytes(v))))) }, to: func(x pk.Float) any { return toAbsBytes(beBytes(uint64(math.Float32bits(float32(x))), 4)) }}
	case "f64":
		return wscalar[pk.Double, *pk.Double]{from: func(v any) pk.Double { return pk.Double(math.Float64frombits(be(absBytes(v)))) }, to: func(x pk.Double) any { return toAbsBytes(beBytes(math.Float64bits(float64(x)), 8)) }}
	case "uuid":
		return wscalar[pk.UUID, *pk.UUID]{from: func(v any) pk.UUID { var u pk.UUID; copy(u[:], absBytes(v)); return u }, to: func(x pk.UUID) any { return toAbsBytes(x[:]) }, prior: func(string, any) pk.UUID { return pk.UUID{1, 2, 3} }}
	case "varint":
		return wscalar[pk.VarInt, *pk.VarInt]{from: func(v any) pk.VarInt { return pk.VarInt(int32(uint32(be(absBytes(v))))) }, to: func(x pk.VarInt) any { return toAbsBytes(beBytes(uint64(uint32(x)), 4)) }, prior: func(string, any) pk.VarInt { return -1 }}
	case "varlong":
		return wscalar[pk.VarLong, *pk.VarLong]{from: func(v any) pk.VarLong { return pk.VarLong(be(absBytes(v))) }, to: func(x pk.VarLong) any { return toAbsBytes(beBytes(uint64(x), 8)) }, prior: func(string, any) pk.VarLong { return -1 }}
	case "str":
		return wscalar[pk.String, *pk.String]{from: func(v any) pk.String { return pk.String(absBytes(v)) }, to: func(x pk.String) any { return toAbsBytes([]byte(x)) }, prior: func(p string, like any) pk.String { return pk.String(junkBytes(p, like)) }}
	case "bytes":
		return wscalar[pk.ByteArray, *pk.ByteArray]{from: func(v any) pk.ByteArray { return absBytes(v) }, to: func(x pk.ByteArray) any { return toAbsBytes(x) }, prior: func(p string, like any) pk.ByteArray { return junkBytes(p, like) }}
	case "rest":
		return wscalar[pk.PluginMessageData, *pk.PluginMessageData]{from: func(v any) pk.PluginMessageData { return absBytes(v) }, to: func(x pk.PluginMessageData) any { return toAbsBytes(x) }, prior: func(p string, like any) pk.PluginMessageData { return junkBytes(p, like) }}
	case "pos":
		return wscalar[pk.Position, *pk.Position]{from: func(v any) pk.Position {
			a := v.([]any)
			return pk.Position{X: int(a[0].(float64)), Y: int(a[1].(float64)), Z: int(a[2].(float64))}
		}, to: func(p pk.Position) any { return []any{float64(p.X), float64(p.Y), float64(p.Z)} }, prior: func(string, any) pk.Position { return pk.Position{X: 9, Y: 9, Z: 9} }}
	case "bitset":
		return wscalar[pk.BitSet, *pk.BitSet]{from: func(v any) pk.BitSet {
			a, _ := v.([]any)
			b := make(pk.BitSet, len(a))
			for i, x := range a {
				b[i] = int64(be(absBytes(x)))
			}
			return b
		}, to: func(b pk.BitSet) any {
			a := make([]any, len(b))
			for i, x := range b {
				a[i] = toAbsBytes(beBytes(uint64(x), 8))
			}
			return a
		}, prior: func(p string, like any) pk.BitSet {
			a, _ := like.([]any)
			n := len(a)
			switch p {
			case "shorter":
				if n > 0 {
					n--
				}
				return make(pk.BitSet, n)
			case "longer":
				b := make(pk.BitSet, n+2)
				for i := range b {
					b[i] = -1
				}
				return b
			case "sparecap":
				return make(pk.BitSet, 1, n+4)
			case "tightcap":
				if n >= 3 {
					return make(pk.BitSet, 1, n-1)
				}
				return make(pk.BitSet, 0, 1)
			}
			return nil
		}}
	case "fixedbits":
		return wfixedbits{n}
	}
	panic("unknown scalar type " + t)
}

// FixedBitSet decodes in place into an existing slice of the right size
type wfixedbits struct{ n int }

func (f wfixedbits) enc(v any) pk.FieldEncoder { return pk.FixedBitSet(absBytes(v)) }
func (f wfixedbits) dest(prior string, like any) (pk.FieldDecoder, func() any) {
	d := pk.NewFixedBitSet(int64(f.n))
	if prior == "longer" {
		for i := range d {
			d[i] = 0x5A
		}
	}
	return d, func() any { return toAbsBytes(d) }
}

// Option[T, *T]
type woption[T pk.FieldEncoder, P fptr[T]] struct{ in wscalar[T, P] }

func (o woption[T, P]) enc(v any) pk.FieldEncoder {
	m := v.(map[string]any)
	if m["has"].(bool) {
		return pk.Option[T, P]{Has: true, Val: o.in.from(m["v"])}
	}
	return pk.Option[T, P]{}
}
func (o woption[T, P]) dest(prior string, like any) (pk.FieldDecoder, func() any) {
	d := &pk.Option[T, P]{}
	if prior != "nil" && o.in.prior != nil {
		d.Has = true
		d.Val = o.in.prior(prior, nil)
	}
	return d, func() any {
		if d.Has {
			return map[string]any{"has": true, "v": o.in.to(d.Val)}
		}
		return map[string]any{"has": false, "v": []any{}}
	}
}

// OptionDecoder / OptionEncoder pair (same wire form as Option)
type woptionSplit[T pk.FieldEncoder, P fptr[T]] struct{ in wscalar[T, P] }

func (o woptionSplit[T, P]) enc(v any) pk.FieldEncoder {
	m := v.(map[string]any)
	if m["has"].(bool) {
		return pk.OptionEncoder[T]{Has: true, Val: o.in.from(m["v"])}
	}
	return pk.OptionEncoder[T]{}
}
func (o woptionSplit[T, P]) dest(prior string, like any) (pk.FieldDecoder, func() any) {
	d := &pk.OptionDecoder[T, P]{}
	return d, func() any {
		if d.Has {
			return map[string]any{"has": true, "v": o.in.to(d.Val)}
		}
		return map[string]any{"has": false, "v": []any{}}
	}
}

func optionOf[T pk.FieldEncoder, P fptr[T]](c wcodec, split bool) wcodec {
	if split {
		return woptionSplit[T, P]{c.(wscalar[T, P])}
	}
	return woption[T, P]{c.(wscalar[T, P])}
}

// Ary[LEN]{Ary: &[]T}
type wary[L pk.VarInt | pk.VarLong | pk.Byte | pk.UnsignedByte | pk.Short | pk.UnsignedShort | pk.Int | pk.Long, T pk.FieldEncoder, P fptr[T]] struct {
	in    wscalar[T, P]
	byPtr bool
}

func (a wary[L, T, P]) build(v any) []T {
	arr, _ := v.([]any)
	s := make([]T, len(arr))
	for i, x := range arr {
		s[i] = a.in.from(x)
	}
	return s
}
func (a wary[L, T, P]) enc(v any) pk.FieldEncoder {
	s := a.build(v)
	if a.byPtr {
		return pk.Ary[L]{Ary: &s}
	}
	return pk.Ary[L]{Ary: s}
}
func (a wary[L, T, P]) dest(prior string, like any) (pk.FieldDecoder, func() any) {
	arr, _ := like.([]any)
	n := len(arr)
	var s []T
	junk := func(l, c int) []T {
		x := make([]T, l, c)
		if a.in.prior != nil {
			for i := range x {
				x[i] = a.in.prior("longer", nil)
			}
		}
		return x
	}
	switch prior {
	case "shorter":
		if n > 0 {
			s = junk(n-1, n-1)
		}
	case "longer":
		s = junk(n+2, n+2)
	case "sparecap":
		s = junk(1, n+6)
	case "tightcap":
		if n >= 3 {
			s = junk(1, n-1)
		} else {
			s = junk(0, 1)
		}
	}
	return pk.Ary[L]{Ary: &s}, func() any {
		out := make([]any, len(s))
		for i := range s {
			out[i] = a.in.to(s[i])
		}
		return out
	}
}

func aryOfT[T pk.FieldEncoder, P fptr[T]](l string, c wcodec, byPtr bool) wcodec {
	in := c.(wscalar[T, P])
	switch l {
	case "varint":
		return wary[pk.VarInt, T, P]{in, byPtr}
	case "varlong":
		return wary[pk.VarLong, T, P]{in, byPtr}
	case "i8":
		return wary[pk.Byte, T, P]{in, byPtr}
	case "u8":
		return wary[pk.UnsignedByte, T, P]{in, byPtr}
	case "i16":
		return wary[pk.Short, T, P]{in, byPtr}
	case "u16":
		return wary[pk.UnsignedShort, T, P]{in, byPtr}
	case "i32":
		return wary[pk.Int, T, P]{in, byPtr}
	case "i64":
		return wary[pk.Long, T, P]{in, byPtr}
	}
	panic("length type " + l)
}

// generic dispatch over the element type name
func overElem(e string, f func(kind string) wcodec) wcodec { return f(e) }

func aryOf(l string, e wireType, byPtr bool) wcodec {
	c := scalarCodec(e.T, e.N)
	switch e.T {
	case "varint":
		return aryOfT[pk.VarInt, *pk.VarInt](l, c, byPtr)
	case "str":
		return aryOfT[pk.String, *pk.String](l, c, byPtr)
	case "pos":
		return aryOfT[pk.Position, *pk.Position](l, c, byPtr)
	case "bool":
		return aryOfT[pk.Boolean, *pk.Boolean](l, c, byPtr)
	case "i64":
		return aryOfT[pk.Long, *pk.Long](l, c, byPtr)
	case "i16":
		return aryOfT[pk.Short, *pk.Short](l, c, byPtr)
	case "uuid":
		return aryOfT[pk.UUID, *pk.UUID](l, c, byPtr)
	case "f32":
		return aryOfT[pk.Float, *pk.Float](l, c, byPtr)
	case "i32":
		return aryOfT[pk.Int, *pk.Int](l, c, byPtr)
	case "u8":
		return aryOfT[pk.UnsignedByte, *pk.UnsignedByte](l, c, byPtr)
	case "bytes":
		return aryOfT[pk.ByteArray, *pk.ByteArray](l, c, byPtr)
	case "varlong":
		return aryOfT[pk.VarLong, *pk.VarLong](l, c, byPtr)
	}
	panic("ary element type " + e.T)
}

func optionOfType(e wireType, split bool) wcodec {
	c := scalarCodec(e.T, e.N)
	switch e.T {
	case "varint":
		return optionOf[pk.VarInt, *pk.VarInt](c, split)
	case "str":
		return optionOf[pk.String, *pk.String](c, split)
	case "pos":
		return optionOf[pk.Position, *pk.Position](c, split)
	case "i64":
		return optionOf[pk.Long, *pk.Long](c, split)
	case "uuid":
		return optionOf[pk.UUID, *pk.UUID](c, split)
	case "bytes":
		return optionOf[pk.ByteArray, *pk.ByteArray](c, split)
	case "bool":
		return optionOf[pk.Boolean, *pk.Boolean](c, split)
	}
	panic("option element type " + e.T)
}

// Opt{Has, Field}: presence decided outside the wire
type wopt struct {
	has   bool
	in    wcodec
	style int // 0: *bool + Field ; 1: func() bool + func() Field-ish
}

func (o wopt) enc(v any) pk.FieldEncoder {
	has := o.has
	var f pk.FieldEncoder
	if o.has {
		f = o.in.enc(v)
	} else {
		f = pk.VarInt(0)
	}
	if o.style == 1 {
		return pk.Opt{Has: func() bool { return has }, Field: func() pk.FieldEncoder { return f }}
	}
	return pk.Opt{Has: &has, Field: f}
}
func (o wopt) dest(prior string, like any) (pk.FieldDecoder, func() any) {
	has := o.has
	if !o.has {
		var junk pk.VarInt
		return pk.Opt{Has: &has, Field: &junk}, func() any { return []any{} }
	}
	d, get := o.in.dest(prior, like)
	if o.style == 1 {
		return pk.Opt{Has: func() bool { return has }, Field: func() pk.FieldDecoder { return d }}, get
	}
	return pk.Opt{Has: &has, Field: d}, get
}

type wtuple struct{ in []wcodec }

func (t wtuple) enc(v any) pk.FieldEncoder {
	a := v.([]any)
	tu := make(pk.Tuple, len(t.in))
	for i := range t.in {
		tu[i] = t.in[i].enc(a[i])
	}
	return tu
}
func (t wtuple) dest(prior string, like any) (pk.FieldDecoder, func() any) {
	a, _ := like.([]any)
	tu := make(pk.Tuple, len(t.in))
	gets := make([]func() any, len(t.in))
	for i := range t.in {
		var li any
		if i < len(a) {
			li = a[i]
		}
		tu[i], gets[i] = t.in[i].dest(prior, li)
	}
	return tu, func() any {
		out := make([]any, len(gets))
		for i := range gets {
			out[i] = gets[i]()
		}
		return out
	}
}

// paletted container: decode only (the value is not projected; C12 does that)
type wpalcont struct{ t wireType }

func (p wpalcont) enc(v any) pk.FieldEncoder { panic("palcont is decode-only in the Wire codec table") }
func (p wpalcont) dest(prior string, like any) (pk.FieldDecoder, func() any) {
	get := func() any { return []any{} }
	if p.t.Kind == "blocks" {
		c := level.NewStatesPaletteContainer(p.t.N, 0)
		if prior == "longer" || prior == "sparecap" { // a container that already went through palette upgrades
			for i := 0; i < 40 && i < p.t.N; i++ {
				c.Set(i, level.BlocksState(i+1))
			}
		}
		return c, get
	}
	c := level.NewBiomesPaletteContainer(p.t.N, 0)
	if prior == "longer" || prior == "sparecap" {
		for i := 0; i < 6 && i < p.t.N; i++ {
			c.Set(i, level.BiomesState(i+1))
		}
	}
	return c, get
}

// buildCodec: variant selects alternative but equivalent API forms (Ary by pointer/value, Option vs
// OptionEncoder/OptionDecoder, Opt with *bool vs func() bool)
func buildCodec(t wireType, variant int) wcodec {
	switch t.T {
	case "option":
		return optionOfType(*t.E, variant%2 == 1)
	case "opt":
		return wopt{has: t.Has, in: buildCodec(*t.E, variant), style: variant % 2}
	case "ary":
		return aryOf(t.L, *t.E, variant%2 == 0)
	case "palcont":
		return wpalcont{t}
	case "tuple":
		in := make([]wcodec, len(t.Es))
		for i := range t.Es {
			in[i] = buildCodec(t.Es[i], variant)
		}
		return wtuple{in}
	}
	return scalarCodec(t.T, t.N)
}

// normalise an abstract value for comparison / JSON (nil slices -> empty)
func normAbs(v any) any {
	switch x := v.(type) {
	case nil:
		return []any{}
	case []any:
		out := make([]any, len(x))
		for i := range x {
			out[i] = normAbs(x[i])
		}
		return out
	case map[string]any:
		if h, _ := x["has"].(bool); !h {
			return map[string]any{"has": false, "v": []any{}}
		}
		return map[string]any{"has": true, "v": normAbs(x["v"])}
	}
	return v
}

func absEqual(a, b any) bool { return reflect.DeepEqual(normAbs(a), normAbs(b)) }

// wireEncode runs the real WriteTo.
func wireEncode(t wireType, variant int, v any) (out []byte, wn int64, err error, panicked bool, msg string) {
	var buf bytes.Buffer
	panicked, msg = catch(func() {
		c := buildCodec(t, variant)
		wn, err = c.enc(v).WriteTo(&buf)
	})
	return buf.Bytes(), wn, err, panicked, msg
}

type wireDecRes struct {
	Ok       bool
	Rn       int64
	Val      any
	Left     int
	Panicked bool
	Msg      string
}

// wireDecode runs the real ReadFrom on input with the destination in the given prior shape.
func wireDecode(t wireType, variant int, input []byte, prior string, like any, plain bool) (r wireDecRes) {
	br := bytes.NewReader(input)
	var src io.Reader = br
	if plain {
		src = &plainReader{r: br}
	}
	r.Panicked, r.Msg = catch(func() {
		c := buildCodec(t, variant)
		d, get := c.dest(prior, like)
		n, err := d.ReadFrom(src)
		r.Rn, r.Ok = n, err == nil
		if err == nil {
			r.Val = normAbs(get())
		}
	})
	if r.Val == nil {
		r.Val = []any{}
	}
	r.Left = br.Len()
	return
}

func wireSig(what string, t wireType, extra string) string {
	return fmt.Sprintf("%s %s %s", what, t.class(), extra)
}
