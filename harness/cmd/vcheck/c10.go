package main

// C10 CFB8 equals the CFB8 mode for any call pattern; an encrypted Conn is transparent.
// Spec: specs/CFB8.tla (shift register, one step per byte, block function as a parameter), trace specs
// specs/CFB8_Trace.tla and specs/Chan_Trace.tla.
// Leg S+A: TLC explores every history of <= MaxCalls calls with lengths 0..2*BS+2 over a toy block cipher
//          (defined identically in CFB8.tla and here), checks call-splitting invariance / Dec(Enc(m)) = m /
//          register = window on the spec and prints the expected output of every call; the real CFB8 runs
//          over the Go toy cipher.Block for every assignment of aliasing modes to the calls.
// Leg B:   real AES (16/24/32-byte keys), messages 0..4096 bytes, random call splits; every call is logged with
//          src, dst and per byte (window, AES_K(window)[0]) computed from observed bytes; CFB8_Trace judges.
// Conn:    two go-mc net.Conn ends over the buffered in-memory duplex, SetCipher on both, thresholds
//          {-1, 0, 64, 256}; send/recv events judged by Chan_Trace.

import (
	"crypto/aes"
	"crypto/cipher"
	"crypto/sha256"
	"encoding/hex"
	"encoding/json"
	"fmt"
	"math/rand"
	"runtime"
	"sync"
	"sync/atomic"
	"time"

	mcnet "github.com/Tnze/go-mc/net"
	"github.com/Tnze/go-mc/net/CFB8"
	pk "github.com/Tnze/go-mc/net/packet"
	"verif/harness/vk"
)

func init() { drivers["C10"] = driver{run: runC10, replay: replayC10} }

// ------------------------------------------------------------------ toy block cipher (CFB8.tla: E)

type cfbToy struct{ bs, k int }

func (t cfbToy) BlockSize() int { return t.bs }
func (t cfbToy) Encrypt(dst, src []byte) {
	var out [64]byte
	for j := 0; j < t.bs; j++ {
		s := 0
		for i := 0; i < t.bs; i++ {
			s += (i + j + 1) * int(src[i])
		}
		out[j] = byte((s + 7*j + 5 + t.k*(2*j+1)) % 256)
	}
	copy(dst[:t.bs], out[:t.bs])
}
func (t cfbToy) Decrypt(dst, src []byte) { panic("cfbToy: CFB8 never decrypts a block") }

// ------------------------------------------------------------------ aliasing modes

var cfbModes = []string{"inplace", "dstAfter", "dstBefore", "dstLonger"}

// cfbCall runs one XORKeyStream call in the given aliasing mode and returns the first len(src) output bytes.
func cfbCall(s cipher.Stream, src []byte, mode string, pad int) []byte {
	n := len(src)
	switch mode {
	case "inplace":
		buf := append(make([]byte, 0, n+pad), src...)
		s.XORKeyStream(buf, buf)
		return buf
	case "dstAfter": // one arena, dst at the higher address, disjoint
		arena := make([]byte, 2*n+pad)
		copy(arena, src)
		dst := arena[n+pad:]
		s.XORKeyStream(dst, arena[:n])
		return dst[:n]
	case "dstBefore": // one arena, dst at the lower address, disjoint
		arena := make([]byte, 2*n+pad)
		in := arena[n+pad:]
		copy(in, src)
		dst := arena[:n]
		s.XORKeyStream(dst, in)
		return dst
	default: // dstLonger: separate allocation, longer than src
		dst := make([]byte, n+1+pad)
		in := append([]byte{}, src...)
		s.XORKeyStream(dst, in)
		return dst[:n]
	}
}

func cfbLenClass(n, bs int) string {
	switch {
	case n == 0:
		return "len0"
	case n <= bs:
		return "len<=BS"
	case n <= 2*bs:
		return "len<=2BS"
	}
	return "len>2BS"
}

// ------------------------------------------------------------------ leg A: TLC vectors on the toy cipher

type cfbVecCall struct {
	Src []int `json:"src"`
	Out []int `json:"out"`
}
type cfbVec struct {
	BS    int          `json:"bs"`
	Dir   string       `json:"dir"`
	Key   int          `json:"key"`
	IV    []int        `json:"iv"`
	Calls []cfbVecCall `json:"calls"`
}

func cfbNewStream(c cipher.Block, iv []byte, dir string) *CFB8.CFB8 {
	if dir == "enc" {
		return CFB8.NewCFB8Encrypt(c, iv)
	}
	return CFB8.NewCFB8Decrypt(c, iv)
}

// cfbCheckVector runs the vector's calls with one assignment of modes; returns a description of the first mismatch.
func cfbCheckVector(v cfbVec, modes []int) (sig, detail string) {
	var res string
	p, msg := catch(func() {
		s := cfbNewStream(cfbToy{v.BS, v.Key}, bytesOf(v.IV), v.Dir)
		for ci, c := range v.Calls {
			mode := cfbModes[modes[ci]]
			out := cfbCall(s, bytesOf(c.Src), mode, ci%3)
			if !eqInts(ints(out), c.Out) {
				sig = fmt.Sprintf("CFB8 toy bs=%d %s: output of a call differs from the specification (%s, %s)", v.BS, v.Dir, mode, cfbLenClass(len(c.Src), v.BS))
				res = fmt.Sprintf("call %d of %d: src=%v got=%v want=%v (iv=%v key=%d, earlier calls had lengths %v)", ci+1, len(v.Calls), c.Src, ints(out), c.Out, v.IV, v.Key, cfbLens(v.Calls[:ci]))
				return
			}
		}
	})
	if p {
		return fmt.Sprintf("CFB8 toy bs=%d %s: panic", v.BS, v.Dir), msg
	}
	return sig, res
}

func cfbLens(cs []cfbVecCall) []int {
	var l []int
	for _, c := range cs {
		l = append(l, len(c.Src))
	}
	return l
}

func cfbLegToy(env *vk.Env, cfg string, full bool) bool {
	res := env.MustSpec(vk.TLCRun{Name: "S+A " + cfg, Module: "CFB8", Cfg: cfg, Workers: 8, Timeout: 30 * time.Minute})
	if res == nil {
		return false
	}
	var vecs []cfbVec
	for _, s := range res.Printed {
		var v cfbVec
		if err := json.Unmarshal([]byte(s), &v); err != nil {
			env.Infra("bad vector %q: %v", vkTrunc(s, 200), err)
			return false
		}
		vecs = append(vecs, v)
	}
	if len(vecs) < 1000 {
		env.Infra("only %d vectors from %s", len(vecs), cfg)
		return false
	}
	nw := runtime.NumCPU()
	var wg sync.WaitGroup
	var runs atomic.Int64
	var mu sync.Mutex
	reported := map[string]bool{}
	for w := 0; w < nw; w++ {
		wg.Add(1)
		go func(w int) {
			defer wg.Done()
			defer guard("c10")
			rng := newRand(env.Seed, fmt.Sprint("cfb-modes", cfg, w))
			for vi := w; vi < len(vecs); vi += nw {
				v := vecs[vi]
				nc := len(v.Calls)
				var assigns [][]int
				total := 1
				for i := 0; i < nc; i++ {
					total *= len(cfbModes)
				}
				if full || total <= 64 {
					for a := 0; a < total; a++ {
						m := make([]int, nc)
						for i, x := 0, a; i < nc; i, x = i+1, x/len(cfbModes) {
							m[i] = x % len(cfbModes)
						}
						assigns = append(assigns, m)
					}
				} else {
					for u := range cfbModes {
						m := make([]int, nc)
						for i := range m {
							m[i] = u
						}
						assigns = append(assigns, m)
					}
					for k := 0; k < 28; k++ {
						m := make([]int, nc)
						for i := range m {
							m[i] = rng.Intn(len(cfbModes))
						}
						assigns = append(assigns, m)
					}
				}
				for _, m := range assigns {
					runs.Add(1)
					if sig, detail := cfbCheckVector(v, m); sig != "" {
						mu.Lock()
						if !reported[sig] {
							reported[sig] = true
							env.Report(sig, detail, map[string]any{"kind": "vector", "vec": v, "modes": m})
						}
						mu.Unlock()
					}
				}
			}
		}(w)
	}
	wg.Wait()
	for _, v := range vecs[:1] {
		env.Sample(map[string]any{"toy_vector": v})
	}
	for _, d := range []string{"enc", "dec"} {
		for _, m := range cfbModes {
			for _, lc := range []string{"len0", "len<=BS", "len<=2BS", "len>2BS"} {
				env.Distinct(fmt.Sprintf("toy/%s/%s/%s/%s", cfg, d, m, lc))
			}
		}
	}
	env.AddTraces(int64(len(vecs)))
	env.AddEval(runs.Load())
	env.Sub(map[string]any{"run": "A " + cfg, "vectors": len(vecs), "runs_with_mode_assignments": runs.Load(), "all_assignments": full})
	return true
}

// ------------------------------------------------------------------ leg B: real AES, judged by CFB8_Trace

type cfbSession struct {
	ID   int   `json:"id"`
	Seed int64 `json:"seed"`
}

func cfbMsgLen(rng *rand.Rand) int {
	switch r := rng.Intn(100); {
	case r < 6:
		return 0
	case r < 14:
		return 1 + rng.Intn(3)
	case r < 30:
		return []int{15, 16, 17, 31, 32, 33, 34, 47, 48, 49, 64, 65}[rng.Intn(12)]
	case r < 60:
		return rng.Intn(200)
	case r < 90:
		return rng.Intn(4097)
	default:
		return 4096 - rng.Intn(3)
	}
}

func cfbSplit(rng *rand.Rand, n int) []int {
	var out []int
	style := rng.Intn(5)
	for n > 0 || len(out) == 0 {
		var l int
		switch r := rng.Intn(100); {
		case style == 0: // whole message in one call
			l = n
		case style == 1 && r < 80: // byte at a time
			l = 1
		case r < 8:
			l = 0
		case r < 30:
			l = 1 + rng.Intn(2)
		case r < 55:
			l = 15 + rng.Intn(3)
		case r < 80:
			l = 31 + rng.Intn(4)
		case r < 92:
			l = 3 + rng.Intn(60)
		default:
			l = 100 + rng.Intn(1500)
		}
		if l > n {
			l = n
		}
		out = append(out, l)
		n -= l
		if n == 0 && rng.Intn(4) == 0 {
			out = append(out, 0)
		}
		if len(out) > 600 {
			out = append(out, n)
			n = 0
		}
	}
	return out
}

// cfbRunSession executes session `id` (and its paired reverse session) and appends the events.
func cfbRunSession(tr *vk.Trace, s cfbSession, classes map[string]int) {
	rng := newRand(s.Seed, fmt.Sprint("cfb-aes", s.ID))
	key := make([]byte, []int{16, 24, 32}[rng.Intn(3)])
	iv := make([]byte, 16)
	rng.Read(key)
	rng.Read(iv)
	if rng.Intn(8) == 0 {
		copy(iv, key) // Minecraft uses the shared secret as key and IV
	}
	// what the caller hands to the constructors: in a third of the sessions a prefix of a larger buffer (the IV the
	// events and the specification use stays the private copy `iv`: a cipher must not depend on, or write to, the
	// caller's slice after construction)
	callerIV := append([]byte{}, iv...)
	if rng.Intn(3) == 0 {
		big := make([]byte, 16, 64+rng.Intn(64))
		copy(big, iv)
		callerIV = big
	}
	block, err := aes.NewCipher(key)
	if err != nil {
		panic(err)
	}
	msg := make([]byte, cfbMsgLen(rng))
	rng.Read(msg)
	if rng.Intn(6) == 0 {
		for i := range msg {
			msg[i] = byte(i % 3 * 255)
		}
	}
	dir := []string{"enc", "dec"}[rng.Intn(2)]
	input := msg
	for leg := 0; leg < 2; leg++ {
		tr.Add(map[string]any{"k": "reset", "dir": dir, "iv": ints(iv), "pair": leg == 1, "scn": s.ID, "keylen": len(key)})
		stream := cfbNewStream(block, callerIV, dir)
		hist := append([]byte{}, iv...) // IV ++ ciphertext so far (observed bytes only)
		var output []byte
		pos := 0
		for _, n := range cfbSplit(rng, len(input)) {
			src := input[pos : pos+n]
			pos += n
			mode := cfbModes[rng.Intn(len(cfbModes))]
			if n >= 1 && rng.Intn(6) == 0 {
				// a call the stream refuses (output shorter than input; crypto/cipher: "should panic"), recovered by the
				// caller, who then makes the call properly: the refused call is no part of the message
				dl := []int{0, n - 1, n / 2, 15, 16, 17, 33}[rng.Intn(7)]
				if dl >= n {
					dl = n - 1
				}
				short := make([]byte, dl, dl+[]int{0, 0, 1, n, 64}[rng.Intn(5)])
				refused, _ := catch(func() { stream.XORKeyStream(short, src) })
				if !refused {
					// not refused: what such a call means is not specified - the session ends here, unjudged
					tr.Add(map[string]any{"k": "abandon"})
					return
				}
				tr.Add(map[string]any{"k": "refused", "n": n, "dlen": dl, "dir": dir})
				classes[fmt.Sprintf("aes/%s/refused/%s", dir, cfbLenClass(n, 16))]++
			}
			var dst []byte
			p, msg := catch(func() { dst = cfbCall(stream, src, mode, rng.Intn(3)) })
			if p {
				tr.Add(map[string]any{"k": "panic", "msg": msg, "dir": dir, "mode": mode, "n": n})
				return
			}
			win := make([][]int, n)
			ks := make([]int, n)
			var e [16]byte
			for i := 0; i < n; i++ {
				w := hist[len(hist)-16:]
				win[i] = ints(w)
				block.Encrypt(e[:], w)
				ks[i] = int(e[0])
				if dir == "enc" {
					hist = append(hist, dst[i])
				} else {
					hist = append(hist, src[i])
				}
			}
			tr.Add(map[string]any{"k": "call", "src": ints(src), "dst": ints(dst), "win": win, "ks": ks, "mode": mode, "n": n, "dir": dir})
			output = append(output, dst...)
			classes[fmt.Sprintf("aes/%s/%s/%s", dir, mode, cfbLenClass(n, 16))]++
		}
		tr.Add(map[string]any{"k": "end"})
		// the paired session runs the opposite direction over this session's output
		input = output
		if dir == "enc" {
			dir = "dec"
		} else {
			dir = "enc"
		}
	}
}

type cfbRunFn func(tr *vk.Trace, s cfbSession, classes map[string]int)

func cfbJudge(env *vk.Env, label, module, cfg, kind string, sessions []cfbSession, run cfbRunFn) {
	tr := &vk.Trace{}
	start := make([]int, len(sessions))
	classes := map[string]int{}
	for i, s := range sessions {
		start[i] = tr.N + 1
		run(tr, s, classes)
	}
	v, err := env.ValidateTrace(vk.TLCRun{Name: label, Module: module, Cfg: cfg, Workers: 1, Timeout: 30 * time.Minute, Heap: "8g"}, "trace.ndjson", tr.Bytes())
	if err != nil {
		env.Infra("%s: %v", label, err)
		return
	}
	env.Sub(map[string]any{"run": label, "sessions": len(sessions), "events": tr.N, "trace_bytes": len(tr.Bytes()), "accepted": v.Accepted})
	if v.Accepted {
		env.AddTraces(int64(len(sessions)))
		env.AddEval(int64(tr.N))
		for k := range classes {
			env.Distinct(k)
		}
		return
	}
	if v.HWM == 0 {
		env.Infra("%s: trace validation ended without verdict:\n%s", label, v.Res.Output)
		return
	}
	bi := 0
	for i := range sessions {
		if start[i] <= v.HWM {
			bi = i
		}
	}
	sig, detail, again := cfbRejudge(env, module, cfg, sessions[bi], run)
	if again {
		env.Report(sig, detail, map[string]any{"kind": kind, "session": sessions[bi]})
	} else {
		env.Infra("%s: rejection at line %d did not reproduce when session %d was re-run alone", label, v.HWM, sessions[bi].ID)
	}
}

func cfbRejudge(env *vk.Env, module, cfg string, s cfbSession, run cfbRunFn) (sig, detail string, rejected bool) {
	tr := &vk.Trace{}
	run(tr, s, map[string]int{})
	v, err := env.ValidateTrace(vk.TLCRun{Name: "rejudge", Module: module, Cfg: cfg, Workers: 1, NoCount: true}, "trace.ndjson", tr.Bytes())
	if err != nil || v.Accepted || v.HWM == 0 {
		return "", "", false
	}
	lines := cfbSplitLines(tr.Bytes())
	if v.HWM > len(lines) {
		return "", "", false
	}
	var ev struct {
		K    string `json:"k"`
		Dir  string `json:"dir"`
		Mode string `json:"mode"`
		N    int    `json:"n"`
		D    string `json:"d"`
		Ok   bool   `json:"ok"`
		Thr  int    `json:"thr"`
		Msg  string `json:"msg"`
	}
	json.Unmarshal(lines[v.HWM-1], &ev)
	if module == "CFB8_Trace" {
		sig = fmt.Sprintf("CFB8 AES %s: CFB8_Trace rejects event %s (%s, %s)", ev.Dir, ev.K, ev.Mode, cfbLenClass(ev.N, 16))
	} else {
		sig = fmt.Sprintf("encrypted Conn: Chan_Trace rejects event %s (ok=%v)", ev.K, ev.Ok)
	}
	detail = fmt.Sprintf("session %d, line %d of its trace: %s", s.ID, v.HWM, vkTrunc(string(lines[v.HWM-1]), 600))
	return sig, detail, true
}

func cfbSplitLines(b []byte) [][]byte {
	var out [][]byte
	start := 0
	for i, c := range b {
		if c == '\n' {
			if i > start {
				out = append(out, b[start:i])
			}
			start = i + 1
		}
	}
	if start < len(b) {
		out = append(out, b[start:])
	}
	return out
}

// ------------------------------------------------------------------ Conn clause

var cfbThresholds = []int{-1, 0, 64, 256}

func cfbPacketLen(rng *rand.Rand) int {
	switch r := rng.Intn(100); {
	case r < 8:
		return 0
	case r < 20:
		return 1 + rng.Intn(3)
	case r < 45:
		return []int{14, 15, 16, 17, 30, 31, 32, 33, 62, 63, 64, 65, 254, 255, 256, 257}[rng.Intn(16)]
	case r < 80:
		return rng.Intn(600)
	case r < 96:
		return rng.Intn(6000)
	default:
		return 20000 + rng.Intn(50000)
	}
}

func cfbRunConnSession(tr *vk.Trace, s cfbSession, classes map[string]int) {
	rng := newRand(s.Seed, fmt.Sprint("cfb-conn", s.ID))
	thr := cfbThresholds[s.ID%len(cfbThresholds)]
	key := make([]byte, []int{16, 16, 24, 32}[rng.Intn(4)])
	rng.Read(key)
	iv := make([]byte, 16)
	if rng.Intn(3) == 0 {
		iv = make([]byte, 16, 64+rng.Intn(64)) // the shared secret as a prefix of a larger buffer
	}
	if rng.Intn(2) == 0 {
		copy(iv, key)
	} else {
		rng.Read(iv)
	}
	chunkSeed := int64(0)
	if rng.Intn(4) > 0 {
		chunkSeed = rng.Int63() | 1
	}
	endA, endB, _, _ := rconNewDuplex(chunkSeed, []int{1, 7, 16, 17, 100, 1500}[rng.Intn(6)])
	// late: the connection starts in the clear (as the login does) and encryption is switched on in mid-stream - the
	// sender's first encrypted bytes may already be queued behind its last plaintext packet when the receiver switches
	late := s.ID%3 == 1
	enable := func(c *mcnet.Conn) {
		blk, err := aes.NewCipher(key)
		if err != nil {
			panic(err)
		}
		c.SetCipher(CFB8.NewCFB8Encrypt(blk, iv), CFB8.NewCFB8Decrypt(blk, iv))
	}
	// the two settings are independent: either order, on either end
	orderA, orderB := rng.Intn(2) == 0, rng.Intn(2) == 0
	nmk := 0
	mk := func(end *rconMemEnd) *mcnet.Conn {
		c := mcnet.WrapConn(end)
		thrFirst := orderA
		if nmk++; nmk == 2 {
			thrFirst = orderB
		}
		if thrFirst {
			c.SetThreshold(thr)
		}
		if !late {
			enable(c)
		}
		if !thrFirst {
			c.SetThreshold(thr)
		}
		return c
	}
	tr.Add(map[string]any{"k": "reset", "thr": thr, "scn": s.ID, "keylen": len(key)})
	var a, b *mcnet.Conn
	if p, msg := catch(func() { a, b = mk(endA), mk(endB) }); p {
		tr.Add(map[string]any{"k": "panic", "msg": msg})
		return
	}
	inflight := map[string]int{"ab": 0, "ba": 0}
	send := func(d string) bool {
		c := a
		if d == "ba" {
			c = b
		}
		id := []int32{0, 1, 0x7f, 0x80, 0x3fff, 0x4000, int32(rng.Intn(1 << 20))}[rng.Intn(7)]
		n := cfbPacketLen(rng)
		if rng.Intn(150) == 0 {
			// id + payload at the protocol maximum and just below it (the frame around it is longer than that)
			n = 2097152 - len(fvPut(nil, id)) - rng.Intn(4)
		}
		data := make([]byte, n)
		if rng.Intn(2) == 0 {
			rng.Read(data)
		} else {
			for i := range data {
				data[i] = byte(i / 7 % 5)
			}
		}
		var err error
		p, msg := catch(func() { err = c.WritePacket(pk.Packet{ID: id, Data: data}) })
		if p {
			tr.Add(map[string]any{"k": "panic", "msg": msg})
			return false
		}
		h := sha256.Sum256(data)
		tr.Add(map[string]any{"k": "send", "d": d, "id": id, "len": len(data), "sha": hex.EncodeToString(h[:8]), "ok": err == nil})
		inflight[d]++
		classes[fmt.Sprintf("conn/thr%d/send/%s", thr, cfbLenClass(len(data), 128))]++
		return true
	}
	recv := func(d string, expectNone bool) bool {
		c := b
		if d == "ba" {
			c = a
		}
		var p pk.Packet
		var err error
		pn, msg := catch(func() { err = c.ReadPacket(&p) })
		if pn {
			tr.Add(map[string]any{"k": "panic", "msg": msg})
			return false
		}
		h := sha256.Sum256(p.Data)
		k := "recv"
		if expectNone {
			k = "recvnone"
		} else {
			inflight[d]--
		}
		tr.Add(map[string]any{"k": k, "d": d, "ok": err == nil, "id": p.ID, "len": len(p.Data), "sha": hex.EncodeToString(h[:8])})
		return err == nil || expectNone
	}
	if late {
		// a -> b only until both ends have switched: plaintext packets, a switches, encrypted packets; only then does b
		// read the plaintext ones, switch, and read the rest
		np, ne := 1+rng.Intn(2), 1+rng.Intn(3)
		for i := 0; i < np; i++ {
			if !send("ab") {
				return
			}
		}
		if p, msg := catch(func() { enable(a) }); p {
			tr.Add(map[string]any{"k": "panic", "msg": msg})
			return
		}
		for i := 0; i < ne; i++ {
			if !send("ab") {
				return
			}
		}
		for i := 0; i < np; i++ {
			if !recv("ab", false) {
				return
			}
		}
		if p, msg := catch(func() { enable(b) }); p {
			tr.Add(map[string]any{"k": "panic", "msg": msg})
			return
		}
		for i := 0; i < ne; i++ {
			if !recv("ab", false) {
				return
			}
		}
		classes[fmt.Sprintf("conn/thr%d/late-cipher", thr)]++
	}
	n := 4 + rng.Intn(30)
	for i := 0; i < n; i++ {
		d := []string{"ab", "ba"}[rng.Intn(2)]
		if inflight["ab"] == 0 && inflight["ba"] == 0 && rng.Intn(8) == 0 {
			// nothing in flight: both ends enable encryption again with a new key and IV (SetCipher replaces the streams;
			// the connection stays the FIFO channel it was)
			rng.Read(key)
			iv = make([]byte, 16)
			rng.Read(iv)
			if p, msg := catch(func() {
				for _, c := range []*mcnet.Conn{a, b} {
					blk, err := aes.NewCipher(key)
					if err != nil {
						panic(err)
					}
					c.SetCipher(CFB8.NewCFB8Encrypt(blk, iv), CFB8.NewCFB8Decrypt(blk, iv))
				}
			}); p {
				tr.Add(map[string]any{"k": "panic", "msg": msg})
				return
			}
			classes[fmt.Sprintf("conn/thr%d/rekey", thr)]++
		}
		switch {
		case rng.Intn(5) < 3:
			if !send(d) {
				return
			}
		case inflight[d] > 0:
			if !recv(d, false) {
				return
			}
		}
	}
	for _, d := range []string{"ab", "ba"} {
		for inflight[d] > 0 {
			if !recv(d, false) {
				return
			}
		}
	}
	tr.Add(map[string]any{"k": "end"})
}

// ------------------------------------------------------------------ driver

func runC10(env *vk.Env) {
	env.Cov.Rule = "S+A: TLC explores every history of <= 4 (thorough: 5) calls with lengths 0..2*BS+2 for block sizes 2 and 4 (thorough: also 8) over a toy block cipher, checks SplitInvariance / RoundTrip / RegIsWindow and emits the expected output of every call; the real CFB8 runs each history for the assignments of {in place, disjoint dst above, disjoint dst below, dst longer} to its calls (all 4^n for BS=2; uniform + 28 random per history for BS=4 in the quick tier). B: real AES sessions (16/24/32-byte keys, messages 0..4096 bytes, call splits dense around 1, 15..17, 31..34, both directions, each followed by the reverse session) judged by CFB8_Trace from per-byte (window, AES(window)[0]) pairs. Conn: encrypted go-mc Conn pairs with thresholds {-1,0,64,256} judged by Chan_Trace. Distinct/non-trivial = distinct (cipher, direction, aliasing mode, length class) call classes and (threshold, size class) packet classes."
	env.Assume = []string{
		"AES itself is trusted input (crypto/aes computes the keystream byte of every logged window); TLC judges that the window is the specification's register and that dst = src XOR keystream",
		"partial overlaps of dst and src, which the cipher.Stream contract forbids, are not generated",
		"bytes of dst beyond len(src) are not inspected",
		"a call the stream refuses by panicking (output shorter than input; crypto/cipher.Stream: 'should panic') and that the caller recovers from is no part of the message: the register is what it was, the calls that follow are judged against it; a too-short output that is NOT refused ends the session unjudged (what such a call means is not specified)",
		"the toy block cipher E is defined in CFB8.tla and transcribed in c10.go (cfbToy); block sizes must make 2*BS a power of two (requirement of the implementation)",
	}
	if rconLeg("toy") {
		cfgs := []string{"CFB8_MC.cfg", "CFB8_MC4.cfg"}
		if !env.Quick() {
			cfgs = []string{"CFB8_MC_thorough.cfg", "CFB8_MC4_thorough.cfg", "CFB8_MC8_thorough.cfg"}
		}
		for _, cfg := range cfgs {
			full := !env.Quick() || cfg == "CFB8_MC.cfg"
			if cfg == "CFB8_MC_thorough.cfg" {
				full = false // 4^5 assignments x 10^5 histories: sampled
			}
			if !cfbLegToy(env, cfg, full) {
				return
			}
		}
		env.Cov.Exhaustive = true
		if env.Mismatches() > 0 {
			return
		}
	}
	var wg sync.WaitGroup
	if rconLeg("aes") {
		parts, per := env.Pick(4, 8), env.Pick(24, 300)
		for p := 0; p < parts; p++ {
			wg.Add(1)
			go func(p int) {
				defer wg.Done()
				defer guard("c10")
				var ss []cfbSession
				for i := 0; i < per; i++ {
					ss = append(ss, cfbSession{ID: p*per + i, Seed: env.Seed})
				}
				cfbJudge(env, fmt.Sprintf("B AES sessions part %d", p), "CFB8_Trace", "CFB8_Trace.cfg", "aes-session", ss, cfbRunSession)
			}(p)
		}
	}
	if rconLeg("conn") {
		parts, per := env.Pick(2, 4), env.Pick(60, 1500)
		for p := 0; p < parts; p++ {
			wg.Add(1)
			go func(p int) {
				defer wg.Done()
				defer guard("c10")
				var ss []cfbSession
				for i := 0; i < per; i++ {
					ss = append(ss, cfbSession{ID: p*per + i, Seed: env.Seed})
				}
				cfbJudge(env, fmt.Sprintf("Conn sessions part %d", p), "Chan_Trace", "Chan_Trace.cfg", "conn-session", ss, cfbRunConnSession)
			}(p)
		}
	}
	wg.Wait()
	env.Sample(map[string]any{"aes_session": 0, "seed": env.Seed, "note": "sessions are regenerated from (seed, id)"})
}

func replayC10(env *vk.Env, b []byte) {
	var f struct {
		Replay struct {
			Kind    string     `json:"kind"`
			Vec     cfbVec     `json:"vec"`
			Modes   []int      `json:"modes"`
			Session cfbSession `json:"session"`
		} `json:"replay"`
	}
	if err := json.Unmarshal(b, &f); err != nil {
		env.Infra("replay file: %v", err)
		return
	}
	r := f.Replay
	switch r.Kind {
	case "vector":
		if sig, detail := cfbCheckVector(r.Vec, r.Modes); sig != "" {
			env.Report(sig, detail, r)
		}
	case "aes-session":
		if sig, detail, rej := cfbRejudge(env, "CFB8_Trace", "CFB8_Trace.cfg", r.Session, cfbRunSession); rej {
			env.Report(sig, detail, r)
		}
	case "conn-session":
		if sig, detail, rej := cfbRejudge(env, "Chan_Trace", "Chan_Trace.cfg", r.Session, cfbRunConnSession); rej {
			env.Report(sig, detail, r)
		}
	default:
		env.Infra("unknown replay kind %q", r.Kind)
	}
	env.Cov.States, env.Cov.Transitions = 1, 1
	env.Sample(r.Kind)
}
