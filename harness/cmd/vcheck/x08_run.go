package main

// X08: running scenarios. Scripted runs (leg A): the driver performs one step of a TLC behaviour at a time (a client
// packet / close, or the release of one gate), waits until every goroutine is parked again and compares the
// projection of the real objects with the state TLC computed. Free runs (leg B): one goroutine per client with its
// own seeded plan, nothing is gated.

import (
	"fmt"
	"runtime"
	"sync/atomic"
	"time"
)

// slPatience: how long the harness waits for something that must happen before it calls it a hang. Only a real hang
// costs this time; the machine is shared, so it is generous.
const slPatienceMax = 12 * time.Second

var slHangs atomic.Int32

// once a run has seen several hangs (a tree in which connections are never closed, say) it stops being patient
func slPatienceNow() time.Duration {
	if slHangs.Load() >= 3 {
		return 500 * time.Millisecond
	}
	return slPatienceMax
}

// slState is the abstract state of ServerLife.tla as far as it can be projected from the real objects.
type slState struct {
	Pc     []string `json:"pc"`
	Alive  []bool   `json:"alive"`
	List   []int    `json:"list"`
	Inside []int    `json:"inside"`
	Acc    [][4]int `json:"acc"`
	Chk    []string `json:"chk"`
	Cres   []string `json:"cres"`
	Kicked []bool   `json:"kicked"`
	Cfgok  []bool   `json:"cfgok"`
	Son    []int    `json:"son"`
	Ssam   [][]int  `json:"ssam"`
	Cst    [][]int  `json:"cst"` // nil = no response; else online followed by the sample
}

// where a goroutine blocked in a read is, by what the client has sent so far
func slReadPc(intent, sent int) string {
	switch {
	case sent == 0:
		return "hs"
	case intent == 1 && sent == 1:
		return "st"
	case intent == 1 && sent == 2:
		return "st2"
	case intent == 2 && sent == 1:
		return "login"
	case intent == 2 && sent == 2:
		return "waitack"
	case intent == 2 && sent == 3:
		return "config"
	}
	return fmt.Sprint("read", sent)
}

func (w *slWorld) project() slState {
	n := len(w.conns)
	st := slState{Pc: make([]string, n), Alive: make([]bool, n), List: w.sample(), Inside: []int{}, Acc: make([][4]int, n), Chk: make([]string, n),
		Cres: make([]string, n), Kicked: make([]bool, n), Cfgok: make([]bool, n), Son: make([]int, n), Ssam: make([][]int, n), Cst: make([][]int, n)}
	for i, c := range w.conns {
		c.mu.Lock()
		st.Alive[i], st.Acc[i], st.Chk[i], st.Cres[i], st.Kicked[i], st.Cfgok[i], st.Son[i] = c.alive, c.acc, c.chk, c.cres, c.kicked, c.cfgok, c.son
		st.Ssam[i] = append([]int{}, c.ssam...)
		if c.cst != nil {
			st.Cst[i] = append([]int{}, c.cst...)
		}
		if c.inside {
			st.Inside = append(st.Inside, c.c)
		}
		done, sent := c.isDone, c.sent
		c.mu.Unlock()
		switch {
		case !c.started:
			st.Pc[i] = "idle"
		case done:
			st.Pc[i] = "closed"
		case w.gates != nil && w.gates.at(c.c) != "":
			st.Pc[i] = w.gates.at(c.c)
		case c.srvEnd.in.idle():
			st.Pc[i] = slReadPc(c.cfg.Intent, sent)
		default:
			st.Pc[i] = "running"
		}
	}
	return st
}

func eqIntSlices(a, b []int) bool {
	if len(a) != len(b) {
		return false
	}
	for i := range a {
		if a[i] != b[i] {
			return false
		}
	}
	return true
}

// slDiff names the first component in which the projection differs from the specification's state.
func slDiff(got, want slState) (field, detail string) {
	n := len(want.Pc)
	if !eqIntSlices(got.List, want.List) {
		return "list", fmt.Sprintf("PlayerList holds %v, the specification %v", got.List, want.List)
	}
	if !eqIntSlices(got.Inside, want.Inside) {
		return "inside", fmt.Sprintf("inside AcceptPlayer: %v, the specification %v", got.Inside, want.Inside)
	}
	for i := 0; i < n && i < len(got.Pc); i++ {
		c := i + 1
		switch {
		case got.Pc[i] != want.Pc[i]:
			return "pc", fmt.Sprintf("connection %d is at %q, the specification at %q", c, got.Pc[i], want.Pc[i])
		case got.Alive[i] != want.Alive[i]:
			return "alive", fmt.Sprintf("connection %d alive=%v", c, got.Alive[i])
		case got.Acc[i] != want.Acc[i]:
			return "acc", fmt.Sprintf("AcceptPlayer of connection %d was given (name,uuid,protocol,conn) of %v, the specification %v", c, got.Acc[i], want.Acc[i])
		case got.Chk[i] != want.Chk[i]:
			return "chk", fmt.Sprintf("checker answered %q for connection %d, the specification %q", got.Chk[i], c, want.Chk[i])
		case got.Cres[i] != want.Cres[i]:
			return "cres", fmt.Sprintf("client %d received %q at the end of login, the specification %q", c, got.Cres[i], want.Cres[i])
		case got.Kicked[i] != want.Kicked[i]:
			return "kicked", fmt.Sprintf("ClientJoin refused connection %d: %v, the specification %v", c, got.Kicked[i], want.Kicked[i])
		case got.Cfgok[i] != want.Cfgok[i]:
			return "cfgok", fmt.Sprintf("AcceptConfig of connection %d succeeded: %v, the specification %v", c, got.Cfgok[i], want.Cfgok[i])
		case got.Son[i] != want.Son[i]:
			return "son", fmt.Sprintf("OnlinePlayer for ping %d answered %d, the specification %d", c, got.Son[i], want.Son[i])
		case !eqIntSlices(got.Ssam[i], want.Ssam[i]):
			return "ssam", fmt.Sprintf("PlayerSamples for ping %d answered %v, the specification %v", c, got.Ssam[i], want.Ssam[i])
		case (got.Cst[i] == nil) != (want.Cst[i] == nil) || !eqIntSlices(got.Cst[i], want.Cst[i]):
			return "cst", fmt.Sprintf("status response seen by client %d: %v, the specification %v", c, got.Cst[i], want.Cst[i])
		}
	}
	return "", ""
}

// quiet: every goroutine of the world is parked (at a gate, in a read nothing will end) or has finished
func (w *slWorld) quiet() bool {
	for _, c := range w.conns {
		if !c.started {
			continue
		}
		c.mu.Lock()
		done, rdDone := c.isDone, c.rdDone
		c.mu.Unlock()
		if !done && w.gates.at(c.c) == "" && !c.srvEnd.in.idle() {
			return false
		}
		if !rdDone && !c.cli.in.idle() {
			return false
		}
	}
	return true
}

func (w *slWorld) quiesce(d time.Duration) bool {
	deadline := time.Now().Add(d)
	okRuns := 0
	for i := 0; ; i++ {
		if w.quiet() {
			okRuns++
			if okRuns >= 2 {
				return true
			}
		} else {
			okRuns = 0
		}
		if time.Now().After(deadline) {
			return false
		}
		if i < 200 {
			runtime.Gosched()
		} else {
			time.Sleep(20 * time.Microsecond)
		}
	}
}

// finish: everything still running is allowed to end (gates open, clients close), then the quiesce line is written
func (w *slWorld) finish(d time.Duration) (hung []int) {
	for _, c := range w.conns {
		if c.started {
			c.mu.Lock()
			if c.cmd == "" {
				c.cmd = "join"
			}
			c.mu.Unlock()
		}
	}
	if w.gates != nil {
		for _, c := range w.conns { // (a client whose connection the server has already ended has seen the end of the stream)
			c.mu.Lock()
			done := c.isDone
			c.mu.Unlock()
			if c.started && !done {
				w.closeClient(c)
			}
		}
		w.gates.openAll()
	}
	all := make(chan struct{})
	go func() { w.wg.Wait(); close(all) }()
	select {
	case <-all:
	case <-time.After(d):
		slHangs.Add(1)
		for _, c := range w.conns {
			c.mu.Lock()
			done := c.isDone
			c.mu.Unlock()
			if c.started && !done {
				hung = append(hung, c.c)
				w.log.add(slEv{K: "hang", C: c.c})
			}
		}
		for _, c := range w.conns { // release what is stuck so that the goroutines do not pile up
			if c.started {
				c.cli.Close()
				c.srvEnd.Close()
			}
		}
		select {
		case <-all:
		case <-time.After(2 * time.Second):
		}
	}
	w.log.add(slEv{K: "quiesce", R: w.pl.Len(), Sam: w.sample()})
	return hung
}

type slRunResult struct {
	Ev     []slEv
	Field  string // scripted: first component that differed ("" none)
	Detail string
	Step   int
	Hung   []int
}

// slRunScript replays one TLC behaviour step by step.
func slRunScript(sc *slScenario) *slRunResult {
	w := newSlWorld(sc, true)
	res := &slRunResult{Step: -1}
	for k, st := range sc.Script {
		c := w.conn(st.C)
		if c == nil {
			break
		}
		gate := func(name, cmd string) {
			if cmd != "" {
				c.mu.Lock()
				c.cmd = cmd
				c.mu.Unlock()
			}
			w.gates.release(c.c, name)
		}
		switch st.Op {
		case "Connect":
			w.connect(c)
		case "Handshake":
			w.sendKind(c, "handshake")
		case "LoginStart":
			w.sendKind(c, "loginstart")
		case "Ack":
			w.sendKind(c, "ack")
		case "FinishAck":
			w.sendKind(c, "finishack")
		case "StatusReq":
			w.sendKind(c, "statusreq")
		case "Ping":
			w.sendKind(c, "ping")
		case "CClose":
			w.closeClient(c)
		case "Check":
			gate("check", "")
		case "Config":
			gate("cfg", "")
		case "Accept":
			gate("cfgret", "")
		case "Join":
			gate("accept", "join")
		case "Decline":
			gate("accept", "decline")
		case "Leave":
			gate("play", "")
		case "StatusOnline":
			gate("online", "")
		case "StatusSample":
			gate("sample", "")
		}
		if !w.quiesce(slPatienceNow()) {
			slHangs.Add(1)
			res.Field, res.Detail, res.Step = "quiet", fmt.Sprintf("after step %d (%s %d) the goroutines did not come to rest: %v", k, st.Op, st.C, w.project().Pc), k
			break
		}
		if k < len(sc.Expect) {
			if f, d := slDiff(w.project(), sc.Expect[k]); f != "" {
				res.Field, res.Detail, res.Step = f, fmt.Sprintf("after step %d (%s %d): %s", k, st.Op, st.C, d), k
				break
			}
		}
	}
	res.Hung = w.finish(2 * slPatienceNow())
	res.Ev = w.log.snapshot()
	return res
}

// slRunFree: every client is a goroutine with its own plan.
func slRunFree(sc *slScenario) *slRunResult {
	w := newSlWorld(sc, false)
	done := make(chan struct{}, len(w.conns))
	for _, c := range w.conns {
		go func(c *slConn) {
			defer func() { done <- struct{}{} }()
			w.freeClient(c)
		}(c)
	}
	for range w.conns {
		<-done
	}
	res := &slRunResult{Step: -1}
	res.Hung = w.finish(2 * slPatienceNow())
	res.Ev = w.log.snapshot()
	return res
}

func (w *slWorld) freeClient(c *slConn) {
	rng := newRand(w.sc.Seed, fmt.Sprint("x08cli", w.sc.ID, "/", c.c))
	nap := func() {
		if w.sc.Jitter > 0 {
			switch rng.Intn(3) {
			case 0:
				runtime.Gosched()
			case 1:
				time.Sleep(time.Duration(rng.Intn(w.sc.Jitter)+1) * time.Microsecond)
			}
		}
	}
	closeAt := func(at string) bool {
		if c.cfg.Close == at {
			nap()
			w.closeClient(c)
			return true
		}
		return false
	}
	// await one of the kinds (or the end of the stream)
	await := func(kinds ...string) string {
		t := time.NewTimer(slPatienceNow())
		defer t.Stop()
		for {
			select {
			case k, ok := <-c.gotc:
				if !ok {
					return "eof"
				}
				for _, x := range kinds {
					if x == k {
						return k
					}
				}
			case <-t.C:
				slHangs.Add(1)
				return "timeout"
			}
		}
	}
	time.Sleep(time.Duration(rng.Intn(3*w.sc.Jitter+1)) * time.Microsecond)
	w.connect(c)
	defer func() { // a client that has nothing more to say waits for the server to end the connection, then closes
		c.mu.Lock()
		alive := c.alive
		c.mu.Unlock()
		if alive {
			if await("eof") != "eof" { // the client gives up waiting: an ordinary (logged) close
				w.closeClient(c)
				return
			}
			c.mu.Lock()
			c.alive = false
			c.mu.Unlock()
			c.cli.Close()
		}
	}()
	if closeAt("hs") {
		return
	}
	nap()
	w.sendKind(c, "handshake")
	switch c.cfg.Intent {
	case 1:
		if closeAt("st") {
			return
		}
		nap()
		w.sendKind(c, "statusreq")
		if closeAt("online") {
			return
		}
		if await("status", "eof") != "status" || closeAt("st2") {
			return
		}
		nap()
		w.sendKind(c, "ping")
		await("pong", "eof")
	case 2:
		if closeAt("login") {
			return
		}
		nap()
		w.sendKind(c, "loginstart")
		if closeAt("check") {
			return
		}
		if await("success", "disc", "eof") != "success" || closeAt("waitack") {
			return
		}
		nap()
		w.sendKind(c, "ack")
		if closeAt("cfg") {
			return
		}
		if w.sc.Cmode == "wait" {
			if await("finish", "eof") != "finish" || closeAt("config") {
				return
			}
			nap()
			w.sendKind(c, "finishack")
		}
		if c.cfg.Close == "play" {
			time.Sleep(time.Duration(rng.Intn(c.cfg.StayUs+1)) * time.Microsecond)
			w.closeClient(c)
		}
	}
}
