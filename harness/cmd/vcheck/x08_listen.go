package main

// X08: Server.Listen itself. A real server.Server listens on a loopback TCP port; a series of failing connections
// (closed at once, garbage, a length prefix that never ends, half a handshake, a login cut after the hello) is
// followed by one status ping and one login. The two good connections are recorded like any other scenario (the
// harness's callbacks recognise them by protocol number / name because Listen starts the goroutines) and judged by
// ServerLife_Trace; if the accept loop is gone they are never served and the scenario hangs (LoopAlive).

import (
	"encoding/json"
	"fmt"
	"net"
	"os"
	"os/exec"
	"strconv"
	"strings"
	"time"

	"verif/harness/vk"
)

type slTCPEnd struct {
	net.Conn
	idleFn func() bool
}

func slListenScenario(seed int64, id int) (*slScenario, *slRunResult, string) {
	rng := newRand(seed, fmt.Sprint("x08listen", id))
	sc := &slScenario{ID: id, Origin: "listen", Seed: seed, K: 1, Cmode: "real", Thr: -1,
		Conns: []slConnCfg{{Intent: 1}, {Intent: 2, Game: "imm"}}}
	w := newSlWorld(sc, false)
	w.listen = true
	addr := ""
	for try := 0; try < 30 && addr == ""; try++ {
		a := fmt.Sprintf("127.0.0.1:%d", 20000+rng.Intn(30000))
		errc := make(chan error, 1)
		go func() { errc <- w.srv.Listen(a) }()
		select {
		case <-errc:
		case <-time.After(60 * time.Millisecond):
			if c, err := net.DialTimeout("tcp", a, time.Second); err == nil {
				c.Close()
				addr = a
			}
		}
	}
	if addr == "" {
		return sc, nil, "no loopback port for Server.Listen"
	}
	// failing connections
	bad := [][]byte{
		nil,                                  // closed at once
		{0xff, 0xff, 0xff, 0xff, 0xff, 0xff}, // a length that never ends
		{0x05, 0x00, 0x01},                   // half a packet
		{0x02, 0x00, 0xff},                   // a handshake that does not parse
		{0x01, 0x7a},                         // unknown packet id
		append([]byte{0x0f, 0x00, 0xfc, 0x05, 0x08}, []byte("x08.test\x63\xdd\x02\x05\x00\x03abc")...), // login cut inside the hello
	}
	for round := 0; round < 3; round++ {
		for _, b := range bad {
			c, err := net.DialTimeout("tcp", addr, time.Second)
			if err != nil {
				continue
			}
			if b != nil {
				c.Write(b)
			}
			if rng.Intn(2) == 0 {
				time.Sleep(time.Duration(rng.Intn(300)) * time.Microsecond)
			}
			c.Close()
		}
	}
	time.Sleep(5 * time.Millisecond)
	// the two good connections, one after the other
	for _, c := range w.conns {
		tc, err := net.DialTimeout("tcp", addr, time.Second)
		if err != nil {
			w.log.add(slEv{K: "conn", C: c.c})
			w.log.add(slEv{K: "hang", C: c.c, Reason: "dial: " + err.Error()})
			continue
		}
		slRunTCPClient(w, c, tc)
	}
	res := &slRunResult{Step: -1}
	w.log.add(slEv{K: "quiesce", R: w.pl.Len(), Sam: w.sample()})
	res.Ev = w.log.snapshot()
	return sc, res, ""
}

// slRunTCPClient speaks for connection c over a TCP connection; the stream's end stands for the goroutine's return
func slRunTCPClient(w *slWorld, c *slConn, tc net.Conn) {
	a, b := slPipe() // the client code writes into a pipe end; two pumps connect it with the socket
	c.cli, c.srvEnd = a, b
	c.started = true
	w.log.add(slEv{K: "conn", C: c.c})
	if c.cfg.Intent == 1 {
		w.stMu.Lock()
		w.stCur = c.c
		w.stMu.Unlock()
	}
	go func() { // socket -> client
		buf := make([]byte, 4096)
		for {
			n, err := tc.Read(buf)
			if n > 0 {
				b.Write(buf[:n])
			}
			if err != nil {
				b.Close()
				return
			}
		}
	}()
	go func() { // client -> socket
		buf := make([]byte, 4096)
		for {
			n, err := b.Read(buf)
			if n > 0 {
				tc.Write(buf[:n])
			}
			if err != nil {
				return
			}
		}
	}()
	w.wg.Add(1)
	go func() { defer w.wg.Done(); w.clientReader(c) }()
	await := func(kinds ...string) string {
		t := time.NewTimer(slPatienceNow())
		defer t.Stop()
		for {
			select {
			case k, ok := <-c.gotc:
				if !ok {
					return "eof"
				}
				for _, x := range kinds {
					if x == k {
						return k
					}
				}
			case <-t.C:
				return "timeout"
			}
		}
	}
	ok := true
	step := func(kind string, want ...string) {
		if !ok {
			return
		}
		w.sendKind(c, kind)
		if len(want) > 0 && await(want...) != want[0] {
			ok = false
		}
	}
	if c.cfg.Intent == 1 {
		step("handshake")
		step("statusreq", "status")
		step("ping", "pong")
	} else {
		step("handshake")
		step("loginstart", "success")
		step("ack")
	}
	if ok && await("eof") == "eof" {
		w.log.add(slEv{K: "done", C: c.c})
	} else {
		w.log.add(slEv{K: "hang", C: c.c, Reason: "not served"})
	}
	tc.Close()
	a.Close()
}

// slListenChild: the scenario runs in a process of its own (a panic in a goroutine of Server.Listen ends the process -
// which is exactly what "the accept loop is down" means - and must not take the other legs' results with it).
func slListenChild() {
	id, _ := strconv.Atoi(os.Getenv("VERIF_X08_LISTEN"))
	seed, _ := strconv.ParseInt(os.Getenv("VERIF_SEED"), 10, 64)
	if seed == 0 {
		seed = 1
	}
	sc, res, infra := slListenScenario(seed, id)
	out := map[string]any{"scenario": sc, "infra": infra}
	if res != nil {
		out["events"] = res.Ev
	}
	b, _ := json.Marshal(out)
	fmt.Println("X08LISTEN " + string(b))
	os.Exit(0)
}

func slListenLeg(env *vk.Env, book *slBook) {
	var runs []slJudged
	exe, err := os.Executable()
	if err != nil {
		env.Note("spec-extension X08 info: Server.Listen scenario skipped: %v", err)
		return
	}
	for i := 0; i < env.Pick(1, 3); i++ {
		id := 800000 + i
		cmd := exec.Command(exe, "X08", "quick")
		cmd.Env = append(os.Environ(), fmt.Sprint("VERIF_X08_LISTEN=", id), fmt.Sprint("VERIF_SEED=", env.Seed))
		outb, runErr := cmd.CombinedOutput()
		var got struct {
			Sc    *slScenario `json:"scenario"`
			Infra string      `json:"infra"`
			Ev    []slEv      `json:"events"`
		}
		found := false
		for _, line := range strings.Split(string(outb), "\n") {
			if strings.HasPrefix(line, "X08LISTEN ") && json.Unmarshal([]byte(line[len("X08LISTEN "):]), &got) == nil {
				found = true
			}
		}
		switch {
		case !found: // the process died: Server.Listen's goroutines are not protected by anything
			msg := "process ended without a result"
			for _, line := range strings.Split(string(outb), "\n") {
				if strings.HasPrefix(line, "panic:") {
					msg = vkTrunc(line, 160)
					break
				}
			}
			book.add(slSig("NoPanic"), fmt.Sprintf("listen scenario %d: the process running Server.Listen died (%v): %s", id, runErr, msg),
				slReplayOf(&slScenario{ID: id, Origin: "listen", Seed: env.Seed, K: 1, Cmode: "real", Thr: -1, Conns: []slConnCfg{{Intent: 1}, {Intent: 2, Game: "imm"}}}))
		case got.Infra != "" || got.Sc == nil:
			env.Note("spec-extension X08 info: Server.Listen scenario skipped: %s", got.Infra)
		default:
			runs = append(runs, slJudged{got.Sc, &slRunResult{Ev: got.Ev, Step: -1}})
		}
	}
	if len(runs) == 0 {
		return
	}
	lb := &slBook{}
	slJudge(env, lb, "B Server.Listen", runs)
	for sig, f := range lb.m { // in this scenario a connection that is never served means the accept loop is gone
		if strings.HasPrefix(sig, "Terminates") {
			sig = slSig("LoopAlive")
		}
		for k := 0; k < f.n; k++ {
			book.add(sig, f.first, f.replay)
		}
	}
}
