package main

// X13: specification extension - the world store as a COMPOSITION of layers (region file -> payload envelope with its
// compression byte -> save.Chunk NBT document -> level.Chunk -> network form). Specs: specs/WorldStore.tla (+_Gen, _Trace).
// Leg S:  TLC explores WorldStore_MC (Variant "intent") exhaustively: Refines (the abstract map is the abstraction of what
//         the layers hold), SizeOK, Frame, ReadOnly, RefusedNoop, AcceptedPut, GetLaw, RelayLaw; the variants "code_*"
//         (the layers as go-mc has them) are EXPECTED to be rejected - the model-level form of the findings -, the variants
//         "broken_*" are vacuity guards.
// Leg A:  TLC -simulate behaviours of WorldStore_Gen (Variant "code") replayed on a real region file; after every step the
//         projected store is compared with the state TLC computed.
// Leg B:  seeded random histories and fixed hazard scenarios (sector-count boundaries, the 255-sector limit, every kind of
//         unreadable payload, load-modify-save cycles, growth and shrinking between neighbours).
// All executions are recorded as ndjson (+ the table of abstract chunks) and judged per line by WorldStore_Trace in TLC.
// An extension check never raises VIOLATION: rejections are `NOTE spec-extension WorldStore finding: ...`, exit code 0.

import (
	"bytes"
	"encoding/json"
	"fmt"
	"math/rand"
	"os"
	"path/filepath"
	"regexp"
	"sort"
	"strconv"
	"strings"
	"sync"
	"sync/atomic"
	"time"

	"github.com/Tnze/go-mc/level/block"
	"github.com/Tnze/go-mc/save"
	"verif/harness/vk"
)

func init() { drivers["X13"] = driver{run: runX13, replay: replayX13} }

// names of the checks of WorldStore_Trace (printed as <<"X13FAIL", line, {checks}>>)
var xsChecks = map[int][2]string{
	1:  {"NoPanic", "the call panicked"},
	2:  {"Fresh", "a new region file is not empty"},
	3:  {"PutAccepted", "PutChunk (ChunkToSave ; Data ; WriteSector) with a valid compression byte and a payload that fits 255 sectors reports an error"},
	4:  {"PutRefusedBig", "a payload of more than 255 sectors is not refused, or the refusal changes the store"},
	5:  {"PutUnknownCT", "a Put with an unknown compression byte is not refused, or the refusal changes the store"},
	6:  {"PutFailedNoop", "a Put that reports an error changed the store"},
	7:  {"PutEnvelope", "after an accepted Put the file does not hold the compression byte asked for, a length word that counts that byte, or the sector count the length needs"},
	8:  {"PutPayloadWhole", "after an accepted Put an independent reader cannot read the payload (compressed stream incomplete / not exactly one NBT document)"},
	9:  {"PutReadable", "GetChunk (ReadSector ; Load ; ChunkFromSave) fails on what an accepted Put stored"},
	10: {"PutGetShape", "GetChunk after Put answers another number of sections"},
	11: {"PutGetBlocks", "GetChunk after Put answers other block states"},
	12: {"PutGetBiomes", "GetChunk after Put answers other biomes"},
	13: {"PutGetStatus", "GetChunk after Put answers another status"},
	14: {"PutGetHM", "GetChunk after Put answers other height maps"},
	15: {"PutGetEnts", "GetChunk after Put answers other block entities than the level chunk held"},
	16: {"PutGetMeta", "GetChunk after Put answers another position, yPos or DataVersion"},
	17: {"PutGetBulk", "GetChunk after Put answers another `entities` ballast"},
	18: {"PutFrame", "a Put changes another coordinate"},
	19: {"GetResult", "GetChunk answers something else than the store holds, or no error for an absent / unreadable chunk"},
	20: {"ReadOnly", "GetChunk / Relay change the store"},
	21: {"ReopenNoop", "Close + Open changes the store or fails"},
	22: {"CorruptSurfaces", "an unreadable payload (unknown compression byte, cut short, body compressed otherwise than the byte says, zero length, no body, height maps of the wrong length) does not surface as an error"},
	23: {"CorruptTail", "a payload that lost its last bytes is read as another chunk than the one stored"},
	24: {"CorruptFrame", "rewriting one payload changes another coordinate"},
	25: {"RelayOutcome", "Relay (GetChunk ; WriteTo ; ReadFrom of a second chunk) fails on a stored chunk, or answers for an absent / unreadable one"},
	26: {"RelayBlocks", "the chunk read from the network form has other sections / block states"},
	27: {"RelayBiomes", "the chunk read from the network form has other biomes"},
	28: {"RelayHM", "the chunk read from the network form has other WORLD_SURFACE / MOTION_BLOCKING maps (or any of the other four)"},
	29: {"RelayEnts", "the chunk read from the network form has other block entities"},
	30: {"RelayConsumed", "the reader of the network form leaves bytes unread"},
	31: {"LoadRaw", "Chunk.Load of a byte string without a body answers no error"},
	32: {"PutPosition", "after an accepted Put an independent reader does not find xPos / zPos of the coordinate in the stored document"},
}

// ------------------------------------------------------------------ findings book (NOTE lines, never violations)

type xsFinding struct {
	sig, first string
	n          int
	replay     any
}

type xsBook struct {
	mu sync.Mutex
	m  map[string]*xsFinding
}

func (b *xsBook) add(sig, detail string, replay any) {
	b.mu.Lock()
	defer b.mu.Unlock()
	if b.m == nil {
		b.m = map[string]*xsFinding{}
	}
	f := b.m[sig]
	if f == nil {
		f = &xsFinding{sig: sig, first: detail, replay: replay}
		b.m[sig] = f
	}
	f.n++
}

func (b *xsBook) flush(env *vk.Env) {
	keys := make([]string, 0, len(b.m))
	for k := range b.m {
		keys = append(keys, k)
	}
	sort.Strings(keys)
	for _, k := range keys {
		f := b.m[k]
		where := ""
		if f.replay != nil && env.Replay == "" {
			name := f.sig
			if i := strings.Index(name, " - "); i > 0 {
				name = name[:i]
			}
			name = strings.Map(func(r rune) rune {
				if r >= 'a' && r <= 'z' || r >= 'A' && r <= 'Z' || r >= '0' && r <= '9' {
					return r
				}
				return '_'
			}, name)
			p := filepath.Join(vk.Root, "out", "replays", fmt.Sprintf("X13-WorldStore-%s.json", name))
			os.MkdirAll(filepath.Dir(p), 0o755)
			body, _ := json.Marshal(map[string]any{"property": "X13", "signature": f.sig, "detail": f.first,
				"replay": map[string]any{"scenario": f.replay, "seed": env.Seed}})
			if os.WriteFile(p, body, 0o644) == nil {
				where = "; replay=" + p
			}
		}
		env.Note("spec-extension WorldStore finding: %s (%d events; first: %s%s)", f.sig, f.n, vkTrunc(f.first, 420), where)
	}
	if len(keys) == 0 {
		env.Note("spec-extension X13: no finding in this run")
	}
}

// ------------------------------------------------------------------ scenarios

type xsOp struct {
	Op      string   `json:"op"` // put ext corrupt get reopen relay loadraw
	I       int      `json:"i"`  // coordinate (0-based index into Coords)
	Lv      *xsChunk `json:"lv,omitempty"`
	Dst     xsDst    `json:"dst"`
	CT      int      `json:"ct,omitempty"`
	Mode    string   `json:"mode,omitempty"`   // put: fresh | prep | edit
	Target  int      `json:"target,omitempty"` // payload length aimed at (needs ballast)
	Over    bool     `json:"over,omitempty"`   // ext: stay above the target if it cannot be hit
	Kind    string   `json:"kind,omitempty"`   // corrupt
	Shuffle bool     `json:"shuffle,omitempty"`
	Sparse  bool     `json:"sparse,omitempty"` // ext: a document without PostProcessing / structures
	N       int      `json:"n,omitempty"`      // loadraw: length of the byte string
	// leg A: what TLC computed for the state after the step (Variant "code")
	ExpSeen []xsExp `json:"expseen,omitempty"`
	ExpErr  *bool   `json:"experr,omitempty"`
	ExpRet  *xsExp  `json:"expret,omitempty"`
}

type xsExp struct {
	K string   `json:"k"` // absent | bad | chunk | error
	C *xsChunk `json:"c,omitempty"`
}

type xsScenario struct {
	ID     int      `json:"id"`
	Origin string   `json:"origin"`
	Coords [][2]int `json:"coords"`
	Ops    []xsOp   `json:"ops"`
}

type xsMeta struct {
	Scenario int
	Origin   string
	Op       int
	Class    string
	Kind     string
}

type xsTrace struct {
	tr   vk.Trace
	meta []xsMeta
	defs *xsDefs
	scen map[int]*xsScenario
}

func newXsTrace() *xsTrace { return &xsTrace{defs: newXsDefs(), scen: map[int]*xsScenario{}} }

var xsCTName = map[int]string{1: "gzip", 2: "zlib", 3: "uncompressed"}

func xsClass(op xsOp) string {
	switch op.Op {
	case "put", "ext":
		w := "lib"
		if op.Op == "ext" {
			w = "ext"
		}
		ct, ok := xsCTName[op.CT]
		if !ok {
			ct = "unknown byte"
		}
		c := w + " " + ct
		if op.Mode == "fresh" && ok {
			c = w + ", fresh destination"
		}
		if op.Mode == "edit-sparse" {
			c += ", destination = a loaded document without PostProcessing / structures"
		}
		return c
	case "corrupt":
		return op.Kind
	case "loadraw":
		return fmt.Sprintf("%d bytes", op.N)
	}
	return ""
}

// ------------------------------------------------------------------ executor

type xsExec struct {
	st      *xsStore
	t       *xsTrace
	sc      *xsScenario
	rng     *rand.Rand
	book    *xsBook
	classes map[string]int
	opIdx   int
	sparse  map[int]bool // coordinates whose stored document came from a sparse foreign writer
	differs map[int]bool // leg A: coordinates that already differ from TLC's state (reported once, when they start to)
}

func (x *xsExec) emit(op xsOp, f map[string]any) {
	obs, raw, panicked := x.st.obs()
	ev := map[string]any{"k": op.Op, "i": 0, "xz": []int{0, 0}, "lv": 0, "dst": xsDst{Bents: [][]int{}}, "ct": 0, "len": 0, "writer": "", "mode": "", "kind": "",
		"err": false, "panicked": panicked, "stage": "", "why": "", "ret": 0, "left": 0, "obs": obs, "raw": raw}
	for k, v := range f {
		if k == "panicked" {
			v = v.(bool) || panicked
		}
		ev[k] = v
	}
	if ev["k"] == "ext" {
		ev["k"], ev["writer"] = "put", "ext"
	}
	cls := xsClass(op)
	x.t.tr.Add(ev)
	x.t.meta = append(x.t.meta, xsMeta{Scenario: x.sc.ID, Origin: x.sc.Origin, Op: x.opIdx, Class: cls, Kind: op.Op})
	x.t.scen[x.sc.ID] = x.sc
	outcome := "ok"
	if e, _ := ev["err"].(bool); e {
		outcome = "err:" + fmt.Sprint(ev["stage"])
	}
	x.classes[fmt.Sprint(op.Op, "/", cls, "/", outcome)]++
	x.checkExp(op, ev, obs)
}

func (x *xsExec) expMatches(e xsExp, id int) bool {
	switch e.K {
	case "absent":
		return id == 0
	case "bad", "error":
		return id == -1
	case "chunk":
		return id > 0 && e.C != nil && xsKey(x.t.defs.list[id-1]) == xsKey(xsCanon(*e.C))
	}
	return false
}

func (x *xsExec) show(id int) string {
	switch {
	case id == 0:
		return "absent"
	case id < 0:
		return "unreadable"
	}
	return vkTrunc(xsKey(x.t.defs.list[id-1]), 200)
}

// checkExp: leg A - the projected store against the state TLC computed with the model of the code as it is
func (x *xsExec) checkExp(op xsOp, ev map[string]any, obs []int) {
	if op.ExpSeen == nil {
		return
	}
	sig := fmt.Sprintf("Replay(%s)[%s] - a TLC behaviour of WorldStore_Gen (the layers as the code has them) replayed on a real region file: ", op.Op, xsClass(op))
	for j, e := range op.ExpSeen {
		if j >= len(obs) {
			break
		}
		if x.expMatches(e, obs[j]) {
			delete(x.differs, j)
		} else if !x.differs[j] {
			x.differs[j] = true
			want := e.K
			if e.C != nil {
				want = vkTrunc(xsKey(xsCanon(*e.C)), 200)
			}
			x.book.add(sig+"the store after the call differs from the state TLC computed",
				fmt.Sprintf("scenario %d op %d coordinate %v: TLC %s, real %s", x.sc.ID, x.opIdx, x.sc.Coords[j], want, x.show(obs[j])), x.sc)
		}
	}
	if op.ExpErr != nil && *op.ExpErr != ev["err"].(bool) {
		x.book.add(sig+"the call's error answer differs from the one TLC computed",
			fmt.Sprintf("scenario %d op %d: TLC err=%v, real err=%v (%v %v)", x.sc.ID, x.opIdx, *op.ExpErr, ev["err"], ev["stage"], ev["why"]), x.sc)
	}
	if op.ExpRet != nil && op.Op == "relay" {
		ret := ev["ret"].(int)
		ok := false
		switch op.ExpRet.K {
		case "error":
			ok = ev["err"].(bool)
		case "chunk":
			if ret > 0 && op.ExpRet.C != nil {
				a, b := x.t.defs.list[ret-1], xsCanon(*op.ExpRet.C)
				ok = mustJSON(a.Secs) == mustJSON(b.Secs) && mustJSON(a.HM) == mustJSON(b.HM) && mustJSON(a.Ents) == mustJSON(b.Ents)
			}
		}
		if !ok {
			x.book.add(sig+"the chunk read from the network form differs from the one TLC computed",
				fmt.Sprintf("scenario %d op %d: real %s", x.sc.ID, x.opIdx, x.show(ret)), x.sc)
		}
	}
}

func xsAbsEnts(ents [][]int, pos [2]int) [][]int {
	out := [][]int{}
	for _, e := range ents {
		out = append(out, []int{pos[0]*16 + e[0], pos[1]*16 + e[1], e[2], e[3], e[4]})
	}
	return out
}

func (x *xsExec) step(op xsOp) {
	st := x.st
	if op.I < 0 || op.I >= len(st.coords) {
		return
	}
	pos := st.coords[op.I]
	base := map[string]any{"i": op.I + 1, "xz": []int{pos[0], pos[1]}}
	switch op.Op {
	case "put":
		if op.Lv == nil {
			return
		}
		lv := xsCanon(*op.Lv)
		dst := op.Dst
		if dst.Bents == nil {
			dst.Bents = [][]int{}
		}
		var res xsPutRes
		if op.Mode == "edit" || op.Mode == "edit-sparse" {
			op.Mode = "edit"
			if x.sparse[op.I] {
				op.Mode = "edit-sparse"
			}
			// load - modify - save: the loaded document is the destination, the loaded level chunk is edited in place
			g := st.get(op.I, true)
			if g.id <= 0 || len(g.lc.Sections) != len(lv.Secs) {
				return
			}
			cur := x.t.defs.list[g.id-1]
			lv.Ents = cur.Ents
			dst = xsDst{Bents: xsAbsEnts(cur.Ents, cur.Pos), Bulk: cur.Bulk, DV: cur.DV, Raws: true, YPos: cur.YPos}
			if p, msg := catch(func() {
				for s := range lv.Secs {
					if mustJSON(lv.Secs[s]) != mustJSON(cur.Secs[s]) {
						xsFillSection(&g.lc.Sections[s], lv.Secs[s])
					}
				}
				xsSetRest(g.lc, lv, pos)
			}); p {
				res = xsErr("edit", nil, true, msg)
			} else {
				res = st.putLib(op.I, g.lc, func(int) *save.Chunk { return g.sv }, op.CT, 0)
			}
		} else {
			dst.Raws = op.Mode != "fresh"
			var lc = xsBuildLevel(lv, pos)
			res = st.putLib(op.I, lc, func(b int) *save.Chunk { return xsDstDoc(dst, pos, b) }, op.CT, op.Target)
		}
		if res.err == nil && res.n > 0 && op.Mode != "edit-sparse" {
			x.sparse[op.I] = false
		}
		base["lv"], base["dst"], base["ct"], base["len"], base["writer"], base["mode"] = x.t.defs.intern(lv), dst, op.CT, res.n, "lib", op.Mode
		base["err"], base["stage"], base["why"], base["panicked"] = res.err != nil, res.stage, xsWhy(res.err), res.panicked
		x.emit(op, base)
	case "ext":
		if op.Lv == nil {
			return
		}
		lv := xsCanon(*op.Lv)
		dst := op.Dst
		dst.Raws, dst.Bents = true, [][]int{}
		v := lv
		v.Pos, v.YPos, v.DV, v.Bulk = pos, dst.YPos, dst.DV, dst.Bulk
		var sh *rand.Rand
		if op.Shuffle {
			sh = x.rng
		}
		var res xsPutRes
		if p, msg := catch(func() { res = st.putExt(op.I, v, op.CT, op.Target, op.Over, sh, op.Sparse) }); p {
			res = xsErr("harness", nil, true, msg)
		}
		if res.err == nil {
			x.sparse[op.I] = op.Sparse
		}
		base["lv"], base["dst"], base["ct"], base["len"], base["writer"], base["mode"] = x.t.defs.intern(lv), dst, op.CT, res.n, "ext", ""
		base["err"], base["stage"], base["why"], base["panicked"] = res.err != nil, res.stage, xsWhy(res.err), res.panicked
		x.emit(op, base)
	case "corrupt":
		done, res := st.corrupt(op.I, op.Kind, x.rng)
		if !done {
			return
		}
		base["kind"], base["len"], base["err"], base["stage"], base["why"], base["panicked"] = op.Kind, res.n, res.err != nil, res.stage, xsWhy(res.err), res.panicked
		x.emit(op, base)
	case "get":
		g := st.get(op.I, true)
		base["ret"], base["err"], base["stage"], base["why"], base["panicked"] = g.id, g.id <= 0, g.stage, vkTrunc(g.why, 160), g.panicked
		x.emit(op, base)
	case "relay":
		ret, left, err, p, why := st.relay(op.I)
		base["ret"], base["left"], base["err"], base["why"], base["panicked"] = ret, left, err != nil, vkTrunc(why, 160), p
		x.emit(op, base)
	case "reopen":
		err, p := st.reopen()
		x.emit(op, map[string]any{"err": err != nil, "why": xsWhy(err), "panicked": p})
	case "loadraw":
		var c save.Chunk
		var err error
		data := make([]byte, op.N)
		if op.N > 0 {
			data[0] = 3
		}
		p, msg := catch(func() { err = c.Load(data) })
		x.emit(op, map[string]any{"len": op.N, "err": err != nil, "why": xsWhy(err) + msg, "panicked": p})
	}
}

func xsRunScenario(env *vk.Env, sc *xsScenario, t *xsTrace, book *xsBook, classes map[string]int) error {
	path := filepath.Join(env.Out, fmt.Sprintf("x13-%d-%d.mca", os.Getpid(), sc.ID))
	st, err := xsOpenStore(path, sc.Coords, t.defs)
	if err != nil {
		return err
	}
	x := &xsExec{st: st, t: t, sc: sc, rng: newRand(env.Seed, fmt.Sprint("x13-exec-", sc.ID)), book: book, classes: classes, sparse: map[int]bool{}, differs: map[int]bool{}}
	x.emit(xsOp{Op: "reset"}, map[string]any{})
	for i, op := range sc.Ops {
		if xsHung.Load() {
			break
		}
		x.opIdx = i
		op := op
		if !vk.WithTimeout(xsStepTimeout, func() { x.step(op) }) {
			// the call does not return: the goroutine is lost (and keeps the file), the scenario ends here
			xsHung.Store(true)
			book.add(fmt.Sprintf("Hang(%s)[%s] - the call does not return within %v", op.Op, xsClass(op), xsStepTimeout),
				fmt.Sprintf("%s scenario %d op %d", sc.Origin, sc.ID, i), sc)
			st.rawf = nil
			return nil
		}
	}
	st.close()
	return nil
}

const xsStepTimeout = 90 * time.Second

var xsHung atomic.Bool // after a call that never returned nothing more is executed (its goroutine still spins)

// ------------------------------------------------------------------ judging

type xsViol struct{ Line, Check int }

var reXsFail = regexp.MustCompile(`^<<"X13FAIL", (\d+), \{([0-9, ]*)\}>>`)

var xsSlots = func() chan struct{} {
	c := make(chan struct{}, 12)
	for i := 0; i < cap(c); i++ {
		c <- struct{}{}
	}
	return c
}()
var xsSlotMu sync.Mutex

func xsTLC(env *vk.Env, r vk.TLCRun) (*vk.TLCResult, error) {
	w := r.Workers
	if w <= 0 {
		w = 1
	}
	xsSlotMu.Lock()
	for i := 0; i < w; i++ {
		<-xsSlots
	}
	xsSlotMu.Unlock()
	defer func() {
		for i := 0; i < w; i++ {
			xsSlots <- struct{}{}
		}
	}()
	return env.TLC(r)
}

func xsJudge(env *vk.Env, book *xsBook, label string, t *xsTrace) {
	if t.tr.N == 0 {
		return
	}
	trace := t.tr.Bytes()
	res, err := xsTLC(env, vk.TLCRun{Name: label, Module: "WorldStore_Trace", Cfg: "WorldStore_Trace.cfg", Workers: 1,
		Timeout: 20 * time.Minute, Heap: "4g", Files: map[string][]byte{"trace.ndjson": trace, "defs.ndjson": t.defs.buf.Bytes()}})
	if err != nil {
		env.Infra("%s: %v", label, err)
		return
	}
	if !res.OK {
		env.Infra("%s: trace validation did not complete (exit %d, violated=%q):\n%s", label, res.ExitCode, res.Violated, vkTrunc(res.Output, 3000))
		return
	}
	if want := int64(bytes.Count(trace, []byte("\n"))); res.Distinct != want {
		env.Infra("%s: TLC judged %d lines of %d", label, res.Distinct, want)
		return
	}
	lines := bytes.Split(bytes.TrimRight(trace, "\n"), []byte("\n"))
	nv := 0
	for _, pv := range res.PrintedVals {
		m := reXsFail.FindStringSubmatch(pv)
		if m == nil {
			continue
		}
		line, _ := strconv.Atoi(m[1])
		if line < 1 || line > len(t.meta) {
			env.Infra("%s: TLC names line %d outside the trace", label, line)
			continue
		}
		mt := t.meta[line-1]
		for _, c := range strings.Split(m[2], ",") {
			n, err := strconv.Atoi(strings.TrimSpace(c))
			if err != nil {
				continue
			}
			nv++
			ck, ok := xsChecks[n]
			if !ok {
				ck = [2]string{fmt.Sprint("check", n), "unnamed check"}
			}
			name := ck[0]
			if mt.Class != "" {
				name += "[" + mt.Class + "]"
			} else if n == 1 {
				name += "[" + mt.Kind + "]"
			}
			book.add(fmt.Sprintf("%s - %s", name, ck[1]),
				fmt.Sprintf("%s scenario %d op %d: %s", mt.Origin, mt.Scenario, mt.Op, xsBrief(lines[line-1])), t.scen[mt.Scenario])
		}
	}
	scen := map[int]bool{}
	for _, m := range t.meta {
		scen[m.Scenario] = true
	}
	if len(lines) > 2 {
		env.Sample(xsBrief(lines[2]))
	}
	env.AddTraces(int64(len(scen)))
	env.AddEval(int64(len(lines)))
	env.Sub(map[string]any{"run": label, "events": len(lines), "scenarios": len(scen), "abstract_chunks": len(t.defs.list), "violated_pairs": nv})
	if os.Getenv("VERIF_KEEP") == "" {
		os.RemoveAll(res.Dir)
	}
}

func xsBrief(line []byte) string {
	var m map[string]json.RawMessage
	if json.Unmarshal(line, &m) != nil {
		return vkTrunc(string(line), 300)
	}
	var b strings.Builder
	for _, k := range []string{"k", "writer", "mode", "kind", "xz", "ct", "len", "err", "stage", "why", "panicked", "ret", "left", "obs", "raw"} {
		v := string(m[k])
		if v == "" || v == `""` || v == "0" || v == "false" {
			continue
		}
		fmt.Fprintf(&b, "%s=%s ", k, vkTrunc(v, 90))
	}
	return strings.TrimSpace(b.String())
}

// xsRunParts executes the scenarios in `parts` groups (each with its own trace and chunk table) and judges every group
func xsRunParts(env *vk.Env, book *xsBook, label string, scs []*xsScenario, parts int) {
	if len(scs) == 0 {
		return
	}
	if parts > len(scs) {
		parts = len(scs)
	}
	var wg sync.WaitGroup
	var cmu sync.Mutex
	for p := 0; p < parts; p++ {
		wg.Add(1)
		go func(p int) {
			defer wg.Done()
			t := newXsTrace()
			classes := map[string]int{}
			for k := p; k < len(scs); k += parts {
				if err := xsRunScenario(env, scs[k], t, book, classes); err != nil {
					env.Infra("%s: scenario %d: %v", label, scs[k].ID, err)
					return
				}
			}
			cmu.Lock()
			for c := range classes {
				env.Distinct(c)
			}
			cmu.Unlock()
			xsJudge(env, book, fmt.Sprintf("%s part %d", label, p), t)
		}(p)
	}
	wg.Wait()
}

// ------------------------------------------------------------------ leg S

func xsSpecLeg(env *vk.Env, book *xsBook) {
	var wg sync.WaitGroup
	run := func(f func()) { wg.Add(1); go func() { defer wg.Done(); f() }() }
	must := func(name, cfg string, workers int, to time.Duration) {
		res, err := xsTLC(env, vk.TLCRun{Name: name, Module: "WorldStore", Cfg: cfg, Workers: workers, Timeout: to})
		if err != nil {
			env.Infra("tlc WorldStore/%s: %v", cfg, err)
		} else if !res.OK {
			env.Infra("spec check WorldStore/%s failed (exit %d, violated=%q):\n%s", cfg, res.ExitCode, res.Violated, vkTrunc(res.Output, 3000))
		}
	}
	run(func() {
		must("S intent", map[bool]string{true: "WorldStore_MC.cfg", false: "WorldStore_MC_thorough.cfg"}[env.Quick()], env.Pick(4, 8), 30*time.Minute)
	})
	run(func() { must("S intent wide", "WorldStore_MC_wide.cfg", 2, 10*time.Minute) })
	// the layers as the code has them: TLC must reject each of them (model-level form of the findings)
	code := map[string]string{
		"code_noclose": "Data(1) / Data(2) leave the compressed stream open: what Put stores with gzip or zlib cannot be read back (Refines: store = Abs(sect))",
		"code_ents":    "ChunkToSave leaves block_entities alone: the block entities of the level chunk do not reach the store",
		"code_raws":    "Data fails on a destination whose RawMessage fields are unset: a Put into a new save.Chunk is refused",
	}
	for v, what := range code {
		v, what := v, what
		run(func() {
			res, err := xsTLC(env, vk.TLCRun{Name: "S " + v, Module: "WorldStore", Cfg: "WorldStore_MC_" + v + ".cfg", Workers: 1, Timeout: 10 * time.Minute, NoCount: true})
			if err != nil {
				env.Infra("tlc WorldStore/%s: %v", v, err)
				return
			}
			if res.Violated == "Refines" {
				book.add(fmt.Sprintf("Model(%s) - TLC rejects the composition with this layer as the code has it: %s", v, what),
					"WorldStore_MC_"+v+".cfg: invariant Refines violated after one Put", nil)
			} else {
				env.Infra("WorldStore_MC_%s.cfg is expected to violate Refines; TLC says ok=%v violated=%q\n%s", v, res.OK, res.Violated, vkTrunc(res.Output, 1500))
			}
		})
	}
	// vacuity guards: deliberately wrong layers
	for v, want := range map[string]string{"broken_len": "Refines", "broken_ct": "Refines", "broken_ypos": "Refines", "broken_relay": "RelayLaw"} {
		v, want := v, want
		run(func() {
			res, err := xsTLC(env, vk.TLCRun{Name: "S " + v, Module: "WorldStore", Cfg: "WorldStore_MC_" + v + ".cfg", Workers: 1, Timeout: 10 * time.Minute, NoCount: true})
			if err != nil {
				env.Infra("tlc WorldStore/%s: %v", v, err)
				return
			}
			if res.OK || !strings.Contains(res.Violated, want) {
				env.Infra("vacuity guard: WorldStore_MC_%s.cfg must violate %s; TLC says ok=%v violated=%q", v, want, res.OK, res.Violated)
			}
		})
	}
	wg.Wait()
}

// ------------------------------------------------------------------ leg A: behaviours from TLC

func xsTlaInts(v any) []int {
	l, _ := v.([]any)
	out := make([]int, 0, len(l))
	for _, e := range l {
		if n, ok := e.(int); ok {
			out = append(out, n)
		}
	}
	return out
}

func xsTlaChunk(v any) *xsChunk {
	m, ok := v.(map[string]any)
	if !ok {
		return nil
	}
	if _, isK := m["k"]; isK {
		return nil
	}
	c := &xsChunk{}
	secs, _ := m["secs"].([]any)
	for _, s := range secs {
		sm, _ := s.(map[string]any)
		c.Secs = append(c.Secs, xsSec{B: xsTlaInts(sm["b"]), M: xsTlaInts(sm["m"])})
	}
	ents, _ := m["ents"].([]any)
	c.Ents = [][]int{}
	for _, e := range ents {
		c.Ents = append(c.Ents, xsTlaInts(e))
	}
	c.HM = xsTlaInts(m["hm"])
	geti := func(k string) int { n, _ := m[k].(int); return n }
	c.Status, c.YPos, c.DV, c.Bulk = geti("status"), geti("ypos"), geti("dv"), geti("bulk")
	if p := xsTlaInts(m["pos"]); len(p) == 2 {
		c.Pos = [2]int{p[0], p[1]}
	}
	return c
}

func xsTlaExp(v any) xsExp {
	if m, ok := v.(map[string]any); ok {
		if k, isK := m["k"].(string); isK {
			return xsExp{K: k}
		}
	}
	return xsExp{K: "chunk", C: xsTlaChunk(v)}
}

var xsGenCoords = [][2]int{{0, 0}, {31, 31}, {1, 0}, {17, 4}}

func xsBehaviourScenario(states []map[string]any, id int) (*xsScenario, error) {
	sc := &xsScenario{ID: id, Origin: "tlc-behaviour", Coords: xsGenCoords}
	for _, st := range states[1:] {
		act, _ := st["act"].(map[string]any)
		arg, _ := st["arg"].(map[string]any)
		seen, _ := st["seen"].([]any)
		if act == nil || arg == nil || len(seen) != len(xsGenCoords) {
			return nil, fmt.Errorf("state without act / arg / seen")
		}
		geti := func(m map[string]any, k string) int { n, _ := m[k].(int); return n }
		op := xsOp{Op: act["op"].(string), I: geti(act, "i") - 1, CT: geti(act, "ct")}
		e, _ := act["err"].(bool)
		op.ExpErr = &e
		for _, s := range seen {
			op.ExpSeen = append(op.ExpSeen, xsTlaExp(s))
		}
		switch op.Op {
		case "put", "ext":
			op.Lv = xsTlaChunk(arg["c"])
			d, _ := arg["d"].(map[string]any)
			if op.Lv == nil || d == nil {
				return nil, fmt.Errorf("put without arguments")
			}
			raws, _ := d["raws"].(bool)
			op.Dst = xsDst{Bents: [][]int{}, Bulk: geti(d, "bulk"), DV: geti(d, "dv"), Raws: raws, YPos: geti(d, "ypos")}
			op.Mode = "prep"
			if !raws {
				op.Mode = "fresh"
			}
			if op.Op == "ext" {
				op.Mode = ""
			}
			if ln := geti(act, "len"); op.Dst.Bulk > 0 {
				op.Target, op.Over = ln, xsNeed(ln) > xsMaxNeed
			}
		case "corrupt":
			op.Kind, _ = arg["kind"].(string)
			if op.Kind == "cut" {
				op.Kind = "cutdoc"
			}
		case "relay":
			r := xsTlaExp(act["ret"])
			op.ExpRet = &r
		case "get", "reopen":
		default:
			return nil, fmt.Errorf("unknown op %q", op.Op)
		}
		sc.Ops = append(sc.Ops, op)
	}
	return sc, nil
}

func xsLegA(env *vk.Env, book *xsBook) {
	num, depth := env.Pick(24, 400), env.Pick(22, 40)
	gen, err := xsTLC(env, vk.TLCRun{Name: "A generator", Module: "WorldStore_Gen", Cfg: "WorldStore_Gen.cfg", Workers: 1,
		Simulate: fmt.Sprintf("file=beh,num=%d", num), Depth: depth, NoCount: true, KeepOut: true, Timeout: 10 * time.Minute})
	if err != nil || gen.ExitCode != 0 {
		out := ""
		if gen != nil {
			out = gen.Output
		}
		env.Infra("leg A: behaviour generation failed: %v\n%s", err, vkTrunc(out, 2000))
		return
	}
	files, _ := filepath.Glob(filepath.Join(gen.Dir, "beh_*"))
	sort.Strings(files)
	var scs []*xsScenario
	for k, f := range files {
		states, err := bsParseBehaviour(f)
		if err != nil || len(states) < 2 {
			env.Infra("leg A: behaviour file %s: %v (%d states)", f, err, len(states))
			return
		}
		sc, err := xsBehaviourScenario(states, 100000+k)
		if err != nil {
			env.Infra("leg A: behaviour file %s: %v", f, err)
			return
		}
		scs = append(scs, sc)
		os.Remove(f)
	}
	if len(scs) < num/2 {
		env.Infra("leg A: only %d behaviours parsed from the TLC simulation", len(scs))
		return
	}
	os.RemoveAll(gen.Dir)
	xsRunParts(env, book, "A tlc behaviours", scs, env.Pick(2, 8))
}

// ------------------------------------------------------------------ leg B: random histories and hazard scenarios

func xsRandSec(rng *rand.Rand, universe int) xsSec {
	lens := []int{1, 1, 2, 3, 4, 8, 16, 17, 40, 64}
	L := lens[rng.Intn(len(lens))]
	if L > universe*2 {
		L = 1 + rng.Intn(universe*2)
	}
	s := xsSec{}
	for i := 0; i < L; i++ {
		s.B = append(s.B, rng.Intn(universe))
	}
	G := []int{1, 1, 2, 4, 8}[rng.Intn(5)]
	for i := 0; i < G; i++ {
		s.M = append(s.M, rng.Intn(8))
	}
	return s
}

func xsRandLevel(rng *rand.Rand, n, universe int, ents bool) xsChunk {
	c := xsChunk{Ents: [][]int{}}
	for i := 0; i < n; i++ {
		c.Secs = append(c.Secs, xsRandSec(rng, universe))
	}
	for i := 0; i < 6; i++ {
		c.HM = append(c.HM, rng.Intn(xsMaxTok+1))
	}
	c.Status = rng.Intn(len(ckStatuses))
	if ents {
		for i := rng.Intn(4); i > 0; i-- {
			c.Ents = append(c.Ents, []int{rng.Intn(16), rng.Intn(16), rng.Intn(384) - 64, rng.Intn(len(block.EntityList)), 1 + rng.Intn(99)})
		}
	}
	return c
}

func xsRandDst(rng *rand.Rand, bulk bool) xsDst {
	d := xsDst{Bents: [][]int{}, Raws: true, YPos: []int{0, -4, -4, -1, 5}[rng.Intn(5)], DV: []int{0, 3700, 3953}[rng.Intn(3)]}
	if bulk {
		d.Bulk = 1 + rng.Intn(xsMaxTok)
	}
	return d
}

var xsBoundaries = []int{4092, 4093, 8188, 8189, 12284, 12285, 40956, 40957}

const xsLimit = xsMaxNeed*4096 - 4 // the longest payload that fits 255 sectors

func xsCoordSets(rng *rand.Rand) [][2]int {
	switch rng.Intn(4) {
	case 0:
		return [][2]int{{0, 0}, {31, 31}, {31, 0}}
	case 1:
		return [][2]int{{5, 7}, {6, 7}, {5, 8}, {0, 31}}
	case 2:
		x, z := rng.Intn(30), rng.Intn(32)
		return [][2]int{{x, z}, {x + 1, z}, {x + 2, z}, {31 - x, 31 - z}, {z % 32, x}, {15, 15}}[:5]
	}
	return [][2]int{{rng.Intn(32), rng.Intn(32)}, {rng.Intn(16), 16 + rng.Intn(16)}, {16 + rng.Intn(16), rng.Intn(16)}}
}

func xsDedupCoords(c [][2]int) [][2]int {
	seen := map[[2]int]bool{}
	out := [][2]int{}
	for _, p := range c {
		if !seen[p] {
			seen[p] = true
			out = append(out, p)
		}
	}
	return out
}

func xsGenScenario(seed int64, id, nops int) *xsScenario {
	rng := newRand(seed, fmt.Sprint("x13-gen-", id))
	sc := &xsScenario{ID: id, Origin: "random", Coords: xsDedupCoords(xsCoordSets(rng))}
	universe := []int{3, 12, 40, 200}[rng.Intn(4)]
	secsOf := func() int { return []int{1, 1, 2, 2, 3, 4, 8, 16, 24}[rng.Intn(9)] }
	nsec := make([]int, len(sc.Coords)) // the section count last put per coordinate (edit keeps it)
	for len(sc.Ops) < nops {
		i := rng.Intn(len(sc.Coords))
		r := rng.Intn(100)
		switch {
		case r < 34: // the library's own pipeline, uncompressed
			n := secsOf()
			op := xsOp{Op: "put", I: i, Mode: "prep", CT: 3}
			bulk := rng.Intn(3) == 0
			lv := xsRandLevel(rng, n, universe, rng.Intn(5) == 0)
			op.Lv, op.Dst = &lv, xsRandDst(rng, bulk)
			if bulk && rng.Intn(2) == 0 {
				op.Target = xsBoundaries[rng.Intn(len(xsBoundaries))]
			}
			nsec[i] = n
			sc.Ops = append(sc.Ops, op)
		case r < 48: // load - modify - save
			if nsec[i] == 0 {
				continue
			}
			lv := xsRandLevel(rng, nsec[i], universe, false)
			sc.Ops = append(sc.Ops, xsOp{Op: "put", I: i, Mode: "edit", CT: 3, Lv: &lv, Dst: xsDst{Bents: [][]int{}}})
		case r < 64: // a payload as the game writes it
			n := secsOf()
			bulk := rng.Intn(3) == 0
			lv := xsRandLevel(rng, n, universe, rng.Intn(3) == 0)
			op := xsOp{Op: "ext", I: i, CT: 1 + rng.Intn(3), Lv: &lv, Dst: xsRandDst(rng, bulk), Shuffle: rng.Intn(3) == 0}
			if bulk && rng.Intn(2) == 0 {
				op.Target = xsBoundaries[rng.Intn(len(xsBoundaries))]
			}
			nsec[i] = n
			sc.Ops = append(sc.Ops, op)
		case r < 68: // the library's pipeline with gzip / zlib
			lv := xsRandLevel(rng, secsOf(), universe, false)
			sc.Ops = append(sc.Ops, xsOp{Op: "put", I: i, Mode: "prep", CT: 1 + rng.Intn(2), Lv: &lv, Dst: xsRandDst(rng, rng.Intn(4) == 0)})
			nsec[i] = 0
		case r < 70:
			lv := xsRandLevel(rng, secsOf(), universe, false)
			sc.Ops = append(sc.Ops, xsOp{Op: "put", I: i, Mode: "fresh", CT: 3, Lv: &lv, Dst: xsRandDst(rng, false)})
		case r < 72:
			lv := xsRandLevel(rng, secsOf(), universe, false)
			sc.Ops = append(sc.Ops, xsOp{Op: "put", I: i, Mode: "prep", CT: []int{0, 4, 5, 127, 255}[rng.Intn(5)], Lv: &lv, Dst: xsRandDst(rng, false)})
		case r < 78:
			kinds := []string{"unknownct", "cutdoc", "cuttail", "mismatch", "empty", "onlyct", "hmlen"}
			sc.Ops = append(sc.Ops, xsOp{Op: "corrupt", I: i, Kind: kinds[rng.Intn(len(kinds))]})
			nsec[i] = 0
		case r < 86:
			sc.Ops = append(sc.Ops, xsOp{Op: "get", I: i})
		case r < 95:
			sc.Ops = append(sc.Ops, xsOp{Op: "relay", I: i})
		default:
			sc.Ops = append(sc.Ops, xsOp{Op: "reopen"})
		}
	}
	return sc
}

// xsHazardScenarios: the seams, one scenario each (the same in every run; only the contents vary with the seed)
func xsHazardScenarios(seed int64, big bool) []*xsScenario {
	rng := newRand(seed, "x13-hazard")
	var out []*xsScenario
	id := 200000
	mk := func(origin string, coords [][2]int) *xsScenario {
		id++
		sc := &xsScenario{ID: id, Origin: origin, Coords: coords}
		out = append(out, sc)
		return sc
	}
	lvl := func(n, u int, ents bool) *xsChunk { c := xsRandLevel(rng, n, u, ents); return &c }
	put := func(i, n, ct, target int, bulk bool) xsOp {
		return xsOp{Op: "put", I: i, Mode: "prep", CT: ct, Lv: lvl(n, 12, false), Dst: xsRandDst(rng, bulk), Target: target}
	}
	ext := func(i, n, ct, target int, over bool) xsOp {
		return xsOp{Op: "ext", I: i, CT: ct, Lv: lvl(n, 12, true), Dst: xsRandDst(rng, target > 0), Target: target, Over: over}
	}
	gets := func(sc *xsScenario) {
		for i := range sc.Coords {
			sc.Ops = append(sc.Ops, xsOp{Op: "get", I: i})
		}
	}
	three := [][2]int{{3, 4}, {4, 4}, {5, 4}}

	// the 255-sector limit: the longest payload that fits, one byte more, for the library's pipeline and for foreign payloads
	if big {
		sc := mk("hazard-limit", three)
		sc.Ops = append(sc.Ops, put(0, 2, 3, 0, false), put(2, 1, 3, 0, false), put(1, 2, 3, 0, false))
		sc.Ops = append(sc.Ops, put(1, 2, 3, xsLimit, true), xsOp{Op: "get", I: 1}, put(1, 2, 3, xsLimit+1, true), xsOp{Op: "get", I: 1},
			xsOp{Op: "reopen"}, put(1, 1, 3, 0, false), put(1, 2, 3, xsLimit+1, true), put(1, 2, 3, xsLimit-4096, true))
		for _, ct := range []int{1, 2, 3} {
			sc.Ops = append(sc.Ops, ext(1, 2, ct, xsLimit, false), ext(1, 2, ct, xsLimit+1, true), xsOp{Op: "relay", I: 1})
		}
		sc.Ops = append(sc.Ops, put(1, 2, 1, xsLimit, true), put(1, 2, 2, xsLimit, true))
		gets(sc)
	}
	// sector-count boundaries: the middle chunk grows and shrinks between two neighbours
	{
		sc := mk("hazard-boundaries", three)
		sc.Ops = append(sc.Ops, put(0, 1, 3, 0, false), put(1, 1, 3, 0, false), put(2, 1, 3, 0, false))
		for _, t := range []int{4092, 4093, 8188, 8189, 12284, 12285, 8189, 8188, 4093, 4092} {
			sc.Ops = append(sc.Ops, put(1, 1, 3, t, true))
		}
		sc.Ops = append(sc.Ops, xsOp{Op: "reopen"})
		for _, t := range []int{4092, 4093, 8188, 8189, 4092} {
			sc.Ops = append(sc.Ops, ext(1, 1, 1+rng.Intn(2), t, false), ext(0, 1, 3, t, false))
		}
		// more sections, bigger palettes, and back
		for _, n := range []int{2, 8, 24, 8, 1} {
			u := []int{3, 40, 200}[rng.Intn(3)]
			sc.Ops = append(sc.Ops, xsOp{Op: "put", I: 1, Mode: "prep", CT: 3, Lv: lvl(n, u, false), Dst: xsRandDst(rng, false)})
			sc.Ops = append(sc.Ops, xsOp{Op: "put", I: 1, Mode: "edit", CT: 3, Lv: lvl(n, u, false), Dst: xsDst{Bents: [][]int{}}})
		}
		sc.Ops = append(sc.Ops, xsOp{Op: "reopen"})
		gets(sc)
	}
	// every kind of unreadable payload, for every compression type
	{
		sc := mk("hazard-corrupt", three)
		sc.Ops = append(sc.Ops, put(0, 1, 3, 0, false), put(2, 2, 3, 0, false))
		for _, kind := range []string{"unknownct", "cutdoc", "cuttail", "mismatch", "empty", "onlyct", "hmlen"} {
			for _, ct := range []int{1, 2, 3} {
				sc.Ops = append(sc.Ops, ext(1, 1+rng.Intn(2), ct, 0, false), xsOp{Op: "corrupt", I: 1, Kind: kind}, xsOp{Op: "get", I: 1}, xsOp{Op: "relay", I: 1})
			}
			sc.Ops = append(sc.Ops, put(1, 1, 3, 0, false), xsOp{Op: "corrupt", I: 1, Kind: kind}, xsOp{Op: "reopen"}, xsOp{Op: "get", I: 1})
		}
		sc.Ops = append(sc.Ops, xsOp{Op: "loadraw", N: 0}, xsOp{Op: "loadraw", N: 1})
		gets(sc)
	}
	// the library's own pipeline with every compression byte, a new destination, block entities
	{
		sc := mk("hazard-library-put", [][2]int{{0, 0}, {31, 31}, {1, 0}})
		sc.Ops = append(sc.Ops, put(1, 1, 3, 0, false))
		for _, ct := range []int{1, 2, 3, 0, 4, 255} {
			sc.Ops = append(sc.Ops, put(0, 2, ct, 0, false), xsOp{Op: "get", I: 0}, put(0, 2, ct, 0, true), xsOp{Op: "relay", I: 0})
		}
		sc.Ops = append(sc.Ops, xsOp{Op: "put", I: 2, Mode: "fresh", CT: 3, Lv: lvl(1, 3, false), Dst: xsRandDst(rng, false)},
			xsOp{Op: "put", I: 2, Mode: "fresh", CT: 2, Lv: lvl(1, 3, false), Dst: xsRandDst(rng, false)})
		e := lvl(2, 12, false)
		e.Ents = [][]int{{3, 15, -7, 2, 1}, {0, 0, 64, 5, 2}}
		sc.Ops = append(sc.Ops, xsOp{Op: "put", I: 2, Mode: "prep", CT: 3, Lv: e, Dst: xsRandDst(rng, false)}, xsOp{Op: "get", I: 2}, xsOp{Op: "relay", I: 2})
		e2 := *e
		sc.Ops = append(sc.Ops, xsOp{Op: "ext", I: 1, CT: 3, Lv: lvl(2, 12, true), Dst: xsRandDst(rng, false), Sparse: true}, xsOp{Op: "get", I: 1},
			xsOp{Op: "put", I: 1, Mode: "edit", CT: 3, Lv: lvl(2, 12, false), Dst: xsDst{Bents: [][]int{}}}, xsOp{Op: "get", I: 1})
		sc.Ops = append(sc.Ops, xsOp{Op: "ext", I: 2, CT: 2, Lv: &e2, Dst: xsRandDst(rng, false), Shuffle: true}, xsOp{Op: "relay", I: 2},
			xsOp{Op: "put", I: 2, Mode: "edit", CT: 3, Lv: lvl(2, 12, false), Dst: xsDst{Bents: [][]int{}}}, xsOp{Op: "relay", I: 2}, xsOp{Op: "reopen"})
		gets(sc)
	}
	return out
}

// ------------------------------------------------------------------ driver

func xsLeg(name string) bool {
	l := os.Getenv("VERIF_LEGS")
	if l == "" {
		return true
	}
	for _, x := range strings.Split(l, ",") {
		if x == name {
			return true
		}
	}
	return false
}

func runX13(env *vk.Env) {
	env.Cov.Rule = "Specification extension, not one of the listed properties: rejections are NOTE findings, never violations. " +
		"S: WorldStore_MC (2 coordinates quick / 3 thorough, 12 level contents x 4 destinations, compression bytes 0..4, payload lengths one sector / exactly 255 sectors / one byte more) " +
		"and WorldStore_MC_wide (1 coordinate, 32 contents x 16 destinations): Refines (the abstract map is the abstraction of what the composed layers hold: Get after Put for every " +
		"compression type), SizeOK, Frame, ReadOnly, RefusedNoop, AcceptedPut, GetLaw, RelayLaw; three variants describing the layers as the code has them are expected to violate Refines " +
		"(reported as Model(...) findings), four broken variants are vacuity guards. A: TLC -simulate behaviours of WorldStore_Gen (the layers as the code has them) replayed on a real region " +
		"file, the projected store compared with TLC's state after every step. B: seeded random histories (library pipeline, load-modify-save, foreign gzip/zlib/uncompressed payloads, unreadable " +
		"payloads of six kinds, Get, Relay, Reopen; 1..24 sections, palettes to 200 states, payloads steered onto sector-count boundaries by an opaque ballast) and hazard scenarios (255-sector " +
		"limit, growth and shrinking between neighbours, every kind of unreadable payload per compression type, every compression byte, new destination, block entities). Every execution is " +
		"judged per line by WorldStore_Trace. Distinct = distinct (operation, class, outcome) in judged traces."
	env.Assume = []string{
		"an abstract section stands for the periodic pattern block[p] = b[p % Len(b)], biome[q] = m[q % Len(m)]; sections keep to at most 200 distinct block states and 8 biomes (beyond that lie open C13 findings)",
		"the `entities` list of the save document carries an opaque byte-array ballast that steers the payload length; the caller sets xPos / zPos to the region coordinate",
		"the independent view of the file (header entry, length word, compression byte, gzip/zlib stream read to its end, NBT walked structurally) is the harness's own reader",
		"timestamps, the sector allocator, light arrays, non-air counters and the remaining fields of the save document are not part of the abstraction",
	}
	book := &xsBook{}
	var wg sync.WaitGroup
	run := func(f func()) { wg.Add(1); go func() { defer wg.Done(); f() }() }
	if xsLeg("S") {
		run(func() { xsSpecLeg(env, book) })
	}
	if xsLeg("A") {
		run(func() { xsLegA(env, book) })
	}
	if xsLeg("B") {
		run(func() {
			var scs []*xsScenario
			for k := 0; k < env.Pick(8, 160); k++ {
				scs = append(scs, xsGenScenario(env.Seed, k+1, env.Pick(70, 140)))
			}
			xsRunParts(env, book, "B random histories", scs, env.Pick(3, 10))
		})
		run(func() { xsRunParts(env, book, "B hazard scenarios", xsHazardScenarios(env.Seed, true), 4) })
	}
	wg.Wait()
	book.flush(env)
	env.Cov.Exhaustive = xsLeg("S")
	env.Sample(map[string]any{"coordinates": xsGenCoords, "limit_bytes": xsLimit})
}

func replayX13(env *vk.Env, b []byte) {
	var f struct {
		Replay struct {
			Sc   xsScenario `json:"scenario"`
			Seed int64      `json:"seed"`
		} `json:"replay"`
	}
	if err := json.Unmarshal(b, &f); err != nil {
		env.Infra("replay: %v", err)
		return
	}
	if f.Replay.Seed != 0 {
		env.Seed = f.Replay.Seed
	}
	book := &xsBook{}
	xsRunParts(env, book, "replay", []*xsScenario{&f.Replay.Sc}, 1)
	book.flush(env)
	env.Cov.States, env.Cov.Transitions = 1, 1
	env.Sample(f.Replay.Sc.Origin)
}
