package main

// X04: specification extension - the bot's client-side state kept from server packets:
//   bot/screen.Manager (specs/BotScreen*.tla), bot/playerlist.PlayerList (specs/BotPlayerList*.tla),
//   bot/world.World (specs/BotWorld*.tla).
// Each module has two layers: Step(FALSE, ..) the INTENT, Step(TRUE, ..) the handlers AS CODED; they differ in a few
// named classes of packets (Class).
// Leg S:  TLC explores <Module>_MC exhaustively on the intent (small bounds): state invariants, action properties and
//         Agree (the layers differ in the named classes only); the model of the code (Variant = "code") is EXPECTED to
//         violate the intent's invariants (the model-level form of the findings); Variant = "broken" is a vacuity
//         guard that TLC must reject.
// Leg A:  TLC -simulate behaviours of <Module>_Gen (the code layer with the real layout constants) are replayed on
//         the real managers: abstract packets are concretised with pk.Marshal and handed to the handlers through
//         bot.Client.Events (overlay shim bot.VerifHandlePacket); the projected state, the callbacks seen and the
//         error flag are compared with TLC's after every step.
// Leg B:  long seeded random histories on the real managers.
// All executions (A and B) are recorded as ndjson and judged by <Module>_Trace in TLC: every line is an independent
// initial state (state before = projection on the previous line), the specification prints the failed checks.
// An extension check never raises VIOLATION: rejections are `NOTE spec-extension <Module> finding: ...`, exit code 0.
// The generic plumbing (findings book, TLC slot budget, per-line judge, behaviour parser) is shared with X02 (x02.go).

import (
	"encoding/json"
	"fmt"
	"os"
	"path/filepath"
	"sort"
	"strings"
	"sync"
	"time"

	"verif/harness/vk"
)

func init() { drivers["X04"] = driver{run: runX04, replay: replayX04} }

// ------------------------------------------------------------------ abstract operations and the real objects

// x4Op is one abstract packet / call: the fields of the specification's packet record (P) plus "k"; in scenarios
// built from TLC behaviours also "exp" (what TLC computed: state variables and act).
type x4Op = map[string]any

type x4Real interface {
	reset()
	do(op x4Op) map[string]any // executes the op on the real code: evs, err, out, ... (no projection)
	project() map[string]any   // the abstract state read from the real object
}

type x4Comp struct {
	module   string
	checks   map[int][2]string
	defaults func() x4Op                            // every packet field with its neutral value (all lines carry all fields)
	results  func() map[string]any                  // neutral result fields
	mk       func() x4Real                          // a fresh real object
	expect   func(st map[string]any) map[string]any // TLC state (variables + act) -> the fields compared after a replayed step
	class    func(ev map[string]any) string         // coverage class of an executed event
	genCfg   string                                 // <Module>_Gen.cfg
	opOfAct  func(act map[string]any) (x4Op, error) // TLC act -> op
}

type x4Scenario struct {
	ID     int    `json:"id"`
	Origin string `json:"origin"`
	Ops    []x4Op `json:"ops"`
}

type x4Exec struct {
	c     *x4Comp
	real  x4Real
	t     *x2Trace
	sc    *x4Scenario
	book  *x2Book
	nops  int
	stop  bool
	class map[string]int
	last  map[string]any // last event (projection of the current state)
}

func x4Num(v any) int {
	switch n := v.(type) {
	case int:
		return n
	case int32:
		return int(n)
	case int64:
		return int(n)
	case float64:
		return int(n)
	case json.Number:
		i, _ := n.Int64()
		return int(i)
	case bool:
		if n {
			return 1
		}
	}
	return 0
}
func x4Bool(v any) bool  { b, _ := v.(bool); return b }
func x4Str(v any) string { s, _ := v.(string); return s }
func x4List(v any) []any {
	switch l := v.(type) {
	case []any:
		return l
	case []int:
		out := make([]any, len(l))
		for i, x := range l {
			out[i] = x
		}
		return out
	case bsTlaSet:
		return []any(l)
	case bsTlaFn: // a function with an arbitrary domain is never a list
		return nil
	}
	return nil
}
func x4IntList(v any) []int {
	out := []int{}
	for _, x := range x4List(v) {
		out = append(out, x4Num(x))
	}
	return out
}

// x4Canon turns a parsed TLC value into plain JSON-able data: functions become lists of [key, value] pairs sorted by
// key, sets become sorted lists, nil tuples become empty lists.
func x4Canon(v any) any {
	switch x := v.(type) {
	case bsTlaFn:
		rows := make([][2]any, len(x.K))
		for i := range x.K {
			rows[i] = [2]any{x4Canon(x.K[i]), x4Canon(x.V[i])}
		}
		sort.Slice(rows, func(i, j int) bool { return mustJSON(rows[i][0]) < mustJSON(rows[j][0]) })
		out := make([]any, len(rows))
		for i, r := range rows {
			out[i] = []any{r[0], r[1]}
		}
		return out
	case bsTlaSet:
		out := make([]any, len(x))
		for i, e := range x {
			out[i] = x4Canon(e)
		}
		sort.Slice(out, func(i, j int) bool { return mustJSON(out[i]) < mustJSON(out[j]) })
		return out
	case []any:
		out := make([]any, len(x))
		for i, e := range x {
			out[i] = x4Canon(e)
		}
		return out
	case map[string]any:
		out := map[string]any{}
		for k, e := range x {
			out[k] = x4Canon(e)
		}
		return out
	case nil:
		return []any{}
	}
	return v
}

func (x *x4Exec) step(op x4Op) map[string]any {
	ev := x.c.defaults()
	for k, v := range op {
		if k != "exp" {
			ev[k] = v
		}
	}
	res := x.c.results()
	p, msg := catch(func() {
		if x4Str(op["k"]) == "reset" {
			x.real = x.c.mk()
			x.real.reset()
			return
		}
		for k, v := range x.real.do(op) {
			res[k] = v
		}
	})
	for k, v := range res {
		ev[k] = v
	}
	ev["panicked"] = p
	var proj map[string]any
	if p2, msg2 := catch(func() { proj = x.real.project() }); p2 {
		ev["panicked"] = true
		msg = msg2
		proj = x.c.mk().project()
	}
	for k, v := range proj {
		ev[k] = v
	}
	x.t.add(ev, x2Meta{Scenario: x.sc.ID, Origin: x.sc.Origin, Op: x.nops, Kind: x4Str(op["k"])}, x.sc)
	x.nops++
	x.last = ev
	if x.class != nil {
		x.class[x.c.module+"/"+x.c.class(ev)]++
	}
	if exp, ok := op["exp"].(map[string]any); ok && !x.stop {
		what := ""
		if p {
			what = "the handler panicked: " + msg
		} else {
			keys := make([]string, 0, len(exp))
			for k := range exp {
				keys = append(keys, k)
			}
			sort.Strings(keys)
			for _, k := range keys {
				if got, want := mustJSON(ev[k]), mustJSON(exp[k]); got != want {
					what = fmt.Sprintf("%s = %s, TLC computed %s", k, vkTrunc(got, 200), vkTrunc(want, 200))
					break
				}
			}
		}
		if what != "" {
			x.stop = true
			x.book.add(x.c.module, fmt.Sprintf("Replay(%s) - %s: the real object differs from the state TLC computed for the model of the code", x.sc.Origin, x4Str(op["k"])),
				fmt.Sprintf("scenario %d op %d: %s", x.sc.ID, x.nops-1, what), x.sc)
		}
	}
	return ev
}

func x4Run(c *x4Comp, sc x4Scenario, t *x2Trace, book *x2Book, classes map[string]int) {
	x := &x4Exec{c: c, t: t, sc: &sc, book: book, class: classes}
	for _, op := range sc.Ops {
		x.step(op)
	}
}

// x4BehaviourScenario turns one TLC behaviour into a scenario: state 0 is the reset, every later state one packet.
func x4BehaviourScenario(c *x4Comp, states []map[string]any, id int) (sc x4Scenario, err error) {
	defer func() {
		if r := recover(); r != nil {
			err = fmt.Errorf("%s behaviour %d: unexpected state shape: %v", c.module, id, r)
		}
	}()
	sc = x4Scenario{ID: id, Origin: "tlc-simulate"}
	for k, st := range states {
		op := x4Op{"k": "reset"}
		if k > 0 {
			act := st["act"].(map[string]any)
			op, err = c.opOfAct(act)
			if err != nil {
				return sc, err
			}
		}
		op["exp"] = c.expect(st)
		sc.Ops = append(sc.Ops, op)
	}
	return sc, nil
}

// ------------------------------------------------------------------ findings (same book as X02, own replay files)

func x4Flush(env *vk.Env, b *x2Book) {
	keys := make([]string, 0, len(b.m))
	for k := range b.m {
		keys = append(keys, k)
	}
	sort.Strings(keys)
	for _, k := range keys {
		f := b.m[k]
		where := ""
		if f.replay != nil && env.Replay == "" {
			name := f.sig
			if i := strings.Index(name, " - "); i > 0 {
				name = name[:i]
			}
			name = strings.Map(func(r rune) rune {
				if r >= 'a' && r <= 'z' || r >= 'A' && r <= 'Z' || r >= '0' && r <= '9' {
					return r
				}
				return '_'
			}, name)
			p := filepath.Join(vk.Root, "out", "replays", fmt.Sprintf("X04-%s-%s.json", f.module, name))
			os.MkdirAll(filepath.Dir(p), 0o755)
			body, _ := json.Marshal(map[string]any{"property": "X04", "signature": f.sig, "detail": f.first,
				"replay": map[string]any{"module": f.module, "scenario": f.replay, "seed": env.Seed}})
			if os.WriteFile(p, body, 0o644) == nil {
				where = "; replay=" + p
			}
		}
		env.Note("spec-extension %s finding: %s (%d events; first: %s%s)", f.module, f.sig, f.n, vkTrunc(f.first, 420), where)
	}
	if len(keys) == 0 {
		env.Note("spec-extension X04: no finding in this run")
	}
}

// ------------------------------------------------------------------ leg S

type x4Expected struct {
	cfg, violated, sig, text string
}

// x4SpecLeg: the intent must pass; the model of the code must violate the named invariant / property (reported as a
// Model(code) finding, and as an infrastructure problem if the violation ever disappears); the broken variant must be
// rejected (vacuity guard).
func x4SpecLeg(env *vk.Env, book *x2Book, module string, quick, thorough []string, code []x4Expected, broken x4Expected) {
	cfgs := quick
	if !env.Quick() {
		cfgs = thorough
	}
	var wg sync.WaitGroup
	for _, cfg := range cfgs {
		wg.Add(1)
		go func(cfg string) {
			defer wg.Done()
			x2MustSpec(env, vk.TLCRun{Name: "S " + module + " " + cfg, Module: module, Cfg: cfg, Workers: env.Pick(3, 4), Timeout: 25 * time.Minute})
		}(cfg)
	}
	for _, e := range append(append([]x4Expected{}, code...), broken) {
		wg.Add(1)
		go func(e x4Expected) {
			defer wg.Done()
			res, err := x2TLC(env, vk.TLCRun{Name: "S " + module + " " + e.cfg + " (expected violation)", Module: module, Cfg: e.cfg, Workers: 1, NoCount: true, Timeout: 10 * time.Minute})
			if err != nil {
				env.Infra("tlc %s/%s: %v", module, e.cfg, err)
				return
			}
			if res.OK || !strings.Contains(res.Violated, e.violated) {
				env.Infra("%s/%s: expected TLC to report a violation of %s, got ok=%v violated=%q\n%s", module, e.cfg, e.violated, res.OK, res.Violated, vkTrunc(res.Output, 1500))
				return
			}
			os.RemoveAll(res.Dir)
			if e.sig != "" {
				book.add(module, e.sig, e.text, nil)
			}
		}(e)
	}
	wg.Wait()
}

// ------------------------------------------------------------------ legs A and B of one component

type x4Sizes struct {
	behaviours, depth   int // leg A
	histories, ops, haz int // leg B
	partsA, partsB      int
}

func x4Legs(env *vk.Env, book *x2Book, c *x4Comp, sz x4Sizes, plain func(seed int64, id, nops int, x *x4Exec), hazard func(seed int64, id int, x *x4Exec), base int) {
	var wg sync.WaitGroup
	var mu sync.Mutex
	classes := map[string]int{}
	merge := func(cl map[string]int) {
		mu.Lock()
		for k := range cl {
			classes[k]++
		}
		mu.Unlock()
	}
	if x2Leg("A") {
		wg.Add(1)
		go func() {
			defer wg.Done()
			t := &x2Trace{}
			cl := map[string]int{}
			behs := x2Behaviours(env, "A "+c.module+" generator", c.module+"_Gen", c.genCfg, sz.behaviours, sz.depth)
			for i, states := range behs {
				sc, err := x4BehaviourScenario(c, states, base+i)
				if err != nil {
					env.Infra("%v", err)
					return
				}
				x4Run(c, sc, t, book, cl)
				if i%40 == 1 {
					env.Sample(map[string]any{"module": c.module, "origin": sc.Origin, "scenario": sc.ID, "ops": len(sc.Ops)})
				}
			}
			merge(cl)
			if t.tr.N > 0 {
				x2Judge(env, book, "A "+c.module+"_Trace", c.module, c.module+"_Trace", c.checks, t, sz.partsA)
			}
		}()
	}
	if x2Leg("B") {
		wg.Add(1)
		go func() {
			defer wg.Done()
			t := &x2Trace{}
			cl := map[string]int{}
			for i := 0; i < sz.histories; i++ {
				sc := &x4Scenario{ID: base + 100000 + i, Origin: "random-plain"}
				x := &x4Exec{c: c, t: t, sc: sc, book: book, class: cl}
				plain(env.Seed, sc.ID, sz.ops, x)
				if i == 0 {
					env.Sample(map[string]any{"module": c.module, "origin": sc.Origin, "scenario": sc.ID, "ops": len(sc.Ops), "last": x2Brief([]byte(mustJSON(x.last)))})
				}
			}
			for i := 0; i < sz.haz; i++ {
				sc := &x4Scenario{ID: base + 200000 + i, Origin: "random-hazard"}
				x := &x4Exec{c: c, t: t, sc: sc, book: book, class: cl}
				hazard(env.Seed, sc.ID, x)
			}
			merge(cl)
			x2Judge(env, book, "B "+c.module+"_Trace", c.module, c.module+"_Trace", c.checks, t, sz.partsB)
		}()
	}
	wg.Wait()
	for k := range classes {
		env.Distinct(k)
	}
}

// do appends the op to the scenario (so that a replay file re-executes it) and executes it.
func (x *x4Exec) do(op x4Op) map[string]any {
	x.sc.Ops = append(x.sc.Ops, op)
	return x.step(op)
}

// ------------------------------------------------------------------ driver

func runX04(env *vk.Env) {
	env.Cov.Rule = "Specification extension, not one of the listed properties: rejections are NOTE findings, never violations. " +
		"S: BotScreen_MC (scaled-down layout: rows of 1, inventory of 5 slots, windows 0..1 (0..2), chest types 0..1 and an unsupported type: TypeOK, InventoryAlways, " +
		"Layout, Agree = intent and model of the code differ in the named classes only; OpenRule, CloseRule, SlotRule, ContentRule, ClickRule), " +
		"BotPlayerList_MC (1-2 players, all / ten action sets, packets of up to 2 entries incl. the same player twice: KeyIsId, ExistsIffAdded, Agree, UpdateRule, RemoveRule), " +
		"BotWorld_MC (2x2 / 3x3 positions, known and unknown dimension type: LoadedExactly, SecsOK, Agree, LoadRule, ForgetRule, SpawnRule); for each module the model " +
		"of the code (Variant = code) is expected to violate the intent's invariants and a deliberately broken variant must be rejected. " +
		"A: TLC -simulate behaviours of the code layer with the real layout (46 inventory slots, rows of 9) replayed on the real managers through bot.Client.Events, " +
		"projected state, callbacks and error flag compared after every step. B: seeded random histories incl. packets for windows that are not open, removes and updates " +
		"for unknown players, chunks for unknown dimension types, failing user callbacks, plus hazard scenarios for the named classes. Every execution is judged per " +
		"line by BotScreen_Trace / BotPlayerList_Trace / BotWorld_Trace. Distinct = distinct (module, packet kind, outcome class) in judged traces."
	env.Assume = []string{
		"packets are well-formed protocol 767 packets built with pk.Marshal; item stacks carry no data components (Slot.ReadFrom ignores them: TODO in the code)",
		"window ids are 0..100 (what a vanilla server uses) plus -1 / -2 in ContainerSetSlot; OpenScreen types are >= 0",
		"the last state id is observed through the packet a ContainerClick writes (overlay shim bot.VerifAttachSendQueue gives the client a send queue without a socket)",
		"Player.DimensionType is set by the harness (exported field) as basic.Player's Login / Respawn handlers would; dimension types 0 and 1 are registered with heights 32 and 64",
		"handlers are reached through bot.Client.Events (overlay shim bot.VerifHandlePacket = Client.handlePacket); single goroutine",
	}
	book := &x2Book{}
	var wg sync.WaitGroup
	run := func(f func()) {
		wg.Add(1)
		go func() { defer wg.Done(); f() }()
	}
	if x2Leg("S") {
		run(func() { scrSpecLeg(env, book) })
		run(func() { plSpecLeg(env, book) })
		run(func() { wlSpecLeg(env, book) })
	}
	run(func() { scrLegs(env, book) })
	run(func() { plLegs(env, book) })
	run(func() { wlLegs(env, book) })
	wg.Wait()
	x4Flush(env, book)
	env.Cov.Exhaustive = x2Leg("S")
}

func x4CompOf(module string) *x4Comp {
	switch module {
	case "BotScreen":
		return scrComp()
	case "BotPlayerList":
		return plComp()
	case "BotWorld":
		return wlComp()
	}
	return nil
}

func replayX04(env *vk.Env, b []byte) {
	var f struct {
		Replay struct {
			Module string     `json:"module"`
			Sc     x4Scenario `json:"scenario"`
			Seed   int64      `json:"seed"`
		} `json:"replay"`
	}
	if err := json.Unmarshal(b, &f); err != nil {
		env.Infra("replay: %v", err)
		return
	}
	if f.Replay.Seed != 0 {
		env.Seed = f.Replay.Seed
	}
	c := x4CompOf(f.Replay.Module)
	if c == nil {
		env.Infra("replay: unknown module %q", f.Replay.Module)
		return
	}
	book := &x2Book{}
	t := &x2Trace{}
	x4Run(c, f.Replay.Sc, t, book, nil)
	x2Judge(env, book, "replay", c.module, c.module+"_Trace", c.checks, t, 1)
	x4Flush(env, book)
	env.Cov.States, env.Cov.Transitions = 1, 1
	env.Sample(f.Replay.Module)
}
