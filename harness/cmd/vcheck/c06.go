package main

// C06 packet field codecs. Spec: specs/Wire.tla (Enc / independent Dec over a type algebra).
// Leg S+A: TLC enumerates (type expression, boundary value) states, checks Dec(Enc(v)) = v, prefix failure,
//          and prints {ty, val, bytes}; every vector is executed on the real fields: WriteTo bytes and count,
//          ReadFrom into destinations of four prior shapes, two reader kinds, API variants, Marshal/Scan/Builder.
// Leg B:   random type compositions and values; recorded enc/dec calls judged by Wire_Trace (TLC).

import (
	"bytes"
	"encoding/json"
	"fmt"
	"math/rand"
	"strings"
	"time"

	pk "github.com/Tnze/go-mc/net/packet"
	"verif/harness/vk"
)

func init() { drivers["C06"] = driver{run: runC06, replay: replayC06} }

type wireVec struct {
	Ty    wireType `json:"ty"`
	Val   any      `json:"val"`
	Bytes []int    `json:"bytes"`
}

var wirePriors = []string{"nil", "shorter", "longer", "sparecap", "tightcap"}

func wireTail(t wireType) []byte {
	last := t
	for last.T == "tuple" {
		last = last.Es[len(last.Es)-1]
	}
	if last.T == "rest" {
		return nil
	}
	return []byte{0xff, 0x80}
}

func checkWireVector(env *vk.Env, v wireVec) {
	want := bytesOf(v.Bytes)
	rep := map[string]any{"kind": "vector", "vec": v}
	for variant := 0; variant < 2; variant++ {
		out, wn, err, pan, msg := wireEncode(v.Ty, variant, v.Val)
		if pan {
			env.Report(wireSig("WriteTo panics", v.Ty, ""), msg, rep)
			continue
		}
		if err != nil || !bytes.Equal(out, want) {
			env.Report(wireSig("WriteTo bytes differ from Wire!Enc", v.Ty, ""), fmt.Sprintf("val=%s got=% x err=%v want=% x", mustJSON(v.Val), out, err, want), rep)
		}
		if int(wn) != len(out) {
			env.Report(wireSig("WriteTo byte count wrong", v.Ty, ""), fmt.Sprintf("val=%s n=%d produced=%d", mustJSON(v.Val), wn, len(out)), rep)
		}
		tail := wireTail(v.Ty)
		in := append(append([]byte{}, want...), tail...)
		for _, prior := range wirePriors {
			for _, plain := range []bool{false, true} {
				r := wireDecode(v.Ty, variant, in, prior, v.Val, plain)
				cls := "prior=" + prior
				if r.Panicked {
					env.Report(wireSig("ReadFrom panics", v.Ty, cls), fmt.Sprintf("val=%s input=% x: %s", mustJSON(v.Val), in, r.Msg), rep)
					continue
				}
				if !r.Ok || !absEqual(r.Val, v.Val) {
					env.Report(wireSig("ReadFrom value differs from what was written", v.Ty, cls), fmt.Sprintf("input=% x plain=%v ok=%v got=%s want=%s", in, plain, r.Ok, mustJSON(r.Val), mustJSON(v.Val)), rep)
				}
				if r.Ok && (int(r.Rn) != len(want) || r.Left != len(tail)) {
					env.Report(wireSig("ReadFrom byte count / residual wrong", v.Ty, cls), fmt.Sprintf("input=% x plain=%v n=%d left=%d want n=%d left=%d", in, plain, r.Rn, r.Left, len(want), len(tail)), rep)
				}
			}
		}
	}
	// composition through Marshal / Builder / Scan
	pan, msg := catch(func() {
		c := buildCodec(v.Ty, 0)
		p := pk.Marshal(0x2a, pk.Boolean(true), c.enc(v.Val), pk.VarInt(300))
		var b pk.Builder
		b.WriteField(pk.Boolean(true))
		b.WriteField(c.enc(v.Val), pk.VarInt(300))
		p2 := b.Packet(0x2a)
		exp := append(append([]byte{1}, want...), 0xac, 0x02)
		if wireTail(v.Ty) != nil {
			if p.ID != 0x2a || !bytes.Equal(p.Data, exp) || !bytes.Equal(p2.Data, exp) {
				env.Report(wireSig("Marshal/Builder do not concatenate fields in order", v.Ty, ""), fmt.Sprintf("got % x / % x want % x", p.Data, p2.Data, exp), rep)
			}
			// packets built earlier are values: building this one must not have changed them
			for _, h := range wireHeld {
				if !bytes.Equal(h.p.Data, h.exp) {
					env.Report("a packet built by Marshal/Builder changed when a later packet was built", fmt.Sprintf("held % x want % x (after building %s)", h.p.Data, h.exp, v.Ty.class()), rep)
					wireHeld = nil
					break
				}
			}
			wireHeld = append(wireHeld, wireHeldPk{p, exp}, wireHeldPk{p2, exp})
			if len(wireHeld) > 8 {
				wireHeld = wireHeld[2:]
			}
			d, get := c.dest("longer", v.Val)
			var flag pk.Boolean
			var last pk.VarInt
			if err := p.Scan(&flag, d, &last); err != nil || !bool(flag) || last != 300 || !absEqual(get(), v.Val) {
				env.Report(wireSig("Packet.Scan does not decode fields in order", v.Ty, ""), fmt.Sprintf("err=%v flag=%v last=%d got=%s", err, flag, last, mustJSON(normAbs(get()))), rep)
			}
		}
	})
	if pan {
		env.Report(wireSig("Marshal/Scan panics", v.Ty, ""), msg, rep)
	}
	env.Distinct("vec/" + v.Ty.class())
}

type wireHeldPk struct {
	p   pk.Packet
	exp []byte
}

// the last few packets built by Marshal / Builder, with the bytes the specification gave for them
var wireHeld []wireHeldPk

// ---------------------------------------------------------------- random types and values (leg B)

var wireScalarNames = []string{"bool", "i8", "u8", "angle", "i16", "u16", "i32", "i64", "f32", "f64", "uuid", "varint", "varlong", "str", "bytes", "bitset", "pos"}
var wireAryElems = []string{"varint", "str", "pos", "bool", "i64", "i16", "uuid", "f32", "i32", "u8", "bytes", "varlong"}
var wireOptElems = []string{"varint", "str", "pos", "i64", "uuid", "bytes", "bool"}
var wireLenTypes = []string{"varint", "varlong", "i8", "u8", "i16", "u16", "i32", "i64"}

func randWireType(rng *rand.Rand, depth int, last bool) wireType {
	r := rng.Intn(10)
	switch {
	case depth > 0 && r == 0:
		n := 1 + rng.Intn(4)
		t := wireType{T: "tuple"}
		for i := 0; i < n; i++ {
			t.Es = append(t.Es, randWireType(rng, depth-1, last && i == n-1))
		}
		return t
	case depth > 0 && r == 1:
		e := randWireType(rng, depth-1, false)
		for e.T == "opt" {
			e = randWireType(rng, depth-1, false)
		}
		return wireType{T: "opt", Has: rng.Intn(3) != 0, E: &e}
	case r == 2:
		return wireType{T: "option", E: &wireType{T: wireOptElems[rng.Intn(len(wireOptElems))]}}
	case r == 3 || r == 4:
		return wireType{T: "ary", L: wireLenTypes[rng.Intn(len(wireLenTypes))], E: &wireType{T: wireAryElems[rng.Intn(len(wireAryElems))]}}
	case r == 5:
		return wireType{T: "fixedbits", N: 1 + rng.Intn(40)}
	case r == 6 && last:
		return wireType{T: "rest"}
	}
	return wireType{T: wireScalarNames[rng.Intn(len(wireScalarNames))]}
}

// wireLeadingVar: the maximal width of the VarInt / VarLong the encoding of t starts with (0: it starts with something else)
func wireLeadingVar(t wireType) int {
	switch t.T {
	case "varint", "str", "bytes", "bitset":
		return 5
	case "varlong":
		return 10
	case "ary":
		switch t.L {
		case "varint":
			return 5
		case "varlong":
			return 10
		}
	case "tuple":
		if len(t.Es) > 0 {
			return wireLeadingVar(t.Es[0])
		}
	}
	return 0
}

// padFirstVar re-spells the VarInt at the start of in with `extra` more bytes (continuation bit on its last byte, then
// 0x80 ... 0x00): the same value in a longer, still legal spelling
func padFirstVar(in []byte, extra, max int) ([]byte, bool) {
	n := 0
	for n < len(in) && in[n] >= 0x80 {
		n++
	}
	if n >= len(in) || n+1+extra > max {
		return nil, false
	}
	out := append([]byte{}, in[:n]...)
	out = append(out, in[n]|0x80)
	for i := 0; i < extra-1; i++ {
		out = append(out, 0x80)
	}
	out = append(out, 0x00)
	return append(out, in[n+1:]...), true
}

func randPattern(rng *rand.Rand, w int) []any {
	b := make([]byte, w)
	switch rng.Intn(4) {
	case 0:
		rng.Read(b)
	case 1: // small
		b[w-1] = byte(rng.Intn(256))
		if w > 1 && rng.Intn(2) == 0 {
			b[w-2] = byte(rng.Intn(256))
		}
	case 2: // negative small
		for i := range b {
			b[i] = 0xff
		}
		b[w-1] = byte(rng.Intn(256))
	default: // single bit
		i := rng.Intn(8 * w)
		b[i/8] = 1 << uint(7-i%8)
	}
	return toAbsBytes(b).([]any)
}

func randWireValue(rng *rand.Rand, t wireType) any {
	switch t.T {
	case "bool":
		return []any{float64(rng.Intn(2))}
	case "i8", "u8", "angle":
		return randPattern(rng, 1)
	case "i16", "u16":
		return randPattern(rng, 2)
	case "i32", "f32", "varint":
		return randPattern(rng, 4)
	case "i64", "f64", "varlong":
		return randPattern(rng, 8)
	case "uuid":
		return randPattern(rng, 16)
	case "str", "bytes", "rest":
		n := []int{0, 1, 2, 5, 127, 128, 300}[rng.Intn(7)]
		b := make([]byte, n)
		rng.Read(b)
		return toAbsBytes(b)
	case "bitset":
		n := rng.Intn(4)
		a := make([]any, n)
		for i := range a {
			a[i] = randPattern(rng, 8)
		}
		return a
	case "fixedbits":
		b := make([]byte, (t.N+7)/8)
		rng.Read(b)
		return toAbsBytes(b)
	case "pos":
		pick := func(bits uint) float64 {
			lim := int64(1) << (bits - 1)
			switch rng.Intn(4) {
			case 0:
				return float64(-lim)
			case 1:
				return float64(lim - 1)
			case 2:
				return float64(rng.Int63n(2*lim) - lim)
			}
			return float64(rng.Intn(5) - 2)
		}
		return []any{pick(26), pick(12), pick(26)}
	case "option":
		if rng.Intn(3) == 0 {
			return map[string]any{"has": false, "v": []any{}}
		}
		return map[string]any{"has": true, "v": randWireValue(rng, *t.E)}
	case "opt":
		if !t.Has {
			return []any{}
		}
		return randWireValue(rng, *t.E)
	case "ary":
		n := []int{0, 1, 2, 3, 7}[rng.Intn(5)]
		if t.L != "i8" && rng.Intn(12) == 0 {
			n = 128 + rng.Intn(10)
		}
		a := make([]any, n)
		for i := range a {
			a[i] = randWireValue(rng, *t.E)
		}
		return a
	case "tuple":
		a := make([]any, len(t.Es))
		for i := range t.Es {
			a[i] = randWireValue(rng, t.Es[i])
		}
		return a
	}
	panic("randWireValue " + t.T)
}

type wireEncEv struct {
	K        string   `json:"k"`
	Ty       wireType `json:"ty"`
	Val      any      `json:"val"`
	Bytes    []int    `json:"bytes"`
	Wn       int      `json:"wn"`
	Err      bool     `json:"err"`
	Panicked bool     `json:"panicked"`
	Variant  int      `json:"variant"`
}
type wireDecEv struct {
	K        string   `json:"k"`
	Ty       wireType `json:"ty"`
	Input    []int    `json:"input"`
	Ok       bool     `json:"ok"`
	Rn       int      `json:"rn"`
	Val      any      `json:"val"`
	Left     int      `json:"left"`
	Panicked bool     `json:"panicked"`
	Prior    string   `json:"prior"`
	Plain    bool     `json:"plain"`
	Variant  int      `json:"variant"`
	Like     any      `json:"like"`
	Class    string   `json:"class"` // how the input was made (valid / which mutation)
	CmpVal   bool     `json:"cmpval"`
}

func wireEncEvent(t wireType, variant int, v any) wireEncEv {
	out, wn, err, pan, _ := wireEncode(t, variant, v)
	return wireEncEv{K: "enc", Ty: t, Val: normAbs(v), Bytes: ints(out), Wn: int(wn), Err: err != nil, Panicked: pan, Variant: variant}
}
func wireDecEvent(t wireType, variant int, in []byte, prior string, like any, plain bool, class string) wireDecEv {
	r := wireDecode(t, variant, in, prior, like, plain)
	return wireDecEv{K: "dec", Ty: t, Input: ints(in), Ok: r.Ok, Rn: int(r.Rn), Val: r.Val, Left: r.Left, Panicked: r.Panicked, Prior: prior, Plain: plain, Variant: variant, Like: normAbs(like), Class: class, CmpVal: !strings.Contains(t.class(), "palcont")}
}

// wireJudge validates per-line traces; on rejection re-executes the recorded call and asks TLC again.
func wireJudge(env *vk.Env, tr *vk.Trace, label, prop string) {
	run := vk.TLCRun{Name: label, Module: "Wire_Trace", Cfg: "Wire_Trace.cfg", Workers: 8, Timeout: 25 * time.Minute, Heap: "8g", Continue: true}
	v, err := env.ValidateTrace(run, "trace.ndjson", tr.Bytes())
	if err != nil {
		env.Infra("%s: %v", label, err)
		return
	}
	env.Sub(map[string]any{"run": label, "events": tr.N, "accepted": v.Accepted, "rejected_lines": len(v.Res.Lines)})
	if !v.Accepted && v.Res.Violated == "" {
		env.Infra("%s: no verdict:\n%s", label, v.Res.Output)
		return
	}
	env.AddTraces(int64(tr.N - len(v.Res.Lines)))
	env.AddEval(int64(tr.N))
	if v.Accepted {
		return
	}
	lines := bytes.Split(bytes.TrimSpace(tr.Bytes()), []byte("\n"))
	seen := map[string]bool{}
	for _, vl := range v.Res.Lines {
		if vl.L < 1 || vl.L > len(lines) {
			continue
		}
		pre := wireLineSig(lines[vl.L-1])
		if seen[pre] || len(seen) > 40 {
			continue
		}
		seen[pre] = true
		sig, detail, again := wireRejudgeLine(env, lines[vl.L-1])
		if !again {
			env.Infra("%s: rejection of line %d did not reproduce: %s", label, vl.L, vkTrunc(string(lines[vl.L-1]), 300))
			continue
		}
		env.Report(sig, vl.Inv+" violated by recorded call: "+detail, map[string]any{"kind": "line", "line": json.RawMessage(lines[vl.L-1])})
	}
}

// wireLineSig computes the signature class of a recorded line (type class + observed outcome).
func wireLineSig(raw []byte) string {
	var e struct {
		K        string   `json:"k"`
		Ty       wireType `json:"ty"`
		Ok       bool     `json:"ok"`
		Err      bool     `json:"err"`
		Panicked bool     `json:"panicked"`
		Prior    string   `json:"prior"`
		Class    string   `json:"class"`
	}
	json.Unmarshal(raw, &e)
	if e.K == "enc" {
		return wireSig("WriteTo rejected by Wire_Trace", e.Ty, fmt.Sprintf("err=%v panicked=%v", e.Err, e.Panicked))
	}
	return wireSig("ReadFrom rejected by Wire_Trace", e.Ty, fmt.Sprintf("input=%s prior=%s ok=%v panicked=%v", e.Class, e.Prior, e.Ok, e.Panicked))
}

func wireRejudgeLine(env *vk.Env, raw []byte) (sig, detail string, rejected bool) {
	var e wireDecEv
	json.Unmarshal(raw, &e)
	tr := &vk.Trace{}
	if e.K == "enc" {
		var ee wireEncEv
		json.Unmarshal(raw, &ee)
		ev := wireEncEvent(ee.Ty, ee.Variant, ee.Val)
		tr.Add(ev)
		detail = vkTrunc(mustJSON(ev), 700)
	} else {
		ev := wireDecEvent(e.Ty, e.Variant, bytesOf(e.Input), e.Prior, e.Like, e.Plain, e.Class)
		tr.Add(ev)
		detail = vkTrunc(mustJSON(ev), 700)
	}
	sig = wireLineSig(bytes.TrimSpace(tr.Bytes()))
	v, err := env.ValidateTrace(vk.TLCRun{Name: "rejudge", Module: "Wire_Trace", Cfg: "Wire_Trace.cfg", Workers: 1, NoCount: true}, "trace.ndjson", tr.Bytes())
	if err != nil {
		return sig, detail, false
	}
	return sig, detail, !v.Accepted && v.Res.Violated != ""
}

func runC06(env *vk.Env) {
	env.Cov.Rule = "TLC enumerates Wire.tla's menu of type expressions (all scalar field types, Option/Opt/Ary with all eight length-prefix types/Tuple to depth 3) x boundary values, checks Dec(Enc(v)) = (v, n) with a tail and that strict prefixes fail, and prints one vector per state; every vector runs on the real fields (2 API variants x 5 prior destination shapes x 2 reader kinds, Marshal/Builder/Scan). Random compositions/values are recorded and judged by Wire_Trace, also behind length prefixes / VarInts re-spelt in a longer legal form. Distinct/non-trivial = distinct type-expression classes exercised."
	env.Assume = []string{"NaN payloads are compared by bit pattern", "Opt with unsupported Has kinds (documented panic) is not generated", "NBT fields are covered with the NBT specification (C01)"}
	res := env.MustSpec(vk.TLCRun{Name: "S+A Wire_MC", Module: "Wire", Cfg: "Wire_MC.cfg", Workers: 8, Timeout: 15 * time.Minute})
	if res == nil {
		return
	}
	env.Cov.Exhaustive = true
	n := 0
	for _, s := range res.Printed {
		var v wireVec
		if err := json.Unmarshal([]byte(s), &v); err != nil {
			env.Infra("bad vector: %v", err)
			return
		}
		checkWireVector(env, v)
		n++
		if n%160 == 1 {
			env.Sample(v)
		}
	}
	if n < 500 {
		env.Infra("only %d vectors", n)
		return
	}
	env.AddTraces(int64(n))
	env.AddEval(int64(n * 2 * (1 + 8)))
	// leg B
	rng := newRand(env.Seed, "c06b")
	tr := &vk.Trace{}
	nb := env.Pick(1500, 160000)
	part := 0
	for i := 0; i < nb; i++ {
		t := randWireType(rng, 3, true)
		v := randWireValue(rng, t)
		variant := rng.Intn(2)
		ev := wireEncEvent(t, variant, v)
		tr.Add(ev)
		if ev.Panicked || ev.Err {
			continue
		}
		in := append(bytesOf(ev.Bytes), wireTail(t)...)
		tr.Add(wireDecEvent(t, variant, in, wirePriors[rng.Intn(len(wirePriors))], v, rng.Intn(2) == 0, "valid"))
		env.Distinct("rand/" + t.class())
		// the value as the last thing in the stream, read through a plain io.Reader: for streams of even length its
		// last byte(s) arrive together with io.EOF
		if rng.Intn(3) == 0 {
			tr.Add(wireDecEvent(t, variant, bytesOf(ev.Bytes), wirePriors[rng.Intn(len(wirePriors))], v, true, "valid-ends-stream"))
		}
		// the same value behind a length prefix (or as a VarInt / VarLong) that the sender did not write in its shortest
		// form: the decoder accepts such prefixes, so the count it reports must be that of the bytes it took
		if max := wireLeadingVar(t); max > 0 && rng.Intn(2) == 0 {
			if padded, ok := padFirstVar(in, 1+rng.Intn(3), max); ok {
				tr.Add(wireDecEvent(t, variant, padded, wirePriors[rng.Intn(len(wirePriors))], v, rng.Intn(2) == 0, "padded-prefix"))
				env.Distinct("padded/" + t.class())
			}
		}
		if tr.N >= 20000 { // TLC loads a trace file into memory: judge in chunks
			part++
			wireJudge(env, tr, fmt.Sprintf("B random compositions [part %d]", part), "C06")
			tr = &vk.Trace{}
		}
	}
	if tr.N > 0 {
		wireJudge(env, tr, "B random compositions", "C06")
	}
	// strings at the top of the protocol domain: the limit is 32767 UTF-16 code units, which is up to three times as
	// many bytes on the wire - alone, in an Ary and behind an Option
	tr = &vk.Trace{}
	for _, long := range []string{strings.Repeat("é", 16384), strings.Repeat("世", 10923), strings.Repeat("a", 32767)} {
		v := toAbsBytes([]byte(long))
		for _, t := range []wireType{{T: "str"}, {T: "option", E: &wireType{T: "str"}}} {
			var val any = v
			if t.T == "option" {
				val = map[string]any{"has": true, "v": v}
			}
			ev := wireEncEvent(t, 0, val)
			tr.Add(ev)
			if ev.Panicked || ev.Err {
				continue
			}
			tr.Add(wireDecEvent(t, 0, append(bytesOf(ev.Bytes), wireTail(t)...), "shorter", val, true, "valid"))
		}
		env.Distinct(fmt.Sprintf("long-string/%d-bytes", len(long)))
	}
	wireJudge(env, tr, "B strings at the top of the protocol domain", "C06")
}

func replayC06(env *vk.Env, b []byte) {
	var f struct {
		Replay struct {
			Kind string          `json:"kind"`
			Vec  wireVec         `json:"vec"`
			Line json.RawMessage `json:"line"`
		} `json:"replay"`
	}
	json.Unmarshal(b, &f)
	env.Cov.States, env.Cov.Transitions = 1, 1
	env.Sample(f.Replay.Kind)
	if f.Replay.Kind == "vector" {
		checkWireVector(env, f.Replay.Vec)
	} else if sig, detail, rej := wireRejudgeLine(env, f.Replay.Line); rej {
		env.Report(sig, detail, f.Replay)
	}
}
