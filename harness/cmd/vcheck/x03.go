package main

// X03: specification extension: the server command graph (server/command: builders.go, command.go, parsers.go,
// serialize.go, component.go).  Specs: specs/Cmd.tla (+ Cmd_MC, Cmd_Gen, Cmd_Trace).
// Leg S:  TLC explores Cmd_MC.cfg (the builder API as a state machine, every interleaving, 2 nodes: table invariants,
//         wire round trip through the independent decoder, Exec properties over all lines to 3 bytes) and Cmd_MC_exec.cfg
//         (3 nodes up to renumbering: soundness, completeness, trim invariance, as-written = intent on lines that close
//         no quoted phrase); three deliberately broken variants must be rejected (lastmatch, dropexec, aswritten - the
//         last one is the model-level form of the ExecQuoted finding).
// Leg A:  TLC -simulate behaviours of Cmd_Gen (builder steps, Execute on lines spelled from the graph, WriteTo) replayed
//         on a real command.Graph through the exported API; the projected node table / type states / outcome / body is
//         compared with the state TLC computed after every step.
// Leg B:  long seeded random histories (random graphs incl. shared children, duplicate sibling names, names that can
//         never be typed, > 128 nodes, long names; lines walked from the graph and mutated, random lines).
// All executions (A and B) are recorded as ndjson and judged per line by Cmd_Trace in TLC.
// An extension check never raises VIOLATION: rejections are `NOTE spec-extension Cmd finding: ...` lines, exit code 0.

import (
	"bytes"
	"context"
	"encoding/json"
	"errors"
	"fmt"
	"math/rand"
	"os"
	"path/filepath"
	"reflect"
	"sort"
	"strings"
	"sync"
	"time"
	"unsafe"

	"github.com/Tnze/go-mc/data/packetid"
	pk "github.com/Tnze/go-mc/net/packet"
	"github.com/Tnze/go-mc/server/command"
	"verif/harness/vk"
)

func init() { drivers["X03"] = driver{run: runX03, replay: replayX03} }

// names of the checks of Cmd_Trace (printed as <<"X2FAIL", line, {checks}>>)
var cgChecks = map[int][2]string{
	1:  {"Fresh", "NewGraph is not a table holding just the root"},
	2:  {"NoPanic", "the call panicked"},
	3:  {"NewNode", "Graph.Literal / Graph.Argument: the table is not the old one plus the new node (kind, name, parser, no children, no handler) at the next index"},
	4:  {"AppendLiteral", "AppendLiteral: the table is not the old one with the child's index appended to the parent's children (or the builder type state is wrong)"},
	5:  {"AppendArgument", "AppendArgument: the table is not the old one with the child's index appended to the parent's children (or the builder type state is wrong)"},
	6:  {"Handle", "HandleFunc: the node does not carry the given handler afterwards, or something else changed"},
	7:  {"Unhandle", "Unhandle: the node does not carry the package's unhandled function afterwards, or something else changed"},
	8:  {"WellFormed", "a builder call breaks the table discipline (index = position, children exist and are finished, only literals or exactly one argument, no cycle, type state matches children)"},
	9:  {"ReadOnly", "Execute / WriteTo changed the graph"},
	10: {"ExecPlain", "Execute on a line that closes no quoted phrase: handler / arguments / error-or-not differ from Exec"},
	11: {"ExecQuoted", "Execute on a line that feeds a closed quoted phrase to a quotable-phrase argument: handler / arguments / error-or-not differ from Exec (the text behind the closing quote is the rest of the line)"},
	12: {"ExecModelled", "Execute on a line with a closed quoted phrase: the outcome is neither the intent nor the code as modelled (StringParser returns the text in front of the last character of the phrase)"},
	13: {"ErrClass", "Execute returns an error of another class than specified (incomplete / unhandled / extra text + that text / parse)"},
	14: {"HandlerReturn", "Execute does not return exactly what the handler returned, or the handler got another context"},
	15: {"WireBytes", "WriteTo: the body is not Enc(table) in any reading, or the byte count / ClientJoin packet is wrong"},
	16: {"WireDecodes", "WriteTo: the independent decoder does not get the node table back from the body"},
	17: {"WireParserId", "WriteTo names the parser of an argument node by Identifier (\"brigadier:string\"); protocol 759+ (server.ProtocolVersion 764) has a VarInt parser id (5) there, so a current client cannot decode the body"},
	18: {"WireExecutable", "WriteTo announces a node finished with Unhandle() as executable (flag 0x04) although executing it always fails"},
}

// ------------------------------------------------------------------ projection

type cgNode struct {
	Kind     int
	Name     []int
	Parser   int
	Children []int
	Run      int
}

func nzInts(a []int) []int {
	if a == nil {
		return []int{}
	}
	return a
}

func (n cgNode) MarshalJSON() ([]byte, error) {
	return []byte(mustJSON([]any{n.Kind, nzInts(n.Name), n.Parser, nzInts(n.Children), n.Run})), nil
}
func (n *cgNode) UnmarshalJSON(b []byte) error {
	var t []json.RawMessage
	if err := json.Unmarshal(b, &t); err != nil || len(t) != 5 {
		return fmt.Errorf("node: %v", err)
	}
	json.Unmarshal(t[0], &n.Kind)
	json.Unmarshal(t[1], &n.Name)
	json.Unmarshal(t[2], &n.Parser)
	json.Unmarshal(t[3], &n.Children)
	json.Unmarshal(t[4], &n.Run)
	return nil
}

type cgArg struct {
	Tag int
	Val []int
}

func (a cgArg) MarshalJSON() ([]byte, error) {
	return []byte(mustJSON([]any{a.Tag, nzInts(a.Val)})), nil
}

type cgCall struct {
	H    int
	Args []cgArg
	ctx  context.Context
}

func (c cgCall) MarshalJSON() ([]byte, error) {
	a := c.Args
	if a == nil {
		a = []cgArg{}
	}
	return []byte(mustJSON([]any{c.H, a})), nil
}

type cgState struct {
	Nodes []cgNode
	Stage []string
	Idx   []int // the index field of every node
	Own   bool  // every node points back to this graph
}

type cgHandlerErr struct{ h int }

func (e cgHandlerErr) Error() string { return fmt.Sprint("handler ", e.h, " says no") }

// harness handler h returns nil for even h and its own error value for odd h
func cgHerr(h int) error {
	if h%2 == 1 {
		return cgHandlerErr{h}
	}
	return nil
}

var cgUnhandledPC = func() uintptr {
	g := command.NewGraph()
	return reflect.ValueOf((*command.Node)(g.Literal("x").Unhandle()).Run).Pointer()
}()

type cgExec struct {
	t     *x2Trace
	sc    *cgScenario
	book  *x2Book
	class map[string]int
	g     *command.Graph
	hold  []any // hold[i]: the builder value (or finished *Literal / *Argument) the caller holds for node i; hold[0] = nil
	sink  []cgCall
	nops  int
	stop  bool
	hpc   uintptr
}

// handler must not be inlined: every harness handler has to share one code pointer (project recognises them by it)
//
//go:noinline
func (x *cgExec) handler(h int) command.HandlerFunc {
	return func(ctx context.Context, args []command.ParsedData) error {
		c := cgCall{H: h, ctx: ctx, Args: []cgArg{}}
		for _, a := range args {
			switch v := a.(type) {
			case nil:
				c.Args = append(c.Args, cgArg{0, []int{}})
			case command.LiteralData:
				c.Args = append(c.Args, cgArg{1, ints([]byte(v))})
			case string:
				c.Args = append(c.Args, cgArg{2, ints([]byte(v))})
			default:
				c.Args = append(c.Args, cgArg{9, ints([]byte(fmt.Sprintf("%T", a)))})
			}
		}
		x.sink = append(x.sink, c)
		return cgHerr(h)
	}
}

func cgNodePtrs(g *command.Graph) []*command.Node {
	gv := reflect.ValueOf(g).Elem().FieldByName("nodes")
	out := make([]*command.Node, gv.Len())
	for i := range out {
		out[i] = (*command.Node)(unsafe.Pointer(gv.Index(i).Pointer()))
	}
	return out
}

func cgHolderNode(h any) (stage string, node uintptr) {
	cur := func(v reflect.Value) uintptr { return v.FieldByName("current").Pointer() }
	switch b := h.(type) {
	case command.LiteralBuilder:
		return "fresh", cur(reflect.ValueOf(b))
	case command.ArgumentBuilder:
		return "fresh", cur(reflect.ValueOf(b))
	case command.LiteralBuilderWithLiteral:
		return "lits", cur(reflect.ValueOf(b).FieldByName("n"))
	case command.ArgumentBuilderWithLiteral:
		return "lits", cur(reflect.ValueOf(b).FieldByName("n"))
	case command.LiteralBuilderWithArgument:
		return "arg", cur(reflect.ValueOf(b).FieldByName("n"))
	case command.ArgumentBuilderWithArgument:
		return "arg", cur(reflect.ValueOf(b).FieldByName("n"))
	case *command.Literal:
		return "done", uintptr(unsafe.Pointer(b))
	case *command.Argument:
		return "done", uintptr(unsafe.Pointer(b))
	}
	return "unheld", 0
}

// project reads the node table of the real graph (read-only) and the type states of the held builder values.
func (x *cgExec) project() (st cgState) {
	st.Own = true
	st.Nodes, st.Stage, st.Idx = []cgNode{}, []string{}, []int{}
	if x.g == nil {
		return
	}
	defer func() {
		if r := recover(); r != nil {
			st.Nodes = append(st.Nodes, cgNode{Kind: 99, Parser: -9, Run: -9})
			st.Stage = append(st.Stage, "panic")
			st.Idx = append(st.Idx, -1)
		}
	}()
	for i, nd := range cgNodePtrs(x.g) {
		rv := reflect.ValueOf(nd).Elem()
		n := cgNode{Kind: int(rv.FieldByName("kind").Uint()), Name: ints([]byte(nd.Name)), Parser: -1, Children: []int{}}
		for _, c := range nd.Children {
			n.Children = append(n.Children, int(c))
		}
		switch p := nd.Parser.(type) {
		case nil:
		case command.StringParser:
			n.Parser = int(p)
		default:
			n.Parser = -9
		}
		if nd.Run != nil {
			switch reflect.ValueOf(nd.Run).Pointer() {
			case cgUnhandledPC:
				n.Run = -1
			case x.hpc:
				keep := x.sink
				x.sink = nil
				nd.Run(context.Background(), nil)
				n.Run = -2
				if len(x.sink) == 1 {
					n.Run = x.sink[0].H
				}
				x.sink = keep
			default:
				n.Run = -2
			}
		}
		if nd.SuggestionsType != "" {
			n.Kind += 100 // nothing in the builder API sets it
		}
		st.Nodes = append(st.Nodes, n)
		st.Idx = append(st.Idx, int(rv.FieldByName("index").Int()))
		if rv.FieldByName("g").Pointer() != uintptr(unsafe.Pointer(x.g)) {
			st.Own = false
		}
		stage := "unheld"
		if i == 0 {
			stage = "root"
		} else if i < len(x.hold) {
			var p uintptr
			stage, p = cgHolderNode(x.hold[i])
			if p != uintptr(unsafe.Pointer(nd)) {
				stage = "alien" // the builder value does not refer to the node at that index
			}
		}
		st.Stage = append(st.Stage, stage)
	}
	return
}

// ------------------------------------------------------------------ scenarios

type cgRes struct {
	Kind string  `json:"kind"`
	Cls  string  `json:"cls"`
	H    int     `json:"h"`
	Args []cgArg `json:"-"`
	Left []int   `json:"left"`
	Q    bool    `json:"q"`
}

type cgExp struct { // the state TLC computed after the step (leg A)
	Nodes []cgNode
	Stage []string
	Res   *cgRes // intent
	ResW  *cgRes // as written
	Bytes []int
}

type cgOp struct {
	Op     string `json:"op"`
	P      int    `json:"p"`
	C      int    `json:"c"`
	Name   []int  `json:"name"`
	Parser int    `json:"parser"`
	H      int    `json:"h"`
	Line   []int  `json:"line"`
	Exp    *cgExp `json:"-"`
}

type cgScenario struct {
	ID     int    `json:"id"`
	Origin string `json:"origin"`
	Ops    []cgOp `json:"ops"`
}

type cgFakeClient struct{ got []pk.Packet }

func (c *cgFakeClient) SendPacket(p pk.Packet) { c.got = append(c.got, p) }

func cgErrClass(err error) (cls string, left []int) {
	left = []int{}
	var pe command.ParseErr
	var he cgHandlerErr
	switch {
	case err == nil:
		return "none", left
	case errors.As(err, &he):
		return "handler", left
	case errors.As(err, &pe):
		return "parse", left
	case err.Error() == "unhandled function":
		return "unhandled", left
	case err.Error() == "incomplete command":
		return "incomplete", left
	case strings.HasPrefix(err.Error(), "command contains extra text: "):
		return "extra", ints([]byte(strings.TrimPrefix(err.Error(), "command contains extra text: ")))
	}
	return "other", left
}

// apply performs one builder call on the held values; it returns an error when the harness itself is wrong
// (a call the Go types do not offer), never for behaviour of the code under test.
func (x *cgExec) apply(op cgOp) error {
	name := string(bytesOf(op.Name))
	child := func() any {
		if op.C <= 0 || op.C >= len(x.hold) {
			return nil
		}
		return x.hold[op.C]
	}
	switch op.Op {
	case "reset":
		x.g = command.NewGraph()
		x.hold = []any{nil}
	case "lit":
		x.hold = append(x.hold, x.g.Literal(name))
	case "arg":
		x.hold = append(x.hold, x.g.Argument(name, command.StringParser(op.Parser)))
	case "applit":
		c, ok := child().(*command.Literal)
		if !ok {
			return fmt.Errorf("applit: node %d is not a finished literal", op.C)
		}
		if op.P == 0 {
			x.g.AppendLiteral(c)
			return nil
		}
		if op.P < 0 || op.P >= len(x.hold) {
			return fmt.Errorf("applit: no node %d", op.P)
		}
		switch b := x.hold[op.P].(type) {
		case command.LiteralBuilder:
			x.hold[op.P] = b.AppendLiteral(c)
		case command.LiteralBuilderWithLiteral:
			x.hold[op.P] = b.AppendLiteral(c)
		case command.ArgumentBuilder:
			x.hold[op.P] = b.AppendLiteral(c)
		case command.ArgumentBuilderWithLiteral:
			x.hold[op.P] = b.AppendLiteral(c)
		default:
			return fmt.Errorf("applit: %T offers no AppendLiteral", b)
		}
	case "apparg":
		c, ok := child().(*command.Argument)
		if !ok {
			return fmt.Errorf("apparg: node %d is not a finished argument", op.C)
		}
		if op.P <= 0 || op.P >= len(x.hold) {
			return fmt.Errorf("apparg: no node %d", op.P)
		}
		switch b := x.hold[op.P].(type) {
		case command.LiteralBuilder:
			x.hold[op.P] = b.AppendArgument(c)
		case command.ArgumentBuilder:
			x.hold[op.P] = b.AppendArgument(c)
		default:
			return fmt.Errorf("apparg: %T offers no AppendArgument", b)
		}
	case "handle", "unhandle":
		if op.P <= 0 || op.P >= len(x.hold) {
			return fmt.Errorf("%s: no node %d", op.Op, op.P)
		}
		var f command.HandlerFunc
		if op.Op == "handle" {
			f = x.handler(op.H)
		}
		fin := func(h func(command.HandlerFunc) any, u func() any) any {
			if f != nil {
				return h(f)
			}
			return u()
		}
		switch b := x.hold[op.P].(type) {
		case command.LiteralBuilder:
			x.hold[op.P] = fin(func(f command.HandlerFunc) any { return b.HandleFunc(f) }, func() any { return b.Unhandle() })
		case command.LiteralBuilderWithLiteral:
			x.hold[op.P] = fin(func(f command.HandlerFunc) any { return b.HandleFunc(f) }, func() any { return b.Unhandle() })
		case command.LiteralBuilderWithArgument:
			x.hold[op.P] = fin(func(f command.HandlerFunc) any { return b.HandleFunc(f) }, func() any { return b.Unhandle() })
		case command.ArgumentBuilder:
			x.hold[op.P] = fin(func(f command.HandlerFunc) any { return b.HandleFunc(f) }, func() any { return b.Unhandle() })
		case command.ArgumentBuilderWithLiteral:
			x.hold[op.P] = fin(func(f command.HandlerFunc) any { return b.HandleFunc(f) }, func() any { return b.Unhandle() })
		case command.ArgumentBuilderWithArgument:
			x.hold[op.P] = fin(func(f command.HandlerFunc) any { return b.HandleFunc(f) }, func() any { return b.Unhandle() })
		default:
			return fmt.Errorf("%s: %T is not an open builder", op.Op, b)
		}
	}
	return nil
}

type cgCtxKey struct{}

func (x *cgExec) do(op cgOp) cgState {
	if x.hpc == 0 {
		x.hpc = reflect.ValueOf(x.handler(0)).Pointer()
	}
	ev := map[string]any{"k": op.Op, "p": op.P, "c": op.C, "name": nzInts(op.Name), "parser": op.Parser, "h": op.H, "line": nzInts(op.Line),
		"panicked": false, "calls": []cgCall{}, "ecls": "none", "left": []int{}, "retown": true, "ctxok": true,
		"bytes": []int{}, "wn": 0, "werr": false}
	var herr error
	var calls []cgCall
	p, pmsg := catch(func() {
		switch op.Op {
		case "exec":
			ctx := context.WithValue(context.Background(), cgCtxKey{}, x.nops)
			x.sink = nil
			err := x.g.Execute(ctx, string(bytesOf(op.Line)))
			calls = x.sink
			x.sink = nil
			cls, left := cgErrClass(err)
			ev["ecls"], ev["left"] = cls, left
			if len(calls) > 0 {
				ev["calls"] = calls
				ev["retown"] = len(calls) == 1 && err == cgHerr(calls[0].H)
				ev["ctxok"] = calls[0].ctx == ctx
			}
		case "wire":
			var buf bytes.Buffer
			n, err := x.g.WriteTo(&buf)
			fc := &cgFakeClient{}
			x.g.ClientJoin(fc)
			joinOK := len(fc.got) == 1 && fc.got[0].ID == int32(packetid.ClientboundCommands) && bytes.Equal(fc.got[0].Data, buf.Bytes())
			ev["bytes"], ev["wn"], ev["werr"] = nzInts(ints(buf.Bytes())), int(n), err != nil || !joinOK
		default:
			herr = x.apply(op)
		}
	})
	if herr != nil && !x.stop {
		x.stop = true
		x.book.add("Cmd", "Harness - a scenario asks for a call the Go types do not offer", fmt.Sprintf("scenario %d op %d: %v", x.sc.ID, x.nops, herr), nil)
	}
	if p {
		ev["panicked"] = true
		ev["ecls"] = "panic"
		_ = pmsg
	}
	st := x.project()
	if op.Op == "lit" || op.Op == "arg" {
		ev["p"] = -1
		if n := len(st.Idx); n > 0 {
			ev["p"] = st.Idx[n-1] // the index the new node was given
		}
	}
	ev["nodes"], ev["stage"], ev["idx"], ev["own"] = st.Nodes, st.Stage, st.Idx, st.Own
	x.t.add(ev, x2Meta{Scenario: x.sc.ID, Origin: x.sc.Origin, Op: x.nops, Kind: op.Op}, x.sc)
	x.nops++
	if x.class != nil {
		c := fmt.Sprint("Cmd/", op.Op)
		switch op.Op {
		case "exec":
			c += fmt.Sprint("/", ev["ecls"], "/ran=", len(calls) > 0, "/quote=", bytes.IndexByte(bytesOf(op.Line), '"') >= 0, "/depth=", cgDepthClass(calls))
		case "wire":
			c += fmt.Sprint("/n=", cgSizeClass(len(st.Nodes)))
		default:
			c += fmt.Sprint("/n=", cgSizeClass(len(st.Nodes)), "/root=", op.P == 0)
		}
		x.class[c]++
	}
	if e := op.Exp; e != nil && !x.stop {
		what := ""
		cls := "build"
		switch {
		case p:
			what = "the call panicked: " + vkTrunc(pmsg, 200)
		case mustJSON(st.Nodes) != mustJSON(e.Nodes):
			what = fmt.Sprintf("node table %s, TLC state %s", vkTrunc(mustJSON(st.Nodes), 300), vkTrunc(mustJSON(e.Nodes), 300))
		case mustJSON(st.Stage) != mustJSON(e.Stage):
			what = fmt.Sprintf("builder type states %s, TLC state %s", mustJSON(st.Stage), mustJSON(e.Stage))
		case op.Op == "exec":
			cls = "exec"
			// a line that closes a quoted phrase may follow either reading here; the intent is judged by Cmd_Trace
			got := fmt.Sprintf("calls %s error class %v left %s", mustJSON(ev["calls"]), ev["ecls"], mustJSON(ev["left"]))
			diff := func(r *cgRes) string {
				if r.Kind == "ran" {
					if len(calls) != 1 || calls[0].H != r.H || mustJSON(calls[0].Args) != mustJSON(r.Args) || (ev["ecls"] != "none" && ev["ecls"] != "handler") {
						return fmt.Sprintf("%s, TLC: handler %d with %s", got, r.H, mustJSON(r.Args))
					}
				} else if len(calls) != 0 || ev["ecls"] != r.Cls || (r.Cls == "extra" && mustJSON(ev["left"]) != mustJSON(nzInts(r.Left))) {
					return fmt.Sprintf("%s, TLC: error %s left %s", got, r.Cls, mustJSON(nzInts(r.Left)))
				}
				return ""
			}
			what = diff(e.Res)
			if what != "" && e.Res.Q {
				what = diff(e.ResW)
			}
			if what != "" {
				what = fmt.Sprintf("line %q: %s", string(bytesOf(op.Line)), what)
			}
		case op.Op == "wire":
			cls = "wire"
			if mustJSON(ev["bytes"]) != mustJSON(nzInts(e.Bytes)) {
				what = fmt.Sprintf("body % x, TLC % x", bytesOf(ev["bytes"].([]int)), bytesOf(e.Bytes))
			}
		}
		if what != "" {
			x.stop = true
			x.book.add("Cmd", fmt.Sprintf("Replay(%s,%s) - the real graph differs from what TLC computed for the step", x.sc.Origin, cls),
				fmt.Sprintf("scenario %d op %d (%s): %s", x.sc.ID, x.nops-1, op.Op, what), x.sc)
		}
	}
	return st
}

func cgSizeClass(n int) string {
	switch {
	case n <= 1:
		return "1"
	case n <= 4:
		return "2..4"
	case n <= 16:
		return "5..16"
	case n <= 127:
		return "17..127"
	default:
		return ">=128"
	}
}

func cgDepthClass(calls []cgCall) string {
	if len(calls) == 0 {
		return "-"
	}
	if n := len(calls[0].Args); n <= 4 {
		return fmt.Sprint(n)
	}
	return ">4"
}

func cgRun(sc cgScenario, t *x2Trace, book *x2Book) {
	x := &cgExec{t: t, sc: &sc, book: book}
	for _, op := range sc.Ops {
		x.do(op)
	}
}

// ------------------------------------------------------------------ leg A: behaviours

func cgTlaNodes(v any) []cgNode {
	out := []cgNode{}
	l, _ := v.([]any)
	for _, e := range l {
		m := e.(map[string]any)
		out = append(out, cgNode{Kind: m["kind"].(int), Name: x2Ints(m["name"]), Parser: m["parser"].(int), Children: x2Ints(m["children"]), Run: m["run"].(int)})
	}
	return out
}

func cgTlaRes(v any) *cgRes {
	m := v.(map[string]any)
	r := &cgRes{Kind: m["kind"].(string), Cls: m["cls"].(string), H: m["h"].(int), Left: x2Ints(m["left"]), Q: m["q"].(bool), Args: []cgArg{}}
	al, _ := m["args"].([]any)
	for _, a := range al {
		t := a.([]any)
		r.Args = append(r.Args, cgArg{t[0].(int), x2Ints(t[1])})
	}
	return r
}

func cgBehaviourScenario(states []map[string]any, id int) (sc cgScenario, err error) {
	defer func() {
		if r := recover(); r != nil {
			err = fmt.Errorf("behaviour %d: unexpected state shape: %v", id, r)
		}
	}()
	sc = cgScenario{ID: id, Origin: "tlc-simulate"}
	for k, st := range states {
		act := st["act"].(map[string]any)
		exp := &cgExp{Nodes: cgTlaNodes(st["nodes"]), Res: cgTlaRes(act["res"]), ResW: cgTlaRes(act["resw"]), Bytes: x2Ints(act["bytes"]), Stage: []string{}}
		sl, _ := st["stage"].([]any)
		for _, s := range sl {
			exp.Stage = append(exp.Stage, s.(string))
		}
		op := cgOp{Op: act["op"].(string), P: act["p"].(int), C: act["c"].(int), Name: x2Ints(act["name"]), Parser: act["parser"].(int),
			H: act["h"].(int), Line: x2Ints(act["line"]), Exp: exp}
		if k == 0 {
			op.Op = "reset"
		}
		switch op.Op {
		case "reset", "lit", "arg", "applit", "apparg", "handle", "unhandle", "exec", "wire":
		default:
			return sc, fmt.Errorf("behaviour %d: unknown action %q", id, op.Op)
		}
		sc.Ops = append(sc.Ops, op)
	}
	return sc, nil
}

// ------------------------------------------------------------------ leg B: random histories

type cgShadow struct { // what the generator remembers about a node (never used for a verdict)
	kind, parser int
	name         string
	kids         []int
	open         bool
	stage        string // fresh | lits | arg | done
	parents      int
}

type cgGen struct {
	rng  *rand.Rand
	x    *cgExec
	sh   []cgShadow // index = node index
	max  int
	pool []string
}

func (g *cgGen) step(op cgOp) {
	g.x.sc.Ops = append(g.x.sc.Ops, op)
	g.x.do(op)
}

var cgNamesGood = []string{"a", "b", "tp", "me", "help", "list", "ab", "a\"", "\"q", "b\\", "é", "x-1", "A"}
var cgNamesBad = []string{"", "a ", " a", "a b", "a\tb", "a "}

func (g *cgGen) name() string {
	switch r := g.rng.Intn(100); {
	case r < 55:
		return g.pool[g.rng.Intn(len(g.pool))]
	case r < 85:
		return cgNamesGood[g.rng.Intn(len(cgNamesGood))]
	case r < 97:
		return cgNamesBad[g.rng.Intn(len(cgNamesBad))]
	case r < 99:
		return strings.Repeat("n", 120+g.rng.Intn(20)) // name length crosses the one-byte VarInt
	default:
		return strings.Repeat("é", 70)
	}
}

func (g *cgGen) newNode() {
	idx := len(g.sh)
	if g.rng.Intn(100) < 60 {
		nm := g.name()
		g.sh = append(g.sh, cgShadow{kind: 1, parser: -1, name: nm, open: true, stage: "fresh"})
		g.step(cgOp{Op: "lit", P: idx, Name: ints([]byte(nm)), Parser: -1})
	} else {
		nm := g.name()
		ps := g.rng.Intn(3)
		g.sh = append(g.sh, cgShadow{kind: 2, parser: ps, name: nm, open: true, stage: "fresh"})
		g.step(cgOp{Op: "arg", P: idx, Name: ints([]byte(nm)), Parser: ps})
	}
}

func (g *cgGen) done(kind int, orphanFirst bool) int {
	var all, orphans []int
	for i := 1; i < len(g.sh); i++ {
		if !g.sh[i].open && g.sh[i].kind == kind {
			all = append(all, i)
			if g.sh[i].parents == 0 {
				orphans = append(orphans, i)
			}
		}
	}
	if orphanFirst && len(orphans) > 0 && g.rng.Intn(100) < 85 {
		return orphans[g.rng.Intn(len(orphans))]
	}
	if len(all) == 0 {
		return 0
	}
	return all[g.rng.Intn(len(all))]
}

// buildStep performs one random builder call that the type state of the held values allows.
func (g *cgGen) buildStep() {
	var open []int
	for i := 1; i < len(g.sh); i++ {
		if g.sh[i].open {
			open = append(open, i)
		}
	}
	r := g.rng.Intn(100)
	switch {
	case len(g.sh) <= g.max && (len(open) == 0 && r < 50 || r < 22):
		g.newNode()
	case r < 40: // the root takes a finished literal
		if c := g.done(1, true); c > 0 {
			g.sh[0].kids = append(g.sh[0].kids, c)
			g.sh[c].parents++
			g.step(cgOp{Op: "applit", P: 0, C: c, Parser: -1})
		}
	case r < 72 && len(open) > 0:
		p := open[g.rng.Intn(len(open))]
		s := &g.sh[p]
		if s.stage == "fresh" && g.rng.Intn(100) < 45 {
			if c := g.done(2, true); c > 0 {
				s.kids, s.stage = append(s.kids, c), "arg"
				g.sh[c].parents++
				g.step(cgOp{Op: "apparg", P: p, C: c, Parser: -1})
				return
			}
		}
		if s.stage == "fresh" || s.stage == "lits" {
			if c := g.done(1, true); c > 0 {
				s.kids, s.stage = append(s.kids, c), "lits"
				g.sh[c].parents++
				g.step(cgOp{Op: "applit", P: p, C: c, Parser: -1})
			}
		}
	case len(open) > 0:
		p := open[g.rng.Intn(len(open))]
		g.sh[p].open, g.sh[p].stage = false, "done"
		if g.rng.Intn(100) < 22 {
			g.step(cgOp{Op: "unhandle", P: p, Parser: -1})
		} else {
			g.step(cgOp{Op: "handle", P: p, H: 1 + g.rng.Intn(9), Parser: -1})
		}
	}
}

var cgSeps = []string{" ", " ", " ", "  ", "\t", " \t ", "\n", " ", "  ", " \u0085"}
var cgWords = []string{"b", "xyz", "Tnze", "1", "\"q", "b\\", "x\"y", "é", "a", "tp", "\\"}
var cgQuoted = []string{`"b c"`, `""`, `"b\"c"`, `"bc`, `"b"c`, `"\\"`, `"a"`, `"\x"`, `" "`, `"é b"`, `"b\`, `"b" `, `"a\\\"b c"`, "\"b\\é c\"", "\"\\\u00a0x\""}
var cgGreedy = []string{"b  c", `"b" c`, "b", `say "hi" \ there`, "é    z"}

func (g *cgGen) token(parser int) string {
	r := g.rng.Intn(100)
	switch {
	case parser == 2 && r < 70:
		return cgGreedy[g.rng.Intn(len(cgGreedy))]
	case parser == 1 && r < 65:
		return cgQuoted[g.rng.Intn(len(cgQuoted))]
	case r < 12:
		return cgQuoted[g.rng.Intn(len(cgQuoted))]
	}
	return cgWords[g.rng.Intn(len(cgWords))]
}

func (g *cgGen) sep() string { return cgSeps[g.rng.Intn(len(cgSeps))] }

// line spells a walk from the root (a literal by its name, an argument by a token), then mutates it.
func (g *cgGen) line() string {
	if g.rng.Intn(100) < 8 { // anything over the alphabet
		al := []string{"a", "b", "t", "p", " ", " ", "\t", "\"", "\\", " ", "é"}
		var sb strings.Builder
		for k := g.rng.Intn(12); k > 0; k-- {
			sb.WriteString(al[g.rng.Intn(len(al))])
		}
		return sb.String()
	}
	var toks []string
	cur := 0
	stopAt := g.rng.Intn(7)
	for d := 0; d < 8; d++ {
		kids := g.sh[cur].kids
		if len(kids) == 0 || (d > 0 && d == stopAt && g.rng.Intn(100) < 50) {
			break
		}
		c := kids[g.rng.Intn(len(kids))]
		if g.sh[c].kind == 1 {
			toks = append(toks, g.sh[c].name)
		} else {
			toks = append(toks, g.token(g.sh[c].parser))
		}
		cur = c
	}
	switch r := g.rng.Intn(100); {
	case r < 12:
		toks = append(toks, cgWords[g.rng.Intn(len(cgWords))]) // trailing text / one more argument
	case r < 17 && len(toks) > 0:
		toks[g.rng.Intn(len(toks))] = "zz" // unknown literal
	case r < 20 && len(toks) > 0:
		toks[0] = toks[0] + "x" // a longer word with the literal as prefix
	case r < 23:
		toks = append([]string{""}, toks...)
	}
	var sb strings.Builder
	if g.rng.Intn(100) < 15 {
		sb.WriteString(g.sep())
	}
	for i, t := range toks {
		if i > 0 {
			sb.WriteString(g.sep())
		}
		sb.WriteString(t)
	}
	if g.rng.Intn(100) < 15 {
		sb.WriteString(g.sep())
	}
	return sb.String()
}

func cgGenRandom(seed int64, id, maxNodes, nbuild, nexec int, t *x2Trace, book *x2Book, classes map[string]int) cgScenario {
	rng := newRand(seed, fmt.Sprint("cmd-random", id))
	sc := cgScenario{ID: id, Origin: "random"}
	g := &cgGen{rng: rng, max: maxNodes, sh: []cgShadow{{stage: "root"}}}
	for k := 2 + rng.Intn(4); k > 0; k-- {
		g.pool = append(g.pool, cgNamesGood[rng.Intn(len(cgNamesGood))])
	}
	g.x = &cgExec{t: t, sc: &sc, book: book, class: classes}
	g.step(cgOp{Op: "reset", Parser: -1})
	for k := 0; k < nbuild; k++ {
		g.buildStep()
	}
	for k := 0; k < nexec; k++ {
		switch r := rng.Intn(100); {
		case r < 4:
			g.step(cgOp{Op: "wire", Parser: -1})
		case r < 12:
			g.buildStep() // the graph keeps changing between executions
		default:
			g.step(cgOp{Op: "exec", Parser: -1, Line: ints([]byte(g.line()))})
		}
	}
	g.step(cgOp{Op: "wire", Parser: -1})
	return sc
}

// cgGenShaped: the documented example of the package, a chain, a wide table (> 128 nodes, long names), and quoted
// phrases in front of a further argument.
func cgGenShaped(seed int64, id int, t *x2Trace, book *x2Book, classes map[string]int) cgScenario {
	rng := newRand(seed, fmt.Sprint("cmd-shaped", id))
	sc := cgScenario{ID: id, Origin: "random-shaped"}
	g := &cgGen{rng: rng, sh: []cgShadow{{stage: "root"}}}
	g.x = &cgExec{t: t, sc: &sc, book: book, class: classes}
	g.step(cgOp{Op: "reset", Parser: -1})
	lit := func(nm string) int {
		g.sh = append(g.sh, cgShadow{kind: 1, parser: -1, name: nm, open: true, stage: "fresh"})
		g.step(cgOp{Op: "lit", P: len(g.sh) - 1, Name: ints([]byte(nm)), Parser: -1})
		return len(g.sh) - 1
	}
	arg := func(nm string, ps int) int {
		g.sh = append(g.sh, cgShadow{kind: 2, parser: ps, name: nm, open: true, stage: "fresh"})
		g.step(cgOp{Op: "arg", P: len(g.sh) - 1, Name: ints([]byte(nm)), Parser: ps})
		return len(g.sh) - 1
	}
	app := func(p, c int) {
		g.sh[p].kids = append(g.sh[p].kids, c)
		g.sh[c].parents++
		if g.sh[c].kind == 1 {
			g.step(cgOp{Op: "applit", P: p, C: c, Parser: -1})
		} else {
			g.step(cgOp{Op: "apparg", P: p, C: c, Parser: -1})
		}
	}
	fin := func(p, h int) {
		g.sh[p].open = false
		if h < 0 {
			g.step(cgOp{Op: "unhandle", P: p, Parser: -1})
		} else {
			g.step(cgOp{Op: "handle", P: p, H: h, Parser: -1})
		}
	}
	switch id % 4 {
	case 3: // quoted phrases in front of a further argument: the lines on which the code as written still runs a handler
		q := lit("q")
		a := arg("phrase", 1)
		b := arg("next", []int{0, 2, 1}[(id/4)%3])
		var c int
		if id%8 == 3 {
			c = arg("last", 0)
			fin(c, 4)
			app(b, c)
		}
		fin(b, 2)
		app(a, b)
		fin(a, 1)
		app(q, a)
		fin(q, -1)
		app(0, q)
		for _, t := range cgQuoted {
			for _, tail := range []string{"", " w", "  w w", " \"w\"", "\tw \"x y\""} {
				g.step(cgOp{Op: "exec", Parser: -1, Line: ints([]byte("q " + t + tail))})
			}
		}
	case 0: // command_test.go: me <action...>, help [command], list [uuids]
		me := lit("me")
		act := arg("action", 2)
		fin(act, 1)
		app(me, act)
		fin(me, -1)
		app(0, me)
		help := lit("help")
		cmd := arg("command", rng.Intn(2))
		fin(cmd, 2)
		app(help, cmd)
		fin(help, 3)
		app(0, help)
		list := lit("list")
		uu := lit("uuids")
		fin(uu, 4)
		app(list, uu)
		fin(list, 5)
		app(0, list)
		for _, l := range []string{"me Tnze Xi_Xi_Mi", "me", "me  ", "help", "help me", "help me now", "list", "list uuids", "list uuids x", "list x", "lis", "", " ", "help \"me\"", "me \"a b\" c"} {
			g.step(cgOp{Op: "exec", Parser: -1, Line: ints([]byte(l))})
		}
	case 1: // a chain of quotable / single-word / greedy arguments under one literal
		top := lit("tp")
		n := 2 + rng.Intn(4)
		ids := []int{top}
		for k := 0; k < n; k++ {
			ps := rng.Intn(2)
			if k == n-1 {
				ps = rng.Intn(3)
			}
			ids = append(ids, arg(fmt.Sprint("a", k), ps))
		}
		for k := n; k >= 1; k-- {
			fin(ids[k], 1+k)
			app(ids[k-1], ids[k])
		}
		fin(top, 9)
		app(0, top)
		for k := 0; k < 60; k++ {
			g.step(cgOp{Op: "exec", Parser: -1, Line: ints([]byte(g.line()))})
		}
	case 2: // a wide and long table: more than 128 nodes (two-byte VarInt indices and counts), one long name
		n := 130 + rng.Intn(40)
		var lits []int
		for k := 0; k < n; k++ {
			nm := fmt.Sprint("c", k)
			if k == 7 {
				nm = strings.Repeat("L", 129+rng.Intn(5))
			}
			l := lit(nm)
			if k%3 == 0 {
				a := arg("v", k%3)
				fin(a, 1+k%9)
				app(l, a)
			} else if k%5 == 0 && len(lits) > 0 {
				app(l, lits[rng.Intn(len(lits))])
			}
			fin(l, map[bool]int{true: -1, false: 1 + k%9}[k%7 == 3])
			lits = append(lits, l)
			if k%40 == 39 {
				g.step(cgOp{Op: "wire", Parser: -1})
			}
		}
		for _, l := range lits { // the root gets more than 128 children
			app(0, l)
		}
		for k := 0; k < 25; k++ {
			g.step(cgOp{Op: "exec", Parser: -1, Line: ints([]byte(g.line()))})
		}
	}
	g.step(cgOp{Op: "wire", Parser: -1})
	return sc
}

// ------------------------------------------------------------------ legs

func x3Flush(env *vk.Env, id string, b *x2Book) {
	keys := make([]string, 0, len(b.m))
	for k := range b.m {
		keys = append(keys, k)
	}
	sort.Strings(keys)
	for _, k := range keys {
		f := b.m[k]
		where := ""
		if f.replay != nil && env.Replay == "" {
			name := f.sig
			if i := strings.Index(name, " - "); i > 0 {
				name = name[:i]
			}
			name = strings.Map(func(r rune) rune {
				if r >= 'a' && r <= 'z' || r >= 'A' && r <= 'Z' || r >= '0' && r <= '9' {
					return r
				}
				return '_'
			}, name)
			p := filepath.Join(vk.Root, "out", "replays", fmt.Sprintf("%s-%s-%s.json", id, f.module, name))
			os.MkdirAll(filepath.Dir(p), 0o755)
			body, _ := json.Marshal(map[string]any{"property": id, "signature": f.sig, "detail": f.first,
				"replay": map[string]any{"module": f.module, "scenario": f.replay, "seed": env.Seed}})
			if os.WriteFile(p, body, 0o644) == nil {
				where = "; replay=" + p
			}
		}
		env.Note("spec-extension %s finding: %s (%d events; first: %s%s)", f.module, f.sig, f.n, vkTrunc(f.first, 420), where)
	}
	if len(keys) == 0 {
		env.Note("spec-extension %s: no finding in this run", id)
	}
}

func cgSpecLeg(env *vk.Env, book *x2Book) {
	var wg sync.WaitGroup
	run := func(f func()) {
		wg.Add(1)
		go func() { defer wg.Done(); f() }()
	}
	mc, ex := "Cmd_MC.cfg", "Cmd_MC_exec.cfg"
	if !env.Quick() {
		mc, ex = "Cmd_MC_thorough.cfg", "Cmd_MC_exec_thorough.cfg"
	}
	run(func() {
		x2MustSpec(env, vk.TLCRun{Name: "S Cmd builder + wire + exec (every interleaving)", Module: "Cmd_MC", Cfg: mc, Workers: 4, Timeout: 25 * time.Minute})
	})
	run(func() {
		x2MustSpec(env, vk.TLCRun{Name: "S Cmd exec properties (graphs up to renumbering)", Module: "Cmd_MC", Cfg: ex, Workers: env.Pick(4, 6), Timeout: 25 * time.Minute})
	})
	// vacuity guards: the deliberately broken variants must be rejected by the invariant that is meant to see them
	expect := func(cfg, inv string) *vk.TLCResult {
		res, err := x2TLC(env, vk.TLCRun{Name: "S " + cfg + " (expected violation of " + inv + ")", Module: "Cmd_MC", Cfg: cfg, Workers: 1, NoCount: true, Timeout: 5 * time.Minute})
		if err != nil {
			env.Infra("%s: %v", cfg, err)
			return nil
		}
		if res.Violated != inv {
			if cfg == "Cmd_MC_aswritten.cfg" && res.OK {
				return res
			}
			env.Infra("%s: the broken variant is not rejected by %s (violated=%q exit=%d)\n%s", cfg, inv, res.Violated, res.ExitCode, vkTrunc(res.Output, 1500))
			return nil
		}
		return res
	}
	run(func() { expect("Cmd_MC_lastmatch.cfg", "ExecSound") })
	run(func() { expect("Cmd_MC_dropexec.cfg", "RoundTrip") })
	run(func() {
		// the model-level form of the ExecQuoted finding: Exec as written is not complete
		if res := expect("Cmd_MC_aswritten.cfg", "ExecComplete"); res != nil {
			if res.OK {
				env.Note("spec-extension Cmd: the as-written reading satisfies ExecComplete in Cmd_MC_aswritten.cfg - the model of parsers.go no longer shows the finding")
			} else {
				book.add("Cmd", "Model(AsWritten) - TLC: Exec with StringParser as written violates ExecComplete (Cmd_MC_aswritten.cfg)",
					"shortest counterexample: root -> literal a -> quotable argument; the canonical line `a \"b\"` (or `a \"\"` followed by more text) does not run the argument's handler with the phrase", nil)
			}
		}
	})
	wg.Wait()
}

func cgLegs(env *vk.Env, book *x2Book) {
	var wg sync.WaitGroup
	var mu sync.Mutex
	classes := map[string]int{}
	merge := func(c map[string]int) {
		mu.Lock()
		for k := range c {
			classes[k]++
		}
		mu.Unlock()
	}
	if x2Leg("A") {
		wg.Add(1)
		go func() {
			defer wg.Done()
			t := &x2Trace{}
			cl := map[string]int{}
			behs := x2Behaviours(env, "A Cmd generator", "Cmd_Gen", "Cmd_Gen.cfg", env.Pick(40, 500), env.Pick(70, 110))
			for i, states := range behs {
				sc, err := cgBehaviourScenario(states, 300000+i)
				if err != nil {
					env.Infra("%v", err)
					return
				}
				x := &cgExec{t: t, sc: &sc, book: book, class: cl}
				for _, op := range sc.Ops {
					x.do(op)
				}
				if i%25 == 1 {
					env.Sample(map[string]any{"module": "Cmd", "origin": sc.Origin, "scenario": sc.ID, "ops": len(sc.Ops)})
				}
			}
			merge(cl)
			if t.tr.N > 0 {
				x2Judge(env, book, "A Cmd_Trace", "Cmd", "Cmd_Trace", cgChecks, t, env.Pick(3, 8))
			}
		}()
	}
	if x2Leg("B") {
		wg.Add(1)
		go func() {
			defer wg.Done()
			t := &x2Trace{}
			cl := map[string]int{}
			nsc, nexec, nshaped := env.Pick(10, 70), env.Pick(140, 400), env.Pick(8, 48)
			for i := 0; i < nsc; i++ {
				max := []int{4, 9, 16, 30}[i%4]
				sc := cgGenRandom(env.Seed, 4000+i, max, 5*max, nexec, t, book, cl)
				if i < 2 {
					env.Sample(map[string]any{"module": "Cmd", "origin": sc.Origin, "scenario": sc.ID, "ops": len(sc.Ops)})
				}
			}
			for i := 0; i < nshaped; i++ {
				cgGenShaped(env.Seed, 5000+i, t, book, cl)
			}
			merge(cl)
			x2Judge(env, book, "B Cmd_Trace", "Cmd", "Cmd_Trace", cgChecks, t, env.Pick(5, 10))
		}()
	}
	wg.Wait()
	for k := range classes {
		env.Distinct(k)
	}
}

func runX03(env *vk.Env) {
	env.Cov.Rule = "Specification extension, not one of the listed properties: rejections are NOTE findings, never violations. " +
		"S: Cmd_MC (builder API as a state machine over every interleaving, 2 nodes: TypeOK, WellFormed, StageMatches, RootOnlyLiterals, BuildRule, " +
		"RoundTrip = Dec(Enc(table)) in both parser forms and both executable-flag readings, FormsDiffer, ExecAll = soundness + trim invariance + " +
		"as-written refines intent over all lines to 3 bytes (thorough: 4) and lines of up to 3 menu tokens, ExecComplete = canonical spellings of every selectable path), " +
		"Cmd_MC_exec (3 nodes up to renumbering), three broken variants that must be rejected (lastmatch/ExecSound, dropexec/RoundTrip, aswritten/ExecComplete). " +
		"A: TLC -simulate behaviours of Cmd_Gen (up to 9 nodes; builder calls, lines spelled from the graph and mutated, bodies) replayed on a real " +
		"command.Graph with node table, builder type states, outcome of Execute and body compared after every step. B: seeded random histories " +
		"(random graphs with shared children, duplicate sibling names, untypeable names, graphs changing between executions, > 128 nodes, long names; " +
		"walked, mutated and random lines incl. quotes, escapes, tabs, U+00A0/U+0085). Every execution is judged per line by Cmd_Trace. " +
		"Distinct = distinct (call kind, outcome class, size class) in judged traces."
	env.Assume = []string{
		"the builder API is used as its Go types allow (a builder value is used once; children are finished nodes of the same graph); Node fields are not written directly",
		"parsers are StringParser(0..2) (the only Parser of the package); other modes panic by design",
		"lines and names are valid UTF-8 whose only non-ASCII white space is U+00A0 / U+0085 (other Unicode spaces are trimmed by strings.TrimSpace but not modelled)",
		"error classes are recognised by ParseErr / the three fixed messages of command.go",
		"projection of unexported state (Graph.nodes, Node.kind/index/g, builder.current) is read-only through reflect/unsafe; Run is identified by code pointer and, for harness handlers, by calling it",
	}
	book := &x2Book{}
	var wg sync.WaitGroup
	if x2Leg("S") {
		wg.Add(1)
		go func() { defer wg.Done(); cgSpecLeg(env, book) }()
	}
	wg.Add(1)
	go func() { defer wg.Done(); cgLegs(env, book) }()
	wg.Wait()
	x3Flush(env, "X03", book)
	env.Cov.Exhaustive = x2Leg("S")
}

func replayX03(env *vk.Env, b []byte) {
	var f struct {
		Replay struct {
			Module string          `json:"module"`
			Sc     json.RawMessage `json:"scenario"`
			Seed   int64           `json:"seed"`
		} `json:"replay"`
	}
	if err := json.Unmarshal(b, &f); err != nil {
		env.Infra("replay: %v", err)
		return
	}
	if f.Replay.Seed != 0 {
		env.Seed = f.Replay.Seed
	}
	var sc cgScenario
	if err := json.Unmarshal(f.Replay.Sc, &sc); err != nil || len(sc.Ops) == 0 {
		env.Infra("replay: no scenario in the file (%v)", err)
		return
	}
	book := &x2Book{}
	t := &x2Trace{}
	cgRun(sc, t, book)
	x2Judge(env, book, "replay", "Cmd", "Cmd_Trace", cgChecks, t, 1)
	x3Flush(env, "X03", book)
	env.Cov.States, env.Cov.Transitions = 1, 1
	env.Sample("Cmd")
}
