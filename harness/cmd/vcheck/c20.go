package main

// C20 concurrency. Specs: Queue.tla (+ Queue_Trace, Queue_Gen), ChanQueue.tla, PlayerList.tla, Streams.tla.
// The binary is built with -race (see ./check); race reports are collected from GORACE's log_path.

import (
	"bytes"
	"encoding/json"
	"fmt"
	"os"
	"path/filepath"
	"regexp"
	"runtime"
	"sort"
	"strconv"
	"sync"
	"sync/atomic"
	"time"

	"github.com/Tnze/go-mc/net/queue"
	"verif/harness/vk"
)

func init() { drivers["C20"] = driver{run: runC20, replay: replayC20} }

// ------------------------------------------------------------------ goroutine identity

func goid() int64 {
	var buf [64]byte
	n := runtime.Stack(buf[:], false)
	// "goroutine 123 ["
	s := buf[len("goroutine "):n]
	i := bytes.IndexByte(s, ' ')
	id, _ := strconv.ParseInt(string(s[:i]), 10, 64)
	return id
}

type qItem struct{ P, K int }

type qScenario struct {
	ID        int    `json:"id"`
	NProd     int    `json:"nprod"`
	NCons     int    `json:"ncons"`
	Items     int    `json:"items"`
	WithClose bool   `json:"withClose"`
	Quota     []int  `json:"quota,omitempty"` // no-close scenarios: consumer i stops after Quota[i] items
	Schedule  []int  `json:"schedule,omitempty"`
	Origin    string `json:"origin"`
	Seed      int64  `json:"seed"`
	ParkFirst bool   `json:"parkFirst,omitempty"` // let every consumer park before the first push
}

type qRun struct {
	q             queue.Queue[qItem]
	mu            sync.Mutex
	events        []map[string]any
	ids           sync.Map // goid -> logical id
	gates         map[int]chan struct{}
	evCh          map[int]chan struct{}
	state         map[int]string // consumer -> "in"|"parked"|"out"
	pushes, pulls int
	free          atomic.Bool
}

var curQRun atomic.Pointer[qRun]

func (r *qRun) me() int {
	if v, ok := r.ids.Load(goid()); ok {
		return v.(int)
	}
	return -1
}

func (r *qRun) log(m map[string]any) {
	r.mu.Lock()
	r.events = append(r.events, m)
	r.mu.Unlock()
}

var hooksOnce sync.Once

func installQueueHooks() { hooksOnce.Do(installQueueHooks1) }

func installQueueHooks1() {
	queue.VerifGate = func(op string, q any) {
		r := curQRun.Load()
		if r == nil || q != any(r.q) {
			return
		}
		id := r.me()
		if id < 0 || r.free.Load() {
			return
		}
		if g, ok := r.gates[id]; ok {
			<-g
		}
	}
	queue.VerifEmit = func(ev string, q any, v any) {
		r := curQRun.Load()
		if r == nil || q != any(r.q) {
			return
		}
		id := r.me()
		m := map[string]any{"k": ev, "g": id}
		r.mu.Lock()
		switch ev {
		case "push":
			it := v.(qItem)
			m["seq"] = it.K
			r.pushes++
		case "pulled":
			it := v.(qItem)
			m["p"], m["seq"] = it.P, it.K
			r.pulls++
			r.state[id] = "in"
		case "wait":
			r.state[id] = "parked"
		case "closedExit":
			r.state[id] = "in"
		}
		r.events = append(r.events, m)
		r.mu.Unlock()
		if ch, ok := r.evCh[id]; ok {
			select {
			case ch <- struct{}{}:
			default:
			}
		}
	}
}

// runQueueScenario executes one scenario on a real LinkedListQueue and appends its events to tr.
func runQueueScenario(sc qScenario, tr *vk.Trace) (timedOut bool) {
	installQueueHooks()
	r := &qRun{q: queue.NewLinkedQueue[qItem](), gates: map[int]chan struct{}{}, evCh: map[int]chan struct{}{}, state: map[int]string{}}
	gated := len(sc.Schedule) > 0
	var all sync.WaitGroup
	var prods sync.WaitGroup
	ids := []int{}
	for p := 1; p <= sc.NProd; p++ {
		ids = append(ids, p)
	}
	for c := 11; c < 11+sc.NCons; c++ {
		ids = append(ids, c)
	}
	ids = append(ids, 0)
	for _, id := range ids {
		r.gates[id] = make(chan struct{})
		r.evCh[id] = make(chan struct{}, 4)
	}
	if !gated {
		r.free.Store(true)
	}
	curQRun.Store(r)
	defer curQRun.Store(nil)
	start := func(id int, f func()) {
		all.Add(1)
		ready := make(chan struct{})
		go func() {
			defer all.Done()
			defer guard("c20")
			r.ids.Store(goid(), id)
			close(ready)
			f()
		}()
		<-ready
	}
	consumersParked := func() bool {
		r.mu.Lock()
		defer r.mu.Unlock()
		n := 0
		for _, s := range r.state {
			if s == "parked" {
				n++
			}
		}
		return n == sc.NCons
	}
	for ci := 0; ci < sc.NCons; ci++ {
		c := 11 + ci
		quota := 0
		if !sc.WithClose && ci < len(sc.Quota) {
			quota = sc.Quota[ci]
		}
		if !sc.WithClose && quota == 0 {
			continue
		}
		rng := newRand(sc.Seed, fmt.Sprint("cons", sc.ID, c))
		start(c, func() {
			got := 0
			for {
				if !gated && rng.Intn(3) == 0 {
					runtime.Gosched()
				}
				if !gated && rng.Intn(40) == 0 {
					time.Sleep(time.Duration(rng.Intn(200)) * time.Microsecond)
				}
				v, ok := r.q.Pull()
				r.mu.Lock()
				r.state[c] = "out"
				r.mu.Unlock()
				r.log(map[string]any{"k": "ret", "g": c, "ok": ok, "p": v.P, "seq": v.K})
				if !ok {
					return
				}
				got++
				if quota > 0 && got >= quota {
					return
				}
			}
		})
	}
	if sc.ParkFirst && !gated {
		for i := 0; i < 2000 && !consumersParked(); i++ {
			time.Sleep(100 * time.Microsecond)
		}
	}
	for p := 1; p <= sc.NProd; p++ {
		p := p
		prods.Add(1)
		rng := newRand(sc.Seed, fmt.Sprint("prod", sc.ID, p))
		start(p, func() {
			defer prods.Done()
			for k := 1; k <= sc.Items; k++ {
				if !gated && rng.Intn(3) == 0 {
					runtime.Gosched()
				}
				if !gated && rng.Intn(40) == 0 {
					time.Sleep(time.Duration(rng.Intn(200)) * time.Microsecond)
				}
				ok := r.q.Push(qItem{p, k})
				r.log(map[string]any{"k": "pushret", "g": p, "ok": ok})
			}
		})
	}
	if sc.WithClose {
		rng := newRand(sc.Seed, fmt.Sprint("closer", sc.ID))
		start(0, func() {
			prods.Wait()
			if !gated && rng.Intn(2) == 0 {
				time.Sleep(time.Duration(rng.Intn(300)) * time.Microsecond)
			}
			r.q.Close()
		})
	}
	if gated {
		// release the gates in the order of the TLC behaviour; wait for the critical section's event
		for _, id := range sc.Schedule {
			select {
			case r.gates[id] <- struct{}{}:
				select {
				case <-r.evCh[id]:
				case <-time.After(100 * time.Millisecond):
				}
			case <-time.After(20 * time.Millisecond):
				// that goroutine is not at a gate (parked in cond.Wait, running after a wake-up, or finished)
			}
		}
		r.free.Store(true)
		for _, g := range r.gates {
			close(g)
		}
	}
	done := make(chan struct{})
	go func() { all.Wait(); close(done) }()
	select {
	case <-done:
	case <-time.After(4 * time.Second):
		timedOut = true
	}
	r.mu.Lock()
	parked := []int{}
	for c, s := range r.state {
		if s == "parked" {
			parked = append(parked, c)
		}
	}
	sort.Ints(parked)
	evs := append([]map[string]any{}, r.events...)
	left := r.pushes - r.pulls
	r.mu.Unlock()
	curQRun.Store(nil)
	if timedOut {
		// let the stuck goroutines go (after the observation): push nothing, just close
		func() { defer func() { recover() }(); r.q.Close() }()
	}
	tr.Add(map[string]any{"k": "reset", "scn": sc.ID, "origin": sc.Origin})
	for _, e := range evs {
		e["scn"] = sc.ID
		tr.Add(e)
	}
	tr.Add(map[string]any{"k": "quiesce", "scn": sc.ID, "parked": parked, "left": left, "timedout": timedOut})
	return timedOut
}

func genQScenario(seed int64, id int) qScenario {
	rng := newRand(seed, fmt.Sprint("qsc", id))
	sc := qScenario{ID: id, NProd: 1 + rng.Intn(8), NCons: 1 + rng.Intn(8), Items: 1 + rng.Intn(6), WithClose: rng.Intn(4) != 0, Origin: "random", Seed: seed}
	sc.ParkFirst = rng.Intn(2) == 0
	if !sc.WithClose {
		// fixed quotas that add up to the number of items: every consumer must be served without any Close
		total := sc.NProd * sc.Items
		if sc.NCons > total {
			sc.NCons = total
		}
		sc.Quota = make([]int, sc.NCons)
		for i := 0; i < total; i++ {
			sc.Quota[i%sc.NCons]++
		}
	}
	return sc
}

var reAct = regexp.MustCompile(`act = <<"(\w+)", (\d+)>>`)

func parseQueueBehaviours(dir string, seed int64) []qScenario {
	files, _ := filepath.Glob(filepath.Join(dir, "qbeh_*"))
	sort.Strings(files)
	var out []qScenario
	for i, f := range files {
		b, err := os.ReadFile(f)
		if err != nil {
			continue
		}
		sc := qScenario{ID: 50000 + i, NProd: 3, NCons: 3, Items: 3, WithClose: true, Origin: "tlc-simulate", Seed: seed}
		for _, m := range reAct.FindAllStringSubmatch(string(b), -1) {
			id, _ := strconv.Atoi(m[2])
			switch m[1] {
			case "push", "wait", "take", "exit":
				sc.Schedule = append(sc.Schedule, id)
			case "close":
				sc.Schedule = append(sc.Schedule, 0)
			}
		}
		if len(sc.Schedule) > 0 {
			out = append(out, sc)
		}
	}
	return out
}

func queueJudge(env *vk.Env, scs []qScenario, label string) {
	tr := &vk.Trace{}
	start := []int{}
	for _, sc := range scs {
		start = append(start, tr.N+1)
		runQueueScenario(sc, tr)
	}
	v, err := env.ValidateTrace(vk.TLCRun{Name: label, Module: "Queue_Trace", Cfg: "Queue_Trace.cfg", Workers: 1, DFS: true, Timeout: 20 * time.Minute}, "trace.ndjson", tr.Bytes())
	if err != nil {
		env.Infra("%s: %v", label, err)
		return
	}
	env.Sub(map[string]any{"run": label, "scenarios": len(scs), "events": tr.N, "accepted": v.Accepted})
	if v.Accepted {
		env.AddTraces(int64(len(scs)))
		env.AddEval(int64(tr.N))
		for _, sc := range scs {
			env.Distinct(fmt.Sprintf("queue/%s/p%d/c%d/close=%v/park=%v", sc.Origin, sc.NProd, sc.NCons, sc.WithClose, sc.ParkFirst))
		}
		return
	}
	if v.HWM == 0 {
		env.Infra("%s: no verdict:\n%s", label, v.Res.Output)
		return
	}
	bi := 0
	for i := range scs {
		if start[i] <= v.HWM {
			bi = i
		}
	}
	bad := scs[bi]
	lines := bytes.Split(bytes.TrimSpace(tr.Bytes()), []byte("\n"))
	end := len(lines)
	if bi+1 < len(scs) {
		end = start[bi+1] - 1
	}
	recorded := bytes.Join(lines[start[bi]-1:end], []byte("\n"))
	sig, detail, rejected, hang := queueJudgeRecorded(env, recorded)
	if !rejected {
		env.Infra("%s: rejection at line %d not confirmed when scenario %d's recorded trace was validated alone", label, v.HWM, bad.ID)
		return
	}
	if hang {
		// a hang is a timing observation: it counts only if three fresh runs hang as well
		for i := 0; i < 3; i++ {
			t2 := &vk.Trace{}
			runQueueScenario(bad, t2)
			_, _, rej2, hang2 := queueJudgeRecorded(env, bytes.TrimSpace(t2.Bytes()))
			if !rej2 || !hang2 {
				env.Infra("%s: hang of scenario %d did not reproduce on re-run %d", label, bad.ID, i+1)
				return
			}
		}
	}
	env.Report(sig, detail, map[string]any{"kind": "queue", "scenario": bad, "recorded": string(recorded)})
}

// queueJudgeRecorded validates one recorded scenario trace alone and classifies the rejection.
func queueJudgeRecorded(env *vk.Env, recorded []byte) (sig, detail string, rejected, hang bool) {
	v, err := env.ValidateTrace(vk.TLCRun{Name: "rejudge", Module: "Queue_Trace", Cfg: "Queue_Trace.cfg", Workers: 1, DFS: true, NoCount: true}, "trace.ndjson", append(recorded, '\n'))
	if err != nil || v.Accepted || v.HWM == 0 {
		return "", "", false, false
	}
	lines := bytes.Split(recorded, []byte("\n"))
	var ev struct {
		K        string `json:"k"`
		Ok       *bool  `json:"ok"`
		Timedout bool   `json:"timedout"`
	}
	json.Unmarshal(lines[v.HWM-1], &ev)
	sig = "LinkedListQueue trace rejected at event " + ev.K
	if ev.K == "quiesce" && ev.Timedout {
		sig += " (consumer left parked: lost wake-up / deadlock)"
		hang = true
	}
	if ev.K == "ret" && ev.Ok != nil && !*ev.Ok {
		sig += " (closure reported before the queue was closed and drained)"
	}
	detail = fmt.Sprintf("Queue_Trace rejects the recorded execution at line %d: %s", v.HWM, vkTrunc(string(lines[v.HWM-1]), 300))
	return sig, detail, true, hang
}

// ------------------------------------------------------------------ race detector reports

// first frame of each racing access: "Write at 0x.. by goroutine N:\n  pkg.func()"
var reRaceAccess = regexp.MustCompile(`(?m)^(?:Previous )?(?:[Rr]ead|[Ww]rite|Atomic [a-z]+) at 0x[0-9a-f]+ by [^\n]*\n\s+(\S+)\(`)

func collectRaceReports(env *vk.Env) {
	base := os.Getenv("VERIF_RACELOG")
	if base == "" {
		env.Infra("VERIF_RACELOG not set: the race detector log cannot be read (binary not started by ./check?)")
		return
	}
	files, _ := filepath.Glob(base + "*")
	for _, f := range files {
		b, _ := os.ReadFile(f)
		for _, rep := range bytes.Split(b, []byte("WARNING: DATA RACE")) {
			// a report counts when one of the two racing accesses is in go-mc code (not in the harness or the hooks)
			ms := reRaceAccess.FindAllSubmatch(rep, -1)
			frame := ""
			for _, m := range ms {
				fn := string(m[1])
				if bytes.Contains(m[1], []byte("github.com/Tnze/go-mc/")) && !bytes.Contains(m[1], []byte("verif")) {
					frame = fn[len("github.com/Tnze/go-mc/"):]
					break
				}
			}
			if frame != "" {
				env.Report("data race reported by the Go race detector at "+frame, vkTrunc(string(rep), 3000), map[string]any{"kind": "race"})
			} else if len(ms) > 0 {
				env.Note("race report outside go-mc ignored (harness): %s", vkTrunc(string(ms[0][1]), 120))
			}
		}
		os.Remove(f)
	}
}

func runC20(env *vk.Env) {
	env.Cov.Rule = "S: TLC checks Queue.tla (exactly-once, per-producer FIFO, drain-before-closed, liveness AllDelivered/AllDone under weak fairness; the lost-wake-up variant must FAIL), ChanQueue.tla, PlayerList.tla. A: TLC-simulated behaviours become gate schedules for real goroutines (verif hooks in net/queue). B: free-running scenarios with 1..8 producers/consumers under -race; every hook event (taken under the queue's mutex) is validated by Queue_Trace with TLC inferring the unlogged Signal target; ChannelQueue and PlayerList call histories are linearised by TLC; pooled codec streams are checked by Streams_Trace. Distinct/non-trivial = distinct scenario shapes."
	env.Assume = []string{
		"freedom from data races is observed by the Go race detector during the specification-driven runs, not decided by TLC",
		"a hang counts only if the recorded trace is rejected on three consecutive re-runs",
		"sync.Cond has no spurious wake-ups (documented by the Go standard library)",
	}
	ok := true
	for _, cfg := range []string{"Queue_MC.cfg", "Queue_MC_noclose.cfg"} {
		if env.MustSpec(vk.TLCRun{Name: "S " + cfg, Module: "Queue", Cfg: cfg, Workers: 4}) == nil {
			ok = false
		}
	}
	if !env.Quick() {
		if env.MustSpec(vk.TLCRun{Name: "S thorough", Module: "Queue", Cfg: "Queue_MC_thorough.cfg", Workers: 8, Timeout: 30 * time.Minute, Heap: "12g"}) == nil {
			ok = false
		}
	}
	// vacuity guard: without Signal the liveness property must be violated
	lw, err := env.TLC(vk.TLCRun{Name: "S lost-wakeup selftest (must fail)", Module: "Queue", Cfg: "Queue_MC_lostwakeup.cfg", Workers: 2, NoCount: true})
	if err != nil || lw.OK || lw.Violated == "" {
		env.Infra("the lost-wake-up variant of Queue.tla was not rejected by TLC: the liveness property is vacuous")
		ok = false
	}
	if !ok {
		return
	}
	env.Cov.Exhaustive = true
	// leg A
	nsim := env.Pick(40, 300)
	gen, err := env.TLC(vk.TLCRun{Name: "A generator", Module: "Queue_Gen", Cfg: "Queue_Gen.cfg", Workers: 1, Simulate: fmt.Sprintf("file=qbeh,num=%d", nsim), Depth: 60, NoCount: true, KeepOut: true})
	if err != nil || gen.ExitCode != 0 {
		env.Infra("queue behaviour generation failed: %v", err)
		return
	}
	beh := parseQueueBehaviours(gen.Dir, env.Seed)
	if len(beh) < nsim/2 {
		env.Infra("only %d queue behaviours parsed", len(beh))
		return
	}
	queueJudge(env, beh, "A gated tlc-behaviours")
	env.Sample(map[string]any{"gate_schedule": beh[0].Schedule})
	// leg B
	nsc := env.Pick(150, 3000)
	var scs []qScenario
	for i := 0; i < nsc; i++ {
		scs = append(scs, genQScenario(env.Seed, i))
	}
	for i := 0; i < len(scs); i += 500 {
		j := i + 500
		if j > len(scs) {
			j = len(scs)
		}
		queueJudge(env, scs[i:j], fmt.Sprintf("B free-running %d..%d", i, j))
	}
	env.Sample(scs[0])
	runChanQueue(env)
	runPlayerList(env)
	runBotConn(env)
	runStreams(env)
	collectRaceReports(env)
}

func replayC20(env *vk.Env, b []byte) {
	var f struct {
		Replay struct {
			Kind     string    `json:"kind"`
			Scenario qScenario `json:"scenario"`
			Recorded string    `json:"recorded"`
		} `json:"replay"`
	}
	json.Unmarshal(b, &f)
	env.Cov.States, env.Cov.Transitions = 1, 1
	env.Sample(f.Replay.Kind)
	switch f.Replay.Kind {
	case "queue":
		if sig, detail, rej, _ := queueJudgeRecorded(env, []byte(f.Replay.Recorded)); rej {
			env.Report(sig, detail, f.Replay)
		}
	default:
		runChanQueue(env)
		runPlayerList(env)
		runBotConn(env)
		runStreams(env)
		collectRaceReports(env)
	}
}
