package main

// X06: specification extension - the bot's player state and chat handling:
//   bot/basic.Player (specs/BotBasic*.tla) and bot/msg.Manager (specs/BotMsg*.tla).
// Each module has two layers: Step(FALSE, ..) the INTENT, Step(TRUE, ..) the handlers AS CODED; they differ in a few
// named classes of packets (Class).
// Leg S:  TLC explores <Module>_MC exhaustively on the intent (small bounds): invariants, per-packet action properties
//         and Agree (the layers differ in the named classes only); the model of the code (Variant = "code") is EXPECTED
//         to violate named properties of the intent (the model-level form of the findings); Variant = "broken" is a
//         vacuity guard that TLC must reject.
// Leg A:  TLC -simulate behaviours of <Module>_Gen (the code layer, larger universes) are replayed on the real
//         managers: abstract packets are concretised with pk.Marshal in the field order of protocol 767 and handed to
//         the handlers through bot.Client.Events (overlay shim bot.VerifHandlePacket); the projected state, the
//         callbacks seen, the packets found on the send queue (overlay shim bot.VerifAttachSendQueueCtl), the socket
//         deadline resets and the error class are compared with TLC's after every step.
// Leg B:  long seeded random histories on the real managers incl. out-of-order packets (Respawn before Login,
//         keep-alive before Login, chat from a player who left) and hazard scenarios for the named classes.
// All executions (A and B) are recorded as ndjson and judged by <Module>_Trace in TLC: every line is an independent
// initial state (state before = projection on the previous line), the specification prints the failed checks.
// An extension check never raises VIOLATION: rejections are `NOTE spec-extension <Module> finding: ...`, exit code 0.
// The generic plumbing (findings book, TLC slot budget, per-line judge, behaviour parser, op / real-object / replay
// machinery) is shared with X02 (x02.go) and X04 (x04.go).

import (
	"encoding/json"
	"fmt"
	"os"
	"path/filepath"
	"runtime/debug"
	"sort"
	"strings"
	"sync"

	"verif/harness/vk"
)

func init() { drivers["X06"] = driver{run: runX06, replay: replayX06} }

// ------------------------------------------------------------------ findings (same book as X02, own replay files)

func x6Flush(env *vk.Env, b *x2Book) {
	keys := make([]string, 0, len(b.m))
	for k := range b.m {
		keys = append(keys, k)
	}
	sort.Strings(keys)
	for _, k := range keys {
		f := b.m[k]
		where := ""
		if f.replay != nil && env.Replay == "" {
			name := f.sig
			if i := strings.Index(name, " - "); i > 0 {
				name = name[:i]
			}
			name = strings.Map(func(r rune) rune {
				if r >= 'a' && r <= 'z' || r >= 'A' && r <= 'Z' || r >= '0' && r <= '9' {
					return r
				}
				return '_'
			}, name)
			p := filepath.Join(vk.Root, "out", "replays", fmt.Sprintf("X06-%s-%s.json", f.module, name))
			os.MkdirAll(filepath.Dir(p), 0o755)
			body, _ := json.Marshal(map[string]any{"property": "X06", "signature": f.sig, "detail": f.first,
				"replay": map[string]any{"module": f.module, "scenario": f.replay, "seed": env.Seed}})
			if os.WriteFile(p, body, 0o644) == nil {
				where = "; replay=" + p
			}
		}
		env.Note("spec-extension %s finding: %s (%d events; first: %s%s)", f.module, f.sig, f.n, vkTrunc(f.first, 420), where)
	}
	if len(keys) == 0 {
		env.Note("spec-extension X06: no finding in this run")
	}
}

// ------------------------------------------------------------------ helpers shared by both components

// x6Pairs turns a TLC function value into [key, value] rows sorted by key; a function with domain 1..n is printed by
// TLC as a tuple, the empty function as <<>>.
func x6Pairs(v any) [][]any {
	rows := [][]any{}
	switch f := v.(type) {
	case bsTlaFn:
		for i := range f.K {
			rows = append(rows, []any{x4Canon(f.K[i]), x4Canon(f.V[i])})
		}
	case []any:
		for i, e := range f {
			rows = append(rows, []any{i + 1, x4Canon(e)})
		}
	}
	sort.Slice(rows, func(i, j int) bool { return mustJSON(rows[i][0]) < mustJSON(rows[j][0]) })
	return rows
}

func x6StrList(v any) []string {
	if l, ok := v.([]string); ok {
		return append([]string{}, l...)
	}
	out := []string{}
	for _, x := range x4List(v) {
		out = append(out, x4Str(x))
	}
	return out
}

func x6Has(l []string, x string) bool {
	for _, e := range l {
		if e == x {
			return true
		}
	}
	return false
}

// x6Fails: the callbacks (numbered in firing order within one packet) that answer with an error.
type x6Fails struct {
	set map[int]bool
	n   int
}

func (f *x6Fails) arm(v any) {
	f.set, f.n = map[int]bool{}, 0
	for _, i := range x4IntList(v) {
		f.set[i] = true
	}
}
func (f *x6Fails) next() bool { f.n++; return f.set[f.n] }

// x6Catch runs f, converting a panic into (true, message @ the innermost frame of the library under test).
func x6Catch(f func()) (panicked bool, msg string) {
	defer func() {
		if r := recover(); r != nil {
			panicked = true
			where := "?"
			for _, line := range strings.Split(string(debug.Stack()), "\n") {
				if strings.HasPrefix(line, "github.com/Tnze/go-mc/") {
					where = strings.TrimPrefix(line, "github.com/Tnze/go-mc/")
					if j := strings.LastIndex(where, "("); j > 0 {
						where = where[:j]
					}
					break
				}
			}
			msg = strings.Replace(fmt.Sprint(r), "runtime error: invalid memory address or nil pointer dereference", "nil dereference", 1) + " @ " + where
		}
	}()
	f()
	return
}

// x6Long / x6LongTok: a token (|t| < 2^30) as a 64-bit value that uses the upper half, and back.
const x6Mul = 4294967311

func x6Long(t int) int64 { return int64(t) * x6Mul }
func x6LongTok(v int64) int {
	if v%x6Mul == 0 && v/x6Mul > -(1<<30) && v/x6Mul < 1<<30 {
		return int(v / x6Mul)
	}
	return -1999999999
}

// x6SpecLeg: the intent must pass; the model of the code must violate the named property; the broken variant too.
func x6SpecLeg(env *vk.Env, book *x2Book, module string, quick, thorough []string, code []x4Expected, broken x4Expected) {
	x4SpecLeg(env, book, module, quick, thorough, code, broken)
}

// ------------------------------------------------------------------ legs A and B of one component

// x6BehaviourScenario turns one TLC behaviour into a scenario.  State 0 becomes two ops: "reset" (a fresh real object
// without listeners) and "new" (the object re-made with the listener set TLC chose in Init); every later state is one
// packet / call.
func x6BehaviourScenario(c *x4Comp, states []map[string]any, id int) (sc x4Scenario, err error) {
	defer func() {
		if r := recover(); r != nil {
			err = fmt.Errorf("%s behaviour %d: unexpected state shape: %v", c.module, id, r)
		}
	}()
	sc = x4Scenario{ID: id, Origin: "tlc-simulate"}
	for k, st := range states {
		if k == 0 {
			sc.Ops = append(sc.Ops, x4Op{"k": "reset"})
			s0 := st["s"].(map[string]any)
			sc.Ops = append(sc.Ops, x4Op{"k": "new", "plst": x6StrList(s0["lst"]), "exp": c.expect(st)})
			continue
		}
		op, err := c.opOfAct(st["act"].(map[string]any))
		if err != nil {
			return sc, err
		}
		op["exp"] = c.expect(st)
		sc.Ops = append(sc.Ops, op)
	}
	return sc, nil
}

func x6Legs(env *vk.Env, book *x2Book, c *x4Comp, sz x4Sizes, plain func(seed int64, id, nops int, x *x4Exec), hazard func(seed int64, id int, x *x4Exec), base int) {
	var wg sync.WaitGroup
	var mu sync.Mutex
	classes := map[string]int{}
	merge := func(cl map[string]int) {
		mu.Lock()
		for k := range cl {
			classes[k]++
		}
		mu.Unlock()
	}
	if x2Leg("A") {
		wg.Add(1)
		go func() {
			defer wg.Done()
			t := &x2Trace{}
			cl := map[string]int{}
			behs := x2Behaviours(env, "A "+c.module+" generator", c.module+"_Gen", c.genCfg, sz.behaviours, sz.depth)
			for i, states := range behs {
				sc, err := x6BehaviourScenario(c, states, base+i)
				if err != nil {
					env.Infra("%v", err)
					return
				}
				x4Run(c, sc, t, book, cl)
				if i%40 == 1 {
					env.Sample(map[string]any{"module": c.module, "origin": sc.Origin, "scenario": sc.ID, "ops": len(sc.Ops)})
				}
			}
			merge(cl)
			if t.tr.N > 0 {
				x2Judge(env, book, "A "+c.module+"_Trace", c.module, c.module+"_Trace", c.checks, t, sz.partsA)
			}
		}()
	}
	if x2Leg("B") {
		wg.Add(1)
		go func() {
			defer wg.Done()
			t := &x2Trace{}
			cl := map[string]int{}
			for i := 0; i < sz.histories; i++ {
				sc := &x4Scenario{ID: base + 100000 + i, Origin: "random-plain"}
				x := &x4Exec{c: c, t: t, sc: sc, book: book, class: cl}
				plain(env.Seed, sc.ID, sz.ops, x)
				if i == 0 {
					env.Sample(map[string]any{"module": c.module, "origin": sc.Origin, "scenario": sc.ID, "ops": len(sc.Ops), "last": x2Brief([]byte(mustJSON(x.last)))})
				}
			}
			for i := 0; i < sz.haz; i++ {
				sc := &x4Scenario{ID: base + 200000 + i, Origin: "random-hazard"}
				x := &x4Exec{c: c, t: t, sc: sc, book: book, class: cl}
				hazard(env.Seed, sc.ID, x)
			}
			merge(cl)
			x2Judge(env, book, "B "+c.module+"_Trace", c.module, c.module+"_Trace", c.checks, t, sz.partsB)
		}()
	}
	wg.Wait()
	for k := range classes {
		env.Distinct(k)
	}
}

// ------------------------------------------------------------------ driver

func runX06(env *vk.Env) {
	env.Cov.Rule = "Specification extension, not one of the listed properties: rejections are NOTE findings, never violations. " +
		"S: BotBasic_MC (2-3 Login and 1-2 Respawn templates, 1-2 cookie keys with an empty and a non-empty payload, tag packets of up to 1 (2) sections over a kept " +
		"and an unknown registry, listener sets with and without GameStart / probe, failing callbacks, full send queue: TypeOK, FieldsFollowPackets, Agree = intent and " +
		"model of the code differ in the named classes only; LoginRule, RespawnRule, EchoRule, GameStartRule, CookieRule, StoreRule, TagsRule, FrameRule, FullRule, " +
		"NoPanic, EventRule, HealthRule), BotMsg_MC (1-2 players with and without chat session, 2-3 message indexes, three signature kinds, last-seen lists with packed " +
		"ids and full signatures, cache of 2 slots, 3 registered chat types and an unknown one, with / without target: TypeOK, CacheOK, Agree; NoPanic, UnknownIsError, " +
		"ValidatedRule, ChainRule, FirstSignedRule, DecorRule, SendRule, EventRule, SystemRule); for each module the model of the code (Variant = code) is expected to " +
		"violate named properties and a deliberately broken variant must be rejected. " +
		"A: TLC -simulate behaviours of the code layer replayed on the real basic.Player / msg.Manager through bot.Client.Events, projected state, callbacks, packets on " +
		"the send queue, deadline resets and error class compared after every step. B: seeded random histories incl. Respawn / keep-alive before Login, repeated Logins " +
		"with fewer dimension names, 64-bit ids, cookies before the map exists, tag packets for registries the client does not keep, failing callbacks, a full send " +
		"queue, chat from players who left or never joined, unknown chat types, sessions replaced, plus hazard scenarios for the named classes. Every execution is " +
		"judged per line by BotBasic_Trace / BotMsg_Trace. Distinct = distinct (module, packet kind, outcome class) in judged traces."
	env.Assume = []string{
		"packets are well-formed protocol 767 packets built with pk.Marshal in the field order of the protocol (Login and Respawn with their trailing death location / portal cooldown fields)",
		"the client has a Conn with a send queue and a socket that only counts SetDeadline calls (overlay shim bot.VerifAttachSendQueueCtl + net.WrapConn of a fake socket); no network",
		"handlers are reached through bot.Client.Events (overlay shim bot.VerifHandlePacket = Client.handlePacket); single goroutine",
		"64-bit values (keep-alive ids, hashed seed) are tokens multiplied by 4294967311 so that both halves are used; floats are halves of small integers",
		"player chat: 'valid' signatures are made with a 2048-bit RSA key over the byte string protocol 767 prescribes (version, link, body, last seen); timestamps and salts are derived from the message token",
		"chat types are written as a plain VarInt id (as the code reads them); whether protocol 767 writes id+1 (holder form) is not decided here",
		"Session.valid / Session.lastMsg are read through reflect/unsafe (read-only) for the projection",
	}
	book := &x2Book{}
	var wg sync.WaitGroup
	run := func(f func()) {
		wg.Add(1)
		go func() { defer wg.Done(); f() }()
	}
	if x2Leg("S") {
		run(func() { bbSpecLeg(env, book) })
		run(func() { bmSpecLeg(env, book) })
	}
	run(func() { bbLegs(env, book) })
	run(func() { bmLegs(env, book) })
	wg.Wait()
	x6Flush(env, book)
	env.Cov.Exhaustive = x2Leg("S")
}

func x6CompOf(module string) *x4Comp {
	switch module {
	case "BotBasic":
		return bbComp()
	case "BotMsg":
		return bmComp()
	}
	return nil
}

func replayX06(env *vk.Env, b []byte) {
	var f struct {
		Replay struct {
			Module string     `json:"module"`
			Sc     x4Scenario `json:"scenario"`
			Seed   int64      `json:"seed"`
		} `json:"replay"`
	}
	if err := json.Unmarshal(b, &f); err != nil {
		env.Infra("replay: %v", err)
		return
	}
	if f.Replay.Seed != 0 {
		env.Seed = f.Replay.Seed
	}
	c := x6CompOf(f.Replay.Module)
	if c == nil {
		env.Infra("replay: unknown module %q", f.Replay.Module)
		return
	}
	book := &x2Book{}
	t := &x2Trace{}
	x4Run(c, f.Replay.Sc, t, book, nil)
	x2Judge(env, book, "replay", c.module, c.module+"_Trace", c.checks, t, 1)
	x6Flush(env, book)
	env.Cov.States, env.Cov.Transitions = 1, 1
	env.Sample(f.Replay.Module)
}
