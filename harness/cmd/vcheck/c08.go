package main

// C08 peer-controlled input never crashes a bot or server.
//  (1) every packet field type and combinator, bit storage, paletted containers and sections: hostile byte
//      strings judged by Wire.tla's decoder (full differential: ok <=> ok, byte count, never a panic);
//  (2) frames in both modes: hostile headers judged by Frame.tla's decision table;
//  (3) whole chunks, block entities, text components (NBT and JSON form), registry and tag data, command
//      lines: named mutations of valid encodings judged by Hostile.tla (what the property demands is known by
//      construction of the input).

import (
	"bytes"
	"context"
	"encoding/json"
	"fmt"
	"math/rand"
	"time"

	"github.com/Tnze/go-mc/bot"
	"github.com/Tnze/go-mc/chat"
	"github.com/Tnze/go-mc/level"
	"github.com/Tnze/go-mc/level/biome"
	"github.com/Tnze/go-mc/level/block"
	pk "github.com/Tnze/go-mc/net/packet"
	"github.com/Tnze/go-mc/registry"
	"github.com/Tnze/go-mc/server/command"
	"verif/harness/vk"
)

func init() { drivers["C08"] = driver{run: runC08, replay: replayC08} }

var hostileVarInts = [][]byte{{0xff, 0xff, 0xff, 0xff, 0x0f}, {0x80, 0x80, 0x80, 0x80, 0x08}, {0xff, 0xff, 0xff, 0x07}, {0x00}, {0x01}, {0x7f}, {0x80, 0x01}}

// mutateWire derives a hostile input from a valid field encoding.
func mutateWire(rng *rand.Rand, t wireType, enc []byte) ([]byte, string) {
	out := append([]byte{}, enc...)
	k := rng.Intn(6)
	if rng.Intn(2) == 0 {
		switch t.T {
		case "palcont", "str", "bytes", "bitset", "ary":
			k = 1 // types that start with a length prefix: aim at it half of the time
		}
	}
	switch k {
	case 0:
		return out[:rng.Intn(len(out)+1)], "truncated"
	case 1: // replace the leading length prefix (if the type starts with one) by a hostile value
		switch t.T {
		case "str", "bytes", "bitset", "palcont":
			_, n, ok := fvGet(out)
			if t.T == "palcont" {
				if rng.Intn(3) == 0 {
					// the data array one long shorter / longer than the width needs, everything else intact (the stream
					// stays aligned): only the size rule can refuse it - whatever the destination held before
					if m, ok := palcontResize(out, []int{-1, 1, -2}[rng.Intn(3)]); ok {
						return m, "data-array-length"
					}
				}
				if len(out) > 1 && rng.Intn(2) == 0 {
					out[0] = byte([]int{0, 1, 4, 5, 8, 9, 15, 255}[rng.Intn(8)])
					return out, "bits-byte"
				}
				// the VarInt right after the bits byte: palette length (indirect), the single value, or the data length (direct)
				if len(out) > 1 {
					if _, n, ok := fvGet(out[1:]); ok {
						h := hostileVarInts[rng.Intn(len(hostileVarInts))]
						return append(append([]byte{out[0]}, h...), out[1+n:]...), "palette-or-data-length"
					}
				}
				return out, "valid"
			}
			if ok {
				h := hostileVarInts[rng.Intn(len(hostileVarInts))]
				return append(append([]byte{}, h...), out[n:]...), "length-prefix"
			}
		case "ary":
			w := map[string]int{"i8": 1, "u8": 1, "i16": 2, "u16": 2, "i32": 4, "i64": 8}[t.L]
			if w == 0 {
				_, n, ok := fvGet(out)
				if t.L == "varlong" {
					n = 0
					for n < len(out) && out[n] >= 0x80 {
						n++
					}
					n++
					ok = n <= len(out)
				}
				if ok {
					h := hostileVarInts[rng.Intn(len(hostileVarInts))]
					return append(append([]byte{}, h...), out[n:]...), "length-prefix"
				}
			} else if len(out) >= w {
				pat := [][]byte{{0xff, 0xff, 0xff, 0xff, 0xff, 0xff, 0xff, 0xff}, {0x80, 0, 0, 0, 0, 0, 0, 0}, {0, 0, 0, 0, 0, 0, 0, 0}, {0, 0, 0, 0, 0, 0, 0, 9}, {0, 0, 0, 0, 0, 0, 1, 0}}[rng.Intn(5)]
				copy(out, pat[8-w:])
				if w <= 2 && rng.Intn(2) == 0 {
					copy(out, pat[:w])
				}
				return out, "length-prefix"
			}
		}
		fallthrough
	case 2:
		if len(out) > 0 && !hasFixedLenAry(t) {
			i := rng.Intn(len(out))
			out[i] ^= 1 << uint(rng.Intn(8))
		}
		return out, "bitflip"
	case 3: // splice a hostile VarInt somewhere
		if !hasFixedLenAry(t) && len(out) > 0 {
			i := rng.Intn(len(out))
			h := hostileVarInts[rng.Intn(len(hostileVarInts))]
			out = append(append(append([]byte{}, out[:i]...), h...), out[i:]...)
		}
		return out, "varint-spliced"
	case 4:
		n := rng.Intn(12)
		out = make([]byte, n)
		rng.Read(out)
		if hasFixedLenAry(t) || hugeVarInt(out) {
			return enc, "valid"
		}
		return out, "random-bytes"
	}
	return out, "valid"
}

// fixed-width length prefixes can declare up to 2^63 elements; random damage there makes a correct decoder
// allocate before it notices (memory is not part of the property): those prefixes are only set explicitly
func hasFixedLenAry(t wireType) bool {
	switch t.T {
	case "ary":
		return t.L != "varint" && t.L != "i8" && t.L != "u8" && t.L != "i16" && t.L != "u16"
	case "option", "opt":
		return hasFixedLenAry(*t.E)
	case "tuple":
		for _, e := range t.Es {
			if hasFixedLenAry(e) {
				return true
			}
		}
	}
	return false
}

// hugeVarInt: the input contains something that reads as a VarInt >= 2^24 (could be taken as a length)
func hugeVarInt(b []byte) bool {
	for i := 0; i+3 < len(b); i++ {
		if b[i] < 0x80 || b[i+1] < 0x80 || b[i+2] < 0x80 {
			continue
		}
		// three continuation bytes: the 4th group holds bits 21..27
		if b[i+3] < 0x80 {
			if b[i+3] >= 0x08 {
				return true // 2^24 <= value < 2^28
			}
			continue
		}
		// four continuation bytes: the 5th byte holds bits 28..31; bit 31 set means negative (harmless)
		if i+4 < len(b) && b[i+4]&0x0f >= 0x01 && b[i+4]&0x08 == 0 {
			return true
		}
	}
	return false
}

// palcontTooBig walks a (possibly damaged) paletted container / section the way the format prescribes and
// reports whether a declared palette or data length is >= 2^24 (generator filter only)
func palcontTooBig(in []byte, t wireType) bool {
	p := 0
	kinds := []string{t.Kind}
	if t.T == "tuple" {
		p = 2
		kinds = []string{"blocks", "biomes"}
	}
	rd := func() (int32, bool) {
		if p >= len(in) {
			return 0, false
		}
		v, n, ok := fvGet(in[p:])
		p += n
		return v, ok
	}
	for _, kind := range kinds {
		if p >= len(in) {
			return false
		}
		bits := int(in[p])
		p++
		direct := (kind == "blocks" && bits >= 9) || (kind == "biomes" && bits >= 4)
		if bits == 0 {
			if _, ok := rd(); !ok {
				return false
			}
		} else if !direct {
			l, ok := rd()
			if !ok || l < 0 {
				return false
			}
			if l >= 1<<24 {
				return true
			}
			for i := int32(0); i < l; i++ {
				if _, ok := rd(); !ok {
					return false
				}
			}
		}
		d, ok := rd()
		if !ok || d < 0 {
			return false
		}
		if d >= 1<<24 {
			return true
		}
		p += int(d) * 8
	}
	return false
}

// hostile inputs mostly use 64-entry block containers (the codec is generic in the length): TLC evaluates
// Wire!Dec on every input and 4096-entry containers are 2 kB each
var palcontBlocksN = 64

func palcontType(kind string) wireType {
	if kind == "blocks" {
		return wireType{T: "palcont", Kind: "blocks", N: palcontBlocksN, Rb: block.BitsPerBlock}
	}
	return wireType{T: "palcont", Kind: "biomes", N: 64, Rb: biome.BitsPerBiome}
}

// validPalcont returns the real encoding of a container holding `distinct` different values.
// palcontResize walks a valid paletted-container encoding (bits byte, palette, data array) and changes the number
// of longs of the data array by delta, declared length and longs together.
func palcontResize(enc []byte, delta int) ([]byte, bool) {
	if len(enc) < 2 {
		return nil, false
	}
	p := 1
	bits := int(enc[0])
	rd := func() (int32, bool) {
		v, n, ok := fvGet(enc[p:])
		p += n
		return v, ok
	}
	switch {
	case bits == 0:
		if _, ok := rd(); !ok {
			return nil, false
		}
	case bits <= 8: // indirect (blocks up to 8, biomes up to 3): palette length, entries
		n, ok := rd()
		if !ok || n < 0 || n > 4096 {
			return nil, false
		}
		for i := int32(0); i < n; i++ {
			if _, ok := rd(); !ok {
				return nil, false
			}
		}
	}
	at := p
	l, ok := rd()
	if !ok || int(l)*8 != len(enc)-p || int(l)+delta < 0 {
		return nil, false
	}
	out := append([]byte{}, enc[:at]...)
	out = fvPut(out, l+int32(delta))
	body := enc[p:]
	if delta < 0 {
		body = body[:len(body)+8*delta]
	} else {
		body = append(append([]byte{}, body...), make([]byte, 8*delta)...)
	}
	return append(out, body...), true
}

func validPalcont(rng *rand.Rand, kind string, distinct int) []byte {
	var buf bytes.Buffer
	if kind == "blocks" {
		c := level.NewStatesPaletteContainer(palcontBlocksN, 0)
		for i := 0; i < distinct; i++ {
			c.Set(rng.Intn(palcontBlocksN), level.BlocksState(1+rng.Intn(len(block.StateList)-1)))
		}
		c.WriteTo(&buf)
	} else {
		c := level.NewBiomesPaletteContainer(64, 0)
		for i := 0; i < distinct; i++ {
			c.Set(rng.Intn(64), level.BiomesState(1+rng.Intn(40)))
		}
		c.WriteTo(&buf)
	}
	return buf.Bytes()
}

// ---------------------------------------------------------------- (3) by-construction classes

type hostileEv struct {
	K       string `json:"k"`
	Decoder string `json:"decoder"`
	Class   string `json:"class"`
	Sub     string `json:"sub"` // which mutation exactly
	Outcome string `json:"outcome"`
	Input   []int  `json:"input,omitempty"`
	Line    string `json:"line,omitempty"`
	Msg     string `json:"-"`
}

type hostileDecoder struct {
	Name   string
	Valid  func(rng *rand.Rand) ([]byte, []int) // a valid encoding + offsets of VarInt length prefixes in it
	Decode func(in []byte) error
}

func hostileRun(d hostileDecoder, in []byte, class, sub string) hostileEv {
	ev := hostileEv{K: "hostile", Decoder: d.Name, Class: class, Sub: sub, Input: ints(in)}
	var err error
	done := make(chan struct{})
	var pan bool
	go func() {
		defer close(done)
		pan, ev.Msg = catch(func() { err = d.Decode(in) })
	}()
	select {
	case <-done:
		switch {
		case pan:
			ev.Outcome = "panic"
		case err != nil:
			ev.Outcome = "error"
		default:
			ev.Outcome = "value"
		}
	case <-time.After(20 * time.Second):
		ev.Outcome = "hang"
	}
	return ev
}

func chunkBytes(rng *rand.Rand, secs int) ([]byte, []int) {
	return chunkBytesHM(rng, secs, -2, -2)
}

// chunkBytesHM: n1/n2 = number of longs of the two height maps (-2: as the chunk has them, -1: the entry is absent)
func chunkBytesHM(rng *rand.Rand, secs int, n1, n2 int) ([]byte, []int) {
	c := level.EmptyChunk(secs)
	for i := 0; i < 30; i++ {
		c.Sections[rng.Intn(secs)].SetBlock(rng.Intn(4096), level.BlocksState(rng.Intn(200)))
	}
	// assemble by the wire layout so that the offsets of the length prefixes are known
	var hm bytes.Buffer
	resize := func(raw []uint64, n int) []uint64 {
		if n < 0 {
			return raw
		}
		out := make([]uint64, n)
		copy(out, raw)
		return out
	}
	hmv := map[string][]uint64{}
	if n1 != -1 {
		hmv["MOTION_BLOCKING"] = resize(c.HeightMaps.MotionBlocking.Raw(), n1)
	}
	if n2 != -1 {
		hmv["WORLD_SURFACE"] = resize(c.HeightMaps.WorldSurface.Raw(), n2)
	}
	pk.NBT(hmv).WriteTo(&hm)
	data, _ := c.Data()
	out := append([]byte{}, hm.Bytes()...)
	offs := []int{len(out)}
	out = fvPut(out, int32(len(data)))
	out = append(out, data...)
	offs = append(offs, len(out))
	out = fvPut(out, 0)      // block entities
	for i := 0; i < 4; i++ { // four empty bit sets
		offs = append(offs, len(out))
		out = fvPut(out, 0)
	}
	offs = append(offs, len(out))
	out = fvPut(out, 0) // sky light arrays
	offs = append(offs, len(out))
	out = fvPut(out, 0) // block light arrays
	return out, offs
}

func hostileDecoders() []hostileDecoder {
	textNBT := func(rng *rand.Rand) ([]byte, []int) {
		doc := &nbtNode{T: 10, Ent: []nbtEntry{{K: ints([]byte("text")), N: &nbtNode{T: 8, Pat: ints([]byte("hello"))}}, {K: ints([]byte("bold")), N: &nbtNode{T: 1, Pat: []int{1}}}}}
		return nbtDocBytes("network", nil, doc), nil
	}
	regValid := func(rng *rand.Rand) ([]byte, []int) {
		out := fvPut(nil, 2)
		offs := []int{0}
		for _, k := range []string{"minecraft:a", "minecraft:b"} {
			offs = append(offs, len(out))
			out = fvPut(out, int32(len(k)))
			out = append(out, k...)
			out = append(out, 1)
			out = append(out, nbtDocBytes("network", nil, &nbtNode{T: 10, Ent: []nbtEntry{{K: ints([]byte("v")), N: &nbtNode{T: 3, Pat: []int{0, 0, 0, 7}}}}})...)
		}
		return out, offs
	}
	tagsValid := func(rng *rand.Rand) ([]byte, []int) {
		out := fvPut(nil, 1)
		offs := []int{0, len(out)}
		out = fvPut(out, 5)
		out = append(out, "mc:tg"...)
		offs = append(offs, len(out))
		out = fvPut(out, 2)
		out = fvPut(out, 0)
		out = fvPut(out, 1)
		return out, offs
	}
	return []hostileDecoder{
		{"level.Chunk.ReadFrom", func(rng *rand.Rand) ([]byte, []int) { return chunkBytes(rng, []int{1, 4, 24}[rng.Intn(3)]) }, func(in []byte) error {
			secs := 24
			// the receiver knows the section count from the dimension; try the sizes the generator uses
			var err error
			for _, s := range []int{1, 4, 24} {
				c := level.EmptyChunk(s)
				if _, err = c.ReadFrom(bytes.NewReader(in)); err == nil {
					return nil
				}
				secs = s
			}
			_ = secs
			return err
		}},
		{"level.BlockEntity.ReadFrom", func(rng *rand.Rand) ([]byte, []int) {
			var b bytes.Buffer
			be := level.BlockEntity{XZ: int8(rng.Intn(256)), Y: int16(rng.Intn(400)), Type: 3}
			pk.Tuple{pk.Byte(be.XZ), pk.Short(be.Y), pk.VarInt(be.Type)}.WriteTo(&b)
			b.Write(nbtDocBytes("network", nil, &nbtNode{T: 10, Ent: []nbtEntry{{K: ints([]byte("id")), N: &nbtNode{T: 8, Pat: ints([]byte("chest"))}}}}))
			return b.Bytes(), nil
		}, func(in []byte) error {
			var be level.BlockEntity
			_, err := be.ReadFrom(bytes.NewReader(in))
			return err
		}},
		{"chat.Message.ReadFrom (NBT)", textNBT, func(in []byte) error { var m chat.Message; _, err := m.ReadFrom(bytes.NewReader(in)); return err }},
		{"chat.JsonMessage.ReadFrom", func(rng *rand.Rand) ([]byte, []int) {
			js := []byte(`{"text":"hi","bold":true,"extra":[{"text":"x","color":"red"}]}`)
			return append(fvPut(nil, int32(len(js))), js...), []int{0}
		}, func(in []byte) error { var m chat.JsonMessage; _, err := m.ReadFrom(bytes.NewReader(in)); return err }},
		{"registry.Registry.ReadFrom", regValid, func(in []byte) error {
			reg := registry.NewRegistry[map[string]any]()
			_, err := reg.ReadFrom(bytes.NewReader(in))
			return err
		}},
		// receivers that were not made by NewRegistry: the zero value (what a by-value field of a larger struct is), and
		// one that has been read into before
		{"registry.Registry.ReadFrom (zero-value receiver)", regValid, func(in []byte) error {
			var reg registry.Registry[map[string]any]
			_, err := reg.ReadFrom(bytes.NewReader(in))
			return err
		}},
		{"registry.Registry.ReadFrom (used receiver)", regValid, func(in []byte) error {
			reg := registry.NewRegistry[map[string]any]()
			base, _ := regValid(nil)
			reg.ReadFrom(bytes.NewReader(base))
			_, err := reg.ReadFrom(bytes.NewReader(in))
			return err
		}},
		{"registry.Registry.ReadTagsFrom (zero-value receiver, filled by ReadFrom)", tagsValid, func(in []byte) error {
			var reg registry.Registry[map[string]any]
			base, _ := regValid(nil)
			if _, err := reg.ReadFrom(bytes.NewReader(base)); err != nil {
				return nil // the ReadFrom decoders above speak about that
			}
			_, err := reg.ReadTagsFrom(bytes.NewReader(in))
			return err
		}},
		{"registry.Registry.ReadTagsFrom", tagsValid, func(in []byte) error {
			reg := registry.NewRegistry[int]()
			reg.Put("a", 1)
			reg.Put("b", 2)
			_, err := reg.ReadTagsFrom(bytes.NewReader(in))
			return err
		}},
	}
}

func hostileMutations(rng *rand.Rand, d hostileDecoder, tr *vk.Trace, n int, env *vk.Env) {
	for i := 0; i < n; i++ {
		valid, offs := d.Valid(rng)
		tr.Add(hostileRun(d, valid, "valid", "untouched"))
		// truncation at every offset for short encodings, sampled otherwise
		step := 1
		if len(valid) > 200 {
			step = len(valid) / 100
		}
		for k := 0; k < len(valid); k += step {
			tr.Add(hostileRun(d, valid[:k], "truncated", "prefix"))
		}
		for _, o := range offs {
			_, w, ok := fvGet(valid[o:])
			if !ok {
				continue
			}
			for _, h := range [][]byte{{0xff, 0xff, 0xff, 0xff, 0x0f}, {0x80, 0x80, 0x80, 0x80, 0x08}} {
				in := append(append(append([]byte{}, valid[:o]...), h...), valid[o+w:]...)
				tr.Add(hostileRun(d, in, "neglen", "varint-prefix"))
			}
			// larger than what follows (and nothing after it): drop the tail beyond the field, claim more
			in := append(append([]byte{}, valid[:o]...), 0xff, 0xff, 0x03) // 65535
			tr.Add(hostileRun(d, in, "overlen", "varint-prefix"))
		}
		for j := 0; j < 30; j++ {
			in := append([]byte{}, valid...)
			switch rng.Intn(3) {
			case 0:
				if len(in) > 0 {
					in[rng.Intn(len(in))] ^= 1 << uint(rng.Intn(8))
				}
			case 1:
				if len(in) > 0 {
					k := rng.Intn(len(in))
					in = append(append(append([]byte{}, in[:k]...), hostileVarInts[rng.Intn(len(hostileVarInts))]...), in[k:]...)
				}
			default:
				in = make([]byte, rng.Intn(30))
				rng.Read(in)
			}
			if hugeVarInt(in) || nbtTooBig("network", in) {
				continue
			}
			tr.Add(hostileRun(d, in, "other", "damage"))
		}
		env.Distinct("hostile/" + d.Name)
	}
}

// command lines against generated graphs
func hostileCommands(rng *rand.Rand, tr *vk.Trace, n int, env *vk.Env) {
	alphabet := []string{"a", "b", " ", "\"", "\\", "tp", "1", "\t"}
	for gi := 0; gi < n; gi++ {
		g := command.NewGraph()
		ok := func(context.Context, []command.ParsedData) error { return nil }
		mode := command.StringParser(rng.Intn(3))
		switch gi % 4 {
		case 0:
			g.AppendLiteral(g.Literal("a").HandleFunc(ok))
		case 1:
			g.AppendLiteral(g.Literal("a").AppendArgument(g.Argument("x", mode).HandleFunc(ok)).Unhandle())
		case 2:
			g.AppendLiteral(g.Literal("a").AppendLiteral(g.Literal("b").HandleFunc(ok)).AppendLiteral(g.Literal("tp").AppendArgument(g.Argument("y", mode).HandleFunc(ok)).HandleFunc(ok)).HandleFunc(ok))
			g.AppendLiteral(g.Literal("b").Unhandle())
		default:
			g.AppendLiteral(g.Literal("tp").AppendArgument(g.Argument("x", command.StringParser(1)).AppendArgument(g.Argument("y", mode).HandleFunc(ok)).HandleFunc(ok)).HandleFunc(ok))
		}
		tails := []string{`"`, `"a`, `"abc\`, `"\`, `"a\"`, `"a\\`, `"a\\"`, `"a" "b\`, `a "b\`, `"a\" b\`, `""`, `"" "`, `\`, `a\`}
		for k := 0; k < 60+2*len(tails); k++ {
			var line string
			if k >= 60 {
				// a literal of the graph followed by a phrase that opens a quote and stops inside it / inside an escape
				line = []string{"a ", "tp "}[(k-60)%2] + tails[(k-60)/2]
			} else {
				for j := rng.Intn(7); j > 0; j-- {
					line += alphabet[rng.Intn(len(alphabet))]
				}
			}
			ev := hostileEv{K: "hostile", Decoder: fmt.Sprintf("command.Graph.Execute(graph%d)", gi%4), Class: "other", Sub: "command-line", Line: line, Input: []int{}}
			done := make(chan struct{})
			var pan bool
			var err error
			go func() {
				defer close(done)
				pan, ev.Msg = catch(func() { err = g.Execute(context.Background(), line) })
			}()
			select {
			case <-done:
				ev.Outcome = map[bool]string{true: "error", false: "value"}[err != nil]
				if pan {
					ev.Outcome = "panic"
				}
			case <-time.After(10 * time.Second):
				ev.Outcome = "hang"
			}
			tr.Add(ev)
		}
		env.Distinct(fmt.Sprintf("cmd/graph%d", gi%4))
	}
}

// the bot's dispatch of a received packet: the id is peer-controlled
func hostileDispatch(rng *rand.Rand, tr *vk.Trace, n int, env *vk.Env) {
	for i := 0; i < n; i++ {
		c := bot.NewClient()
		c.Events.AddGeneric(bot.PacketHandler{Priority: 0, F: func(pk.Packet) error { return nil }})
		id := []int32{0, 1, 100, 123, 124, 125, 126, 127, 128, 200, 255, 256, 1000, 65535, 1 << 20, 0x7fffffff, -1, -2, -0x80000000}[i%19]
		if i >= 19 {
			id = int32(rng.Uint32())
		}
		ev := hostileEv{K: "hostile", Decoder: "bot.Client.handlePacket", Class: "other", Sub: "packet-id", Input: []int{}, Line: fmt.Sprint(id)}
		var err error
		pan, msg := catch(func() { err = bot.VerifHandlePacket(c, id, []byte{1, 2, 3}) })
		ev.Msg = msg
		ev.Outcome = map[bool]string{true: "error", false: "value"}[err != nil]
		if pan {
			ev.Outcome = "panic"
		}
		tr.Add(ev)
	}
	env.Distinct("bot/handlePacket")
}

func hostileJudge(env *vk.Env, tr *vk.Trace, label string) {
	v, err := env.ValidateTrace(vk.TLCRun{Name: label, Module: "Hostile", Cfg: "Hostile.cfg", Workers: 4, Continue: true, Timeout: 15 * time.Minute}, "trace.ndjson", tr.Bytes())
	if err != nil {
		env.Infra("%s: %v", label, err)
		return
	}
	env.Sub(map[string]any{"run": label, "events": tr.N, "accepted": v.Accepted, "rejected_lines": len(v.Res.Lines)})
	if !v.Accepted && v.Res.Violated == "" {
		env.Infra("%s: no verdict:\n%s", label, v.Res.Output)
		return
	}
	env.AddTraces(int64(tr.N - len(v.Res.Lines)))
	env.AddEval(int64(tr.N))
	lines := bytes.Split(bytes.TrimSpace(tr.Bytes()), []byte("\n"))
	seen := map[string]bool{}
	for _, vl := range v.Res.Lines {
		if vl.L < 1 || vl.L > len(lines) {
			continue
		}
		var e hostileEv
		json.Unmarshal(lines[vl.L-1], &e)
		sig := fmt.Sprintf("%s on %s input (%s): %s", e.Decoder, e.Class, e.Sub, e.Outcome)
		if seen[sig] {
			continue
		}
		seen[sig] = true
		env.Report(sig, "Hostile!Total violated by recorded call: "+vkTrunc(string(lines[vl.L-1]), 500), map[string]any{"kind": "hostile", "line": json.RawMessage(lines[vl.L-1])})
	}
}

func runC08(env *vk.Env) {
	env.Cov.Rule = "(1) Wire.tla's decoder is the oracle for every packet field type/combinator, BitStorage (= VarInt-prefixed longs), paletted containers (blocks and biomes) and sections: valid encodings are damaged (truncation at random offsets, hostile length prefixes incl. negative VarInts and fixed-width negatives, bits-per-entry byte, bit flips, spliced VarInts, random bytes) and the real ReadFrom must agree with Dec on ok/error and byte count and never panic; (2) Frame.tla's decision table for hostile frame headers in both modes; (3) Hostile.tla for whole chunks, block entities, text components (NBT/JSON), registry and tag data and command lines, where the demanded outcome is known from the named mutation. Distinct/non-trivial = distinct (decoder/type class, mutation class)."
	env.Assume = []string{"declared lengths >= 2^24 are not generated (memory use is not part of the property)", "for chunks, block entities, text components, registry/tag data and command lines the payload grammar is not modelled field by field: the specification only states what each named mutation class demands", "encoding/json internals are trusted"}
	if env.MustSpec(vk.TLCRun{Name: "S Wire_MC", Module: "Wire", Cfg: "Wire_MC.cfg", Workers: 8, NoCount: false}) == nil {
		return
	}
	fres := env.MustSpec(vk.TLCRun{Name: "S Frame_MC", Module: "Frame", Cfg: "Frame_MC.cfg", Workers: 4})
	if fres == nil {
		return
	}
	env.Cov.Exhaustive = true
	rng := newRand(env.Seed, "c08")
	// (1)
	tr := &vk.Trace{}
	n1 := env.Pick(2500, 30000)
	for i := 0; i < n1; i++ {
		var t wireType
		var enc []byte
		palcontBlocksN = 64
		if i%700 == 10 {
			palcontBlocksN = 4096
		}
		switch {
		case i%10 == 0:
			kind := []string{"blocks", "biomes"}[rng.Intn(2)]
			t = palcontType(kind)
			enc = validPalcont(rng, kind, []int{0, 1, 2, 5, 17, 40, 40, 300}[rng.Intn(8)])
		case i%10 == 1: // a section: block count + two containers
			t = wireType{T: "tuple", Es: []wireType{{T: "i16"}, palcontType("blocks"), palcontType("biomes")}}
			enc = append([]byte{0, 5}, validPalcont(rng, "blocks", []int{0, 3, 20}[rng.Intn(3)])...)
			enc = append(enc, validPalcont(rng, "biomes", []int{0, 2, 9}[rng.Intn(3)])...)
		default:
			t = randWireType(rng, 3, true)
			v := randWireValue(rng, t)
			out, _, err, pan, _ := wireEncode(t, 0, v)
			if err != nil || pan {
				continue
			}
			enc = out
		}
		in, class := mutateWire(rng, t, enc)
		if class != "valid" && class != "truncated" {
			if t.T == "palcont" || (t.T == "tuple" && len(t.Es) == 3 && t.Es[1].T == "palcont") {
				if palcontTooBig(in, t) {
					continue
				}
			} else if hugeVarInt(in) {
				continue
			}
		}
		if len(in) > 1200 && palcontBlocksN != 4096 {
			continue // TLC evaluates Wire!Dec on every input; long inputs add time, not coverage
		}
		prior := wirePriors[rng.Intn(len(wirePriors))]
		tr.Add(wireDecEvent(t, rng.Intn(2), in, prior, nil, rng.Intn(2) == 0, class))
		env.Distinct("wire/" + t.T + "/" + class)
		if i == 5 {
			env.Sample(map[string]any{"type": t, "class": class, "input": ints(in)})
		}
	}
	wireJudge(env, tr, "B hostile inputs for fields, containers, sections", "C08")
	// (2)
	var scs []frameScenario
	for i := 0; i < env.Pick(300, 3000); i++ {
		thr := []int{-1, 0, 1, 64, 256, 5000}[rng.Intn(6)]
		b := frameBad{Thr: thr, Idlen: []int{1, 5, 1, 5, 2, 3, 4}[rng.Intn(7)]} // 2..4: a small id spelt in more bytes than needed
		b.Plen = []int{-1, -2000000000, 0, 1, 2, 3, 4, 5, 6, 7, 70, 300, 2097160, 2097200}[rng.Intn(14)]
		b.Dlen = []int{-1, -2000000000, 0, 0, 1, 2, 3, 4, 5, 6, thr - 1, thr, thr + 1, 300, 2097152, 2097160, 2147483647}[rng.Intn(17)]
		b.Infl = []int{0, 1, 5, 6, b.Dlen - 1, b.Dlen, b.Dlen, b.Dlen + 1, 300}[rng.Intn(9)]
		if b.Infl < 0 {
			b.Infl = 0
		}
		scs = append(scs, frameScenario{Kind: "bad", Thr: thr, ID: 300000 + i, Bad: &b})
		env.Distinct(fmt.Sprintf("frame/thr%d", thr))
	}
	frameJudge(env, scs, "B hostile frame headers")
	// (3)
	tr = &vk.Trace{}
	for _, d := range hostileDecoders() {
		hostileMutations(rng, d, tr, env.Pick(2, 12), env)
	}
	// chunks whose height maps are absent, empty or of a wrong length (the section count fixes the right one)
	for _, d := range hostileDecoders() {
		if d.Name != "level.Chunk.ReadFrom" {
			continue
		}
		for _, secs := range []int{1, 4, 24} {
			right := len(level.EmptyChunk(secs).HeightMaps.MotionBlocking.Raw())
			ns := []int{-1, 0, 1, right - 1, right, right + 1}
			for _, n1 := range ns {
				for _, n2 := range ns {
					in, _ := chunkBytesHM(rng, secs, n1, n2)
					tr.Add(hostileRun(d, in, "other", "heightmap-length"))
				}
			}
		}
		env.Distinct("hostile/" + d.Name + "/heightmap-length")
	}
	// text components in NBT form whose shape is one of the three accepted ones (string, compound, list) with nothing
	// in it: empty lists (of End, of strings, of compounds) at the top, inside extra, inside with; an empty compound; an
	// empty string. What they mean is not fixed (value or error) - but the call returns without a panic.
	for _, d := range hostileDecoders() {
		if d.Name != "chat.Message.ReadFrom (NBT)" {
			continue
		}
		str := func(v string) *nbtNode { return &nbtNode{T: 8, Pat: ints([]byte(v))} }
		emptyLists := []*nbtNode{{T: 9, Et: 0, Lst: []*nbtNode{}}, {T: 9, Et: 8, Lst: []*nbtNode{}}, {T: 9, Et: 10, Lst: []*nbtNode{}}}
		shapes := []*nbtNode{{T: 10, Ent: []nbtEntry{}}, str("")}
		for _, el := range emptyLists {
			shapes = append(shapes, el,
				&nbtNode{T: 10, Ent: []nbtEntry{{K: ints([]byte("text")), N: str("a")}, {K: ints([]byte("extra")), N: el}}},
				&nbtNode{T: 10, Ent: []nbtEntry{{K: ints([]byte("translate")), N: str("chat.type.text")}, {K: ints([]byte("with")), N: el}}},
				&nbtNode{T: 9, Et: 9, Lst: []*nbtNode{el}},
				&nbtNode{T: 10, Ent: []nbtEntry{{K: ints([]byte("text")), N: str("a")}, {K: ints([]byte("extra")), N: &nbtNode{T: 9, Et: 9, Lst: []*nbtNode{el}}}}})
		}
		for _, sh := range shapes {
			tr.Add(hostileRun(d, nbtDocBytes("network", nil, sh), "other", "empty-shape"))
		}
		env.Distinct("hostile/" + d.Name + "/empty-shape")
	}
	hostileCommands(rng, tr, env.Pick(12, 80), env)
	hostileDispatch(rng, tr, env.Pick(60, 600), env)
	hostileJudge(env, tr, "B named mutations for chunks, entities, text components, registries, command lines")
}

func replayC08(env *vk.Env, b []byte) {
	var f struct {
		Replay struct {
			Kind     string          `json:"kind"`
			Line     json.RawMessage `json:"line"`
			Scenario frameScenario   `json:"scenario"`
		} `json:"replay"`
	}
	json.Unmarshal(b, &f)
	env.Cov.States, env.Cov.Transitions = 1, 1
	env.Sample(f.Replay.Kind)
	switch f.Replay.Kind {
	case "line":
		if sig, detail, rej := wireRejudgeLine(env, f.Replay.Line); rej {
			env.Report(sig, detail, f.Replay)
		}
	case "hostile":
		var e hostileEv
		json.Unmarshal(f.Replay.Line, &e)
		tr := &vk.Trace{}
		if e.Line != "" || e.Sub == "command-line" {
			env.Infra("command-line replays are re-generated from the seed: run the check with the same VERIF_SEED")
			return
		}
		for _, d := range hostileDecoders() {
			if d.Name == e.Decoder {
				tr.Add(hostileRun(d, bytesOf(e.Input), e.Class, e.Sub))
			}
		}
		hostileJudge(env, tr, "replay")
	default:
		if sig, detail, rej := frameRejudge(env, f.Replay.Scenario); rej {
			env.Report(sig, detail, f.Replay)
		}
	}
}
