package main

// X02: specification extension (DESIGN.md section 4, items 2 and 4): chat/sign.SignatureCache and registry.Registry.
// Specs: specs/SigCache.tla (+_Gen, _Trace), specs/Registry.tla (+_Gen, _Trace).
// Leg S:  TLC explores SigCache_MC / Registry_MC exhaustively (small bounds); for the cache additionally the loop of
//         PopOrInsert as a state machine (SigCache_MC_algo: index map and uniqueness hold on every queue;
//         SigCache_MC_algo_dense: EXPECTED to violate Dense - the model-level form of the finding).
// Leg A:  TLC -simulate behaviours (cache with Cap = 128) replayed on the real objects, the projected state compared
//         with the state TLC computed after every step.
// Leg B:  long seeded random histories on the real objects.
// All executions (A and B) are recorded as ndjson and judged by the *_Trace specs in TLC: every (line, check) pair is
// an independent initial state; the specification prints the numbers of the checks a line fails.
// An extension check never raises VIOLATION: what the specification rejects is printed as
// `NOTE spec-extension <Module> finding: ...` (one line per check of the trace specification) and the exit code stays 0.

import (
	"bytes"
	"encoding/json"
	"fmt"
	"os"
	"path/filepath"
	"regexp"
	"sort"
	"strconv"
	"strings"
	"sync"
	"time"

	"verif/harness/vk"
)

func init() { drivers["X02"] = driver{run: runX02, replay: replayX02} }

// ------------------------------------------------------------------ findings book

type x2Finding struct {
	module, sig, first string
	n                  int
	replay             any // the first scenario that showed it
}

type x2Book struct {
	mu sync.Mutex
	m  map[string]*x2Finding
}

func (b *x2Book) add(module, sig, detail string, replay any) {
	b.mu.Lock()
	defer b.mu.Unlock()
	if b.m == nil {
		b.m = map[string]*x2Finding{}
	}
	k := module + "\x00" + sig
	f := b.m[k]
	if f == nil {
		f = &x2Finding{module: module, sig: sig, first: detail, replay: replay}
		b.m[k] = f
	}
	f.n++
}

func (b *x2Book) flush(env *vk.Env) {
	keys := make([]string, 0, len(b.m))
	for k := range b.m {
		keys = append(keys, k)
	}
	sort.Strings(keys)
	for _, k := range keys {
		f := b.m[k]
		where := ""
		if f.replay != nil && env.Replay == "" {
			// like a violation's replay file: ./check X02 --replay <file> re-executes the scenario and judges it again
			name := f.sig
			if i := strings.Index(name, " - "); i > 0 {
				name = name[:i]
			}
			name = strings.Map(func(r rune) rune {
				if r >= 'a' && r <= 'z' || r >= 'A' && r <= 'Z' || r >= '0' && r <= '9' {
					return r
				}
				return '_'
			}, name)
			p := filepath.Join(vk.Root, "out", "replays", fmt.Sprintf("X02-%s-%s.json", f.module, name))
			os.MkdirAll(filepath.Dir(p), 0o755)
			body, _ := json.Marshal(map[string]any{"property": "X02", "signature": f.sig, "detail": f.first,
				"replay": map[string]any{"module": f.module, "scenario": f.replay, "seed": env.Seed}})
			if os.WriteFile(p, body, 0o644) == nil {
				where = "; replay=" + p
			}
		}
		env.Note("spec-extension %s finding: %s (%d events; first: %s%s)", f.module, f.sig, f.n, vkTrunc(f.first, 420), where)
	}
	if len(keys) == 0 {
		env.Note("spec-extension X02: no finding in this run")
	}
}

func x2Leg(name string) bool {
	l := os.Getenv("VERIF_LEGS")
	if l == "" {
		return true
	}
	for _, x := range strings.Split(l, ",") {
		if x == name {
			return true
		}
	}
	return false
}

// ------------------------------------------------------------------ TLC runs share a budget of worker slots

// Two dozen JVMs started at once spend their time in each other's way (GC threads, 16 cores): every TLC run of this
// driver takes as many slots as it has workers from a common budget.
var x2Slots = func() chan struct{} {
	c := make(chan struct{}, 12)
	for i := 0; i < cap(c); i++ {
		c <- struct{}{}
	}
	return c
}()
var x2SlotMu sync.Mutex

func x2TLC(env *vk.Env, r vk.TLCRun) (*vk.TLCResult, error) {
	w := r.Workers
	if w <= 0 {
		w = 1
	}
	if w > cap(x2Slots) {
		w = cap(x2Slots)
	}
	x2SlotMu.Lock() // one taker at a time: no two runs holding half of what they need
	for i := 0; i < w; i++ {
		<-x2Slots
	}
	x2SlotMu.Unlock()
	defer func() {
		for i := 0; i < w; i++ {
			x2Slots <- struct{}{}
		}
	}()
	return env.TLC(r)
}

func x2MustSpec(env *vk.Env, r vk.TLCRun) *vk.TLCResult {
	res, err := x2TLC(env, r)
	if err != nil {
		env.Infra("tlc %s/%s: %v", r.Module, r.Cfg, err)
		return nil
	}
	if !res.OK {
		env.Infra("spec check %s/%s failed (exit %d, violated=%q):\n%s", r.Module, r.Cfg, res.ExitCode, res.Violated, vkTrunc(res.Output, 3000))
		return nil
	}
	return res
}

// ------------------------------------------------------------------ per-line trace validation

type x2Meta struct {
	Scenario int
	Origin   string
	Op       int
	Kind     string
}

type x2Trace struct {
	tr   vk.Trace
	meta []x2Meta
	scen map[int]any // scenario id -> *scenario (still growing while a random history is generated)
}

func (t *x2Trace) add(ev map[string]any, m x2Meta, sc any) {
	t.tr.Add(ev)
	t.meta = append(t.meta, m)
	if t.scen == nil {
		t.scen = map[int]any{}
	}
	t.scen[m.Scenario] = sc
}

type x2Viol struct{ Line, Check int }

var reX2Fail = regexp.MustCompile(`^<<"X2FAIL", (\d+), \{([0-9, ]*)\}>>`)

// x2Validate judges one trace with a per-line trace specification: every line is an initial state, the specification
// prints <<"X2FAIL", line, {failed checks}>> for the lines it rejects.
func x2Validate(env *vk.Env, label, module string, trace []byte, count bool) ([]x2Viol, bool) {
	res, err := x2TLC(env, vk.TLCRun{Name: label, Module: module, Cfg: module + ".cfg", Workers: 1,
		Timeout: 20 * time.Minute, Heap: "4g", NoCount: !count, Files: map[string][]byte{"trace.ndjson": trace}})
	if err != nil {
		env.Infra("%s: %v", label, err)
		return nil, false
	}
	if !res.OK {
		env.Infra("%s: trace validation did not complete (exit %d, violated=%q):\n%s", label, res.ExitCode, res.Violated, vkTrunc(res.Output, 3000))
		return nil, false
	}
	if want := int64(bytes.Count(trace, []byte("\n"))); res.Distinct != want {
		env.Infra("%s: TLC judged %d lines of %d", label, res.Distinct, want)
		return nil, false
	}
	var out []x2Viol
	for _, pv := range res.PrintedVals {
		m := reX2Fail.FindStringSubmatch(pv)
		if m == nil {
			continue
		}
		line, _ := strconv.Atoi(m[1])
		for _, c := range strings.Split(m[2], ",") {
			if n, err := strconv.Atoi(strings.TrimSpace(c)); err == nil {
				out = append(out, x2Viol{line, n})
			}
		}
	}
	sort.Slice(out, func(i, j int) bool {
		if out[i].Line != out[j].Line {
			return out[i].Line < out[j].Line
		}
		return out[i].Check < out[j].Check
	})
	if os.Getenv("VERIF_KEEP") == "" {
		os.RemoveAll(res.Dir)
	}
	return out, true
}

// x2Judge validates the trace in `parts` parallel TLC runs (cut at scenario boundaries: every scenario starts with
// a reset event) and books every violated (line, check) pair as a finding of `module`.
func x2Judge(env *vk.Env, book *x2Book, label, module, spec string, checks map[int][2]string, t *x2Trace, parts int) {
	lines := bytes.Split(bytes.TrimRight(t.tr.Bytes(), "\n"), []byte("\n"))
	if len(lines) == 0 || len(t.meta) != len(lines) || len(lines[0]) == 0 {
		return
	}
	// scenario start lines
	var starts []int
	for i, m := range t.meta {
		if i == 0 || m.Scenario != t.meta[i-1].Scenario {
			starts = append(starts, i)
		}
	}
	if parts > len(starts) {
		parts = len(starts)
	}
	type part struct{ from, to int }
	var ps []part
	per := (len(lines) + parts - 1) / parts
	from := 0
	for _, s := range starts[1:] {
		if s-from >= per && len(ps) < parts-1 {
			ps = append(ps, part{from, s})
			from = s
		}
	}
	ps = append(ps, part{from, len(lines)})
	var wg sync.WaitGroup
	for pi, p := range ps {
		wg.Add(1)
		go func(pi int, p part) {
			defer wg.Done()
			body := append(bytes.Join(lines[p.from:p.to], []byte("\n")), '\n')
			viols, ok := x2Validate(env, fmt.Sprintf("%s part %d", label, pi), spec, body, true)
			if !ok {
				return
			}
			scen := map[int]bool{}
			for i := p.from; i < p.to; i++ {
				scen[t.meta[i].Scenario] = true
			}
			env.AddTraces(int64(len(scen)))
			env.AddEval(int64(p.to - p.from))
			env.Sub(map[string]any{"run": fmt.Sprintf("%s part %d", label, pi), "events": p.to - p.from, "scenarios": len(scen), "violated_pairs": len(viols)})
			for _, v := range viols {
				gl := p.from + v.Line - 1
				if gl < 0 || gl >= len(lines) {
					env.Infra("%s: TLC names line %d outside the trace part", label, v.Line)
					continue
				}
				m := t.meta[gl]
				c, okc := checks[v.Check]
				if !okc {
					c = [2]string{fmt.Sprint("check", v.Check), "unnamed check"}
				}
				book.add(module, fmt.Sprintf("%s - %s", c[0], c[1]),
					fmt.Sprintf("%s scenario %d event %d: %s", m.Origin, m.Scenario, m.Op, x2Brief(lines[gl])), t.scen[m.Scenario])
			}
		}(pi, p)
	}
	wg.Wait()
}

// x2Behaviours runs a generator module in TLC simulation mode and returns the parsed behaviours.
func x2Behaviours(env *vk.Env, label, module, cfg string, num, depth int) [][]map[string]any {
	gen, err := x2TLC(env, vk.TLCRun{Name: label, Module: module, Cfg: cfg, Workers: 1, Simulate: fmt.Sprintf("file=beh,num=%d", num),
		Depth: depth, NoCount: true, KeepOut: true, Timeout: 10 * time.Minute})
	if err != nil || gen.ExitCode != 0 {
		out := ""
		if gen != nil {
			out = gen.Output
		}
		env.Infra("%s: behaviour generation failed: %v\n%s", label, err, vkTrunc(out, 2000))
		return nil
	}
	files, _ := filepath.Glob(filepath.Join(gen.Dir, "beh_*"))
	sort.Strings(files)
	var out [][]map[string]any
	for _, f := range files {
		states, err := bsParseBehaviour(f)
		if err != nil || len(states) < 2 {
			env.Infra("%s: behaviour file %s: %v (%d states)", label, f, err, len(states))
			return nil
		}
		out = append(out, states)
		os.Remove(f)
	}
	if len(out) < num/2 {
		env.Infra("%s: only %d behaviours parsed from the TLC simulation", label, len(out))
		return nil
	}
	os.RemoveAll(gen.Dir)
	return out
}

// x2Brief renders an event without its bulky projection fields.
func x2Brief(line []byte) string {
	var m map[string]json.RawMessage
	if json.Unmarshal(line, &m) != nil {
		return vkTrunc(string(line), 300)
	}
	keys := make([]string, 0, len(m))
	for k := range m {
		keys = append(keys, k)
	}
	sort.Strings(keys)
	var b strings.Builder
	for _, k := range keys {
		v := string(m[k])
		if v == "[]" || v == "0" || v == "false" || v == "-1" || (v == "true" && (k == "cloned" || k == "outnil")) {
			continue
		}
		lim := 70
		if k == "index" || k == "keys" || k == "keys2" || k == "vals2" {
			lim = 24
		}
		fmt.Fprintf(&b, "%s=%s ", k, vkTrunc(v, lim))
	}
	return strings.TrimSpace(b.String())
}

func x2Ints(v any) []int {
	l, _ := v.([]any)
	out := make([]int, 0, len(l))
	for _, x := range l {
		if n, ok := x.(int); ok {
			out = append(out, n)
		}
	}
	return out
}

// x2Pairs converts a TLC function value (printed as (k :> v @@ ...) or, for a domain 1..n, as a tuple) into sorted pairs.
func x2Pairs(v any) [][2]int {
	out := [][2]int{}
	switch f := v.(type) {
	case bsTlaFn:
		for i := range f.K {
			k, ok1 := f.K[i].(int)
			w, ok2 := f.V[i].(int)
			if ok1 && ok2 {
				out = append(out, [2]int{k, w})
			}
		}
	case []any:
		for i, e := range f {
			if w, ok := e.(int); ok {
				out = append(out, [2]int{i + 1, w})
			}
		}
	}
	sort.Slice(out, func(i, j int) bool { return out[i][0] < out[j][0] })
	return out
}

// ------------------------------------------------------------------ driver

func runX02(env *vk.Env) {
	env.Cov.Rule = "Specification extension, not one of the listed properties: rejections are NOTE findings, never violations. " +
		"S: SigCache_MC (Cap 3, 5 signatures, queues to 4: IndexInverse, Dense, NoDup, CapOK, MostRecentFirst, LookupFrame and AlgoRefines = the loop of " +
		"PopOrInsert equals the intent on every hazard-free queue), SigCache_MC_algo (the loop as a machine: index map and uniqueness on every queue), " +
		"SigCache_MC_algo_dense (expected to violate Dense); Registry_MC (2 keys, 2 values, 2 tags, rows to 3, messages to 2: KeysValid, LastPutWins, " +
		"TagsValid, StaleMeansDuplicate, RoundTrip, PutRule, ReadOnly, ClearRule). A: TLC -simulate behaviours (cache: Cap 128, 420 signatures, hazard-free " +
		"intent generator and hazard generator following the algorithm layer; registry: 6 keys, rows to 14) replayed on the real objects with the projected " +
		"state compared after every step. B: seeded random histories (cache: thousands of pushes and lookups with reuse at and behind the queue position, " +
		"evictions, re-insertion of evicted signatures, separate hazard scenarios; registry: duplicate keys, clears, tags, network bodies with tails, " +
		"truncations, invalid ids, entries without data, growth past 256 entries). Every execution is judged per line by SigCache_Trace / Registry_Trace. " +
		"Distinct = distinct (module, event kind, outcome class) in judged traces."
	env.Assume = []string{
		"lastSeen lists passed to PopOrInsert contain no nil entry (a nil entry can only come from Unpack answering an empty slot, which is reported separately)",
		"registry values are a two-field struct encoded by the package's own network NBT encoder (pk.NBT); entries of a network body are written as Identifier, Boolean, NBT",
		"projection of unexported state (signatures, signIndexes, indices) is read-only through reflect/unsafe",
	}
	book := &x2Book{}
	var wg sync.WaitGroup
	run := func(f func()) {
		wg.Add(1)
		go func() { defer wg.Done(); f() }()
	}
	if x2Leg("S") {
		run(func() { scSpecLeg(env, book) })
		run(func() { rgSpecLeg(env) })
	}
	run(func() { scLegs(env, book) })
	run(func() { rgLegs(env, book) })
	wg.Wait()
	book.flush(env)
	env.Cov.Exhaustive = x2Leg("S")
}

func replayX02(env *vk.Env, b []byte) {
	var f struct {
		Replay struct {
			Module string          `json:"module"`
			Sc     json.RawMessage `json:"scenario"`
			Seed   int64           `json:"seed"`
		} `json:"replay"`
	}
	if err := json.Unmarshal(b, &f); err != nil {
		env.Infra("replay: %v", err)
		return
	}
	if f.Replay.Seed != 0 {
		env.Seed = f.Replay.Seed
	}
	book := &x2Book{}
	switch f.Replay.Module {
	case "SigCache":
		var sc scScenario
		if err := json.Unmarshal(f.Replay.Sc, &sc); err != nil {
			env.Infra("replay: %v", err)
			return
		}
		t := &x2Trace{}
		scRun(sc, t, book)
		x2Judge(env, book, "replay", "SigCache", "SigCache_Trace", scChecks, t, 1)
	case "Registry":
		var sc rgScenario
		if err := json.Unmarshal(f.Replay.Sc, &sc); err != nil {
			env.Infra("replay: %v", err)
			return
		}
		t := &x2Trace{}
		rgRun(sc, t, book)
		x2Judge(env, book, "replay", "Registry", "Registry_Trace", rgChecks, t, 1)
	default:
		env.Infra("replay: unknown module %q", f.Replay.Module)
		return
	}
	book.flush(env)
	env.Cov.States, env.Cov.Transitions = 1, 1
	env.Sample(f.Replay.Module)
}
