package main

// Real-code side of NBT.tla / NBTMap.tla: trees as TLC prints them, a concretiser (tree -> bytes, used only
// to produce inputs; TLC re-derives everything from the bytes), projections of decoded Go values back to
// trees, and a reflect-based builder of Go types/values from type expressions.

import (
	"bytes"
	"encoding/binary"
	"encoding/json"
	"fmt"
	"math"
	"math/rand"
	"reflect"
	"sort"
	"strings"

	"github.com/Tnze/go-mc/nbt"
)

// ---------------------------------------------------------------- trees

type nbtEntry struct {
	K []int    `json:"k"`
	N *nbtNode `json:"n"`
}

// nbtNode mirrors the TLA+ node records. V holds: byte pattern ([]int) for t in 1..8, []*nbtNode for 9,
// []nbtEntry for 10, [][]int for 11/12.
type nbtNode struct {
	T   int
	Et  int
	Pat []int
	Lst []*nbtNode
	Ent []nbtEntry
	Wds [][]int
}

func (n *nbtNode) MarshalJSON() ([]byte, error) {
	switch {
	case n.T == 0:
		return json.Marshal(map[string]any{"t": 0})
	case n.T <= 8:
		p := n.Pat
		if p == nil {
			p = []int{}
		}
		return json.Marshal(map[string]any{"t": n.T, "v": p})
	case n.T == 9:
		l := n.Lst
		if l == nil {
			l = []*nbtNode{}
		}
		return json.Marshal(map[string]any{"t": 9, "et": n.Et, "v": l})
	case n.T == 10:
		e := n.Ent
		if e == nil {
			e = []nbtEntry{}
		}
		return json.Marshal(map[string]any{"t": 10, "v": e})
	default:
		w := n.Wds
		if w == nil {
			w = [][]int{}
		}
		return json.Marshal(map[string]any{"t": n.T, "v": w})
	}
}

func (n *nbtNode) UnmarshalJSON(b []byte) error {
	var h struct {
		T  int             `json:"t"`
		Et int             `json:"et"`
		V  json.RawMessage `json:"v"`
	}
	if err := json.Unmarshal(b, &h); err != nil {
		return err
	}
	n.T, n.Et = h.T, h.Et
	switch {
	case h.T == 0:
		return nil
	case h.T <= 8:
		return json.Unmarshal(h.V, &n.Pat)
	case h.T == 9:
		return json.Unmarshal(h.V, &n.Lst)
	case h.T == 10:
		return json.Unmarshal(h.V, &n.Ent)
	default:
		return json.Unmarshal(h.V, &n.Wds)
	}
}

var nbtWidth = map[int]int{1: 1, 2: 2, 3: 4, 4: 8, 5: 4, 6: 8}

// nbtOffsets records where the length fields and tag ids of a concretised document are (for structure-aware mutation)
type nbtOffsets struct{ Len32, Len16, Tags []int }

var curOffsets *nbtOffsets

func markOff(kind int, at int) {
	if curOffsets == nil {
		return
	}
	switch kind {
	case 32:
		curOffsets.Len32 = append(curOffsets.Len32, at)
	case 16:
		curOffsets.Len16 = append(curOffsets.Len16, at)
	default:
		curOffsets.Tags = append(curOffsets.Tags, at)
	}
}

// concretiser: payload bytes of a node (protocol text; only used to PRODUCE inputs)
func (n *nbtNode) payload(b []byte) []byte {
	switch {
	case n.T >= 1 && n.T <= 6:
		return append(b, bytesOf(n.Pat)...)
	case n.T == 7:
		markOff(32, len(b))
		b = binary.BigEndian.AppendUint32(b, uint32(len(n.Pat)))
		return append(b, bytesOf(n.Pat)...)
	case n.T == 8:
		markOff(16, len(b))
		b = binary.BigEndian.AppendUint16(b, uint16(len(n.Pat)))
		return append(b, bytesOf(n.Pat)...)
	case n.T == 9:
		markOff(8, len(b))
		b = append(b, byte(n.Et))
		markOff(32, len(b))
		b = binary.BigEndian.AppendUint32(b, uint32(len(n.Lst)))
		for _, e := range n.Lst {
			b = e.payload(b)
		}
		return b
	case n.T == 10:
		for _, e := range n.Ent {
			markOff(8, len(b))
			b = append(b, byte(e.N.T))
			markOff(16, len(b))
			b = binary.BigEndian.AppendUint16(b, uint16(len(e.K)))
			b = append(b, bytesOf(e.K)...)
			b = e.N.payload(b)
		}
		return append(b, 0)
	case n.T == 11 || n.T == 12:
		markOff(32, len(b))
		b = binary.BigEndian.AppendUint32(b, uint32(len(n.Wds)))
		for _, w := range n.Wds {
			b = append(b, bytesOf(w)...)
		}
		return b
	}
	return b
}

func nbtDocBytes(fmtName string, name []byte, n *nbtNode) []byte {
	if n.T == 0 {
		return []byte{0}
	}
	markOff(8, 0)
	b := []byte{byte(n.T)}
	if fmtName == "file" {
		markOff(16, 1)
		b = binary.BigEndian.AppendUint16(b, uint16(len(name)))
		b = append(b, name...)
	}
	return n.payload(b)
}

// projection of what nbt decodes into `any`
func projectAny(v any) *nbtNode {
	switch x := v.(type) {
	case int8:
		return &nbtNode{T: 1, Pat: []int{int(uint8(x))}}
	case int16:
		return &nbtNode{T: 2, Pat: ints(beBytes(uint64(uint16(x)), 2))}
	case int32:
		return &nbtNode{T: 3, Pat: ints(beBytes(uint64(uint32(x)), 4))}
	case int64:
		return &nbtNode{T: 4, Pat: ints(beBytes(uint64(x), 8))}
	case float32:
		return &nbtNode{T: 5, Pat: ints(beBytes(uint64(math.Float32bits(x)), 4))}
	case float64:
		return &nbtNode{T: 6, Pat: ints(beBytes(math.Float64bits(x), 8))}
	case []byte:
		return &nbtNode{T: 7, Pat: ints(x)}
	case string:
		return &nbtNode{T: 8, Pat: ints([]byte(x))}
	case []any:
		n := &nbtNode{T: 9, Lst: []*nbtNode{}}
		for _, e := range x {
			n.Lst = append(n.Lst, projectAny(e))
		}
		if len(n.Lst) > 0 {
			n.Et = n.Lst[0].T
		}
		return n
	case map[string]any:
		n := &nbtNode{T: 10}
		keys := make([]string, 0, len(x))
		for k := range x {
			keys = append(keys, k)
		}
		sort.Strings(keys)
		for _, k := range keys {
			n.Ent = append(n.Ent, nbtEntry{K: ints([]byte(k)), N: projectAny(x[k])})
		}
		return n
	case []int32:
		n := &nbtNode{T: 11, Wds: [][]int{}}
		for _, w := range x {
			n.Wds = append(n.Wds, ints(beBytes(uint64(uint32(w)), 4)))
		}
		return n
	case []int64:
		n := &nbtNode{T: 12, Wds: [][]int{}}
		for _, w := range x {
			n.Wds = append(n.Wds, ints(beBytes(uint64(w), 8)))
		}
		return n
	}
	return &nbtNode{T: 0}
}

// random trees -----------------------------------------------------------------------------------

func randPat(rng *rand.Rand, w int) []int {
	b := make([]byte, w)
	switch rng.Intn(4) {
	case 0:
		rng.Read(b)
	case 1:
		b[w-1] = byte(rng.Intn(256))
	case 2:
		for i := range b {
			b[i] = 0xff
		}
		b[w-1] = byte(rng.Intn(256))
	default:
		b[0] = byte(0x80 >> uint(rng.Intn(2)) * rng.Intn(2))
	}
	return ints(b)
}

var nbtOddTexts = []string{"-", "+", ".", "-x", "+1", "-.", "1e5", "a/b", "/", "0x1", "true", "12L", "中"}

func randKey(rng *rand.Rand) []int {
	if rng.Intn(10) == 0 {
		return ints([]byte(nbtOddTexts[rng.Intn(len(nbtOddTexts))]))
	}
	switch rng.Intn(6) {
	case 0:
		return []int{}
	case 1:
		return ints([]byte("a,b"))
	case 2:
		return []int{0xc3, 0xa9, 0x20, 0x22}
	}
	n := 1 + rng.Intn(12)
	if rng.Intn(8) == 0 { // names around the sizes of scratch buffers and length bytes
		n = []int{31, 32, 33, 61, 62, 63, 64, 65, 66, 127, 128, 129, 255, 256, 257, 300}[rng.Intn(16)]
	}
	k := make([]byte, n)
	for i := range k {
		k[i] = byte('a' + rng.Intn(26))
	}
	return ints(k)
}

// allowDupKeys lets randTree repeat entry names inside a compound (only byte-exact carriers can be judged on such documents)
var allowDupKeys bool

func randTree(rng *rand.Rand, depth int, tag int) *nbtNode {
	if tag == 0 {
		tag = 1 + rng.Intn(12)
		if depth <= 0 {
			tag = []int{1, 2, 3, 4, 5, 6, 7, 8, 11, 12}[rng.Intn(10)]
		}
	}
	switch {
	case tag <= 6:
		pat := randPat(rng, nbtWidth[tag])
		if tag == 5 && pat[0]&0x7f == 0x7f && pat[1]&0x80 != 0 && pat[1]&0x40 == 0 {
			// a signalling float32 NaN: Go's float32 <-> float64 conversions (reflect's SetFloat/Float, which both the
			// library and this harness go through for typed destinations) set the quiet bit - not generated
			pat[1] |= 0x40
		}
		return &nbtNode{T: tag, Pat: pat}
	case tag == 7 || tag == 8:
		if tag == 8 && rng.Intn(6) == 0 {
			// texts a printer has to look at character by character: a lone sign, sign + letter, number-like, a slash
			return &nbtNode{T: 8, Pat: ints([]byte(nbtOddTexts[rng.Intn(len(nbtOddTexts))]))}
		}
		n := []int{0, 1, 3, 40, 300}[rng.Intn(5)]
		b := make([]byte, n)
		rng.Read(b)
		return &nbtNode{T: tag, Pat: ints(b)}
	case tag == 9:
		n := &nbtNode{T: 9, Lst: []*nbtNode{}}
		k := []int{0, 0, 1, 2, 5}[rng.Intn(5)]
		if k == 0 {
			n.Et = []int{0, 0, 1, 3, 8, 9, 10, 12}[rng.Intn(8)]
			return n
		}
		n.Et = 1 + rng.Intn(12)
		if depth <= 0 && (n.Et == 9 || n.Et == 10) {
			n.Et = 8
		}
		for i := 0; i < k; i++ {
			n.Lst = append(n.Lst, randTree(rng, depth-1, n.Et))
		}
		return n
	case tag == 10:
		n := &nbtNode{T: 10}
		k := rng.Intn(5)
		if depth <= 0 {
			k = rng.Intn(2)
		}
		seen := map[string]bool{}
		for i := 0; i < k; i++ {
			key := randKey(rng)
			if allowDupKeys && i > 0 && rng.Intn(3) == 0 {
				key = n.Ent[rng.Intn(len(n.Ent))].K // a repeated entry name: legal on the wire, carriers must keep it
			} else if seen[string(bytesOf(key))] {
				continue
			}
			seen[string(bytesOf(key))] = true
			n.Ent = append(n.Ent, nbtEntry{K: key, N: randTree(rng, depth-1, 0)})
		}
		return n
	default:
		w := 4
		if tag == 12 {
			w = 8
		}
		n := &nbtNode{T: tag, Wds: [][]int{}}
		for i := rng.Intn(4); i > 0; i-- {
			n.Wds = append(n.Wds, randPat(rng, w))
		}
		return n
	}
}

// ---------------------------------------------------------------- Go type expressions (NBTMap.tla)

type goField struct {
	Name []int   `json:"name"`
	Ty   *goType `json:"ty"`
	Omit bool    `json:"omit"`
	List bool    `json:"list"`
	Skip bool    `json:"skip"`
	Emb  bool    `json:"emb"`
	// Ut: the field has no name in its tag; its NBT name is its Go name (Name, then an exported identifier). Matters
	// only when several fields claim one name (embedding): see Dominant in NBTMap.tla.
	Ut bool `json:"ut"`
	// Zero: the generator gives this field its zero value (a field that the name rule hides is not encoded, so only
	// its zero value can come back from a round trip)
	Zero bool `json:"-"`
	// EmbPtr: the embedded struct is embedded through a POINTER (`struct{ *Inner; ... }`); the NBT side is the same as
	// for a value-embedded struct (the generator always gives it a pointee)
	EmbPtr bool `json:"embptr,omitempty"`
	// NbtKey: the name is given by the `nbtkey:"..."` tag (made for names a `nbt:"..."` tag cannot carry), options stay
	// in the nbt tag; for the mapping it is a name from a tag like any other
	NbtKey bool `json:"nbtkey,omitempty"`
}

type goType struct {
	// GoInt: the Go type is the platform `int` (64 bits here) while the NBT side of it is K = "i32", the elements of an
	// int array: `[]int` is a destination the library accepts for TagIntArray (it refuses []uint, and []int for long arrays)
	GoInt bool      `json:"goint,omitempty"`
	K     string    `json:"k"`
	E     *goType   `json:"e,omitempty"`
	N     int       `json:"-"` // array length
	Fs    []goField `json:"fs,omitempty"`
}

func (t goType) MarshalJSON() ([]byte, error) {
	m := map[string]any{"k": t.K}
	if t.GoInt {
		m["goint"] = true
	}
	switch t.K {
	case "slice", "array", "map", "ptr":
		m["e"] = t.E
	case "struct":
		fs := t.Fs
		if fs == nil {
			fs = []goField{}
		}
		m["fs"] = fs
	}
	return json.Marshal(m)
}

func (t goType) class() string {
	switch t.K {
	case "slice", "array", "map", "ptr":
		return t.K + "(" + t.E.class() + ")"
	case "struct":
		var s []string
		for _, f := range t.Fs {
			o := f.Ty.class()
			if f.Omit {
				o += ",omitempty"
			}
			if f.List {
				o += ",list"
			}
			if f.Emb {
				o = "embedded " + o
			}
			if f.Skip {
				o = "-"
			}
			s = append(s, o)
		}
		return "struct{" + strings.Join(s, ";") + "}"
	}
	return t.K
}

var goScalarKinds = map[string]reflect.Type{
	"bool": reflect.TypeOf(false), "i8": reflect.TypeOf(int8(0)), "u8": reflect.TypeOf(uint8(0)),
	"i16": reflect.TypeOf(int16(0)), "u16": reflect.TypeOf(uint16(0)), "i32": reflect.TypeOf(int32(0)), "u32": reflect.TypeOf(uint32(0)),
	"i64": reflect.TypeOf(int64(0)), "u64": reflect.TypeOf(uint64(0)), "f32": reflect.TypeOf(float32(0)), "f64": reflect.TypeOf(float64(0)),
	"str": reflect.TypeOf(""),
}
var goScalarWidth = map[string]int{"bool": 1, "i8": 1, "u8": 1, "i16": 2, "u16": 2, "i32": 4, "u32": 4, "i64": 8, "u64": 8, "f32": 4, "f64": 8}

var anyType = reflect.TypeOf((*any)(nil)).Elem()

// reflectType builds the Go type of a type expression.
func (t *goType) reflectType() reflect.Type {
	switch t.K {
	case "slice":
		return reflect.SliceOf(t.E.reflectType())
	case "array":
		return reflect.ArrayOf(t.N, t.E.reflectType())
	case "map":
		return reflect.MapOf(reflect.TypeOf(""), t.E.reflectType())
	case "ptr":
		return reflect.PointerTo(t.E.reflectType())
	case "iface":
		return anyType
	case "struct":
		var fs []reflect.StructField
		for i, f := range t.Fs {
			sf := reflect.StructField{Name: fmt.Sprintf("F%d", i), Type: f.Ty.reflectType()}
			tag := string(bytesOf(f.Name))
			if f.Skip {
				tag = "-"
			} else {
				if f.Omit {
					tag += ",omitempty"
				}
				if f.List {
					tag += ",list"
				}
			}
			if f.Emb {
				sf.Anonymous = true
				sf.Name = fmt.Sprintf("E%d", i)
				sf.Tag = ""
				if f.EmbPtr {
					sf.Type = reflect.PointerTo(sf.Type)
				}
			} else if f.Ut {
				sf.Name = string(bytesOf(f.Name))
				sf.Tag = ""
				if opts := strings.TrimPrefix(tag, sf.Name); opts != "" {
					sf.Tag = reflect.StructTag(`nbt:` + fmt.Sprintf("%q", opts)) // options only: `nbt:",omitempty"`
				}
			} else if f.NbtKey && !f.Skip {
				name := string(bytesOf(f.Name))
				sf.Tag = reflect.StructTag(`nbt:` + fmt.Sprintf("%q", strings.TrimPrefix(tag, name)) + ` nbtkey:` + fmt.Sprintf("%q", name))
			} else {
				sf.Tag = reflect.StructTag(`nbt:` + fmt.Sprintf("%q", tag))
			}
			fs = append(fs, sf)
		}
		return reflect.StructOf(fs)
	}
	if t.GoInt {
		if t.K[0] == 'u' {
			return reflect.TypeOf(uint(0))
		}
		return reflect.TypeOf(int(0))
	}
	return goScalarKinds[t.K]
}

// setValue fills rv (settable, of t.reflectType()) from the abstract value.
func (t *goType) setValue(rv reflect.Value, v any) {
	switch t.K {
	case "bool":
		rv.SetBool(absBytes(v)[0] != 0)
	case "i8", "i16", "i32", "i64":
		w := goScalarWidth[t.K]
		u := be(absBytes(v))
		sh := uint(64 - 8*w)
		rv.SetInt(int64(u<<sh) >> sh)
	case "u8", "u16", "u32", "u64":
		rv.SetUint(be(absBytes(v)))
	case "f32":
		rv.SetFloat(float64(math.Float32frombits(uint32(be(absBytes(v))))))
	case "f64":
		rv.SetFloat(math.Float64frombits(be(absBytes(v))))
	case "str":
		rv.SetString(string(absBytes(v)))
	case "slice":
		a, _ := v.([]any)
		s := reflect.MakeSlice(rv.Type(), len(a), len(a))
		for i := range a {
			t.E.setValue(s.Index(i), a[i])
		}
		rv.Set(s)
	case "array":
		a, _ := v.([]any)
		for i := range a {
			t.E.setValue(rv.Index(i), a[i])
		}
	case "map":
		a, _ := v.([]any)
		m := reflect.MakeMapWithSize(rv.Type(), len(a))
		for _, e := range a {
			em := e.(map[string]any)
			ev := reflect.New(t.E.reflectType()).Elem()
			t.E.setValue(ev, em["v"])
			m.SetMapIndex(reflect.ValueOf(string(absBytes(em["k"]))), ev)
		}
		rv.Set(m)
	case "ptr":
		if s, ok := v.(string); ok && s == "nil" {
			return // nil pointer
		}
		p := reflect.New(t.E.reflectType())
		t.E.setValue(p.Elem(), v)
		rv.Set(p)
	case "iface":
		m := v.(map[string]any)
		var dt goType
		b, _ := json.Marshal(m["ty"])
		json.Unmarshal(b, &dt)
		fixArrayLens(&dt, m["v"])
		dv := reflect.New(dt.reflectType()).Elem()
		dt.setValue(dv, m["v"])
		rv.Set(dv)
	case "struct":
		a, _ := v.([]any)
		for i := range t.Fs {
			fv := rv.Field(i)
			if t.Fs[i].EmbPtr {
				fv.Set(reflect.New(fv.Type().Elem()))
				fv = fv.Elem()
			}
			t.Fs[i].Ty.setValue(fv, a[i])
		}
	}
}

// fixArrayLens sets the length of array types from a value (type expressions carry no length).
func fixArrayLens(t *goType, v any) {
	switch t.K {
	case "array":
		a, _ := v.([]any)
		t.N = len(a)
		for _, e := range a {
			fixArrayLens(t.E, e)
		}
	case "slice":
		a, _ := v.([]any)
		for _, e := range a {
			fixArrayLens(t.E, e)
		}
	case "ptr":
		if _, ok := v.(string); !ok {
			fixArrayLens(t.E, v)
		}
	case "map":
		a, _ := v.([]any)
		for _, e := range a {
			fixArrayLens(t.E, e.(map[string]any)["v"])
		}
	case "struct":
		a, _ := v.([]any)
		for i := range t.Fs {
			if i < len(a) {
				fixArrayLens(t.Fs[i].Ty, a[i])
			}
		}
	}
}

// getValue projects a reflect value of type t back to the abstract value. Containers: nil = empty.
func (t *goType) getValue(rv reflect.Value) any {
	switch t.K {
	case "bool":
		if rv.Bool() {
			return toAbsBytes([]byte{1})
		}
		return toAbsBytes([]byte{0})
	case "i8", "i16", "i32", "i64":
		if w := goScalarWidth[t.K]; t.GoInt && w < 8 && (rv.Int() < -(1<<(8*w-1)) || rv.Int() >= 1<<(8*w-1)) {
			return toAbsBytes(beBytes(uint64(rv.Int()), 8)) // a value no element of that width can be: kept at full width
		}
		return toAbsBytes(beBytes(uint64(rv.Int()), goScalarWidth[t.K]))
	case "u8", "u16", "u32", "u64":
		if w := goScalarWidth[t.K]; t.GoInt && w < 8 && rv.Uint() >= 1<<(8*w) {
			return toAbsBytes(beBytes(rv.Uint(), 8))
		}
		return toAbsBytes(beBytes(rv.Uint(), goScalarWidth[t.K]))
	case "f32":
		f := rv.Float()
		if normZero {
			f += 0 // -0 and +0 are equal values (omitempty drops both): only when comparing round trips
		}
		return toAbsBytes(beBytes(uint64(math.Float32bits(float32(f))), 4))
	case "f64":
		f := rv.Float()
		if normZero {
			f += 0
		}
		return toAbsBytes(beBytes(math.Float64bits(f), 8))
	case "str":
		return toAbsBytes([]byte(rv.String()))
	case "slice", "array":
		out := make([]any, rv.Len())
		for i := range out {
			out[i] = t.E.getValue(rv.Index(i))
		}
		return out
	case "map":
		keys := rv.MapKeys()
		sort.Slice(keys, func(i, j int) bool { return keys[i].String() < keys[j].String() })
		out := make([]any, len(keys))
		for i, k := range keys {
			out[i] = map[string]any{"k": toAbsBytes([]byte(k.String())), "v": t.E.getValue(rv.MapIndex(k))}
		}
		return out
	case "ptr":
		if rv.IsNil() {
			return "nil-pointer"
		}
		return t.E.getValue(rv.Elem())
	case "iface":
		// the dynamic value, as (type, value) like the generator wrote it; a nil interface is its own value
		if rv.IsNil() {
			return "nil-interface"
		}
		dv := rv.Elem()
		dt := goTypeOf(dv.Type())
		if dt == nil {
			return "iface:" + dv.Type().String()
		}
		return map[string]any{"ty": dt, "v": dt.getValue(dv)}
	case "struct":
		out := make([]any, len(t.Fs))
		for i := range t.Fs {
			if t.Fs[i].Skip {
				out[i] = "skipped" // a field tagged "-" takes no part in the encoding
				continue
			}
			fv := rv.Field(i)
			if t.Fs[i].EmbPtr {
				if fv.IsNil() {
					fv = reflect.New(fv.Type().Elem()) // nothing was decoded into it: the zero values
				}
				fv = fv.Elem()
			}
			out[i] = t.Fs[i].Ty.getValue(fv)
		}
		return out
	}
	return nil
}

// interface-typed fields decode to the dynamic types the decoder chooses (int8, []any, map...); compare by tree
func projectIface(v any) string { b, _ := json.Marshal(projectAny(v)); return string(b) }

// random type expressions / values ------------------------------------------------------------------

var goScalarNames = []string{"bool", "i8", "u8", "i16", "u16", "i32", "u32", "i64", "u64", "f32", "f64", "str"}
var goFieldNames = [][]int{ints([]byte("a")), ints([]byte("B c")), {0xc3, 0xa9}, ints([]byte("Value")), ints([]byte("x1")), ints([]byte("list")), ints([]byte("omitempty")),
	ints(bytes.Repeat([]byte("n"), 62)), ints(bytes.Repeat([]byte("m"), 63)), ints(bytes.Repeat([]byte("k"), 64)), ints(bytes.Repeat([]byte("j"), 65)), ints(bytes.Repeat([]byte("i"), 128)), ints(bytes.Repeat([]byte("h"), 256))}

func randGoType(rng *rand.Rand, depth int) *goType {
	r := rng.Intn(12)
	if depth <= 0 {
		r = 11
	}
	switch r {
	case 0, 1, 2:
		// pointers as elements of typed arrays are refused by the encoder (an error, not a value)
		e := randGoType(rng, depth-1)
		for e.K == "ptr" {
			e = randGoType(rng, depth-1)
		}
		if r == 2 {
			return &goType{K: "array", E: e, N: 1 + rng.Intn(3)}
		}
		return &goType{K: "slice", E: e}
	case 3:
		return &goType{K: "map", E: randGoType(rng, depth-1)}
	case 4:
		e := randGoType(rng, depth-1)
		for e.K == "iface" { // *interface{} is not a documented destination
			e = randGoType(rng, depth-1)
		}
		return &goType{K: "ptr", E: e}
	case 8:
		return &goType{K: "iface"}
	case 5, 6, 7:
		if rng.Intn(10) == 0 {
			return randConflictStruct(rng)
		}
		t := &goType{K: "struct"}
		n := 1 + rng.Intn(4)
		used := map[string]bool{}
		for i := 0; i < n; i++ {
			name := goFieldNames[rng.Intn(len(goFieldNames))]
			if used[string(bytesOf(name))] {
				continue
			}
			used[string(bytesOf(name))] = true
			f := goField{Name: name, Ty: randGoType(rng, depth-1)}
			f.Omit = rng.Intn(4) == 0
			f.Skip = rng.Intn(12) == 0
			f.NbtKey = rng.Intn(6) == 0
			if (f.Ty.K == "slice" || f.Ty.K == "array") && rng.Intn(2) == 0 {
				switch f.Ty.E.K {
				case "bool", "i8", "u8", "i32", "u32", "i64", "u64":
					f.List = true
				}
			}
			t.Fs = append(t.Fs, f)
		}
		if rng.Intn(3) == 0 { // a chain of anonymous (embedded) structs, 1..4 levels, promoted field names unique
			embSeq++
			t.Fs = append(t.Fs, goField{Name: []int{}, Ty: randEmbedded(rng, 1+rng.Intn(4), embSeq), Emb: true, EmbPtr: rng.Intn(3) == 0})
		}
		return t
	}
	return &goType{K: goScalarNames[rng.Intn(len(goScalarNames))]}
}

var embSeq int

// goTypeOf maps the dynamic Go types the decoder stores in interface values back to type expressions
func goTypeOf(rt reflect.Type) *goType {
	switch rt.Kind() {
	case reflect.Int8:
		return &goType{K: "i8"}
	case reflect.Int16:
		return &goType{K: "i16"}
	case reflect.Int32:
		return &goType{K: "i32"}
	case reflect.Int64:
		return &goType{K: "i64"}
	case reflect.Uint8:
		return &goType{K: "u8"}
	case reflect.Float32:
		return &goType{K: "f32"}
	case reflect.Float64:
		return &goType{K: "f64"}
	case reflect.String:
		return &goType{K: "str"}
	case reflect.Interface:
		return &goType{K: "iface"}
	case reflect.Slice:
		if e := goTypeOf(rt.Elem()); e != nil {
			return &goType{K: "slice", E: e}
		}
	case reflect.Map:
		if rt.Key().Kind() == reflect.String {
			if e := goTypeOf(rt.Elem()); e != nil {
				return &goType{K: "map", E: e}
			}
		}
	}
	return nil
}

// randIface: a dynamic value of one of the types the decoder itself produces for an interface destination
// (int8..int64, float32/64, string, []byte, []int32, []int64, []any, map[string]any), so that a round trip can be exact
func randIface(rng *rand.Rand, depth int) any {
	var dt *goType
	switch r := rng.Intn(12); {
	case r < 5 || depth <= 0:
		dt = &goType{K: []string{"i8", "i16", "i32", "i64", "f32", "f64", "str"}[rng.Intn(7)]}
	case r < 8:
		dt = &goType{K: "slice", E: &goType{K: []string{"u8", "i32", "i64"}[rng.Intn(3)]}}
	case r < 10:
		n := []int{0, 0, 1, 3}[rng.Intn(4)] // []any, empty as often as not: an empty list must come back as an empty list
		vals := make([]any, n)
		// a list has one element type: all elements of one dynamic kind
		k := []string{"i16", "str", "f64", "f32", "i8", "i32", "i64"}[rng.Intn(7)]
		for i := range vals {
			et := &goType{K: k}
			vals[i] = map[string]any{"ty": et, "v": randGoValue(rng, et)}
		}
		return map[string]any{"ty": &goType{K: "slice", E: &goType{K: "iface"}}, "v": vals}
	default:
		n := rng.Intn(3)
		keys := []string{"a", "list", "z"}[:n]
		vals := []any{}
		for _, k := range keys {
			vals = append(vals, map[string]any{"k": toAbsBytes([]byte(k)), "v": randIface(rng, depth-1)})
		}
		return map[string]any{"ty": &goType{K: "map", E: &goType{K: "iface"}}, "v": vals}
	}
	return map[string]any{"ty": dt, "v": randGoValue(rng, dt)}
}

func randEmbedded(rng *rand.Rand, levels int, seq int) *goType {
	t := &goType{K: "struct"}
	n := 1 + rng.Intn(3)
	for i := 0; i < n; i++ {
		k := []string{"i32", "str", "i64", "i8", "f64", "bool"}[rng.Intn(6)]
		t.Fs = append(t.Fs, goField{Name: ints([]byte(fmt.Sprintf("e%d_%d_%d", seq, levels, i))), Ty: &goType{K: k}, Omit: rng.Intn(5) == 0})
	}
	if levels > 1 {
		f := goField{Name: []int{}, Ty: randEmbedded(rng, levels-1, seq), Emb: true}
		// the embedded struct sits at a random position among its siblings
		at := rng.Intn(len(t.Fs) + 1)
		t.Fs = append(t.Fs[:at], append([]goField{f}, t.Fs[at:]...)...)
	}
	return t
}

func randGoValue(rng *rand.Rand, t *goType) any {
	switch t.K {
	case "bool":
		return []any{float64(rng.Intn(2))}
	case "str":
		n := []int{0, 1, 3, 30}[rng.Intn(4)]
		b := make([]byte, n)
		for i := range b {
			b[i] = byte(32 + rng.Intn(95))
		}
		return toAbsBytes(b)
	case "slice", "array":
		if t.E.K == "iface" { // NBT lists are homogeneous: every element gets the same dynamic type
			n := []int{0, 1, 2, 4}[rng.Intn(4)]
			if t.K == "array" {
				n = t.N
				if n == 0 {
					n = 2
				}
			}
			et := &goType{K: []string{"i16", "str", "f64", "f32", "i8", "i32", "i64"}[rng.Intn(7)]}
			out := make([]any, n)
			for i := range out {
				out[i] = map[string]any{"ty": et, "v": randGoValue(rng, et)}
			}
			return out
		}
		n := []int{0, 1, 2, 4}[rng.Intn(4)]
		if t.K == "array" {
			n = t.N
			if n == 0 {
				n = 2
			}
		}
		a := make([]any, n)
		for i := range a {
			a[i] = randGoValue(rng, t.E)
		}
		return a
	case "map":
		n := rng.Intn(3)
		a := []any{}
		keys := []string{"", "k", "other key", "é"}
		rng.Shuffle(len(keys), func(i, j int) { keys[i], keys[j] = keys[j], keys[i] })
		ks := keys[:n]
		sort.Strings(ks)
		for _, k := range ks {
			a = append(a, map[string]any{"k": toAbsBytes([]byte(k)), "v": randGoValue(rng, t.E)})
		}
		return a
	case "ptr":
		return randGoValue(rng, t.E)
	case "iface":
		return randIface(rng, 2)
	case "struct":
		a := make([]any, len(t.Fs))
		for i := range t.Fs {
			a[i] = randGoValue(rng, t.Fs[i].Ty)
			if t.Fs[i].Zero {
				a[i] = zeroGoValue(t.Fs[i].Ty)
			}
		}
		return a
	}
	if w, ok := goScalarWidth[t.K]; ok {
		p := randPat(rng, w)
		if t.K == "f32" || t.K == "f64" {
			// NaNs are compared by bit pattern by the property; Go canonicalises signalling NaNs on some
			// conversions (float32<->float64), so only quiet-NaN-free patterns are generated for f32
			if t.K == "f32" && p[0]&0x7f == 0x7f && p[1]&0x80 != 0 {
				p[0] = 0x40
			}
		}
		out := make([]any, len(p))
		for i := range p {
			out[i] = float64(p[i])
		}
		return out
	}
	return nil
}

// zeroGoValue: the abstract zero value of the scalar types used for fields that the name rule hides
func zeroGoValue(t *goType) any {
	if t.K == "str" {
		return toAbsBytes(nil)
	}
	if t.K == "bool" {
		return []any{float64(0)}
	}
	out := make([]any, goScalarWidth[t.K])
	for i := range out {
		out[i] = float64(0)
	}
	return out
}

// randConflictStruct: a struct in which several fields claim the NBT name "Id" through embedding - what encoding/json
// (and typeinfo.go after it) decides: the shallowest wins; at one depth a name from a tag beats a Go field name if it is
// the only tagged one; otherwise nobody is a member. The fields the generator expects to lose hold their zero value
// (only that can come back); who is a member is decided by NBTMap.tla's Dominant, not here.
func randConflictStruct(rng *rand.Rand) *goType {
	sc := func() *goType { return &goType{K: []string{"i32", "str", "i64"}[rng.Intn(3)]} }
	id := ints([]byte("Id"))
	seq := 0
	own := func() goField { // a field with a name of its own, so that no struct is empty
		seq++
		return goField{Name: ints([]byte(fmt.Sprintf("u%d", seq))), Ty: sc()}
	}
	emb := func(fs ...goField) goField {
		return goField{Name: []int{}, Ty: &goType{K: "struct", Fs: fs}, Emb: true}
	}
	tagged := func(zero bool) goField { return goField{Name: id, Ty: sc(), Zero: zero, NbtKey: rng.Intn(2) == 0} }
	untagged := func(zero bool) goField { return goField{Name: id, Ty: sc(), Ut: true, Zero: zero} }
	t := &goType{K: "struct"}
	switch rng.Intn(8) {
	case 0: // same depth, untagged then tagged: the tagged one is the member
		t.Fs = []goField{emb(untagged(true), own()), emb(tagged(false), own())}
	case 1: // same depth, tagged then untagged
		t.Fs = []goField{emb(tagged(false), own()), own(), emb(untagged(true))}
	case 2: // same depth, both names from Go fields: nobody
		t.Fs = []goField{emb(untagged(true), own()), emb(untagged(true), own())}
	case 3: // same depth, both names from tags: nobody
		t.Fs = []goField{emb(tagged(true), own()), emb(tagged(true))}
	case 4: // a field of the struct itself against an embedded one: the shallower wins whatever the tags say
		t.Fs = []goField{untagged(false), emb(tagged(true), own())}
	case 5:
		t.Fs = []goField{emb(untagged(true), own()), tagged(false)}
	case 6: // depth 2 against depth 1
		t.Fs = []goField{emb(emb(tagged(true), own()), own()), emb(untagged(false))}
	default: // three claimants at one depth, one of them tagged
		t.Fs = []goField{emb(untagged(true)), emb(tagged(false), own()), emb(untagged(true), own())}
	}
	return t
}

type nbtHeldBytes struct{ b, copy []byte }

// results of earlier nbt.Marshal calls, with a private copy taken when they were returned
var nbtHeld []nbtHeldBytes

// nbtEncodeReal runs the real encoder on a value built from (t, v).
type nbtEncRes struct {
	Bytes    []byte
	Err      error
	Panicked bool
	Msg      string
	Mutated  bool
	BackOk   bool
	BackSame bool
	BackName string
	BackErr  string
}

var normZero bool

func nbtEncodeReal(t *goType, v any, fmtName, name string, byPtr bool) (r nbtEncRes) {
	normZero = true
	defer func() { normZero = false }()
	fixArrayLens(t, v)
	var rt reflect.Type
	var holder reflect.Value
	if p, msg := catch(func() {
		rt = t.reflectType()
		holder = reflect.New(rt)
		t.setValue(holder.Elem(), v)
	}); p {
		r.Panicked, r.Msg = true, "harness: building the value failed: "+msg
		return
	}
	before := mustJSON(t.getValue(holder.Elem()))
	var buf bytes.Buffer
	viaMarshal := fmtName == "file" && name == "" // the convenience entry point encodes exactly this case
	r.Panicked, r.Msg = catch(func() {
		if viaMarshal {
			var b []byte
			if byPtr {
				b, r.Err = nbt.Marshal(holder.Interface())
			} else {
				b, r.Err = nbt.Marshal(holder.Elem().Interface())
			}
			// what Marshal returned earlier is the caller's: it is kept and looked at again after later calls
			for _, h := range nbtHeld {
				if !bytes.Equal(h.b, h.copy) {
					r.Err = fmt.Errorf("bytes returned by an earlier nbt.Marshal call changed after a later call (%d bytes)", len(h.b))
					nbtHeld = nil
					break
				}
			}
			if r.Err == nil {
				nbtHeld = append(nbtHeld, nbtHeldBytes{b, append([]byte{}, b...)})
				if len(nbtHeld) > 6 {
					nbtHeld = nbtHeld[1:]
				}
			}
			buf.Write(b)
			return
		}
		enc := nbt.NewEncoder(&buf)
		enc.NetworkFormat(fmtName == "network")
		if byPtr {
			r.Err = enc.Encode(holder.Interface(), name)
		} else {
			r.Err = enc.Encode(holder.Elem().Interface(), name)
		}
	})
	r.Bytes = buf.Bytes()
	if pp, _ := catch(func() { r.Mutated = mustJSON(t.getValue(holder.Elem())) != before }); pp {
		r.Mutated = true
	}
	if r.Panicked || r.Err != nil {
		return
	}
	back := reflect.New(rt)
	pp, msg := catch(func() {
		dec := nbt.NewDecoder(bytes.NewReader(r.Bytes))
		dec.NetworkFormat(fmtName == "network")
		n, err := dec.Decode(back.Interface())
		r.BackName = n
		if err != nil {
			r.BackErr = err.Error()
			return
		}
		r.BackOk = true
		after := mustJSON(t.getValue(back.Elem()))
		r.BackSame = after == before
		if !r.BackSame {
			r.BackErr = "values differ: before=" + before + " after=" + after
		}
	})
	if pp {
		r.BackErr = "panic: " + msg
	}
	return
}
