package main

import "time"

// X09, target 4: the sector allocator of Region.tla without crashes.
//
//	specs/Region_Ind.tla            IndInv (set-style types), Safety = NoOverlapMem /\ UsedExact /\ HeaderSync, self-tests
//	specs/ind/Region_IndProof.tla   TLAPS: arbitrary Chunks, any MaxSector (the unbounded result)
//	specs/ind/Region_Apa.tla        copy of Region.tla with constant-range intervals and annotations
//	specs/ind/Region_IndApa.tla     the same invariant with field-by-field types, Apalache entry points
//	specs/ind/Region_ApaEq.tla      TLC: the copy has the Init / Next of Region, both invariants hold
func x9RegionObligations() []x9Ob {
	common := []string{"--config=Region_IndApa.cfg", "--cinit=ConstInit"}
	a := func(name string, quick, reject bool, args ...string) x9Ob {
		ob := x9Apa("Region", name, "Region_IndApa.tla", quick, reject, append(append([]string{}, common...), args...)...)
		ob.Limit = 25 * time.Minute
		return ob
	}
	obs := []x9Ob{
		a("initiation Init => IndInv (Apalache)", true, false, "--init=Init", "--next=Next", "--inv=IndInv", "--length=0"),
		a("consecution IndInv /\\ NextBegin => IndInv' (the allocation; Apalache)", false, false, "--init=IndInit", "--next=NextBegin", "--inv=IndInv", "--length=1"),
		a("consecution IndInv /\\ NextPhys => IndInv' (the physical writes; Apalache)", false, false, "--init=IndInit", "--next=NextPhys", "--inv=IndInv", "--length=1"),
		a("consecution IndInv /\\ NextRest => IndInv' (WriteEnd, Reopen; Apalache)", false, false, "--init=IndInit", "--next=NextRest", "--inv=IndInv", "--length=1"),
		a("implication IndInv => Safety (Apalache)", true, false, "--init=IndInit", "--next=Next", "--inv=Safety", "--length=0"),
		a("self-test weakened invariant IndInvWeak (NoOverlapMem /\\ UsedExact alone) is not inductive (Apalache)", false, true, "--init=IndInitWeak", "--next=NextRest", "--inv=IndInvWeak", "--length=1"),
		a("self-test mutated action NextMutOnly (allocation without releasing the old run) breaks consecution (Apalache)", false, true, "--init=IndInit", "--next=NextMutOnly", "--inv=IndInv", "--length=1"),
	}
	tlc := func(name, file, cfg string, quick bool, workers int) x9Ob {
		return x9Ob{Module: "Region", Name: name, Tool: x9TLC, File: file, Args: []string{cfg}, Quick: quick, Slots: workers, Limit: 10 * time.Minute}
	}
	obs = append(obs,
		tlc("IndInv and Safety are invariants of Region_MC_nocrash's constants (TLC)", "Region_Ind", "Region_Ind_MC.cfg", true, 4),
		tlc("Region_Apa has the Init and Next of Region, the interval operators agree, both forms of IndInv hold (any-fit, fixed order) (TLC)", "Region_ApaEq", "Region_ApaEq_FALSE.cfg", false, 4),
		tlc("Region_Apa has the Init and Next of Region, the interval operators agree, both forms of IndInv hold (first-fit, any order) (TLC)", "Region_ApaEq", "Region_ApaEq_TRUE.cfg", false, 2),
		x9Ob{Module: "Region", Name: "initiation, consecution (one step per action), implication, Spec => []Safety for arbitrary chunks and sectors, no crashes (TLAPS)",
			Tool: x9Tlapm, File: "Region_IndProof.tla", Quick: true, Slots: 4, Limit: 15 * time.Minute})
	return obs
}
