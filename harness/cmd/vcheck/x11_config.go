package main

// X11: the real side of specs/BotConfig*.tla - bot.Client.joinConfiguration (overlay shim bot.VerifJoinConfiguration)
// running on an in-memory socket, the ConfigHandler (DefaultConfigHandler alone or inside a recording wrapper), the
// registries of registry.Registries, Client.Cookies and Client.CustomReportDetails.

import (
	"bytes"
	"errors"
	"fmt"
	"io"
	"net"
	"reflect"
	"runtime"
	"sort"
	"strings"
	"sync"
	"sync/atomic"
	"time"

	"github.com/Tnze/go-mc/bot"
	"github.com/Tnze/go-mc/chat"
	"github.com/Tnze/go-mc/data/packetid"
	"github.com/Tnze/go-mc/nbt"
	mcnet "github.com/Tnze/go-mc/net"
	pk "github.com/Tnze/go-mc/net/packet"
	"github.com/Tnze/go-mc/registry"
)

var bcChecks = map[int][2]string{
	1:  {"NoPanic", "joinConfiguration panicked on a packet outside the named classes"},
	2:  {"Fresh", "a new client / handler is not in the zero state"},
	3:  {"WellFormed", "the projection contains a value the harness never sent, or a serverbound packet that does not decode in the field order of protocol 767"},
	4:  {"Echo", "KeepAlive / Ping: not answered exactly once with the same id, or the state changed"},
	5:  {"Cookie", "CookieRequest / StoreCookie: the stored payload is not what the last StoreCookie of the key said / the answer differs"},
	6:  {"Finish", "FinishConfiguration: not acknowledged by exactly one packet / the call does not return nil / the stage goes on"},
	7:  {"Disconnect", "Disconnect: the stage does not end with a bot.DisconnectErr carrying the reason"},
	8:  {"Registry", "RegistryData: the registry named in the packet does not hold exactly the packet's entries (ids = positions), another registry changed, or an identifier the client does not keep is not an error naming it"},
	9:  {"Tags", "UpdateTags: the tags of a kept registry are not bound as its sections say, a section of a registry the client does not keep is not skipped, or an invalid id does not end the stage"},
	10: {"Handler", "UpdateEnabledFeatures / SelectKnownPacks: the ConfigHandler is not called once with the packet's list, or the answer is not exactly what the handler chose"},
	11: {"Details", "CustomReportDetails are not merged into Client.CustomReportDetails"},
	12: {"Dropped", "CustomPayload / ResetChat / ServerLinks / Transfer: the packet is answered, changes the state or ends the stage"},
	13: {"Calls", "joinConfiguration on waiting packets / server close / DefaultConfigHandler.PushResourcePack, PopResourcePack, PopAllResourcePack differ from the specification"},
	14: {"Env", "the harness's own steps (making Client.Cookies, refusing writes) are not reflected by the projection"},
	15: {"Late", "a packet written while joinConfiguration is not running was read, answered or changed the state"},
	16: {"PopIgnored", "ResourcePackPop is decoded and dropped: ConfigHandler.PopResourcePack / PopAllResourcePack are never called, the pack stays on the handler's stack"},
	17: {"PushNoStatus", "ResourcePackPush is handed to the handler but no ServerboundResourcePack status is sent (the handler has no connection to send one): a vanilla server waits for it before FinishConfiguration"},
	18: {"StoreCookieNilMap", "StoreCookie during configuration on a client made by bot.NewClient panics: Client.Cookies is never made (assignment to entry in nil map)"},
	19: {"EmptyCookie", "a cookie stored with an empty payload is answered as 'no such cookie' (the stored nil slice is taken for absence)"},
	20: {"UnknownPacketId", "a packet id outside the configuration table is skipped silently (no error naming the id)"},
	21: {"RegistryNoData", "RegistryData entries without data are skipped: later entries get ids smaller than their position in the packet (X02 ReadFromNoData, reached through the routing)"},
	22: {"AsCoded", "a step of a named class follows neither the intent nor the model of the code"},
	23: {"ErrorClass", "joinConfiguration returned an error that is not a bot.ConfigErr of a known kind (or it hung)"},
	24: {"QueueOrder", "the bytes left on the socket are not the tail of what the server wrote: joinConfiguration read past the packet that ended it, or skipped one"},
}

// ------------------------------------------------------------------ universes and tokens

var bcRegNames = map[int]string{
	1: "minecraft:chat_type", 2: "minecraft:damage_type", 3: "minecraft:dimension_type", 4: "minecraft:trim_material",
	5: "minecraft:trim_pattern", 6: "minecraft:worldgen/biome", 7: "minecraft:wolf_variant", 8: "minecraft:painting_variant",
	9: "minecraft:banner_pattern", 10: "minecraft:enchantment", 11: "minecraft:jukebox_song",
	// identifiers bot.Client does not keep
	12: "minecraft:block", 13: "minecraft:item", 14: "minecraft:damage_typ", 15: "minecraft:worldgen/biom", 16: "verif:custom",
}

const (
	bcKnownRegs   = 11
	bcKeyUniverse = 6 // entry keys minecraft:e1..e6
	bcTagUniverse = 4
	bcMaxRow      = 40
)

func bcRegName(r int) string {
	if n, ok := bcRegNames[r]; ok {
		return n
	}
	return fmt.Sprint("verif:reg", r)
}

func bcUUID(u int) (id pk.UUID) {
	for i := range id {
		id[i] = byte(0xA0 + i)
	}
	id[12], id[13], id[14], id[15] = byte(u>>24), byte(u>>16), byte(u>>8), byte(u)
	return
}
func bcUUIDTok(id pk.UUID) int {
	u := int(id[12])<<24 | int(id[13])<<16 | int(id[14])<<8 | int(id[15])
	if u > 0 && bcUUID(u) == id {
		return u
	}
	return -1
}

func bcPack(u, t int) bot.ResourcePack {
	// RpOf(u, t) of the specification
	p := bot.ResourcePack{ID: bcUUID(u), URL: bbStr("https://packs.example/u", 100+t), Hash: bbStr("h", 200+t), Forced: t%2 == 1}
	if t%3 != 0 {
		m := chat.Text(bbStr("p", 300+t))
		p.PromptMessage = &m
	}
	return p
}
func bcPackTok(p bot.ResourcePack) []int {
	prompt := 0
	if p.PromptMessage != nil {
		prompt = bbStrTok("p", p.PromptMessage.Text)
		if prompt == 0 {
			prompt = -1
		}
	}
	return []int{bcUUIDTok(pk.UUID(p.ID)), bbStrTok("https://packs.example/u", p.URL), bbStrTok("h", p.Hash), bbBoolInt(p.Forced), prompt}
}

func bcDataPack(q int) bot.DataPack {
	return bot.DataPack{Namespace: bbStr("ns", q), ID: bbStr("id", q), Version: bbStr("1.21.", q)}
}
func bcDataPackTok(d bot.DataPack) int {
	q := bbStrTok("ns", d.Namespace)
	if q > 0 && bcDataPack(q) == d {
		return q
	}
	return -1
}

// values of registry entries: every registry type carries the token in a field of its own
type bcRawVal struct {
	V int32 `nbt:"v"`
}
type bcDimVal struct {
	Height int32  `nbt:"height"`
	MinY   int32  `nbt:"min_y"`
	Extra  string `nbt:"verif_extra"` // a field registry.Dimension does not have (AllowUnknownFields)
}
type bcDecoVal struct {
	TranslationKey string   `nbt:"translation_key"`
	Parameters     []string `nbt:"parameters"`
}
type bcChatVal struct {
	Chat      bcDecoVal `nbt:"chat"`
	Narration bcDecoVal `nbt:"narration"`
}

func bcValueField(r, v int) pk.FieldEncoder {
	switch r {
	case 1:
		return pk.NBT(bcChatVal{Chat: bcDecoVal{bbStr("c", v), []string{"sender", "content"}}, Narration: bcDecoVal{bbStr("n", v), []string{"content"}}})
	case 2:
		return pk.NBT(registry.DamageType{MessageID: bbStr("m", v), Scaling: "never", Exhaustion: 0.5})
	case 3:
		return pk.NBT(bcDimVal{Height: int32(v), MinY: int32(-v), Extra: "x"})
	}
	return pk.NBT(bcRawVal{V: int32(v)})
}

func bcRawTok(m *nbt.RawMessage) int {
	var x bcRawVal
	if err := m.Unmarshal(&x); err != nil || x.V <= 0 {
		return -1
	}
	return int(x.V)
}

// bcRegView reads one registry through its exported API.
type bcRegView struct {
	val func(id int32) (tok int, ok bool)
	get func(key string) int32
	tag func(tag string) []int
}

func bcViewOf[E any](reg *registry.Registry[E], tok func(*E) int) bcRegView {
	return bcRegView{
		val: func(id int32) (int, bool) {
			e := reg.GetByID(id)
			if e == nil {
				return 0, false
			}
			return tok(e), true
		},
		get: func(key string) int32 {
			id, e := reg.Get(key)
			if e == nil {
				return -1
			}
			if e != reg.GetByID(id) {
				return -2
			}
			return id
		},
		tag: func(tag string) []int {
			l := reg.Tag(tag)
			if len(l) == 0 {
				return nil
			}
			ids := make([]int, len(l))
			for i, e := range l {
				ids[i] = -1
				for id := int32(0); id < bcMaxRow; id++ {
					g := reg.GetByID(id)
					if g == nil {
						break
					}
					if g == e {
						ids[i] = int(id)
						break
					}
				}
			}
			return ids
		},
	}
}

func bcViews(c *bot.Client) map[int]bcRegView {
	g := &c.Registries
	raw := func(reg *registry.Registry[nbt.RawMessage]) bcRegView { return bcViewOf(reg, bcRawTok) }
	pos := func(t int) int {
		if t == 0 {
			return -1
		}
		return t
	}
	return map[int]bcRegView{
		1: bcViewOf(&g.ChatType, func(e *registry.ChatType) int {
			t := bbStrTok("c", e.Chat.TranslationKey)
			if t <= 0 || e.Narration.TranslationKey != bbStr("n", t) || len(e.Chat.Parameters) != 2 || len(e.Narration.Parameters) != 1 {
				return -1
			}
			return t
		}),
		2: bcViewOf(&g.DamageType, func(e *registry.DamageType) int {
			if e.Scaling != "never" || e.Exhaustion != 0.5 {
				return -1
			}
			return pos(bbStrTok("m", e.MessageID))
		}),
		3: bcViewOf(&g.DimensionType, func(e *registry.Dimension) int {
			if e.Height <= 0 || e.MinY != -e.Height {
				return -1
			}
			return int(e.Height)
		}),
		4: raw(&g.TrimMaterial), 5: raw(&g.TrimPattern), 6: raw(&g.WorldGenBiome), 7: raw(&g.Wolfvariant), 8: raw(&g.PaintingVariant),
		9: raw(&g.BannerPattern), 10: raw(&g.Enchantment), 11: raw(&g.JukeboxSong),
	}
}

// ------------------------------------------------------------------ canonical forms of the abstract packet

// bcList: any slice (typed slices of scenario builders, []any of JSON / TLC values) as a list.
func bcList(v any) []any {
	if l := x4List(v); l != nil {
		return l
	}
	if rv := reflect.ValueOf(v); rv.IsValid() && rv.Kind() == reflect.Slice {
		out := make([]any, rv.Len())
		for i := range out {
			out[i] = rv.Index(i).Interface()
		}
		return out
	}
	return nil
}

func bcMsg(v any) [][]any { // entries <<key, has, val>>
	out := [][]any{}
	for _, e := range bcList(v) {
		l := bcList(e)
		if len(l) == 3 {
			out = append(out, []any{x4Num(l[0]), x4Bool(l[1]), x4Num(l[2])})
		}
	}
	return out
}
func bcTagMsg(v any) [][]any { // <<tag, ids>>
	out := [][]any{}
	for _, e := range bcList(v) {
		l := bcList(e)
		if len(l) == 2 {
			out = append(out, []any{x4Num(l[0]), x4IntList(l[1])})
		}
	}
	return out
}
func bcSecs(v any) [][]any { // sections <<registry, tag message>>
	out := [][]any{}
	for _, e := range bcList(v) {
		l := bcList(e)
		if len(l) == 2 {
			out = append(out, []any{x4Num(l[0]), bcTagMsg(l[1])})
		}
	}
	return out
}
func bcPairs(v any) [][]int {
	out := [][]int{}
	for _, e := range bcList(v) {
		if l := x4IntList(e); len(l) == 2 {
			out = append(out, l)
		}
	}
	return out
}

// bcPacketRec: the record P(...) of the specification for an op.
func bcPacketRec(op x4Op) map[string]any {
	return map[string]any{"k": x4Str(op["k"]), "n": x4Num(op["n"]), "key": x4Num(op["key"]), "pay": x4Num(op["pay"]), "u": x4Num(op["u"]), "t": x4Num(op["t"]),
		"r": x4Num(op["r"]), "m": bcMsg(op["m"]), "secs": bcSecs(op["secs"]), "l": x4IntList(op["l"]), "ld": bcPairs(op["ld"])}
}

var bcPacketKinds = map[string]bool{"cookiereq": true, "payload": true, "disconnect": true, "finish": true, "keepalive": true, "ping": true, "resetchat": true,
	"regdata": true, "rppop": true, "rppush": true, "cookiestore": true, "transfer": true, "features": true, "tags": true, "select": true, "details": true,
	"links": true, "unknown": true}

// bcFrame concretises a clientbound configuration packet (protocol 767 field order) as the bytes of one frame.
func bcFrame(rec map[string]any) []byte {
	n := x4Num(rec["n"])
	var p pk.Packet
	mk := func(id packetid.ClientboundPacketID, f ...pk.FieldEncoder) { p = pk.Marshal(id, f...) }
	var body bytes.Buffer
	w := func(f ...pk.FieldEncoder) {
		for _, x := range f {
			x.WriteTo(&body)
		}
	}
	switch x4Str(rec["k"]) {
	case "cookiereq":
		mk(packetid.ClientboundConfigCookieRequest, pk.Identifier(bbIdent("k", x4Num(rec["key"]))))
	case "cookiestore":
		mk(packetid.ClientboundConfigStoreCookie, pk.Identifier(bbIdent("k", x4Num(rec["key"]))), pk.ByteArray(bbPayload(x4Num(rec["pay"]))))
	case "payload":
		ch := "minecraft:brand"
		if n%2 == 1 {
			ch = bbIdent("ch", n)
		}
		mk(packetid.ClientboundConfigCustomPayload, pk.Identifier(ch), bbRawField(bbPayload(n+1)))
	case "disconnect":
		mk(packetid.ClientboundConfigDisconnect, chat.Text(bbStr("r", n)))
	case "finish":
		mk(packetid.ClientboundConfigFinishConfiguration)
	case "keepalive":
		mk(packetid.ClientboundConfigKeepAlive, pk.Long(x6Long(n)))
	case "ping":
		mk(packetid.ClientboundConfigPing, pk.Int(n))
	case "resetchat":
		mk(packetid.ClientboundConfigResetChat)
	case "regdata":
		r := x4Num(rec["r"])
		m := bcMsg(rec["m"])
		w(pk.Identifier(bcRegName(r)), pk.VarInt(len(m)))
		for _, e := range m {
			w(pk.Identifier(bbIdent("e", e[0].(int))), pk.Boolean(e[1].(bool)))
			if e[1].(bool) {
				w(bcValueField(r, e[2].(int)))
			}
		}
		mk(packetid.ClientboundConfigRegistryData, bbRawField(body.Bytes()))
	case "rppop":
		if u := x4Num(rec["u"]); u == 0 {
			mk(packetid.ClientboundConfigResourcePackPop, pk.Boolean(false))
		} else {
			mk(packetid.ClientboundConfigResourcePackPop, pk.Boolean(true), bcUUID(u))
		}
	case "rppush":
		rp := bcPack(x4Num(rec["u"]), x4Num(rec["t"]))
		w(pk.UUID(rp.ID), pk.String(rp.URL), pk.String(rp.Hash), pk.Boolean(rp.Forced), pk.Boolean(rp.PromptMessage != nil))
		if rp.PromptMessage != nil {
			w(*rp.PromptMessage)
		}
		mk(packetid.ClientboundConfigResourcePackPush, bbRawField(body.Bytes()))
	case "transfer":
		mk(packetid.ClientboundConfigTransfer, pk.String(bbStr("host", n+1)), pk.VarInt(25565+n))
	case "features":
		l := x4IntList(rec["l"])
		w(pk.VarInt(len(l)))
		for _, f := range l {
			w(pk.Identifier(bbIdent("f", f)))
		}
		mk(packetid.ClientboundConfigUpdateEnabledFeatures, bbRawField(body.Bytes()))
	case "tags":
		secs := bcSecs(rec["secs"])
		w(pk.VarInt(len(secs)))
		for _, sec := range secs {
			tm := sec[1].([][]any)
			w(pk.Identifier(bcRegName(sec[0].(int))), pk.VarInt(len(tm)))
			for _, tg := range tm {
				ids := tg[1].([]int)
				w(pk.Identifier(bbIdent("t", tg[0].(int))), pk.VarInt(len(ids)))
				for _, id := range ids {
					w(pk.VarInt(id))
				}
			}
		}
		mk(packetid.ClientboundConfigUpdateTags, bbRawField(body.Bytes()))
	case "select":
		l := x4IntList(rec["l"])
		w(pk.VarInt(len(l)))
		for _, q := range l {
			w(bcDataPack(q))
		}
		mk(packetid.ClientboundConfigSelectKnownPacks, bbRawField(body.Bytes()))
	case "details":
		ld := bcPairs(rec["ld"])
		w(pk.VarInt(len(ld)))
		for _, d := range ld {
			w(pk.String(bbStr("T", d[0])), pk.String(bbStr("D", d[1])))
		}
		mk(packetid.ClientboundConfigCustomReportDetails, bbRawField(body.Bytes()))
	case "links":
		mk(packetid.ClientboundConfigServerLinks, pk.VarInt(1), pk.Boolean(true), pk.VarInt(0), pk.String("https://bugs.example/"))
	case "unknown":
		p = pk.Marshal(packetid.ClientboundPacketID(n), pk.VarInt(n), pk.String("verif"))
	default:
		panic("bcFrame: unknown packet kind " + x4Str(rec["k"]))
	}
	var buf bytes.Buffer
	if err := p.Pack(&buf, -1); err != nil {
		panic(err)
	}
	return buf.Bytes()
}

// ------------------------------------------------------------------ the socket

var errBcWrite = errors.New("verif: the socket refuses writes")
var bcHangs atomic.Int64

// bcSock is the client's socket.  Reads block while nothing is waiting; a reader that finds nothing tells the harness
// (idle): the loop has handled everything written so far.
type bcSock struct {
	mu       sync.Mutex
	cond     *sync.Cond
	in       []byte
	consumed int
	out      []byte
	eof      bool
	wfail    bool
	idle     chan struct{}
}

func newBcSock() *bcSock {
	s := &bcSock{idle: make(chan struct{}, 1)}
	s.cond = sync.NewCond(&s.mu)
	return s
}
func (s *bcSock) Read(b []byte) (int, error) {
	s.mu.Lock()
	defer s.mu.Unlock()
	if len(b) == 0 {
		return 0, nil
	}
	for len(s.in) == 0 {
		if s.eof {
			return 0, io.EOF
		}
		select {
		case s.idle <- struct{}{}:
		default:
		}
		s.cond.Wait()
	}
	n := copy(b, s.in)
	s.in = s.in[n:]
	s.consumed += n
	return n, nil
}
func (s *bcSock) Write(b []byte) (int, error) {
	s.mu.Lock()
	defer s.mu.Unlock()
	if s.wfail {
		return 0, errBcWrite
	}
	s.out = append(s.out, b...)
	return len(b), nil
}
func (s *bcSock) feed(b []byte) {
	s.mu.Lock()
	select {
	case <-s.idle:
	default:
	}
	s.in = append(s.in, b...)
	s.cond.Broadcast()
	s.mu.Unlock()
}
func (s *bcSock) closeRead() {
	s.mu.Lock()
	select {
	case <-s.idle:
	default:
	}
	s.eof = true
	s.cond.Broadcast()
	s.mu.Unlock()
}
func (s *bcSock) Close() error                     { s.closeRead(); return nil }
func (s *bcSock) LocalAddr() net.Addr              { return &net.TCPAddr{} }
func (s *bcSock) RemoteAddr() net.Addr             { return &net.TCPAddr{} }
func (s *bcSock) SetDeadline(time.Time) error      { return nil }
func (s *bcSock) SetReadDeadline(time.Time) error  { return nil }
func (s *bcSock) SetWriteDeadline(time.Time) error { return nil }

// ------------------------------------------------------------------ the recording handler

type bcHandler struct {
	*bot.DefaultConfigHandler
	r     *bcReal
	known map[int]bool
}

func (h *bcHandler) ev(name string, args []int) {
	if args == nil {
		args = []int{}
	}
	h.r.evs = append(h.r.evs, []any{name, args})
}
func (h *bcHandler) EnableFeature(features []pk.Identifier) {
	l := []int{}
	for _, f := range features {
		l = append(l, bbIdentTok("f", string(f)))
	}
	h.ev("features", l)
	h.r.feats = l
	h.DefaultConfigHandler.EnableFeature(features)
}
func (h *bcHandler) PushResourcePack(res bot.ResourcePack) {
	h.ev("push", bcPackTok(res))
	h.DefaultConfigHandler.PushResourcePack(res)
}
func (h *bcHandler) PopResourcePack(id pk.UUID) {
	h.ev("pop", []int{bcUUIDTok(id)})
	h.DefaultConfigHandler.PopResourcePack(id)
}
func (h *bcHandler) PopAllResourcePack() {
	h.ev("popall", nil)
	h.DefaultConfigHandler.PopAllResourcePack()
}
func (h *bcHandler) SelectDataPacks(packs []bot.DataPack) []bot.DataPack {
	l := []int{}
	sel := []bot.DataPack{}
	for _, p := range packs {
		q := bcDataPackTok(p)
		l = append(l, q)
		if h.known[q] {
			sel = append(sel, p)
		}
	}
	h.ev("select", l)
	h.r.offered = l
	return sel
}

// ------------------------------------------------------------------ the real client

type bcDone struct {
	err    error
	pan    bool
	panmsg string
}

type bcSent struct {
	rec map[string]any
	n   int
}

type bcReal struct {
	c       *bot.Client
	def     *bot.DefaultConfigHandler
	rec     bool
	known   []int
	sock    *bcSock
	conn    *mcnet.Conn
	running bool
	done    chan bcDone
	sent    []bcSent
	evs     [][]any
	feats   []int
	offered []int
}

func (r *bcReal) reset() { r.make(false, nil) }

func (r *bcReal) make(rec bool, known []int) {
	if r.sock != nil {
		r.sock.closeRead() // a loop still waiting on the old socket ends
	}
	r.c = bot.NewClient()
	r.def = bot.NewDefaultConfigHandler()
	r.rec, r.known = rec, append([]int{}, known...)
	sort.Ints(r.known)
	if rec {
		h := &bcHandler{DefaultConfigHandler: r.def, r: r, known: map[int]bool{}}
		for _, q := range known {
			h.known[q] = true
		}
		r.c.ConfigHandler = h
	} else {
		r.c.ConfigHandler = r.def
	}
	r.sock = newBcSock()
	r.conn = mcnet.WrapConn(r.sock)
	r.running, r.done, r.sent, r.evs, r.feats, r.offered = false, nil, nil, nil, []int{}, []int{}
	sock := r.sock
	runtime.SetFinalizer(r, nil)
	runtime.SetFinalizer(r, func(*bcReal) { sock.closeRead() }) // a scenario may end with the loop still waiting
}

// consumedFrames: how many of the frames written so far the client has read completely (-1: it stopped inside a frame).
func (r *bcReal) consumedFrames() int {
	r.sock.mu.Lock()
	c := r.sock.consumed
	r.sock.mu.Unlock()
	k := 0
	for k < len(r.sent) && c >= r.sent[k].n {
		c -= r.sent[k].n
		k++
	}
	if c != 0 {
		return -1
	}
	return k
}

func (r *bcReal) start() {
	r.done = make(chan bcDone, 1)
	r.running = true
	c, conn, done := r.c, r.conn, r.done
	go func() {
		var d bcDone
		d.pan, d.panmsg = x6Catch(func() { d.err = bot.VerifJoinConfiguration(c, conn) })
		done <- d
	}()
}

// wait: until the loop has handled everything written (it waits for more) or has returned.
func (r *bcReal) wait() (d bcDone, returned, hang bool) {
	select {
	case <-r.sock.idle:
		return bcDone{}, false, false
	case d = <-r.done:
		r.running = false
		return d, true, false
	case <-time.After(20 * time.Second):
		bcHangs.Add(1)
		r.running = false
		r.sock.closeRead()
		return bcDone{}, false, true
	}
}

func (r *bcReal) lastKind() (string, int) {
	k := r.consumedFrames()
	if k <= 0 || k > len(r.sent) {
		return "", 0
	}
	return x4Str(r.sent[k-1].rec["k"]), x4Num(r.sent[k-1].rec["n"])
}

func (r *bcReal) retOf(d bcDone) []any {
	err := d.err
	if err == nil {
		return []any{"ok", 0}
	}
	var ce bot.ConfigErr
	if !errors.As(err, &ce) {
		return []any{"unwrapped", 0}
	}
	var de bot.DisconnectErr
	if errors.As(err, &de) {
		return []any{"disconnect", bbStrTok("r", chat.Message(de).Text)}
	}
	if errors.Is(err, errBcWrite) || errors.Is(err, io.EOF) {
		return []any{"io", 0}
	}
	msg := err.Error()
	if kind, id := r.lastKind(); kind == "unknown" {
		if strings.Contains(msg, fmt.Sprint(id)) || strings.Contains(strings.ToLower(msg), fmt.Sprintf("%x", id)) {
			return []any{"unknownid", id}
		}
		return []any{"unknownid", -1}
	}
	if strings.Contains(msg, "unknown registry") {
		best, bl := -1, 0
		for t, name := range bcRegNames { // the longest identifier the message names
			if strings.Contains(msg, name) && len(name) > bl {
				best, bl = t, len(name)
			}
		}
		return []any{"unknownreg", best}
	}
	if ce.Stage == "update tags" {
		return []any{"badtag", 0}
	}
	return []any{"other", 0}
}

// bcDecodeOut decodes a serverbound configuration packet in the field order of protocol 767 (independently of the code under test).
func bcDecodeOut(p pk.Packet) []any {
	rd := bytes.NewReader(p.Data)
	garbage := []any{"garbage", []int{int(p.ID)}}
	read := func(fields ...pk.FieldDecoder) bool {
		for _, f := range fields {
			if _, err := f.ReadFrom(rd); err != nil {
				return false
			}
		}
		return true
	}
	switch packetid.ServerboundPacketID(p.ID) {
	case packetid.ServerboundConfigCookieResponse:
		var key pk.Identifier
		var has pk.Boolean
		if !read(&key, &has) {
			return garbage
		}
		pay := -1
		if has {
			var b pk.ByteArray
			if !read(&b) {
				return garbage
			}
			pay = bbPayloadTok(b)
		}
		if rd.Len() != 0 {
			return garbage
		}
		return []any{"cookie", []int{bbIdentTok("k", string(key)), bbBoolInt(bool(has)), pay}}
	case packetid.ServerboundConfigFinishConfiguration:
		if rd.Len() != 0 {
			return garbage
		}
		return []any{"finish", []int{}}
	case packetid.ServerboundConfigKeepAlive:
		var id pk.Long
		if !read(&id) || rd.Len() != 0 {
			return garbage
		}
		return []any{"keepalive", []int{x6LongTok(int64(id))}}
	case packetid.ServerboundConfigPong:
		var id pk.Int
		if !read(&id) || rd.Len() != 0 {
			return garbage
		}
		return []any{"pong", []int{int(id)}}
	case packetid.ServerboundConfigResourcePack:
		var id pk.UUID
		var st pk.VarInt
		if !read(&id, &st) || rd.Len() != 0 || st < 0 || st > 7 {
			return garbage
		}
		return []any{"rpstatus", []int{bcUUIDTok(id)}} // which status is the user's business
	case packetid.ServerboundConfigSelectKnownPacks:
		var n pk.VarInt
		if !read(&n) || n < 0 || n > 1000 {
			return garbage
		}
		l := []int{}
		for i := 0; i < int(n); i++ {
			var a, b, c pk.String
			if !read(&a, &b, &c) {
				return garbage
			}
			l = append(l, bcDataPackTok(bot.DataPack{Namespace: string(a), ID: string(b), Version: string(c)}))
		}
		if rd.Len() != 0 {
			return garbage
		}
		return []any{"select", l}
	}
	return garbage
}

func bcCutOut(b []byte) [][]any {
	out := [][]any{}
	rd := bytes.NewReader(b)
	for rd.Len() > 0 {
		var p pk.Packet
		if err := p.UnPack(rd, -1); err != nil {
			out = append(out, []any{"garbage", []int{-1}})
			break
		}
		out = append(out, bcDecodeOut(p))
	}
	return out
}

func (r *bcReal) do(op x4Op) map[string]any {
	r.evs = nil
	r.sock.mu.Lock()
	outStart := len(r.sock.out)
	r.sock.mu.Unlock()
	before := r.consumedFrames()
	ret := []any{"none", 0}
	pan, panmsg := false, ""
	settle := func() {
		d, returned, hang := r.wait()
		switch {
		case hang:
			ret = []any{"hang", 0}
		case returned && d.pan:
			pan, panmsg = true, d.panmsg
		case returned:
			ret = r.retOf(d)
		}
	}
	k := x4Str(op["k"])
	switch {
	case k == "new":
		ph, _ := op["ph"].(map[string]any)
		r.make(x4Bool(ph["rec"]), x4IntList(ph["known"]))
		before = 0
		outStart = 0
	case bcPacketKinds[k]:
		if !r.sock.eof {
			rec := bcPacketRec(op)
			f := bcFrame(rec)
			r.sent = append(r.sent, bcSent{rec, len(f)})
			r.sock.feed(f)
			if r.running {
				settle()
			}
		}
	case k == "join":
		if !r.running {
			r.start()
			settle()
		}
	case k == "eof":
		if !r.sock.eof {
			r.sock.closeRead()
			if r.running {
				settle()
			}
		}
	case k == "hpush":
		r.def.PushResourcePack(bcPack(x4Num(op["u"]), x4Num(op["t"])))
	case k == "hpop":
		r.def.PopResourcePack(bcUUID(x4Num(op["u"])))
	case k == "hpopall":
		r.def.PopAllResourcePack()
	case k == "mkcookies":
		if r.c.Cookies == nil {
			r.c.Cookies = map[string][]byte{}
		}
	case k == "setwfail":
		r.sock.mu.Lock()
		r.sock.wfail = x4Num(op["n"]) == 1
		r.sock.mu.Unlock()
	default:
		panic("unknown op " + k)
	}
	r.sock.mu.Lock()
	written := append([]byte{}, r.sock.out[outStart:]...)
	r.sock.mu.Unlock()
	after := r.consumedFrames()
	nh := after - before
	if after < 0 || before < 0 {
		nh = -1
	}
	evs := r.evs
	if evs == nil {
		evs = [][]any{}
	}
	return map[string]any{"evs": evs, "out": bcCutOut(written), "ret": ret, "pan": pan, "panmsg": panmsg, "nh": nh}
}

func (r *bcReal) project() map[string]any {
	inq := []map[string]any{}
	if k := r.consumedFrames(); k < 0 {
		inq = append(inq, map[string]any{"k": "garbage"})
	} else {
		for _, s := range r.sent[k:] {
			inq = append(inq, s.rec)
		}
	}
	packs := [][]int{}
	for _, p := range bot.VerifResourcePacks(r.def) {
		packs = append(packs, bcPackTok(p))
	}
	cookies := [][]int{}
	for k, v := range r.c.Cookies {
		cookies = append(cookies, []int{bbIdentTok("k", k), bbPayloadTok(v)})
	}
	sort.Slice(cookies, func(i, j int) bool { return cookies[i][0] < cookies[j][0] })
	details := [][]int{}
	for k, v := range r.c.CustomReportDetails {
		details = append(details, []int{bbStrTok("T", k), bbStrTok("D", v)})
	}
	sort.Slice(details, func(i, j int) bool { return details[i][0] < details[j][0] })
	regs := [][]any{}
	views := bcViews(r.c)
	for reg := 1; reg <= bcKnownRegs; reg++ {
		v := views[reg]
		vals := []int{}
		for id := int32(0); id < bcMaxRow; id++ {
			t, ok := v.val(id)
			if !ok {
				break
			}
			vals = append(vals, t)
		}
		keys := [][]int{}
		for k := 1; k <= bcKeyUniverse; k++ {
			if id := v.get(bbIdent("e", k)); id != -1 {
				keys = append(keys, []int{k, int(id)})
			}
		}
		tags := [][]any{}
		for t := 1; t <= bcTagUniverse; t++ {
			if ids := v.tag(bbIdent("t", t)); ids != nil {
				tags = append(tags, []any{t, ids})
			}
		}
		if len(vals)+len(keys)+len(tags) > 0 {
			regs = append(regs, []any{reg, vals, keys, tags})
		}
	}
	r.sock.mu.Lock()
	wfail, eof := r.sock.wfail, r.sock.eof
	r.sock.mu.Unlock()
	return map[string]any{"run": r.running, "inq": inq, "packs": packs, "feats": append([]int{}, r.feats...), "offered": append([]int{}, r.offered...),
		"cookies": cookies, "cinit": r.c.Cookies != nil, "regs": regs, "details": details, "wfail": wfail, "eof": eof,
		"h": map[string]any{"rec": r.rec, "known": append([]int{}, r.known...)}}
}

// ------------------------------------------------------------------ component

func bcDefaults() x4Op {
	return x4Op{"k": "", "n": 0, "key": 0, "pay": 0, "u": 0, "t": 0, "r": 0, "m": [][]any{}, "secs": [][]any{}, "l": []int{}, "ld": [][]int{},
		"ph": map[string]any{"rec": false, "known": []int{}}}
}

// bcExpectRegs: the regs variable of a TLC state (a function over the kept registries, printed as a tuple when the domain is
// 1..n) as the rows the projection writes.
func bcExpectRegs(v any) [][]any {
	rows := [][]any{}
	add := func(r int, gv any) {
		g, _ := gv.(map[string]any)
		vals := x4IntList(g["vals"])
		keys := bcSortRows(x6Pairs(g["keys"]))
		tags := bcSortRows(x6Pairs(g["tags"]))
		if len(vals)+len(keys)+len(tags) > 0 {
			rows = append(rows, []any{r, vals, keys, tags})
		}
	}
	switch f := v.(type) {
	case bsTlaFn:
		for i := range f.K {
			add(x4Num(f.K[i]), f.V[i])
		}
	case []any:
		for i, e := range f {
			add(i+1, e)
		}
	}
	return bcSortRows(rows)
}

func bcSortRows(rows [][]any) [][]any {
	sort.Slice(rows, func(i, j int) bool { return x4Num(rows[i][0]) < x4Num(rows[j][0]) })
	return rows
}

func bcComp() *x4Comp {
	return &x4Comp{
		module: "BotConfig", checks: bcChecks, genCfg: "BotConfig_Gen.cfg",
		defaults: bcDefaults,
		results: func() map[string]any {
			return map[string]any{"evs": [][]any{}, "out": [][]any{}, "ret": []any{"none", 0}, "pan": false, "panmsg": "", "nh": 0}
		},
		mk: func() x4Real { r := &bcReal{}; r.reset(); return r },
		opOfAct: func(act map[string]any) (x4Op, error) {
			p := act["p"].(map[string]any)
			op := x4Op{}
			for k, v := range p {
				op[k] = x4Canon(v)
			}
			k := x4Str(op["k"])
			if bcPacketKinds[k] {
				rec := bcPacketRec(op)
				for f, v := range rec {
					op[f] = v
				}
				return op, nil
			}
			switch k {
			case "join", "eof", "hpush", "hpop", "hpopall", "mkcookies", "setwfail":
				return op, nil
			}
			return nil, fmt.Errorf("BotConfig: unknown packet kind %q", op["k"])
		},
		expect: func(st map[string]any) map[string]any {
			s := st["s"].(map[string]any)
			inq := []any{}
			for _, p := range x4List(s["inq"]) {
				op := x4Op{}
				for k, v := range p.(map[string]any) {
					op[k] = x4Canon(v)
				}
				inq = append(inq, bcPacketRec(op))
			}
			exp := map[string]any{"run": s["run"], "inq": inq, "packs": x4Canon(s["packs"]), "feats": x4Canon(s["feats"]), "offered": x4Canon(s["offered"]),
				"cookies": bcSortRows(x6Pairs(s["cookies"])), "cinit": s["cinit"], "regs": bcExpectRegs(s["regs"]), "details": bcSortRows(x6Pairs(s["details"])),
				"wfail": s["wfail"], "eof": s["eof"], "h": x4Canon(s["h"])}
			if act, ok := st["act"].(map[string]any); ok && x4Str(act["p"].(map[string]any)["k"]) != "new" {
				exp["evs"], exp["out"], exp["ret"], exp["pan"], exp["nh"] = x4Canon(act["evs"]), x4Canon(act["out"]), x4Canon(act["ret"]), act["pan"], act["nh"]
			}
			return exp
		},
		class: func(ev map[string]any) string {
			ret := ""
			if l, ok := ev["ret"].([]any); ok && len(l) > 0 {
				ret = x4Str(l[0])
			}
			nout := 0
			if l, ok := ev["out"].([][]any); ok {
				nout = len(l)
			}
			late := bcPacketKinds[x4Str(ev["k"])] && !x4Bool(ev["run"]) && ret == "none" && x4Num(ev["nh"]) == 0
			return fmt.Sprint(ev["k"], "/ret=", ret, "/pan=", ev["pan"], "/out=", nout, "/late=", late, "/wfail=", ev["wfail"], "/rec=", ev["h"].(map[string]any)["rec"])
		},
	}
}
