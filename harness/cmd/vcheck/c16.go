package main

// C16 RCON. Spec: specs/RCON.tla (frame Enc / independent DecFrame, Client / Server / adversarial peers over
// two FIFO byte channels); trace spec: specs/RCON_Trace.tla.
// Leg S:   TLC checks RCON_MC (round trip, self-delimitation, length bounds, login iff equal passwords,
//          commands verbatim in order, responses in order) and prints the codec vectors.
// Leg A:   codec vectors (WritePacket bytes vs Enc, ReadPacket on spec bytes, concatenations of 1..20 frames) and
//          every terminal behaviour of RCON_Gen replayed sequentially on a buffered in-memory duplex with the
//          real RCONConn on the real side(s); every result compared with what TLC computed. The same behaviours
//          run over TCP loopback through ListenRCON / DialRCON; those executions are judged by RCON_Trace.
// Leg B:   random sessions (ids over the int32 range, payloads 0..limit, 1..20 frames per stream, random
//          password pairs, raw peers) recorded as ndjson and validated by RCON_Trace.

import (
	"bytes"
	"encoding/binary"
	"encoding/json"
	"errors"
	"fmt"
	"io"
	"math/rand"
	"net"
	"os"
	"strings"
	"sync"
	"time"

	mcnet "github.com/Tnze/go-mc/net"
	"verif/harness/vk"
)

func init() { drivers["C16"] = driver{run: runC16, replay: replayC16} }

// ------------------------------------------------------------------ buffered in-memory duplex

type rconMemBuf struct {
	mu sync.Mutex
	b  []byte
}

var errRconEmpty = errors.New("memconn: no more data on the wire")

// rconMemEnd is one end of a buffered in-memory duplex connection. Writes never block; a Read on an empty
// buffer fails at once (scripts only read when the specification says a frame is there, so an empty
// buffer means the code under test wants more bytes than the peer sent).
type rconMemEnd struct {
	in, out  *rconMemBuf
	rng      *rand.Rand // non-nil: deliver random short chunks
	maxChunk int
}

func rconNewDuplex(chunkSeed int64, maxChunk int) (a, b *rconMemEnd, a2b, b2a *rconMemBuf) {
	a2b, b2a = &rconMemBuf{}, &rconMemBuf{}
	a = &rconMemEnd{in: b2a, out: a2b}
	b = &rconMemEnd{in: a2b, out: b2a}
	if chunkSeed != 0 {
		a.rng, b.rng = rand.New(rand.NewSource(chunkSeed)), rand.New(rand.NewSource(chunkSeed+1))
		a.maxChunk, b.maxChunk = maxChunk, maxChunk
	}
	return
}

func (e *rconMemEnd) Read(p []byte) (int, error) {
	e.in.mu.Lock()
	defer e.in.mu.Unlock()
	if len(p) == 0 {
		return 0, nil
	}
	if len(e.in.b) == 0 {
		return 0, errRconEmpty
	}
	n := len(p)
	if n > len(e.in.b) {
		n = len(e.in.b)
	}
	if e.rng != nil && n > 1 {
		m := e.maxChunk
		if m > n {
			m = n
		}
		n = 1 + e.rng.Intn(m)
	}
	copy(p, e.in.b[:n])
	e.in.b = e.in.b[n:]
	return n, nil
}

func (e *rconMemEnd) Write(p []byte) (int, error) {
	e.out.mu.Lock()
	e.out.b = append(e.out.b, p...)
	e.out.mu.Unlock()
	return len(p), nil
}

type rconAddr struct{}

func (rconAddr) Network() string { return "mem" }
func (rconAddr) String() string  { return "mem" }

func (e *rconMemEnd) Close() error                       { return nil }
func (e *rconMemEnd) LocalAddr() net.Addr                { return rconAddr{} }
func (e *rconMemEnd) RemoteAddr() net.Addr               { return rconAddr{} }
func (e *rconMemEnd) SetDeadline(t time.Time) error      { return nil }
func (e *rconMemEnd) SetReadDeadline(t time.Time) error  { return nil }
func (e *rconMemEnd) SetWriteDeadline(t time.Time) error { return nil }

func (b *rconMemBuf) snapshot() []byte {
	b.mu.Lock()
	defer b.mu.Unlock()
	return append([]byte{}, b.b...)
}
func (b *rconMemBuf) size() int { b.mu.Lock(); defer b.mu.Unlock(); return len(b.b) }
func (b *rconMemBuf) put(p []byte) {
	b.mu.Lock()
	b.b = append(b.b, p...)
	b.mu.Unlock()
}
func (b *rconMemBuf) clear() { b.mu.Lock(); b.b = nil; b.mu.Unlock() }

// take removes one length-prefixed frame (harness-side projection for raw peers; TLC re-derives it with DecFrame).
func (b *rconMemBuf) take() ([]byte, bool) {
	b.mu.Lock()
	defer b.mu.Unlock()
	if len(b.b) < 4 {
		return nil, false
	}
	l := int32(binary.LittleEndian.Uint32(b.b))
	if l < 0 || 4+int(l) > len(b.b) {
		return nil, false
	}
	f := append([]byte{}, b.b[:4+int(l)]...)
	b.b = b.b[4+int(l):]
	return f, true
}

// rconFrame is the harness's own frame builder, used only by raw peers (whatever it produces is just bytes
// that TLC decodes with DecFrame; it is never an oracle).
func rconFrame(id, ty int32, p []byte) []byte {
	out := make([]byte, 12, 14+len(p))
	binary.LittleEndian.PutUint32(out[0:], uint32(int32(10+len(p))))
	binary.LittleEndian.PutUint32(out[4:], uint32(id))
	binary.LittleEndian.PutUint32(out[8:], uint32(ty))
	out = append(out, p...)
	return append(out, 0, 0)
}

// ------------------------------------------------------------------ scripts and observations

type rconStep struct {
	Op  string `json:"op"`
	Ty  int32  `json:"ty"`
	Idc string `json:"idc"`
	P   []int  `json:"p"`
	W   []int  `json:"w"`
	Ok  bool   `json:"ok"`
	ID  int32  `json:"id"`
	D   string `json:"d,omitempty"` // channel of wp / rp / inject / take / drain
}

type rconBeh struct {
	Kind  string     `json:"kind"`
	Mode  string     `json:"mode"`
	Cpw   []int      `json:"cpw"`
	Spw   []int      `json:"spw"`
	Reqid int32      `json:"reqid"`
	Hist  []rconStep `json:"hist"`
}

type rconObs struct {
	Done    bool
	Ok      bool // err == nil of the real call
	ID, Ty  int32
	P       []byte
	Wire    []byte
	HasWire bool
	Sreq    int32
	Verdict bool // cloginresp over DialRCON: the login verdict of the real code is in Ok
	Panic   string
	Note    string
	held    *string // the payload string the real call returned, looked at again when the session ends
}

// rconRunMem executes a script sequentially on the in-memory duplex.
func rconRunMem(s rconBeh, chunkSeed int64) []rconObs {
	cEnd, sEnd, c2s, s2c := rconNewDuplex(chunkSeed, 3)
	client := &mcnet.RCONConn{Conn: cEnd, ReqID: s.Reqid}
	server := &mcnet.RCONConn{Conn: sEnd}
	obs := make([]rconObs, len(s.Hist))
	buf := func(d string) *rconMemBuf {
		if d == "c2s" {
			return c2s
		}
		return s2c
	}
	for i := range s.Hist {
		st := s.Hist[i]
		o := &obs[i]
		wrote := func(b *rconMemBuf, f func() error) {
			before := b.size()
			err := f()
			o.Ok = err == nil
			all := b.snapshot()
			if before <= len(all) {
				o.Wire, o.HasWire = all[before:], true
			}
		}
		p, msg := catch(func() {
			switch st.Op {
			case "clogin":
				wrote(c2s, func() error { return client.WritePacket(client.ReqID, 3, string(bytesOf(s.Cpw))) })
				o.ID = client.ReqID
			case "cloginresp":
				r, t, pl, err := client.ReadPacket()
				o.Ok, o.ID, o.Ty, o.P, o.held = err == nil, r, t, []byte(pl), &pl
			case "ccmd":
				wrote(c2s, func() error { return client.Cmd(string(bytesOf(st.P))) })
			case "cresp":
				resp, err := client.Resp()
				o.Ok, o.P, o.held = err == nil, []byte(resp), &resp
			case "slogin":
				wrote(s2c, func() error { return server.AcceptLogin(string(bytesOf(s.Spw))) })
				o.Sreq = server.ReqID
			case "scmd":
				cmd, err := server.AcceptCmd()
				o.Ok, o.P, o.Sreq, o.held = err == nil, []byte(cmd), server.ReqID, &cmd
			case "sresp":
				wrote(s2c, func() error { return server.RespCmd(string(bytesOf(st.P))) })
			case "aserve":
				f, ok := c2s.take()
				o.Ok, o.Wire = ok, f
				s2c.put(bytesOf(st.W))
			case "acsend":
				c2s.put(bytesOf(st.W))
				o.Ok = true
			case "acread":
				_, o.Ok = s2c.take()
			case "wp":
				w := client
				if st.D == "s2c" {
					w = server
				}
				wrote(buf(st.D), func() error { return w.WritePacket(st.ID, st.Ty, string(bytesOf(st.P))) })
			case "rp":
				r := server
				if st.D == "s2c" {
					r = client
				}
				id, t, pl, err := r.ReadPacket()
				o.Ok, o.ID, o.Ty, o.P, o.held = err == nil, id, t, []byte(pl), &pl
				if err != nil {
					buf(st.D).clear() // the stream is abandoned after a refusal
				}
			case "inject":
				buf(st.D).put(bytesOf(st.W))
				o.Ok = true
			case "take":
				_, o.Ok = buf(st.D).take()
			case "drain":
				buf(st.D).clear()
				o.Ok = true
			default:
				o.Note = "unknown op"
			}
		})
		o.Done = true
		if p {
			o.Panic = msg
			break
		}
	}
	// a payload is judged as it reads when the session is over: what a call returned must not change under later calls
	for i := range obs {
		if obs[i].held != nil {
			obs[i].P = []byte(*obs[i].held)
		}
	}
	return obs
}

// ------------------------------------------------------------------ TCP loopback execution

func rconReadRawFrame(c net.Conn) ([]byte, error) {
	var h [4]byte
	if _, err := io.ReadFull(c, h[:]); err != nil {
		return nil, err
	}
	l := int32(binary.LittleEndian.Uint32(h[:]))
	if l < 0 || l > 1<<20 {
		return h[:], errors.New("raw peer: implausible length")
	}
	body := make([]byte, l)
	if _, err := io.ReadFull(c, body); err != nil {
		return nil, err
	}
	return append(h[:], body...), nil
}

const rconTCPWait = 2 * time.Second

// rconRunTCP executes a TLC behaviour over TCP loopback: the real sides use ListenRCON/Accept and DialRCON.
// Each side performs its own steps in behaviour order; the observations are returned in behaviour order.
func rconRunTCP(s rconBeh) (obs []rconObs, reqid int32, err error) {
	obs = make([]rconObs, len(s.Hist))
	reqid = s.Reqid
	clientOps := map[string]bool{"clogin": true, "cloginresp": true, "ccmd": true, "cresp": true, "acsend": true, "acread": true}
	var cIdx, sIdx []int
	for i, st := range s.Hist {
		if clientOps[st.Op] {
			cIdx = append(cIdx, i)
		} else {
			sIdx = append(sIdx, i)
		}
	}
	var ln net.Listener
	var rl *mcnet.RCONListener
	if s.Mode == "advs" {
		ln, err = net.Listen("tcp", "127.0.0.1:0")
	} else {
		rl, err = mcnet.ListenRCON("127.0.0.1:0")
		if err == nil {
			ln = rl.Listener
		}
	}
	if err != nil {
		return nil, 0, err
	}
	defer ln.Close()
	if tl, ok := ln.(*net.TCPListener); ok {
		tl.SetDeadline(time.Now().Add(rconTCPWait))
	}
	addr := ln.Addr().String()
	var wg sync.WaitGroup
	var infra error
	var imu sync.Mutex
	setInfra := func(e error) { imu.Lock(); infra = e; imu.Unlock() }
	clientDone := make(chan struct{})
	var clientWires [][]byte // frames a raw server took off the wire, in order
	// ---- server side
	wg.Add(1)
	go func() {
		defer wg.Done()
		defer guard("c16")
		if s.Mode == "advs" {
			c, e := ln.Accept()
			if e != nil {
				setInfra(fmt.Errorf("raw accept: %v", e))
				return
			}
			defer c.Close()
			c.SetDeadline(time.Now().Add(rconTCPWait))
			id := s.Reqid
			first := true
			for _, i := range sIdx {
				st, o := s.Hist[i], &obs[i]
				f, e := rconReadRawFrame(c)
				o.Done = true
				if e != nil {
					o.Note = "raw server could not read a frame: " + e.Error()
					return
				}
				clientWires = append(clientWires, f)
				if first && len(f) >= 8 {
					id = int32(binary.LittleEndian.Uint32(f[4:8]))
					first = false
				}
				rid := int32(-1)
				switch st.Idc {
				case "same":
					rid = id
				case "plus1":
					rid = id + 1
				}
				o.Wire = rconFrame(rid, st.Ty, bytesOf(st.P))
				o.Ok = true
				if _, e := c.Write(o.Wire); e != nil {
					o.Note = "raw server write: " + e.Error()
					return
				}
			}
			select { // keep the connection open until the client is done
			case <-clientDone:
			case <-time.After(rconTCPWait):
			}
			return
		}
		conn, e := rl.Accept()
		if e != nil {
			setInfra(fmt.Errorf("accept: %v", e))
			return
		}
		sc, ok := conn.(*mcnet.RCONConn)
		if !ok {
			setInfra(errors.New("Accept did not return *RCONConn"))
			return
		}
		defer sc.Close()
		sc.SetDeadline(time.Now().Add(rconTCPWait))
		for _, i := range sIdx {
			st, o := s.Hist[i], &obs[i]
			p, msg := catch(func() {
				switch st.Op {
				case "slogin":
					o.Ok = sc.AcceptLogin(string(bytesOf(s.Spw))) == nil
					o.Sreq = sc.ReqID
				case "scmd":
					cmd, e := sc.AcceptCmd()
					o.Ok, o.P, o.Sreq = e == nil, []byte(cmd), sc.ReqID
				case "sresp":
					o.Ok = sc.RespCmd(string(bytesOf(st.P))) == nil
				}
			})
			o.Done = true
			if p {
				o.Panic = msg
				return
			}
		}
		// wait for the client to finish reading before closing
		buf := make([]byte, 1)
		sc.Conn.Read(buf)
	}()
	// ---- client side
	wg.Add(1)
	go func() {
		defer wg.Done()
		defer close(clientDone)
		defer guard("c16")
		if s.Mode == "advc" {
			c, e := net.Dial("tcp", addr)
			if e != nil {
				setInfra(fmt.Errorf("raw dial: %v", e))
				return
			}
			defer c.Close()
			c.SetDeadline(time.Now().Add(rconTCPWait))
			for _, i := range cIdx {
				st, o := s.Hist[i], &obs[i]
				o.Done = true
				switch st.Op {
				case "acsend":
					_, e := c.Write(bytesOf(st.W))
					o.Ok = e == nil
				case "acread":
					f, e := rconReadRawFrame(c)
					o.Ok, o.Wire = e == nil, f
					if e != nil {
						o.Note = "raw client could not read a frame: " + e.Error()
						return
					}
				}
			}
			return
		}
		var cc *mcnet.RCONConn
		for _, i := range cIdx {
			st, o := s.Hist[i], &obs[i]
			p, msg := catch(func() {
				switch st.Op {
				case "clogin":
					// DialRCON performs clogin and cloginresp; the verdict is recorded at cloginresp
					cl, e := mcnet.DialRCON(addr, string(bytesOf(s.Cpw)))
					if c, ok := cl.(*mcnet.RCONConn); ok && c != nil && c.Conn != nil {
						cc = c
						reqid = c.ReqID
						cc.SetDeadline(time.Now().Add(rconTCPWait))
					} else {
						setInfra(fmt.Errorf("DialRCON: %v", e))
					}
					o.Ok = true
					o.ID = reqid
					for _, j := range cIdx {
						if s.Hist[j].Op == "cloginresp" {
							obs[j].Done, obs[j].Ok, obs[j].Verdict = true, e == nil, true
						}
					}
				case "cloginresp":
				case "ccmd":
					if cc != nil {
						o.Ok = cc.Cmd(string(bytesOf(st.P))) == nil
					}
				case "cresp":
					if cc != nil {
						resp, e := cc.Resp()
						o.Ok, o.P = e == nil, []byte(resp)
					}
				}
			})
			if st.Op != "cloginresp" {
				o.Done = true
			}
			if p {
				o.Panic = msg
				break
			}
			if cc == nil {
				break
			}
		}
		if cc != nil {
			cc.Close()
		}
	}()
	wg.Wait()
	if infra != nil {
		return obs, reqid, infra
	}
	// attach the frames a raw server saw to the client writes that produced them (FIFO)
	if s.Mode == "advs" {
		k := 0
		for i, st := range s.Hist {
			if (st.Op == "clogin" || st.Op == "ccmd") && k < len(clientWires) {
				obs[i].Wire, obs[i].HasWire = clientWires[k], true
				k++
			}
		}
	}
	return obs, reqid, nil
}

// ------------------------------------------------------------------ trace emission

func rconEmit(tr *vk.Trace, scn int, s rconBeh, obs []rconObs, reqid int32, transport string) {
	tr.Add(map[string]any{"k": "reset", "mode": s.Mode, "cpw": ints(bytesOf(s.Cpw)), "spw": ints(bytesOf(s.Spw)), "reqid": reqid, "scn": scn, "transport": transport})
	for i, st := range s.Hist {
		o := obs[i]
		if !o.Done {
			break
		}
		wire := ints(o.Wire)
		switch st.Op {
		case "clogin":
			tr.Add(map[string]any{"k": "clogin", "reqid": o.ID, "hw": o.HasWire, "wire": wire, "ok": o.Ok})
		case "cloginresp":
			tr.Add(map[string]any{"k": "cloginresp", "hv": o.Verdict, "ok": o.Ok, "hr": !o.Verdict && o.Ok, "rid": o.ID, "rty": o.Ty, "rp": ints(o.P), "rok": o.Ok})
		case "ccmd":
			tr.Add(map[string]any{"k": "ccmd", "p": ints(bytesOf(st.P)), "hw": o.HasWire, "wire": wire, "ok": o.Ok})
		case "cresp":
			tr.Add(map[string]any{"k": "cresp", "ok": o.Ok, "p": ints(o.P)})
		case "slogin":
			tr.Add(map[string]any{"k": "slogin", "ok": o.Ok, "sreq": o.Sreq, "hw": o.HasWire, "wire": wire})
		case "scmd":
			tr.Add(map[string]any{"k": "scmd", "ok": o.Ok, "p": ints(o.P), "sreq": o.Sreq})
		case "sresp":
			tr.Add(map[string]any{"k": "sresp", "p": ints(bytesOf(st.P)), "hw": o.HasWire, "wire": wire, "ok": o.Ok})
		case "aserve":
			tr.Add(map[string]any{"k": "take", "d": "c2s", "ok": o.Ok})
			w := o.Wire
			if transport == "mem" {
				w = bytesOf(st.W)
			}
			tr.Add(map[string]any{"k": "inject", "d": "s2c", "bytes": ints(w)})
		case "acsend":
			tr.Add(map[string]any{"k": "inject", "d": "c2s", "bytes": ints(bytesOf(st.W))})
		case "acread":
			tr.Add(map[string]any{"k": "take", "d": "s2c", "ok": o.Ok})
		case "wp":
			tr.Add(map[string]any{"k": "wp", "d": st.D, "id": st.ID, "ty": st.Ty, "p": ints(bytesOf(st.P)), "wire": wire, "ok": o.Ok})
		case "rp":
			tr.Add(map[string]any{"k": "rp", "d": st.D, "ok": o.Ok, "id": o.ID, "ty": o.Ty, "p": ints(o.P)})
		case "inject":
			tr.Add(map[string]any{"k": "inject", "d": st.D, "bytes": ints(bytesOf(st.W))})
		case "take":
			tr.Add(map[string]any{"k": "take", "d": st.D, "ok": o.Ok})
		case "drain":
			tr.Add(map[string]any{"k": "drain", "d": st.D})
		}
		if o.Panic != "" {
			tr.Add(map[string]any{"k": "panic", "at": st.Op, "msg": o.Panic})
			break
		}
	}
}

// ------------------------------------------------------------------ leg A: direct comparison with TLC's values

func rconCompareMem(env *vk.Env, s rconBeh, obs []rconObs, chunk int64) {
	rep := map[string]any{"kind": "beh", "transport": "mem", "chunk": chunk, "beh": s}
	bad := func(op, what, detail string) {
		env.Report(fmt.Sprintf("RCON %s %s: %s not as specified", s.Mode, op, what), detail, rep)
	}
	for i, st := range s.Hist {
		o := obs[i]
		ctx := fmt.Sprintf("step %d/%d op=%s cpw=%v spw=%v reqid=%d", i+1, len(s.Hist), st.Op, s.Cpw, s.Spw, s.Reqid)
		if o.Panic != "" {
			bad(st.Op, "panic", ctx+" panic: "+o.Panic)
			return
		}
		if !o.Done {
			bad(st.Op, "step not performed", ctx)
			return
		}
		wantW, wantP := bytesOf(st.W), bytesOf(st.P)
		switch st.Op {
		case "clogin", "ccmd", "sresp":
			if !o.Ok || !bytes.Equal(o.Wire, wantW) {
				bad(st.Op, "wire bytes", fmt.Sprintf("%s ok=%v got=% x want=% x", ctx, o.Ok, o.Wire, wantW))
				return
			}
		case "cloginresp":
			if !o.Ok || o.ID != st.ID || o.Ty != st.Ty || !bytes.Equal(o.P, wantP) {
				bad(st.Op, "frame read", fmt.Sprintf("%s got ok=%v id=%d ty=%d p=% x want id=%d ty=%d p=% x", ctx, o.Ok, o.ID, o.Ty, o.P, st.ID, st.Ty, wantP))
				return
			}
		case "cresp":
			if o.Ok != st.Ok {
				bad(st.Op, "acceptance", fmt.Sprintf("%s frame id=%d ty=%d: code accepted=%v, specification=%v", ctx, st.ID, st.Ty, o.Ok, st.Ok))
				return
			}
			if st.Ok && !bytes.Equal(o.P, wantP) {
				bad(st.Op, "payload", fmt.Sprintf("%s got=% x want=% x", ctx, o.P, wantP))
				return
			}
		case "slogin":
			if o.Ok != st.Ok {
				bad(st.Op, "login verdict", fmt.Sprintf("%s frame ty=%d pw=%v: code ok=%v, specification=%v", ctx, st.Ty, st.P, o.Ok, st.Ok))
				return
			}
			if !bytes.Equal(o.Wire, wantW) {
				bad(st.Op, "wire bytes", fmt.Sprintf("%s got=% x want=% x", ctx, o.Wire, wantW))
				return
			}
			if st.Ty == 3 && o.Sreq != st.ID {
				bad(st.Op, "request id", fmt.Sprintf("%s ReqID=%d want=%d", ctx, o.Sreq, st.ID))
				return
			}
		case "scmd":
			if o.Ok != st.Ok {
				bad(st.Op, "acceptance", fmt.Sprintf("%s frame ty=%d: code ok=%v, specification=%v", ctx, st.Ty, o.Ok, st.Ok))
				return
			}
			if st.Ok && (!bytes.Equal(o.P, wantP) || o.Sreq != st.ID) {
				bad(st.Op, "command", fmt.Sprintf("%s got=% x ReqID=%d want=% x ReqID=%d", ctx, o.P, o.Sreq, wantP, st.ID))
				return
			}
		case "aserve", "acread":
			if !o.Ok {
				bad(st.Op, "frame expected on the wire", ctx)
				return
			}
		}
	}
}

type rconCodecVec struct {
	Kind  string `json:"kind"`
	ID    int32  `json:"id"`
	Ty    int32  `json:"ty"`
	P     []int  `json:"p"`
	Bytes []int  `json:"bytes"`
	St    string `json:"st"`
	Dp    []int  `json:"dp"`
	Did   int32  `json:"did"`
	Dty   int32  `json:"dty"`
	Nrest int    `json:"nrest"`
}

// rconCheckStream writes/reads a concatenation of codec vectors with the real code.
func rconCheckStream(env *vk.Env, vecs []rconCodecVec, chunk int64, kind string) {
	rep := map[string]any{"kind": kind, "chunk": chunk, "vecs": vecs}
	cEnd, sEnd, c2s, _ := rconNewDuplex(chunk, 5)
	w := &mcnet.RCONConn{Conn: cEnd}
	r := &mcnet.RCONConn{Conn: sEnd}
	p, msg := catch(func() {
		// writer: frame vectors through WritePacket, raw vectors straight onto the wire
		for _, v := range vecs {
			want := bytesOf(v.Bytes)
			if v.Kind == "frame" {
				before := c2s.size()
				err := w.WritePacket(v.ID, v.Ty, string(bytesOf(v.P)))
				got := c2s.snapshot()[before:]
				if err != nil || !bytes.Equal(got, want) {
					env.Report("RCON WritePacket: wire bytes differ from the specification's Enc", fmt.Sprintf("id=%d ty=%d len(p)=%d err=%v got=% x want=% x", v.ID, v.Ty, len(v.P), err, rconTrunc(got, 40), rconTrunc(want, 40)), rep)
					return
				}
			} else {
				c2s.put(want)
			}
		}
		// reader
		for i, v := range vecs {
			id, ty, pl, err := r.ReadPacket()
			cls := fmt.Sprintf("frame %d/%d kind=%s st=%s", i+1, len(vecs), v.Kind, v.St)
			if (err == nil) != (v.St == "ok") {
				env.Report(fmt.Sprintf("RCON ReadPacket: acceptance differs from DecFrame (spec st=%s)", v.St), fmt.Sprintf("%s first bytes=% x err=%v", cls, rconTrunc(bytesOf(v.Bytes), 16), err), rep)
				return
			}
			if err != nil {
				return // the stream is abandoned after a refusal (only the last vector may be refused)
			}
			if id != v.Did || ty != v.Dty || !bytes.Equal([]byte(pl), bytesOf(v.Dp)) {
				env.Report("RCON ReadPacket: decoded fields differ from DecFrame", fmt.Sprintf("%s got id=%d ty=%d p=% x want id=%d ty=%d p=% x", cls, id, ty, rconTrunc([]byte(pl), 40), v.Did, v.Dty, rconTrunc(bytesOf(v.Dp), 40)), rep)
				return
			}
			if i == len(vecs)-1 && c2s.size() != v.Nrest {
				env.Report("RCON ReadPacket: bytes left after the frame differ from DecFrame's rest", fmt.Sprintf("%s left=%d want=%d", cls, c2s.size(), v.Nrest), rep)
				return
			}
		}
	})
	if p {
		env.Report("RCON codec: panic", msg, rep)
	}
}

func rconTrunc(b []byte, n int) []byte {
	if len(b) > n {
		return b[:n]
	}
	return b
}

// ------------------------------------------------------------------ trace judging (TCP leg, leg B)

type rconRunner func(s rconBeh) ([]rconObs, int32, error)

func rconJudge(env *vk.Env, label, transport string, sessions []rconBeh, run rconRunner) {
	tr := &vk.Trace{}
	start := make([]int, len(sessions))
	slow := 0
	for i, s := range sessions {
		start[i] = tr.N + 1
		t0 := time.Now()
		obs, reqid, err := run(s)
		if err != nil {
			env.Infra("%s: session %d could not run: %v", label, i, err)
			return
		}
		rconEmit(tr, i, s, obs, reqid, transport)
		if time.Since(t0) > time.Second {
			// a side waited for its deadline: the trace will be rejected there; do not sit through thousands of timeouts
			if slow++; slow >= 2 {
				sessions, start = sessions[:i+1], start[:i+1]
				break
			}
		}
		for j, o := range obs {
			if o.Done {
				env.Distinct(fmt.Sprintf("%s/%s/%s/ok=%v", transport, s.Mode, s.Hist[j].Op, o.Ok))
			}
		}
	}
	v, err := env.ValidateTrace(vk.TLCRun{Name: label, Module: "RCON_Trace", Cfg: "RCON_Trace.cfg", Workers: 1, Timeout: 20 * time.Minute}, "trace.ndjson", tr.Bytes())
	if err != nil {
		env.Infra("%s: %v", label, err)
		return
	}
	env.Sub(map[string]any{"run": label, "sessions": len(sessions), "events": tr.N, "accepted": v.Accepted})
	if v.Accepted {
		env.AddTraces(int64(len(sessions)))
		env.AddEval(int64(tr.N))
		return
	}
	if v.HWM == 0 {
		env.Infra("%s: trace validation ended without verdict:\n%s", label, v.Res.Output)
		return
	}
	bi := 0
	for i := range sessions {
		if start[i] <= v.HWM {
			bi = i
		}
	}
	sig, detail, again := rconRejudge(env, sessions[bi], transport, run)
	rep := map[string]any{"kind": "session", "transport": transport, "session": sessions[bi]}
	if again {
		env.Report(sig, detail, rep)
	} else {
		env.Infra("%s: rejection at line %d did not reproduce when session %d was re-run alone", label, v.HWM, bi)
	}
}

func rconRejudge(env *vk.Env, s rconBeh, transport string, run rconRunner) (sig, detail string, rejected bool) {
	for attempt := 0; attempt < 2; attempt++ {
		obs, reqid, err := run(s)
		if err != nil {
			return "", "", false
		}
		tr := &vk.Trace{}
		rconEmit(tr, 0, s, obs, reqid, transport)
		v, err := env.ValidateTrace(vk.TLCRun{Name: "rejudge", Module: "RCON_Trace", Cfg: "RCON_Trace.cfg", Workers: 1, NoCount: true}, "trace.ndjson", tr.Bytes())
		if err != nil || v.Accepted || v.HWM == 0 {
			return "", "", false
		}
		lines := bytes.Split(bytes.TrimSpace(tr.Bytes()), []byte("\n"))
		if v.HWM > len(lines) {
			// all recorded events accepted but the session stopped early (a step was not performed)
			return fmt.Sprintf("RCON %s session (%s): a step enabled in the specification was not performed", transport, s.Mode), "trace shorter than behaviour", true
		}
		var ev struct {
			K  string `json:"k"`
			D  string `json:"d"`
			Ok bool   `json:"ok"`
		}
		json.Unmarshal(lines[v.HWM-1], &ev)
		sig = fmt.Sprintf("RCON %s session (%s): RCON_Trace rejects event %s", transport, s.Mode, ev.K)
		detail = fmt.Sprintf("line %d of the session's trace: %s", v.HWM, vkTrunc(string(lines[v.HWM-1]), 700))
		if transport == "mem" || attempt == 1 {
			return sig, detail, true
		}
	}
	return sig, detail, true
}

// ------------------------------------------------------------------ leg B generators

func rconRandBytes(rng *rand.Rand, n int) []int {
	out := make([]int, n)
	for i := range out {
		switch rng.Intn(6) {
		case 0:
			out[i] = 0
		case 1:
			out[i] = 0x80 + rng.Intn(0x80)
		case 2:
			out[i] = []int{0xff, 0xc3, 0x28, 0xe2, 0x0a, 0x22}[rng.Intn(6)]
		default:
			out[i] = 0x20 + rng.Intn(0x5f)
		}
	}
	return out
}

const rconMaxPayload = 4096 - 10

func rconRandPayloadLen(rng *rand.Rand) int {
	switch r := rng.Intn(100); {
	case r < 15:
		return 0
	case r < 30:
		return 1 + rng.Intn(3)
	case r < 70:
		return rng.Intn(48)
	case r < 80:
		return 254 + rng.Intn(4)
	case r < 88:
		return rng.Intn(rconMaxPayload + 1)
	case r < 94:
		return rconMaxPayload - 1
	default:
		return rconMaxPayload
	}
}

func rconRandID(rng *rand.Rand) int32 {
	switch rng.Intn(8) {
	case 0:
		return []int32{0, 1, -1, 255, 256, -256, 65535, 65536, 2147483647, -2147483648, 16909060}[rng.Intn(11)]
	case 1:
		return int32(rng.Intn(1000))
	case 2:
		return -int32(rng.Intn(1000)) - 1
	default:
		return int32(rng.Uint32())
	}
}

func rconRandTy(rng *rand.Rand, usual int32) int32 {
	switch r := rng.Intn(10); {
	case r < 5:
		return usual
	case r < 8:
		return []int32{0, 2, 3}[rng.Intn(3)]
	case r < 9:
		return []int32{-1, 1, 4, 256, 512, 768, 2147483647, -2147483648}[rng.Intn(8)]
	default:
		return int32(rng.Uint32())
	}
}

func rconVariant(rng *rand.Rand, pw []int) []int {
	c := append([]int{}, pw...)
	switch rng.Intn(7) {
	case 0: // proper prefix
		if len(c) > 0 {
			return c[:len(c)-1-rng.Intn(len(c))]
		}
		return []int{0}
	case 1: // extension
		return append(c, rconRandBytes(rng, 1)...)
	case 2: // extra NUL
		return append(c, 0)
	case 3: // case flip
		for i, x := range c {
			if (x >= 'a' && x <= 'z') || (x >= 'A' && x <= 'Z') {
				c[i] = x ^ 0x20
				return c
			}
		}
		return append(c, 'x')
	case 4: // empty
		if len(c) == 0 {
			return []int{'a'}
		}
		return []int{}
	case 5: // one byte changed
		if len(c) == 0 {
			return []int{0}
		}
		i := rng.Intn(len(c))
		c[i] = (c[i] + 1 + rng.Intn(255)) % 256
		return c
	default:
		return rconRandBytes(rng, 1+rng.Intn(8))
	}
}

func rconGenSession(seed int64, id int) rconBeh {
	rng := newRand(seed, fmt.Sprint("rcon-b", id))
	s := rconBeh{Kind: "session", Cpw: []int{}, Spw: []int{}}
	add := func(st rconStep) {
		if st.P == nil {
			st.P = []int{}
		}
		if st.W == nil {
			st.W = []int{}
		}
		s.Hist = append(s.Hist, st)
	}
	switch id % 4 {
	case 0: // framing: 1..20 frames in one stream, read back
		s.Mode = "codec"
		d := []string{"c2s", "s2c"}[rng.Intn(2)]
		n := 1 + rng.Intn(20)
		avail, big := 0, 0
		dead := false
		for k := 0; k < n && !dead; k++ {
			ln := rconRandPayloadLen(rng)
			if ln > 1000 {
				big++
				if big > 3 {
					ln = rng.Intn(64)
				}
			}
			switch r := rng.Intn(100); {
			case r < 70:
				add(rconStep{Op: "wp", D: d, ID: rconRandID(rng), Ty: rconRandTy(rng, []int32{0, 2, 3}[rng.Intn(3)]), P: rconRandBytes(rng, ln)})
				avail++
			case r < 88 || k < n-1:
				add(rconStep{Op: "inject", D: d, W: ints(rconFrame(rconRandID(rng), rconRandTy(rng, 0), bytesOf(rconRandBytes(rng, ln))))})
				avail++
			default: // malformed tail: declared length around the bounds, or a truncated frame
				decl := []int32{9, 10, 11, 4095, 4096, 4097, -1, 0, 8, 65536, -2147483648, 2147483647}[rng.Intn(12)]
				body := 0
				switch rng.Intn(3) {
				case 0:
					if decl > 0 && decl < 5000 {
						body = int(decl)
					}
				case 1:
					if decl > 1 && decl < 5000 {
						body = int(decl) - 1
					}
				default:
					body = rng.Intn(12)
				}
				raw := make([]byte, 4)
				binary.LittleEndian.PutUint32(raw, uint32(decl))
				raw = append(raw, bytesOf(rconRandBytes(rng, body))...)
				add(rconStep{Op: "inject", D: d, W: ints(raw)})
				avail++
				dead = true
			}
			for avail > 0 && rng.Intn(3) == 0 && !dead {
				add(rconStep{Op: "rp", D: d})
				avail--
			}
		}
		for ; avail > 0; avail-- {
			add(rconStep{Op: "rp", D: d})
		}
		if !dead && rng.Intn(2) == 0 {
			add(rconStep{Op: "rp", D: d}) // nothing left: must fail
		}
	case 1: // real client and real server
		s.Mode = "real"
		s.Cpw = rconRandBytes(rng, rng.Intn(13))
		if rng.Intn(2) == 0 {
			s.Spw = append([]int{}, s.Cpw...)
		} else {
			s.Spw = rconVariant(rng, s.Cpw)
		}
		for s.Reqid = rconRandID(rng); s.Reqid == -1; s.Reqid = rconRandID(rng) {
		}
		add(rconStep{Op: "clogin"})
		add(rconStep{Op: "slogin"})
		add(rconStep{Op: "cloginresp"})
		if eqInts(s.Cpw, s.Spw) {
			inC2S, inS2C, seen, big := 0, 0, 0, 0
			for k, n := 0, rng.Intn(14); k < n; k++ {
				switch r := rng.Intn(4); {
				case r == 0:
					ln := rconRandPayloadLen(rng)
					if ln > 1000 {
						if big++; big > 2 {
							ln = rng.Intn(50)
						}
					}
					add(rconStep{Op: "ccmd", P: rconRandBytes(rng, ln)})
					inC2S++
				case r == 1 && inC2S > 0:
					add(rconStep{Op: "scmd"})
					inC2S--
					seen++
				case r == 2 && seen > 0:
					ln := rconRandPayloadLen(rng)
					if ln > 1000 {
						if big++; big > 2 {
							ln = rng.Intn(50)
						}
					}
					add(rconStep{Op: "sresp", P: rconRandBytes(rng, ln)})
					inS2C++
				case r == 3 && inS2C > 0:
					add(rconStep{Op: "cresp"})
					inS2C--
				}
			}
			for ; inC2S > 0; inC2S-- {
				add(rconStep{Op: "scmd"})
			}
			for ; inS2C > 0; inS2C-- {
				add(rconStep{Op: "cresp"})
			}
		}
	case 2: // real client, raw server answering with any id / type
		s.Mode = "advs"
		s.Cpw = rconRandBytes(rng, rng.Intn(10))
		for s.Reqid = rconRandID(rng); s.Reqid == -1 || s.Reqid == 2147483647 || s.Reqid == -2147483648; s.Reqid = rconRandID(rng) {
		}
		advID := func(pSame int) int32 {
			if rng.Intn(100) < pSame {
				return s.Reqid
			}
			return []int32{s.Reqid + 1, s.Reqid - 1, -1, ^s.Reqid, s.Reqid ^ 0x100, s.Reqid ^ 0x1000000, rconRandID(rng)}[rng.Intn(7)]
		}
		add(rconStep{Op: "clogin"})
		add(rconStep{Op: "take", D: "c2s"})
		lid := advID(65)
		add(rconStep{Op: "inject", D: "s2c", W: ints(rconFrame(lid, rconRandTy(rng, 2), nil))})
		add(rconStep{Op: "cloginresp"})
		if lid == s.Reqid {
			for k, n := 0, rng.Intn(7); k < n; k++ {
				add(rconStep{Op: "ccmd", P: rconRandBytes(rng, rng.Intn(30))})
				add(rconStep{Op: "take", D: "c2s"})
				nf := 1 + rng.Intn(2)
				for j := 0; j < nf; j++ {
					add(rconStep{Op: "inject", D: "s2c", W: ints(rconFrame(advID(60), rconRandTy(rng, 0), bytesOf(rconRandBytes(rng, rng.Intn(40)))))})
				}
				for j := 0; j < nf; j++ {
					add(rconStep{Op: "cresp"})
				}
			}
		}
	default: // raw client sending any type / password, real server
		s.Mode = "advc"
		s.Spw = rconRandBytes(rng, rng.Intn(10))
		pw := append([]int{}, s.Spw...)
		if rng.Intn(100) < 35 {
			pw = rconVariant(rng, s.Spw)
		}
		lty := int32(3)
		if rng.Intn(100) < 25 {
			lty = rconRandTy(rng, 2)
		}
		lid := rconRandID(rng)
		if rng.Intn(4) == 0 {
			lid = -1 // the id the server uses to SAY "refused": a client may send it all the same, with a right or wrong password
		}
		add(rconStep{Op: "inject", D: "c2s", W: ints(rconFrame(lid, lty, bytesOf(pw)))})
		add(rconStep{Op: "slogin"})
		if lty == 3 {
			add(rconStep{Op: "take", D: "s2c"})
		}
		if lty == 3 && eqInts(pw, s.Spw) {
			seen := 0
			for k, n := 0, rng.Intn(8); k < n; k++ {
				ty := int32(2)
				if rng.Intn(100) < 30 {
					ty = rconRandTy(rng, 0)
				}
				add(rconStep{Op: "inject", D: "c2s", W: ints(rconFrame(rconRandID(rng), ty, bytesOf(rconRandBytes(rng, rng.Intn(40)))))})
				add(rconStep{Op: "scmd"})
				if ty == 2 {
					seen++
				}
				if seen > 0 && rng.Intn(3) > 0 {
					add(rconStep{Op: "sresp", P: rconRandBytes(rng, rng.Intn(40))})
					add(rconStep{Op: "take", D: "s2c"})
				}
			}
		}
	}
	return s
}

// ------------------------------------------------------------------ driver

func rconParseBehaviours(env *vk.Env, printed []string) (behs []rconBeh, codec []rconCodecVec, ok bool) {
	for _, p := range printed {
		var k struct {
			Kind string `json:"kind"`
		}
		if err := json.Unmarshal([]byte(p), &k); err != nil {
			env.Infra("bad vector %q: %v", vkTrunc(p, 200), err)
			return nil, nil, false
		}
		if k.Kind == "beh" {
			var b rconBeh
			if err := json.Unmarshal([]byte(p), &b); err != nil {
				env.Infra("bad behaviour %q: %v", vkTrunc(p, 200), err)
				return nil, nil, false
			}
			behs = append(behs, b)
		} else {
			var v rconCodecVec
			if err := json.Unmarshal([]byte(p), &v); err != nil {
				env.Infra("bad codec vector %q: %v", vkTrunc(p, 200), err)
				return nil, nil, false
			}
			codec = append(codec, v)
		}
	}
	return behs, codec, true
}

// rconLeg reports whether a leg is selected (VERIF_LEGS=codec,mem,tcp,b restricts a run while mutation testing;
// the default is every leg).
func rconLeg(name string) bool {
	sel := os.Getenv("VERIF_LEGS")
	if sel == "" {
		return true
	}
	for _, x := range strings.Split(sel, ",") {
		if x == name {
			return true
		}
	}
	return false
}

func runC16(env *vk.Env) {
	if os.Getenv("VERIF_LEGS") != "" {
		env.Note("restricted to legs %s", os.Getenv("VERIF_LEGS"))
	}
	env.Cov.Rule = "S: TLC explores RCON.tla exhaustively (real client/server, adversarial server answering with ids {ReqID, ReqID+1, -1} x types {0,2,3}, adversarial client sending types {0,2,3} x 5 passwords; 5x5 password pairs incl. prefix/case/empty/NUL) and the codec vectors (13 ids x 5 types x 10 payloads incl. the limit; 14 declared lengths x 9 body sizes). A: every codec vector and every terminal behaviour of the generator configuration is replayed on the real RCONConn over a buffered in-memory duplex (whole and 1..3-byte reads) and compared with TLC's values; the behaviours also run over TCP loopback via ListenRCON/DialRCON and are judged by RCON_Trace. B: seeded random sessions judged by RCON_Trace. Distinct/non-trivial = distinct (transport, mode, operation, outcome) classes observed."
	env.Assume = []string{
		"WritePacket with a payload above 4086 bytes is not generated (only the reader's rejection is specified)",
		"the login answer is judged by its request id alone (the type of the answer is not constrained); clients never use request id -1",
		"frames whose two terminator bytes are not zero are not fed to the reader (the property does not say whether they are accepted)",
		"after a refused frame the stream is abandoned (how many bytes the reader consumed is not specified)",
		"the in-memory leg performs the DialRCON flow with WritePacket/ReadPacket (DialRCON itself only dials TCP and is exercised by the loopback leg)",
	}
	mcCfg, genCfg := "RCON_MC.cfg", "RCON_Gen.cfg"
	if !env.Quick() {
		mcCfg, genCfg = "RCON_MC_thorough.cfg", "RCON_Gen_thorough.cfg"
	}
	sres := env.MustSpec(vk.TLCRun{Name: "S exhaustive + codec vectors", Module: "RCON", Cfg: mcCfg, Workers: 8, Timeout: 15 * time.Minute})
	if sres == nil {
		return
	}
	_, codec, ok := rconParseBehaviours(env, sres.Printed)
	if !ok {
		return
	}
	if len(codec) < 500 {
		env.Infra("only %d codec vectors from %s", len(codec), mcCfg)
		return
	}
	env.Cov.Exhaustive = true
	// ---- leg A: codec vectors
	var frames, raws []rconCodecVec
	for _, v := range codec {
		if v.Kind == "frame" {
			frames = append(frames, v)
		} else {
			raws = append(raws, v)
		}
		if !rconLeg("codec") {
			continue
		}
		for _, chunk := range []int64{0, env.Seed*1000 + 7} {
			rconCheckStream(env, []rconCodecVec{v}, chunk, "codec")
		}
		env.Distinct(fmt.Sprintf("codec/%s/%s", v.Kind, v.St))
	}
	env.AddEval(int64(2 * len(codec)))
	env.Sample(map[string]any{"codec_vector": map[string]any{"id": frames[0].ID, "ty": frames[0].Ty, "p": frames[0].P, "bytes": rconTrunc(bytesOf(frames[0].Bytes), 32)}})
	// concatenations of 1..20 frames (justified by the specification's CodecOK: DecFrame(Enc(f) \o rest) = f, rest)
	rng := newRand(env.Seed, "rcon-concat")
	nconcat := env.Pick(400, 6000)
	for i := 0; i < nconcat && rconLeg("codec"); i++ {
		n := 1 + rng.Intn(20)
		var vs []rconCodecVec
		big := 0
		for k := 0; k < n; k++ {
			v := frames[rng.Intn(len(frames))]
			if len(v.P) > 1000 {
				if big++; big > 2 {
					k--
					continue
				}
			}
			v.Nrest = 0
			vs = append(vs, v)
		}
		if rng.Intn(3) == 0 {
			vs = append(vs, raws[rng.Intn(len(raws))])
		}
		chunk := int64(0)
		if i%2 == 1 {
			chunk = env.Seed*100000 + int64(i)
		}
		rconCheckStream(env, vs, chunk, "concat")
	}
	env.AddEval(int64(nconcat))
	env.Sub(map[string]any{"run": "A codec", "vectors": len(codec), "concatenations": nconcat})
	if env.Mismatches() > 0 {
		return
	}
	// ---- leg A: behaviours
	gres := env.MustSpec(vk.TLCRun{Name: "A behaviour generator", Module: "RCON", Cfg: genCfg, Workers: 8, Timeout: 20 * time.Minute})
	if gres == nil {
		return
	}
	behs, _, ok := rconParseBehaviours(env, gres.Printed)
	if !ok {
		return
	}
	if len(behs) < 5000 {
		env.Infra("only %d behaviours from %s", len(behs), genCfg)
		return
	}
	for i, b := range behs {
		if !rconLeg("mem") {
			break
		}
		rconCompareMem(env, b, rconRunMem(b, 0), 0)
		chunk := env.Seed*1000003 + int64(i) + 1
		rconCompareMem(env, b, rconRunMem(b, chunk), chunk)
		for _, st := range b.Hist {
			env.Distinct(fmt.Sprintf("mem/%s/%s/ok=%v", b.Mode, st.Op, st.Ok))
		}
		if env.Mismatches() > 20 {
			break
		}
	}
	env.AddTraces(int64(2 * len(behs)))
	env.Sample(behs[len(behs)/2])
	env.Sub(map[string]any{"run": "A behaviours on the in-memory duplex", "behaviours": len(behs)})
	if env.Mismatches() > 0 {
		return
	}
	// ---- the same behaviours over TCP loopback (ListenRCON / Accept / DialRCON), judged by RCON_Trace
	ntcp := env.Pick(1200, 20000)
	prng := newRand(env.Seed, "rcon-tcp")
	perm := prng.Perm(len(behs))
	if ntcp > len(behs) {
		ntcp = len(behs)
	}
	var tcpSessions []rconBeh
	for _, i := range perm[:ntcp] {
		tcpSessions = append(tcpSessions, behs[i])
	}
	if rconLeg("tcp") {
		rconJudgeParallel(env, "A behaviours over TCP loopback", "tcp", tcpSessions, env.Pick(2, 6))
	}
	if env.Mismatches() > 0 {
		return
	}
	// ---- leg B
	nb := env.Pick(600, 24000)
	var bs []rconBeh
	for i := 0; i < nb; i++ {
		bs = append(bs, rconGenSession(env.Seed, i))
	}
	env.Sample(map[string]any{"random_session_mode": bs[1].Mode, "cpw": bs[1].Cpw, "spw": bs[1].Spw, "reqid": bs[1].Reqid, "steps": len(bs[1].Hist)})
	if rconLeg("b") {
		rconJudgeParallel(env, "B random sessions", "mem", bs, env.Pick(4, 8))
	}
}

func rconRunnerFor(transport string, seed int64) rconRunner {
	if transport == "tcp" {
		return rconRunTCP
	}
	return func(s rconBeh) ([]rconObs, int32, error) {
		chunk := int64(0)
		if len(s.Hist)%2 == 1 {
			chunk = seed*31 + int64(len(s.Hist)) + int64(len(s.Cpw))
		}
		return rconRunMem(s, chunk), s.Reqid, nil
	}
}

func rconJudgeParallel(env *vk.Env, label, transport string, sessions []rconBeh, parts int) {
	var wg sync.WaitGroup
	for p := 0; p < parts; p++ {
		wg.Add(1)
		go func(p int) {
			defer wg.Done()
			defer guard("c16")
			var mine []rconBeh
			for i := p; i < len(sessions); i += parts {
				mine = append(mine, sessions[i])
			}
			rconJudge(env, fmt.Sprintf("%s part %d", label, p), transport, mine, rconRunnerFor(transport, env.Seed))
		}(p)
	}
	wg.Wait()
}

func replayC16(env *vk.Env, b []byte) {
	var f struct {
		Replay struct {
			Kind      string         `json:"kind"`
			Transport string         `json:"transport"`
			Chunk     int64          `json:"chunk"`
			Beh       rconBeh        `json:"beh"`
			Session   rconBeh        `json:"session"`
			Vecs      []rconCodecVec `json:"vecs"`
		} `json:"replay"`
	}
	if err := json.Unmarshal(b, &f); err != nil {
		env.Infra("replay file: %v", err)
		return
	}
	r := f.Replay
	switch r.Kind {
	case "beh":
		rconCompareMem(env, r.Beh, rconRunMem(r.Beh, r.Chunk), r.Chunk)
	case "codec", "concat":
		rconCheckStream(env, r.Vecs, r.Chunk, r.Kind)
	case "session":
		sig, detail, rej := rconRejudge(env, r.Session, r.Transport, rconRunnerFor(r.Transport, env.Seed))
		if rej {
			env.Report(sig, detail, r)
		}
	default:
		env.Infra("unknown replay kind %q", r.Kind)
	}
	env.Cov.States, env.Cov.Transitions = 1, 1
	env.Sample(r.Kind)
}
