package main

// C05 VarInt / VarLong. Spec: specs/VarInt.tla (decoder step machine + encoder function).
// Leg S+A: TLC explores VarInt_MC / VarLong_MC and emits one JSON vector per state; every vector is
//          replayed into net/packet (WriteTo, WriteToBytes, Len, ReadFrom on two reader kinds; leg B also through a
//          partly consumed *bufio.Reader).
// Leg B:   random + boundary values and mutated byte strings through the real code, logged as ndjson,
//          judged by VarInt_Trace (which drives the spec's Feed action with the logged bytes).
// Sweep:   a Go mirror of Enc (validated by TLC inside the same trace) compared with the real code on
//          all 2^32 VarInt values (thorough) / a stride (quick) and all byte strings of length <= 3.

import (
	"bufio"
	"bytes"
	"encoding/json"
	"fmt"
	"io"
	"runtime"
	"sync"
	"sync/atomic"
	"time"

	pk "github.com/Tnze/go-mc/net/packet"
	"verif/harness/vk"
)

func init() { drivers["C05"] = driver{run: runC05, replay: replayC05} }

type viVec struct {
	W      int    `json:"w"`
	Mode   string `json:"mode"`
	Val    []int  `json:"val"`
	Fed    []int  `json:"fed"`
	Status string `json:"status"`
	N      int    `json:"n"`
}

// real-code adapters ---------------------------------------------------------

func viEncode(w int, u uint64) (wbytes []byte, wn int64, werr error, wtb []byte, wtbn int, ln int) {
	return viEncodeW(w, u, func(b *bytes.Buffer) io.Writer { return b })
}

// parkWriter is a writer that is slow to look at what it was handed (a pipe, a congested connection): it yields the
// processor before it copies p
type parkWriter struct{ b *bytes.Buffer }

func (p parkWriter) Write(q []byte) (int, error) {
	for i := 0; i < 3; i++ {
		runtime.Gosched()
	}
	return p.b.Write(q)
}

func viEncodeW(w int, u uint64, mk func(*bytes.Buffer) io.Writer) (wbytes []byte, wn int64, werr error, wtb []byte, wtbn int, ln int) {
	var bufb bytes.Buffer
	buf := mk(&bufb)
	tb := bytes.Repeat([]byte{0xAA}, 16) // the caller's buffer: what lies behind the returned count stays the caller's
	var exact func()
	if w == 2 {
		v := pk.VarInt(int32(uint32(u)))
		wn, werr = v.WriteTo(buf)
		wtbn = v.WriteToBytes(tb)
		ln = v.Len()
		exact = func() { v.WriteToBytes(make([]byte, ln)) }
	} else {
		v := pk.VarLong(int64(u))
		wn, werr = v.WriteTo(buf)
		wtbn = v.WriteToBytes(tb)
		ln = v.Len()
		exact = func() { v.WriteToBytes(make([]byte, ln)) }
	}
	if wtbn < 0 || wtbn > 16 {
		wtbn = 16
	}
	out := tb[:wtbn]
	for _, b := range tb[wtbn:] {
		if b != 0xAA { // bytes behind the encoding were written: they are reported as part of the output
			out = tb
			break
		}
	}
	if p, _ := catch(exact); p && ln >= 1 && ln <= 10 { // a buffer of exactly Len() bytes must be enough
		out = append([]byte{}, 0xEE)
	}
	return bufb.Bytes(), wn, werr, out, wtbn, ln
}

type viDecRes struct {
	ok       bool
	rn       int64
	rv       uint64
	consumed int
	left     int
}

func viDecode(w int, input []byte, plain bool) viDecRes {
	br := bytes.NewReader(input)
	var res viDecRes
	var pr *plainReader
	var err error
	if w == 2 {
		v := pk.VarInt(0x5A5A5A5A) // a used destination: nothing of the old value may survive a successful decode
		if len(input)%2 == 0 {
			v = 0
		}
		if plain {
			pr = &plainReader{r: br}
			res.rn, err = v.ReadFrom(pr)
		} else {
			res.rn, err = v.ReadFrom(br)
		}
		res.rv = uint64(uint32(v))
	} else {
		v := pk.VarLong(0x5A5A5A5A5A5A5A5A)
		if len(input)%2 == 0 {
			v = -1
		}
		if plain {
			pr = &plainReader{r: br}
			res.rn, err = v.ReadFrom(pr)
		} else {
			res.rn, err = v.ReadFrom(br)
		}
		res.rv = uint64(v)
	}
	res.ok = err == nil
	res.left = br.Len()
	res.consumed = len(input) - br.Len()
	return res
}

// viDecodeBuf: the same decode through a *bufio.Reader (16-byte buffer) from which k bytes were taken before, so that
// the value starts inside the buffered bytes and may end beyond them (a reader type with Peek / Discard / Buffered
// invites fast paths of its own).
func viDecodeBuf(w int, input []byte, k int) viDecRes {
	stream := append(bytes.Repeat([]byte{0x01}, k), input...)
	under := bytes.NewReader(stream)
	br := bufio.NewReaderSize(under, 16)
	io.ReadFull(br, make([]byte, k))
	var res viDecRes
	var err error
	if w == 2 {
		v := pk.VarInt(0x5A5A5A5A)
		res.rn, err = v.ReadFrom(br)
		res.rv = uint64(uint32(v))
	} else {
		v := pk.VarLong(0x5A5A5A5A5A5A5A5A)
		res.rn, err = v.ReadFrom(br)
		res.rv = uint64(v)
	}
	res.ok = err == nil
	res.left = under.Len() + br.Buffered()
	res.consumed = len(input) - res.left
	return res
}

// mirror of VarInt.tla Enc, transcribed from the TLA+ text: bits -> 7-bit groups -> drop zero top groups.
func viMirror(w int, u uint64) []byte {
	nbits := 16 * w
	ngroups := (nbits + 6) / 7
	groups := make([]int, ngroups)
	for k := 0; k < ngroups; k++ {
		g := 0
		for j := 0; j < 7; j++ {
			i := 7*k + j
			if i < nbits && (u>>uint(i))&1 == 1 {
				g += 1 << uint(j)
			}
		}
		groups[k] = g
	}
	m := 0
	for k := range groups {
		if groups[k] != 0 {
			m = k
		}
	}
	out := make([]byte, m+1)
	for k := 0; k <= m; k++ {
		out[k] = byte(groups[k])
		if k < m {
			out[k] |= 0x80
		}
	}
	return out
}

func viName(w int) string {
	if w == 2 {
		return "VarInt"
	}
	return "VarLong"
}

// leg A: one vector ------------------------------------------------------------

func checkViVector(env *vk.Env, v viVec) {
	name := viName(v.W)
	maxLen := 5
	if v.W == 4 {
		maxLen = 10
	}
	rep := map[string]any{"kind": "vector", "vec": v}
	switch {
	case v.Mode == "enc" && v.Status == "encoded":
		u := fromLimbs(v.Val)
		want := bytesOf(v.Fed)
		var wb, tb []byte
		var wn int64
		var werr error
		var tbn, ln int
		if p, msg := catch(func() { wb, wn, werr, tb, tbn, ln = viEncode(v.W, u) }); p {
			env.Report(name+".encode panic", msg, rep)
			return
		}
		if werr != nil || !bytes.Equal(wb, want) || int(wn) != len(want) {
			env.Report(name+".WriteTo bytes differ from spec Enc", fmt.Sprintf("val=%#x got=% x n=%d err=%v want=% x", u, wb, wn, werr, want), rep)
		}
		if !bytes.Equal(tb, want) || tbn != len(want) {
			env.Report(name+".WriteToBytes differs from spec Enc", fmt.Sprintf("val=%#x got=% x n=%d want=% x", u, tb, tbn, want), rep)
		}
		if ln != len(want) {
			env.Report(name+".Len differs from spec LenOf", fmt.Sprintf("val=%#x Len=%d want=%d", u, ln, len(want)), rep)
		}
		for _, plain := range []bool{false, true} {
			in := append(append([]byte{}, want...), 0xff, 0xff, 0x01)
			var r viDecRes
			if p, msg := catch(func() { r = viDecode(v.W, in, plain) }); p {
				env.Report(name+".ReadFrom panic", msg, rep)
				continue
			}
			if !r.ok || r.rv != u || int(r.rn) != len(want) || r.left != 3 {
				env.Report(name+".ReadFrom(Enc(v)) is not (v, len) with the tail untouched", fmt.Sprintf("val=%#x plain=%v got ok=%v v=%#x n=%d left=%d", u, plain, r.ok, r.rv, r.rn, r.left), rep)
			}
		}
		env.Distinct(fmt.Sprintf("enc/%d/len%d", v.W, len(want)))
	case v.Mode == "dec":
		fed := bytesOf(v.Fed)
		tails := [][]byte{{}, {0x01, 0x7f}, {0x80, 0x80, 0x01}}
		for _, plain := range []bool{false, true} {
			for ti, tail := range tails {
				if v.Status == "more" && ti > 0 {
					continue // more input would change the class
				}
				in := append(append([]byte{}, fed...), tail...)
				var r viDecRes
				if p, msg := catch(func() { r = viDecode(v.W, in, plain) }); p {
					env.Report(name+".ReadFrom panic", msg, rep)
					continue
				}
				cls := fmt.Sprintf("%s/%s", name, v.Status)
				switch v.Status {
				case "done":
					if !r.ok || r.rv != fromLimbs(v.Val) || int(r.rn) != len(fed) || r.left != len(tail) {
						env.Report(cls+" decode differs from spec", fmt.Sprintf("input=% x plain=%v got ok=%v v=%#x n=%d left=%d want v=%#x n=%d", in, plain, r.ok, r.rv, r.rn, r.left, fromLimbs(v.Val), len(fed)), rep)
					}
				case "more":
					if r.ok {
						env.Report(cls+" truncated input accepted", fmt.Sprintf("input=% x plain=%v", in, plain), rep)
					}
				case "toolong":
					if r.ok {
						env.Report(cls+" continuation run longer than the maximum accepted", fmt.Sprintf("input=% x plain=%v n=%d v=%#x", in, plain, r.rn, r.rv), rep)
					}
					if r.consumed > maxLen || int(r.rn) > maxLen {
						env.Report(cls+" decoder consumed more than the maximum", fmt.Sprintf("input=% x plain=%v consumed=%d n=%d", in, plain, r.consumed, r.rn), rep)
					}
				}
			}
		}
		env.Distinct(fmt.Sprintf("dec/%d/%s/len%d", v.W, v.Status, len(v.Fed)))
	}
}

// leg B --------------------------------------------------------------------------

type viEncEv struct {
	K      string `json:"k"`
	Val    []int  `json:"val"`
	Wbytes []int  `json:"wbytes"`
	Wn     int    `json:"wn"`
	Wtb    []int  `json:"wtb"`
	Wtbn   int    `json:"wtbn"`
	Len    int    `json:"len"`
	Mirror []int  `json:"mirror"`
	Err    bool   `json:"err"`
}
type viDecEv struct {
	K        string `json:"k"`
	Input    []int  `json:"input"`
	Ok       bool   `json:"ok"`
	Rn       int    `json:"rn"`
	Rv       []int  `json:"rv"`
	Left     int    `json:"left"`
	Consumed int    `json:"consumed"`
	Panicked bool   `json:"panicked"`
	Plain    bool   `json:"plain"`
	Buf      int    `json:"buf"` // > 0: read through a *bufio.Reader of 16 bytes of which Buf had been consumed before
}

func viLimbs(w int, u uint64) []int {
	if w == 2 {
		return limbs32(uint32(u))
	}
	return limbs64(u)
}

func viEncEvent(w int, u uint64) viEncEv {
	return viEncEventW(w, u, func(b *bytes.Buffer) io.Writer { return b })
}

func viEncEventW(w int, u uint64, mk func(*bytes.Buffer) io.Writer) viEncEv {
	ev := viEncEv{K: "enc", Val: viLimbs(w, u), Mirror: ints(viMirror(w, u))}
	p, _ := catch(func() {
		wb, wn, werr, tb, tbn, ln := viEncodeW(w, u, mk)
		ev.Wbytes, ev.Wn, ev.Wtb, ev.Wtbn, ev.Len, ev.Err = ints(wb), int(wn), ints(tb), tbn, ln, werr != nil
	})
	if p {
		ev.Err = true
	}
	if ev.Wbytes == nil {
		ev.Wbytes = []int{}
	}
	if ev.Wtb == nil {
		ev.Wtb = []int{}
	}
	return ev
}

func viDecEventBuf(w int, in []byte, k int) viDecEv {
	ev := viDecEv{K: "dec", Input: ints(in), Buf: k, Rv: viLimbs(w, 0)}
	p, _ := catch(func() {
		r := viDecodeBuf(w, in, k)
		ev.Ok, ev.Rn, ev.Rv, ev.Left, ev.Consumed = r.ok, int(r.rn), viLimbs(w, r.rv), r.left, r.consumed
	})
	ev.Panicked = p
	return ev
}

func viDecEvent(w int, in []byte, plain bool) viDecEv {
	ev := viDecEv{K: "dec", Input: ints(in), Plain: plain, Rv: viLimbs(w, 0)}
	p, _ := catch(func() {
		r := viDecode(w, in, plain)
		ev.Ok, ev.Rn, ev.Rv, ev.Left, ev.Consumed = r.ok, int(r.rn), viLimbs(w, r.rv), r.left, r.consumed
	})
	ev.Panicked = p
	return ev
}

func viTrace(env *vk.Env, w int, nvals int, salt string) *vk.Trace {
	rng := newRand(env.Seed, salt)
	tr := &vk.Trace{}
	nb := uint(16 * w)
	mask := uint64(1)<<nb - 1
	if w == 4 {
		mask = ^uint64(0)
	}
	randVal := func() uint64 {
		switch rng.Intn(4) {
		case 0: // random width
			return rng.Uint64() >> uint(rng.Intn(64)) & mask
		case 1: // around a power of two
			p := uint(rng.Intn(int(nb)))
			return (uint64(1)<<p + uint64(rng.Intn(5)) - 2) & mask
		case 2: // negative small
			return (^uint64(0) - uint64(rng.Intn(1<<uint(rng.Intn(30)+1)))) & mask
		default:
			return rng.Uint64() & mask
		}
	}
	for i := 0; i < nvals; i++ {
		u := randVal()
		tr.Add(viEncEvent(w, u))
		// decode side: the true encoding, mutated encodings and random strings
		enc := viMirror(w, u)
		var in []byte
		switch rng.Intn(5) {
		case 0:
			in = append(append([]byte{}, enc...), byte(rng.Intn(256)), byte(rng.Intn(256)))
		case 1: // non-minimal: pad with continuation + zero groups
			in = append([]byte{}, enc...)
			pad := rng.Intn(7)
			if pad > 0 {
				in[len(in)-1] |= 0x80
				for j := 0; j < pad-1; j++ {
					in = append(in, 0x80)
				}
				in = append(in, 0x00)
			}
			in = append(in, 0x05)
		case 2: // truncated
			in = append([]byte{}, enc[:rng.Intn(len(enc)+1)]...)
		case 3: // long continuation run
			n := 3 + rng.Intn(10)
			for j := 0; j < n; j++ {
				in = append(in, byte(0x80|rng.Intn(128)))
			}
			in = append(in, byte(rng.Intn(128)), 0x33)
		default:
			n := rng.Intn(13)
			for j := 0; j < n; j++ {
				in = append(in, byte(rng.Intn(256)))
			}
		}
		tr.Add(viDecEvent(w, in, rng.Intn(2) == 0))
		if rng.Intn(3) == 0 {
			tr.Add(viDecEventBuf(w, in, 7+rng.Intn(9))) // 7..15 of the 16 buffered bytes are gone: the value straddles the refill
		}
	}
	return tr
}

func viJudgeTrace(env *vk.Env, w int, tr *vk.Trace, label string) {
	cfg := "VarInt_Trace.cfg"
	if w == 4 {
		cfg = "VarLong_Trace.cfg"
	}
	v, err := env.ValidateTrace(vk.TLCRun{Name: label, Module: "VarInt_Trace", Cfg: cfg, Workers: 4, Timeout: 20 * time.Minute}, "trace.ndjson", tr.Bytes())
	if err != nil {
		env.Infra("trace validation %s: %v", label, err)
		return
	}
	if v.Accepted {
		env.AddTraces(int64(tr.N))
		return
	}
	if v.Res.Violated == "" {
		env.Infra("trace validation %s did not finish cleanly:\n%s", label, v.Res.Output)
		return
	}
	// rejected: find the line, re-execute it against the real code, and report only if TLC rejects it again
	line := vk.FindVar(v.Res.Output, "l")
	lines := bytes.Split(bytes.TrimSpace(tr.Bytes()), []byte("\n"))
	if line < 1 || line > len(lines) {
		env.Infra("trace %s rejected (%s) but the line could not be identified:\n%s", label, v.Res.Violated, v.Res.Output)
		return
	}
	raw := lines[line-1]
	rep := map[string]any{"kind": "traceline", "w": w, "line": json.RawMessage(raw)}
	sig, detail, again := viRejudgeLine(env, w, raw)
	if again {
		env.Report(sig, fmt.Sprintf("%s violated by recorded call %s", v.Res.Violated, detail), rep)
	} else {
		env.Infra("trace %s: rejection of line %d did not reproduce: %s", label, line, raw)
	}
}

// viRejudgeLine re-executes the call recorded in a rejected line and asks TLC again.
func viRejudgeLine(env *vk.Env, w int, raw []byte) (sig, detail string, rejected bool) {
	var probe struct {
		K     string `json:"k"`
		Val   []int  `json:"val"`
		Input []int  `json:"input"`
		Plain bool   `json:"plain"`
		Buf   int    `json:"buf"`
	}
	json.Unmarshal(raw, &probe)
	tr := &vk.Trace{}
	name := viName(w)
	if probe.K == "enc" {
		ev := viEncEvent(w, fromLimbs(probe.Val))
		tr.Add(ev)
		sig = name + " encode rejected by VarInt_Trace (EncOK)"
		detail = mustJSON(ev)
	} else {
		ev := viDecEvent(w, bytesOf(probe.Input), probe.Plain)
		if probe.Buf > 0 {
			ev = viDecEventBuf(w, bytesOf(probe.Input), probe.Buf)
		}
		tr.Add(ev)
		cls := "ok"
		if !ev.Ok {
			cls = "err"
		}
		if ev.Panicked {
			cls = "panic"
		}
		if ev.Consumed > 5*w/2 {
			cls += "/overconsumed"
		}
		sig = fmt.Sprintf("%s decode rejected by VarInt_Trace (DecOK) result=%s inputlen=%s", name, cls, lenClass(len(probe.Input), 5*w/2))
		detail = mustJSON(ev)
	}
	cfg := "VarInt_Trace.cfg"
	if w == 4 {
		cfg = "VarLong_Trace.cfg"
	}
	v, err := env.ValidateTrace(vk.TLCRun{Name: "rejudge", Module: "VarInt_Trace", Cfg: cfg, Workers: 1, NoCount: true}, "trace.ndjson", tr.Bytes())
	if err != nil {
		return sig, detail, false
	}
	return sig, detail, !v.Accepted && v.Res.Violated != ""
}

// viConcurrent: the same calls made by 16 goroutines at once, each on its own writer / reader and its own values (the
// statement quantifies over every call; writers that are slow to consume what they are handed are ordinary writers).
func viConcurrent(env *vk.Env, w int, per int, salt string) *vk.Trace {
	const G = 16
	evs := make([][]any, G)
	var wg sync.WaitGroup
	for g := 0; g < G; g++ {
		wg.Add(1)
		go func(g int) {
			defer wg.Done()
			rng := newRand(env.Seed, fmt.Sprint("c05conc", salt, w, g))
			for i := 0; i < per; i++ {
				u := rng.Uint64() >> uint(rng.Intn(16*w))
				if w == 2 {
					u = uint64(uint32(u))
				}
				if i%2 == 0 {
					evs[g] = append(evs[g], viEncEventW(w, u, func(b *bytes.Buffer) io.Writer { return parkWriter{b} }))
				} else {
					evs[g] = append(evs[g], viEncEvent(w, u))
				}
				evs[g] = append(evs[g], viDecEvent(w, append(viMirror(w, u), byte(g), byte(i)), i%3 == 0))
			}
		}(g)
	}
	wg.Wait()
	tr := &vk.Trace{}
	for _, l := range evs {
		for _, e := range l {
			tr.Add(e)
		}
	}
	return tr
}

func viValidate(env *vk.Env, w int, tr *vk.Trace, label string) (rejected bool, raw []byte, inv string, ok bool) {
	cfg := "VarInt_Trace.cfg"
	if w == 4 {
		cfg = "VarLong_Trace.cfg"
	}
	v, err := env.ValidateTrace(vk.TLCRun{Name: label, Module: "VarInt_Trace", Cfg: cfg, Workers: 4, Timeout: 20 * time.Minute}, "trace.ndjson", tr.Bytes())
	if err != nil || (!v.Accepted && v.Res.Violated == "") {
		env.Infra("trace validation %s failed: %v", label, err)
		return false, nil, "", false
	}
	if v.Accepted {
		return false, nil, "", true
	}
	line := vk.FindVar(v.Res.Output, "l")
	lines := bytes.Split(bytes.TrimSpace(tr.Bytes()), []byte("\n"))
	if line >= 1 && line <= len(lines) {
		raw = lines[line-1]
	}
	return true, raw, v.Res.Violated, true
}

// viJudgeConcurrent: a rejection must show again in a fresh concurrent run (a schedule cannot be replayed exactly) before it
// is reported; one that never shows again is inconclusive (exit 2), not a violation.
func viJudgeConcurrent(env *vk.Env, w int, per int, tries int) {
	first := true
	for t := 0; t < tries; t++ {
		tr := viConcurrent(env, w, per, fmt.Sprint(t))
		rej, raw, inv, ok := viValidate(env, w, tr, fmt.Sprintf("B concurrent %s run %d", viName(w), t))
		if !ok {
			return
		}
		if !rej {
			if first {
				env.AddTraces(int64(tr.N))
				env.AddEval(int64(tr.N))
				return
			}
			continue
		}
		if !first {
			var probe struct {
				K string `json:"k"`
			}
			json.Unmarshal(raw, &probe)
			env.Report(fmt.Sprintf("%s %s under concurrent calls on independent writers / readers rejected by VarInt_Trace", viName(w), probe.K),
				fmt.Sprintf("%s violated by a call made while 15 other goroutines made calls of their own: %s", inv, vkTrunc(string(raw), 500)), map[string]any{"kind": "concurrent", "w": w})
			return
		}
		first = false
	}
	if !first {
		env.Infra("a rejection in the concurrent run of %s did not show again in %d further runs", viName(w), tries-1)
	}
}

func lenClass(n, max int) string {
	switch {
	case n <= max:
		return "<=max"
	default:
		return ">max"
	}
}

// exhaustive sweep: real code vs the TLC-validated mirror -------------------------------------

func viSweep(env *vk.Env, stride uint64) {
	var bad atomic.Int64
	var first atomic.Value
	nw := runtime.NumCPU()
	var wg sync.WaitGroup
	var count atomic.Int64
	for wk := 0; wk < nw; wk++ {
		wg.Add(1)
		go func(wk int) {
			defer wg.Done()
			buf := make([]byte, 8)
			var c int64
			for u := uint64(wk) * stride; u < 1<<32; u += uint64(nw) * stride {
				v := pk.VarInt(int32(uint32(u)))
				n := v.WriteToBytes(buf)
				m := viMirror(2, u)
				c++
				ok := n == len(m) && bytes.Equal(buf[:n], m) && v.Len() == n
				if ok {
					var back pk.VarInt
					rn, err := back.ReadFrom(bytes.NewReader(buf[:n]))
					ok = err == nil && int(rn) == n && back == v
				}
				if !ok {
					if bad.Add(1) == 1 {
						first.Store(u)
					}
				}
			}
			count.Add(c)
		}(wk)
	}
	wg.Wait()
	env.AddEval(count.Load())
	env.Sub(map[string]any{"sweep": "VarInt real code vs TLC-validated mirror", "stride": stride, "values": count.Load(), "exhaustive_2^32": stride == 1, "mismatches": bad.Load()})
	if bad.Load() > 0 {
		u := first.Load().(uint64)
		// hand the concrete value to TLC through a one-line trace so the verdict is the specification's
		tr := &vk.Trace{}
		tr.Add(viEncEvent(2, u))
		tr.Add(viDecEvent(2, viMirror(2, u), false))
		viJudgeTrace(env, 2, tr, "sweep-counterexample")
		if env.Mismatches() == 0 {
			env.Infra("sweep mismatch at %#x not confirmed by TLC", u)
		}
	}
	// all byte strings of length <= 3 for the decoder, against the mirror's inverse (decode by spec rule)
	var dbad atomic.Int64
	var dfirst atomic.Value
	var dn atomic.Int64
	for wk := 0; wk < nw; wk++ {
		wg.Add(1)
		go func(wk int) {
			defer wg.Done()
			var c int64
			for x := wk; x < 1<<24; x += nw {
				for l := 1; l <= 3; l++ {
					if l < 3 && x >= 1<<(8*uint(l)) {
						continue
					}
					in := []byte{byte(x), byte(x >> 8), byte(x >> 16)}[:l]
					// spec rule: first byte < 0x80 terminates
					want, wn, wok := uint64(0), 0, false
					for i, b := range in {
						want |= uint64(b&0x7f) << (7 * uint(i))
						if b < 0x80 {
							wn, wok = i+1, true
							break
						}
					}
					var v pk.VarInt
					rn, err := v.ReadFrom(bytes.NewReader(in))
					c++
					if (err == nil) != wok || (wok && (uint64(uint32(v)) != want || int(rn) != wn)) {
						if dbad.Add(1) == 1 {
							dfirst.Store(append([]byte{}, in...))
						}
					}
				}
			}
			dn.Add(c)
		}(wk)
	}
	wg.Wait()
	env.AddEval(dn.Load())
	env.Sub(map[string]any{"sweep": "VarInt.ReadFrom over all byte strings of length <= 3", "strings": dn.Load(), "mismatches": dbad.Load()})
	if dbad.Load() > 0 {
		in := dfirst.Load().([]byte)
		tr := &vk.Trace{}
		tr.Add(viDecEvent(2, in, false))
		viJudgeTrace(env, 2, tr, "sweep-dec-counterexample")
	}
}

func runC05(env *vk.Env) {
	env.Cov.Rule = "TLC enumerates the decoder step machine over a boundary byte alphabet (all strings up to MaxLen+1 bytes, run-shaped beyond the free prefix for VarLong) and the encoder over all 2^p-1/2^p/2^p+1 patterns and complements; each state is one replay vector. Distinct/non-trivial = distinct (direction, width, decoder class, length) classes exercised. Trace lines are real calls judged by VarInt_Trace, made one at a time and by 16 goroutines at once on independent writers / readers (half of the writers yield before they look at what they were handed)."
	env.Assume = []string{
		"the exhaustive 2^32 sweep compares the real code with a Go mirror of VarInt.tla's Enc; the mirror is itself judged by TLC (field `mirror` of every enc event) on every run",
		"readers returning (0, nil) are not generated",
	}
	for _, c := range []struct {
		cfg string
		w   int
	}{{"VarInt_MC.cfg", 2}, {"VarLong_MC.cfg", 4}} {
		res := env.MustSpec(vk.TLCRun{Name: "S+A " + viName(c.w), Module: "VarInt", Cfg: c.cfg, Workers: 8})
		if res == nil {
			return
		}
		n := 0
		for _, s := range res.Printed {
			var v viVec
			if err := json.Unmarshal([]byte(s), &v); err != nil {
				env.Infra("bad vector %q: %v", s, err)
				return
			}
			if v.Mode == "enc" && v.Status == "idle" {
				continue
			}
			checkViVector(env, v)
			n++
			if n%400 == 7 {
				env.Sample(v)
			}
		}
		if n < 500 {
			env.Infra("only %d vectors from %s", n, c.cfg)
		}
		env.AddTraces(int64(n))
		env.AddEval(int64(n))
	}
	env.Cov.Exhaustive = true
	nv := env.Pick(4000, 60000)
	if env.Quick() {
		for _, w := range []int{2, 4} {
			viJudgeTrace(env, w, viTrace(env, w, nv, fmt.Sprint("q", w)), "B "+viName(w))
			env.AddEval(int64(2 * nv))
		}
		for _, w := range []int{2, 4} {
			viJudgeConcurrent(env, w, 150, 4)
		}
		viSweep(env, 251)
	} else {
		var wg sync.WaitGroup
		for part := 0; part < 4; part++ {
			for _, w := range []int{2, 4} {
				wg.Add(1)
				go func(part, w int) {
					defer wg.Done()
					viJudgeTrace(env, w, viTrace(env, w, nv, fmt.Sprint("t", w, part)), fmt.Sprintf("B %s part %d", viName(w), part))
					env.AddEval(int64(2 * nv))
				}(part, w)
			}
		}
		wg.Wait()
		for _, w := range []int{2, 4} {
			viJudgeConcurrent(env, w, 1500, 4)
		}
		viSweep(env, 1)
	}
}

func replayC05(env *vk.Env, b []byte) {
	var f struct {
		Replay struct {
			Kind string          `json:"kind"`
			Vec  viVec           `json:"vec"`
			W    int             `json:"w"`
			Line json.RawMessage `json:"line"`
		} `json:"replay"`
	}
	if err := json.Unmarshal(b, &f); err != nil {
		env.Infra("replay file: %v", err)
		return
	}
	switch f.Replay.Kind {
	case "vector":
		res := env.MustSpec(vk.TLCRun{Name: "S", Module: "VarInt", Cfg: map[int]string{2: "VarInt_MC.cfg", 4: "VarLong_MC.cfg"}[f.Replay.Vec.W]})
		_ = res
		checkViVector(env, f.Replay.Vec)
	case "concurrent":
		viJudgeConcurrent(env, f.Replay.W, 400, 6)
	case "traceline":
		sig, detail, rej := viRejudgeLine(env, f.Replay.W, f.Replay.Line)
		if rej {
			env.Report(sig, detail, f.Replay)
		}
	}
	env.Sample(f.Replay)
}
