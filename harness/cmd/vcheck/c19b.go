package main

// C19, second file: projection of raw run logs into the Join / Dispatch traces, judges, generators, driver, replay.

import (
	"bytes"
	"encoding/hex"
	"encoding/json"
	"fmt"
	"os"
	"path/filepath"
	"sort"
	"strings"
	"sync"
	"time"

	"net"

	"github.com/Tnze/go-mc/bot"
	"github.com/Tnze/go-mc/chat"
	"github.com/Tnze/go-mc/data/packetid"
	mcnet "github.com/Tnze/go-mc/net"
	"github.com/Tnze/go-mc/server"
	"github.com/google/uuid"
	"verif/harness/vk"
)

func init() { drivers["C19"] = driver{run: runC19, replay: replayC19} }

// ------------------------------------------------------------------ projection

func jnCfgOf(sc *jnScenario) map[string]any {
	return map[string]any{
		"t": sc.T, "name": ints([]byte(sc.Name)), "ouuid": ints(jnOfflineUUID(sc.Name)), "buuid": ints(sc.buuid()),
		"proto": bot.ProtocolVersion, "refuse": sc.Refuse, "intent": sc.Intent, "pat": 0,
		"status": []any{ints([]byte(jnStatusName)), bot.ProtocolVersion, jnStatusMax, sc.Online, ints([]byte(jnStatusMotd))},
		"ping":   []int{},
	}
}

// jnProject turns the raw log of one run into the events of the two trace specifications.
func jnProject(sc *jnScenario, raw []map[string]any) (join, disp []map[string]any) {
	streams := map[string][]byte{}
	for _, e := range raw {
		if e["k"] == "w" {
			d := e["dir"].(string)
			streams[d] = append(streams[d], e["data"].([]byte)...)
		}
	}
	frames := map[string][]jnFrame{"c2s": jnCutFrames(streams["c2s"], "c2s"), "s2c": jnCutFrames(streams["s2c"], "s2c")}
	next := map[string]int{}
	offs := map[string]int{}
	full := sc.full() && sc.Intent == 2 && !sc.Refuse
	seen := map[int]bool{}
	hang, returned := false, false
	join = append(join, map[string]any{"k": "reset", "scn": sc.ID, "cfg": jnCfgOf(sc)})
	disp = append(disp, map[string]any{"k": "reset", "scn": sc.ID, "fail": sc.Fail})
	for _, e := range raw {
		switch e["k"] {
		case "w":
			d := e["dir"].(string)
			offs[d] += len(e["data"].([]byte))
			for next[d] < len(frames[d]) && frames[d][next[d]].End <= offs[d] {
				f := frames[d][next[d]]
				next[d]++
				join = append(join, map[string]any{"k": "frame", "scn": sc.ID, "dir": d, "mode": f.Mode, "z": f.Z, "id": f.ID, "n": len(f.Data),
					"sha": jnSha(f.Data), "name": ints(f.Name), "uuid": ints(f.UUID), "v": f.V, "w": f.W, "st": f.St})
			}
		case "accept":
			join = append(join, map[string]any{"k": "accept", "scn": sc.ID, "name": e["name"], "uuid": e["uuid"], "proto": e["proto"]})
		case "joined":
			join = append(join, map[string]any{"k": "joined", "scn": sc.ID, "name": e["name"], "uuid": e["uuid"], "err": e["err"], "errtext": e["errtext"]})
		case "psend":
			join = append(join, map[string]any{"k": "psend", "scn": sc.ID, "side": e["side"], "seq": e["seq"], "id": e["id"], "n": e["n"], "sha": e["sha"]})
			if e["side"] == "srv" {
				disp = append(disp, map[string]any{"k": "pkt", "scn": sc.ID, "idx": e["seq"], "id": e["id"], "sha": e["sha"]})
			}
		case "precv":
			join = append(join, map[string]any{"k": "precv", "scn": sc.ID, "side": "srv", "seq": e["seq"], "id": e["id"], "n": e["n"], "sha": e["sha"]})
		case "handled":
			idx := e["idx"].(int)
			if full && !seen[idx] {
				seen[idx] = true
				join = append(join, map[string]any{"k": "precv", "scn": sc.ID, "side": "bot", "seq": idx, "id": e["id"], "n": e["n"], "sha": e["sha"]})
			}
			disp = append(disp, map[string]any{"k": "handled", "scn": sc.ID, "h": e["h"], "idx": idx, "id": e["id"], "sha": e["sha"]})
		case "reg":
			disp = append(disp, map[string]any{"k": "reg", "scn": sc.ID, "kind": e["kind"], "h": e["h"], "id": e["id"], "prio": e["prio"]})
		case "start":
			disp = append(disp, map[string]any{"k": "start", "scn": sc.ID})
		case "ret":
			returned = true
			disp = append(disp, map[string]any{"k": "ret", "scn": sc.ID, "h": e["h"], "pid": e["pid"], "errtext": e["errtext"]})
		case "ping":
			join = append(join, map[string]any{"k": "ping", "scn": sc.ID, "err": e["err"], "st": e["st"], "errtext": e["errtext"]})
		case "hang":
			hang = true
			join = append(join, map[string]any{"k": "hang", "scn": sc.ID})
		}
	}
	// bytes that never formed a complete frame
	for _, d := range []string{"c2s", "s2c"} {
		for ; next[d] < len(frames[d]); next[d]++ {
			f := frames[d][next[d]]
			join = append(join, map[string]any{"k": "frame", "scn": sc.ID, "dir": d, "mode": f.Mode, "z": f.Z, "id": f.ID, "n": len(f.Data),
				"sha": jnSha(f.Data), "name": ints(f.Name), "uuid": ints(f.UUID), "v": f.V, "w": f.W, "st": f.St})
		}
	}
	if !hang {
		join = append(join, map[string]any{"k": "end", "scn": sc.ID, "full": full})
	}
	if !returned {
		return join, nil // the dispatch half starts when HandleGame runs; a join that did not get there is the Join trace's business
	}
	if hang {
		disp = append(disp, map[string]any{"k": "hang", "scn": sc.ID})
	} else {
		disp = append(disp, map[string]any{"k": "dend", "scn": sc.ID})
	}
	return join, disp
}

// ------------------------------------------------------------------ judges

type jnRecorded struct {
	sc   jnScenario
	join []map[string]any
	disp []map[string]any
	hang bool
}

func jnTraceBytes(evs []map[string]any) []byte {
	tr := &vk.Trace{}
	for _, e := range evs {
		tr.Add(e)
	}
	return tr.Bytes()
}

type jnJudgeSpec struct {
	half, module, cfg string
	dfs               bool
}

var (
	jnJoinSpec = jnJudgeSpec{"join", "Join_Trace", "Join_Trace.cfg", true}
	jnDispSpec = jnJudgeSpec{"dispatch", "Dispatch_Trace", "Dispatch_Trace.cfg", false}
)

func (js jnJudgeSpec) events(r *jnRecorded) []map[string]any {
	if js.half == "join" {
		return r.join
	}
	return r.disp
}

// jnJudgeOne validates the recorded events of one scenario alone. line = the rejected event (nil when accepted).
func jnJudgeOne(env *vk.Env, js jnJudgeSpec, evs []map[string]any) (rejected bool, line map[string]any, hwm int, infra string) {
	v, err := env.ValidateTrace(vk.TLCRun{Name: "rejudge " + js.half, Module: js.module, Cfg: js.cfg, Workers: 1, DFS: js.dfs, NoCount: true, Timeout: 5 * time.Minute}, "trace.ndjson", jnTraceBytes(evs))
	if err != nil {
		return false, nil, 0, err.Error()
	}
	if v.Accepted {
		return false, nil, 0, ""
	}
	if v.HWM == 0 || v.HWM > len(evs) {
		return false, nil, 0, "no verdict: " + vkTrunc(v.Res.Output, 800)
	}
	return true, evs[v.HWM-1], v.HWM, ""
}

func jnThrClass(t int) string {
	if t < 0 {
		return "off"
	}
	return "on"
}

// jnSig builds the stable signature of a rejection: half + rejected event class + configuration class.
func jnSig(js jnJudgeSpec, sc *jnScenario, evs []map[string]any, hwm int) string {
	line := evs[hwm-1]
	k := fmt.Sprint(line["k"])
	if js.half == "dispatch" {
		extra := ""
		if k == "handled" {
			extra = " (handler invocation differs from Expected)"
		} else if k == "ret" || k == "dend" {
			extra = " (missing invocations or wrong error returned by HandleGame)"
		} else if k == "hang" {
			extra = " (HandleGame did not return)"
		}
		return "dispatch trace rejected at " + k + extra
	}
	// stage of the rejected event: play traffic (psend / precv / frames beyond the gate's own packets) or the gate;
	// computed from the position in the direction's stream, not from the log order of accept / joined
	stage := "gate"
	if k == "psend" || k == "precv" || k == "end" {
		stage = "play"
	}
	if k == "frame" {
		gate := map[string]int{"c2s": 4, "s2c": 2}
		if sc.T >= 0 {
			gate["s2c"] = 3
		}
		n := 0
		for _, e := range evs[:hwm-1] {
			if e["k"] == "frame" && e["dir"] == line["dir"] {
				n++
			}
		}
		if n >= gate[fmt.Sprint(line["dir"])] {
			stage = "play"
		}
	}
	what := k
	if k == "frame" {
		what = fmt.Sprintf("frame/%v", line["dir"])
	} else if k == "psend" || k == "precv" {
		what = fmt.Sprintf("%s/%v", k, line["side"])
	}
	intent := "login"
	if sc.Intent == 1 {
		intent = "status"
		stage = "status"
	}
	s := fmt.Sprintf("join trace rejected at %s stage=%s intent=%s compression=%s", what, stage, intent, jnThrClass(sc.T))
	if sc.Refuse {
		s += " refused"
	}
	if k == "hang" {
		s += " (did not complete)"
	}
	return s
}

var jnHangs int
var jnHangMu sync.Mutex

func jnWatchdog() time.Duration {
	jnHangMu.Lock()
	defer jnHangMu.Unlock()
	if jnHangs > 0 {
		return 4 * time.Second
	}
	return 20 * time.Second
}

func jnRecord(sc jnScenario) *jnRecorded {
	raw, hang := jnRunScenario(&sc, jnWatchdog())
	if hang {
		jnHangMu.Lock()
		jnHangs++
		jnHangMu.Unlock()
	}
	j, d := jnProject(&sc, raw)
	return &jnRecorded{sc: sc, join: j, disp: d, hang: hang}
}

// jnJudgeBatch validates the concatenation of the recorded scenarios with one trace specification; on a rejection
// the scenario is re-validated alone, reported, and the rest of the batch is validated again (a few rounds).
func jnJudgeBatch(env *vk.Env, js jnJudgeSpec, recs []*jnRecorded, label string) {
	rounds := 0
	for len(recs) > 0 && rounds < 4 {
		rounds++
		tr := &vk.Trace{}
		var start []int
		var used []*jnRecorded
		for _, r := range recs {
			evs := js.events(r)
			if len(evs) == 0 {
				continue
			}
			start = append(start, tr.N+1)
			used = append(used, r)
			for _, e := range evs {
				tr.Add(e)
			}
		}
		if len(used) == 0 {
			return
		}
		if d := os.Getenv("VERIF_C19_DUMP"); d != "" { // debugging aid: keep the traces that are judged
			os.MkdirAll(d, 0o755)
			os.WriteFile(filepath.Join(d, strings.NewReplacer(" ", "_", "/", "-").Replace(label)+fmt.Sprintf(".r%d.ndjson", rounds)), tr.Bytes(), 0o644)
		}
		v, err := env.ValidateTrace(vk.TLCRun{Name: label, Module: js.module, Cfg: js.cfg, Workers: 1, DFS: js.dfs, Timeout: 20 * time.Minute, Heap: "8g"}, "trace.ndjson", tr.Bytes())
		if err != nil {
			env.Infra("%s: %v", label, err)
			return
		}
		env.Sub(map[string]any{"run": label, "half": js.half, "scenarios": len(used), "events": tr.N, "accepted": v.Accepted, "round": rounds})
		if v.Accepted {
			env.AddTraces(int64(len(used)))
			env.AddEval(int64(tr.N))
			return
		}
		if v.HWM == 0 {
			env.Infra("%s: no verdict:\n%s", label, vkTrunc(v.Res.Output, 1500))
			return
		}
		bi := 0
		for i := range used {
			if start[i] <= v.HWM {
				bi = i
			}
		}
		env.AddTraces(int64(bi))
		bad := used[bi]
		jnReportRejected(env, js, bad, label)
		recs = used[bi+1:]
	}
}

func jnReportRejected(env *vk.Env, js jnJudgeSpec, bad *jnRecorded, label string) {
	evs := js.events(bad)
	rej, line, hwm, infra := jnJudgeOne(env, js, evs)
	if infra != "" {
		env.Infra("%s: scenario %d: %s", label, bad.sc.ID, infra)
		return
	}
	if !rej {
		env.Infra("%s: rejection of scenario %d not confirmed when its recorded trace was validated alone", label, bad.sc.ID)
		return
	}
	if line["k"] == "hang" {
		// a hang is a timing observation: it counts only if two fresh runs of the same scenario hang as well
		for i := 0; i < 2; i++ {
			r2 := jnRecord(bad.sc)
			if !r2.hang {
				env.Infra("%s: hang of scenario %d (%s) did not reproduce on re-run %d", label, bad.sc.ID, bad.sc.Origin, i+1)
				return
			}
		}
	}
	sig := jnSig(js, &bad.sc, evs, hwm)
	ctx := []string{}
	for i := hwm - 4; i < hwm; i++ {
		if i >= 0 {
			ctx = append(ctx, vkTrunc(mustJSON(evs[i]), 260))
		}
	}
	detail := fmt.Sprintf("%s rejects the recorded execution of scenario %d (%s, transport=%s, t=%d, name=%q, refuse=%v) at event %d: %s\nlast events:\n  %s",
		js.module, bad.sc.ID, bad.sc.Origin, bad.sc.Transport, bad.sc.T, bad.sc.Name, bad.sc.Refuse, hwm, vkTrunc(mustJSON(line), 300), strings.Join(ctx, "\n  "))
	env.Report(sig, detail, map[string]any{"kind": "scenario", "half": js.half, "scenario": bad.sc, "recorded": evs})
}

// ------------------------------------------------------------------ generators

type jnGenVec struct {
	Cfg struct {
		T      int   `json:"t"`
		Name   []int `json:"name"`
		Refuse bool  `json:"refuse"`
		Intent int   `json:"intent"`
		Pat    int   `json:"pat"`
	} `json:"cfg"`
	Sizes []int `json:"sizes"`
}

type dpGenVec struct {
	Regs   []jnReg `json:"regs"`
	Fail   int     `json:"fail"`
	Stream []int   `json:"stream"`
}

var jnRecorderReg = []jnReg{{Kind: "generic", H: 1, ID: 0, Prio: 0}}

// jnFromJoinVectors concretises the configurations printed by Join_Gen (one per initial state of Join.tla).
func jnFromJoinVectors(env *vk.Env, printed []string, firstID int) []jnScenario {
	var out []jnScenario
	seenStatus := map[string]bool{}
	sort.Strings(printed)
	for _, s := range printed {
		var v jnGenVec
		if json.Unmarshal([]byte(s), &v) != nil || v.Cfg.Intent == 0 {
			continue
		}
		name := string(bytesOf(v.Cfg.Name))
		if v.Cfg.Intent == 1 {
			// the status exchange happens before any name / threshold matters: one run per name is plenty
			key := name
			if seenStatus[key] || v.Cfg.Refuse || v.Cfg.Pat != 0 {
				continue
			}
			seenStatus[key] = true
			out = append(out, jnScenario{Origin: "tlc-config", Seed: env.Seed, Transport: "tcp", Intent: 1, T: v.Cfg.T, Name: name})
			continue
		}
		sc := jnScenario{Origin: "tlc-config", Seed: env.Seed, Intent: 2, T: v.Cfg.T, Name: name, Refuse: v.Cfg.Refuse, Regs: jnRecorderReg}
		for k, n := range v.Sizes {
			// sizes are payload lengths; the payload header needs 6 bytes, shorter ones are sent as they are (no index: only for t<6)
			sc.C2S = append(sc.C2S, jnPk{ID: 1 + (k+v.Cfg.Pat)%3, N: n})
			sc.S2C = append(sc.S2C, jnPk{ID: 1 + (k+2*v.Cfg.Pat)%5, N: n})
		}
		for _, tp := range []string{"mem", "tcp"} {
			x := sc
			x.Transport = tp
			out = append(out, x)
		}
	}
	for i := range out {
		out[i].ID = firstID + i
	}
	return out
}

// s2c payloads must carry their index (6 bytes): sizes below that are raised for packets that handlers identify
func jnFixSizes(sc *jnScenario) {
	if sc.recorderOnly() {
		return
	}
	for i := range sc.S2C {
		if sc.S2C[i].ID != 0 && sc.S2C[i].N < 6 {
			sc.S2C[i].N = 6
		}
	}
}

func jnFromDispatchVectors(env *vk.Env, printed []string, firstID, want int) []jnScenario {
	uniq := map[string]bool{}
	var vecs []dpGenVec
	sort.Strings(printed)
	for _, s := range printed {
		if uniq[s] {
			continue
		}
		uniq[s] = true
		var v dpGenVec
		if json.Unmarshal([]byte(s), &v) != nil || len(v.Regs) == 0 {
			continue
		}
		vecs = append(vecs, v)
	}
	rng := newRand(env.Seed, "dpvec")
	rng.Shuffle(len(vecs), func(i, j int) { vecs[i], vecs[j] = vecs[j], vecs[i] })
	// prefer vectors that exercise more: sort by (has bundle, fails, number of handlers) after the shuffle, stable
	score := func(v dpGenVec) int {
		s := len(v.Regs)
		for _, id := range v.Stream {
			if id == 0 {
				s += 2
			}
		}
		return s
	}
	sort.SliceStable(vecs, func(i, j int) bool { return score(vecs[i]) > score(vecs[j]) })
	if len(vecs) > want {
		vecs = vecs[:want]
	}
	thr := []int{-1, 0, 1, 64}
	var out []jnScenario
	for i, v := range vecs {
		sc := jnScenario{ID: firstID + i, Origin: "tlc-dispatch", Seed: env.Seed, Transport: "mem", Intent: 2, T: thr[rng.Intn(4)],
			Name: []string{"Alice", "Bob", "Steve"}[rng.Intn(3)], Regs: v.Regs, Fail: v.Fail, Pace: i%3 == 0, Batch: i%2 == 1}
		if i%10 == 9 {
			sc.Transport = "tcp"
		}
		for _, id := range v.Stream {
			n := 0
			if id != 0 {
				n = []int{6, 7, 63, 64, 65, 300}[rng.Intn(6)]
			}
			sc.S2C = append(sc.S2C, jnPk{ID: id, N: n})
		}
		out = append(out, sc)
	}
	return out
}

var jnNames = []string{"A", "Bob", "Alice", "Steve", "Notch", "jeb_", "x_X_sixteen_ch_X", "Ünï-cödé", "名前", "name with spaces", "a-name-that-is-longer-than-the-sixteen-characters-vanilla-allows-0123456789"}

// jnRandomScenario draws a scenario beyond the model-checked bounds (seeded).
func jnRandomScenario(seed int64, id int, thorough bool) jnScenario {
	rng := newRand(seed, fmt.Sprint("jnrand", id))
	thrs := []int{-1, 0, 1, 2, 7, 64, 256}
	maxPk := 12
	if thorough {
		thrs = append(thrs, 1000, 70000, 2000000)
		maxPk = 200
	}
	sc := jnScenario{ID: id, Origin: "random", Seed: seed + int64(id), Transport: "mem", Intent: 2, T: thrs[rng.Intn(len(thrs))], Name: jnNames[rng.Intn(len(jnNames))]}
	switch rng.Intn(3) { // the bot's own idea of its UUID: none, the offline one, a foreign one (the gate decides, not the client)
	case 1:
		sc.BUUID = hex.EncodeToString(jnOfflineUUID(sc.Name))
	case 2:
		f := make([]byte, 16)
		rng.Read(f)
		f[6], f[8] = f[6]&0x0f|0x40, f[8]&0x3f|0x80
		sc.BUUID = hex.EncodeToString(f)
	}
	sc.Online = rng.Intn(4)
	if id%12 == 0 { // a status ping against the same kind of server (PingAndList dials TCP itself)
		sc.Intent, sc.Transport = 1, "tcp"
		return sc
	}
	if rng.Intn(4) == 0 {
		sc.Transport = "tcp"
	}
	sc.Refuse = rng.Intn(8) == 0
	huge := 0
	if thorough && rng.Intn(10) == 0 {
		huge = 2 // at most two very large packets, in one scenario out of ten
	}
	size := func() int {
		t := sc.T
		if t < 0 || t > 5000 {
			t = 64
		}
		c := []int{6, t - 1, t, t + 1, 2 * t, 6 + rng.Intn(40), 6 + rng.Intn(40), 300 + rng.Intn(3000)}
		n := c[rng.Intn(len(c))]
		if huge > 0 && rng.Intn(8) == 0 {
			huge--
			n = []int{sc.T - 1, sc.T, sc.T + 1, 100000 + rng.Intn(200000)}[rng.Intn(4)]
		}
		if n < 6 {
			n = 6
		}
		if n > 1500000 {
			n = 1500000
		}
		return n
	}
	nc, ns := rng.Intn(maxPk+1), rng.Intn(maxPk+1)
	for i := 0; i < nc; i++ {
		sc.C2S = append(sc.C2S, jnPk{ID: 1 + rng.Intn(50), N: size()})
	}
	// handler set: random priorities (with ties), random kinds, random registration order
	ids := []int{1, 2, 3, 4, 30, int(packetid.ClientboundPacketIDGuard) - 1} // listeners: ids of the clientbound id table (packets also carry ids beyond it, see below)
	nh := 1 + rng.Intn(8)
	if thorough {
		nh = 1 + rng.Intn(14)
	}
	prios := []int{-100, -1, 0, 0, 0, 1, 5, 5, 1 << 30}
	if rng.Intn(4) == 0 {
		// large groups with many priority ties (sorting algorithms switch strategy with the size of the input:
		// registration order among equals must hold for any number of handlers)
		nh = 13 + rng.Intn(36)
		ids = ids[:1+rng.Intn(2)]
		prios = []int{0, 0, 0, 1, 5}
	}
	dispatchy := rng.Intn(2) == 0
	if !dispatchy {
		sc.Regs = jnRecorderReg
	} else {
		for h := 1; h <= nh; h++ {
			r := jnReg{Kind: "generic", H: h, Prio: prios[rng.Intn(len(prios))]}
			if rng.Intn(3) != 0 {
				r.Kind, r.ID = "id", ids[rng.Intn(len(ids))]
			}
			sc.Regs = append(sc.Regs, r)
		}
		if rng.Intn(3) == 0 {
			sc.Fail = 1 + rng.Intn(nh)
		}
		sc.Batch = rng.Intn(2) == 0
		sc.Pace = rng.Intn(4) == 0 && ns <= 30
	}
	if !dispatchy && rng.Intn(3) == 0 {
		// a recorder that is slower than the server: some larger packets one after the other, a packet without
		// payload, then a burst that queues up behind it (buffers travel reader -> queue -> handler -> pool)
		sc.Slow = true
		sc.S2C = nil
		for i := 0; i < 3+rng.Intn(5); i++ {
			sc.S2C = append(sc.S2C, jnPk{ID: ids[rng.Intn(len(ids))], N: 200 + rng.Intn(200)})
		}
		for r := 0; r < 1+rng.Intn(3); r++ {
			sc.S2C = append(sc.S2C, jnPk{ID: ids[rng.Intn(len(ids))], N: 0})
			for i := 0; i < 10+rng.Intn(50); i++ {
				sc.S2C = append(sc.S2C, jnPk{ID: ids[rng.Intn(len(ids))], N: 100 + rng.Intn(150)})
			}
		}
		return sc
	}
	for i := 0; i < ns; i++ {
		if dispatchy && rng.Intn(5) == 0 {
			sc.S2C = append(sc.S2C, jnPk{ID: 0})
			continue
		}
		n := size()
		if !dispatchy && rng.Intn(8) == 0 {
			n = 0 // a packet that is only its id (the recorder counts invocations, it needs no index in the payload)
		}
		id := ids[rng.Intn(len(ids))]
		if rng.Intn(6) == 0 {
			// ids at and beyond the end of the clientbound id table: no listener can exist for them, the generic
			// handlers still see them, and the packets behind them are dispatched as usual
			g := int(packetid.ClientboundPacketIDGuard)
			id = []int{g, g, g + 1, g + 2, 5000, 1 << 20}[rng.Intn(6)]
		}
		sc.S2C = append(sc.S2C, jnPk{ID: id, N: n})
	}
	return sc
}

// ------------------------------------------------------------------ leg S

func jnVariantCfg(base, from, to string) ([]byte, error) {
	b, err := os.ReadFile(filepath.Join(vk.Root, "specs", base))
	if err != nil {
		return nil, err
	}
	if !bytes.Contains(b, []byte(from)) {
		return nil, fmt.Errorf("%s does not contain %q", base, from)
	}
	return bytes.Replace(b, []byte(from), []byte(to), 1), nil
}

func jnLegS(env *vk.Env) bool {
	ok := true
	var mu sync.Mutex
	var wg sync.WaitGroup
	bad := func() { mu.Lock(); ok = false; mu.Unlock() }
	wg.Add(2)
	go func() {
		defer wg.Done()
		defer guard("c19b")
		cfg := "Join_MC.cfg"
		files := map[string][]byte{}
		if !env.Quick() {
			b, err := jnVariantCfg("Join_MC.cfg", "MaxPlay = 3", "MaxPlay = 4")
			if err == nil {
				b = bytes.Replace(b, []byte("Thresholds <- ThrQuick"), []byte("Thresholds <- ThrThorough"), 1)
				b = bytes.Replace(b, []byte("Names <- NamesQuick"), []byte("Names <- NamesThorough"), 1)
				files["Join_MC_thorough.cfg"] = b
				cfg = "Join_MC_thorough.cfg"
			}
		}
		if env.MustSpec(vk.TLCRun{Name: "S Join", Module: "Join", Cfg: cfg, Workers: 4, Files: files, Timeout: 30 * time.Minute}) == nil {
			bad()
		}
	}()
	go func() {
		defer wg.Done()
		defer guard("c19b")
		cfg := "Dispatch_MC.cfg"
		files := map[string][]byte{}
		if !env.Quick() {
			if b, err := jnVariantCfg("Dispatch_MC.cfg", "MaxPk = 4", "MaxPk = 5"); err == nil {
				files["Dispatch_MC_thorough.cfg"] = b
				cfg = "Dispatch_MC_thorough.cfg"
			}
		}
		if env.MustSpec(vk.TLCRun{Name: "S Dispatch", Module: "Dispatch", Cfg: cfg, Workers: 8, Files: files, Timeout: 30 * time.Minute, Heap: "10g"}) == nil {
			bad()
		}
		if !env.Quick() { // five handlers (two priority ties), three packets
			b, err := jnVariantCfg("Dispatch_MC.cfg", "MaxPk = 4", "MaxPk = 3")
			if err == nil {
				b = bytes.Replace(b, []byte("Handlers = {1, 2, 3, 4}"), []byte("Handlers = {1, 2, 3, 4, 5}"), 1)
				b = bytes.Replace(b, []byte("PrioOf <- PrioQuick"), []byte("PrioOf <- PrioFive"), 1)
				if env.MustSpec(vk.TLCRun{Name: "S Dispatch 5 handlers", Module: "Dispatch", Cfg: "Dispatch_MC_five.cfg", Workers: 8, Files: map[string][]byte{"Dispatch_MC_five.cfg": b}, Timeout: 30 * time.Minute, Heap: "10g"}) == nil {
					bad()
				}
			}
		}
	}()
	wg.Wait()
	if !ok {
		return false
	}
	// vacuity guards: every defect model of the specifications must be rejected by the invariants
	type variant struct{ module, base, from, to, name string }
	var vs []variant
	for _, v := range []string{"srvEarly", "srvLate", "botLate"} {
		vs = append(vs, variant{"Join", "Join_MC.cfg", `Variant = "none"`, `Variant = "` + v + `"`, v})
	}
	for _, v := range []string{"ascending", "unstable", "specificFirst", "earlyFlush", "reverseBundle", "swallow"} {
		vs = append(vs, variant{"Dispatch", "Dispatch_MC.cfg", `DVariant = "none"`, `DVariant = "` + v + `"`, v})
	}
	sem := make(chan struct{}, 5)
	for _, v := range vs {
		v := v
		wg.Add(1)
		sem <- struct{}{}
		go func() {
			defer wg.Done()
			defer guard("c19b")
			defer func() { <-sem }()
			b, err := jnVariantCfg(v.base, v.from, v.to)
			if err != nil {
				env.Infra("self-test %s: %v", v.name, err)
				bad()
				return
			}
			name := v.module + "_MC_" + v.name + ".cfg"
			res, err := env.TLC(vk.TLCRun{Name: "S self-test " + v.name + " (must fail)", Module: v.module, Cfg: name, Workers: 2, NoCount: true, Files: map[string][]byte{name: b}, Timeout: 5 * time.Minute})
			if err != nil || res.OK || (res.Violated != "Safety" && res.Violated != "DSafety") {
				env.Infra("the defect model %s of %s.tla was not rejected by TLC (violated=%q): the invariants are vacuous", v.name, v.module, func() string {
					if res != nil {
						return res.Violated
					}
					return "?"
				}())
				bad()
			}
		}()
	}
	wg.Wait()
	return ok
}

// ------------------------------------------------------------------ driver

func jnRunAll(env *vk.Env, scs []jnScenario, label string) {
	var recs []*jnRecorded
	t0 := time.Now()
	for _, sc := range scs {
		jnHangMu.Lock()
		h := jnHangs
		jnHangMu.Unlock()
		if h >= 3 {
			env.Note("%s: %d scenarios hung; the remaining %d scenarios of this group are not run", label, h, len(scs)-len(recs))
			break
		}
		if sc.Intent == 2 {
			jnFixSizes(&sc)
		}
		recs = append(recs, jnRecord(sc))
	}
	env.Sub(map[string]any{"run": label, "scenarios_executed": len(recs), "execution_wall_s": time.Since(t0).Seconds()})
	for i := 0; i < len(recs); i += 400 {
		j := i + 400
		if j > len(recs) {
			j = len(recs)
		}
		jnJudgeBatch(env, jnJoinSpec, recs[i:j], label+" / Join_Trace")
		jnJudgeBatch(env, jnDispSpec, recs[i:j], label+" / Dispatch_Trace")
	}
	for _, r := range recs {
		sc := r.sc
		env.Distinct(fmt.Sprintf("%s/%s/intent%d/t=%s/refuse=%v/regs=%d/fail=%v/bundles=%v", sc.Origin, sc.Transport, sc.Intent, jnThrClass(sc.T), sc.Refuse, len(sc.Regs), sc.Fail != 0, !sc.full()))
	}
}

func runC19(env *vk.Env) {
	env.Cov.Rule = "S: TLC checks Join.tla (ModeAgreement, Agreement, PlayFIFO, StatusOK; liveness JoinCompletes/PlayDelivered/RefusalSeen/StatusCompletes under weak fairness; three misplaced-SetThreshold variants must FAIL) and Dispatch.tla (constructive Expected vs declarative order/bundle/failure invariants over all registration orders; six defect variants must FAIL). A: TLC configurations (Join_Gen) and TLC-simulated dispatch vectors (Dispatch_Gen) plus seeded random scenarios are executed by a real bot.Client against a real server.Server over a buffered in-memory duplex and over TCP loopback, under -race. B: the tapped byte streams are cut into frames by an independent reader (mode inferred from the bytes); frames, AcceptPlayer arguments, join result, play packets sent/received, handler invocations, HandleGame result and PingAndList result are validated by Join_Trace (silent receives inferred by TLC) and Dispatch_Trace; several status pings over the history of one server (players leaving and joining, with and without a change of the online count) are validated by Status_Trace. Distinct/non-trivial = distinct scenario classes."
	env.Assume = []string{
		"freedom from data races is observed by the Go race detector during the specification-driven runs, not decided by TLC",
		"a hang counts only if the scenario hangs on two further fresh runs; otherwise it is an infrastructure result",
		"OfflineUUID(name) of the specification is concretised by the harness's own MD5 version-3 computation (not by go-mc/offline)",
		"the configuration phase is the finish-only gate of the property; online-mode login and the stock server.Configurations handler are not decided",
		"bundles of 4096 or more packets (the bot's hard limit) and negative packet ids are not generated",
	}
	if !jnLegS(env) {
		return
	}
	env.Cov.Exhaustive = true
	// leg A: vectors from TLC
	jgCfg, jgFiles := "Join_Gen.cfg", map[string][]byte{}
	if !env.Quick() {
		if b, err := jnVariantCfg("Join_Gen.cfg", "Thresholds <- ThrQuick", "Thresholds <- ThrThorough"); err == nil {
			jgCfg = "Join_Gen_thorough.cfg"
			jgFiles[jgCfg] = bytes.Replace(b, []byte("Names <- NamesQuick"), []byte("Names <- NamesThorough"), 1)
		}
	}
	jg := env.MustSpec(vk.TLCRun{Name: "A Join configurations", Module: "Join_Gen", Cfg: jgCfg, Files: jgFiles, Workers: 1, NoCount: true})
	if jg == nil {
		return
	}
	scs := jnFromJoinVectors(env, jg.Printed, 1000)
	if len(scs) < 90 {
		env.Infra("only %d join configurations parsed from Join_Gen", len(scs))
		return
	}
	nsim := env.Pick(300, 3000)
	dg, err := env.TLC(vk.TLCRun{Name: "A Dispatch vectors", Module: "Dispatch_Gen", Cfg: "Dispatch_Gen.cfg", Workers: 1, Simulate: fmt.Sprintf("num=%d", nsim), Depth: 24, NoCount: true})
	if err != nil || dg.ExitCode != 0 {
		env.Infra("dispatch vector generation failed: %v", err)
		return
	}
	dscs := jnFromDispatchVectors(env, dg.Printed, 5000, env.Pick(220, 2500))
	if len(dscs) < env.Pick(100, 1000) {
		env.Infra("only %d dispatch vectors parsed from Dispatch_Gen", len(dscs))
		return
	}
	env.Sample(scs[len(scs)/2])
	env.Sample(dscs[0])
	jnRunAll(env, scs, "A tlc-configurations")
	jnRunAll(env, dscs, "A tlc-dispatch-vectors")
	// seeded random scenarios beyond the model-checked bounds
	var rs []jnScenario
	for i := 0; i < env.Pick(120, 2000); i++ {
		rs = append(rs, jnRandomScenario(env.Seed, 20000+i, !env.Quick()))
	}
	env.Sample(rs[0])
	jnRunAll(env, rs, "B random")
	jnStatusLeg(env)
	collectRaceReports(env)
}

func replayC19(env *vk.Env, b []byte) {
	var f struct {
		Replay struct {
			Kind     string     `json:"kind"`
			Half     string     `json:"half"`
			Scenario jnScenario `json:"scenario"`
		} `json:"replay"`
	}
	if err := json.Unmarshal(b, &f); err != nil {
		env.Infra("replay file: %v", err)
		return
	}
	env.Cov.States, env.Cov.Transitions = 1, 1
	env.Sample(f.Replay.Scenario)
	if f.Replay.Kind != "scenario" {
		// race reports have no scenario: run the random group again under the detector
		var rs []jnScenario
		for i := 0; i < 120; i++ {
			rs = append(rs, jnRandomScenario(env.Seed, 20000+i, false))
		}
		jnRunAll(env, rs, "replay random")
		collectRaceReports(env)
		return
	}
	// re-execute the scenario on the real code and judge the fresh recording with both trace specifications
	sc := f.Replay.Scenario
	if sc.Intent == 2 {
		jnFixSizes(&sc)
	}
	r := jnRecord(sc)
	for _, js := range []jnJudgeSpec{jnJoinSpec, jnDispSpec} {
		evs := js.events(r)
		if len(evs) == 0 {
			continue
		}
		rej, _, _, infra := jnJudgeOne(env, js, evs)
		if infra != "" {
			env.Infra("replay: %s", infra)
			continue
		}
		if rej {
			jnReportRejected(env, js, r, "replay")
		} else {
			env.AddTraces(1)
		}
	}
	collectRaceReports(env)
}

// ------------------------------------------------------------------ status pings over a history of one server

// jnStatusFull projects a status JSON document to <<name, protocol, max, online, description text, sorted sample names>>.
func jnStatusFull(js []byte) []any {
	t := jnStatusTuple(js)
	if len(t) == 0 {
		return t
	}
	var doc struct {
		Players struct {
			Sample []struct {
				Name string `json:"name"`
			} `json:"sample"`
		} `json:"players"`
	}
	json.Unmarshal(js, &doc)
	names := []string{}
	for _, s := range doc.Players.Sample {
		names = append(names, s.Name)
	}
	sort.Strings(names)
	ns := []any{}
	for _, n := range names {
		ns = append(ns, ints([]byte(n)))
	}
	return append(t, ns)
}

// jnStatusHistory: one server, several status pings over TCP loopback; between the pings players leave and join - with
// and without a change of the online count. What the handler would answer is logged from its own exported methods.
func jnStatusHistory(seed int64, id int) ([]map[string]any, error) {
	rng := newRand(seed, fmt.Sprint("statushist", id))
	pl := server.NewPlayerList(jnStatusMax)
	info := server.NewPingInfo(jnStatusName, bot.ProtocolVersion, chat.Text(jnStatusMotd), nil)
	srv := &server.Server{
		ListPingHandler: jnStatus{pl, info},
		LoginHandler:    &server.MojangLoginHandler{OnlineMode: false, Threshold: -1, LoginChecker: pl},
		ConfigHandler:   jnFinishOnly{},
	}
	ln, err := net.Listen("tcp", "127.0.0.1:0")
	if err != nil {
		return nil, err
	}
	defer ln.Close()
	go func() {
		defer guard("c19b status history")
		for {
			c, err := ln.Accept()
			if err != nil {
				return
			}
			go func() {
				defer guard("c19b status history")
				srv.AcceptConn(mcnet.WrapConn(c))
			}()
		}
	}()
	var evs []map[string]any
	evs = append(evs, map[string]any{"k": "reset", "scn": id})
	clients := map[string]*plClient{}
	next := 0
	join := func() {
		next++
		name := fmt.Sprintf("p%d_%d", id, next)
		c := &plClient{id: next}
		clients[name] = c
		pl.ClientJoin(c, server.PlayerSample{Name: name, ID: uuid.UUID{byte(next), byte(id)}})
	}
	leave := func() {
		for name, c := range clients { // any one of them
			pl.ClientLeft(c)
			delete(clients, name)
			return
		}
	}
	logSet := func() {
		names := []string{}
		for _, s := range pl.PlayerSamples() {
			names = append(names, s.Name)
		}
		sort.Strings(names)
		ns := []any{}
		for _, n := range names {
			ns = append(ns, ints([]byte(n)))
		}
		evs = append(evs, map[string]any{"k": "set", "st": []any{ints([]byte(jnStatusName)), int(bot.ProtocolVersion), pl.MaxPlayer(), pl.OnlinePlayer(), ints([]byte(jnStatusMotd)), ns}})
	}
	ping := func() {
		js, _, err := bot.PingAndListTimeout(ln.Addr().String(), 10*time.Second)
		st := []any{}
		if err == nil {
			st = jnStatusFull(js)
		}
		evs = append(evs, map[string]any{"k": "ping", "err": err != nil, "st": st, "errtext": fmt.Sprint(err)})
	}
	for i := rng.Intn(4); i > 0; i-- {
		join()
	}
	logSet()
	ping()
	for step := 2 + rng.Intn(4); step > 0; step-- {
		switch k := rng.Intn(5); {
		case k < 2 && len(clients) > 0: // one leaves, another joins: the count stays, the sample changes
			leave()
			join()
		case k == 2 && len(clients) > 0:
			leave()
		case k == 3:
			// nothing changes: the same answer again
		default:
			if len(clients) < 9 { // the sample lists up to 10 players: all of them while there are fewer
				join()
			}
		}
		logSet()
		ping()
	}
	return evs, nil
}

func jnStatusLeg(env *vk.Env) {
	tr := &vk.Trace{}
	n := env.Pick(25, 250)
	starts := []int{}
	for i := 0; i < n; i++ {
		evs, err := jnStatusHistory(env.Seed, i)
		if err != nil {
			env.Infra("status history: %v", err)
			return
		}
		starts = append(starts, tr.N+1)
		for _, e := range evs {
			tr.Add(e)
		}
	}
	v, err := env.ValidateTrace(vk.TLCRun{Name: "B status pings over a server's history", Module: "Status_Trace", Cfg: "Status_Trace.cfg", Workers: 1, Timeout: 10 * time.Minute}, "trace.ndjson", tr.Bytes())
	if err != nil {
		env.Infra("status histories: %v", err)
		return
	}
	if v.Accepted {
		env.AddTraces(int64(n))
		env.AddEval(int64(tr.N))
		env.Distinct("status-history")
		return
	}
	if v.HWM == 0 {
		env.Infra("status histories: no verdict\n%s", v.Res.Output)
		return
	}
	// the scenario of the first rejected line, run again alone: only a rejection that shows again is reported
	scn := 0
	for i, s := range starts {
		if s <= v.HWM {
			scn = i
		}
	}
	evs, err := jnStatusHistory(env.Seed, scn)
	if err != nil {
		env.Infra("status history (re-run): %v", err)
		return
	}
	tr2 := &vk.Trace{}
	for _, e := range evs {
		tr2.Add(e)
	}
	v2, err := env.ValidateTrace(vk.TLCRun{Name: "rejudge status history", Module: "Status_Trace", Cfg: "Status_Trace.cfg", Workers: 1, NoCount: true}, "trace.ndjson", tr2.Bytes())
	if err != nil || (!v2.Accepted && v2.HWM == 0) {
		env.Infra("status history %d: no verdict on the re-run: %v", scn, err)
		return
	}
	if v2.Accepted {
		env.Infra("status history %d: the rejection at line %d did not show again when the history was run alone", scn, v.HWM)
		return
	}
	env.Report("a status ping does not return what the status handler answers at the time of the request (a later ping on one server)",
		fmt.Sprintf("Status_Trace rejects line %d of history %d: %s (the handler's answer was: %s)", v2.HWM, scn, vkTrunc(mustJSON(evs[v2.HWM-1]), 500), vkTrunc(mustJSON(evs[v2.HWM-2]), 500)),
		map[string]any{"kind": "rerun", "seed": env.Seed, "tier": env.Tier})
}
