package main

// X08 (specification extension): the connection life cycle of go-mc/server across components.
// This file: the world one scenario runs in - in-memory duplex pipes that can tell whether their reader is blocked,
// gates (blocking points of the harness's own callbacks and of the scripted clients), the real server.Server assembled
// from MojangLoginHandler (offline), server.PlayerList (LoginChecker, status source, list of the GamePlay),
// server.Configurations / a configuration handler that waits, and the harness's GamePlay; the client side speaks the
// wire format with its own framing (no go-mc code on the client side). x08.go: scenarios, legs, judging.

import (
	"bufio"
	"encoding/json"
	"fmt"
	"io"
	"math/rand"
	"net"
	"runtime"
	"sync"
	"time"

	"github.com/Tnze/go-mc/chat"
	mcnet "github.com/Tnze/go-mc/net"
	pk "github.com/Tnze/go-mc/net/packet"
	"github.com/Tnze/go-mc/registry"
	"github.com/Tnze/go-mc/server"
	"github.com/Tnze/go-mc/yggdrasil/user"
	"github.com/google/uuid"
)

// ------------------------------------------------------------------ pipe

// slHalf is one direction of an in-memory duplex: an unbounded buffer (writes never block, like a socket with
// room in its buffers). It knows whether a reader is blocked on it.
type slHalf struct {
	mu      sync.Mutex
	cond    *sync.Cond
	buf     []byte
	wclose  bool // writer closed: readers drain, then io.EOF
	rclose  bool // reader closed: reads and writes fail
	waiting int  // readers inside cond.Wait
}

func newSlHalf() *slHalf { h := &slHalf{}; h.cond = sync.NewCond(&h.mu); return h }

func (h *slHalf) write(b []byte) (int, error) {
	h.mu.Lock()
	defer h.mu.Unlock()
	if h.wclose {
		return 0, net.ErrClosed
	}
	if h.rclose {
		return 0, io.ErrClosedPipe
	}
	h.buf = append(h.buf, b...)
	h.cond.Broadcast()
	return len(b), nil
}

func (h *slHalf) read(b []byte) (int, error) {
	h.mu.Lock()
	defer h.mu.Unlock()
	for {
		if h.rclose {
			return 0, net.ErrClosed
		}
		if len(h.buf) > 0 {
			n := copy(b, h.buf)
			h.buf = h.buf[n:]
			return n, nil
		}
		if h.wclose {
			return 0, io.EOF
		}
		h.waiting++
		h.cond.Wait()
		h.waiting--
	}
}

// idle: a reader is parked on this half and nothing will wake it up
func (h *slHalf) idle() bool {
	h.mu.Lock()
	defer h.mu.Unlock()
	return h.waiting > 0 && len(h.buf) == 0 && !h.wclose && !h.rclose
}

type slEnd struct {
	in, out *slHalf
	name    string
}

func slPipe() (cli, srv *slEnd) {
	x, y := newSlHalf(), newSlHalf()
	return &slEnd{in: x, out: y, name: "cli"}, &slEnd{in: y, out: x, name: "srv"}
}

func (p *slEnd) Read(b []byte) (int, error)  { return p.in.read(b) }
func (p *slEnd) Write(b []byte) (int, error) { return p.out.write(b) }
func (p *slEnd) Close() error {
	p.in.mu.Lock()
	p.in.rclose = true
	p.in.cond.Broadcast()
	p.in.mu.Unlock()
	p.out.mu.Lock()
	p.out.wclose = true
	p.out.cond.Broadcast()
	p.out.mu.Unlock()
	return nil
}
func (p *slEnd) LocalAddr() net.Addr              { return jnAddr(p.name) }
func (p *slEnd) RemoteAddr() net.Addr             { return jnAddr("peer-of-" + p.name) }
func (p *slEnd) SetDeadline(time.Time) error      { return nil }
func (p *slEnd) SetReadDeadline(time.Time) error  { return nil }
func (p *slEnd) SetWriteDeadline(time.Time) error { return nil }

// ------------------------------------------------------------------ events

// slEv is one line of the log; every field is always written (the trace specification reads records by field).
type slEv struct {
	K       string `json:"k"`
	C       int    `json:"c"`
	P       string `json:"p"`
	Op      string `json:"op"`
	R       int    `json:"r"`
	Err     bool   `json:"err"`
	Name    int    `json:"name"`
	UUID    int    `json:"uuid"`
	Proto   int    `json:"proto"`
	Conn    int    `json:"conn"`
	Mx      int    `json:"mx"`
	Sam     []int  `json:"sam"`
	Reason  string `json:"reason"`
	Cap     int    `json:"K"`
	Cmode   string `json:"cmode"`
	Intents []int  `json:"intents"`
	Scn     int    `json:"scn"`
}

type slLog struct {
	mu sync.Mutex
	ev []slEv
}

func (l *slLog) add(e slEv) {
	if e.Sam == nil {
		e.Sam = []int{}
	}
	if e.Intents == nil {
		e.Intents = []int{}
	}
	l.mu.Lock()
	l.ev = append(l.ev, e)
	l.mu.Unlock()
}

func (l *slLog) snapshot() []slEv {
	l.mu.Lock()
	defer l.mu.Unlock()
	return append([]slEv{}, l.ev...)
}

// ------------------------------------------------------------------ gates

// slGates: blocking points. In scripted runs (leg A) every callback of the harness parks at its gate until the driver
// releases it; in free runs the gates are absent (nil) and the callbacks only jitter.
type slGates struct {
	mu      sync.Mutex
	cond    *sync.Cond
	permits map[string]int
	parked  map[string]bool
	open    bool // aborted: everything passes
}

func newSlGates() *slGates {
	g := &slGates{permits: map[string]int{}, parked: map[string]bool{}}
	g.cond = sync.NewCond(&g.mu)
	return g
}

func slKey(c int, name string) string { return fmt.Sprint(c, "/", name) }

func (g *slGates) wait(c int, name string) {
	if g == nil {
		return
	}
	k := slKey(c, name)
	g.mu.Lock()
	g.parked[k] = true
	for g.permits[k] == 0 && !g.open {
		g.cond.Wait()
	}
	if g.permits[k] > 0 {
		g.permits[k]--
	}
	delete(g.parked, k)
	g.mu.Unlock()
}

func (g *slGates) release(c int, name string) {
	g.mu.Lock()
	g.permits[slKey(c, name)]++
	g.cond.Broadcast()
	g.mu.Unlock()
}

func (g *slGates) openAll() {
	if g == nil {
		return
	}
	g.mu.Lock()
	g.open = true
	g.cond.Broadcast()
	g.mu.Unlock()
}

// at: the gate name connection c is parked at ("" if none)
func (g *slGates) at(c int) string {
	g.mu.Lock()
	defer g.mu.Unlock()
	for _, n := range []string{"check", "cfg", "cfgret", "accept", "play", "online", "sample"} {
		k := slKey(c, n)
		if g.parked[k] && g.permits[k] == 0 && !g.open {
			return n
		}
	}
	return ""
}

// ------------------------------------------------------------------ world

type slConnCfg struct {
	Intent int    `json:"intent"` // 1 status, 2 login, 3 anything else
	Close  string `json:"close"`  // free runs: where the client closes its socket ("" never)
	Game   string `json:"game"`   // free runs: "stay" | "imm" | "decline"
	StayUs int    `json:"stay_us"`
	Garb   bool   `json:"garbage"` // intent 3: a handshake that does not parse instead of an unknown intention
}

type slScenario struct {
	ID       int         `json:"id"`
	Origin   string      `json:"origin"` // tlc-simulate | probe-* | random | listen
	Seed     int64       `json:"seed"`
	K        int         `json:"K"`
	Cmode    string      `json:"cmode"` // real | wait
	Thr      int         `json:"thr"`
	Conns    []slConnCfg `json:"conns"`
	Script   []slStep    `json:"script,omitempty"`
	Expect   []slState   `json:"expect,omitempty"` // the specification's state after every step of the script
	Jitter   int         `json:"jitter"`
	Resident int         `json:"resident"` // (unused by the specification: always 0)
}

type slStep struct {
	Op string `json:"op"`
	C  int    `json:"c"`
}

type slConn struct {
	c       int
	cfg     slConnCfg
	name    string
	proto   int
	ouuid   [16]byte
	cli     *slEnd
	srvEnd  *slEnd
	mc      *mcnet.Conn
	plc     *slPLClient
	rng     *rand.Rand // used by the connection's server goroutine (callbacks)
	started bool
	done    chan struct{}

	mu       sync.Mutex // the fields below
	alive    bool
	sent     int
	comp     bool // the client has seen Set Compression
	phase    string
	got      []string // kinds received, in order
	gotc     chan string
	rdDone   bool
	isDone   bool
	panicked bool
	// observations for the projection
	inside  bool
	acc     [4]int
	accSeen bool
	chk     string
	cres    string
	kicked  bool
	cfgok   bool
	son     int
	ssam    []int
	hasSam  bool
	cst     []int // online followed by the sample; nil = none
	cmd     string
}

type slPLClient struct {
	w *slWorld
	c *slConn
}

func (p *slPLClient) SendDisconnect(m chat.Message) {
	p.c.mu.Lock()
	p.c.kicked = true
	p.c.mu.Unlock()
}

type slWorld struct {
	sc     *slScenario
	log    *slLog
	pl     *server.PlayerList
	srv    *server.Server
	conns  []*slConn
	gates  *slGates
	byConn sync.Map // *mcnet.Conn -> *slConn
	byGo   sync.Map // goroutine id -> *slConn
	wg     sync.WaitGroup
	listen bool // connections go through Server.Listen over TCP
	stCur  int  // listen mode: the connection whose status ping is in progress
	stMu   sync.Mutex
}

func slName(scn, c int) string { return fmt.Sprintf("P%d_s%d", c, scn%1000) }

const slProtoBase = 760

func newSlWorld(sc *slScenario, scripted bool) *slWorld {
	w := &slWorld{sc: sc, log: &slLog{}, pl: server.NewPlayerList(sc.K)}
	if scripted {
		w.gates = newSlGates()
	}
	var cfgh server.ConfigHandler = &server.Configurations{Registries: registry.NewNetworkCodec()}
	if sc.Cmode == "wait" {
		cfgh = jnFinishOnly{}
	}
	w.srv = &server.Server{
		ListPingHandler: &slStatus{w: w, PingInfo: server.NewPingInfo("x08", slProtoBase, chat.Text("life cycle"), nil)},
		LoginHandler:    &slLogin{w: w, inner: &server.MojangLoginHandler{OnlineMode: false, Threshold: sc.Thr, LoginChecker: &slChecker{w: w}}},
		ConfigHandler:   &slConfig{w: w, inner: cfgh},
		GamePlay:        &slGame{w: w},
	}
	intents := make([]int, len(sc.Conns))
	for i, cc := range sc.Conns {
		intents[i] = cc.Intent
		c := &slConn{c: i + 1, cfg: cc, name: slName(sc.ID, i+1), proto: slProtoBase + i + 1, alive: true, son: -1, chk: "none", cres: "none",
			done: make(chan struct{}), gotc: make(chan string, 64), phase: "login"}
		copy(c.ouuid[:], jnOfflineUUID(c.name))
		c.rng = newRand(sc.Seed, fmt.Sprint("x08conn", sc.ID, "/", i+1))
		c.plc = &slPLClient{w: w, c: c}
		w.conns = append(w.conns, c)
	}
	w.log.add(slEv{K: "reset", Cap: sc.K, Cmode: sc.Cmode, Intents: intents, Scn: sc.ID})
	return w
}

func (w *slWorld) conn(c int) *slConn {
	if c < 1 || c > len(w.conns) {
		return nil
	}
	return w.conns[c-1]
}

// identity of a name / uuid / protocol number / connection as a connection number (0 = nobody's)
func (w *slWorld) nameIdx(name string) int {
	for _, c := range w.conns {
		if c.name == name {
			return c.c
		}
	}
	return 0
}
func (w *slWorld) uuidIdx(id [16]byte) int {
	for _, c := range w.conns {
		if c.ouuid == id {
			return c.c
		}
	}
	return 0
}
func (w *slWorld) protoIdx(p int) int {
	if p > slProtoBase && p <= slProtoBase+len(w.conns) {
		return p - slProtoBase
	}
	return 0
}
func (w *slWorld) connIdx(mc *mcnet.Conn) int {
	if v, ok := w.byConn.Load(mc); ok {
		return v.(*slConn).c
	}
	return 0
}
func (w *slWorld) me() *slConn {
	if v, ok := w.byGo.Load(goid()); ok {
		return v.(*slConn)
	}
	return nil
}

// listen mode (connections accepted by Server.Listen itself, goroutines not started by the harness): a connection is
// recognised by its protocol number / name; one status ping at a time
func (w *slWorld) meOr(c int) *slConn {
	if x := w.me(); x != nil || !w.listen {
		return x
	}
	return w.conn(c)
}

func (w *slWorld) jitter(c *slConn) {
	if w.gates != nil || w.sc.Jitter == 0 || c == nil {
		return
	}
	switch c.rng.Intn(4) {
	case 0:
		runtime.Gosched()
	case 1:
		time.Sleep(time.Duration(c.rng.Intn(w.sc.Jitter)+1) * time.Microsecond)
	}
}

func (w *slWorld) sample() []int {
	out := []int{}
	w.pl.Range(func(c server.PlayerListClient, _ server.PlayerSample) {
		if p, ok := c.(*slPLClient); ok {
			out = append(out, p.c.c)
		} else {
			out = append(out, 0)
		}
	})
	sortInts(out)
	return out
}

func sortInts(a []int) {
	for i := 1; i < len(a); i++ {
		for j := i; j > 0 && a[j-1] > a[j]; j-- {
			a[j-1], a[j] = a[j], a[j-1]
		}
	}
}

// connect: what the accept loop of Server.Listen does with a new connection
func (w *slWorld) connect(c *slConn) {
	c.cli, c.srvEnd = slPipe()
	c.mc = mcnet.WrapConn(c.srvEnd)
	w.byConn.Store(c.mc, c)
	c.started = true
	w.log.add(slEv{K: "conn", C: c.c})
	w.wg.Add(2)
	go func() {
		defer w.wg.Done()
		id := goid()
		w.byGo.Store(id, c)
		panicked, msg := catch(func() { w.srv.AcceptConn(c.mc) })
		w.byGo.Delete(id)
		c.mu.Lock()
		c.isDone, c.panicked = true, panicked
		c.mu.Unlock()
		if panicked {
			w.log.add(slEv{K: "panic", C: c.c, Reason: vkTrunc(msg, 200)})
			c.srvEnd.Close()
		}
		w.log.add(slEv{K: "done", C: c.c})
		close(c.done)
	}()
	go func() { defer w.wg.Done(); w.clientReader(c) }()
}

// ------------------------------------------------------------------ the harness's callbacks

type slChecker struct{ w *slWorld }

func (k *slChecker) CheckPlayer(name string, id uuid.UUID, protocol int32) (bool, chat.Message) {
	w := k.w
	c := w.meOr(w.nameIdx(name))
	if c == nil {
		return w.pl.CheckPlayer(name, id, protocol)
	}
	w.gates.wait(c.c, "check")
	w.jitter(c)
	w.log.add(slEv{K: "start", C: c.c, Op: "check", Name: w.nameIdx(name), UUID: w.uuidIdx(id), Proto: w.protoIdx(int(protocol))})
	ok, reason := w.pl.CheckPlayer(name, id, protocol)
	r := 0
	if ok {
		r = 1
	}
	c.mu.Lock()
	c.chk = map[bool]string{true: "ok", false: "full"}[ok]
	c.mu.Unlock()
	w.log.add(slEv{K: "end", C: c.c, Op: "check", R: r, Reason: slMsgToken(reason)})
	w.jitter(c)
	return ok, reason
}

// slMsgToken: the translation key of a pure translation message, "" for the empty message
func slMsgToken(m chat.Message) string {
	if m.Text == "" && len(m.Extra) == 0 && len(m.With) == 0 {
		return m.Translate
	}
	return "other"
}

type slLogin struct {
	w     *slWorld
	inner server.LoginHandler
}

func (l *slLogin) AcceptLogin(conn *mcnet.Conn, protocol int32) (string, uuid.UUID, *user.PublicKey, []user.Property, error) {
	w := l.w
	if w.listen {
		if c := w.conn(w.protoIdx(int(protocol))); c != nil {
			w.byConn.Store(conn, c)
		}
	}
	name, id, key, props, err := l.inner.AcceptLogin(conn, protocol)
	if ci := w.connIdx(conn); ci != 0 { // (connections of Server.Listen that are not part of the scenario are not recorded)
		w.log.add(slEv{K: "lret", C: ci, Err: err != nil, Name: w.nameIdx(name), UUID: w.uuidIdx(id), Reason: slErrText(err)})
	}
	return name, id, key, props, err
}

func slErrText(err error) string {
	if err == nil {
		return ""
	}
	return vkTrunc(err.Error(), 80)
}

type slConfig struct {
	w     *slWorld
	inner server.ConfigHandler
}

func (h *slConfig) AcceptConfig(conn *mcnet.Conn) error {
	w := h.w
	c := w.conn(w.connIdx(conn))
	if c == nil {
		return h.inner.AcceptConfig(conn)
	}
	w.gates.wait(c.c, "cfg")
	w.log.add(slEv{K: "cfgbeg", C: c.c})
	err := h.inner.AcceptConfig(conn)
	c.mu.Lock()
	c.cfgok = err == nil
	c.mu.Unlock()
	w.log.add(slEv{K: "cfgret", C: c.c, Err: err != nil, Reason: slErrText(err)})
	w.gates.wait(c.c, "cfgret")
	return err
}

type slStatus struct {
	w *slWorld
	*server.PingInfo
}

func (s *slStatus) MaxPlayer() int { return s.w.pl.MaxPlayer() }
func (w *slWorld) statusCur() int  { w.stMu.Lock(); defer w.stMu.Unlock(); return w.stCur }
func (s *slStatus) OnlinePlayer() int {
	w := s.w
	c := w.meOr(w.statusCur())
	if c == nil {
		return w.pl.OnlinePlayer()
	}
	w.gates.wait(c.c, "online")
	w.jitter(c)
	w.log.add(slEv{K: "start", C: c.c, Op: "online"})
	n := w.pl.OnlinePlayer()
	c.mu.Lock()
	c.son = n
	c.mu.Unlock()
	w.log.add(slEv{K: "end", C: c.c, Op: "online", R: n})
	w.jitter(c)
	return n
}
func (s *slStatus) PlayerSamples() []server.PlayerSample {
	w := s.w
	c := w.meOr(w.statusCur())
	if c == nil {
		return w.pl.PlayerSamples()
	}
	w.gates.wait(c.c, "sample")
	w.jitter(c)
	w.log.add(slEv{K: "start", C: c.c, Op: "sample"})
	sm := w.pl.PlayerSamples()
	idx := []int{}
	for _, p := range sm {
		idx = append(idx, w.nameIdx(p.Name))
	}
	sortInts(idx)
	c.mu.Lock()
	c.ssam, c.hasSam = idx, true
	c.mu.Unlock()
	w.log.add(slEv{K: "end", C: c.c, Op: "sample", Sam: idx})
	w.jitter(c)
	return sm
}

type slGame struct{ w *slWorld }

func (g *slGame) AcceptPlayer(name string, id uuid.UUID, _ *user.PublicKey, _ []user.Property, protocol int32, conn *mcnet.Conn) {
	w := g.w
	ci := w.connIdx(conn)
	c := w.me()
	if c == nil {
		c = w.conn(ci)
	}
	if c == nil {
		return
	}
	acc := [4]int{w.nameIdx(name), w.uuidIdx(id), w.protoIdx(int(protocol)), ci}
	c.mu.Lock()
	c.inside, c.acc, c.accSeen = true, acc, true
	c.mu.Unlock()
	w.log.add(slEv{K: "accept", C: c.c, Name: acc[0], UUID: acc[1], Proto: acc[2], Conn: acc[3]})
	ret := func() {
		c.mu.Lock()
		c.inside = false
		c.mu.Unlock()
		w.log.add(slEv{K: "ret", C: c.c})
	}
	defer ret()
	mode := c.cfg.Game
	if w.gates != nil {
		w.gates.wait(c.c, "accept")
		c.mu.Lock()
		mode = c.cmd
		c.mu.Unlock()
	}
	w.jitter(c)
	if mode == "decline" {
		return
	}
	w.log.add(slEv{K: "start", C: c.c, Op: "join"})
	w.pl.ClientJoin(c.plc, server.PlayerSample{Name: name, ID: id})
	c.mu.Lock()
	kicked := c.kicked
	c.mu.Unlock()
	r := 1
	if kicked {
		r = 0
	}
	w.log.add(slEv{K: "end", C: c.c, Op: "join", R: r})
	if kicked {
		return
	}
	switch {
	case w.gates != nil:
		w.gates.wait(c.c, "play")
	case mode == "imm":
		w.jitter(c)
	default: // stay: until the client is gone or the session's time is up
		gone := make(chan struct{})
		go func() {
			var p pk.Packet
			for conn.ReadPacket(&p) == nil {
			}
			close(gone)
		}()
		select {
		case <-gone:
		case <-time.After(time.Duration(c.cfg.StayUs) * time.Microsecond):
		}
	}
	w.log.add(slEv{K: "start", C: c.c, Op: "left"})
	w.pl.ClientLeft(c.plc)
	w.log.add(slEv{K: "end", C: c.c, Op: "left"})
}

// ------------------------------------------------------------------ client side (own framing, no go-mc)

func slPutVarInt(b []byte, v int) []byte {
	u := uint32(int32(v))
	for {
		if u&^0x7f == 0 {
			return append(b, byte(u))
		}
		b = append(b, byte(u&0x7f|0x80))
		u >>= 7
	}
}

func slPutString(b []byte, s string) []byte { return append(slPutVarInt(b, len(s)), s...) }

// send writes one packet in the framing the client is in (plain, or the compressed format with data length 0)
func (w *slWorld) send(c *slConn, kind string, id int, data []byte) {
	c.mu.Lock()
	comp := c.comp
	c.sent++
	c.mu.Unlock()
	body := []byte{}
	if comp {
		body = append(body, 0)
	}
	body = append(slPutVarInt(body, id), data...)
	frame := append(slPutVarInt(nil, len(body)), body...)
	w.log.add(slEv{K: "csend", C: c.c, P: kind})
	c.cli.Write(frame)
}

func (w *slWorld) sendKind(c *slConn, kind string) {
	switch kind {
	case "handshake":
		intention := c.cfg.Intent
		if intention == 3 {
			intention = 7
		}
		d := slPutVarInt(nil, c.proto)
		d = slPutString(d, "x08.test")
		d = append(d, 0x63, 0xdd)
		d = slPutVarInt(d, intention)
		if c.cfg.Garb {
			d = []byte{0xff, 0xff, 0xff, 0xff, 0xff, 0xff} // a VarInt that never ends
		}
		w.send(c, kind, 0, d)
	case "loginstart":
		d := slPutString(nil, c.name)
		foreign := [16]byte{0xde, 0xad, byte(c.c)} // the client's own idea of its UUID is ignored in offline mode
		w.send(c, kind, 0, append(d, foreign[:]...))
	case "ack": // (the phase changes before the packet leaves: the server's answer may be read at once)
		c.mu.Lock()
		c.phase = "config"
		c.mu.Unlock()
		w.send(c, kind, 3, nil)
	case "finishack":
		w.send(c, kind, 3, nil)
	case "statusreq":
		w.send(c, kind, 0, nil)
	case "ping":
		pay := 1000 + c.c
		w.send(c, kind, 1, []byte{0, 0, 0, 0, 0, 0, byte(pay >> 8), byte(pay)})
	}
}

// closeClient: from the cclose line on the client does not look at what arrives any more (the reader logs under the
// same mutex, so a packet is either received before the close or not at all)
func (w *slWorld) closeClient(c *slConn) {
	c.mu.Lock()
	was := c.alive
	c.alive = false
	if was {
		w.log.add(slEv{K: "cclose", C: c.c})
	}
	c.mu.Unlock()
	if was {
		c.cli.Close()
	}
}

// clientReader decodes what the server sends to connection c and logs the packets that matter to the specification.
func (w *slWorld) clientReader(c *slConn) {
	defer func() {
		c.mu.Lock()
		c.rdDone = true
		c.mu.Unlock()
		close(c.gotc)
	}()
	rd := bufio.NewReaderSize(c.cli, 1<<16)
	note := func(kind string, e slEv) {
		e.K, e.C, e.P = "crecv", c.c, kind
		c.mu.Lock()
		if !c.alive {
			c.mu.Unlock()
			return
		}
		w.log.add(e)
		c.got = append(c.got, kind)
		c.mu.Unlock()
		select {
		case c.gotc <- kind:
		default:
		}
	}
	quiet := func(kind string) {
		select {
		case c.gotc <- kind:
		default:
		}
	}
	for {
		l, err := slReadVarInt(rd)
		if err != nil || l < 0 || l > 1<<21 {
			c.mu.Lock()
			alive := c.alive
			c.mu.Unlock()
			if err == io.EOF && alive {
				note("eof", slEv{})
			}
			return
		}
		body := make([]byte, l)
		if _, err := io.ReadFull(rd, body); err != nil {
			return
		}
		c.mu.Lock()
		comp, phase := c.comp, c.phase
		c.mu.Unlock()
		var id int
		var data []byte
		if comp {
			ok, _, i, d := jnTryComp(body)
			if !ok {
				note("other", slEv{Reason: "unreadable compressed frame"})
				continue
			}
			id, data = i, d
		} else {
			i, n, ok := jnVarInt(body)
			if !ok {
				note("other", slEv{Reason: "unreadable frame"})
				continue
			}
			id, data = i, body[n:]
		}
		switch {
		case c.cfg.Intent == 1 && id == 0: // status response
			st := slStatusOf(w, data)
			if st == nil {
				note("other", slEv{Reason: "status response does not parse"})
				continue
			}
			c.mu.Lock()
			c.cst = append([]int{st.on}, st.sam...)
			c.mu.Unlock()
			note("status", slEv{R: st.on, Mx: st.mx, Sam: st.sam})
		case c.cfg.Intent == 1 && id == 1 && len(data) == 8:
			note("pong", slEv{R: int(data[6])<<8 | int(data[7])})
		case phase == "login" && id == 3: // set compression
			c.mu.Lock()
			c.comp = true
			c.mu.Unlock()
			quiet("setcomp")
		case phase == "login" && id == 0: // login disconnect
			c.mu.Lock()
			c.cres = "disc"
			c.mu.Unlock()
			note("disc", slEv{Reason: slReasonToken(data)})
		case phase == "login" && id == 2: // login success: UUID, name, properties
			e := slEv{}
			if len(data) > 16 {
				var u [16]byte
				copy(u[:], data[:16])
				e.UUID = w.uuidIdx(u)
				if s, _, ok := jnString(data[16:]); ok {
					e.Name = w.nameIdx(string(s))
				}
			}
			c.mu.Lock()
			c.cres = "succ"
			c.mu.Unlock()
			note("success", e)
		case phase == "config" && id == 3: // finish configuration
			note("finish", slEv{})
		default:
			quiet("other")
		}
	}
}

func slReadVarInt(r io.ByteReader) (int, error) {
	var u uint32
	for i := 0; i < 5; i++ {
		b, err := r.ReadByte()
		if err != nil {
			return 0, err
		}
		u |= uint32(b&0x7f) << (7 * uint(i))
		if b&0x80 == 0 {
			return int(int32(u)), nil
		}
	}
	return 0, fmt.Errorf("VarInt too long")
}

// slReasonToken reads a text component in network NBT form: a compound with the single string "translate"
// (what chat.TranslateMsg produces), or a plain string tag.
func slReasonToken(d []byte) string {
	str := func(b []byte) (string, []byte, bool) {
		if len(b) < 2 {
			return "", nil, false
		}
		n := int(b[0])<<8 | int(b[1])
		if len(b) < 2+n {
			return "", nil, false
		}
		return string(b[2 : 2+n]), b[2+n:], true
	}
	if len(d) > 0 && d[0] == 8 {
		if s, rest, ok := str(d[1:]); ok && len(rest) == 0 {
			return "text:" + s
		}
	}
	if len(d) > 2 && d[0] == 10 && d[1] == 8 {
		if k, rest, ok := str(d[2:]); ok && k == "translate" {
			if v, rest2, ok2 := str(rest); ok2 && len(rest2) == 1 && rest2[0] == 0 {
				return v
			}
		}
	}
	return "other:" + jnSha(d)
}

type slStatusDoc struct {
	on, mx int
	sam    []int
}

func slStatusOf(w *slWorld, data []byte) *slStatusDoc {
	js, n, ok := jnString(data)
	if !ok || n != len(data) {
		return nil
	}
	var doc struct {
		Players struct {
			Max    *int `json:"max"`
			Online *int `json:"online"`
			Sample []struct {
				Name string `json:"name"`
				ID   string `json:"id"`
			} `json:"sample"`
		} `json:"players"`
	}
	if json.Unmarshal(js, &doc) != nil || doc.Players.Max == nil || doc.Players.Online == nil {
		return nil
	}
	st := &slStatusDoc{on: *doc.Players.Online, mx: *doc.Players.Max, sam: []int{}}
	for _, p := range doc.Players.Sample {
		st.sam = append(st.sam, w.nameIdx(p.Name))
	}
	sortInts(st.sam)
	return st
}
