package main

// X12: specification extension - the HTTP account clients of go-mc as token / session state machines:
//   yggdrasil (Authenticate, Access.Refresh / Validate / Invalidate / SetTokens, SignOut), the session-server half of a
//   login (bot/login.go loginAuth = join, server/auth/auth.go authentication = hasJoined)   -> specs/YggSession*.tla
//   realms (New, Available, Compatible, TOS, Worlds, Server, Address, Backups, Ops, SubscriptionLife, Invite)
//                                                                                          -> specs/Realms*.tla
// There is NO network: http.DefaultTransport is replaced by an in-memory http.RoundTripper that hands every request
// to the MODEL SERVER of the call in flight (x12_ygg.go: ygServer, x12_realms.go: rlServer) and records it; the base
// URLs yggdrasil.AuthURL and realms.Domain point to .invalid hosts, the session server's URL is a constant in the code
// and reaches the same RoundTripper.  No socket is ever opened.  The two unexported session calls are reached through
// overlay shims (overlays/bot_x12_export.go, overlays/serverauth_x12_export.go).
// Each module has two layers: Step(FALSE, ..) the INTENT, Step(TRUE, ..) the clients AS CODED; Named/Class say where
// they part.
// Leg S:  TLC explores <Module>_MC exhaustively on the intent; the model of the code (Variant = "code") is EXPECTED to
//         violate named properties (the model-level form of the findings); Variant = "broken" is a vacuity guard.
// Leg A:  TLC -simulate behaviours of <Module>_Gen (the code layer) are replayed on the real clients against the model
//         server; client state, server state, result, error kind and the recorded requests are compared with TLC's
//         after every call.
// Leg B:  long seeded random histories and hazard scenarios for the named classes.
// All executions (A and B) are recorded as ndjson and judged by <Module>_Trace in TLC (every line an independent
// initial state, state before = projection on the previous line; the specification prints the failed checks).
// An extension check never raises VIOLATION: rejections are `NOTE spec-extension <Module> finding: ...`, exit code 0.
// The generic plumbing (findings book, TLC slot budget, per-line judge, behaviour parser, op / real-object / replay
// machinery) is shared with X02 (x02.go) and X04 (x04.go).

import (
	"bytes"
	"encoding/json"
	"errors"
	"fmt"
	"io"
	"net/http"
	"os"
	"path/filepath"
	"sort"
	"strings"
	"sync"

	"github.com/Tnze/go-mc/realms"
	"github.com/Tnze/go-mc/yggdrasil"
	"verif/harness/vk"
)

func init() { drivers["X12"] = driver{run: runX12, replay: replayX12} }

// ------------------------------------------------------------------ the in-memory transport

// x12Handler is a model server: it gets every request of the call in flight (body already read).
type x12Handler interface {
	serve(req *http.Request, body []byte) (*http.Response, error)
}

// One real call at a time: yggdrasil.AuthURL, realms.Domain, http.DefaultTransport and the session server's URL are
// process-wide, the model server of a call is found through x12Cur.
var (
	x12Mu      sync.Mutex
	x12Cur     x12Handler
	x12Once    sync.Once
	x12Strays  int // requests that arrived outside a call (there must be none)
	x12StrayMu sync.Mutex
)

type x12Transport struct{}

func (x12Transport) RoundTrip(req *http.Request) (*http.Response, error) {
	var body []byte
	if req.Body != nil {
		body, _ = io.ReadAll(req.Body)
		req.Body.Close()
	}
	h := x12Cur
	if h == nil {
		x12StrayMu.Lock()
		x12Strays++
		x12StrayMu.Unlock()
		return nil, errors.New("x12: request outside a modelled call (no network in this check)")
	}
	return h.serve(req, body)
}

const (
	x12AuthHost    = "authserver.x12.invalid"
	x12RealmsHost  = "pc.realms.x12.invalid"
	x12SessionHost = "sessionserver.mojang.com" // a constant in bot/login.go and server/auth/auth.go
)

func x12Install() {
	x12Once.Do(func() {
		http.DefaultTransport = x12Transport{}
		http.DefaultClient.Transport = nil // = DefaultTransport at call time
		yggdrasil.AuthURL = "https://" + x12AuthHost
		realms.Domain = "https://" + x12RealmsHost
	})
}

// x12Call runs one call of the real code against the model server h.
func x12Call(h x12Handler, f func()) {
	x12Mu.Lock()
	defer x12Mu.Unlock()
	x12Install()
	x12Cur = h
	defer func() { x12Cur = nil }()
	f()
}

// x12Fault is the fault of the specification: k = none | http | transport | lost.
type x12Fault struct {
	K  string
	St int
	B  string
}

func x12FaultOf(op x4Op) x12Fault {
	f := x12Fault{K: x4Str(op["fk"]), St: x4Num(op["fst"]), B: x4Str(op["fb"])}
	if f.K == "" {
		f.K, f.B = "none", "none"
	}
	return f
}

func (f x12Fault) processed() bool { return f.K == "none" || f.K == "lost" }

// status concretises the status class; `avoid` are the statuses the protocol gives a meaning to at this endpoint.
func (f x12Fault) status(n int) int {
	if f.St == 4 {
		return []int{429, 400, 404, 401}[n%4]
	}
	return []int{500, 503, 502}[n%3]
}

// x12Body is a response body that knows whether it was closed and can break in the middle.
type x12Body struct {
	r      io.Reader
	fail   error
	closed *bool
}

func (b *x12Body) Read(p []byte) (int, error) {
	n, err := b.r.Read(p)
	if err == io.EOF && b.fail != nil {
		err = b.fail
	}
	return n, err
}
func (b *x12Body) Close() error { *b.closed = true; return nil }

// x12Log is the part every model server has: the requests of the call in flight and the bodies handed out.
type x12Log struct {
	reqs   []map[string]any
	bodies []*bool
}

func (l *x12Log) begin() { l.reqs, l.bodies = []map[string]any{}, nil }
func (l *x12Log) open() int {
	n := 0
	for _, c := range l.bodies {
		if !*c {
			n++
		}
	}
	return n
}

func (l *x12Log) reply(req *http.Request, status int, ctype, body string, fail error) *http.Response {
	h := http.Header{}
	if ctype != "" {
		h.Set("Content-Type", ctype)
	}
	closed := new(bool)
	l.bodies = append(l.bodies, closed)
	cl := int64(len(body))
	if fail != nil {
		cl = -1
	}
	return &http.Response{StatusCode: status, Status: fmt.Sprintf("%d %s", status, http.StatusText(status)), Proto: "HTTP/1.1", ProtoMajor: 1, ProtoMinor: 1,
		Header: h, Body: &x12Body{r: strings.NewReader(body), fail: fail, closed: closed}, ContentLength: cl, Request: req}
}

var errX12Net = errors.New("x12: connection reset by peer (model fault)")

// faultReply answers a request that meets an http fault; docBody is the endpoint family's error document.
func (l *x12Log) faultReply(req *http.Request, f x12Fault, n int, docBody string) *http.Response {
	st := f.status(n)
	switch f.B {
	case "errdoc":
		return l.reply(req, st, "application/json", docBody, nil)
	case "empty":
		return l.reply(req, st, "", "", nil)
	case "html":
		return l.reply(req, st, "text/html", fmt.Sprintf("<html><head><title>%d %s</title></head><body>upstream error</body></html>", st, http.StatusText(st)), nil)
	default: // json: a JSON object that is no error document
		return l.reply(req, st, "application/json", []string{`{}`, fmt.Sprintf(`{"timestamp":1700000000000,"status":%d,"message":"%s"}`, st, http.StatusText(st))}[n%2], nil)
	}
}

// x12Keys lists the member names of a JSON document ("a.b" for nested objects), sorted.
func x12Keys(body []byte) ([]string, map[string]any) {
	keys := []string{}
	flat := map[string]any{}
	if len(bytes.TrimSpace(body)) == 0 {
		return keys, flat
	}
	var v any
	dec := json.NewDecoder(bytes.NewReader(body))
	if err := dec.Decode(&v); err != nil {
		return []string{"?not-json"}, flat
	}
	var walk func(prefix string, v any)
	walk = func(prefix string, v any) {
		m, ok := v.(map[string]any)
		if !ok || len(m) == 0 {
			keys = append(keys, prefix)
			flat[prefix] = v
			return
		}
		for k, e := range m {
			p := k
			if prefix != "" {
				p = prefix + "." + k
			}
			walk(p, e)
		}
	}
	if m, ok := v.(map[string]any); ok {
		for k, e := range m {
			walk(k, e)
		}
	} else {
		keys = append(keys, "?not-an-object")
	}
	sort.Strings(keys)
	return keys, flat
}

func x12B2I(b bool) int {
	if b {
		return 1
	}
	return 0
}

// ------------------------------------------------------------------ findings (same book as X02, own replay files)

func x12Flush(env *vk.Env, b *x2Book) {
	keys := make([]string, 0, len(b.m))
	for k := range b.m {
		keys = append(keys, k)
	}
	sort.Strings(keys)
	for _, k := range keys {
		f := b.m[k]
		where := ""
		if f.replay != nil && env.Replay == "" {
			name := f.sig
			if i := strings.Index(name, " - "); i > 0 {
				name = name[:i]
			}
			name = strings.Map(func(r rune) rune {
				if r >= 'a' && r <= 'z' || r >= 'A' && r <= 'Z' || r >= '0' && r <= '9' {
					return r
				}
				return '_'
			}, name)
			p := filepath.Join(vk.Root, "out", "replays", fmt.Sprintf("X12-%s-%s.json", f.module, name))
			os.MkdirAll(filepath.Dir(p), 0o755)
			body, _ := json.Marshal(map[string]any{"property": "X12", "signature": f.sig, "detail": f.first,
				"replay": map[string]any{"module": f.module, "scenario": f.replay, "seed": env.Seed}})
			if os.WriteFile(p, body, 0o644) == nil {
				where = "; replay=" + p
			}
		}
		env.Note("spec-extension %s finding: %s (%d events; first: %s%s)", f.module, f.sig, f.n, vkTrunc(f.first, 420), where)
	}
	if len(keys) == 0 {
		env.Note("spec-extension X12: no finding in this run")
	}
}

// x12Canon: parsed TLC values -> plain JSON-able data with sets as sorted lists (rows compared as JSON text).
func x12Rows(v any) [][]int {
	out := [][]int{}
	for _, e := range x4List(v) {
		out = append(out, x4IntList(e))
	}
	sort.Slice(out, func(i, j int) bool {
		for k := 0; k < len(out[i]) && k < len(out[j]); k++ {
			if out[i][k] != out[j][k] {
				return out[i][k] < out[j][k]
			}
		}
		return len(out[i]) < len(out[j])
	})
	return out
}

func x12SortedInts(v any) []int {
	out := x4IntList(v)
	sort.Ints(out)
	return out
}

// x12Reqs: the reqs of a TLC act (records) as plain maps.
func x12Reqs(v any) []map[string]any {
	out := []map[string]any{}
	for _, e := range x4List(v) {
		m, _ := x4Canon(e).(map[string]any)
		out = append(out, m)
	}
	return out
}

// ------------------------------------------------------------------ driver

func runX12(env *vk.Env) {
	x12Install()
	env.Cov.Rule = "Specification extension, not one of the listed properties: rejections are NOTE findings, never violations. " +
		"S: YggSession_MC (1 slot x 2 users x 3 access tokens x 2 Authenticate calls with five faults, and 2 slots x 1 user with three faults; thorough: 2 slots x 2 users x 2 tokens, " +
		"2 slots x 1 user x 3 tokens, 1 slot with every fault: TypeOK, ValidUnique, RevokedStays, Agree = intent and model of the code part in the named classes only; ViewAgrees, FailedKeeps, NoSilentSuccess, " +
		"UnprocessedNoEffect, RefreshRotates, GrantRule, EndRule, JoinRule, HasJoinedRule, OneRequest), Realms_MC (1 (2) owned, 1 (2) member, 1 foreign, 1 missing world, " +
		"2 (3) player names, six (all ten) faults: TypeOK, Agree; TosRule, ViewAgrees, NoSilentSuccess, OwnerOnly, InviteRule, UnprocessedNoEffect, OneRequest, BodiesClosed); " +
		"for each module the model of the code (Variant = code) is expected to violate named properties and a deliberately broken variant must be rejected. " +
		"A: TLC -simulate behaviours of the code layer (3 users, 3 slots, 2 server ids, injecting / garbling names; 2+2+1+1 worlds, 4 players; every fault on a third of the calls) " +
		"replayed on the real clients against the in-memory model server; client state, server state, result, error kind and recorded requests compared after every call. " +
		"B: seeded random histories (login flows, token rotation, saved sessions copied between Access values, stale / empty / unknown tokens, sign-out of a user with " +
		"several sessions, join + hasJoined with matching and foreign server hashes, every fault class) and hazard scenarios for the named classes. Every execution is judged " +
		"per line by YggSession_Trace / Realms_Trace. Distinct = distinct (module, call, fault class, outcome) in judged traces."
	env.Assume = []string{
		"no network: http.DefaultTransport is an in-memory RoundTripper; yggdrasil.AuthURL and realms.Domain point to .invalid hosts; requests to the constant session-server URL reach the same RoundTripper",
		"the model server implements the documented Yggdrasil answers (wiki.vg: authenticate / refresh / validate / invalidate / signout, session join / hasJoined) and the Realms answers in the JSON shapes the go-mc client decodes (e.g. backups as a list of numbers)",
		"fault statuses are 400 / 401 / 404 / 429 and 500 / 502 / 503, never a status the protocol gives a meaning to (200, 204, 403)",
		"user names, versions, tokens and uuids are [A-Za-z0-9._@-]+ (cookie values need no quoting); the names of the HasJoinedQuery class contain `&serverId=0#`, `+` or `%xx`",
		"loginAuth / authentication are called through overlay shims without the encryption handshake around them; the server hash is derived with the server's own authDigest",
		"calls are serialised (the URLs and the transport are process-wide); concurrency is out of scope",
	}
	book := &x2Book{}
	var wg sync.WaitGroup
	run := func(f func()) {
		wg.Add(1)
		go func() { defer wg.Done(); f() }()
	}
	if x2Leg("S") {
		run(func() { ygSpecLeg(env, book) })
		run(func() { rlSpecLeg(env, book) })
	}
	run(func() { ygLegs(env, book) })
	run(func() { rlLegs(env, book) })
	wg.Wait()
	if x12Strays > 0 {
		env.Infra("%d requests reached the transport outside a modelled call", x12Strays)
	}
	x12Flush(env, book)
	env.Cov.Exhaustive = x2Leg("S")
}

func x12CompOf(module string) *x4Comp {
	switch module {
	case "YggSession":
		return ygComp()
	case "Realms":
		return rlComp()
	}
	return nil
}

func replayX12(env *vk.Env, b []byte) {
	x12Install()
	var f struct {
		Replay struct {
			Module string     `json:"module"`
			Sc     x4Scenario `json:"scenario"`
			Seed   int64      `json:"seed"`
		} `json:"replay"`
	}
	if err := json.Unmarshal(b, &f); err != nil {
		env.Infra("replay: %v", err)
		return
	}
	if f.Replay.Seed != 0 {
		env.Seed = f.Replay.Seed
	}
	c := x12CompOf(f.Replay.Module)
	if c == nil {
		env.Infra("replay: unknown module %q", f.Replay.Module)
		return
	}
	book := &x2Book{}
	t := &x2Trace{}
	x4Run(c, f.Replay.Sc, t, book, nil)
	x2Judge(env, book, "replay", c.module, c.module+"_Trace", c.checks, t, 1)
	x12Flush(env, book)
	env.Cov.States, env.Cov.Transitions = 1, 1
	env.Sample(f.Replay.Module)
}
