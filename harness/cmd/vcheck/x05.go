package main

// X05: specification extension, two pieces.
//  (a) server/internal/bvh (x05_bvh.go): specs/BVH.tla (+_Gen, _Trace).
//      Leg S: TLC explores BVH_MC exhaustively (every sibling choice, the rotations and refits as written) and must
//             reject the deliberately broken variants; BVH_MC_tight is EXPECTED to fail (Delete leaves the root's bound stale).
//      Leg A: TLC -simulate behaviours replayed on the real tree, the projected tree compared after every step.
//      Leg B: long seeded random histories (insert / delete / find) and stateless bound calls (AABB 2D/3D, Sphere).
//      All executions are judged per line by BVH_Trace.
//  (b) save (x05_save.go): every fixture under save/testdata (level.dat, player data, region chunks, entities, poi) is
//      decoded into the typed structs, re-encoded and decoded again; the events are judged by the EXISTING NBT
//      specification (NBT_Trace: DecDoc / EncodeGo).
// An extension check never raises VIOLATION: what the specification rejects is printed as
// `NOTE spec-extension <Module> finding: <Check> - <text> (...)` and the exit code stays 0 (2 = infrastructure).

import (
	"encoding/json"
	"fmt"
	"os"
	"path/filepath"
	"sort"
	"strings"
	"sync"

	"verif/harness/vk"
)

func init() { drivers["X05"] = driver{run: runX05, replay: replayX05} }

// x5Book collects findings (module, check) like the book of X02; the replay files are named X05-*.
type x5Book struct{ x2Book }

func (b *x5Book) flush(env *vk.Env) {
	keys := make([]string, 0, len(b.m))
	for k := range b.m {
		keys = append(keys, k)
	}
	sort.Strings(keys)
	for _, k := range keys {
		f := b.m[k]
		where := ""
		if f.replay != nil && env.Replay == "" {
			name := f.sig
			if i := strings.Index(name, " - "); i > 0 {
				name = name[:i]
			}
			name = strings.Map(func(r rune) rune {
				if r >= 'a' && r <= 'z' || r >= 'A' && r <= 'Z' || r >= '0' && r <= '9' {
					return r
				}
				return '_'
			}, name)
			p := filepath.Join(vk.Root, "out", "replays", fmt.Sprintf("X05-%s-%s.json", f.module, name))
			os.MkdirAll(filepath.Dir(p), 0o755)
			body, _ := json.Marshal(map[string]any{"property": "X05", "signature": f.sig, "detail": f.first,
				"replay": map[string]any{"module": f.module, "scenario": f.replay, "seed": env.Seed}})
			if os.WriteFile(p, body, 0o644) == nil {
				where = "; replay=" + p
			}
		}
		env.Note("spec-extension %s finding: %s (%d events; first: %s%s)", f.module, f.sig, f.n, vkTrunc(f.first, 420), where)
	}
	if len(keys) == 0 {
		env.Note("spec-extension X05: no finding in this run")
	}
}

// x5Part selects the pieces: VERIF_X05=bvh | save (default both).
func x5Part(name string) bool {
	p := os.Getenv("VERIF_X05")
	if p == "" {
		return true
	}
	for _, x := range strings.Split(p, ",") {
		if x == name {
			return true
		}
	}
	return false
}

func runX05(env *vk.Env) {
	env.Cov.Rule = "Specification extension, not one of the listed properties: rejections are NOTE findings, never violations. " + x5BvhRule + " " + x5SaveRule +
		" Distinct = distinct (module, event kind, outcome class) in judged traces."
	env.Assume = append(append([]string{}, x5BvhAssume...), x5SaveAssume...)
	book := &x5Book{}
	var wg sync.WaitGroup
	run := func(f func()) {
		wg.Add(1)
		go func() { defer wg.Done(); f() }()
	}
	if x5Part("bvh") {
		if x2Leg("S") {
			run(func() { x5BvhSpecLeg(env, book) })
		}
		run(func() { x5BvhLegs(env, book) })
	}
	if x5Part("save") {
		run(func() { x5SaveLegs(env, book) })
	}
	wg.Wait()
	book.flush(env)
	env.Cov.Exhaustive = x2Leg("S") && x5Part("bvh")
}

func replayX05(env *vk.Env, b []byte) {
	var f struct {
		Replay struct {
			Module string          `json:"module"`
			Sc     json.RawMessage `json:"scenario"`
			Seed   int64           `json:"seed"`
		} `json:"replay"`
	}
	if err := json.Unmarshal(b, &f); err != nil {
		env.Infra("replay: %v", err)
		return
	}
	if f.Replay.Seed != 0 {
		env.Seed = f.Replay.Seed
	}
	book := &x5Book{}
	switch f.Replay.Module {
	case "BVH":
		x5BvhReplay(env, book, f.Replay.Sc)
	case "Save":
		x5SaveReplay(env, book, f.Replay.Sc)
	default:
		env.Infra("replay: unknown module %q", f.Replay.Module)
		return
	}
	book.flush(env)
	env.Cov.States, env.Cov.Transitions = 1, 1
	env.Sample(f.Replay.Module)
}
